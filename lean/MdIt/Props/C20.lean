/-
  C20 — Typed storage and tree API obey their map and traversal semantics.

  Part 1 (`MdIt.ErasedSet`): the association-list model of `ErasedSet` keeps the invariant
  "keys pairwise distinct ∧ every stored box has the type its key names" under every operation, hence
  no `downcast(..).unwrap()` can fail in any call sequence, and it refines the abstract map
  `Nat → Option Nat` (`Spec`), including `len` = cardinality of the domain.
  Part 2 (`MdIt.Tree`): `walk` = valid child-index paths in lexicographic order, each with its node
  and its length as depth; `walk_mut`; `replace`.
-/
import MdIt.Model.ErasedSet
import MdIt.Model.Tree

namespace MdIt.ErasedSet

/-! ### invariant -/

def keys (s : State) : List Nat := s.map Prod.fst

/-- at most one entry per type -/
def NoDupKeys (s : State) : Prop := (keys s).Nodup

/-- every stored box is of the type its key names -/
def Tagged (s : State) : Prop := ∀ k v, (k, v) ∈ s → v.tag = k

def Inv (s : State) : Prop := NoDupKeys s ∧ Tagged s

/-! ### abstract map specification -/

abbrev Map := Nat → Option Nat

def Map.empty : Map := fun _ => none

def Map.update (m : Map) (k : Nat) (o : Option Nat) : Map := fun k' => if k' = k then o else m k'

/-- `n` is the number of keys bound in `m` (for ANY duplicate-free enumeration of the domain) -/
def Card (m : Map) (n : Nat) : Prop :=
  ∃ ks : List Nat, ks.Nodup ∧ (∀ k, k ∈ ks ↔ (m k).isSome) ∧ ks.length = n

def Spec.getOrInsert (m : Map) (k p : Nat) (m' : Map) (o : Out) : Prop :=
  match m k with
  | some x => m' = m ∧ o = .val x
  | none => m' = m.update k (some p) ∧ o = .val p

/-- `Spec m op m' o`: on the map `m`, `op` may answer `o` and leave `m'` -/
def Spec (m : Map) : Op → Map → Out → Prop
  | .insert k p, m', o => m' = m.update k (some p) ∧ o = .opt (m k)
  | .get k, m', o => m' = m ∧ o = .opt (m k)
  | .set k p, m', o =>
      m' = (if (m k).isSome then m.update k (some p) else m) ∧ o = .bool (m k).isSome
  | .getOrInsert k p, m', o => Spec.getOrInsert m k p m' o
  | .getOrInsertWith k p, m', o => Spec.getOrInsert m k p m' o
  | .getOrInsertDefault k p, m', o => Spec.getOrInsert m k p m' o
  | .remove k, m', o => m' = m.update k none ∧ o = .opt (m k)
  | .clear, m', o => m' = Map.empty ∧ o = .unit
  | .len, m', o => m' = m ∧ ∃ n, o = .nat n ∧ Card m n
  | .isEmpty, m', o => m' = m ∧ ∃ b, o = .bool b ∧ (b = true ↔ ∀ k, m k = none)
  | .contains k, m', o => m' = m ∧ o = .bool (m k).isSome

/-- the specification of a call sequence -/
def SpecRun (m : Map) : List Op → Map → List Out → Prop
  | [], m', os => m' = m ∧ os = []
  | op :: ops, m', os => ∃ m1 o os', Spec m op m1 o ∧ SpecRun m1 ops m' os' ∧ os = o :: os'

/-- abstraction: the payload found under each key -/
def abs (s : State) : Map := fun k => (lookup k s).map (·.payload)

/-! ### association-list lemmas -/

theorem lookup_put (k k' : Nat) (v : Val) (s : State) :
    lookup k' (put k v s) = if k' = k then some v else lookup k' s := by
  induction s with
  | nil => simp [put, lookup]; grind
  | cons e r ih =>
    obtain ⟨k0, v0⟩ := e
    by_cases h0 : k0 = k <;> by_cases h1 : k' = k <;> simp_all [put, lookup] <;> grind

theorem mem_keys_put (k k' : Nat) (v : Val) (s : State) :
    k' ∈ keys (put k v s) ↔ k' = k ∨ k' ∈ keys s := by
  induction s with
  | nil => simp [put, keys]
  | cons e r ih =>
    obtain ⟨k0, v0⟩ := e
    by_cases h0 : k0 = k <;> simp_all [put, keys] <;> grind

theorem mem_put {k : Nat} {v : Val} {s : State} {e : Nat × Val} (h : e ∈ put k v s) :
    e = (k, v) ∨ e ∈ s := by
  induction s with
  | nil => simp_all [put]
  | cons e0 r ih =>
    obtain ⟨k0, v0⟩ := e0
    by_cases h0 : k0 = k <;> simp_all [put] <;> grind

theorem mem_erase {k : Nat} {s : State} {e : Nat × Val} (h : e ∈ erase k s) : e ∈ s := by
  induction s with
  | nil => simp_all [erase]
  | cons e0 r ih =>
    obtain ⟨k0, v0⟩ := e0
    by_cases h0 : k0 = k <;> simp_all [erase] <;> grind

theorem mem_keys_erase {k k' : Nat} {s : State} (h : k' ∈ keys (erase k s)) : k' ∈ keys s := by
  simp only [keys, List.mem_map] at *
  obtain ⟨e, he, rfl⟩ := h
  exact ⟨e, mem_erase he, rfl⟩

theorem lookup_isSome (k : Nat) (s : State) : (lookup k s).isSome = true ↔ k ∈ keys s := by
  induction s with
  | nil => simp [lookup, keys]
  | cons e r ih =>
    obtain ⟨k0, v0⟩ := e
    by_cases h0 : k0 = k <;> simp_all [lookup, keys] <;> grind

theorem lookup_none (k : Nat) (s : State) : lookup k s = none ↔ k ∉ keys s := by
  rw [← lookup_isSome]; cases lookup k s <;> simp

theorem lookup_mem {k : Nat} {v : Val} {s : State} (h : lookup k s = some v) : (k, v) ∈ s := by
  induction s with
  | nil => simp [lookup] at h
  | cons e r ih =>
    obtain ⟨k0, v0⟩ := e
    by_cases h0 : k0 = k <;> simp_all [lookup]

theorem nodup_put {k : Nat} {v : Val} {s : State} (h : NoDupKeys s) : NoDupKeys (put k v s) := by
  induction s with
  | nil => simp [put, NoDupKeys, keys]
  | cons e r ih =>
    obtain ⟨k0, v0⟩ := e
    have hr : NoDupKeys r := by
      simp only [NoDupKeys, keys, List.map_cons, List.nodup_cons] at h; exact h.2
    have hk0 : k0 ∉ keys r := by
      simp only [NoDupKeys, keys, List.map_cons, List.nodup_cons] at h; exact h.1
    by_cases h0 : k0 = k
    · subst h0
      simp only [put, if_true]
      simp only [NoDupKeys, keys, List.map_cons, List.nodup_cons]
      exact ⟨hk0, hr⟩
    · simp only [put, h0, if_false]
      simp only [NoDupKeys, keys, List.map_cons, List.nodup_cons]
      refine ⟨?_, ih hr⟩
      intro hmem
      have := (mem_keys_put k k0 v r).1 hmem
      grind

theorem nodup_erase {k : Nat} {s : State} (h : NoDupKeys s) : NoDupKeys (erase k s) := by
  induction s with
  | nil => simp [erase, NoDupKeys, keys]
  | cons e r ih =>
    obtain ⟨k0, v0⟩ := e
    have hr : NoDupKeys r := by
      simp only [NoDupKeys, keys, List.map_cons, List.nodup_cons] at h; exact h.2
    have hk0 : k0 ∉ keys r := by
      simp only [NoDupKeys, keys, List.map_cons, List.nodup_cons] at h; exact h.1
    by_cases h0 : k0 = k
    · simp only [erase, h0, if_true]; exact hr
    · simp only [erase, h0, if_false]
      simp only [NoDupKeys, keys, List.map_cons, List.nodup_cons]
      exact ⟨fun hm => hk0 (mem_keys_erase hm), ih hr⟩

theorem lookup_erase (k k' : Nat) {s : State} (h : NoDupKeys s) :
    lookup k' (erase k s) = if k' = k then none else lookup k' s := by
  induction s with
  | nil => simp [erase, lookup]
  | cons e r ih =>
    obtain ⟨k0, v0⟩ := e
    have hr : NoDupKeys r := by
      simp only [NoDupKeys, keys, List.map_cons, List.nodup_cons] at h; exact h.2
    have hk0 : k0 ∉ keys r := by
      simp only [NoDupKeys, keys, List.map_cons, List.nodup_cons] at h; exact h.1
    by_cases h0 : k0 = k
    · subst h0
      simp only [erase, if_true]
      by_cases h1 : k' = k0
      · subst h1; simp [(lookup_none k' r).2 hk0]
      · simp [h1, lookup, Ne.symm h1]
    · simp only [erase, h0, if_false, lookup]
      by_cases h1 : k0 = k'
      · subst h1; simp [h0]
      · simp [h1, ih hr]

/-! ### the invariant is kept, the abstraction commutes -/

theorem inv_empty : Inv empty := by
  simp [Inv, NoDupKeys, Tagged, keys, empty]

theorem inv_put {k p : Nat} {s : State} (h : Inv s) : Inv (put k ⟨k, p⟩ s) := by
  refine ⟨nodup_put h.1, fun k' v hm => ?_⟩
  rcases mem_put hm with h1 | h1
  · cases h1; rfl
  · exact h.2 _ _ h1

theorem inv_erase {k : Nat} {s : State} (h : Inv s) : Inv (erase k s) :=
  ⟨nodup_erase h.1, fun _ _ hm => h.2 _ _ (mem_erase hm)⟩

theorem downcast_of_inv {k : Nat} {v : Val} {s : State} (h : Inv s) (hl : lookup k s = some v) :
    downcast k v = .ok v.payload ∧ downcast? k v = some v.payload := by
  have := h.2 _ _ (lookup_mem hl)
  simp [downcast, downcast?, this]

theorem abs_put (k p : Nat) (s : State) : abs (put k ⟨k, p⟩ s) = (abs s).update k (some p) := by
  funext k'
  simp only [abs, lookup_put, Map.update]
  split <;> rfl

theorem abs_erase (k : Nat) {s : State} (h : NoDupKeys s) :
    abs (erase k s) = (abs s).update k none := by
  funext k'
  simp only [abs, lookup_erase k k' h, Map.update]
  split <;> rfl

theorem abs_isSome (k : Nat) (s : State) : (abs s k).isSome = (lookup k s).isSome := by
  simp [abs]

/-- two duplicate-free enumerations of the same set have the same length -/
theorem nodup_length_le {l1 l2 : List Nat} (h1 : l1.Nodup) (hs : ∀ x, x ∈ l1 → x ∈ l2) :
    l1.length ≤ l2.length := by
  induction l1 generalizing l2 with
  | nil => simp
  | cons a r ih =>
    rw [List.nodup_cons] at h1
    have ha : a ∈ l2 := hs a (by simp)
    have := ih (l2 := l2.erase a) h1.2 (fun x hx => by
      have hne : x ≠ a := fun e => h1.1 (e ▸ hx)
      exact (List.mem_erase_of_ne hne).2 (hs x (by simp [hx])))
    have hl := List.length_erase_of_mem ha
    have : 0 < l2.length := List.length_pos_of_mem ha
    simp only [List.length_cons]; omega

/-- the cardinality of the domain is unique: `Spec` determines the answer of `len` -/
theorem Card.unique {m : Map} {a b : Nat} (ha : Card m a) (hb : Card m b) : a = b := by
  obtain ⟨la, na, ma, rfl⟩ := ha
  obtain ⟨lb, nb, mb, rfl⟩ := hb
  have h1 := nodup_length_le na (fun x hx => (mb x).2 ((ma x).1 hx))
  have h2 := nodup_length_le nb (fun x hx => (ma x).2 ((mb x).1 hx))
  omega

/-- `len` is the number of bound keys -/
theorem card_abs {s : State} (h : Inv s) : Card (abs s) (len s) := by
  refine ⟨keys s, h.1, fun k => ?_, by simp [keys, len]⟩
  rw [abs_isSome, lookup_isSome]

theorem getOrInsertWith_ok {k p : Nat} {s : State} (h : Inv s) :
    ∃ s' v, getOrInsertWith k (fun _ => p) s = .ok (s', v) ∧ Inv s' ∧
      Spec.getOrInsert (abs s) k p (abs s') (.val v) := by
  cases hl : lookup k s with
  | none =>
    refine ⟨put k ⟨k, p⟩ s, p, by simp [getOrInsertWith, hl], inv_put h, ?_⟩
    simp [Spec.getOrInsert, abs, hl, abs_put]
  | some old =>
    have hd := downcast_of_inv h hl
    refine ⟨s, old.payload, by simp [getOrInsertWith, hl, hd.1], h, ?_⟩
    simp [Spec.getOrInsert, abs, hl]

theorem getOrInsert_eq (k p : Nat) (s : State) :
    getOrInsert k p s = getOrInsertWith k (fun _ => p) s := by
  simp [getOrInsert, getOrInsertWith]

/-- One step from a state satisfying the invariant: it does not panic, keeps the invariant, and is
    a step of the map specification between the abstractions. -/
theorem step_ok {s : State} (h : Inv s) (op : Op) :
    ∃ s' o, step s op = .ok (s', o) ∧ Inv s' ∧ Spec (abs s) op (abs s') o := by
  cases op with
  | insert k p =>
    cases hl : lookup k s with
    | none =>
      refine ⟨put k ⟨k, p⟩ s, .opt none, by simp [step, insert, hl], inv_put h, ?_⟩
      simp [Spec, abs_put, abs, hl]
    | some old =>
      have hd := downcast_of_inv h hl
      refine ⟨put k ⟨k, p⟩ s, .opt (some old.payload), by simp [step, insert, hl, hd.1],
        inv_put h, ?_⟩
      simp [Spec, abs_put, abs, hl]
  | get k =>
    refine ⟨s, .opt (get k s), rfl, h, rfl, ?_⟩
    cases hl : lookup k s with
    | none => simp [get, abs, hl]
    | some old => simp [get, abs, hl, (downcast_of_inv h hl).2]
  | set k p =>
    cases hl : lookup k s with
    | none =>
      refine ⟨s, .bool false, by simp [step, set, hl], h, ?_⟩
      simp [Spec, abs, hl]
    | some old =>
      have hd := downcast_of_inv h hl
      refine ⟨put k ⟨k, p⟩ s, .bool true, by simp [step, set, hl, hd.2], inv_put h, ?_⟩
      simp [Spec, abs_put, abs, hl]
  | getOrInsert k p =>
    obtain ⟨s', v, h1, h2, h3⟩ := getOrInsertWith_ok (k := k) (p := p) h
    exact ⟨s', .val v, by simp [step, getOrInsert_eq, h1], h2, h3⟩
  | getOrInsertWith k p =>
    obtain ⟨s', v, h1, h2, h3⟩ := getOrInsertWith_ok (k := k) (p := p) h
    exact ⟨s', .val v, by simp [step, h1], h2, h3⟩
  | getOrInsertDefault k p =>
    obtain ⟨s', v, h1, h2, h3⟩ := getOrInsertWith_ok (k := k) (p := p) h
    exact ⟨s', .val v, by simp [step, getOrInsertDefault, h1], h2, h3⟩
  | remove k =>
    cases hl : lookup k s with
    | none =>
      refine ⟨s, .opt none, by simp [step, remove, hl], h, ?_⟩
      simp only [Spec, abs, hl, Option.map_none, and_true]
      funext k'
      simp only [Map.update]
      split
      · next e => subst e; simp [abs, hl]
      · rfl
    | some old =>
      have hd := downcast_of_inv h hl
      refine ⟨erase k s, .opt (some old.payload), by simp [step, remove, hl, hd.1], inv_erase h, ?_⟩
      simp [Spec, abs_erase k h.1]
      simp [abs, hl]
  | clear =>
    refine ⟨[], .unit, rfl, inv_empty, ?_, rfl⟩
    funext k; simp [abs, lookup, Map.empty]
  | len => exact ⟨s, .nat (len s), rfl, h, rfl, len s, rfl, card_abs h⟩
  | isEmpty =>
    refine ⟨s, .bool (isEmpty s), rfl, h, rfl, isEmpty s, rfl, ?_⟩
    cases s with
    | nil => simp [isEmpty, abs, lookup]
    | cons e r =>
      obtain ⟨k0, v0⟩ := e
      simp only [isEmpty, List.isEmpty_cons, Bool.false_eq_true, false_iff]
      intro hall
      have := hall k0
      simp [abs, lookup] at this
  | contains k => exact ⟨s, .bool (contains k s), rfl, h, rfl, by simp [contains, abs_isSome]⟩


/-! ### property theorems, storage half -/

/-- states the API can produce from `ErasedSet::new()` -/
def Reachable (s : State) : Prop := ∃ ops os, run empty ops = .ok (s, os)

/-- **eset_inv.** The invariant holds for `new()` and is preserved by every operation that returns. -/
theorem eset_inv :
    Inv empty ∧ ∀ s op s' o, Inv s → step s op = .ok (s', o) → Inv s' := by
  refine ⟨inv_empty, fun s op s' o h hs => ?_⟩
  obtain ⟨s1, o1, h1, h2, _⟩ := step_ok h op
  rw [h1] at hs
  cases hs
  exact h2

/-- **eset_refines.** From a state satisfying the invariant every operation answers what the map
    specification answers and commutes with the abstraction. -/
theorem eset_refines {s s' : State} {op : Op} {o : Out} (h : Inv s)
    (hs : step s op = .ok (s', o)) : Spec (abs s) op (abs s') o := by
  obtain ⟨s1, o1, h1, _, h3⟩ := step_ok h op
  rw [h1] at hs
  cases hs
  exact h3

/-- no operation panics from a state satisfying the invariant -/
theorem eset_total_step {s : State} (h : Inv s) (op : Op) : ∃ r, step s op = .ok r := by
  obtain ⟨s1, o1, h1, _, _⟩ := step_ok h op
  exact ⟨_, h1⟩

/-- sequences: from an invariant state every call sequence runs to the end without a panic,
    gives one result per call, ends in an invariant state, and is a run of the map specification -/
theorem run_ok (ops : List Op) {s : State} (h : Inv s) :
    ∃ s' os, run s ops = .ok (s', os) ∧ Inv s' ∧ os.length = ops.length ∧
      SpecRun (abs s) ops (abs s') os := by
  induction ops generalizing s with
  | nil => exact ⟨s, [], rfl, h, rfl, rfl, rfl⟩
  | cons op ops ih =>
    obtain ⟨s1, o1, h1, h2, h3⟩ := step_ok h op
    obtain ⟨s2, os, g1, g2, g3, g4⟩ := ih h2
    refine ⟨s2, o1 :: os, by simp [run, h1, g1], g2, by simp [g3], ?_⟩
    exact ⟨abs s1, o1, os, h3, g4, rfl⟩

/-- **eset_total.** No call sequence on a fresh set ever reaches a failing `downcast(..).unwrap()`. -/
theorem eset_total (ops : List Op) : ∃ s' os, run empty ops = .ok (s', os) := by
  obtain ⟨s', os, h, _⟩ := run_ok ops inv_empty
  exact ⟨s', os, h⟩

/-- the invariant holds in every reachable state (every op sequence, by induction over the list) -/
theorem eset_inv_reachable {s : State} (h : Reachable s) : Inv s := by
  obtain ⟨ops, os, hr⟩ := h
  obtain ⟨s', os', h1, h2, _⟩ := run_ok ops inv_empty
  rw [h1] at hr
  cases hr
  exact h2

/-- "at most one value per type": two entries under one key are the same entry -/
theorem eset_at_most_one {s : State} (h : Reachable s) {k : Nat} {v1 v2 : Val}
    (h1 : (k, v1) ∈ s) (h2 : (k, v2) ∈ s) : v1 = v2 := by
  have hn := (eset_inv_reachable h).1
  clear h
  induction s with
  | nil => simp at h1
  | cons e r ih =>
    obtain ⟨k0, v0⟩ := e
    simp only [NoDupKeys, keys, List.map_cons, List.nodup_cons] at hn
    have hmem : ∀ v, (k, v) ∈ r → k ∈ List.map Prod.fst r := fun v hv =>
      List.mem_map.2 ⟨(k, v), hv, rfl⟩
    simp only [List.mem_cons, Prod.mk.injEq] at h1 h2
    rcases h1 with ⟨rfl, rfl⟩ | h1 <;> rcases h2 with ⟨e2, rfl⟩ | h2
    · rfl
    · exact absurd (hmem _ h2) hn.1
    · exact absurd (hmem _ h1) (e2 ▸ hn.1)
    · exact ih h1 h2 hn.2

/-- in a reachable state a stored box always has the type of its key: `get` finds exactly the
    entries of the list -/
theorem eset_get_iff {s : State} (h : Reachable s) (k p : Nat) :
    get k s = some p ↔ (k, ⟨k, p⟩) ∈ s := by
  have hi := eset_inv_reachable h
  constructor
  · intro hg
    cases hl : lookup k s with
    | none => simp [get, hl] at hg
    | some v =>
      have ht := hi.2 _ _ (lookup_mem hl)
      simp [get, hl, downcast?, ht] at hg
      have : v = ⟨k, p⟩ := by cases v; simp_all
      exact this ▸ lookup_mem hl
  · intro hm
    have hk : k ∈ keys s := List.mem_map.2 ⟨_, hm, rfl⟩
    cases hl : lookup k s with
    | none => exact absurd hk ((lookup_none k s).1 hl)
    | some v =>
      have := eset_at_most_one h (lookup_mem hl) hm
      simp [get, hl, this, downcast?]

/-- **run_refines.** Every call sequence on a fresh set: results and final contents are those of
    the map specification started from the empty map, and the final `len` is the size of the domain. -/
theorem run_refines (ops : List Op) :
    ∃ s' os, run empty ops = .ok (s', os) ∧ os.length = ops.length ∧
      SpecRun Map.empty ops (abs s') os ∧ Card (abs s') (len s') := by
  obtain ⟨s', os, h1, h2, h3, h4⟩ := run_ok ops inv_empty
  exact ⟨s', os, h1, h3, h4, card_abs h2⟩

/-- The specification is functional: it fixes the answer and the resulting map of every call, so
    `eset_refines` pins the model's behaviour completely. -/
theorem spec_deterministic {m m1 m2 : Map} {op : Op} {o1 o2 : Out}
    (h1 : Spec m op m1 o1) (h2 : Spec m op m2 o2) : m1 = m2 ∧ o1 = o2 := by
  have goi : ∀ k p, Spec.getOrInsert m k p m1 o1 → Spec.getOrInsert m k p m2 o2 →
      m1 = m2 ∧ o1 = o2 := by
    intro k p a b
    unfold Spec.getOrInsert at a b
    cases hm : m k <;> simp only [hm] at a b
    · exact ⟨a.1.trans b.1.symm, a.2.trans b.2.symm⟩
    · exact ⟨a.1.trans b.1.symm, a.2.trans b.2.symm⟩
  cases op with
  | insert k p => exact ⟨h1.1.trans h2.1.symm, h1.2.trans h2.2.symm⟩
  | get k => exact ⟨h1.1.trans h2.1.symm, h1.2.trans h2.2.symm⟩
  | set k p => exact ⟨h1.1.trans h2.1.symm, h1.2.trans h2.2.symm⟩
  | getOrInsert k p => exact goi k p h1 h2
  | getOrInsertWith k p => exact goi k p h1 h2
  | getOrInsertDefault k p => exact goi k p h1 h2
  | remove k => exact ⟨h1.1.trans h2.1.symm, h1.2.trans h2.2.symm⟩
  | clear => exact ⟨h1.1.trans h2.1.symm, h1.2.trans h2.2.symm⟩
  | len =>
    obtain ⟨e1, n1, rfl, c1⟩ := h1
    obtain ⟨e2, n2, rfl, c2⟩ := h2
    exact ⟨e1.trans e2.symm, by rw [Card.unique c1 c2]⟩
  | isEmpty =>
    obtain ⟨e1, b1, rfl, c1⟩ := h1
    obtain ⟨e2, b2, rfl, c2⟩ := h2
    refine ⟨e1.trans e2.symm, ?_⟩
    have : b1 = b2 := by
      cases b1 <;> cases b2 <;> simp_all
    rw [this]
  | contains k => exact ⟨h1.1.trans h2.1.symm, h1.2.trans h2.2.symm⟩

theorem specRun_deterministic {ops : List Op} {m m1 m2 : Map} {os1 os2 : List Out}
    (h1 : SpecRun m ops m1 os1) (h2 : SpecRun m ops m2 os2) : m1 = m2 ∧ os1 = os2 := by
  induction ops generalizing m os1 os2 with
  | nil => exact ⟨h1.1.trans h2.1.symm, h1.2.trans h2.2.symm⟩
  | cons op ops ih =>
    obtain ⟨a1, o1, r1, s1, t1, rfl⟩ := h1
    obtain ⟨a2, o2, r2, s2, t2, rfl⟩ := h2
    obtain ⟨rfl, rfl⟩ := spec_deterministic s1 s2
    obtain ⟨rfl, rfl⟩ := ih t1 t2
    exact ⟨rfl, rfl⟩

/-! ### non-vacuity -/

/-- eight calls over three types (1, 2, 3), every kind of result -/
example :
    run empty [.insert 1 10, .insert 2 20, .getOrInsert 3 30, .insert 1 11, .set 2 21,
               .remove 3, .get 2, .len]
      = .ok ([(1, ⟨1, 11⟩), (2, ⟨2, 21⟩)],
             [.opt none, .opt none, .val 30, .opt (some 10), .bool true, .opt (some 30),
              .opt (some 21), .nat 2]) := by rfl

/-- the reached state is an instance of every hypothesis used above -/
example : Inv [(1, ⟨1, 11⟩), (2, ⟨2, 21⟩)] := by
  refine ⟨by simp [NoDupKeys, keys], ?_⟩
  intro k v h
  simp at h
  rcases h with ⟨rfl, rfl⟩ | ⟨rfl, rfl⟩ <;> rfl

/-- the failing downcast exists in the model: a box of type 2 filed under key 1 (a state the API
    cannot produce, by `eset_inv_reachable`) makes `remove`, `insert` and `get_or_insert` panic,
    while `get` answers `None` -/
example : step [(1, ⟨2, 0⟩)] (.remove 1) = .error .downcast
    ∧ step [(1, ⟨2, 0⟩)] (.insert 1 5) = .error .downcast
    ∧ step [(1, ⟨2, 0⟩)] (.getOrInsert 1 5) = .error .downcast
    ∧ step [(1, ⟨2, 0⟩)] (.get 1) = .ok ([(1, ⟨2, 0⟩)], .opt none) := ⟨rfl, rfl, rfl, rfl⟩

/-- and `NoDupKeys` is what makes `remove` a map deletion: with a duplicated key it is not -/
example : run [(1, ⟨1, 5⟩), (1, ⟨1, 6⟩)] [.remove 1, .get 1]
    = .ok ([(1, ⟨1, 6⟩)], [.opt (some 5), .opt (some 6)]) := by rfl

end MdIt.ErasedSet

namespace MdIt.Tree

/-! ### an independent description of pre-order: child-index paths -/

/-- move a path to the next sibling subtree -/
def shift : List Nat → List Nat
  | [] => []
  | i :: p => (i + 1) :: p

mutual
/-- all child-index paths of a tree: the root, then the paths into the 1st child, the 2nd, … -/
def paths : Node → List (List Nat)
  | ⟨_, _, _, _, cs⟩ => [] :: pathsList cs
def pathsList : List Node → List (List Nat)
  | [] => []
  | c :: cs => (paths c).map (0 :: ·) ++ (pathsList cs).map shift
end

/-- the node a path leads to (`none`: the path leaves the tree) -/
def nodeAt : Node → List Nat → Option Node
  | n, [] => some n
  | n, i :: p =>
    match n.children[i]? with
    | none => none
    | some c => nodeAt c p

def nodeAtList (cs : List Node) : List Nat → Option Node
  | [] => none
  | i :: p =>
    match cs[i]? with
    | none => none
    | some c => nodeAt c p

/-- pre-order, defined from paths only: every valid path in lexicographic order (see
    `walk_preorder`), with the node it leads to and its length as depth -/
def preorder (t : Node) : List (Node × Nat) :=
  (paths t).filterMap (fun p => (nodeAt t p).map (fun n => (n, p.length)))

theorem paths_eq (n : Node) : paths n = [] :: pathsList n.children := by
  cases n; simp [paths]

theorem walkAux_eq (n : Node) (d : Nat) : walkAux n d = (n, d) :: walkList n.children (d + 1) := by
  cases n; simp [walkAux]

theorem size_eq (n : Node) : size n = 1 + sizeList n.children := by
  cases n; simp [size]

theorem height_eq (n : Node) : height n = 1 + heightList n.children := by
  cases n; simp [height]

theorem nodeAt_cons (n : Node) (i : Nat) (p : List Nat) :
    nodeAt n (i :: p) = nodeAtList n.children (i :: p) := by
  simp [nodeAt, nodeAtList]

theorem nodeAtList_shift (c : Node) (cs : List Node) (p : List Nat) :
    nodeAtList (c :: cs) (shift p) = nodeAtList cs p := by
  cases p <;> simp [shift, nodeAtList]

theorem length_shift (p : List Nat) : (shift p).length = p.length := by
  cases p <;> simp [shift]

theorem shift_eq_nil {p : List Nat} : shift p = [] ↔ p = [] := by
  cases p <;> simp [shift]

theorem nil_not_mem_pathsList (cs : List Node) : [] ∉ pathsList cs := by
  induction cs with
  | nil => simp [pathsList]
  | cons c cs ih => simp [pathsList, shift_eq_nil, ih]

/-- injection of a visited pair into the codomain of `nodeAt` -/
def lift (x : Node × Nat) : Option Node × Nat := (some x.1, x.2)

mutual
theorem walkAux_paths : ∀ (n : Node) (d : Nat),
    (walkAux n d).map lift = (paths n).map (fun p => (nodeAt n p, d + p.length))
  | ⟨k, pl, s, a, cs⟩, d => by
    have ih := walkList_paths cs d
    simp only [walkAux, paths, List.map_cons, ih, lift, nodeAt, List.length_nil, Nat.add_zero]
    congr 1
    apply List.map_congr_left
    intro p hp
    cases p with
    | nil => exact absurd hp (nil_not_mem_pathsList cs)
    | cons i q => simp [nodeAt_cons]
theorem walkList_paths : ∀ (cs : List Node) (d : Nat),
    (walkList cs (d + 1)).map lift = (pathsList cs).map (fun p => (nodeAtList cs p, d + p.length))
  | [], d => by simp [walkList, pathsList]
  | c :: cs, d => by
    have ih1 := walkAux_paths c (d + 1)
    have ih2 := walkList_paths cs d
    simp only [walkList, pathsList, List.map_append, ih1, ih2, List.map_map]
    congr 1
    · apply List.map_congr_left
      intro p _
      simp [nodeAtList]; omega
    · apply List.map_congr_left
      intro p _
      simp [nodeAtList_shift, length_shift]
end

mutual
theorem walkAux_length : ∀ (n : Node) (d : Nat), (walkAux n d).length = size n
  | ⟨k, pl, s, a, cs⟩, d => by
    simp [walkAux, size, walkList_length cs (d + 1)]; omega
theorem walkList_length : ∀ (cs : List Node) (d : Nat), (walkList cs d).length = sizeList cs
  | [], d => by simp [walkList, sizeList]
  | c :: cs, d => by
    simp [walkList, sizeList, walkAux_length c d, walkList_length cs d]
end

/-! ### the paths are exactly the valid ones, in strictly increasing lexicographic order -/

theorem shift_lt {p q : List Nat} (h : p < q) : shift p < shift q := by
  cases p with
  | nil =>
    cases q with
    | nil => exact absurd h (List.lt_irrefl _)
    | cons j q => exact List.Lex.nil
  | cons i p =>
    cases q with
    | nil => cases h
    | cons j q =>
      simp only [shift]
      rcases List.cons_lt_cons_iff.1 h with h1 | ⟨h1, h2⟩
      · exact List.cons_lt_cons_iff.2 (Or.inl (by omega))
      · exact List.cons_lt_cons_iff.2 (Or.inr ⟨by omega, h2⟩)

mutual
theorem paths_sorted : ∀ (n : Node), (paths n).Pairwise (· < ·)
  | ⟨k, pl, s, a, cs⟩ => by
    simp only [paths, List.pairwise_cons]
    refine ⟨fun p hp => ?_, pathsList_sorted cs⟩
    cases p with
    | nil => exact absurd hp (nil_not_mem_pathsList cs)
    | cons i q => exact List.Lex.nil
theorem pathsList_sorted : ∀ (cs : List Node), (pathsList cs).Pairwise (· < ·)
  | [] => by simp [pathsList]
  | c :: cs => by
    simp only [pathsList, List.pairwise_append, List.pairwise_map]
    refine ⟨?_, ?_, ?_⟩
    · exact (paths_sorted c).imp (fun h => List.Lex.cons h)
    · exact (pathsList_sorted cs).imp (fun h => shift_lt h)
    · intro a ha b hb
      obtain ⟨a', _, rfl⟩ := List.mem_map.1 ha
      obtain ⟨b', hb', rfl⟩ := List.mem_map.1 hb
      cases b' with
      | nil => exact absurd hb' (nil_not_mem_pathsList cs)
      | cons j q => exact List.cons_lt_cons_iff.2 (Or.inl (by omega))
end

theorem mem_pathsList (cs : List Node) (i : Nat) (q : List Nat) :
    i :: q ∈ pathsList cs ↔ ∃ c, cs[i]? = some c ∧ q ∈ paths c := by
  induction cs generalizing i with
  | nil => simp [pathsList]
  | cons c cs ih =>
    simp only [pathsList, List.mem_append, List.mem_map]
    constructor
    · rintro (⟨a, ha, he⟩ | ⟨a, ha, he⟩)
      · cases he; exact ⟨c, by simp, ha⟩
      · cases a with
        | nil => simp [shift] at he
        | cons j a' =>
          simp only [shift, List.cons.injEq] at he
          obtain ⟨rfl, rfl⟩ := he
          obtain ⟨c', h1, h2⟩ := (ih j).1 ha
          exact ⟨c', by simpa using h1, h2⟩
    · rintro ⟨c', h1, h2⟩
      cases i with
      | zero =>
        simp only [List.getElem?_cons_zero, Option.some.injEq] at h1
        subst h1
        exact Or.inl ⟨q, h2, rfl⟩
      | succ j =>
        simp only [List.getElem?_cons_succ] at h1
        exact Or.inr ⟨j :: q, (ih j).2 ⟨c', h1, h2⟩, rfl⟩

/-- a path is listed iff it leads to a node -/
theorem mem_paths (n : Node) (p : List Nat) : p ∈ paths n ↔ (nodeAt n p).isSome = true := by
  induction p generalizing n with
  | nil => simp [paths_eq, nodeAt]
  | cons i q ih =>
    rw [paths_eq, List.mem_cons, mem_pathsList]
    simp only [reduceCtorEq, false_or, nodeAt]
    cases h : n.children[i]? with
    | none => simp
    | some c => simp [ih c]

/-- a strictly increasing list is determined by its members: `paths t` is THE increasing
    enumeration of the valid paths, no other list qualifies -/
theorem sorted_ext : ∀ {l1 l2 : List (List Nat)}, l1.Pairwise (· < ·) → l2.Pairwise (· < ·) →
    (∀ x, x ∈ l1 ↔ x ∈ l2) → l1 = l2
  | [], l2, _, _, h => by
    symm; apply List.eq_nil_iff_forall_not_mem.2
    intro x hx; simpa using (h x).2 hx
  | a :: r, [], _, _, h => by simpa using (h a).1 (by simp)
  | a :: r, b :: r2, h1, h2, h => by
    rw [List.pairwise_cons] at h1 h2
    have hab : a = b := by
      rcases List.mem_cons.1 ((h a).1 (by simp)) with e | ha
      · exact e
      · rcases List.mem_cons.1 ((h b).2 (by simp)) with e | hb
        · exact e.symm
        · exact absurd (h1.1 b hb) (List.lt_asymm (h2.1 a ha))
    subst hab
    have : r = r2 := by
      apply sorted_ext h1.2 h2.2
      intro x
      constructor
      · intro hx
        rcases List.mem_cons.1 ((h x).1 (by simp [hx])) with e | hx2
        · subst e; exact absurd (h1.1 x hx) (List.lt_irrefl x)
        · exact hx2
      · intro hx
        rcases List.mem_cons.1 ((h x).2 (by simp [hx])) with e | hx2
        · subst e; exact absurd (h2.1 x hx) (List.lt_irrefl x)
        · exact hx2
    rw [this]

/-- `paths t` is characterised without reference to its definition -/
theorem paths_unique (t : Node) (l : List (List Nat)) (hs : l.Pairwise (· < ·))
    (hm : ∀ p, p ∈ l ↔ (nodeAt t p).isSome = true) : l = paths t :=
  sorted_ext hs (paths_sorted t) (fun p => (hm p).trans (mem_paths t p).symm)

theorem map_lift_eq_filterMap (t : Node) :
    ∀ (w : List (Node × Nat)) (ps : List (List Nat)),
      w.map lift = ps.map (fun p => (nodeAt t p, p.length)) →
      w = ps.filterMap (fun p => (nodeAt t p).map (fun n => (n, p.length)))
  | [], [], _ => rfl
  | [], _ :: _, h => by simp at h
  | _ :: _, [], h => by simp at h
  | x :: w, p :: ps, h => by
    simp only [List.map_cons, List.cons.injEq, lift, Prod.mk.injEq] at h
    obtain ⟨⟨h1, h2⟩, h3⟩ := h
    have := map_lift_eq_filterMap t w ps h3
    rw [List.filterMap_cons, ← h1, ← h2, ← this]
    rfl

mutual
theorem walkAux_depth : ∀ (n : Node) (d : Nat) (x : Node × Nat), x ∈ walkAux n d →
    d ≤ x.2 ∧ x.2 < d + height n
  | ⟨k, pl, s, a, cs⟩, d, x, hx => by
    simp only [walkAux, List.mem_cons] at hx
    rcases hx with rfl | hx
    · simp [height]; omega
    · have := walkList_depth cs (d + 1) x hx
      simp only [height]; omega
theorem walkList_depth : ∀ (cs : List Node) (d : Nat) (x : Node × Nat), x ∈ walkList cs d →
    d ≤ x.2 ∧ x.2 < d + heightList cs
  | [], d, x, hx => by simp [walkList] at hx
  | c :: cs, d, x, hx => by
    simp only [walkList, List.mem_append] at hx
    simp only [heightList]
    rcases hx with hx | hx
    · have := walkAux_depth c d x hx; omega
    · have := walkList_depth cs d x hx; omega
end

/-! ### property theorems, traversal half -/

/-- **walk_preorder.** The callback sequence of `Node::walk` is the pre-order of the tree:
    * it is `preorder t`, defined from paths alone;
    * position by position it is (node at the path, length of the path) along `paths t`;
    * `paths t` is strictly increasing in the lexicographic order — so it is THE sorted enumeration
      of its members, hence duplicate-free (each node exactly once) —
    * and its members are exactly the paths that lead to a node (every node is visited);
    * the number of callbacks is the number of nodes. -/
theorem walk_preorder (t : Node) :
    walk t = preorder t
    ∧ (walk t).map lift = (paths t).map (fun p => (nodeAt t p, p.length))
    ∧ (paths t).Pairwise (· < ·)
    ∧ (paths t).Nodup
    ∧ (∀ p, p ∈ paths t ↔ (nodeAt t p).isSome = true)
    ∧ (walk t).length = size t := by
  have hmap : (walk t).map lift = (paths t).map (fun p => (nodeAt t p, p.length)) := by
    have := walkAux_paths t 0
    simpa [walk] using this
  refine ⟨map_lift_eq_filterMap t _ _ hmap, hmap, paths_sorted t, ?_, mem_paths t,
    walkAux_length t 0⟩
  refine (paths_sorted t).imp (fun {a b} h => ?_)
  intro e
  subst e
  exact List.lt_irrefl a h

/-- the `i`-th callback receives the node at the `i`-th path, with that path's length as depth -/
theorem walk_getElem (t : Node) (i : Nat) (h : i < (walk t).length) :
    ∃ p, (paths t)[i]? = some p ∧ nodeAt t p = some (walk t)[i].1 ∧ (walk t)[i].2 = p.length := by
  have hmap := (walk_preorder t).2.1
  have h1 : ((walk t).map lift)[i]? = some (lift (walk t)[i]) := by
    simp [List.getElem?_map, List.getElem?_eq_getElem h]
  rw [hmap, List.getElem?_map] at h1
  cases hp : (paths t)[i]? with
  | none => simp [hp] at h1
  | some p =>
    simp only [hp, Option.map_some, Option.some.injEq, lift, Prod.mk.injEq] at h1
    exact ⟨p, rfl, h1.1, h1.2.symm⟩

/-- reported depths stay below the height of the tree: the `u32` depth counter of the Rust cannot
    overflow on a tree of height ≤ 2^32 -/
theorem walk_depth_lt_height (t : Node) (x : Node × Nat) (h : x ∈ walk t) : x.2 < height t := by
  have := walkAux_depth t 0 x h
  omega

/-! ### `walk_mut` -/

theorem mapOpt_eq_some {g : Node → Option Node} {l rs : List Node} :
    mapOpt g l = some rs ↔ l.map g = rs.map some := by
  induction l generalizing rs with
  | nil => cases rs <;> simp [mapOpt]
  | cons c cs ih =>
    cases hg : g c with
    | none => cases rs <;> simp [mapOpt, hg]
    | some c' =>
      cases hm : mapOpt g cs with
      | none =>
        cases rs with
        | nil => simp [mapOpt, hg, hm]
        | cons r rs =>
          simp only [mapOpt, hg, hm, List.map_cons, List.cons.injEq, Option.some.injEq,
            reduceCtorEq, false_iff]
          intro h
          have := (ih (rs := rs)).2 h.2
          simp [hm] at this
      | some cs' =>
        have h1 := (ih (rs := cs')).1 hm
        cases rs with
        | nil => simp [mapOpt, hg, hm]
        | cons r rs =>
          simp only [mapOpt, hg, hm, Option.some.injEq, List.cons.injEq, List.map_cons, h1]
          constructor
          · rintro ⟨rfl, rfl⟩; exact ⟨rfl, rfl⟩
          · rintro ⟨rfl, h2⟩
            exact ⟨rfl, (List.map_inj_right (fun _ _ => Option.some.inj)).1 h2⟩

theorem mapOpt_congr_some {g : Node → Option Node} {h : Node → Node} {l : List Node}
    (hg : ∀ c, c ∈ l → g c = some (h c)) : mapOpt g l = some (l.map h) := by
  rw [mapOpt_eq_some, List.map_map]
  exact List.map_congr_left (fun c hc => by simp [hg c hc])

theorem mapOpt_mono {g g' : Node → Option Node} {l rs : List Node}
    (hg : ∀ c r, c ∈ l → g c = some r → g' c = some r) (h : mapOpt g l = some rs) :
    mapOpt g' l = some rs := by
  induction l generalizing rs with
  | nil => simpa [mapOpt] using h
  | cons c cs ih =>
    cases hc : g c with
    | none => simp [mapOpt, hc] at h
    | some c' =>
      cases hm : mapOpt g cs with
      | none => simp [mapOpt, hc, hm] at h
      | some cs' =>
        simp only [mapOpt, hc, hm, Option.some.injEq] at h
        subst h
        have h1 := hg c c' (by simp) hc
        have h2 := ih (fun x r hx => hg x r (by simp [hx])) hm
        simp [mapOpt, h1, h2]

/-- unfolding: with fuel left, `walk_mut` calls `f` on the node FIRST and then recurses, one level
    deeper, into the children of WHAT `f` RETURNED; everything else of that result is kept -/
theorem walkMutFuel_spec (f : Node → Nat → Node) (k : Nat) (t : Node) (d : Nat) (r : Node) :
    walkMutFuel f (k + 1) t d = some r ↔
      ∃ cs, (f t d).children.map (fun c => walkMutFuel f k c (d + 1)) = cs.map some ∧
        r = { f t d with children := cs } := by
  simp only [walkMutFuel]
  cases hm : mapOpt (fun c => walkMutFuel f k c (d + 1)) (f t d).children with
  | none =>
    simp only [reduceCtorEq, false_iff]
    rintro ⟨cs, h1, _⟩
    have := mapOpt_eq_some.2 h1
    simp [hm] at this
  | some cs' =>
    have h1 := mapOpt_eq_some.1 hm
    simp only [Option.some.injEq]
    constructor
    · rintro rfl; exact ⟨cs', h1, rfl⟩
    · rintro ⟨cs, h2, rfl⟩
      have : cs = cs' := (List.map_inj_right (fun _ _ => Option.some.inj)).1 (h2.symm.trans h1)
      rw [this]

/-- more stack never changes an answer -/
theorem walkMutFuel_mono (f : Node → Nat → Node) :
    ∀ (k k' : Nat) (t : Node) (d : Nat) (r : Node), k ≤ k' →
      walkMutFuel f k t d = some r → walkMutFuel f k' t d = some r
  | 0, _, _, _, _, _, h => by simp [walkMutFuel] at h
  | k + 1, 0, _, _, _, hk, _ => by omega
  | k + 1, k' + 1, t, d, r, hk, h => by
    simp only [walkMutFuel] at h ⊢
    cases hm : mapOpt (fun c => walkMutFuel f k c (d + 1)) (f t d).children with
    | none => simp [hm] at h
    | some cs =>
      have := mapOpt_mono (g' := fun c => walkMutFuel f k' c (d + 1))
        (fun c r _ hc => walkMutFuel_mono f k k' c (d + 1) r (by omega) hc) hm
      simp only [hm] at h
      simp only [this]
      exact h

/-- the answer does not depend on the stack size, when there is one -/
theorem walkMutFuel_unique (f : Node → Nat → Node) {k k' : Nat} {t : Node} {d : Nat} {r r' : Node}
    (h : walkMutFuel f k t d = some r) (h' : walkMutFuel f k' t d = some r') : r = r' := by
  rcases Nat.le_total k k' with hk | hk
  · have := walkMutFuel_mono f k k' t d r hk h
    rw [this] at h'; exact Option.some.inj h'
  · have := walkMutFuel_mono f k' k t d r' hk h'
    rw [this] at h; exact (Option.some.inj h).symm

/-- callbacks that never make a (sub)tree higher: all callbacks that only rewrite a node's own
    fields, drop or reorder children, splice grandchildren up … -/
def NonExpanding (f : Node → Nat → Node) : Prop := ∀ n d, height (f n d) ≤ height n

theorem height_pos (n : Node) : 0 < height n := by rw [height_eq]; omega

theorem height_le_heightList {c : Node} {cs : List Node} (h : c ∈ cs) :
    height c ≤ heightList cs := by
  induction cs with
  | nil => simp at h
  | cons x xs ih =>
    simp only [heightList]
    rcases List.mem_cons.1 h with rfl | h
    · omega
    · have := ih h; omega

theorem height_child_lt {c n : Node} (h : c ∈ n.children) : height c < height n := by
  have := height_le_heightList h
  rw [height_eq n]; omega

theorem mapOpt_isSome {g : Node → Option Node} {l : List Node}
    (hg : ∀ c, c ∈ l → (g c).isSome = true) : (mapOpt g l).isSome = true := by
  induction l with
  | nil => simp [mapOpt]
  | cons c cs ih =>
    have h1 := hg c (by simp)
    have h2 := ih (fun x hx => hg x (by simp [hx]))
    cases hc : g c with
    | none => simp [hc] at h1
    | some c' =>
      cases hm : mapOpt g cs with
      | none => simp [hm] at h2
      | some cs' => simp [mapOpt, hc, hm]

/-- for such callbacks a stack as deep as the tree is high suffices: `walk_mut` returns -/
theorem walkMutFuel_total {f : Node → Nat → Node} (hf : NonExpanding f) :
    ∀ (k : Nat) (t : Node) (d : Nat), height t ≤ k → (walkMutFuel f k t d).isSome = true
  | 0, t, _, h => by have := height_pos t; omega
  | k + 1, t, d, h => by
    simp only [walkMutFuel]
    have hm : (mapOpt (fun c => walkMutFuel f k c (d + 1)) (f t d).children).isSome = true := by
      apply mapOpt_isSome
      intro c hc
      apply walkMutFuel_total hf k c (d + 1)
      have := height_child_lt hc
      have := hf t d
      omega
    cases hm' : mapOpt (fun c => walkMutFuel f k c (d + 1)) (f t d).children with
    | none => simp [hm'] at hm
    | some cs => simp

/-- `walk_mut` as a total function, for callbacks that do not increase heights -/
def walkMutT (f : Node → Nat → Node) (hf : NonExpanding f) (t : Node) (d : Nat) : Node :=
  (walkMutFuel f (height t) t d).get (walkMutFuel_total hf _ t d (Nat.le_refl _))

theorem walkMutFuel_eq_T {f : Node → Nat → Node} (hf : NonExpanding f) {k : Nat} {t : Node}
    (d : Nat) (h : height t ≤ k) : walkMutFuel f k t d = some (walkMutT f hf t d) := by
  apply walkMutFuel_mono f (height t) k t d _ h
  simp [walkMutT]

/-- **walkMut_spec.** `walk_mut f` = apply `f` to the node (at its depth), keep everything `f`
    returned except that each child `f` left is itself processed the same way one level deeper. -/
theorem walkMut_spec {f : Node → Nat → Node} (hf : NonExpanding f) (t : Node) (d : Nat) :
    walkMutT f hf t d =
      { f t d with children := (f t d).children.map (fun c => walkMutT f hf c (d + 1)) } := by
  obtain ⟨k, hk⟩ : ∃ k, height t = k + 1 := ⟨height t - 1, by have := height_pos t; omega⟩
  have hm : mapOpt (fun c => walkMutFuel f k c (d + 1)) (f t d).children
      = some ((f t d).children.map (fun c => walkMutT f hf c (d + 1))) := by
    apply mapOpt_congr_some
    intro c hc
    apply walkMutFuel_eq_T hf
    have := height_child_lt hc
    have := hf t d
    omega
  have e : walkMutFuel f (height t) t d = some
      { f t d with children := (f t d).children.map (fun c => walkMutT f hf c (d + 1)) } := by
    rw [hk]; simp only [walkMutFuel, hm]
  have e2 := walkMutFuel_eq_T hf d (Nat.le_refl (height t))
  rw [e] at e2
  exact (Option.some.inj e2).symm

/-- the model entry point `walkMut` (stack = height of the input) returns for such callbacks -/
theorem walkMut_total {f : Node → Nat → Node} (hf : NonExpanding f) (t : Node) :
    walkMut f t = some (walkMutT f hf t 0) :=
  walkMutFuel_eq_T hf 0 (Nat.le_refl _)

/-! ### `walk_mut` with a stateful callback: the order of the calls -/

theorem mapOptS_pure {σ : Type} (g : Node → Option Node) (s : σ) (l : List Node) :
    mapOptS (fun s c => (g c).map (fun r => (s, r))) s l = (mapOpt g l).map (fun rs => (s, rs)) := by
  induction l with
  | nil => simp [mapOptS, mapOpt]
  | cons c cs ih =>
    cases hc : g c with
    | none => simp [mapOptS, mapOpt, hc]
    | some c' =>
      cases hm : mapOpt g cs with
      | none => simp [mapOptS, mapOpt, hc, ih, hm]
      | some cs' => simp [mapOptS, mapOpt, hc, ih, hm]

/-- a callback that ignores its state: the stateful model is the pure one -/
theorem walkMutFuelS_pure {σ : Type} (f : Node → Nat → Node) :
    ∀ (k : Nat) (s : σ) (t : Node) (d : Nat),
      walkMutFuelS (fun s n d => (s, f n d)) k s t d = (walkMutFuel f k t d).map (fun r => (s, r))
  | 0, _, _, _ => by simp [walkMutFuelS, walkMutFuel]
  | k + 1, s, t, d => by
    have ih : (fun (s : σ) c => walkMutFuelS (fun s n d => (s, f n d)) k s c (d + 1))
        = (fun s c => (walkMutFuel f k c (d + 1)).map (fun r => (s, r))) := by
      funext s c; exact walkMutFuelS_pure f k s c (d + 1)
    simp only [walkMutFuelS, walkMutFuel, ih, mapOptS_pure]
    cases mapOpt (fun c => walkMutFuel f k c (d + 1)) (f t d).children <;> simp

/-- a callback that records every call `(node, depth)` it receives and rewrites the node with `g` -/
def logged (g : Node → Nat → Node) (log : List (Node × Nat)) (n : Node) (d : Nat) :
    List (Node × Nat) × Node := (log ++ [(n, d)], g n d)

/-- **walkMut_order.** For a callback that leaves the child list alone (it may rewrite everything
    else of the node, e.g. push attributes like `sourcepos.rs`), `walk_mut` makes exactly the calls
    `walk` makes, in the same — pre-order — sequence, each with its true depth. -/
theorem walkMut_order {g : Node → Nat → Node} (hg : ∀ n d, (g n d).children = n.children) :
    ∀ (k : Nat) (t : Node) (d : Nat) (log : List (Node × Nat)), height t ≤ k →
      ∃ r, walkMutFuelS (logged g) k log t d = some (log ++ walkAux t d, r)
  | 0, t, _, _, h => by have := height_pos t; omega
  | k + 1, t, d, log, h => by
    have hl : ∀ (cs : List Node) (log : List (Node × Nat)), (∀ c, c ∈ cs → height c ≤ k) →
        ∃ rs, mapOptS (fun s c => walkMutFuelS (logged g) k s c (d + 1)) log cs
          = some (log ++ walkList cs (d + 1), rs) := by
      intro cs
      induction cs with
      | nil => intro log _; exact ⟨[], by simp [mapOptS, walkList]⟩
      | cons c cs ih =>
        intro log hh
        obtain ⟨r1, h1⟩ := walkMut_order hg k c (d + 1) log (hh c (by simp))
        obtain ⟨rs, h2⟩ := ih (log ++ walkAux c (d + 1)) (fun x hx => hh x (by simp [hx]))
        exact ⟨r1 :: rs, by simp [mapOptS, h1, h2, walkList]⟩
    obtain ⟨rs, h1⟩ := hl t.children (log ++ [(t, d)]) (fun c hc => by
      have := height_child_lt hc; omega)
    refine ⟨{ g t d with children := rs }, ?_⟩
    simp only [walkMutFuelS, logged, hg, h1, walkAux_eq]
    simp

/-! ### `replace`, `cast` -/

/-- **replace_spec.** `replace` sets the kind and the value, and nothing else. -/
theorem replace_spec (n : Node) (kind payload : Nat) :
    (replace n kind payload).kind = kind ∧ (replace n kind payload).payload = payload
    ∧ (replace n kind payload).children = n.children
    ∧ (replace n kind payload).srcmap = n.srcmap
    ∧ (replace n kind payload).attrs = n.attrs
    ∧ walkList (replace n kind payload).children 1 = walkList n.children 1 :=
  ⟨rfl, rfl, rfl, rfl, rfl, rfl⟩

/-- a slot built by `new` and any number of `replace`s -/
inductive Slot.Built : Slot → Prop
  | new (k p : Nat) : Slot.Built (Slot.new k p)
  | replace (s : Slot) (k p : Nat) : Slot.Built s → Slot.Built (s.replace k p)

/-- **node_type_inv.** `node_type` always names the dynamic type of `node_value`, so the `unwrap`
    in `Node::cast` / `cast_mut` cannot fail, and `cast::<T>` answers the value iff `is::<T>` -/
theorem node_type_inv {s : Slot} (h : Slot.Built s) :
    s.nodeType = s.value.1 ∧
    ∀ k, s.cast k = some (if s.nodeType = k then some s.value.2 else none) := by
  have h1 : s.nodeType = s.value.1 := by
    cases h <;> rfl
  refine ⟨h1, fun k => ?_⟩
  unfold Slot.cast
  by_cases hk : s.nodeType = k
  · simp [hk, ← h1]
  · simp [hk]

/-! ### non-vacuity -/

theorem heightList_drop (cs : List Node) (n : Nat) : heightList (cs.drop n) ≤ heightList cs := by
  induction cs generalizing n with
  | nil => simp [heightList]
  | cons c cs ih =>
    cases n with
    | zero => simp
    | succ n => have := ih n; simp only [List.drop_succ_cons, heightList]; omega

/-- the stream's callback satisfies the hypothesis of `walkMut_spec` -/
theorem demoF_nonExpanding : NonExpanding demoF := by
  intro n d
  unfold demoF
  split
  · rw [height_eq, height_eq n]
    have := heightList_drop n.children 1
    simp only; omega
  · split
    · rw [height_eq, height_eq n]; simp
    · exact Nat.le_refl _

def leaf (k : Nat) : Node := Node.new k 0
def nd (k : Nat) (cs : List Node) : Node := { Node.new k 0 with children := cs }

/-- six nodes, three levels: `(1(2(4)(5))(3(6)))` -/
def ex6 : Node := nd 1 [nd 2 [leaf 4, leaf 5], nd 3 [leaf 6]]

example : (walk ex6).map (fun x => (x.1.kind, x.2)) = [(1, 0), (2, 1), (4, 2), (5, 2), (3, 1), (6, 2)] := by
  decide
example : paths ex6 = [[], [0], [0, 0], [0, 1], [1], [1, 0]] := by decide
example : size ex6 = 6 ∧ height ex6 = 3 := by decide
example : (nodeAt ex6 [0, 1]).map (·.kind) = some 5 ∧ (nodeAt ex6 [1, 1]).map (·.kind) = none := by
  decide
/-- `walk_mut` with the stream's callback: 1 ↦ 101, 4 ↦ 106 (depth 2), node 3 loses its first child -/
example : (walkMut demoF ex6).map (fun r => (walk r).map (fun x => (x.1.kind, x.2)))
    = some [(101, 0), (2, 1), (106, 2), (5, 2), (3, 1)] := by decide
/-- a callback that grows the tree downwards for ever exhausts every stack -/
example : walkMutFuel (fun n _ => { n with children := [n] }) 50 (leaf 0) 0 = none := by decide
/-- … and one that grows it finitely returns once the stack is deep enough (not before) -/
example : walkMutFuel (fun n d => if d < 2 then { n with children := [n] } else n) 2 (leaf 0) 0 = none
    ∧ ((walkMutFuel (fun n d => if d < 2 then { n with children := [n] } else n) 3 (leaf 0) 0).map
        size) = some 3 := by decide
/-- `walk_mut` with a recording callback (which also rewrites payloads) makes the calls of `walk` -/
example : (walkMutFuelS (logged (fun n d => { n with payload := d })) 3 [] ex6 0).map
      (fun r => r.1.map (fun x => (x.1.kind, x.2)))
    = some [(1, 0), (2, 1), (4, 2), (5, 2), (3, 1), (6, 2)] := by decide
example : (replace ex6 9 7).kind = 9 ∧ (replace ex6 9 7).payload = 7
    ∧ (walk (replace ex6 9 7)).map (fun x => (x.1.kind, x.2))
      = [(9, 0), (2, 1), (4, 2), (5, 2), (3, 1), (6, 2)] := by decide
example : Slot.Built ((Slot.new 1 5).replace 2 6) ∧ ((Slot.new 1 5).replace 2 6).cast 2 = some (some 6)
    ∧ ((Slot.new 1 5).replace 2 6).cast 1 = some none :=
  ⟨.replace _ _ _ (.new _ _), by decide, by decide⟩
/-- the `unwrap` in `cast` is a real partial operation of the model: a slot whose type id and box
    disagree (not constructible through `new` / `replace`) makes it fail -/
example : (Slot.mk 1 (2, 0)).cast 1 = none := by decide

end MdIt.Tree
