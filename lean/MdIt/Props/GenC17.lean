/-
  Tie of the mdurl / normalize_link CONSTANTS to the current Rust source (properties C17, C04, C01).
  `MdIt/Gen/Consts.lean` is regenerated from /repo by extract/extract.py on every run; the theorems below are
  re-checked against it by every check whose property depends on these constants.  They live in a module of their
  own so that a changed constant breaks the proof obligations of exactly those properties.
-/
import MdIt.Props.C04
import MdIt.Gen.Consts

namespace MdIt.Url

/-- `AsciiSet::new()` -/
theorem gen_asciiNew : Gen.Consts.asciiNew = asciiNew := by decide

/-- `DIGITS` of encode.rs -/
theorem gen_digits : ∀ n < 16, Gen.Consts.digits[n]? = some (digit n) := by decide

/-- `normalize_link` calls `encode(.., keep_escaped = true)` -/
theorem gen_keep : Gen.Consts.normalizeKeepEscaped = true := rfl

/-- the string handed to `AsciiSet::from` in `normalize_link` -/
theorem gen_safeChars : Gen.Consts.safeChars = shippedSafe := by decide

/-- … which is also the constant of the link model -/
theorem gen_safeChars_link : Gen.Consts.safeChars = MdIt.Link.safeChars := by decide

end MdIt.Url
