/-
  Composition of the C10 line-ending theorems with the whole-pipeline totality of `Props/MemoSafe.lean`:
  for documents covered by `doc_total_nodouble` the residual hypothesis of the CR LF theorems ("the inline
  pass of the LF document does not panic") is discharged, so that NO hypothesis about panics is left.
-/
import MdIt.Props.DocTotal
import MdIt.Props.MemoSafe
import MdIt.Props.C10Sourcepos

namespace MdIt.Pipeline
open MdIt
open MdIt.Lines (lfToCrlf lfToCr)

/-- `parseDoc` reports no inline panic on a document covered by `doc_total_nodouble` -/
theorem no_inline_panic_nodouble (cfg : DocCfg) (src : List Char)
    (hc : Inline.ChainCoherent (cfg.inlineCfg []) = true)
    (hone : cfg.inlineChain.count .link ≤ 1 ∧ cfg.inlineChain.count .image ≤ 1)
    (hsmall : 4 * Lines.byteLen src + 8 < 2147483648) (hpara : cfg.hasPara = true)
    (hnv : NoSplitTab cfg src) (hnd : DocNoDoubleTick cfg src) :
    ∀ e, parseDoc cfg src ≠ .error (.inline e) := by
  intro e h
  obtain ⟨⟨t, ht⟩, _⟩ := doc_total_nodouble cfg src hc hone hsmall hpara hnv hnd
  rw [ht] at h; cases h

/-- **C10, LF ↦ CR LF, without any hypothesis about panics** (sourcepos off): every coherent configuration
    (the stock chain with strikethrough included) with the paragraph rule, every CR-free source without a
    split tab whose paragraph contents have no two adjacent backticks. -/
theorem doc_crlf_invariant_nodouble (x : Bool) (cfg : DocCfg) (src : List Char)
    (hsp : cfg.sourcepos = false) (hcr : '\r' ∉ src)
    (hc : Inline.ChainCoherent (cfg.inlineCfg []) = true)
    (hone : cfg.inlineChain.count .link ≤ 1 ∧ cfg.inlineChain.count .image ≤ 1)
    (hsmall : 4 * Lines.byteLen src + 8 < 2147483648) (hpara : cfg.hasPara = true)
    (hnv : NoSplitTab cfg src) (hnd : DocNoDoubleTick cfg src) :
    renderDoc x cfg (lfToCrlf src) = renderDoc x cfg src :=
  doc_crlf_invariant_full x cfg src hsp hcr (no_inline_panic_nodouble cfg src hc hone hsmall hpara hnv hnd)

end MdIt.Pipeline
