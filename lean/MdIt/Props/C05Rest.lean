/-
  C05 at whole-document level, the REMAINING clauses (continues Props/C05Doc.lean and
  Props/C05Inline.lean, whose OPEN block lists items A, B, C): character boundaries at inline nodes
  (B) and text faithfulness (C) — hence the complete property `RangesOk` of Props/C05Doc.lean — for
  every document in which NO TAB IS SPLIT (`NoSplitTab`: no per-line table of the block pass has a
  virtual-space entry), in particular for every tab-free document.

  Property theorems (namespace `MdIt.Pipeline`); common hypotheses: the `i32` size bound of
  `doc_block_ranges`; the paragraph rule in the block chain (`hpara`, necessary: witness in
  Props/C05Doc.lean); `NoSplitTab cfg src` (`hnv`; follows from `'\t' ∉ src`:
  `noSplitTab_of_tabFree`; NECESSARY for the text clause: crate-confirmed witness below, a code span
  over a split tab.  For validity, enclosure and character boundaries it WAS necessary too — the
  witness `exTab` — until `fix:` "positions inside the virtual spaces of a split tab" clamped
  `get_source_pos_for`; now `ranges_ordered_exTab` shows the repaired ranges and item A of
  Props/C05Inline.lean is open again, no longer refuted); and `AsciiMarkers`: every
  emphasis-like rule of the inline chain has a single-byte marker other than the line feed
  (`*`, `_`, `~` in the shipped plugins; a limitation of the proof, not known to be necessary: with
  a multi-byte marker the model panics as soon as the rule fires — it advances by the NUMBER of
  delimiters and the next slice starts inside a character —, example below).
    `doc_ranges_ok`        `parseDoc cfg src = .ok t → RangesOk src t`: the root is `(0, |src|)` and at
                           EVERY node — block or inline, any depth, behind splice walk, `FragmentsJoin`
                           and `SyntaxPosRule` — the range `(a, b)` has `a ≤ b ≤ |src|`, both ends on
                           character boundaries of `src`, the children's ranges lie inside `[a, b]` in
                           source order without overlap, and a `Text` whose range holds no line break
                           selects exactly its content (`Lines.slice src a b = content`).
    `doc_boundaries`       (item B alone) every range end of every node is a character boundary.
    `doc_text_faithful`    (item C alone) the text clause at every `Text` node — the `Text` inside a
                           code span included (its content is normalised — line feeds become spaces,
                           one pair of padding spaces is stripped —: its range is the stripped
                           interior, and the clause is vacuous when a line break is inside).
    `doc_special_markup`   every `TextSpecial` (backslash escape, entity) whose range holds no line
                           break selects exactly its `markup` (`\*`, `&amp;`) — not part of `RangesOk`.
    `doc_ranges_ok_tabFree`  `doc_ranges_ok` with `'\t' ∉ src` in place of `NoSplitTab`.
  Ingredients (Lemmas/C05Rest*.lean): Defs (`Cut`, `Sel`, `PFth`, `FthN`, `FI`, `PreOk`/`PostOk`),
  Geo (`Geo3` = `Geo2` + every line ends in front of a line break; `parseBlocks_geo3`), Faith
  (`inlSpec3_pfull`: the inline text `get_lines` builds is, line by line, a copy of source bytes at
  the offsets its table names; across a line feed of the inline text the translated range holds a
  line break), Inline + Emph (`parseInline_fth`, `emphOK`: the frame invariant `FI` through every
  inline rule and the delimiter matching: range ends are translated character boundaries, every
  `Text` selects its content, an `EmphMarker` covers exactly its remaining delimiters, mergeable
  neighbours are ADJACENT), Splice (`afterBlocks_postOk`: the join pass merges adjacent texts to the
  hull, which selects the concatenation; texts of different paragraphs of a tight list item are
  separated by a line break, so the clause is vacuous for their hull).
-/
import MdIt.Lemmas.C05RestGeo
import MdIt.Lemmas.C05RestFaith
import MdIt.Lemmas.C05RestInline3
import MdIt.Lemmas.C05RestEmph
import MdIt.Lemmas.C05RestSplice

namespace MdIt.Pipeline
open MdIt.InlineOps (getSourcePosFor Srcmap)
open MdIt.C05R

/-- `NodeOrd` and `PostOk` together are `NodeOk` -/
theorem nodeOk_of_ord_post {src : List Char} {n : Node} (h1 : NodeOrd src n) (h2 : PostOk src n) :
    NodeOk src n := by
  obtain ⟨a, b, hr, hab, hb, ho⟩ := h1
  obtain ⟨a', b', hr', ba, bb, ht, _⟩ := h2
  rw [hr] at hr'
  simp only [Option.some.injEq, Prod.mk.injEq] at hr'
  obtain ⟨rfl, rfl⟩ := hr'
  refine ⟨a, b, hr, hab, hb, ba.onBoundary, bb.onBoundary, ho, ?_⟩
  intro c hk w hw n1 n2
  exact ht c hk w ((cut_iff_lines src a b w).mp hw) ⟨n1, n2⟩

end MdIt.Pipeline

namespace MdIt.Block

theorem AllInl.here {Q : List Char → List (Nat × Nat) → Prop} {n : BNode} (h : AllInl Q n) :
    ∀ c m, n.kind = .inlineRoot c m → n.range = none → Q c m := by
  cases h; assumption
theorem AllInl.child {Q : List Char → List (Nat × Nat) → Prop} {n : BNode} (h : AllInl Q n) :
    ∀ c ∈ n.children, AllInl Q c := by
  cases h; assumption

theorem AllInl.imp {Q Q' : List Char → List (Nat × Nat) → Prop} (hQ : ∀ c m, Q c m → Q' c m) {n : BNode}
    (h : AllInl Q n) : AllInl Q' n := by
  induction h with
  | mk n h1 _ ih => exact .mk n (fun c m hk hr => hQ c m (h1 c m hk hr)) ih

/-- changing the claim about placeholders, using a fact `Q` known of every placeholder -/
theorem OrderedB.imp_with {P P' : InlP} {Q : List Char → List (Nat × Nat) → Prop}
    (hPQ : ∀ c m a b, a ≤ b → Q c m → P c m a b → P' c m a b) :
    ∀ {l : List BNode} {lo hi : Nat}, OrderedB P lo hi l →
      (∀ x ∈ l, ∀ c m, x.kind = .inlineRoot c m → x.range = none → Q c m) → OrderedB P' lo hi l
  | [], _, _, h, _ => h
  | x :: r, _, _, ⟨a, b, hs, h1, h2, h3⟩, hq => by
    refine ⟨a, b, ?_, h1, h2, OrderedB.imp_with hPQ h3 (fun y hy => hq y (List.mem_cons_of_mem _ hy))⟩
    unfold SpanB at hs ⊢
    split
    · next rr hr => rw [hr] at hs; exact hs
    · next hr =>
      rw [hr] at hs
      obtain ⟨c, m, k1, k2, k3⟩ := hs
      exact ⟨c, m, k1, k2, hPQ c m a b h2 (hq x (by simp) c m k1 hr) k3⟩

theorem RangedB.imp_with {P P' : InlP} {Q : List Char → List (Nat × Nat) → Prop} {src : List Char}
    (hPQ : ∀ c m a b, a ≤ b → Q c m → P c m a b → P' c m a b) {n : BNode} (h : RangedB P src n)
    (hq : AllInl Q n) : RangedB P' src n := by
  induction h with
  | mk n h1 h2 _ ih =>
    refine .mk n (fun a b hr => ?_) h2 (fun c hc => ih c hc (hq.child c hc))
    obtain ⟨q1, q2, q3, q4⟩ := h1 a b hr
    exact ⟨q1, q2, q3, q4.imp_with hPQ (fun x hx => (hq.child x hx).here)⟩

end MdIt.Block

namespace MdIt.Pipeline
open MdIt.InlineOps (getSourcePosFor Srcmap)
open MdIt.C05R

/-- `pinl_of_pmapF` of Props/C05Inline.lean for ONE table without virtual-space entry (instead of a
    tab-free document) -/
theorem pinl_of_pmapF_nv {src : List Char} (icfg : Inline.Cfg) (c : List Char) (m : Srcmap)
    (hnv : C05I.NoVirt m) (a b : Nat) (hab : a ≤ b) (h : Block.PMapF src c m a b) :
    PInl icfg c m a b := by
  obtain ⟨hw, _, _, hup, hok, _, hlow⟩ := h
  have hm := hok hnv
  by_cases hlt : (Inline.trimSrc c).1 < (Inline.trimSrc c).2
  · refine Inline.pinl_of_mapOK icfg hm ?_
    intro pos x h1 h2 hx
    refine ⟨hlow hlt pos x h1 hx, hup pos x ?_ ?_ hx⟩
    · have := Inline.trimSrc_le c
      rw [C05I.linesLen_eq]
      omega
    · intro i k1 v1 k2 v2 e1 e2 _ _
      exact .inl (hm.mono i k1 v1 k2 v2 e1 e2)
  · intro ns hns
    have := Inline.parseInline_empty_window icfg c m (by omega) hns
    subst this
    exact ⟨hab, trivial⟩

/-- for a placeholder whose table has no virtual-space entry, what the block pass establishes
    (`PFullV`) is what the splice walk needs (`PInlF`) -/
theorem pinlF_of_pfullV {src : List Char} (icfg : Inline.Cfg) (hmk : AsciiMarkers icfg.chain)
    (c : List Char) (m : Srcmap) (a b : Nat) (hab : a ≤ b) (hnv : C05I.NoVirt m)
    (h : Block.PFullV src c m a b) : PInlF icfg src c m a b := by
  obtain ⟨hp, hf, he⟩ := h
  refine ⟨he, ?_⟩
  intro ns hns
  obtain ⟨o1, o2⟩ := pinl_of_pmapF_nv icfg c m hnv a b hab hp ns hns
  refine ⟨o1, o2, ?_⟩
  obtain ⟨_, _, _, _, hok, _, _⟩ := hp
  exact parseInline_fth icfg ⟨hok hnv, hf hnv⟩ hmk (emphOK icfg src) hns

/-- **no tab of the document is split**: no per-line table the block pass hands to the inline
    parser has a virtual-space entry (two consecutive entries with the same source offset — what
    `get_lines` makes of a tab that straddles the content column of a container).  Holds for every
    tab-free document (`noSplitTab_of_tabFree`), and for documents whose tabs sit inside lines or
    end exactly at the content column. -/
def NoSplitTab (cfg : DocCfg) (src : List Char) : Prop :=
  ∀ root refs, Block.parseBlocks cfg.blockCfg src = .ok (root, refs) →
    Block.AllInl (fun _ m => C05I.NoVirt m) root

theorem noSplitTab_of_tabFree (cfg : DocCfg) (src : List Char)
    (hsmall : 4 * Lines.byteLen src + 8 < 2147483648) (hpara : cfg.hasPara = true)
    (htab : '\t' ∉ src) : NoSplitTab cfg src := by
  intro root refs hb
  exact (doc_placeholder_tables cfg src hsmall hpara hb).2.imp
    (fun c m ⟨a, b, h⟩ => h.2.2.2.2.2.1 htab)

/-- executable check of `C05I.NoVirt` -/
def noVirtB : List (Nat × Nat) → Bool
  | x :: y :: r => x.2 != y.2 && noVirtB (y :: r)
  | _ => true

theorem noVirtB_sound : ∀ (m : List (Nat × Nat)), noVirtB m = true → C05I.NoVirt m
  | [], _ => by intro i k1 v1 k2 v2 h1; simp at h1
  | [_], _ => by intro i k1 v1 k2 v2 h1 h2; cases i <;> simp at h2
  | x :: y :: r, h => by
    simp only [noVirtB, Bool.and_eq_true, bne_iff_ne, ne_eq] at h
    intro i k1 v1 k2 v2 h1 h2
    cases i with
    | zero =>
      simp only [List.getElem?_cons_zero, Option.some.injEq, Nat.zero_add, List.getElem?_cons_succ] at h1 h2
      subst h1 h2
      exact h.1
    | succ i =>
      simp only [List.getElem?_cons_succ] at h1 h2
      exact noVirtB_sound (y :: r) h.2 i k1 v1 k2 v2 h1 h2

mutual
/-- no placeholder of a block tree has a virtual-space entry in its table -/
def allNoVirtB : Block.BNode → Bool
  | ⟨k, _, cs⟩ => (match k with | .inlineRoot _ m => noVirtB m | _ => true) && allNoVirtBL cs
def allNoVirtBL : List Block.BNode → Bool
  | [] => true
  | c :: r => allNoVirtB c && allNoVirtBL r
end

mutual
theorem allNoVirtB_sound : ∀ (n : Block.BNode), allNoVirtB n = true →
    Block.AllInl (fun _ m => C05I.NoVirt m) n
  | ⟨k, r, cs⟩, h => by
    simp only [allNoVirtB, Bool.and_eq_true] at h
    refine .mk _ ?_ (allNoVirtBL_sound cs h.2)
    intro c m hk _
    simp only at hk
    subst hk
    exact noVirtB_sound m h.1
theorem allNoVirtBL_sound : ∀ (l : List Block.BNode), allNoVirtBL l = true →
    ∀ c ∈ l, Block.AllInl (fun _ m => C05I.NoVirt m) c
  | [], _ => by simp
  | x :: r, h => by
    simp only [allNoVirtBL, Bool.and_eq_true] at h
    intro c hc
    have hx := allNoVirtB_sound x h.1
    have hr := allNoVirtBL_sound r h.2
    rcases List.mem_cons.mp hc with e | hc
    · rw [e]; exact hx
    · exact hr c hc
end

/-- `NoSplitTab` by evaluation of the block pass -/
theorem noSplitTab_of_check (cfg : DocCfg) (src : List Char)
    (h : (match Block.parseBlocks cfg.blockCfg src with
          | .ok (root, _) => allNoVirtB root
          | .error _ => true) = true) : NoSplitTab cfg src := by
  intro root refs hb
  rw [hb] at h
  exact allNoVirtB_sound root h

/-- the common core: order / enclosure (`NodeOrd`) and boundaries / text clauses (`PostOk`) at every
    node of the parsed tree -/
theorem doc_ord_post (cfg : DocCfg) (src : List Char) (t : Node)
    (hsmall : 4 * Lines.byteLen src + 8 < 2147483648) (hpara : cfg.hasPara = true)
    (hmk : AsciiMarkers cfg.inlineChain) (hnv : NoSplitTab cfg src) (h : parseDoc cfg src = .ok t) :
    t.range = some (0, Lines.byteLen src) ∧ Every (fun n => NodeOrd src n ∧ PostOk src n) t := by
  unfold parseDoc at h
  split at h
  · cases h
  · rename_i root refs hb
    obtain ⟨hr, hg⟩ := Block.parseBlocks_geo3 (cfg := cfg.blockCfg) hpara (Block.inlSpec3_pfullV src) hsmall hb
    have hg' : Block.RangedB (PInlF (cfg.inlineCfg refs) src) src root :=
      hg.imp_with (Q := fun _ m => C05I.NoVirt m)
        (fun c m a b hab hq hp => pinlF_of_pfullV _ hmk c m a b hab hq hp) (hnv root refs hb)
    exact afterBlocks_postOk hr hg' (Block.parseBlocks_inlNoRange hb) h

/-- **`doc_ranges_ok`** — C05, complete, for sources without split tab.  The root of the tree `parseDoc`
    returns is `(0, |src|)`, and EVERY node of it (block or inline level, at every depth, behind the
    splice walk, `FragmentsJoin` and `SyntaxPosRule`) carries a range `(a, b)` with `a ≤ b ≤ |src|`,
    both ends on character boundaries of `src`; the ranges of its children lie inside `[a, b]`, in
    source order, each starting at or behind the end of the previous one; and if the node is a
    `Text` whose range holds neither '\n' nor '\r', then `src[a..b]` is exactly its content. -/
theorem doc_ranges_ok (cfg : DocCfg) (src : List Char) (t : Node)
    (hsmall : 4 * Lines.byteLen src + 8 < 2147483648) (hpara : cfg.hasPara = true)
    (hmk : AsciiMarkers cfg.inlineChain) (hnv : NoSplitTab cfg src) (h : parseDoc cfg src = .ok t) :
    RangesOk src t := by
  obtain ⟨h1, h2⟩ := doc_ord_post cfg src t hsmall hpara hmk hnv h
  exact ⟨h1, h2.imp (fun _ hn => nodeOk_of_ord_post hn.1 hn.2)⟩

/-- **`doc_boundaries`** (item B): both ends of the range of every node — inline nodes included —
    are character boundaries of the source. -/
theorem doc_boundaries (cfg : DocCfg) (src : List Char) (t : Node)
    (hsmall : 4 * Lines.byteLen src + 8 < 2147483648) (hpara : cfg.hasPara = true)
    (hmk : AsciiMarkers cfg.inlineChain) (hnv : NoSplitTab cfg src) (h : parseDoc cfg src = .ok t) :
    Every (fun n => ∃ a b, n.range = some (a, b) ∧ Lines.onBoundary src a = true ∧
      Lines.onBoundary src b = true) t :=
  (doc_ord_post cfg src t hsmall hpara hmk hnv h).2.imp (fun _ hn => by
    obtain ⟨a, b, hr, ba, bb, _⟩ := hn.2
    exact ⟨a, b, hr, ba.onBoundary, bb.onBoundary⟩)

/-- **`doc_text_faithful`** (item C): every `Text` node of the finished tree — the one inside a code
    span included — whose range `(a, b)` selects a string without line break has exactly that
    string as its content. -/
theorem doc_text_faithful (cfg : DocCfg) (src : List Char) (t : Node)
    (hsmall : 4 * Lines.byteLen src + 8 < 2147483648) (hpara : cfg.hasPara = true)
    (hmk : AsciiMarkers cfg.inlineChain) (hnv : NoSplitTab cfg src) (h : parseDoc cfg src = .ok t) :
    Every (fun n => ∀ c, n.kind = .inl (.text c) → ∃ a b, n.range = some (a, b) ∧
      ∀ w, Lines.slice src a b = .ok w → '\n' ∉ w → '\r' ∉ w → w = c) t :=
  (doc_ord_post cfg src t hsmall hpara hmk hnv h).2.imp (fun _ hn => by
    obtain ⟨a, b, hr, _, _, ht, _⟩ := hn.2
    intro c hk
    exact ⟨a, b, hr, fun w hw n1 n2 => ht c hk w ((cut_iff_lines src a b w).mp hw) ⟨n1, n2⟩⟩)

/-- **`doc_special_markup`**: every `TextSpecial` node (backslash escape, entity reference) whose
    range selects a string without line break selects exactly its `markup`. -/
theorem doc_special_markup (cfg : DocCfg) (src : List Char) (t : Node)
    (hsmall : 4 * Lines.byteLen src + 8 < 2147483648) (hpara : cfg.hasPara = true)
    (hmk : AsciiMarkers cfg.inlineChain) (hnv : NoSplitTab cfg src) (h : parseDoc cfg src = .ok t) :
    Every (fun n => ∀ ct mu info, n.kind = .inl (.special ct mu info) → ∃ a b, n.range = some (a, b) ∧
      ∀ w, Lines.slice src a b = .ok w → '\n' ∉ w → '\r' ∉ w → w = mu) t :=
  (doc_ord_post cfg src t hsmall hpara hmk hnv h).2.imp (fun _ hn => by
    obtain ⟨a, b, hr, _, _, _, hs⟩ := hn.2
    intro ct mu info hk
    exact ⟨a, b, hr, fun w hw n1 n2 => hs ct mu info hk w ((cut_iff_lines src a b w).mp hw) ⟨n1, n2⟩⟩)

/-- **`doc_ranges_ok_tabFree`**: `doc_ranges_ok` for tab-free sources. -/
theorem doc_ranges_ok_tabFree (cfg : DocCfg) (src : List Char) (t : Node)
    (hsmall : 4 * Lines.byteLen src + 8 < 2147483648) (hpara : cfg.hasPara = true)
    (hmk : AsciiMarkers cfg.inlineChain) (htab : '\t' ∉ src) (h : parseDoc cfg src = .ok t) :
    RangesOk src t :=
  doc_ranges_ok cfg src t hsmall hpara hmk (noSplitTab_of_tabFree cfg src hsmall hpara htab) h

/-! ## non-vacuity and witnesses -/

/-- the shipped markers are single bytes, none is the line feed -/
theorem exCfg_asciiMarkers (sp : Bool) (mn : Nat) : AsciiMarkers (exCfg sp mn).inlineChain := by
  intro mk csw hmem
  simp only [exCfg, List.mem_cons, List.mem_nil_iff, or_false, reduceCtorEq, false_or,
    Inline.RuleId.emph.injEq] at hmem
  rcases hmem with ⟨rfl, _⟩ | ⟨rfl, _⟩ | ⟨rfl, _⟩ <;> exact ⟨by decide, by decide⟩

mutual
/-- the `Text` / `TextSpecial` nodes of a tree in pre-order: (content or markup, start, end) -/
def textsOf : Node → List (List Char × Nat × Nat)
  | ⟨k, r, _, cs⟩ =>
    (match k with
     | .inl (.text c) => [(c, (r.getD (0, 0)).1, (r.getD (0, 0)).2)]
     | .inl (.special _ mu _) => [(mu, (r.getD (0, 0)).1, (r.getD (0, 0)).2)]
     | _ => []) ++ textsOfL cs
def textsOfL : List Node → List (List Char × Nat × Nat)
  | [] => []
  | c :: r => textsOf c ++ textsOfL r
end

/-- the hypotheses of `doc_ranges_ok` are satisfiable (the document of Props/C05Inline.lean: a
    two-line quoted paragraph with emphasis and a code span) -/
example : ∃ t, parseDoc (exCfg false 100) exDoc6 = .ok t ∧ RangesOk exDoc6 t := by
  obtain ⟨t, ht⟩ := exDoc6_parses
  exact ⟨t, ht, doc_ranges_ok_tabFree _ _ t (by decide +kernel) (by decide) (exCfg_asciiMarkers _ _) (by decide) ht⟩

/-- **tabs that are not split are covered**: a tab inside a paragraph line, a continuation line of a
    list item indented by a tab that ends exactly at the item's content column (`-   c`, column 4),
    a tab inside that line: no table has a virtual-space entry, `doc_ranges_ok` applies -/
def exDoc8 : List Char := "a\tb\n\n-   c\n\td\te".toList

example : NoSplitTab (exCfg false 100) exDoc8 := noSplitTab_of_check _ _ (by decide +kernel)

example : ∃ t, parseDoc (exCfg false 100) exDoc8 = .ok t ∧ RangesOk exDoc8 t := by
  have h : (parseDoc (exCfg false 100) exDoc8).toOption.isSome = true := by decide +kernel
  cases hp : parseDoc (exCfg false 100) exDoc8 with
  | error e => rw [hp] at h; cases h
  | ok t =>
    exact ⟨t, rfl, doc_ranges_ok _ _ t (by decide +kernel) (by decide) (exCfg_asciiMarkers _ _)
      (noSplitTab_of_check _ _ (by decide +kernel)) hp⟩

example : (parseDoc (exCfg false 100) exDoc8).toOption.map textsOf =
    some [("a\tb".toList, 0, 3), ("c".toList, 9, 10), ("d\te".toList, 12, 15)] := by decide +kernel

/-- … whereas a tab that straddles the content column is split (`"- a\n\tb"`: column 2 inside the
    tab, table `[(0,2),(2,5),(4,5)]`) and the check fails -/
example : (match Block.parseBlocks (exCfg false 100).blockCfg "- a\n\tb".toList with
           | .ok (root, _) => allNoVirtB root
           | .error _ => true) = false := by decide +kernel

/-- what the text clause says on a document with a left-over delimiter (merged into the text by the
    join pass), an escape, an entity, a padded code span and a hard break inside a block quote:
    every listed string is `src[start..end]` -/
def exDoc7 : List Char := "> a*b \\* &amp;\n> `` c ``  \n> d".toList

example : (parseDoc (exCfg false 100) exDoc7).toOption.map textsOf =
    some [("a*b ".toList, 2, 6), ("\\*".toList, 6, 8), (" ".toList, 8, 9), ("&amp;".toList, 9, 14),
      ("c".toList, 20, 21), ("d".toList, 29, 30)] := by decide +kernel

/-- **`NoSplitTab` is necessary for the text clause** (the witness of Props/C05Inline.lean; model and crate
    agree): behind a split tab the `Text` inside a code span holds virtual spaces that no source
    range can select — `"- `\n\ta `"` gives `Text "  a"` at `(5, 6)`, and `src[5..6] = "a"`. -/
example : ¬ RangesOk "- `\n\ta `".toList
    (match parseDoc (exCfg false 100) "- `\n\ta `".toList with
     | .ok t => t
     | .error _ => ⟨.blk .root, none, [], []⟩) := by
  intro ⟨_, h⟩
  -- root → list → item → code span → text
  have key : ∀ t : Node, (parseDoc (exCfg false 100) "- `\n\ta `".toList = .ok t) →
      Every (NodeOk "- `\n\ta `".toList) t → False := by
    intro t ht he
    have hx : ∃ l ∈ t.children, ∃ i ∈ l.children, ∃ c ∈ i.children, ∃ x ∈ c.children,
        x.kind = .inl (.text [' ', ' ', 'a']) ∧ x.range = some (5, 6) := by
      have hd : (parseDoc (exCfg false 100) "- `\n\ta `".toList).toOption.map
          (fun t => t.children.flatMap fun l => l.children.flatMap fun i => i.children.flatMap fun c =>
            c.children.map fun x => (x.kind, x.range)) =
          some [(.inl (.text [' ', ' ', 'a']), some (5, 6))] := by decide +kernel
      rw [ht] at hd
      simp only [Except.toOption, Option.map_some, Option.some.injEq] at hd
      have hm : ((Kind.inl (.text [' ', ' ', 'a']), some (5, 6)) : Kind × Option (Nat × Nat)) ∈
          (t.children.flatMap fun l => l.children.flatMap fun i => i.children.flatMap fun c =>
            c.children.map fun x => (x.kind, x.range)) := by rw [hd]; simp
      simp only [List.mem_flatMap, List.mem_map, Prod.mk.injEq] at hm
      obtain ⟨l, hl, i, hi, c, hc, x, hx, h1, h2⟩ := hm
      exact ⟨l, hl, i, hi, c, hc, x, hx, h1, h2⟩
    obtain ⟨l, hl, i, hi, c, hc, x, hx, hk, hr⟩ := hx
    have hxo := ((((he.child l hl).child i hi).child c hc).child x hx).here
    obtain ⟨a, b, hr', _, _, _, _, _, htxt⟩ := hxo
    rw [hr] at hr'
    simp only [Option.some.injEq, Prod.mk.injEq] at hr'
    obtain ⟨rfl, rfl⟩ := hr'
    have := htxt _ hk ['a'] (by decide +kernel) (by decide) (by decide)
    exact absurd this (by decide)
  split at h
  · next t ht => exact key t ht h
  · next e he =>
    have : (parseDoc (exCfg false 100) "- `\n\ta `".toList).toOption.isSome = true := by decide +kernel
    rw [he] at this
    cases this

/-- a multi-byte emphasis marker (excluded by `AsciiMarkers`; outside the configurations the model
    follows the crate for: `Entity.textStop` is the stop set of the SHIPPED markers): when the rule
    fires it advances by the NUMBER of delimiters, the cursor lands inside the character and the
    next slice panics — no tree, so nothing to violate -/
example : (parseDoc { exCfg false 100 with inlineChain := [.emph 'é' true, .text] } "éa".toList).toOption.isNone = true := by
  decide +kernel

/-! ## the split tab inside a padded code span: the defect `fix:` "positions inside the virtual spaces
       of a split tab" repairs -/

/-- **REPAIRED FINDING (model and crate agreed before the fix, and agree after it; probe `md.parse`).**
    `"-    ` a\n\t\t`"` (12 bytes): the item's content column is 5, the continuation line's two
    tabs reach column 8, so `get_lines` replaces the second tab by THREE virtual spaces (content
    `"` a\n   `"`, table `[(0,5),(4,11),(7,11)]`).  The code span is padded (` a…␣`): `code_pair.rs`
    strips one byte at each end (`pos += 1; match_start -= 1`), and `match_start - 1 = 6` lies
    strictly inside the virtual segment `4..7`.  BEFORE the fix `get_source_pos_for` translated
    linearly there (`getSourcePosForRaw … 6 = 11 + 2 = 13`) although the whole segment sits on source
    byte 11: `CodeInline (5,12)` with child `Text "a   "` at `(7,13)`, `13 > 12 = |src|` — beyond the
    source, outside its parent, and with a trailing `é` inside a character.  The repaired function
    clamps to the source offset of the next table entry (`tr 6 = min 13 11 = 11`,
    `C05.translate_le_next`): the `Text` is `(7,11)`, inside its `CodeInline (5,12)`. -/
def exTab : List Char := "-    ` a\n\t\t`".toList

example : InlineOps.getSourcePosForRaw [(0, 5), (4, 11), (7, 11)] 6 = .ok 13 ∧
    InlineOps.getSourcePosFor [(0, 5), (4, 11), (7, 11)] 6 = .ok 11 := by decide +kernel

example : (parseDoc (exCfg false 100) exTab).toOption.map (flatN 0) =
    some [(0, 0, 12), (1, 0, 12), (2, 0, 12), (3, 5, 12), (4, 7, 11)] := by decide +kernel

example : (parseDoc (exCfg false 100) "-    ` a\n\t\t`é".toList).toOption.map (flatN 0) =
      some [(0, 0, 14), (1, 0, 14), (2, 0, 14), (3, 5, 12), (4, 7, 11), (3, 12, 14)] ∧
    Lines.onBoundary "-    ` a\n\t\t`é".toList 11 = true := by decide +kernel

/-- executable check of `OrderedD` -/
def orderedDB : Nat → Nat → List Node → Bool
  | lo, hi, [] => decide (lo ≤ hi)
  | lo, hi, n :: rest =>
    match n.range with
    | some (a, b) => decide (lo ≤ a) && decide (a ≤ b) && orderedDB b hi rest
    | none => false

theorem orderedDB_sound : ∀ (l : List Node) (lo hi : Nat), orderedDB lo hi l = true → OrderedD lo hi l
  | [], lo, hi, h => by simpa [orderedDB, OrderedD] using h
  | n :: rest, lo, hi, h => by
    simp only [orderedDB] at h
    split at h
    · next a b hr =>
      simp only [Bool.and_eq_true, decide_eq_true_eq] at h
      exact ⟨a, b, hr, h.1.1, h.1.2, orderedDB_sound rest b hi h.2⟩
    · cases h

mutual
/-- executable check of `Every (NodeOrd src)` (`len = |src|`) -/
def nodeOrdB (len : Nat) : Node → Bool
  | ⟨_, r, _, cs⟩ =>
    (match r with
     | some (a, b) => decide (a ≤ b) && decide (b ≤ len) && orderedDB a b cs
     | none => false) && nodeOrdBL len cs
def nodeOrdBL (len : Nat) : List Node → Bool
  | [] => true
  | c :: r => nodeOrdB len c && nodeOrdBL len r
end

mutual
theorem nodeOrdB_sound (src : List Char) : ∀ (n : Node), nodeOrdB (Lines.byteLen src) n = true →
    Every (NodeOrd src) n
  | ⟨k, r, at_, cs⟩, h => by
    simp only [nodeOrdB, Bool.and_eq_true] at h
    refine .mk _ ?_ (nodeOrdBL_sound src cs h.2)
    obtain ⟨h1, _⟩ := h
    split at h1
    · next a b =>
      simp only [Bool.and_eq_true, decide_eq_true_eq] at h1
      exact ⟨a, b, rfl, h1.1.1, h1.1.2, orderedDB_sound cs a b h1.2⟩
    · cases h1
theorem nodeOrdBL_sound (src : List Char) : ∀ (l : List Node), nodeOrdBL (Lines.byteLen src) l = true →
    ∀ c ∈ l, Every (NodeOrd src) c
  | [], _ => by simp
  | x :: r, h => by
    simp only [nodeOrdBL, Bool.and_eq_true] at h
    intro c hc
    have hx := nodeOrdB_sound src x h.1
    have hr := nodeOrdBL_sound src r h.2
    rcases List.mem_cons.mp hc with e | hc
    · rw [e]; exact hx
    · exact hr c hc
end

/-- **the former counter-witness, repaired** (before the fix this file proved
    `ranges_ordered_needs_htab : ¬ ∀ t, parseDoc … exTab = .ok t → Every (NodeOrd exTab) t`; its
    `decide +kernel` step now evaluates to the repaired ranges and the negation is unprovable): on
    the split-tab document every node has a valid range inside the source, its children inside it, in
    order — the `Text` `(7,11)` inside its `CodeInline` `(5,12)`, `11 ≤ 12 = |src|`. -/
theorem ranges_ordered_exTab : ∀ t, parseDoc (exCfg false 100) exTab = .ok t →
    t.range = some (0, Lines.byteLen exTab) ∧ Every (NodeOrd exTab) t := by
  intro t ht
  have hd : (parseDoc (exCfg false 100) exTab).toOption.map
      (fun t => (t.range, nodeOrdB (Lines.byteLen exTab) t)) = some (some (0, 12), true) := by
    decide +kernel
  rw [ht] at hd
  simp only [Except.toOption, Option.map_some, Option.some.injEq, Prod.mk.injEq] at hd
  exact ⟨hd.1, nodeOrdB_sound exTab t hd.2⟩

/-- non-vacuity: the document parses -/
example : (parseDoc (exCfg false 100) exTab).toOption.isSome = true := by decide +kernel

/-- the same with the multi-byte character behind the span: no range end inside a character -/
example : (parseDoc (exCfg false 100) "-    ` a\n\t\t`é".toList).toOption.map
      (nodeOrdB (Lines.byteLen "-    ` a\n\t\t`é".toList)) = some true := by decide +kernel

/-
OPEN (item A of Props/C05Inline.lean, sources WITH split tabs), after `fix:` "positions inside the
virtual spaces of a split tab" (`get_source_pos_for` clamped to the source offset of the next table
entry; `C05.translate_mono_all`, `C05.translate_le_next`).

  REMAINS FALSE, inherently: the TEXT clause for the `Text` child of a code span that holds virtual
  spaces (the `¬ RangesOk` example above: `"- `\n\ta `"` gives `Text "  a"` at `(5, 6)`,
  `src[5..6] = "a"`, before and after the fix): characters that have no bytes in the source cannot be
  selected by ANY range, so no translation function can repair it; `doc_text_faithful` /
  `doc_ranges_ok` keep `NoSplitTab`, or must exempt the `Text` under a `CodeInline`.

  NO LONGER REFUTED, and what the evidence supports now (the only counter-witness known,
  `exTab`, is repaired: `ranges_ordered_exTab`):

  theorem doc_ranges_ordered_tabs (cfg : DocCfg) (src : List Char) (t : Node)
      (hsmall : 4 * Lines.byteLen src + 8 < 2147483648) (hpara : cfg.hasPara = true)
      (h : parseDoc cfg src = .ok t) :
      t.range = some (0, Lines.byteLen src) ∧ Every (NodeOrd src) t
  (`doc_ranges_ordered` of Props/C05Inline.lean without `htab`), and

  theorem doc_ranges_ok_tabs (cfg : DocCfg) (src : List Char) (t : Node)
      (hsmall : 4 * Lines.byteLen src + 8 < 2147483648) (hpara : cfg.hasPara = true)
      (hmk : AsciiMarkers cfg.inlineChain) (h : parseDoc cfg src = .ok t) :
      t.range = some (0, Lines.byteLen src) ∧ EveryButCodeText (NodeOk src) t
  (validity, enclosure, order and character boundaries at EVERY node; the text clause at every `Text`
  that is not the child of a `CodeInline`).

  EVIDENCE: the differential streams (model = repaired crate, 0 differences, split-tab code spans
  included) and the crate oracle C05 on the repaired crate — only the class
  `text-faithful-split-tab` is left (numbers in the task report); pre-fix model fuzz of this file's
  first version (270 000 short documents over a tab-heavy alphabet): outside code spans no clause of
  `NodeOk` was ever violated.

  MISSING, precisely (all on the inline side; the block side is done for all sources:
  `doc_placeholder_tables`, `parseBlocks_geo3`; `inlSpec3_pfull` restricts `PFth` to tab-free
  sources only because `PFth.copy` is false inside virtual spaces):
   A1. `PFthV src c m` — `PFth` with `copy` restricted to stretches `[p, q]` whose ends are not
       strictly inside a virtual-space segment (`C05.NotInsideVirtual m p`, `… q`), provable from
       `Lines.Faithful` exactly as `fa_mapOf_seg` / `fa_pfth_of_seg` of Lemmas/C05RestFaith.lean (the
       virtual spaces of a line are `c[k .. k + virt)`, two table entries `(k, v)`, `(k + virt, v)`);
       for boundaries: every position of a virtual segment now translates to the segment's own
       source offset `v` (`C05.translate_le_next` + `C05.translate_ge_entry`), a character boundary.
   A2. the inline range theorems (`Inline.ranges_induction`, `parseInline_ranges_exact`:
       Lemmas/InlineRanges2–6.lean, C05InlineExit.lean) under `WFMap ∧ MonoMapV ∧ KeysLFV` instead of
       `MapOK`.  With the clamp the ORDER part needs no extra frame invariant any more:
       `C05.translate_mono_all` replaces `translate_mono` everywhere (monotone at every position, the
       inside of a virtual segment included), and `C05I.UpTo` / `getLines_lower` bound every
       translated position by the block's range.  What does NOT survive is
       `Inline.translate_expand` (`tr p + (q − p) ≤ tr q`, used for `StrictTop`: non-empty ranges of
       text-like nodes) and `Inline.translate_same_line` (shift inside a line): both are false
       inside a virtual segment (the translation is constant there), so `StrictTop` and the `FI`
       induction of Lemmas/C05RestInline.lean / C05RestEmph.lean still need "`pos` and both arguments
       of the `getMap` call are not strictly inside a virtual-space segment" for every rule but the
       code-span rule: true because a virtual segment consists of blanks directly behind a line feed
       of the content (or at its start, which `trim_src` skips), the newline rule and the `\`+LF
       rule skip ALL blanks behind the line feed, and no other rule stops inside a run of blanks it
       did not start in.  The code-span rule's interior may START at the first virtual space and its
       STRIPPED interior may END strictly inside the segment (`match_start - 1`, `exTab`): there
       only `translate_mono_all` / `translate_le_next` apply — enough for `NodeOrd`, not for the
       text clause (which is false there).
-/

end MdIt.Pipeline
