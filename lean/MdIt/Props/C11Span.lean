/-
  C11, third context — code SPANS — at WHOLE-DOCUMENT level, at top level and inside block quotes / list items.

  Property C11: "text enclosed in a backtick span longer than every backtick run in it reappears in the output
  character for character — HTML-escaped, line endings turned into spaces and one pair of padding spaces removed;
  nothing inside is interpreted as markdown, character reference or escape."

  The documents: ONE line `l = pre ++ spanOf k T ++ post` where `spanOf k T` is `` `ᵏ⁺¹ ␠ T ␠ `ᵏ⁺¹ `` (the PADDED
  form), `T` ANY non-empty text without line terminator and without a run of `k + 1` backticks (`<`, `&`, `*`, `\`,
  `[`, entities, shorter backtick runs, multi-byte characters … all allowed), `pre` / `post` plain text (no
  character of the text rule's stop set, `SpanLine`), `pre` starting with a character no block rule but `paragraph`
  claims (`Block.ParaFirst`), no blank at the end of the line.  Configuration: any block chain with `paragraph`
  in it (whatever stands in front), any inline chain `text :: c1 ++ backticks :: c2` with `c1` free of an emphasis
  rule for the backtick and of a second `backticks` (`C11S.QuietTick`), join pass or not, `sourcepos` or not.

  PROPERTY theorems
    `doc_span_verbatim_sp`, `doc_span_verbatim`                 top level: the tree, exactly (kinds, payloads, every
                                                                range, attributes): `Root[Paragraph[Text pre,
                                                                CodeInline[Text T], Text post]]`
    `doc_span_render_sp`, `doc_span_render`                     `render` / `xrender`, exactly:
                                                                `<p>pre<code>T</code>post</p>` LF, escaped
    `doc_span_verbatim_nested_sp`, `doc_span_verbatim_nested`   the same inside any wrappers `w` (`wrapAll w l`)
    `doc_span_render_nested_sp`, `doc_span_render_nested`       `spanHtml w (…)`: the wrappers' HTML around the
                                                                paragraph — or, when the innermost wrapper is a list
                                                                item (`tightOf w`), `<li>` + inline HTML + `</li>`
  Built from: `Block.parseBlocks_line` (Lemmas/C11SpanPara.lean: the one-line paragraph at block level),
  `C11N.doc_para_blocks_nested` (the same inside containers), `C11S.parseInline_span` (Lemmas/C11SpanInline.lean:
  the inline parser on `pre ++ span ++ post`, for ANY one-entry table — this is the table independence needed
  inside containers, where the table is `[(0, widthAll w)]`), Lemmas/C11SpanDoc.lean (splice, join, sourcepos,
  render, serializer).

  What "one pair of padding spaces removed" means in the model (= the Rust, `code_pair.rs`): the content between the
  backtick runs, after LF → space, loses its first and last character iff it starts with a space, ends with a
  space and is longer than 2 bytes (`CodePair.padded`).  For `␠ T ␠` with `T ≠ []` that is always the case, so
  exactly the padding pair goes and `T` stays whole — also when `T` itself begins / ends with spaces, and ALSO
  when `T` consists of spaces only (CommonMark keeps an all-space content unstripped: see the last example).
  Only the padded form is covered here: for the unpadded form `` `ᵏ⁺¹ R `ᵏ⁺¹ `` (`R` not starting and ending with a
  space) the rule-level statement is `CodePair.span_opaque`; no document-level theorem.

  Restrictions, each with a witness below where it is necessary:
    * `pre`, `post` plain (`[` or a backtick in `pre` can swallow the span);
    * no blank at the end of the line (hypothesis of `parseInline_span`: `trim_src` takes nothing) — a trailing
      blank is dropped from the output, otherwise harmless (witness);
    * ONE line, hence no line ending inside `T` (`T' = T`): the block half (`parseBlocks_line`,
      `parseBlocks_para_nested`) is stated for one-line paragraphs.  The inline half `parseInline_span` already
      covers LF inside `T` (text child = `T` with LF → space);
    * inside containers: the line is TAB-FREE (C06's restriction) and `depthCost w < max_nesting`.
  OPEN: the multi-line generalisation (a span running over several lines of a paragraph) at document level.
  Behaviour by evaluation in the last example of section 5 (LF → space, continuation-line indentation KEPT, a line
  of `T` that starts a block ends the paragraph).  Missing lemmas: (a) `parseBlocks` on a paragraph of `n` lines
  none of which (from the second on) lets a rule of the chain fire in silent mode gives
  `Paragraph[InlineRoot (lines joined by LF) table]` with an `n`-entry table — `Block.parseBlocks_line` is the case
  `n = 1`, `lazyScan` needs the hypothesis per line; (b) `C11S.parseInline_span` for an `n`-entry table (only the
  RANGES use the table, through `C05I.single_translate`; kinds and payloads do not depend on it).
-/
import MdIt.Lemmas.C11SpanDoc
import MdIt.Lemmas.C11SpanPara
set_option linter.unusedSimpArgs false
set_option linter.unusedVariables false

namespace MdIt.C11N
open MdIt.Block MdIt.Block.Li MdIt.Pipeline
open MdIt.Lines (NoTerm lead)
open MdIt.Render (Event piece piecesFrom flatten solAfter attrsStr escapeHtml)
open MdIt.NodeRender (aSourcepos tP tCode tBlockquote tUl tOl tLi olAttrs)
open MdIt.C11S (spanOf PlainTxt textNodes codeNode QuietTick)

/-! ## 1. the line -/

/-- the hypotheses on the one-line paragraph `pre ++ spanOf k T ++ post` -/
structure SpanLine (pre T post : List Char) (k : Nat) : Prop where
  /-- `pre` starts with a character no block rule but `paragraph` claims -/
  first : ∃ c r, pre = c :: r ∧ ParaFirst c
  /-- `pre`, `post`: no character of the text rule's stop set, no CR -/
  plainPre : PlainTxt pre
  plainPost : PlainTxt post
  preCR : '\r' ∉ pre
  postCR : '\r' ∉ post
  /-- the line does not end with a blank -/
  postEnd : ∀ c ∈ post.getLast?, Inline.isSpTab c = false
  /-- `T`: not empty, no line terminator, no run of `k + 1` backticks -/
  ne : T ≠ []
  line : NoTerm T
  runs : ¬ List.replicate (k + 1) '`' <:+: T

instance (s : List Char) : Decidable (PlainTxt s) := by unfold PlainTxt; infer_instance
instance (s : List Char) : Decidable (NoTerm s) := by unfold NoTerm; infer_instance

theorem normalise_line {T : List Char} (h : NoTerm T) : CodePair.normalise T = T := by
  unfold CodePair.normalise
  conv => rhs; rw [← List.map_id T]
  exact List.map_congr_left (fun c hc => by simp [(h c hc).1])

theorem noTerm_append {a b : List Char} (ha : NoTerm a) (hb : NoTerm b) : NoTerm (a ++ b) := by
  intro c hc
  rcases List.mem_append.mp hc with h | h
  · exact ha c h
  · exact hb c h

theorem noTerm_plain {s : List Char} (h : PlainTxt s) (hcr : '\r' ∉ s) : NoTerm s := by
  intro c hc
  refine ⟨?_, ?_⟩
  · rintro rfl; exact h _ hc (by decide)
  · rintro rfl; exact hcr hc

theorem noTerm_spanOf (k : Nat) {T : List Char} (h : NoTerm T) : NoTerm (spanOf k T) := by
  have hr : NoTerm (List.replicate (k + 1) '`') := by
    intro c hc
    rw [(List.mem_replicate.mp hc).2]
    decide
  have hs : NoTerm [' '] := by intro c hc; simp at hc; subst hc; decide
  exact noTerm_append (noTerm_append (noTerm_append (noTerm_append hr hs) h) hs) hr

section line
variable {pre T post : List Char} {k : Nat} (h : SpanLine pre T post k)
include h

theorem SpanLine.noTerm : NoTerm (pre ++ spanOf k T ++ post) :=
  noTerm_append (noTerm_append (noTerm_plain h.plainPre h.preCR) (noTerm_spanOf k h.line)) (noTerm_plain h.plainPost h.postCR)

theorem SpanLine.cons : ∃ c r, pre ++ spanOf k T ++ post = c :: r ∧ ParaFirst c ∧ c ∈ pre ++ spanOf k T ++ post := by
  obtain ⟨c, r, hp, hc⟩ := h.first
  exact ⟨c, r ++ spanOf k T ++ post, by simp [hp], hc, by simp [hp]⟩

theorem SpanLine.last : ∃ c, (pre ++ spanOf k T ++ post).getLast? = some c ∧ Inline.isSpTab c = false := by
  rcases List.eq_nil_or_concat post with hp | ⟨i, c, hp⟩
  · refine ⟨'`', ?_, by decide⟩
    subst hp
    simp only [List.append_nil, spanOf, List.replicate_succ', ← List.append_assoc]
    exact Block.getLast?_snoc _ _
  · refine ⟨c, ?_, h.postEnd c (by rw [hp]; simp)⟩
    rw [hp]
    simp

/-- `trim_src` takes nothing off the line -/
theorem SpanLine.trim :
    Inline.trimSrc (pre ++ spanOf k T ++ post) = (0, InlineOps.byteLen (pre ++ spanOf k T ++ post)) := by
  obtain ⟨c, r, hc, hpf, _⟩ := h.cons
  obtain ⟨d, hd, hdb⟩ := h.last
  exact C11S.trimSrc_ends _ c d r hc hd (by simp [Inline.isSpTab, hpf.1, hpf.2.1]) hdb

end line

/-! ## 2. from the block tree to the document tree -/

section core
variable (cfg : DocCfg) (src : List Char) (pre T post : List Char) (k : Nat) (h : SpanLine pre T post k)
  (c1 c2 : List Inline.RuleId) (hic : cfg.inlineChain = .text :: (c1 ++ .backticks :: c2))
  (hq : ∀ r ∈ c1, QuietTick r) (hmn : 0 < cfg.maxNesting)
  (w : List Wrapper) (E W : Nat)
  (hb : parseBlocks cfg.blockCfg src =
    .ok (⟨.root, some (0, E), wrapForest E w 0 (paraLeaf (pre ++ spanOf k T ++ post) [(0, 0)] 0 W E (tightOf w))⟩, []))
include h hic hq hmn hb

/-- the document tree, given the block tree: the wrapper nodes around the paragraph (or, tight, around nothing)
    over `Text pre`, `CodeInline[Text T]`, `Text post` -/
theorem parseDoc_of_blocks :
    parseDoc cfg src =
      .ok ⟨.blk .root, some (0, E), spAttrs cfg src (0, E),
        wrapForestN (spAttrs cfg src) E w 0
          (spanLeaf (spAttrs cfg src) W E (tightOf w) (spanNodes (spAttrs cfg src) W k pre T post))⟩ := by
  have hpi := C11S.parseInline_span (cfg.inlineCfg []) hmn c1 c2 hic hq pre T post k W h.plainPre h.plainPost h.ne h.runs h.trim
  have hsl := spliceList_paraLeaf (cfg.inlineCfg []) (pre ++ spanOf k T ++ post) [(0, 0)] 0 W E (tightOf w) _
    (by simpa only [List.map_cons, List.map_nil, Nat.zero_add] using hpi)
  rw [ofInlineList_span, Nat.add_zero] at hsl
  have hsf := splice_wrapForest (cfg.inlineCfg []) E _ _ hsl w 0
  unfold parseDoc
  rw [hb]
  refine afterBlocks_forest cfg src (0, E) [] _ _ _ hsf
    (joinFix_wrapForestN _ E _ (joinFix_spanLeaf _ _ _ _ _ (joinFix_spanNodes _ W k pre T post h.ne)) w 0) ?_ ?_
  · intro hs; rw [spAttrs_off hs]
  · intro hs
    rw [spAttrs_on hs]
    exact sourcepos_wrapForestN src E _ _ (sourcepos_spanLeaf src W E _ _ _ (sourcepos_spanNodes src W k pre T post)) w 0

/-- the rendering, given the block tree -/
theorem renderDoc_of_blocks (x : Bool) :
    renderDoc x cfg src =
      .ok (Render.replaceNul (spanHtmlA (spAttrs cfg src) E
        (openTag tP (spAttrs cfg src (W, E)) ++
          inlHtml (spAttrs cfg src (W + Lines.byteLen pre, W + (Lines.byteLen pre + (2 * (k + 1) + 2 + Lines.byteLen T))))
            pre T post ++ closeTag tP ++ ['\n'])
        (inlHtml (spAttrs cfg src (W + Lines.byteLen pre, W + (Lines.byteLen pre + (2 * (k + 1) + 2 + Lines.byteLen T))))
          pre T post) w 0)) := by
  have hp := parseDoc_of_blocks cfg src pre T post k h c1 c2 hic hq hmn w E W hb
  have hev := render_wrapForestN cfg.entity cfg.langPrefix (spAttrs cfg src) E _ _
    (renderList_spanLeaf cfg.entity cfg.langPrefix (spAttrs cfg src) W E (tightOf w) _ _
      (renderList_spanNodes cfg.entity cfg.langPrefix (spAttrs cfg src) W k pre T post)) w 0
  have hbl := blocky_spanForest x (spAttrs cfg src) E (spAttrs cfg src (W, E))
    (spAttrs cfg src (W + Lines.byteLen pre, W + (Lines.byteLen pre + (2 * (k + 1) + 2 + Lines.byteLen T))))
    pre (CodePair.normalise T) post w 0
  rw [normalise_line h.line] at hev hbl
  unfold renderDoc
  rw [hp]
  simp only [renderEvents_rootL cfg _ _ _ _ hev, serialize_blocky hbl]

end core

/-! ## 3. the plain HTML (no `sourcepos` plugin) -/

/-- the inline HTML: `pre`, `<code>`, `T`, `</code>`, `post`, with exactly `& < > "` escaped -/
def codeHtml (pre T post : List Char) : List Char :=
  escapeHtml pre ++ "<code>".toList ++ escapeHtml T ++ "</code>".toList ++ escapeHtml post

/-- the HTML of the wrapped one-line paragraph with inline HTML `inl`: the wrappers' tags (`Wrapper.html`:
    `<blockquote>` LF … `</blockquote>` LF, `<ul>` LF `<li>` LF … `</li>` LF `</ul>` LF, `<ol …>` likewise) around
    `<p>inl</p>` LF — except that a list item DIRECTLY around the paragraph is tight: `<li>inl</li>` LF, no `<p>`,
    no LF behind `<li>` (`Wrapper.htmlTight`) -/
def spanHtml : List Wrapper → List Char → List Char
  | [], inl => "<p>".toList ++ inl ++ "</p>\n".toList
  | [x], inl => if x.isQuote then x.html [] ("<p>".toList ++ inl ++ "</p>\n".toList) else x.htmlTight [] inl
  | x :: y :: ws, inl => x.html [] (spanHtml (y :: ws) inl)

theorem inlHtml_nil (pre T post : List Char) : inlHtml [] pre T post = codeHtml pre T post := by
  simp [inlHtml, codeHtml, openTag, closeTag, tCode, attrsStr]

theorem spanHtmlA_nil (E : Nat) (inl : List Char) : ∀ (ws : List Wrapper) (off : Nat),
    spanHtmlA (fun _ => []) E (openTag tP [] ++ inl ++ closeTag tP ++ ['\n']) inl ws off = spanHtml ws inl
  | [], _ => by simp [spanHtmlA, spanHtml, openTag, closeTag, tP, attrsStr]
  | [x], _ => by simp [spanHtmlA, spanHtml, openTag, closeTag, tP, attrsStr]
  | x :: y :: ws, off => by
    simp only [spanHtmlA, spanHtml, spanHtmlA_nil E inl (y :: ws)]

theorem nulStr_htmlTight (x : Wrapper) (inner : List Char) :
    Render.nulStr (x.htmlTight [] inner) = x.htmlTight [] (Render.nulStr inner) := by
  obtain ⟨hq, hu, ho, hl⟩ := noNul_tags
  have hn : NoNul (attrsStr []) := noNul_nil
  have hnl : Render.nulStr ['\n'] = ['\n'] := nulStr_noNul (NoNul.cons (by decide) noNul_nil)
  cases x with
  | quote =>
    simp only [Wrapper.htmlTight, nulStr_append, nulStr_noNul (noNul_openTag hq hn), nulStr_noNul (noNul_closeTag hq), hnl]
  | bullet c =>
    simp only [Wrapper.htmlTight, nulStr_append, nulStr_noNul (noNul_openTag hu hn), nulStr_noNul (noNul_closeTag hu),
      nulStr_noNul (noNul_openTag hl hn), nulStr_noNul (noNul_closeTag hl), hnl]
  | ordered ds dl =>
    simp only [Wrapper.htmlTight, nulStr_append, nulStr_noNul (noNul_openTag ho (noNul_olAttrs _)),
      nulStr_noNul (noNul_closeTag ho), nulStr_noNul (noNul_openTag hl hn), nulStr_noNul (noNul_closeTag hl), hnl]

theorem nulStr_para (inl : List Char) :
    Render.nulStr ("<p>".toList ++ inl ++ "</p>\n".toList) = "<p>".toList ++ Render.nulStr inl ++ "</p>\n".toList := by
  rw [nulStr_append, nulStr_append, nulStr_noNul (s := "<p>".toList) (by unfold NoNul; decide),
    nulStr_noNul (s := "</p>\n".toList) (by unfold NoNul; decide)]

theorem nulStr_spanHtml : ∀ (ws : List Wrapper) (inl : List Char),
    Render.nulStr (spanHtml ws inl) = spanHtml ws (Render.nulStr inl)
  | [], inl => nulStr_para inl
  | [x], inl => by
    simp only [spanHtml]
    split
    · rw [nulStr_html, nulStr_para]
    · rw [nulStr_htmlTight]
  | x :: y :: ws, inl => by simp only [spanHtml, nulStr_html, nulStr_spanHtml (y :: ws)]

theorem nulStr_codeHtml (pre T post : List Char) :
    Render.nulStr (codeHtml pre T post) = codeHtml (Render.nulStr pre) (Render.nulStr T) (Render.nulStr post) := by
  simp only [codeHtml, nulStr_append, Render.escapeHtml_nul,
    nulStr_noNul (s := "<code>".toList) (by unfold NoNul; decide),
    nulStr_noNul (s := "</code>".toList) (by unfold NoNul; decide)]

/-! ## 4. the property theorems -/

section top
variable (cfg : DocCfg) (pre T post : List Char) (k : Nat) (h : SpanLine pre T post k)
  (c1 c2 : List Inline.RuleId) (hic : cfg.inlineChain = .text :: (c1 ++ .backticks :: c2))
  (hq : ∀ r ∈ c1, QuietTick r)
  (bpre bpost : List Block.RuleId) (hbc : cfg.blockChain = bpre ++ .paragraph :: bpost) (hbp : .paragraph ∉ bpre)
  (hmn : 0 < cfg.maxNesting)
include h hic hq hbc hbp hmn

omit hic hq in
theorem blocks_top :
    parseBlocks cfg.blockCfg (pre ++ spanOf k T ++ post) =
      .ok (⟨.root, some (0, Lines.byteLen (pre ++ spanOf k T ++ post)),
        wrapForest (Lines.byteLen (pre ++ spanOf k T ++ post)) [] 0
          (paraLeaf (pre ++ spanOf k T ++ post) [(0, 0)] 0 0 (Lines.byteLen (pre ++ spanOf k T ++ post)) (tightOf []))⟩, []) := by
  obtain ⟨c, r, hc, hpf, _⟩ := h.cons
  have hnt := h.noTerm
  rw [hc] at hnt ⊢
  have := parseBlocks_line hnt hpf (cfg := cfg.blockCfg) hbc hbp hmn
  simpa [wrapForest, paraLeaf, tightOf, inlineRootAt] using this

/-- **`doc_span_verbatim`, any `sourcepos`** (top level).  The one-line document `pre ++ `ᵏ⁺¹ ␠ T ␠ `ᵏ⁺¹ ++ post`
    (`SpanLine`; tabs allowed) parses to `Root[Paragraph[…]]`, root and paragraph over the whole source, the
    paragraph's children (`spanNodes`): the `Text` node of `pre` (bytes `0 .. |pre|`), ONE `CodeInline` node over
    the whole span (marker `` ` ``, length `k + 1`) whose single child is the `Text` node holding `T` — character
    for character — over exactly the bytes of `T`, the `Text` node of `post` (if `post ≠ []`) up to the end.
    Attributes: those of `SyntaxPosRule` (`spAttrs`) on every node. -/
theorem doc_span_verbatim_sp :
    parseDoc cfg (pre ++ spanOf k T ++ post) =
      .ok ⟨.blk .root, some (0, Lines.byteLen (pre ++ spanOf k T ++ post)),
        spAttrs cfg (pre ++ spanOf k T ++ post) (0, Lines.byteLen (pre ++ spanOf k T ++ post)),
        [⟨.blk .paragraph, some (0, Lines.byteLen (pre ++ spanOf k T ++ post)),
          spAttrs cfg (pre ++ spanOf k T ++ post) (0, Lines.byteLen (pre ++ spanOf k T ++ post)),
          spanNodes (spAttrs cfg (pre ++ spanOf k T ++ post)) 0 k pre T post⟩]⟩ := by
  have := parseDoc_of_blocks cfg _ pre T post k h c1 c2 hic hq hmn [] _ 0
    (blocks_top cfg pre T post k h bpre bpost hbc hbp hmn)
  simpa [wrapForestN, spanLeaf, tightOf] using this

/-- **`doc_span_verbatim`** (top level, no `sourcepos` plugin): the tree, exactly, no attributes anywhere -/
theorem doc_span_verbatim (hsp : cfg.sourcepos = false) :
    parseDoc cfg (pre ++ spanOf k T ++ post) =
      .ok ⟨.blk .root, some (0, Lines.byteLen (pre ++ spanOf k T ++ post)), [],
        [⟨.blk .paragraph, some (0, Lines.byteLen (pre ++ spanOf k T ++ post)), [],
          spanNodes (fun _ => []) 0 k pre T post⟩]⟩ := by
  have := doc_span_verbatim_sp cfg pre T post k h c1 c2 hic hq bpre bpost hbc hbp hmn
  rw [spAttrs_off hsp] at this
  exact this

/-- **`doc_span_render`, any `sourcepos`** (top level): `<p ATTRS>`, escaped `pre`, `<code ATTRS>`, escaped `T`,
    `</code>`, escaped `post`, `</p>`, LF; then the serializer's NUL replacement -/
theorem doc_span_render_sp (x : Bool) :
    renderDoc x cfg (pre ++ spanOf k T ++ post) =
      .ok (Render.replaceNul
        (openTag tP (spAttrs cfg (pre ++ spanOf k T ++ post) (0, Lines.byteLen (pre ++ spanOf k T ++ post))) ++
          inlHtml (spAttrs cfg (pre ++ spanOf k T ++ post)
            (Lines.byteLen pre, Lines.byteLen pre + (2 * (k + 1) + 2 + Lines.byteLen T))) pre T post ++
          closeTag tP ++ ['\n'])) := by
  have := renderDoc_of_blocks cfg _ pre T post k h c1 c2 hic hq hmn [] _ 0
    (blocks_top cfg pre T post k h bpre bpost hbc hbp hmn) x
  simpa [spanHtmlA] using this

/-- **`doc_span_render`** (top level, no `sourcepos` plugin), both serializers: the output is
    `<p>` `pre` `<code>` `T` `</code>` `post` `</p>` LF — `pre`, `T`, `post` character for character, with exactly
    `& < > "` escaped and NUL replaced by U+FFFD; nothing inside `T` is interpreted -/
theorem doc_span_render (hsp : cfg.sourcepos = false) (x : Bool) :
    renderDoc x cfg (pre ++ spanOf k T ++ post) =
      .ok ("<p>".toList ++ codeHtml (Render.nulStr pre) (Render.nulStr T) (Render.nulStr post) ++ "</p>\n".toList) := by
  have := renderDoc_of_blocks cfg _ pre T post k h c1 c2 hic hq hmn [] _ 0
    (blocks_top cfg pre T post k h bpre bpost hbc hbp hmn) x
  rw [spAttrs_off hsp] at this
  simp only [inlHtml_nil, spanHtmlA_nil, Render.replaceNul_eq_nulStr, nulStr_spanHtml, nulStr_codeHtml] at this
  exact this

end top

section nested
variable (cfg : DocCfg) (pre T post : List Char) (k : Nat) (h : SpanLine pre T post k)
  (htab : '\t' ∉ pre ++ spanOf k T ++ post)
  (c1 c2 : List Inline.RuleId) (hic : cfg.inlineChain = .text :: (c1 ++ .backticks :: c2))
  (hq : ∀ r ∈ c1, QuietTick r)
  (bpre bpost : List Block.RuleId) (hbc : cfg.blockChain = bpre ++ .paragraph :: bpost) (hbp : .paragraph ∉ bpre)
  (w : List Wrapper) (hw : ∀ x ∈ w, x.Ok) (hch : ChainFor cfg.blockChain w)
  (hmn : depthCost w < cfg.maxNesting)
  (hsize : Lines.byteLen (wrapAll w (pre ++ spanOf k T ++ post)) + 20 < 2147483648)
include h htab hic hq hbc hbp hw hch hmn hsize

omit hic hq in
theorem blocks_nested :
    parseBlocks cfg.blockCfg (wrapAll w (pre ++ spanOf k T ++ post)) =
      .ok (⟨.root, some (0, Lines.byteLen (wrapAll w (pre ++ spanOf k T ++ post))),
        wrapForest (Lines.byteLen (wrapAll w (pre ++ spanOf k T ++ post))) w 0
          (paraLeaf (pre ++ spanOf k T ++ post) [(0, 0)] 0 (widthAll w)
            (Lines.byteLen (wrapAll w (pre ++ spanOf k T ++ post))) (tightOf w))⟩, []) := by
  obtain ⟨c, r, hc, hpf, hmem⟩ := h.cons
  have hnt := h.noTerm
  have hld := lead_nonblank_cons r hpf.notBlank
  have g : Good [pre ++ spanOf k T ++ post] :=
    ⟨by simp, by intro l hl; rw [List.mem_singleton] at hl; subst hl; exact hnt, by rw [hc]; simp,
     by intro l hl; rw [List.mem_singleton] at hl; subst hl; exact htab⟩
  have hf : FirstLineOk (pre ++ spanOf k T ++ post) := by
    rw [hc]; exact ⟨by rw [hld.2]; simp, .inl (by rw [hld.1]; rfl)⟩
  have hmn' : 0 < ({ cfg.blockCfg with maxNesting := cfg.maxNesting - depthCost w } : Block.Cfg).maxNesting := by
    show 0 < cfg.maxNesting - depthCost w; omega
  have hbase := parseBlocks_line (c := c) (r := r) (by rw [← hc]; exact hnt) hpf
    (cfg := { cfg.blockCfg with maxNesting := cfg.maxNesting - depthCost w }) hbc hbp hmn'
  have htight := tokenize_line_tight (c := c) (r := r) (by rw [← hc]; exact hnt) hpf
    (cfg := { cfg.blockCfg with maxNesting := cfg.maxNesting - depthCost w }) hbc hbp hmn'
  rw [← hc] at hbase htight
  exact (doc_para_blocks_nested cfg _ [(0, 0)] 0 _ g hf (Nat.zero_le _) (by simp) w hw hch
    (fun _ => hrFree_of_mem hmem ⟨hpf.1, hpf.2.1, hpf.2.2.2.2.2.2.1, hpf.2.2.2.2.2.1, hpf.2.2.2.2.2.2.2.1⟩ w)
    hmn hsize hbase htight).2

/-- **`doc_span_verbatim_nested`, any `sourcepos`.**  The line of `doc_span_verbatim_sp`, TAB-FREE, inside any
    list `w` of wrappers (block quotes, bullet items, ordered items; `Wrapper.Ok`, C06's chain condition
    `ChainFor`, `depthCost w < max_nesting`, below 2 GiB): the tree is the chain of wrapper nodes (`wrapForestN`:
    one `Blockquote` per quote, a list with ONE `ListItem` per list wrapper, each from its marker's column to the
    end of the source) around the `Paragraph` (from behind the prefixes, `widthAll w`, to the end) — or, when the
    innermost wrapper is a list item (`tightOf w`), around nothing: `mark_tight_paragraphs` has unwrapped the
    paragraph — over the SAME three inline nodes as at top level, ranges moved by the width of the prefixes. -/
theorem doc_span_verbatim_nested_sp :
    parseDoc cfg (wrapAll w (pre ++ spanOf k T ++ post)) =
      .ok ⟨.blk .root, some (0, Lines.byteLen (wrapAll w (pre ++ spanOf k T ++ post))),
        spAttrs cfg (wrapAll w (pre ++ spanOf k T ++ post)) (0, Lines.byteLen (wrapAll w (pre ++ spanOf k T ++ post))),
        wrapForestN (spAttrs cfg (wrapAll w (pre ++ spanOf k T ++ post)))
          (Lines.byteLen (wrapAll w (pre ++ spanOf k T ++ post))) w 0
          (spanLeaf (spAttrs cfg (wrapAll w (pre ++ spanOf k T ++ post))) (widthAll w)
            (Lines.byteLen (wrapAll w (pre ++ spanOf k T ++ post))) (tightOf w)
            (spanNodes (spAttrs cfg (wrapAll w (pre ++ spanOf k T ++ post))) (widthAll w) k pre T post))⟩ :=
  parseDoc_of_blocks cfg _ pre T post k h c1 c2 hic hq (by omega) w _ _
    (blocks_nested cfg pre T post k h htab bpre bpost hbc hbp w hw hch hmn hsize)

/-- **`doc_span_verbatim_nested`** (no `sourcepos` plugin): the tree, exactly, no attributes anywhere -/
theorem doc_span_verbatim_nested (hsp : cfg.sourcepos = false) :
    parseDoc cfg (wrapAll w (pre ++ spanOf k T ++ post)) =
      .ok ⟨.blk .root, some (0, Lines.byteLen (wrapAll w (pre ++ spanOf k T ++ post))), [],
        wrapForestN (fun _ => []) (Lines.byteLen (wrapAll w (pre ++ spanOf k T ++ post))) w 0
          (spanLeaf (fun _ => []) (widthAll w) (Lines.byteLen (wrapAll w (pre ++ spanOf k T ++ post))) (tightOf w)
            (spanNodes (fun _ => []) (widthAll w) k pre T post))⟩ := by
  have := doc_span_verbatim_nested_sp cfg pre T post k h htab c1 c2 hic hq bpre bpost hbc hbp w hw hch hmn hsize
  rw [spAttrs_off hsp] at this
  exact this

/-- **`doc_span_render_nested`, any `sourcepos`**: the wrappers' tags with their attributes (`spanHtmlA`) around
    the paragraph / the tight item; then the serializer's NUL replacement -/
theorem doc_span_render_nested_sp (x : Bool) :
    renderDoc x cfg (wrapAll w (pre ++ spanOf k T ++ post)) =
      .ok (Render.replaceNul (spanHtmlA (spAttrs cfg (wrapAll w (pre ++ spanOf k T ++ post)))
        (Lines.byteLen (wrapAll w (pre ++ spanOf k T ++ post)))
        (openTag tP (spAttrs cfg (wrapAll w (pre ++ spanOf k T ++ post))
            (widthAll w, Lines.byteLen (wrapAll w (pre ++ spanOf k T ++ post)))) ++
          inlHtml (spAttrs cfg (wrapAll w (pre ++ spanOf k T ++ post))
            (widthAll w + Lines.byteLen pre, widthAll w + (Lines.byteLen pre + (2 * (k + 1) + 2 + Lines.byteLen T))))
            pre T post ++ closeTag tP ++ ['\n'])
        (inlHtml (spAttrs cfg (wrapAll w (pre ++ spanOf k T ++ post))
            (widthAll w + Lines.byteLen pre, widthAll w + (Lines.byteLen pre + (2 * (k + 1) + 2 + Lines.byteLen T))))
          pre T post) w 0)) :=
  renderDoc_of_blocks cfg _ pre T post k h c1 c2 hic hq (by omega) w _ _
    (blocks_nested cfg pre T post k h htab bpre bpost hbc hbp w hw hch hmn hsize) x

/-- **`doc_span_render_nested`** (no `sourcepos` plugin), both serializers: the output is the wrappers' HTML
    (`spanHtml`: around `<p>` … `</p>` LF, or — innermost wrapper a list item — `<li>` … `</li>`) around
    `pre` `<code>` `T` `</code>` `post`: character for character, with exactly `& < > "` escaped and NUL replaced
    by U+FFFD.  Nothing inside `T` is interpreted, nothing of `T` appears anywhere else. -/
theorem doc_span_render_nested (hsp : cfg.sourcepos = false) (x : Bool) :
    renderDoc x cfg (wrapAll w (pre ++ spanOf k T ++ post)) =
      .ok (spanHtml w (codeHtml (Render.nulStr pre) (Render.nulStr T) (Render.nulStr post))) := by
  have := doc_span_render_nested_sp cfg pre T post k h htab c1 c2 hic hq bpre bpost hbc hbp w hw hch hmn hsize x
  rw [spAttrs_off hsp] at this
  simp only [inlHtml_nil, spanHtmlA_nil, Render.replaceNul_eq_nulStr, nulStr_spanHtml, nulStr_codeHtml] at this
  exact this

end nested

/-! ## 5. instances on the stock chains, and the necessity of the hypotheses -/

section examples

/-- `newline`, `escape` — what stands between `text` and `backticks` in the stock inline chain — are quiet at a backtick -/
theorem quietTick_stock : ∀ r ∈ [Inline.RuleId.newline, .escape], QuietTick r := by
  intro r hr
  simp only [List.mem_cons, List.not_mem_nil, or_false] at hr
  rcases hr with rfl | rfl <;> exact ⟨(by intro e; cases e), (by intro csw e; cases e)⟩

/-- the payload `<b>&amp;*x*\[` — markup, an entity, emphasis, an escape, a bracket — between `a ` and ` b`, two backticks -/
def exT : List Char := ['<', 'b', '>', '&', 'a', 'm', 'p', ';', '*', 'x', '*', '\\', '[']

theorem exLine : SpanLine ['a', ' '] exT [' ', 'b'] 1 :=
  ⟨⟨'a', [' '], rfl, by decide⟩, by decide, by decide, by decide, by decide, by decide, by decide, by decide, by decide⟩

/-- the line, spelled out -/
example : ['a', ' '] ++ spanOf 1 exT ++ [' ', 'b'] = "a `` <b>&amp;*x*\\[ `` b".toList := by decide +kernel

/-- `doc_span_render` applies on the stock configuration (both serializers) … -/
example (x : Bool) : renderDoc x (exCfg false 100) (['a', ' '] ++ spanOf 1 exT ++ [' ', 'b']) =
    .ok ("<p>".toList ++ codeHtml (Render.nulStr ['a', ' ']) (Render.nulStr exT) (Render.nulStr [' ', 'b']) ++
      "</p>\n".toList) :=
  doc_span_render (exCfg false 100) _ _ _ 1 exLine [.newline, .escape] _ rfl quietTick_stock
    [.code, .fence, .blockquote, .hr, .list, .reference, .heading, .lheading] [] rfl (by decide) (by decide) rfl x

/-- … and that is this string: the payload verbatim, `< > &` escaped, nothing interpreted -/
example : "<p>".toList ++ codeHtml (Render.nulStr ['a', ' ']) (Render.nulStr exT) (Render.nulStr [' ', 'b']) ++ "</p>\n".toList =
    "<p>a <code>&lt;b&gt;&amp;amp;*x*\\[</code> b</p>\n".toList := by decide +kernel

/-- the tree of `doc_span_verbatim`: `Root[Paragraph[Text "a ", CodeInline[Text T], Text " b"]]` — the span over
    bytes 2 .. 21, `T` over bytes 5 .. 18 -/
example : parseDoc (exCfg false 100) (['a', ' '] ++ spanOf 1 exT ++ [' ', 'b']) =
    .ok ⟨.blk .root, some (0, 23), [],
      [⟨.blk .paragraph, some (0, 23), [],
        [⟨.inl (.text ['a', ' ']), some (0, 2), [], []⟩,
         ⟨.inl (.codeInline '`' 2), some (2, 21), [], [⟨.inl (.text exT), some (5, 18), [], []⟩]⟩,
         ⟨.inl (.text [' ', 'b']), some (21, 23), [], []⟩]⟩]⟩ := by
  have h := doc_span_verbatim (exCfg false 100) _ _ _ 1 exLine [.newline, .escape] _ rfl quietTick_stock
    [.code, .fence, .blockquote, .hr, .list, .reference, .heading, .lheading] [] rfl (by decide) (by decide) rfl
  have hE : Lines.byteLen (['a', ' '] ++ spanOf 1 exT ++ [' ', 'b']) = 23 := by decide +kernel
  have hn : spanNodes (fun _ => []) 0 1 ['a', ' '] exT [' ', 'b'] =
      [⟨.inl (.text ['a', ' ']), some (0, 2), [], []⟩,
       ⟨.inl (.codeInline '`' 2), some (2, 21), [], [⟨.inl (.text exT), some (5, 18), [], []⟩]⟩,
       ⟨.inl (.text [' ', 'b']), some (21, 23), [], []⟩] := by
    have e1 : Lines.byteLen ['a', ' '] = 2 := by decide +kernel
    have e2 : Lines.byteLen exT = 13 := by decide +kernel
    have e3 : Lines.byteLen [' ', 'b'] = 2 := by decide +kernel
    have e4 : CodePair.normalise exT = exT := by decide +kernel
    simp [spanNodes, txtN, codeN, e1, e2, e3, e4]
  rw [h, hE, hn]

/-- `doc_span_render_nested` applies: a bullet item in a block quote — the innermost wrapper is the item, so it is
    TIGHT (`<li>` directly around the inline HTML) … -/
example (x : Bool) :
    renderDoc x (exCfg false 100) (wrapAll [.quote, .bullet '-'] (['a', ' '] ++ spanOf 1 exT ++ [' ', 'b'])) =
      .ok (spanHtml [.quote, .bullet '-']
        (codeHtml (Render.nulStr ['a', ' ']) (Render.nulStr exT) (Render.nulStr [' ', 'b']))) :=
  doc_span_render_nested (exCfg false 100) _ _ _ 1 exLine (by decide +kernel) [.newline, .escape] _ rfl quietTick_stock
    [.code, .fence, .blockquote, .hr, .list, .reference, .heading, .lheading] [] rfl (by decide)
    [.quote, .bullet '-'] (by decide) (chainFor_stock _) (by decide) (by decide +kernel) rfl x

/-- … the document and the output, spelled out -/
example : wrapAll [.quote, .bullet '-'] (['a', ' '] ++ spanOf 1 exT ++ [' ', 'b']) =
      "> - a `` <b>&amp;*x*\\[ `` b".toList ∧
    spanHtml [.quote, .bullet '-'] (codeHtml (Render.nulStr ['a', ' ']) (Render.nulStr exT) (Render.nulStr [' ', 'b'])) =
      "<blockquote>\n<ul>\n<li>a <code>&lt;b&gt;&amp;amp;*x*\\[</code> b</li>\n</ul>\n</blockquote>\n".toList := by
  decide +kernel

/-- the other way round — a block quote in an ordered item: the paragraph stays -/
example (x : Bool) :
    renderDoc x (exCfg false 100) (wrapAll [.ordered ['7'] ')', .quote] (['a', ' '] ++ spanOf 1 exT ++ [' ', 'b'])) =
      .ok (spanHtml [.ordered ['7'] ')', .quote]
        (codeHtml (Render.nulStr ['a', ' ']) (Render.nulStr exT) (Render.nulStr [' ', 'b']))) :=
  doc_span_render_nested (exCfg false 100) _ _ _ 1 exLine (by decide +kernel) [.newline, .escape] _ rfl quietTick_stock
    [.code, .fence, .blockquote, .hr, .list, .reference, .heading, .lheading] [] rfl (by decide)
    [.ordered ['7'] ')', .quote] (by decide) (chainFor_stock _) (by decide) (by decide +kernel) rfl x

example : wrapAll [.ordered ['7'] ')', .quote] (['a', ' '] ++ spanOf 1 exT ++ [' ', 'b']) =
      "7) > a `` <b>&amp;*x*\\[ `` b".toList ∧
    spanHtml [.ordered ['7'] ')', .quote] (codeHtml (Render.nulStr ['a', ' ']) (Render.nulStr exT) (Render.nulStr [' ', 'b'])) =
      ("<ol start=\"7\">\n<li>\n<blockquote>\n<p>a <code>&lt;b&gt;&amp;amp;*x*\\[</code> b</p>\n</blockquote>\n" ++
        "</li>\n</ol>\n").toList := by
  decide +kernel

/-- the same by evaluation, and with the `sourcepos` plugin (`doc_span_render_nested_sp`): the `CodeInline` node
    carries the position of the whole span -/
example : renderDoc false (exCfg false 100) "> - a `` <b> `` b".toList =
      .ok "<blockquote>\n<ul>\n<li>a <code>&lt;b&gt;</code> b</li>\n</ul>\n</blockquote>\n".toList ∧
    renderDoc false (exCfg true 100) "> - a `` <b> `` b".toList =
      .ok ("<blockquote data-sourcepos=\"1:1-1:17\">\n<ul data-sourcepos=\"1:3-1:17\">\n<li data-sourcepos=\"1:3-1:17\">" ++
        "a <code data-sourcepos=\"1:7-1:15\">&lt;b&gt;</code> b</li>\n</ul>\n</blockquote>\n").toList := by
  decide +kernel

/-- `T` may begin and end with spaces (only the padding pair goes), hold tabs and multi-byte characters (top level) -/
example (x : Bool) : renderDoc x (exCfg false 100) (['a'] ++ spanOf 0 [' ', 'é', '\t', '€', ' '] ++ []) =
    .ok ("<p>".toList ++ codeHtml (Render.nulStr ['a']) (Render.nulStr [' ', 'é', '\t', '€', ' ']) (Render.nulStr []) ++
      "</p>\n".toList) :=
  doc_span_render (exCfg false 100) _ _ _ 0
    ⟨⟨'a', [], rfl, by decide⟩, by decide, by decide, by decide, by decide, by decide, by decide, by decide, by decide⟩
    [.newline, .escape] _ rfl quietTick_stock
    [.code, .fence, .blockquote, .hr, .list, .reference, .heading, .lheading] [] rfl (by decide) (by decide) rfl x

example : ['a'] ++ spanOf 0 [' ', 'é', '\t', '€', ' '] ++ [] = "a`  é\t€  `".toList ∧
    "<p>".toList ++ codeHtml (Render.nulStr ['a']) (Render.nulStr [' ', 'é', '\t', '€', ' ']) (Render.nulStr []) ++
      "</p>\n".toList = "<p>a<code> é\t€ </code></p>\n".toList := by decide +kernel

/-- what the model (= the crate, checked) does with an ALL-SPACE content of three or more spaces: `T = ␠` in the
    padded form is `` `␠␠␠` ``; the theorem applies and one pair of spaces goes — `<code> </code>`.  (CommonMark:
    a content consisting entirely of spaces is NOT stripped, `<code>   </code>`; the Rust tests
    `starts_with(' ') && ends_with(' ') && len() > 2`.)  Two spaces stay two. -/
example : SpanLine ['a', ' '] [' '] [] 0 ∧ ['a', ' '] ++ spanOf 0 [' '] ++ [] = "a `   `".toList ∧
    renderDoc false (exCfg false 100) "a `   `".toList = .ok "<p>a <code> </code></p>\n".toList ∧
    renderDoc false (exCfg false 100) "a `  `".toList = .ok "<p>a <code>  </code></p>\n".toList := by
  refine ⟨⟨⟨'a', [' '], rfl, by decide⟩, by decide, by decide, by decide, by decide, by decide, by decide, by decide,
    by decide⟩, by decide +kernel, by decide +kernel, by decide +kernel⟩

/-- `pre` plain is needed: a backtick run in `pre` pairs with the opener (`T` lands outside the code), a backslash
    at the end of `pre` escapes the opener's first backtick -/
example : ¬ PlainTxt "a `` ".toList ∧ ¬ PlainTxt "a\\".toList ∧
    renderDoc false (exCfg false 100) ("a `` ".toList ++ spanOf 1 ['x'] ++ " b".toList) =
      .ok "<p>a <code> </code> x `` b</p>\n".toList ∧
    renderDoc false (exCfg false 100) ("a\\".toList ++ spanOf 1 ['x'] ++ []) = .ok "<p>a`` x ``</p>\n".toList := by
  decide +kernel

/-- … and a `[` in `pre` can put the span into a link (the content is still verbatim, the tree is another) -/
example : ¬ PlainTxt "a [".toList ∧
    renderDoc false (exCfg false 100) ("a [".toList ++ spanOf 1 ['x'] ++ "](u)".toList) =
      .ok "<p>a <a href=\"u\"><code>x</code></a></p>\n".toList := by decide +kernel

/-- `T` free of runs of `k + 1` backticks is needed: the first such run closes the span -/
example : List.replicate 2 '`' <:+: "x``y".toList ∧
    renderDoc false (exCfg false 100) ("a ".toList ++ spanOf 1 "x``y".toList ++ " b".toList) =
      .ok "<p>a <code> x</code>y `` b</p>\n".toList := by
  refine ⟨⟨['x'], ['y'], by decide⟩, by decide +kernel⟩

/-- the first character: a digit (with `.` and a blank) makes the line a list item, not a paragraph -/
example : ¬ ParaFirst '1' ∧
    renderDoc false (exCfg false 100) ("1. ".toList ++ spanOf 1 ['x'] ++ []) = .ok "<ol>\n<li><code>x</code></li>\n</ol>\n".toList := by
  decide +kernel

/-- no blank at the end of the line (`postEnd`) is a restriction of the statement, not of the behaviour: the
    trailing blank is dropped by the inline parser's `trim_src`, everything else is as in the theorem -/
example : renderDoc false (exCfg false 100) ("a ".toList ++ spanOf 1 ['x'] ++ " b ".toList) =
    .ok "<p>a <code>x</code> b</p>\n".toList := by decide +kernel

/-- `depthCost w < max_nesting` is needed: quote + item cost 3 -/
example : renderDoc false (exCfg false 3) (wrapAll [.quote, .bullet '-'] ("a ".toList ++ spanOf 1 ['x'] ++ [])) =
      .ok "<blockquote>\n<ul>\n<li></li>\n</ul>\n</blockquote>\n".toList ∧
    renderDoc false (exCfg false 4) (wrapAll [.quote, .bullet '-'] ("a ".toList ++ spanOf 1 ['x'] ++ [])) =
      .ok "<blockquote>\n<ul>\n<li>a <code>x</code></li>\n</ul>\n</blockquote>\n".toList := by
  decide +kernel

/-- the chain condition `QuietTick` is needed: an emphasis rule for the backtick in front of `backticks` takes the run -/
example : ¬ QuietTick (.emph '`' true) ∧
    renderDoc false { exCfg false 100 with inlineChain := [.text, .emph '`' true, .backticks] }
      ("a ".toList ++ spanOf 1 ['x'] ++ []) = .ok "<p>a `` x ``</p>\n".toList := by
  refine ⟨fun h => h.2 true rfl, by decide +kernel⟩

/-- MULTI-LINE spans (not covered by the theorems above; by evaluation, the crate agrees).  The block structure
    comes first: the span's lines are paragraph continuation lines, so a line of `T` that starts a block (`- y`)
    ends the paragraph and the span with it — a multi-line statement needs "no line of `T` interrupts a paragraph".
    Where the paragraph goes on, every LF becomes a space and NOTHING else changes: the continuation line's
    indentation stays (`x␠␠␠␠y`; CommonMark strips it), trailing blanks in front of the LF stay (no hard break);
    inside a block quote the `> ` prefixes are gone before the inline parser runs. -/
example : renderDoc false (exCfg false 100) "a `` x\n   y ``".toList = .ok "<p>a <code>x    y</code></p>\n".toList ∧
    renderDoc false (exCfg false 100) "a `` x  \ny ``".toList = .ok "<p>a <code>x   y</code></p>\n".toList ∧
    renderDoc false (exCfg false 100) "a `` x\n- y ``".toList =
      .ok "<p>a `` x</p>\n<ul>\n<li>y ``</li>\n</ul>\n".toList ∧
    renderDoc false (exCfg false 100) "> a `` x\n> y ``".toList =
      .ok "<blockquote>\n<p>a <code>x y</code></p>\n</blockquote>\n".toList := by
  decide +kernel

end examples

end MdIt.C11N
