/-
  Tie of the raw-HTML block rule's element names to the current Rust source (properties C01, C16).
  `MdIt/Gen/Consts.lean` is regenerated from /repo by extract/extract.py on every run; the regex source strings of
  `html_block.rs` / `utils/regexps.rs` are compared there with the strings the hand-written matchers of
  `Model/Html.lean` were written for (29 value anchors).
-/
import MdIt.Model.Html
import MdIt.Gen.Consts

namespace MdIt.Html

/-- **Tie to the source (regenerated on every run).**  The 62 names of `HTML_BLOCKS` in
    `src/plugins/html/utils/blocks.rs` are exactly the table start condition 6 of the model matches against. -/
theorem gen_htmlBlockNames :
    MdIt.Gen.Consts.htmlBlockNames = blockNames.map (fun n => n.map Char.toNat) := by decide +kernel

end MdIt.Html
