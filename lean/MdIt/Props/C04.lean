/-
  C04 — dangerous URL schemes are never emitted.

  Chain of the argument (all statements for ALL inputs, no size bounds):
    1. `normalized_alphabet`   every byte of `normalize_link s` is visible ASCII 33..126 (from C17)
    2. `preprocess_id`         on that alphabet the browser's pre-processing (strip C0/space at the
                               ends, drop TAB/LF/CR) is the identity — the browser sees what was validated
    3. `validate_sound`        on that alphabet `validate_link u` ⇒ `¬ dangerous u`;
       `validate_exact`        in fact `validate_link u = !dangerous u` there
    4. `pipeline_safe`, `pipeline_safe_ref`, `pipeline_safe_autolink`
                               the three call sites decode → normalise → validate, so whatever comes out
                               is not dangerous, for EVERY raw text and EVERY decoding function
    5. `rejected_stays_literal` the inline branch of `parse_link` never returns a link whose destination
                               was rejected (needs two facts about the decoder, `DecOk`)
  plus what is rejected (`validate_rejects*`), and the destination / title parsers
  (`dest_spec`, `dest_pos_bounds`, `dest_no_ctrl`, `dest_lines_zero_sound`, `title_delims`,
  `title_lines_exact`, totality / exact panic conditions
  `dest_total`, `dest_panics_iff`, `title_total`, `title_panics_iff`, `tail_total`).
  The full list of property theorems is `Audit/C04.lean`.
-/
import MdIt.Props.C17
import MdIt.Model.Link

namespace MdIt.Link
open MdIt.Url

/-! ## the safe set of `normalize_link` is the shipped constant (tied to the source in `Props/GenC17.lean`) -/

theorem safeChars_eq : safeChars = shippedSafe := rfl

theorem linkSafe_eq : linkSafe = defaultSafe := rfl

/-! ## UTF-8 -/

theorem utf8Char_bytes (c : Char) : ∀ b ∈ utf8Char c, b < 256 := by
  have hc : c.toNat < 1114112 := by
    have := c.valid
    simp only [Char.toNat, UInt32.isValidChar, Nat.isValidChar] at *
    omega
  intro b hb
  unfold utf8Char at hb
  simp only at hb
  split at hb
  · simp at hb; omega
  · split at hb
    · simp at hb; omega
    · split at hb
      · simp at hb; omega
      · simp at hb; omega

/-- the UTF-8 view of any string is a byte string -/
theorem utf8_bytes (s : List Char) : Bytes (utf8 s) := by
  intro b hb
  simp only [utf8, List.mem_flatMap] at hb
  obtain ⟨c, _, hc⟩ := hb
  exact utf8Char_bytes c b hc

theorem utf8Char_length (c : Char) : (utf8Char c).length = clen c := by
  unfold utf8Char clen
  simp only
  split
  · rfl
  · split
    · rfl
    · split <;> rfl

/-! ## `normalized_alphabet`, `preprocess_id` -/

/-- visible ASCII: 33..126 -/
def Visible (u : List Nat) : Prop := ∀ b ∈ u, 32 < b ∧ b < 127

instance (u : List Nat) : Decidable (Visible u) := by unfold Visible; infer_instance

/-- **C04 (alphabet).** Every byte of `normalize_link s` is in 33..126. -/
theorem normalized_alphabet (s : List Nat) (hs : Bytes s) : Visible (normalizeLink s) := by
  unfold normalizeLink
  rw [linkSafe_eq]
  exact encode_default_visible true s hs

/-- the same for the UTF-8 bytes of any text -/
theorem normalized_alphabet_chars (cs : List Char) : Visible (normalizeLink (utf8 cs)) :=
  normalized_alphabet _ (utf8_bytes cs)

theorem stripLead_id (u : List Nat) (hu : Visible u) : stripLead u = u := by
  cases u with
  | nil => rfl
  | cons b r =>
    have := hu b (by simp)
    simp only [stripLead]
    rw [if_neg (by omega)]

theorem Visible.reverse {u : List Nat} (hu : Visible u) : Visible u.reverse :=
  fun b hb => hu b (by simpa using hb)

theorem stripTrail_id (u : List Nat) (hu : Visible u) : stripTrail u = u := by
  unfold stripTrail
  rw [stripLead_id _ hu.reverse, List.reverse_reverse]

/-- **C04 (the browser sees the normalised URL verbatim).** WHATWG pre-processing (strip leading /
    trailing C0-or-space, remove TAB / LF / CR) is the identity on visible ASCII. -/
theorem preprocess_id (u : List Nat) (hu : Visible u) : preprocess u = u := by
  unfold preprocess
  rw [stripLead_id u hu, stripTrail_id u hu, List.filter_eq_self]
  intro b hb
  have := hu b hb
  simp [isTabNl]
  omega

/-! ## matchers vs. the browser's scheme extraction -/

theorem lower_58 : lower 58 = 58 := by decide

theorem startsCI_append_left (p q u : List Nat) (h : startsCI (p ++ q) u = true) :
    startsCI p u = true := by
  induction p generalizing u with
  | nil => simp [startsCI]
  | cons a p ih =>
    cases u with
    | nil => simp [startsCI] at h
    | cons b r =>
      simp only [List.cons_append, startsCI, Bool.and_eq_true] at h ⊢
      exact ⟨h.1, ih r h.2⟩

/-- lower-cased first byte of the subject -/
def headLower : List Nat → Option Nat
  | [] => none
  | b :: _ => some (lower b)

theorem startsCI_head (a : Nat) (p u : List Nat) (h : startsCI (a :: p) u = true) :
    headLower u = some a := by
  cases u with
  | nil => simp [startsCI] at h
  | cons b r =>
    simp only [startsCI, Bool.and_eq_true, beq_iff_eq] at h
    simp [headLower, h.1]

theorem schemeRest_starts (r s : List Nat) (h : schemeRest r = some s) :
    startsCI (s ++ [58]) r = true := by
  induction r generalizing s with
  | nil => simp [schemeRest] at h
  | cons b r ih =>
    simp only [schemeRest] at h
    split at h
    · rename_i hb
      simp only [beq_iff_eq] at hb
      cases h
      simp [startsCI, hb, lower_58]
    · split at h
      · cases hr : schemeRest r with
        | none => simp [hr] at h
        | some s' =>
          simp only [hr, Option.map_some, Option.some.injEq] at h
          subst h
          simp [startsCI, ih s' hr]
      · cases h

/-- the scheme the browser extracts (plus `:`) is a case-insensitive prefix of the
    pre-processed URL -/
theorem browserScheme_starts (u s : List Nat) (h : browserScheme u = some s) :
    startsCI (s ++ [58]) (preprocess u) = true := by
  unfold browserScheme at h
  split at h
  · cases h
  · rename_i b r hp
    rw [hp]
    split at h
    · cases hr : schemeRest r with
      | none => simp [hr] at h
      | some s' =>
        simp only [hr, Option.map_some, Option.some.injEq] at h
        subst h
        simp [startsCI, schemeRest_starts r s' hr]
    · cases h

theorem goodData_head (u : List Nat) (h : goodData u = true) : headLower u = some 100 := by
  simp only [goodData, Bool.or_eq_true] at h
  rcases h with ((h | h) | h) | h <;> exact startsCI_head 100 _ u h

theorem goodData_bad (u : List Nat) (h : goodData u = true) : badProto u = true := by
  have : startsCI (sData ++ [58]) u = true := by
    simp only [goodData, Bool.or_eq_true] at h
    rcases h with ((h | h) | h) | h
    · exact startsCI_append_left (sData ++ [58]) ([105, 109, 97, 103, 101, 47] ++ sGif) u h
    · exact startsCI_append_left (sData ++ [58]) ([105, 109, 97, 103, 101, 47] ++ sPng) u h
    · exact startsCI_append_left (sData ++ [58]) ([105, 109, 97, 103, 101, 47] ++ sJpeg) u h
    · exact startsCI_append_left (sData ++ [58]) ([105, 109, 97, 103, 101, 47] ++ sWebp) u h
  simp [badProto, this]

/-- **C04 (validator soundness).** On visible ASCII — the alphabet of `normalize_link` — a URL
    accepted by `validate_link` is not one a browser would run as `javascript:` / `vbscript:`, open
    as `file:`, or load as a non-image `data:` URL. -/
theorem validate_sound (u : List Nat) (hu : Visible u) (hv : validateLink u = true) :
    dangerous u = false := by
  unfold dangerous
  cases hs : browserScheme u with
  | none => rfl
  | some s =>
    have hp := browserScheme_starts u s hs
    rw [preprocess_id u hu] at hp ⊢
    simp only [validateLink, Bool.or_eq_true, Bool.not_eq_true'] at hv
    simp only
    by_cases hg : goodData u = true
    · -- the data-image exception: the scheme is `data`, and the exception is the model's own test
      have hd := goodData_head u hg
      have hh : headLower u = (s ++ [58]).head? := by
        cases s with
        | nil => simp at hp; exact startsCI_head 58 [] u hp
        | cons a s' => rw [List.cons_append] at hp; exact startsCI_head a (s' ++ [58]) u hp
      have h1 : (s == sJavascript) = false := by
        rw [beq_eq_false_iff_ne]; rintro rfl; rw [hd] at hh; simp [sJavascript] at hh
      have h2 : (s == sVbscript) = false := by
        rw [beq_eq_false_iff_ne]; rintro rfl; rw [hd] at hh; simp [sVbscript] at hh
      have h3 : (s == sFile) = false := by
        rw [beq_eq_false_iff_ne]; rintro rfl; rw [hd] at hh; simp [sFile] at hh
      simp [h1, h2, h3, hg]
    · -- no exception: `BAD_PROTO_RE` did not match, so the scheme is none of the four
      have hb : badProto u = false := by
        rcases hv with h | h
        · exact h
        · exact absurd h hg
      have h1 : (s == sJavascript) = false := by
        rw [beq_eq_false_iff_ne]; rintro rfl; simp [badProto, hp] at hb
      have h2 : (s == sVbscript) = false := by
        rw [beq_eq_false_iff_ne]; rintro rfl; simp [badProto, hp] at hb
      have h3 : (s == sFile) = false := by
        rw [beq_eq_false_iff_ne]; rintro rfl; simp [badProto, hp] at hb
      have h4 : (s == sData) = false := by
        rw [beq_eq_false_iff_ne]; rintro rfl; simp [badProto, hp] at hb
      simp [h1, h2, h3, h4]

/-! ## the pipelines -/

/-- **C04 (inline links and images).** Whatever the raw destination text and whatever the decoding
    of escapes / character references does to it, a destination that `parse_link` accepts is not
    dangerous. -/
theorem pipeline_safe (dec : List Char → List Char) (raw : List Char) (u : List Nat)
    (h : inlineDest dec raw = some u) : dangerous u = false := by
  unfold inlineDest at h
  simp only at h
  split at h
  · rename_i hv
    cases h
    exact validate_sound _ (normalized_alphabet_chars _) hv
  · cases h

/-- **C04 (reference definitions).** -/
theorem pipeline_safe_ref (dec : List Char → List Char) (raw : List Char) (u : List Nat)
    (h : refDest dec raw = some u) : dangerous u = false := by
  unfold refDest at h
  simp only at h
  split at h
  · rename_i hv
    cases h
    exact validate_sound _ (normalized_alphabet_chars _) hv
  · cases h

/-- **C04 (autolinks)**, both the URL form and the e-mail form (`mailto:` prepended). -/
theorem pipeline_safe_autolink (isAutolink : Bool) (url : List Char) (u : List Nat)
    (h : autolinkDest isAutolink url = some u) : dangerous u = false := by
  unfold autolinkDest at h
  cases isAutolink <;> simp only [Bool.false_eq_true, if_false, if_true] at h <;> split at h
  · rename_i hv; cases h; exact validate_sound _ (normalized_alphabet_chars _) hv
  · cases h
  · rename_i hv; cases h; exact validate_sound _ (normalized_alphabet_chars _) hv
  · cases h

/-- the destination parser composed with the inline pipeline: an `href` that comes out is safe -/
theorem inlineHref_safe (dec : List Char → List Char) (str : List Char) (pos max p : Nat)
    (u : List Nat) (h : inlineHref dec str pos max = .ok (some (p, some u))) :
    dangerous u = false := by
  unfold inlineHref at h
  split at h
  · cases h
  · cases h
  · rename_i res _
    split at h
    · rename_i u' hu'
      cases h
      exact pipeline_safe dec res.raw u hu'
    · cases h

/-! ## the validator is exact on the normalised alphabet; what it rejects -/

def LowerLetters (s : List Nat) : Prop := ∀ c ∈ s, 97 ≤ c ∧ c ≤ 122

instance (s : List Nat) : Decidable (LowerLetters s) := by unfold LowerLetters; infer_instance

theorem lower_eq_58 (b : Nat) (h : lower b = 58) : b = 58 := by
  unfold lower at h; split at h <;> omega

theorem lower_letter (b c : Nat) (h : lower b = c) (hc : 97 ≤ c ∧ c ≤ 122) :
    isAlpha b = true ∧ b ≠ 58 := by
  unfold lower at h
  simp only [isAlpha, Bool.or_eq_true, Bool.and_eq_true, decide_eq_true_eq]
  split at h <;> omega

theorem starts_schemeRest (s r : List Nat) (hs : LowerLetters s)
    (h : startsCI (s ++ [58]) r = true) : schemeRest r = some s := by
  induction s generalizing r with
  | nil =>
    cases r with
    | nil => simp [startsCI] at h
    | cons b r' =>
      simp only [List.nil_append, startsCI, Bool.and_true, beq_iff_eq] at h
      simp [schemeRest, lower_eq_58 b h]
  | cons c s ih =>
    cases r with
    | nil => simp [startsCI] at h
    | cons b r' =>
      simp only [List.cons_append, startsCI, Bool.and_eq_true, beq_iff_eq] at h
      have hl := lower_letter b c h.1 (hs c (by simp))
      have := ih r' (fun x hx => hs x (by simp [hx])) h.2
      simp [schemeRest, hl.2, isSchemeChar, hl.1, this, h.1]

/-- a URL over the normalised alphabet that starts (in any letter case) with `<letters>:` has
    exactly that scheme for the browser -/
theorem starts_browserScheme (c : Nat) (s u : List Nat) (hs : LowerLetters (c :: s))
    (hu : Visible u) (h : startsCI (c :: s ++ [58]) u = true) : browserScheme u = some (c :: s) := by
  unfold browserScheme
  rw [preprocess_id u hu]
  cases u with
  | nil => simp [startsCI] at h
  | cons b r =>
    simp only [List.cons_append, startsCI, Bool.and_eq_true, beq_iff_eq] at h
    have hl := lower_letter b c h.1 (hs c (by simp))
    have := starts_schemeRest s r (fun x hx => hs x (by simp [hx])) h.2
    simp [hl.1, this, h.1]

/-- **C04 (the validator is exact).** On the normalised alphabet `validate_link` rejects a URL if
    AND ONLY IF a browser would treat it as one of the dangerous kinds: it is sound
    (`validate_sound`) and rejects nothing else. -/
theorem validate_exact (u : List Nat) (hu : Visible u) : validateLink u = !dangerous u := by
  cases hv : validateLink u with
  | true => rw [validate_sound u hu hv]; rfl
  | false =>
    simp only [validateLink, Bool.or_eq_false_iff, Bool.not_eq_false'] at hv
    obtain ⟨hb, hg⟩ := hv
    have hd : ∀ c s, LowerLetters (c :: s) → startsCI (c :: s ++ [58]) u = true →
        ((c :: s) == sJavascript || (c :: s) == sVbscript || (c :: s) == sFile ||
          ((c :: s) == sData)) = true → dangerous u = true := by
      intro c s hs h hm
      unfold dangerous
      rw [starts_browserScheme c s u hs hu h, preprocess_id u hu, hg]
      simpa using hm
    simp only [badProto, Bool.or_eq_true] at hb
    rcases hb with ((h | h) | h) | h
    · rw [hd 118 [98, 115, 99, 114, 105, 112, 116] (by decide) h (by decide)]; rfl
    · rw [hd 106 [97, 118, 97, 115, 99, 114, 105, 112, 116] (by decide) h (by decide)]; rfl
    · rw [hd 102 [105, 108, 101] (by decide) h (by decide)]; rfl
    · rw [hd 100 [97, 116, 97] (by decide) h (by decide)]; rfl

/-- the four schemes of `BAD_PROTO_RE` -/
def badSchemes : List (List Nat) := [sVbscript, sJavascript, sFile, sData]

/-- **C04 (what is rejected).** A URL that starts, in any letter case, with `vbscript:`,
    `javascript:`, `file:` or `data:` is rejected unless the data-image exception applies. -/
theorem validate_rejects (s u : List Nat) (hs : s ∈ badSchemes)
    (h : startsCI (s ++ [58]) u = true) (hg : goodData u = false) : validateLink u = false := by
  have hb : badProto u = true := by
    simp only [badSchemes, List.mem_cons, List.not_mem_nil, or_false] at hs
    rcases hs with rfl | rfl | rfl | rfl <;> simp [badProto, h]
  simp [validateLink, hb, hg]

theorem startsCI_map_lower (pre rest : List Nat) : startsCI (pre.map lower) (pre ++ rest) = true := by
  induction pre with
  | nil => simp [startsCI]
  | cons b r ih => simp [startsCI, ih]

/-- the exception needs the scheme `data`: for the other three there is no way out -/
theorem goodData_needs_data (s u : List Nat) (hs : s ∈ [sVbscript, sJavascript, sFile])
    (h : startsCI (s ++ [58]) u = true) : goodData u = false := by
  cases hg : goodData u with
  | false => rfl
  | true =>
    have hd := goodData_head u hg
    simp only [List.mem_cons, List.not_mem_nil, or_false] at hs
    rcases hs with rfl | rfl | rfl
    · have := startsCI_head 118 _ u h; rw [hd] at this; cases this
    · have := startsCI_head 106 _ u h; rw [hd] at this; cases this
    · have := startsCI_head 102 _ u h; rw [hd] at this; cases this

/-- **C04 (letter case does not help).** Every spelling `pre` of `vbscript:` / `javascript:` /
    `file:` in any mix of upper and lower case, followed by anything at all, is rejected. -/
theorem validate_rejects_spelling (s pre rest : List Nat) (hs : s ∈ [sVbscript, sJavascript, sFile])
    (hpre : pre.map lower = s ++ [58]) : validateLink (pre ++ rest) = false := by
  have h : startsCI (s ++ [58]) (pre ++ rest) = true := hpre ▸ startsCI_map_lower pre rest
  refine validate_rejects s _ ?_ h (goodData_needs_data s _ hs h)
  simp only [List.mem_cons, List.not_mem_nil, or_false] at hs
  rcases hs with rfl | rfl | rfl <;> simp [badSchemes]

/-- a `data:` URL in any letter case is rejected unless it continues `image/gif;`, `image/png;`,
    `image/jpeg;` or `image/webp;` (again in any letter case) -/
theorem validate_rejects_data (pre rest : List Nat) (hpre : pre.map lower = sData ++ [58])
    (hg : goodData (pre ++ rest) = false) : validateLink (pre ++ rest) = false :=
  validate_rejects sData _ (by simp [badSchemes]) (hpre ▸ startsCI_map_lower pre rest) hg

/-! ### concrete URLs (bytes written out; the comment gives the text) -/

section Examples

/-- all bytes safe and no `%`: `normalize_link` leaves the string alone -/
theorem normalize_safe_id (u : List Nat) (h : ∀ b ∈ u, b < 128 ∧ linkSafe b = true) :
    normalizeLink u = u := by
  unfold normalizeLink
  apply fix_on_EncK
  induction u with
  | nil => exact EncK.nil
  | cons b r ih =>
    have hb := h b (by simp)
    refine EncK.lit b r hb.1 hb.2 ?_ (ih (fun c hc => h c (by simp [hc])))
    rintro ⟨rfl, _⟩
    rw [linkSafe_eq, default_no_pct] at hb
    cases hb.2

/-- `javascript:alert(1)` -/
def exJs : List Nat := [106, 97, 118, 97, 115, 99, 114, 105, 112, 116, 58, 97, 108, 101, 114, 116, 40, 49, 41]
/-- `JaVaScRiPt:x` -/
def exJsMixed : List Nat := [74, 97, 86, 97, 83, 99, 82, 105, 80, 116, 58, 120]
/-- `data:text/html,x` -/
def exDataHtml : List Nat := [100, 97, 116, 97, 58, 116, 101, 120, 116, 47, 104, 116, 109, 108, 44, 120]
/-- `data:image/png;base64,xx` -/
def exDataPng : List Nat :=
  [100, 97, 116, 97, 58, 105, 109, 97, 103, 101, 47, 112, 110, 103, 59, 98, 97, 115, 101, 54, 52, 44, 120, 120]
/-- `data:image/svg+xml;base64,xx` -/
def exDataSvg : List Nat :=
  [100, 97, 116, 97, 58, 105, 109, 97, 103, 101, 47, 115, 118, 103, 43, 120, 109, 108, 59, 98, 97, 115, 101, 54, 52, 44, 120, 120]
/-- `http://x` -/
def exHttp : List Nat := [104, 116, 116, 112, 58, 47, 47, 120]
/-- `java%09script:x` — what `java<TAB>script:x` (e.g. written `java&Tab;script:x`) normalises to -/
def exJavaPctTab : List Nat := [106, 97, 118, 97, 37, 48, 57, 115, 99, 114, 105, 112, 116, 58, 120]
/-- `java<TAB>script:x`, NOT normalised -/
def exJavaTab : List Nat := [106, 97, 118, 97, 9, 115, 99, 114, 105, 112, 116, 58, 120]

example : validateLink exJs = false := by decide
example : validateLink exJsMixed = false := by decide
example : validateLink exDataHtml = false := by decide
example : validateLink exDataSvg = false := by decide
example : dangerous exJs = true ∧ dangerous exJsMixed = true ∧ dangerous exDataHtml = true ∧
    dangerous exDataSvg = true := by decide
example : validateLink exDataPng = true ∧ dangerous exDataPng = false := by decide
example : validateLink exHttp = true ∧ dangerous exHttp = false := by decide
example : validateLink exJavaPctTab = true ∧ dangerous exJavaPctTab = false := by decide
example : browserScheme exJsMixed = some sJavascript := by decide
example : browserScheme exJavaPctTab = none := by decide

/-- the hypothesis `Visible u` of `validate_sound` is needed: on a string that has NOT been
    normalised the validator alone is unsound — the browser drops the TAB. (No call site does
    this; `normalize_link` turns the TAB into `%09` first.) -/
example : validateLink exJavaTab = true ∧ dangerous exJavaTab = true := by decide

/-- `validate_sound` / `validate_exact` are not vacuous: their hypothesis holds of these -/
example : Visible exDataPng ∧ Visible exJs ∧ Visible exJavaPctTab := by decide

/-- `validate_rejects_spelling` instantiated: `JaVaScRiPt:` + anything -/
example (rest : List Nat) : validateLink ([74, 97, 86, 97, 83, 99, 82, 105, 80, 116, 58] ++ rest) = false :=
  validate_rejects_spelling sJavascript _ rest (by decide) (by decide)

/-- the pipelines on concrete text.  `[a](javascript:alert(1))`: rejected -/
example : inlineDest id ['j', 'a', 'v', 'a', 's', 'c', 'r', 'i', 'p', 't', ':', 'a', 'l', 'e', 'r', 't', '(', '1', ')'] = none := by
  have : utf8 (id ['j', 'a', 'v', 'a', 's', 'c', 'r', 'i', 'p', 't', ':', 'a', 'l', 'e', 'r', 't', '(', '1', ')']) = exJs := by
    decide
  unfold inlineDest
  rw [this, normalize_safe_id exJs (by decide +kernel)]
  decide

/-- `[a](&#x6a;avascript:x)` with a decoder that resolves the reference: rejected all the same
    (the decoder is arbitrary in `pipeline_safe`; this one is the constant function) -/
example (raw : List Char) : inlineDest (fun _ => ['j', 'a', 'v', 'a', 's', 'c', 'r', 'i', 'p', 't', ':', 'x']) raw = none := by
  have : utf8 ['j', 'a', 'v', 'a', 's', 'c', 'r', 'i', 'p', 't', ':', 'x'] =
      [106, 97, 118, 97, 115, 99, 114, 105, 112, 116, 58, 120] := by decide
  unfold inlineDest
  simp only [this]
  rw [normalize_safe_id _ (by decide +kernel)]
  decide

/-- `[a]: http://x`: accepted (so the pipeline theorems are not vacuous) -/
example : refDest id ['h', 't', 't', 'p', ':', '/', '/', 'x'] = some exHttp := by
  have : utf8 (id ['h', 't', 't', 'p', ':', '/', '/', 'x']) = exHttp := by decide
  unfold refDest
  rw [this, normalize_safe_id exHttp (by decide +kernel)]
  decide

/-- e-mail autolink `<a@b>` → `mailto:a@b`, accepted -/
example : autolinkDest false ['a', '@', 'b'] = some [109, 97, 105, 108, 116, 111, 58, 97, 64, 98] := by
  have : utf8 (sMailto ++ ['a', '@', 'b']) = [109, 97, 105, 108, 116, 111, 58, 97, 64, 98] := by decide
  unfold autolinkDest
  simp only [Bool.false_eq_true, if_false, this]
  rw [normalize_safe_id _ (by decide +kernel)]
  decide

/-- autolink `<javascript:x>`: rejected -/
example : autolinkDest true ['j', 'a', 'v', 'a', 's', 'c', 'r', 'i', 'p', 't', ':', 'x'] = none := by
  have : utf8 ['j', 'a', 'v', 'a', 's', 'c', 'r', 'i', 'p', 't', ':', 'x'] =
      [106, 97, 118, 97, 115, 99, 114, 105, 112, 116, 58, 120] := by decide
  unfold autolinkDest
  simp only [if_true, this]
  rw [normalize_safe_id _ (by decide +kernel)]
  decide

end Examples

/-! ## byte-offset slicing -/

theorem clen_pos (c : Char) : 0 < clen c := by
  unfold clen; simp only; split
  · omega
  · split
    · omega
    · split <;> omega

theorem byteLen_append (a b : List Char) : byteLen (a ++ b) = byteLen a + byteLen b := by
  induction a with
  | nil => simp [byteLen]
  | cons c r ih => simp [byteLen, ih]; omega

theorem dropBytes_zero (s : List Char) : dropBytes s 0 = some s := by
  cases s <;> simp [dropBytes]

theorem takeBytes_zero (s : List Char) : takeBytes s 0 = some [] := by
  cases s <;> simp [takeBytes]

theorem dropBytes_append (pre r : List Char) : dropBytes (pre ++ r) (byteLen pre) = some r := by
  induction pre with
  | nil => simpa [byteLen] using dropBytes_zero r
  | cons c p ih =>
    have := clen_pos c
    simp only [List.cons_append, dropBytes, byteLen]
    rw [if_neg (by omega), if_pos (by omega)]
    simpa using ih

theorem takeBytes_append (pre r : List Char) : takeBytes (pre ++ r) (byteLen pre) = some pre := by
  induction pre with
  | nil => simpa [byteLen] using takeBytes_zero r
  | cons c p ih =>
    have := clen_pos c
    simp only [List.cons_append, takeBytes, byteLen]
    rw [if_neg (by omega), if_pos (by omega)]
    simp [ih]

theorem dropBytes_some (s r : List Char) (n : Nat) (h : dropBytes s n = some r) :
    ∃ pre, s = pre ++ r ∧ byteLen pre = n := by
  induction s generalizing n with
  | nil =>
    simp only [dropBytes] at h
    split at h
    · cases h; exact ⟨[], rfl, by simp [byteLen, *]⟩
    · cases h
  | cons c cs ih =>
    simp only [dropBytes] at h
    split at h
    · cases h; exact ⟨[], rfl, by simp [byteLen, *]⟩
    · split at h
      · obtain ⟨pre, rfl, hp⟩ := ih _ h
        exact ⟨c :: pre, rfl, by simp [byteLen]; omega⟩
      · cases h

theorem takeBytes_some (s t : List Char) (n : Nat) (h : takeBytes s n = some t) :
    ∃ r, s = t ++ r ∧ byteLen t = n := by
  induction s generalizing n t with
  | nil =>
    simp only [takeBytes] at h
    split at h
    · cases h; exact ⟨[], rfl, by simp [byteLen, *]⟩
    · cases h
  | cons c cs ih =>
    simp only [takeBytes] at h
    split at h
    · cases h; exact ⟨c :: cs, rfl, by simp [byteLen, *]⟩
    · split at h
      · cases ht : takeBytes cs (n - clen c) with
        | none => simp [ht] at h
        | some t' =>
          simp only [ht, Option.map_some, Option.some.injEq] at h
          subst h
          obtain ⟨r, rfl, hp⟩ := ih _ _ ht
          exact ⟨r, rfl, by simp [byteLen]; omega⟩
      · cases h

/-- `&s[a..b]` succeeds with `t` exactly when `t` sits in `s` between byte offsets `a` and `b` -/
theorem slice_ok_iff (s t : List Char) (a b : Nat) :
    slice s a b = .ok t ↔ ∃ pre post, s = pre ++ t ++ post ∧ byteLen pre = a ∧ b = a + byteLen t := by
  constructor
  · intro h
    unfold slice at h
    split at h
    · split at h
      · cases h
      · rename_i r hr
        split at h
        · cases h
        · rename_i t' ht
          cases h
          obtain ⟨pre, rfl, hp⟩ := dropBytes_some _ _ _ hr
          obtain ⟨post, rfl, hq⟩ := takeBytes_some _ _ _ ht
          exact ⟨pre, post, by simp, hp, by omega⟩
    · cases h
  · rintro ⟨pre, post, rfl, rfl, rfl⟩
    unfold slice
    rw [if_pos (by omega), List.append_assoc, dropBytes_append]
    simp only
    rw [Nat.add_sub_cancel_left, takeBytes_append]

/-- byte offset `p` is a character boundary of `s` (`s.is_char_boundary(p)`, `p ≤ s.len()`) -/
def Boundary (s : List Char) (p : Nat) : Prop := ∃ pre post, s = pre ++ post ∧ byteLen pre = p

/-! ## `parse_link_destination` -/

/-- the text between `<` and `>`: backslash + any character but the line feed, or a character
    other than line feed, `<`, `>`, backslash -/
inductive AngleToks : List Char → Prop
  | nil : AngleToks []
  | esc (x : Char) (r : List Char) : x ≠ '\n' → AngleToks r → AngleToks ('\\' :: x :: r)
  | plain (c : Char) (r : List Char) : c ≠ '\n' → c ≠ '<' → c ≠ '>' → c ≠ '\\' → AngleToks r →
      AngleToks (c :: r)

/-- a bare destination, with the parenthesis depth before and after: backslash + any character
    that is not a space or a control character; `(` up to depth 32; `)` only at depth > 0; any other character that is not a
    space, a control character (≤ 0x20 or 0x7F), a backslash or a parenthesis -/
inductive BareToks : Nat → List Char → Nat → Prop
  | nil (l : Nat) : BareToks l [] l
  | esc (l l' : Nat) (x : Char) (r : List Char) : isBareStop x = false → BareToks l r l' →
      BareToks l ('\\' :: x :: r) l'
  | opn (l l' : Nat) (r : List Char) : l + 1 ≤ 32 → BareToks (l + 1) r l' → BareToks l ('(' :: r) l'
  | cls (l l' : Nat) (r : List Char) : l ≠ 0 → BareToks (l - 1) r l' → BareToks l (')' :: r) l'
  | plain (l l' : Nat) (c : Char) (r : List Char) : isBareStop c = false → c ≠ '\\' → c ≠ '(' →
      c ≠ ')' → BareToks l r l' → BareToks l (c :: r) l'

/-- why the bare scan stopped where it did (depth `l` at that point) -/
def BareEnd (l : Nat) (suf : List Char) : Prop :=
  suf = [] ∨ (∃ c r, suf = c :: r ∧ isBareStop c = true) ∨ suf = ['\\'] ∨
  (∃ x r, suf = '\\' :: x :: r ∧ isBareStop x = true) ∨ (l = 0 ∧ ∃ r, suf = ')' :: r)

theorem clen_bs : clen '\\' = 1 := by decide
theorem clen_lp : clen '(' = 1 := by decide
theorem clen_rp : clen ')' = 1 := by decide
theorem clen_lt : clen '<' = 1 := by decide
theorem clen_gt : clen '>' = 1 := by decide
theorem clen_nl : clen '\n' = 1 := by decide

theorem angleLoop_spec (cs : List Char) (p0 pos : Nat) (h : angleLoop cs p0 = some pos) :
    ∃ pre suf, cs = pre ++ '>' :: suf ∧ pos = p0 + byteLen pre ∧ AngleToks pre := by
  fun_induction angleLoop cs p0 with
  | case1 => cases h
  | case2 => cases h
  | case3 cs n _ =>
    cases h
    exact ⟨[], cs, rfl, by simp [byteLen], .nil⟩
  | case4 => cases h
  | case5 => cases h
  | case6 n x cs hx _ _ ih =>
    obtain ⟨pre, suf, rfl, hp, ht⟩ := ih h
    exact ⟨'\\' :: x :: pre, suf, rfl, by simp [byteLen, clen_bs]; omega, .esc x pre hx ht⟩
  | case7 c cs n hc1 hc2 hc3 ih =>
    obtain ⟨pre, suf, rfl, hp, ht⟩ := ih h
    simp only [not_or] at hc1
    exact ⟨c :: pre, suf, rfl, by simp [byteLen]; omega, .plain c pre hc1.1 hc1.2 hc2 hc3 ht⟩

theorem bareLoop_spec (cs : List Char) (p0 l0 pos l : Nat) (h : bareLoop cs p0 l0 = some (pos, l)) :
    ∃ pre suf, cs = pre ++ suf ∧ pos = p0 + byteLen pre ∧ BareToks l0 pre l ∧ BareEnd l suf := by
  fun_induction bareLoop cs p0 l0 with
  | case1 p lv => cases h; exact ⟨[], [], rfl, by simp [byteLen], .nil _, Or.inl rfl⟩
  | case2 c cs p lv hc =>
    cases h; exact ⟨[], c :: cs, rfl, by simp [byteLen], .nil _, Or.inr (Or.inl ⟨c, cs, rfl, hc⟩)⟩
  | case3 p lv _ =>
    cases h; exact ⟨[], ['\\'], rfl, by simp [byteLen], .nil _, Or.inr (Or.inr (Or.inl rfl))⟩
  | case4 p lv x cs hx _ =>
    cases h
    exact ⟨[], '\\' :: x :: cs, rfl, by simp [byteLen], .nil _,
      Or.inr (Or.inr (Or.inr (Or.inl ⟨x, cs, rfl, hx⟩)))⟩
  | case5 p lv x cs hx _ ih =>
    obtain ⟨pre, suf, rfl, hp, ht, he⟩ := ih h
    exact ⟨'\\' :: x :: pre, suf, rfl, by simp [byteLen, clen_bs]; omega,
      .esc _ _ x pre (by simpa using hx) ht, he⟩
  | case6 => cases h
  | case7 cs p lv hl _ _ ih =>
    obtain ⟨pre, suf, rfl, hp, ht, he⟩ := ih h
    exact ⟨'(' :: pre, suf, rfl, by simp [byteLen, clen_lp]; omega, .opn _ _ pre (by omega) ht, he⟩
  | case8 cs p _ _ _ =>
    cases h
    exact ⟨[], ')' :: cs, rfl, by simp [byteLen], .nil _,
      Or.inr (Or.inr (Or.inr (Or.inr ⟨rfl, cs, rfl⟩)))⟩
  | case9 cs p lv hl _ _ _ ih =>
    obtain ⟨pre, suf, rfl, hp, ht, he⟩ := ih h
    exact ⟨')' :: pre, suf, rfl, by simp [byteLen, clen_rp]; omega, .cls _ _ pre hl ht, he⟩
  | case10 c cs p lv h1 h2 h3 h4 ih =>
    obtain ⟨pre, suf, rfl, hp, ht, he⟩ := ih h
    exact ⟨c :: pre, suf, rfl, by simp [byteLen]; omega,
      .plain _ _ c pre (by simpa using h1) h2 h3 h4 ht, he⟩

/-- the slice taken after a successful `<…>` scan is in range and is the scanned text -/
theorem dest_angle_inner (str rest : List Char) (start max pos : Nat)
    (h1 : slice str start max = .ok ('<' :: rest)) (h2 : angleLoop rest (start + 1) = some pos) :
    ∃ raw suf, rest = raw ++ '>' :: suf ∧ pos = start + 1 + byteLen raw ∧ AngleToks raw ∧
      slice str (start + 1) pos = .ok raw := by
  obtain ⟨raw, suf, rfl, hp, ht⟩ := angleLoop_spec _ _ _ h2
  obtain ⟨pre, post, rfl, ha, _⟩ := (slice_ok_iff _ _ _ _).1 h1
  exact ⟨raw, suf, rfl, hp, ht, (slice_ok_iff _ _ _ _).2
    ⟨pre ++ ['<'], '>' :: suf ++ post, by simp, by simp [byteLen_append, byteLen, clen_lt, ha], hp⟩⟩

/-- the slice taken after a bare scan is in range and is the scanned text -/
theorem dest_bare_inner (str chars : List Char) (start max pos l : Nat)
    (h1 : slice str start max = .ok chars) (h2 : bareLoop chars start 0 = some (pos, l)) :
    ∃ raw suf, chars = raw ++ suf ∧ pos = start + byteLen raw ∧ BareToks 0 raw l ∧ BareEnd l suf ∧
      slice str start pos = .ok raw := by
  obtain ⟨raw, suf, rfl, hp, ht, he⟩ := bareLoop_spec _ _ _ _ _ h2
  obtain ⟨pre, post, rfl, ha, _⟩ := (slice_ok_iff _ _ _ _).1 h1
  exact ⟨raw, suf, rfl, hp, ht, he, (slice_ok_iff _ _ _ _).2 ⟨pre, suf ++ post, by simp, ha, hp⟩⟩

/-- **`parse_link_destination` never panics on a valid window**: the only panic is the first
    slicing `str[start..max]`; the slices taken after the scan are always in range. -/
theorem dest_total (str chars : List Char) (start max : Nat) (h : slice str start max = .ok chars) :
    ∃ r, parseLinkDestination str start max = .ok r := by
  unfold parseLinkDestination
  simp only [h]
  split
  · rename_i rest
    cases h2 : angleLoop rest (start + 1) with
    | none => exact ⟨_, rfl⟩
    | some pos =>
      obtain ⟨raw, suf, _, _, _, hs⟩ := dest_angle_inner str rest start max pos h h2
      simp only [hs]; exact ⟨_, rfl⟩
  · cases h2 : bareLoop chars start 0 with
    | none => exact ⟨_, rfl⟩
    | some pl =>
      obtain ⟨pos, l⟩ := pl
      simp only
      split
      · exact ⟨_, rfl⟩
      · obtain ⟨raw, suf, _, _, _, _, hs⟩ := dest_bare_inner str chars start max pos l h h2
        simp only [hs]; exact ⟨_, rfl⟩

/-- exact panic condition of `parse_link_destination` -/
theorem dest_panics_iff (str : List Char) (start max : Nat) :
    parseLinkDestination str start max = .error .slice ↔ slice str start max = .error .slice := by
  constructor
  · intro h
    cases hs : slice str start max with
    | error e => cases e; rfl
    | ok chars =>
      obtain ⟨r, hr⟩ := dest_total str chars start max hs
      rw [hr] at h; cases h
  · intro h
    unfold parseLinkDestination
    simp [h]

/-- **C04 (destination parser, shape of a result).** A successful parse consumed, from `start`,
    either `<raw>` with `raw` free of line feeds and of unescaped angle brackets, or a bare `raw`
    with balanced unescaped parentheses (depth ≤ 32) that stops for one of the listed reasons;
    `lines` is 0. -/
theorem dest_spec (str : List Char) (start max : Nat) (f : Frag)
    (h : parseLinkDestination str start max = .ok (some f)) :
    f.lines = 0 ∧ ∃ chars, slice str start max = .ok chars ∧
      ((∃ suf, chars = '<' :: f.raw ++ '>' :: suf ∧ f.pos = start + byteLen f.raw + 2 ∧
          AngleToks f.raw ∧ slice str start f.pos = .ok ('<' :: f.raw ++ ['>'])) ∨
       (∃ suf, chars = f.raw ++ suf ∧ (∀ r, chars ≠ '<' :: r) ∧ f.pos = start + byteLen f.raw ∧
          BareToks 0 f.raw 0 ∧ BareEnd 0 suf ∧ slice str start f.pos = .ok f.raw)) := by
  unfold parseLinkDestination at h
  cases hs : slice str start max with
  | error e => simp [hs] at h
  | ok chars =>
    simp only [hs] at h
    split at h
    · rename_i rest
      cases h2 : angleLoop rest (start + 1) with
      | none => simp [h2] at h
      | some pos =>
        obtain ⟨raw, suf, rfl, hp, ht, hsl⟩ := dest_angle_inner str rest start max pos hs h2
        simp only [h2, hsl, Except.ok.injEq, Option.some.injEq] at h
        subst h
        refine ⟨rfl, _, rfl, Or.inl ⟨suf, by simp, by simp only; omega, ht, ?_⟩⟩
        obtain ⟨pre, post, hstr, ha, _⟩ := (slice_ok_iff _ _ _ _).1 hs
        exact (slice_ok_iff _ _ _ _).2 ⟨pre, suf ++ post, by simp [hstr], ha, by
          simp [byteLen, byteLen_append, clen_lt, clen_gt]; omega⟩
    · rename_i hne
      cases h2 : bareLoop chars start 0 with
      | none => simp [h2] at h
      | some pl =>
        obtain ⟨pos, l⟩ := pl
        simp only [h2] at h
        split at h
        · cases h
        · rename_i hl
          have hl0 : l = 0 := by simpa using hl
          subst hl0
          obtain ⟨raw, suf, rfl, hp, ht, he, hsl⟩ := dest_bare_inner str chars start max pos 0 hs h2
          simp only [hsl, Except.ok.injEq, Option.some.injEq] at h
          subst h
          exact ⟨rfl, _, rfl, Or.inr ⟨suf, rfl, fun r hr => hne r hr, hp, ht, he, hsl⟩⟩

/-- **C04 (`dest_pos_bounds`).** `start ≤ pos ≤ max` and `pos` is a character boundary of `str`
    (so the callers' `str[pos..]` cannot panic). -/
theorem dest_pos_bounds (str : List Char) (start max : Nat) (f : Frag)
    (h : parseLinkDestination str start max = .ok (some f)) :
    start ≤ f.pos ∧ f.pos ≤ max ∧ Boundary str f.pos := by
  obtain ⟨_, chars, hs, hc⟩ := dest_spec str start max f h
  obtain ⟨pre, post, rfl, ha, hb⟩ := (slice_ok_iff _ _ _ _).1 hs
  rcases hc with ⟨suf, rfl, hp, _, _⟩ | ⟨suf, rfl, _, hp, _, _, _⟩
  · refine ⟨by omega, ?_, pre ++ ('<' :: f.raw ++ ['>']), suf ++ post, by simp, ?_⟩
    · simp [byteLen, byteLen_append, clen_lt, clen_gt] at hb; omega
    · simp [byteLen, byteLen_append, clen_lt, clen_gt]; omega
  · refine ⟨by omega, ?_, pre ++ f.raw, suf ++ post, by simp, ?_⟩
    · simp [byteLen_append] at hb; omega
    · simp [byteLen_append]; omega

theorem isBareStop_space : isBareStop ' ' = true := by decide
theorem isBareStop_bs : isBareStop '\\' = false := by decide
theorem isBareStop_lp : isBareStop '(' = false := by decide
theorem isBareStop_rp : isBareStop ')' = false := by decide

/-- a bare destination contains no space and no control character at all — every character of it,
    also one directly after a backslash, has a code > 0x20 and ≠ 0x7F -/
theorem BareToks.no_ctrl {l l' : Nat} {raw : List Char} (h : BareToks l raw l') :
    ∀ c ∈ raw, isBareStop c = false := by
  induction h with
  | nil => simp
  | esc l l' x r hx _ ih =>
    intro c hc
    simp only [List.mem_cons] at hc
    rcases hc with rfl | rfl | hc
    · exact isBareStop_bs
    · exact hx
    · exact ih c hc
  | opn l l' r _ _ ih =>
    intro c hc
    simp only [List.mem_cons] at hc
    rcases hc with rfl | hc
    · exact isBareStop_lp
    · exact ih c hc
  | cls l l' r _ _ ih =>
    intro c hc
    simp only [List.mem_cons] at hc
    rcases hc with rfl | hc
    · exact isBareStop_rp
    · exact ih c hc
  | plain l l' c0 r h0 _ _ _ _ ih =>
    intro c hc
    simp only [List.mem_cons] at hc
    rcases hc with rfl | hc
    · exact h0
    · exact ih c hc

theorem BareToks.no_space {l l' : Nat} {raw : List Char} (h : BareToks l raw l') : ' ' ∉ raw := by
  intro hm
  have := h.no_ctrl ' ' hm
  rw [isBareStop_space] at this; cases this

theorem isBareStop_nl : isBareStop '\n' = true := by decide

theorem BareToks.no_lf {l l' : Nat} {raw : List Char} (h : BareToks l raw l') : '\n' ∉ raw := by
  intro hm
  have := h.no_ctrl '\n' hm
  rw [isBareStop_nl] at this; cases this

/-- byte view: a character that is not a stop character has no UTF-8 byte ≤ 0x20 and no 0x7F -/
theorem utf8Char_no_ctrl (c : Char) (hc : isBareStop c = false) :
    ∀ b ∈ utf8Char c, 32 < b ∧ b ≠ 127 := by
  simp only [isBareStop, Bool.or_eq_false_iff, decide_eq_false_iff_not, beq_eq_false_iff_ne] at hc
  intro b hb
  unfold utf8Char at hb
  simp only at hb
  split at hb
  · simp at hb; omega
  · split at hb
    · simp at hb; omega
    · split at hb
      · simp at hb; omega
      · simp at hb; omega

/-- the text between `<` and `>` contains no line feed at all -/
theorem AngleToks.no_lf {raw : List Char} (h : AngleToks raw) : '\n' ∉ raw := by
  induction h with
  | nil => simp
  | esc x r hx _ ih =>
    simp only [List.mem_cons, not_or]
    exact ⟨by decide, fun e => hx e.symm, ih⟩
  | plain c r h1 _ _ _ _ ih =>
    simp only [List.mem_cons, not_or]
    exact ⟨fun e => h1 e.symm, ih⟩

/-- **C04 (`dest_no_ctrl`, strong form).** For a bare destination: the raw slice contains NO byte
    ≤ 0x20 and no 0x7F (hence no blank, no line ending, no control character, escaped or not);
    unescaped parentheses are balanced and never close below depth 0 (`BareToks 0 raw 0`). -/
theorem dest_no_ctrl (str : List Char) (start max : Nat) (f : Frag)
    (h : parseLinkDestination str start max = .ok (some f))
    (hb : ∀ chars, slice str start max = .ok chars → ∀ r, chars ≠ '<' :: r) :
    BareToks 0 f.raw 0 ∧ (∀ c ∈ f.raw, isBareStop c = false) ∧
      ∀ b ∈ utf8 f.raw, 32 < b ∧ b ≠ 127 := by
  obtain ⟨_, chars, hs, hc⟩ := dest_spec str start max f h
  rcases hc with ⟨suf, rfl, _⟩ | ⟨suf, _, _, _, ht, _, _⟩
  · exact absurd rfl (hb _ hs _)
  · refine ⟨ht, ht.no_ctrl, ?_⟩
    intro b hbm
    simp only [utf8, List.mem_flatMap] at hbm
    obtain ⟨c, hc, hbc⟩ := hbm
    exact utf8Char_no_ctrl c (ht.no_ctrl c hc) b hbc

/-- **C04 (`dest_lines_zero_sound`).** The raw slice of a successful destination — either form —
    contains no line feed, so the `lines: 0` it reports is exact.  (The reference-definition rule
    adds `res.lines` to find the end of the definition.) -/
theorem dest_lines_zero_sound (str : List Char) (start max : Nat) (f : Frag)
    (h : parseLinkDestination str start max = .ok (some f)) :
    f.lines = 0 ∧ '\n' ∉ f.raw ∧ f.lines = f.raw.count '\n' := by
  obtain ⟨hl, chars, hs, hc⟩ := dest_spec str start max f h
  have hno : '\n' ∉ f.raw := by
    rcases hc with ⟨_, _, _, ht, _⟩ | ⟨_, _, _, _, ht, _, _⟩
    · exact ht.no_lf
    · exact ht.no_lf
  exact ⟨hl, hno, by rw [hl, List.count_eq_zero.2 hno]⟩

/-! ## `parse_link_title` -/

/-- title text for closing marker `m`, with the number of line feeds the scanner counts:
    a line feed; backslash + any character (a line feed there is counted too); any other character
    except the marker, and except `(` in a `(…)` title -/
inductive TitleToks (m : Char) : List Char → Nat → Prop
  | nil : TitleToks m [] 0
  | nl (r : List Char) (n : Nat) : TitleToks m r n → TitleToks m ('\n' :: r) (n + 1)
  | esc (x : Char) (r : List Char) (n : Nat) : TitleToks m r n →
      TitleToks m ('\\' :: x :: r) (if x = '\n' then n + 1 else n)
  | plain (c : Char) (r : List Char) (n : Nat) : c ≠ m → ¬ (c = '(' ∧ m = ')') → c ≠ '\n' →
      c ≠ '\\' → TitleToks m r n → TitleToks m (c :: r) n

theorem titleLoop_spec (m : Char) (cs : List Char) (p0 l0 pos l : Nat)
    (h : titleLoop m cs p0 l0 = some (pos, l)) :
    ∃ pre suf n, cs = pre ++ m :: suf ∧ pos = p0 + byteLen pre ∧ l = l0 + n ∧ TitleToks m pre n := by
  fun_induction titleLoop m cs p0 l0 with
  | case1 => cases h
  | case2 cs p lv => cases h; exact ⟨[], cs, 0, rfl, by simp [byteLen], rfl, .nil⟩
  | case3 => cases h
  | case4 cs p lv _ _ ih =>
    obtain ⟨pre, suf, n, rfl, hp, hl, ht⟩ := ih h
    exact ⟨'\n' :: pre, suf, n + 1, rfl, by simp [byteLen, clen_nl]; omega, by omega, .nl pre n ht⟩
  | case5 => cases h
  | case6 p lv x cs _ _ _ ih =>
    obtain ⟨pre, suf, n, rfl, hp, hl, ht⟩ := ih h
    refine ⟨'\\' :: x :: pre, suf, _, rfl, by simp [byteLen, clen_bs]; omega, ?_, .esc x pre n ht⟩
    by_cases hx : x = '\n' <;> simp only [hx, if_true, if_false] at hl ⊢ <;> omega
  | case7 c cs p lv h1 h2 h3 h4 ih =>
    obtain ⟨pre, suf, n, rfl, hp, hl, ht⟩ := ih h
    exact ⟨c :: pre, suf, n, rfl, by simp [byteLen]; omega, hl, .plain c pre n h1 h2 h3 h4 ht⟩

theorem titleMarker_some (o m : Char) (h : titleMarker o = some m) :
    (o = '"' ∧ m = '"') ∨ (o = '\'' ∧ m = '\'') ∨ (o = '(' ∧ m = ')') := by
  unfold titleMarker at h
  split at h
  · cases h; exact Or.inl ⟨‹_›, rfl⟩
  · split at h
    · cases h; exact Or.inr (Or.inl ⟨‹_›, rfl⟩)
    · split at h
      · cases h; exact Or.inr (Or.inr ⟨‹_›, rfl⟩)
      · cases h

theorem titleMarker_clen (o m : Char) (h : titleMarker o = some m) : clen o = 1 ∧ clen m = 1 := by
  rcases titleMarker_some o m h with ⟨rfl, rfl⟩ | ⟨rfl, rfl⟩ | ⟨rfl, rfl⟩ <;> decide

theorem title_inner (str rest : List Char) (o m : Char) (start max pos l : Nat)
    (hm : titleMarker o = some m) (h1 : slice str start max = .ok (o :: rest))
    (h2 : titleLoop m rest (start + 1) 0 = some (pos, l)) :
    ∃ raw suf, rest = raw ++ m :: suf ∧ pos = start + 1 + byteLen raw ∧ TitleToks m raw l ∧
      slice str (start + 1) pos = .ok raw := by
  obtain ⟨raw, suf, n, rfl, hp, hl, ht⟩ := titleLoop_spec _ _ _ _ _ _ h2
  obtain ⟨pre, post, rfl, ha, _⟩ := (slice_ok_iff _ _ _ _).1 h1
  have hn : l = n := by omega
  subst hn
  exact ⟨raw, suf, rfl, hp, ht, (slice_ok_iff _ _ _ _).2
    ⟨pre ++ [o], m :: suf ++ post, by simp,
      by simp [byteLen_append, byteLen, (titleMarker_clen o m hm).1, ha], hp⟩⟩

/-- **`parse_link_title` never panics on a valid window.** -/
theorem title_total (str chars : List Char) (start max : Nat) (h : slice str start max = .ok chars) :
    ∃ r, parseLinkTitle str start max = .ok r := by
  unfold parseLinkTitle
  simp only [h]
  split
  · exact ⟨_, rfl⟩
  · rename_i o rest
    cases hm : titleMarker o with
    | none => exact ⟨_, rfl⟩
    | some m =>
      simp only
      cases h2 : titleLoop m rest (start + 1) 0 with
      | none => exact ⟨_, rfl⟩
      | some pl =>
        obtain ⟨pos, l⟩ := pl
        obtain ⟨raw, suf, _, _, _, hs⟩ := title_inner str rest o m start max pos l hm h h2
        simp only [hs]; exact ⟨_, rfl⟩

theorem title_panics_iff (str : List Char) (start max : Nat) :
    parseLinkTitle str start max = .error .slice ↔ slice str start max = .error .slice := by
  constructor
  · intro h
    cases hs : slice str start max with
    | error e => cases e; rfl
    | ok chars =>
      obtain ⟨r, hr⟩ := title_total str chars start max hs
      rw [hr] at h; cases h
  · intro h
    unfold parseLinkTitle
    simp [h]

/-- **C04 (`title_delims`).** A successful title parse consumed, from `start`, exactly
    `o raw m` where `(o, m)` is one of `"…"`, `'…'`, `(…)`; `raw` has no unescaped `m` (nor an
    unescaped `(` in the parenthesised form); `pos` is just behind the closing marker, within
    `max`, on a character boundary; `lines` counts the line feeds of `raw` (`TitleToks.lines_eq`). -/
theorem title_delims (str : List Char) (start max : Nat) (f : Frag)
    (h : parseLinkTitle str start max = .ok (some f)) :
    ∃ o m suf, titleMarker o = some m ∧ slice str start max = .ok (o :: f.raw ++ m :: suf) ∧
      f.pos = start + byteLen f.raw + 2 ∧ TitleToks m f.raw f.lines ∧
      slice str start f.pos = .ok (o :: f.raw ++ [m]) ∧ f.pos ≤ max ∧ Boundary str f.pos := by
  unfold parseLinkTitle at h
  cases hs : slice str start max with
  | error e => simp [hs] at h
  | ok chars =>
    simp only [hs] at h
    split at h
    · cases h
    · rename_i o rest
      cases hm : titleMarker o with
      | none => simp [hm] at h
      | some m =>
        simp only [hm] at h
        cases h2 : titleLoop m rest (start + 1) 0 with
        | none => simp [h2] at h
        | some pl =>
          obtain ⟨pos, l⟩ := pl
          obtain ⟨raw, suf, rfl, hp, ht, hsl⟩ := title_inner str rest o m start max pos l hm hs h2
          simp only [h2, hsl, Except.ok.injEq, Option.some.injEq] at h
          subst h
          obtain ⟨pre, post, hstr, ha, hb⟩ := (slice_ok_iff _ _ _ _).1 hs
          have hc := titleMarker_clen o m hm
          refine ⟨o, m, suf, hm, rfl, by simp only; omega, ht, ?_, ?_, ?_⟩
          · exact (slice_ok_iff _ _ _ _).2 ⟨pre, suf ++ post, by simp [hstr], ha, by
              simp [byteLen, byteLen_append, hc.1, hc.2]; omega⟩
          · simp [byteLen, byteLen_append, hc.1, hc.2] at hb; simp only; omega
          · exact ⟨pre ++ (o :: raw ++ [m]), suf ++ post, by simp [hstr], by
              simp [byteLen, byteLen_append, hc.1, hc.2]; omega⟩

/-- the counted line feeds are exactly the line feeds present -/
theorem TitleToks.lines_eq {m : Char} {raw : List Char} {n : Nat} (h : TitleToks m raw n) :
    n = raw.count '\n' := by
  induction h with
  | nil => simp
  | nl r n _ ih => simp [ih]
  | esc x r n _ ih =>
    rw [List.count_cons, List.count_cons, ← ih]
    have h1 : ('\\' == '\n') = false := by decide
    by_cases hx : x = '\n'
    · subst hx; simp
    · have h2 : (x == '\n') = false := by simpa using hx
      simp [h1, h2, hx]
  | plain c r n _ _ h3 _ _ ih =>
    have h2 : (c == '\n') = false := by simpa using h3
    rw [List.count_cons, ← ih]; simp [h2]

/-- **C04 (`title_lines_exact`).** `lines` of a successful title parse is the number of line feeds
    in the raw title (the reference-definition rule adds it to find the end of the definition). -/
theorem title_lines_exact (str : List Char) (start max : Nat) (f : Frag)
    (h : parseLinkTitle str start max = .ok (some f)) : f.lines = f.raw.count '\n' := by
  obtain ⟨_, _, _, _, _, _, ht, _⟩ := title_delims str start max f h
  exact ht.lines_eq

/-! ## a rejected destination never yields an inline link -/

/-- what the theorems below need to know about the decoder (`unescape_all`): it maps the empty
    text to the empty text, and it leaves a leading `"`, `'` or `(` in place (none of them is a
    backslash or an ampersand, the only characters at which the decoder's pattern can match). -/
structure DecOk (dec : List Char → List Char) : Prop where
  nil : dec [] = []
  opener : ∀ o m r, titleMarker o = some m → ∃ r', dec (o :: r) = o :: r'

theorem inlineDest_nil (dec : List Char → List Char) (hdec : DecOk dec) :
    inlineDest dec [] = some [] := by
  unfold inlineDest
  simp only [hdec.nil, utf8, List.flatMap_nil, normalizeLink, encodeL]
  rfl

theorem utf8_cons (c : Char) (r : List Char) : utf8 (c :: r) = utf8Char c ++ utf8 r := by
  simp [utf8]

/-- a destination that starts with a title opener is never rejected -/
theorem inlineDest_opener (dec : List Char → List Char) (hdec : DecOk dec) (o m : Char)
    (r : List Char) (hm : titleMarker o = some m) : inlineDest dec (o :: r) ≠ none := by
  obtain ⟨r', hr⟩ := hdec.opener o m r hm
  unfold inlineDest
  simp only [hr, utf8_cons, normalizeLink]
  have key : ∀ b t, (b = 34 ∨ b = 39 ∨ b = 40) →
      validateLink (encodeL linkSafe true (b :: t)) = true := by
    intro b t hb
    obtain ⟨t', h | h⟩ := encodeL_head linkSafe b t <;> rw [h] <;>
      rcases hb with rfl | rfl | rfl <;>
      simp [validateLink, badProto, startsCI, sVbscript, sJavascript, sFile, sData, lower]
  rcases titleMarker_some o m hm with ⟨rfl, _⟩ | ⟨rfl, _⟩ | ⟨rfl, _⟩
  · have : utf8Char '"' = [34] := by decide
    rw [this]; simp [key 34 _ (by simp)]
  · have : utf8Char '\'' = [39] := by decide
    rw [this]; simp [key 39 _ (by simp)]
  · have : utf8Char '(' = [40] := by decide
    rw [this]; simp [key 40 _ (by simp)]

theorem isWs_stop (c : Char) (h : isWs c = true) : isBareStop c = true := by
  simp only [isWs, Bool.or_eq_true, beq_iff_eq] at h
  rcases h with (rfl | rfl) | rfl <;> decide

/-- a non-empty bare destination starts with a character that is neither a blank nor `)` -/
theorem bare_head (raw : List Char) (h : BareToks 0 raw 0) (hne : raw ≠ []) :
    ∃ c r, raw = c :: r ∧ isWs c = false ∧ c ≠ ')' := by
  cases h with
  | nil => exact absurd rfl hne
  | esc _ _ x r _ _ => exact ⟨'\\', x :: r, rfl, by decide, by decide⟩
  | opn _ _ r _ _ => exact ⟨'(', r, rfl, by decide, by decide⟩
  | cls _ _ r h0 _ => exact absurd rfl h0
  | plain _ _ c r hc _ _ h4 _ =>
    refine ⟨c, r, rfl, ?_, h4⟩
    cases hw : isWs c with
    | false => rfl
    | true => rw [isWs_stop c hw] at hc; cases hc

/-- a destination that starts with `)` is the empty bare destination -/
theorem dest_of_rparen (src r : List Char) (p max : Nat) (h : slice src p max = .ok (')' :: r)) :
    parseLinkDestination src p max = .ok (some ⟨p, 0, []⟩) := by
  obtain ⟨pre, post, hsrc, ha, _⟩ := (slice_ok_iff _ _ _ _).1 h
  have hs : slice src p p = .ok [] :=
    (slice_ok_iff _ _ _ _).2 ⟨pre, ')' :: r ++ post, by simp [hsrc], ha, by simp [byteLen]⟩
  unfold parseLinkDestination
  simp only [h]
  split
  · rename_i heq; cases heq
  · have hb : bareLoop (')' :: r) p 0 = some (p, 0) := by
      rw [bareLoop.eq_def]; simp [isBareStop_rp]
    simp [hb, hs]

/-- the window of a successfully parsed destination starts with `<` or with the first character of
    a non-empty bare destination, unless the bare destination is empty -/
theorem dest_window_head (src : List Char) (p max : Nat) (res : Frag)
    (hd : parseLinkDestination src p max = .ok (some res)) :
    ∃ chars, slice src p max = .ok chars ∧
      ((∃ r, chars = '<' :: r) ∨ res.raw = [] ∨
        (∃ c r suf, res.raw = c :: r ∧ chars = c :: r ++ suf ∧ isWs c = false ∧ c ≠ ')' ∧ c ≠ '<')) := by
  obtain ⟨_, chars, hs, hc⟩ := dest_spec src p max res hd
  refine ⟨chars, hs, ?_⟩
  rcases hc with ⟨suf, rfl, _⟩ | ⟨suf, hch, hne, _, ht, _, _⟩
  · exact Or.inl ⟨_, rfl⟩
  · by_cases hraw : res.raw = []
    · exact Or.inr (Or.inl hraw)
    · obtain ⟨c, r, hr, hw, hp⟩ := bare_head res.raw ht hraw
      refine Or.inr (Or.inr ⟨c, r, suf, hr, by rw [hch, hr], hw, hp, ?_⟩)
      rintro rfl
      exact hne (r ++ suf) (by rw [hch, hr]; rfl)

theorem skipWs_nonws (c : Char) (r : List Char) (p : Nat) (h : isWs c = false) :
    skipWs (c :: r) p = p := by
  simp [skipWs, h]

/-- the title part hands the `href` through unchanged -/
theorem titlePart_href (dec : List Char → List Char) (src : List Char) (max p : Nat)
    (href h' : Option (List Nat)) (title : Option (List Char)) (p4 : Nat)
    (hst : inlineTitlePart dec src max href p = .ok (h', title, p4)) : h' = href := by
  unfold inlineTitlePart at hst
  split at hst
  · cases hst
  · simp only at hst
    split at hst
    · cases hst
    · cases hst; rfl
    · split at hst
      · cases hst
      · cases hst; rfl

/-- after an ACCEPTED destination the stage reports that `href` -/
theorem afterDest_accepted (dec : List Char → List Char) (src : List Char) (p max : Nat) (res : Frag)
    (u : List Nat) (hacc : inlineDest dec res.raw = some u) (href : Option (List Nat))
    (title : Option (List Char)) (p4 : Nat)
    (hst : inlineAfterDest dec src p max res = .ok (href, title, p4)) : href = some u := by
  unfold inlineAfterDest at hst
  simp only [hacc] at hst
  exact titlePart_href dec src max res.pos (some u) href title p4 hst

/-- after a REJECTED destination the scan cannot reach a closing `)` -/
theorem afterDest_rejected (dec : List Char → List Char) (hdec : DecOk dec) (src : List Char)
    (p max : Nat) (res : Frag) (hd : parseLinkDestination src p max = .ok (some res))
    (hrej : inlineDest dec res.raw = none) (href : Option (List Nat)) (title : Option (List Char))
    (p4 : Nat) (hst : inlineAfterDest dec src p max res = .ok (href, title, p4)) (r : List Char)
    (hfin : slice src p4 max = .ok (')' :: r)) : False := by
  obtain ⟨chars, hs, hhead⟩ := dest_window_head src p max res hd
  -- the window starts with a non-blank character `c0` that is not `)`, and, in the bare form,
  -- is the first character of the raw destination
  have hc0 : ∃ c0 rest, chars = c0 :: rest ∧ isWs c0 = false ∧ c0 ≠ ')' ∧
      (c0 = '<' ∨ ∃ r', res.raw = c0 :: r') := by
    rcases hhead with ⟨r', rfl⟩ | hnil | ⟨c, r', suf, hr, hch, hw, hp, _⟩
    · exact ⟨'<', r', rfl, by decide, by decide, Or.inl rfl⟩
    · rw [hnil, inlineDest_nil dec hdec] at hrej; cases hrej
    · exact ⟨c, r' ++ suf, by simpa using hch, hw, hp, Or.inr ⟨r', hr⟩⟩
  obtain ⟨c0, rest, rfl, hw, hp, hform⟩ := hc0
  unfold inlineAfterDest at hst
  simp only [hrej] at hst
  unfold inlineTitlePart at hst
  simp only [hs, skipWs_nonws c0 rest p hw] at hst
  cases ht : parseLinkTitle src p max with
  | error e => simp [ht] at hst
  | ok topt =>
    cases topt with
    | none =>
      simp only [ht, Except.ok.injEq, Prod.mk.injEq] at hst
      obtain ⟨_, _, rfl⟩ := hst
      rw [hs] at hfin
      cases hfin
      exact hp rfl
    | some t =>
      obtain ⟨o, m, suf, hm, hsl, _⟩ := title_delims src p max t ht
      rw [hs] at hsl
      simp only [Except.ok.injEq, List.cons_append, List.cons.injEq] at hsl
      obtain ⟨rfl, _⟩ := hsl
      rcases hform with rfl | ⟨r', hr'⟩
      · have hlt : titleMarker '<' = none := by decide
        rw [hlt] at hm; cases hm
      · rw [hr'] at hrej
        exact inlineDest_opener dec hdec c0 m r' hm hrej

/-- **C04 (a rejected destination stays literal text; every inline link has a safe `href`).**
    Whenever `parse_link` returns from its inline branch `[label](dest "title")`, the destination
    was ACCEPTED: `href` is `Some(u)` with `u` not dangerous.  In particular a construct whose
    destination is rejected is not turned into a link by this branch (what remains is the
    reference lookup for `[label]`, whose destination went through `refDest`). -/
theorem rejected_stays_literal (dec : List Char → List Char) (hdec : DecOk dec) (src : List Char)
    (pos max : Nat) (l : InlineLink) (h : parseInlineTail dec src pos max = .ok (some l)) :
    ∃ u, l.href = some u ∧ dangerous u = false := by
  unfold parseInlineTail at h
  cases hs : slice src pos max with
  | error e => simp [hs] at h
  | ok chars =>
    simp only [hs] at h
    split at h
    · rename_i rest
      generalize skipWs rest (pos + 1) = p1 at h
      cases hd : parseLinkDestination src p1 max with
      | error e => simp [hd] at h
      | ok dest =>
        simp only [hd] at h
        cases dest with
        | none =>
          simp only at h
          split at h
          · cases h
          · rename_i r hfin
            rw [dest_of_rparen src r p1 max hfin] at hd
            cases hd
          · cases h
        | some res =>
          simp only at h
          cases hst : inlineAfterDest dec src p1 max res with
          | error e => simp [hst] at h
          | ok st =>
            obtain ⟨href, title, p4⟩ := st
            simp only [hst] at h
            split at h
            · cases h
            · rename_i r hfin
              simp only [Except.ok.injEq, Option.some.injEq] at h
              subst h
              cases hacc : inlineDest dec res.raw with
              | some u =>
                exact ⟨u, afterDest_accepted dec src p1 max res u hacc href title p4 hst,
                  pipeline_safe dec res.raw u hacc⟩
              | none =>
                exact (afterDest_rejected dec hdec src p1 max res hd hacc href title p4 hst r hfin).elim
            · cases h
    · cases h

/-! ## the inline branch never panics on a valid window -/

/-- `p` is a position from which `src[p..max]` can be taken -/
def InWin (src : List Char) (max p : Nat) : Prop := ∃ t, slice src p max = .ok t

theorem slice_drop (src pre suf : List Char) (a max : Nat) (h : slice src a max = .ok (pre ++ suf)) :
    slice src (a + byteLen pre) max = .ok suf := by
  obtain ⟨p, q, rfl, ha, hb⟩ := (slice_ok_iff _ _ _ _).1 h
  exact (slice_ok_iff _ _ _ _).2
    ⟨p ++ pre, q, by simp, by simp [byteLen_append, ha], by simp [byteLen_append] at hb; omega⟩

theorem isWs_clen (c : Char) (h : isWs c = true) : clen c = 1 := by
  simp only [isWs, Bool.or_eq_true, beq_iff_eq] at h
  rcases h with (rfl | rfl) | rfl <;> decide

theorem skipWs_spec (cs : List Char) (p : Nat) :
    ∃ pre suf, cs = pre ++ suf ∧ skipWs cs p = p + byteLen pre := by
  induction cs generalizing p with
  | nil => exact ⟨[], [], rfl, by simp [skipWs, byteLen]⟩
  | cons c cs ih =>
    cases hw : isWs c with
    | false => exact ⟨[], c :: cs, rfl, by simp [skipWs, hw, byteLen]⟩
    | true =>
      obtain ⟨pre, suf, rfl, hp⟩ := ih (p + 1)
      exact ⟨c :: pre, suf, rfl, by simp [skipWs, hw, hp, byteLen, isWs_clen c hw]; omega⟩

theorem inwin_skipWs (src cs : List Char) (max p : Nat) (h : slice src p max = .ok cs) :
    InWin src max (skipWs cs p) := by
  obtain ⟨pre, suf, rfl, hp⟩ := skipWs_spec cs p
  exact ⟨suf, hp ▸ slice_drop src pre suf p max h⟩

theorem inwin_dest (src : List Char) (p max : Nat) (res : Frag)
    (h : parseLinkDestination src p max = .ok (some res)) : InWin src max res.pos := by
  obtain ⟨_, chars, hs, hc⟩ := dest_spec src p max res h
  rcases hc with ⟨suf, rfl, hp, _, _⟩ | ⟨suf, rfl, _, hp, _, _, _⟩
  · refine ⟨suf, ?_⟩
    have := slice_drop src ('<' :: res.raw ++ ['>']) suf p max (by simpa using hs)
    rw [hp]
    simpa [byteLen, byteLen_append, clen_lt, clen_gt, Nat.add_assoc, Nat.add_comm 1] using this
  · exact ⟨suf, hp ▸ slice_drop src res.raw suf p max hs⟩

theorem inwin_title (src : List Char) (p max : Nat) (t : Frag)
    (h : parseLinkTitle src p max = .ok (some t)) : InWin src max t.pos := by
  obtain ⟨o, m, suf, hm, hs, hp, _⟩ := title_delims src p max t h
  have hc := titleMarker_clen o m hm
  refine ⟨suf, ?_⟩
  have := slice_drop src (o :: t.raw ++ [m]) suf p max (by simpa using hs)
  rw [hp]
  simpa [byteLen, byteLen_append, hc.1, hc.2, Nat.add_assoc, Nat.add_comm 1] using this

theorem titlePart_total (dec : List Char → List Char) (src : List Char) (max : Nat)
    (href : Option (List Nat)) (p : Nat) (hp : InWin src max p) :
    ∃ title p4, inlineTitlePart dec src max href p = .ok (href, title, p4) ∧ InWin src max p4 := by
  obtain ⟨chars, hs⟩ := hp
  unfold inlineTitlePart
  simp only [hs]
  have hw := inwin_skipWs src chars max p hs
  generalize skipWs chars p = p3 at hw ⊢
  obtain ⟨c3, hs3⟩ := hw
  obtain ⟨tr, ht⟩ := title_total src c3 p3 max hs3
  simp only [ht]
  cases tr with
  | none => exact ⟨_, _, rfl, c3, hs3⟩
  | some t =>
    obtain ⟨c4, hs4⟩ := inwin_title src p3 max t ht
    simp only [hs4]
    exact ⟨_, _, rfl, inwin_skipWs src c4 max t.pos hs4⟩

theorem afterDest_total (dec : List Char → List Char) (src : List Char) (p max : Nat) (res : Frag)
    (hp : InWin src max p) (hd : parseLinkDestination src p max = .ok (some res)) :
    ∃ href title p4, inlineAfterDest dec src p max res = .ok (href, title, p4) ∧
      InWin src max p4 := by
  unfold inlineAfterDest
  split
  · exact ⟨_, titlePart_total dec src max _ res.pos (inwin_dest src p max res hd)⟩
  · exact ⟨_, titlePart_total dec src max _ p hp⟩

/-- **the inline branch of `parse_link` never panics**: if the first slicing `src[pos..max]` is in
    range (which the caller guarantees), so is every later one. -/
theorem tail_total (dec : List Char → List Char) (src chars : List Char) (pos max : Nat)
    (h : slice src pos max = .ok chars) : ∃ r, parseInlineTail dec src pos max = .ok r := by
  unfold parseInlineTail
  simp only [h]
  split
  · rename_i rest
    have hrest : slice src (pos + 1) max = .ok rest := by
      have := slice_drop src ['('] rest pos max (by simpa using h)
      simpa [byteLen, clen_lp] using this
    have hw := inwin_skipWs src rest max (pos + 1) hrest
    generalize skipWs rest (pos + 1) = p1 at hw ⊢
    obtain ⟨c1, hs1⟩ := hw
    obtain ⟨dr, hd⟩ := dest_total src c1 p1 max hs1
    simp only [hd]
    cases dr with
    | none =>
      simp only [hs1]
      split
      · rename_i heq; cases heq
      · exact ⟨_, rfl⟩
      · exact ⟨_, rfl⟩
    | some res =>
      obtain ⟨href, title, p4, hst, c4, hs4⟩ := afterDest_total dec src p1 max res ⟨c1, hs1⟩ hd
      simp only [hst, hs4]
      split
      · rename_i heq; cases heq
      · exact ⟨_, rfl⟩
      · exact ⟨_, rfl⟩
  · exact ⟨_, rfl⟩

/-! ### the parsers on concrete text (non-vacuity of the theorems above) -/

section ParserExamples

/-- decidable equality of parser results, for the `decide`d examples only -/
def resultDecEq {α : Type} [DecidableEq α] : (a b : Except Panic α) → Decidable (a = b)
  | .ok x, .ok y => if h : x = y then isTrue (by rw [h]) else isFalse (fun e => h (by cases e; rfl))
  | .error x, .error y =>
    if h : x = y then isTrue (by rw [h]) else isFalse (fun e => h (by cases e; rfl))
  | .ok _, .error _ => isFalse (fun e => by cases e)
  | .error _, .ok _ => isFalse (fun e => by cases e)

local instance {α : Type} [DecidableEq α] : DecidableEq (Except Panic α) := resultDecEq

/-- `<a b>) x` from 0: angle form, raw `a b`, `pos` behind the `>` -/
example : parseLinkDestination ['<', 'a', ' ', 'b', '>', ')', ' ', 'x'] 0 8 =
    .ok (some ⟨5, 0, ['a', ' ', 'b']⟩) := by decide

/-- `[a](/u(r)l "t")` from 4: bare form, stops at the space -/
example : parseLinkDestination
    ['[', 'a', ']', '(', '/', 'u', '(', 'r', ')', 'l', ' ', '"', 't', '"', ')'] 4 15 =
    .ok (some ⟨10, 0, ['/', 'u', '(', 'r', ')', 'l']⟩) := by decide

/-- `é)`: two-byte character, bare form stops at the unbalanced `)` at byte 2 -/
example : parseLinkDestination ['é', ')'] 0 3 = .ok (some ⟨2, 0, ['é']⟩) := by decide

/-- … and `start = 1` is inside `é`: the Rust slicing panics, the model says so -/
example : parseLinkDestination ['é', ')'] 1 3 = .error .slice := by decide
example : parseLinkDestination ['a'] 0 2 = .error .slice := by decide
example : parseLinkDestination ['a', 'b'] 2 1 = .error .slice := by decide

/-- 32 nested parentheses are accepted, 33 are not -/
example : parseLinkDestination (List.replicate 32 '(' ++ List.replicate 32 ')') 0 64 =
    .ok (some ⟨64, 0, List.replicate 32 '(' ++ List.replicate 32 ')'⟩) := by decide
example : parseLinkDestination (List.replicate 33 '(' ++ List.replicate 33 ')') 0 66 = .ok none := by
  decide

/-- unbalanced `(`: no destination -/
example : parseLinkDestination ['(', 'a'] 0 2 = .ok none := by decide

/-- `b\<TAB>c)` and `b\ c)`: a backslash does not escape a blank or a control character, the
    destination ends BEFORE the backslash (`dest_no_ctrl`); `b\)c)` keeps the escaped `)` -/
example : parseLinkDestination ['b', '\\', '\t', 'c', ')'] 0 5 = .ok (some ⟨1, 0, ['b']⟩) := by decide
example : parseLinkDestination ['b', '\\', ' ', 'c', ')'] 0 5 = .ok (some ⟨1, 0, ['b']⟩) := by decide
example : parseLinkDestination ['b', '\\', '\n', 'c', ')'] 0 5 = .ok (some ⟨1, 0, ['b']⟩) := by decide
example : parseLinkDestination ['b', '\\', ')', 'c', ')'] 0 5 =
    .ok (some ⟨4, 0, ['b', '\\', ')', 'c']⟩) := by decide

/-- `<b\<LF>c>` and `<b<LF>c>`: no line feed inside `<…>`, escaped or not
    (`dest_lines_zero_sound`); `<b\>c>` keeps the escaped `>` -/
example : parseLinkDestination ['<', 'b', '\\', '\n', 'c', '>'] 0 6 = .ok none := by decide
example : parseLinkDestination ['<', 'b', '\n', 'c', '>'] 0 5 = .ok none := by decide
example : parseLinkDestination ['<', 'b', '\\', '>', 'c', '>'] 0 6 =
    .ok (some ⟨6, 0, ['b', '\\', '>', 'c']⟩) := by decide

/-- titles: the three delimiter pairs -/
example : parseLinkTitle ['"', 't', '"', ')'] 0 4 = .ok (some ⟨3, 0, ['t']⟩) := by decide
example : parseLinkTitle ['\'', 't', '"', '\'', ')'] 0 5 = .ok (some ⟨4, 0, ['t', '"']⟩) := by decide
example : parseLinkTitle ['(', 't', '\\', ')', ')', ')'] 0 6 = .ok (some ⟨5, 0, ['t', '\\', ')']⟩) := by
  decide
example : parseLinkTitle ['(', 't', '(', ')'] 0 4 = .ok none := by decide
example : parseLinkTitle ['"', 't'] 0 2 = .ok none := by decide
example : parseLinkTitle ['x', '"'] 0 2 = .ok none := by decide

/-- a plain line feed is counted … -/
example : parseLinkTitle ['"', 'a', '\n', 'b', '"'] 0 5 = .ok (some ⟨5, 1, ['a', '\n', 'b']⟩) := by
  decide

/-- … and so is a line feed behind a backslash (`title_lines_exact`: `lines` = number of line
    feeds in the raw title) -/
example : parseLinkTitle ['"', 'a', '\\', '\n', 'b', '"'] 0 6 =
    .ok (some ⟨6, 1, ['a', '\\', '\n', 'b']⟩) := by decide
example : List.count '\n' ['a', '\\', '\n', 'b'] = 1 := by decide

/-- negation witness: the title loop as it was before commit 5a0c4fb reports `lines = 0` for the
    same text — `title_lines_exact` fails for it (`reference.rs` then ended the definition one
    line early: `[a]: /u "foo\<LF>bar"` stored the two-line title AND re-read `bar"` as a paragraph) -/
example : titleLoopPinned '"' ['a', '\\', '\n', 'b', '"'] 1 0 = some (5, 0) := by decide
example : titleLoop '"' ['a', '\\', '\n', 'b', '"'] 1 0 = some (5, 1) := by decide

/-- `DecOk` is satisfiable (the identity decoder); `unescape_all` satisfies it because neither a
    title opener nor the empty text contains a backslash or an ampersand -/
example : DecOk id := ⟨rfl, fun _ _ r _ => ⟨r, rfl⟩⟩

/-- `[a](javascript:x)`, `[a](<JAVASCRIPT:x>)`, `[a](data:text/html,x "t")`: the inline form fails -/
example : parseInlineTail id ['(', 'j', 'a', 'v', 'a', 's', 'c', 'r', 'i', 'p', 't', ':', 'x', ')'] 0 14 =
    .ok none := by decide +kernel
example : parseInlineTail id ['(', '<', 'J', 'A', 'V', 'A', 'S', 'C', 'R', 'I', 'P', 'T', ':', 'x', '>', ')'] 0 16 =
    .ok none := by decide +kernel
example : parseInlineTail id
    ['(', 'd', 'a', 't', 'a', ':', 't', 'e', 'x', 't', '/', 'h', 't', 'm', 'l', ',', 'x', ' ', '"', 't', '"', ')'] 0 22 =
    .ok none := by decide +kernel

/-- `[a]( /u "t" )`: link to `/u` with title `t`, ends behind the `)` (so `rejected_stays_literal`
    is not vacuous) -/
example : parseInlineTail id ['(', ' ', '/', 'u', ' ', '"', 't', '"', ' ', ')'] 0 10 =
    .ok (some ⟨some [47, 117], some ['t'], 10⟩) := by decide +kernel

/-- `[a]()`: empty destination, accepted -/
example : parseInlineTail id ['(', ')'] 0 2 = .ok (some ⟨some [], none, 2⟩) := by decide +kernel

/-- quirk: a title directly behind a `<…>` destination, without a blank, is accepted -/
example : parseInlineTail id ['(', '<', 'b', '>', '"', 't', '"', ')'] 0 8 =
    .ok (some ⟨some [98], some ['t'], 8⟩) := by decide +kernel

end ParserExamples

end MdIt.Link
