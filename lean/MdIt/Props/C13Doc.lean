/-
  C13 at DOCUMENT level: "a reference-style link resolves EXACTLY WHEN a definition with a matching
  label exists anywhere in the document; the first in document order supplies destination and title;
  definitions produce no output" — the USE side (`Inline.parseLinkRef` / `linkRule`) tied to the
  DEFINITION side (`Props/LinksDoc.lean`, `Props/C13Trace.lean`).

  Lemma files: `Lemmas/C13DocInline.lean` (rules that decline, `ChainOK`, look-ahead over plain text, label
  walk), `Lemmas/C13DocUse.lean` (`parseLink_use`: `parse_link` on `[T]`, `[T][]`, `[T][L]`),
  `Lemmas/C13DocRun.lean` (the tokenizer iterations).

  THE CLASS.  A use is `useOf T e` = `[T]` (`e = none`), `[T][]` (`e = some []`), `[T][L]` (`e = some L`)
  with `T ≠ []` and `T`, `L` PLAIN: no character of the text rule's stop set
  `\n ! # $ % & * + - : < = > @ [ \ ] ^ _ ` { } ~` (`C11S.PlainTxt`; spaces, letters of any script, digits,
  `. , ; ' " ( ) / ?` are plain).  The chain is any `ChainOK` chain: `ChainCoherent` (`Props/InlineTotal`),
  contains the text rule, the link rule exactly once, `]` is not an emphasis marker; `max_nesting ≥ 2`.

  Property theorems
    `use_resolves_ok`, `use_resolves_text`, `use_resolves_iff`   (1) inline: `parseInline` of a use is ONE
                      `Link` node with url / title = the entry `Refs.lookup (normalize label)` finds, its one
                      child the link text — or, when the lookup fails, ONE literal `Text` node; "is a link
                      node" ⇔ "the lookup succeeds"
    `doc_use_resolves_iff`   the same under the inline configuration of a document (`cfg.inlineCfg refs`)
    `doc_resolves_iff`       (2) document: for every parsed document, with `L` = its definitions BY SOURCE
                      LINE (`C13Trace`: exactly the `reference` entries of the trace, sorted by line,
                      `DefOnLines`, in whatever container), every use paragraph — wherever it stands — is
                      spliced as a `Link` iff some definition's label has the same non-empty normal form,
                      and then url / title are those of the matching definition with the SMALLEST LINE;
                      definitions leave no node (`Block.reference_no_node`)
    `doc_resolves_case_ws`   (3) real Unicode tables: a use spelled with other case / other white space than
                      a definition resolves (to that definition or an earlier matching one)
  OPEN block at the end.
-/
import MdIt.Lemmas.C13DocRun
import MdIt.Props.C13Trace
import MdIt.Props.MemoSafe
set_option linter.unusedSimpArgs false
set_option linter.unusedVariables false

namespace MdIt.C13D
open MdIt.Inline
open MdIt.InlineOps (Srcmap getSourcePosFor getMap byteLen slice)
open MdIt.C05 (byteLen_append slice_ok_iff)
open MdIt.C11S (PlainTxt tokLoop_step tokLoop_done trimSrc_ends)

/-! ## (1) the inline parser on a use -/

theorem useOf_last (T : List Char) (e : Option (List Char)) : (useOf T e).getLast? = some ']' := by
  cases e with
  | none => exact List.getLast?_eq_some_iff.mpr ⟨'[' :: T, by simp [useOf, tailOf]⟩
  | some l => exact List.getLast?_eq_some_iff.mpr ⟨'[' :: (T ++ ']' :: '[' :: l), by simp [useOf, tailOf]⟩

/-- byte-length arithmetic -/
macro "bl" : tactic =>
  `(tactic| (simp only [byteLen_append, byteLen_cons, byteLen_nil, sz_open, sz_close, byteLen_tailOf,
      List.nil_append, List.cons_append] at *; omega))

theorem init_use (T : List Char) (e : Option (List Char)) (x : Nat) :
    IState.init (useOf T e) [(0, x)] =
      ⟨useOf T e, [(0, x)], 0, byteLen (useOf T e), 0, 0, [], CodePair.Cache.empty, [], []⟩ := by
  have := trimSrc_ends (useOf T e) '[' ']' _ rfl (useOf_last T e) (by decide) (by decide)
  simp [IState.init, this]

theorem topFuel_ge (cfg : Cfg) (hmn : 2 ≤ cfg.maxNesting) (T : List Char) (e : Option (List Char)) :
    9 ≤ topFuel cfg (useOf T e) := by
  unfold topFuel
  calc 9 ≤ 3 * 4 := by omega
    _ ≤ (byteLen (useOf T e) + 2) * (cfg.maxNesting + 2) :=
        Nat.mul_le_mul (by rw [byteLen_useOf]; omega) (by omega)

/-- **`use_resolves_ok`.**  The lookup of the selected label succeeds: the use is ONE `Link` node over
    the whole use, url and title those of the entry, its single child the text node of the link text. -/
theorem use_resolves_ok {cfg : Cfg} (h : ChainOK cfg) (hmn : 2 ≤ cfg.maxNesting) (x : Nat)
    (T : List Char) (e : Option (List Char)) (hne : T ≠ []) (hT : PlainTxt T) (he : PlainTxt (e.getD []))
    (r : Refs.Entry) (hlook : look cfg (labelOf T e) = some r) :
    parseInline cfg (useOf T e) [(0, x)] = .ok [linkNode x T e r] := by
  obtain ⟨F, hF⟩ : ∃ F, topFuel cfg (useOf T e) = F + 3 :=
    ⟨topFuel cfg (useOf T e) - 3, by have := topFuel_ge cfg hmn T e; omega⟩
  obtain ⟨cache', hstep⟩ := tokStep_link_ok h hmn F x T e CodePair.Cache.empty hne hT he r hlook
  unfold parseInline tokenize
  rw [init_use, hF]
  have hpos : 0 < byteLen (useOf T e) := by rw [byteLen_useOf]; omega
  rw [tokLoop_step cfg (F + 2) _ (by exact hpos) hstep, tokLoop_done cfg _ _ (by simp)]

/-- the tokenizer from a top state that has read `pre`, when the rest is turned into text step by step -/
theorem finish_text (cfg : Cfg) (F : Nat) {st : IState} {c : List Char} {x : Nat}
    (ht : Top st c x c) : tokLoop cfg F (byteLen c) st = .ok st ∧ st.children = txt x c :=
  ⟨tokLoop_done cfg F _ (by rw [ht.pos]; omega), ht.children⟩

set_option maxHeartbeats 800000 in
/-- **`use_resolves_text`.**  The lookup of the selected label fails (for the collapsed form `[T][]`
    also the lookup of the empty label, which no document map contains): no link — the use is ONE
    text node carrying the use literally. -/
theorem use_resolves_text {cfg : Cfg} (h : ChainOK cfg) (hmn : 2 ≤ cfg.maxNesting) (x : Nat)
    (T : List Char) (e : Option (List Char)) (hne : T ≠ []) (hT : PlainTxt T) (he : PlainTxt (e.getD []))
    (hlook : look cfg (labelOf T e) = none) (hempty : e = some [] → look cfg [] = none) :
    parseInline cfg (useOf T e) [(0, x)] =
      .ok [Node.newText (useOf T e) (some (x, x + byteLen (useOf T e)))] := by
  have hmn0 : 0 < cfg.maxNesting := by omega
  obtain ⟨F, hF⟩ : ∃ F, topFuel cfg (useOf T e) = F + 9 :=
    ⟨topFuel cfg (useOf T e) - 9, by have := topFuel_ge cfg hmn T e; omega⟩
  have hqc : ∀ id ∈ cfg.chain, Quiet id ']' := fun id hid => quiet_close h hid
  have hTpos := byteLen_pos hne
  obtain ⟨c, hcdef⟩ : ∃ c, c = useOf T e := ⟨_, rfl⟩
  have hres : ∀ st : IState, Top st c x c → tokLoop cfg F (byteLen c) st = .ok st → True := fun _ _ _ => trivial
  have hgoal : ∀ (G : Nat) (st : IState), Top st c x c →
      (tokLoop cfg G (byteLen c) st).map (·.children) = .ok (txt x c) := by
    intro G st ht
    rw [(finish_text cfg G ht).1]; simp [Except.map, ht.children]
  have hfinal : txt x c = [Node.newText (useOf T e) (some (x, x + byteLen (useOf T e)))] := by
    rw [hcdef]; simp [txt, useOf]
  suffices hs : (tokLoop cfg (F + 9) (byteLen c) ⟨c, [(0, x)], 0, byteLen c, 0, 0, [], CodePair.Cache.empty, [], []⟩).map
      (·.children) = .ok (txt x c) by
    unfold parseInline tokenize
    rw [init_use, hF, ← hcdef]
    rw [← hcdef] at hfinal
    cases hr : tokLoop cfg (F + 9) (byteLen c) ⟨c, [(0, x)], 0, byteLen c, 0, 0, [], CodePair.Cache.empty, [], []⟩ with
    | error er => rw [hr] at hs; simp [Except.map] at hs
    | ok s => rw [hr] at hs; simp only [Except.map, Except.ok.injEq] at hs; simp only [hs, hfinal]
  have ht0 : Top (⟨c, [(0, x)], 0, byteLen c, 0, 0, [], CodePair.Cache.empty, [], []⟩ : IState) c x [] :=
    ⟨⟨rfl, rfl⟩, rfl, rfl, rfl, rfl⟩
  have hclen : byteLen c = byteLen T + 2 + byteLen (tailOf e) := by rw [hcdef, byteLen_useOf]
  cases e with
  | none =>
    -- `[T]`: bracket, text, bracket
    obtain ⟨s1, h1, t1, c1⟩ := tokStep_link_fail h hmn0 (fun s => tokLoop cfg (F + 8) s.posMax s) (F + 6) ht0 T none
      (by rw [hcdef]; rfl) hT he hlook (Entries 0 T none) (cacheIn_nil _) (fun p hp => hp)
      (by
        intro v hv
        simp only [Entries, byteLen, List.mem_cons, Prod.mk.injEq, List.mem_nil_iff, or_false] at hv
        rcases hv with ⟨_, rfl⟩ | ⟨hh, _⟩
        · rfl
        · omega)
      (by
        intro v hv
        simp only [Entries, byteLen, List.mem_cons, Prod.mk.injEq, List.mem_nil_iff, or_false] at hv
        rcases hv with ⟨hh, _⟩ | ⟨_, rfl⟩
        · omega
        · rfl)
    rw [tokLoop_step cfg (F + 8) _ (by show 0 < byteLen c; omega) h1]
    obtain ⟨s2, h2, t2, _⟩ := tokStep_text h hmn0 (fun s => skipToken cfg (F + 7) s)
      (fun s => tokLoop cfg (F + 7) s.posMax s) (F + 7) t1 T [']'] (by rw [hcdef]; simp [useOf, tailOf]) hne hT
      (by intro ch hch; simp at hch; subst hch; decide)
    rw [tokLoop_step cfg (F + 7) _ (by have := t1.pos; bl) h2]
    obtain ⟨s3, h3, t3, _⟩ := tokStep_char (cfg := cfg) (fun s => skipToken cfg (F + 6) s)
      (fun s => tokLoop cfg (F + 6) s.posMax s) (F + 6) t2 ']' [] (by rw [hcdef]; simp [useOf, tailOf]) hqc
    rw [tokLoop_step cfg (F + 6) _ (by have := t2.pos; bl) h3]
    have hc3 : [] ++ ['['] ++ T ++ [']'] = c := by rw [hcdef]; simp [useOf, tailOf]
    rw [hc3] at t3
    exact hgoal _ _ t3
  | some L2 =>
    have hL2 : PlainTxt L2 := he
    have hS : ∀ v k, (k, v) ∈ Entries 0 T (some L2) ++ Entries (byteLen T + 2) L2 none →
        (k = 1 ∧ v = 1 + byteLen T) ∨ (k = byteLen T + 3 ∧ v = byteLen T + 3 + byteLen L2) ∨
        (k = byteLen T + 2 + byteLen L2 + 3 ∧ v = byteLen T + 2 + byteLen L2 + 3 + 0) := by
      intro v k hv
      simp only [Entries, List.mem_append, List.mem_cons, Prod.mk.injEq, List.mem_nil_iff, or_false,
        Option.getD_some, Option.getD_none, byteLen_nil] at hv
      omega
    obtain ⟨s1, h1, t1, c1⟩ := tokStep_link_fail h hmn0 (fun s => tokLoop cfg (F + 8) s.posMax s) (F + 6) ht0 T
      (some L2) (by rw [hcdef]; rfl) hT he hlook
      (Entries 0 T (some L2) ++ Entries (byteLen T + 2) L2 none) (cacheIn_nil _)
      (fun p hp => List.mem_append_left _ hp)
      (by intro v hv; have := hS v _ hv; simp only [byteLen_nil] at this ⊢; omega)
      (by intro v hv; have := hS v _ hv; simp only [byteLen_nil, Option.getD_some] at this ⊢; omega)
    rw [tokLoop_step cfg (F + 8) _ (by show 0 < byteLen c; omega) h1]
    obtain ⟨s2, h2, t2, e2⟩ := tokStep_text h hmn0 (fun s => skipToken cfg (F + 7) s)
      (fun s => tokLoop cfg (F + 7) s.posMax s) (F + 7) t1 T (']' :: tailOf (some L2))
      (by rw [hcdef]; simp [useOf, tailOf]) hne hT (by intro ch hch; simp at hch; subst hch; decide)
    rw [tokLoop_step cfg (F + 7) _ (by have := t1.pos; bl) h2]
    obtain ⟨s3, h3, t3, e3⟩ := tokStep_char (cfg := cfg) (fun s => skipToken cfg (F + 6) s)
      (fun s => tokLoop cfg (F + 6) s.posMax s) (F + 6) t2 ']' (tailOf (some L2))
      (by rw [hcdef]; simp [useOf, tailOf]) hqc
    rw [tokLoop_step cfg (F + 6) _ (by have := t2.pos; bl) h3]
    -- the second pair, tried as a shortcut use of its own
    have hlen3 : byteLen ([] ++ ['['] ++ T ++ [']']) = byteLen T + 2 := by bl
    have hlook2 : look cfg (labelOf L2 none) = none := by
      cases L2 with
      | nil => exact hempty rfl
      | cons l0 L2' => exact hlook
    have c3 : CacheIn (Entries 0 T (some L2) ++ Entries (byteLen T + 2) L2 none) s3.cache := by
      rw [e3, e2]; exact c1
    obtain ⟨s4, h4, t4, c4⟩ := tokStep_link_fail h hmn0 (fun s => tokLoop cfg (F + 5) s.posMax s) (F + 3) t3 L2 none
      (by rw [hcdef]; simp [useOf, tailOf]) hL2 (by intro ch hch; simp at hch) hlook2
      (Entries 0 T (some L2) ++ Entries (byteLen T + 2) L2 none) c3
      (by rw [hlen3]; exact fun p hp => List.mem_append_right _ hp)
      (by rw [hlen3]; intro v hv; have := hS v _ hv; omega)
      (by rw [hlen3]; intro v hv; have := hS v _ hv; simp only [Option.getD_none, byteLen_nil] at this ⊢; omega)
    rw [tokLoop_step cfg (F + 5) _ (by have := t3.pos; bl) h4]
    by_cases hL2e : L2 = []
    · subst hL2e
      obtain ⟨s5, h5, t5, _⟩ := tokStep_char (cfg := cfg) (fun s => skipToken cfg (F + 4) s)
        (fun s => tokLoop cfg (F + 4) s.posMax s) (F + 4) t4 ']' [] (by rw [hcdef]; simp [useOf, tailOf]) hqc
      rw [tokLoop_step cfg (F + 4) _ (by have := t4.pos; bl) h5]
      have hc5 : [] ++ ['['] ++ T ++ [']'] ++ ['['] ++ [']'] = c := by rw [hcdef]; simp [useOf, tailOf]
      rw [hc5] at t5
      exact hgoal _ _ t5
    · obtain ⟨s5, h5, t5, _⟩ := tokStep_text h hmn0 (fun s => skipToken cfg (F + 4) s)
        (fun s => tokLoop cfg (F + 4) s.posMax s) (F + 4) t4 L2 [']'] (by rw [hcdef]; simp [useOf, tailOf]) hL2e hL2
        (by intro ch hch; simp at hch; subst hch; decide)
      rw [tokLoop_step cfg (F + 4) _ (by have := t4.pos; bl) h5]
      obtain ⟨s6, h6, t6, _⟩ := tokStep_char (cfg := cfg) (fun s => skipToken cfg (F + 3) s)
        (fun s => tokLoop cfg (F + 3) s.posMax s) (F + 3) t5 ']' [] (by rw [hcdef]; simp [useOf, tailOf]) hqc
      rw [tokLoop_step cfg (F + 3) _ (by have := t5.pos; bl) h6]
      have hc6 : [] ++ ['['] ++ T ++ [']'] ++ ['['] ++ L2 ++ [']'] = c := by rw [hcdef]; simp [useOf, tailOf]
      rw [hc6] at t6
      exact hgoal _ _ t6

/-- is the list one `Link` node -/
def isLink : List Node → Bool
  | [⟨.link _ _, _, _⟩] => true
  | _ => false

/-- **`use_resolves_iff` (C13 "resolves exactly when", inline side).**  For every `ChainOK` chain,
    `max_nesting ≥ 2`, every reference map and normalisation, every use `[T]` / `[T][]` / `[T][L]` with
    plain non-empty text and plain label: the inline parser returns, and what it returns is ONE `Link`
    node exactly when `Refs.lookup normRef refs (selected label)` succeeds — then with that entry's
    destination and title — and ONE literal text node otherwise. -/
theorem use_resolves_iff {cfg : Cfg} (h : ChainOK cfg) (hmn : 2 ≤ cfg.maxNesting) (x : Nat)
    (T : List Char) (e : Option (List Char)) (hne : T ≠ []) (hT : PlainTxt T) (he : PlainTxt (e.getD []))
    (hempty : e = some [] → look cfg [] = none) :
    ∃ ns, parseInline cfg (useOf T e) [(0, x)] = .ok ns ∧
      (isLink ns = true ↔ (look cfg (labelOf T e)).isSome = true) ∧
      (∀ r, look cfg (labelOf T e) = some r → ns = [linkNode x T e r]) ∧
      (look cfg (labelOf T e) = none →
        ns = [Node.newText (useOf T e) (some (x, x + byteLen (useOf T e)))]) := by
  cases hl : look cfg (labelOf T e) with
  | none =>
    refine ⟨_, use_resolves_text h hmn x T e hne hT he hl hempty, ?_, ?_, fun _ => rfl⟩
    · simp [isLink, Node.newText]
    · intro r hr; cases hr
  | some r =>
    refine ⟨_, use_resolves_ok h hmn x T e hne hT he r hl, ?_, ?_, ?_⟩
    · simp [isLink, linkNode]
    · intro r' hr'; cases hr'; rfl
    · intro hn; cases hn

end MdIt.C13D

/-! ## (2) the document -/

namespace MdIt.Pipeline
open MdIt.Block.Tr (Call docCalls docTrace DefOnLines)
open MdIt.C13D (ChainOK useOf labelOf look linkNode isLink)
open MdIt.C11S (PlainTxt)
open MdIt.InlineOps (byteLen)

/-- `ChainOK` is a property of the inline chain alone -/
theorem chainOK_refs {cfg : DocCfg} (h : ChainOK (cfg.inlineCfg [])) (refs : Refs.RefMap) :
    ChainOK (cfg.inlineCfg refs) := ⟨h.coh, h.text, h.link, h.close⟩

theorem look_doc (cfg : DocCfg) (refs : Refs.RefMap) (label : List Nat) :
    look (cfg.inlineCfg refs) label = docLookup cfg refs label := rfl

theorem normalize_nil (L U : Nat → List Nat) : Refs.normalize L U [] = [] := by
  simp [Refs.normalize, Refs.trimWs, Refs.trimEnd, Refs.trimStart, Refs.collapseWs, Refs.lowerStr, Refs.upperStr]

/-- **`doc_use_resolves_iff` (1, under a document's configuration).**  `refs` a reference map without an
    entry for the empty label (every map the block pass builds: `doc_resolves_iff`): the inline parser
    under `cfg.inlineCfg refs` turns a use into ONE `Link` node exactly when `docLookup` finds the
    selected label — url and title are the entry's — and into one literal text node otherwise. -/
theorem doc_use_resolves_iff (cfg : DocCfg) (hok : ChainOK (cfg.inlineCfg [])) (hmn : 2 ≤ cfg.maxNesting)
    (refs : Refs.RefMap) (hnil : docLookup cfg refs [] = none) (x : Nat)
    (T : List Char) (e : Option (List Char)) (hne : T ≠ []) (hT : PlainTxt T) (he : PlainTxt (e.getD [])) :
    ∃ ns, Inline.parseInline (cfg.inlineCfg refs) (useOf T e) [(0, x)] = .ok ns ∧
      (isLink ns = true ↔ (docLookup cfg refs (labelOf T e)).isSome = true) ∧
      (∀ r, docLookup cfg refs (labelOf T e) = some r → ns = [linkNode x T e r]) ∧
      (docLookup cfg refs (labelOf T e) = none →
        ns = [Inline.Node.newText (useOf T e) (some (x, x + byteLen (useOf T e)))]) :=
  C13D.use_resolves_iff (chainOK_refs hok refs) hmn x T e hne hT he (fun _ => hnil)

/-- a paragraph whose content is the placeholder is spliced as the paragraph over the inline run -/
theorem spliceWith_paragraph (f : List Char → List (Nat × Nat) → List Node) (r : Option (Nat × Nat))
    (content : List Char) (mapping : List (Nat × Nat)) :
    spliceWith f ⟨.paragraph, r, [⟨.inlineRoot content mapping, none, []⟩]⟩ =
      ⟨.blk .paragraph, r, [], f content mapping⟩ := by
  simp [spliceWith, spliceWithList]

/-- **`doc_resolves_iff` (C13 for documents: "resolves exactly when").**  For every parsed document
    (any block chain, any `ChainOK` inline chain, `max_nesting ≥ 2`, idempotent label normalisation —
    `Refs.normalize_idem`, in particular the generated Unicode tables) there are the block tree `root`,
    the final map `refs` and the list `L` of the document's link reference definitions BY SOURCE LINE
    — exactly the `reference` entries of the trace, sorted by line with disjoint line ranges, each
    standing on its lines of the source through the view of ITS CONTAINER (`DefOnLines`: top level,
    block quote, list item, any nesting) — such that
    * the tree is `root` with every placeholder replaced by the inline run under the ONE configuration
      `cfg.inlineCfg refs` (`spliceWith`, then the join / sourcepos passes): definitions contribute no
      node (`Block.reference_no_node`), a use paragraph becomes `Paragraph [inlineRun …]`
      (`spliceWith_paragraph`) wherever it stands — before or after the definitions;
    * for EVERY use `[T]`, `[T][]`, `[T][l]` of the plain class, at any offset `x`:
      - NO definition of `L` has a label with the same non-empty normal form ⇒ the run is one literal
        text node (no link);
      - otherwise the run is ONE `Link` node whose url / title are those of the matching definition
        `y ∈ L` with the SMALLEST LINE (every other matching definition starts at or behind the line
        where `y` ends). -/
theorem doc_resolves_iff (cfg : DocCfg) (hok : ChainOK (cfg.inlineCfg [])) (hmn : 2 ≤ cfg.maxNesting)
    (hN : ∀ s, cfg.blockCfg.N (cfg.blockCfg.N s) = cfg.blockCfg.N s)
    (src : List Char) (t : Node) (h : parseDoc cfg src = .ok t) :
    ∃ (root : Block.BNode) (refs : Refs.RefMap) (L : List (Call × Refs.Def)),
      Block.parseBlocks cfg.blockCfg src = .ok (root, refs) ∧
      L.map (fun x => (Block.RuleId.reference, x.1.start, x.1.stop)) =
        (docTrace cfg.blockCfg src).filter (fun e => e.1 = .reference) ∧
      L.Pairwise (fun x y => x.1.stop ≤ y.1.start) ∧
      (∀ x ∈ L, x.1.stop ≤ (Lines.splitLines src).length ∧
        DefOnLines cfg.blockCfg src x.1.start x.1.stop x.2) ∧
      postPasses cfg src (spliceWith (inlineRun (cfg.inlineCfg refs)) root) = .ok t ∧
      ∀ (x : Nat) (T : List Char) (e : Option (List Char)), T ≠ [] → PlainTxt T → PlainTxt (e.getD []) →
        let hit := fun y : Call × Refs.Def => Refs.labelMatches cfg.blockCfg.N (labelOf T e) y.2
        match L.find? hit with
        | none =>
          inlineRun (cfg.inlineCfg refs) (useOf T e) [(0, x)] =
            ofInlineList [Inline.Node.newText (useOf T e) (some (x, x + byteLen (useOf T e)))] ∧
          ∀ y ∈ L, hit y = false
        | some y =>
          inlineRun (cfg.inlineCfg refs) (useOf T e) [(0, x)] = ofInlineList [linkNode x T e y.2.entry] ∧
          y ∈ L ∧ hit y = true ∧ ∀ z ∈ L, hit z = true → z = y ∨ y.1.stop ≤ z.1.start := by
  obtain ⟨root, refs, L, hb, h1, h2, h3, h4⟩ := doc_first_definition_by_line_idem cfg hN src t h
  obtain ⟨root', refs', defs, icfg, hb', _, _, hicfg, _, hpost, _⟩ :=
    doc_reference_position_irrelevant cfg src t h
  rw [hb] at hb'
  simp only [Except.ok.injEq, Prod.mk.injEq] at hb'
  obtain ⟨rfl, rfl⟩ := hb'
  subst hicfg
  refine ⟨root, refs, L, hb, h1, h2, h3, hpost, ?_⟩
  -- the empty label is in no document map
  have hnil : docLookup cfg refs [] = none := by
    have h5 := h4 []
    simp only at h5
    split at h5
    · exact h5.1
    · rename_i y _
      have hy := h5.2.2.1
      have hn : cfg.blockCfg.N [] = [] := normalize_nil cfg.L cfg.U
      simp only [Refs.labelMatches, hn, Bool.and_eq_true, Bool.not_eq_true', beq_iff_eq] at hy
      rw [hy.2] at hy
      simp at hy
  intro x T e hne hT he hit
  have h5 := h4 (labelOf T e)
  simp only at h5
  obtain ⟨ns, hns, _, hsome, hnone⟩ := doc_use_resolves_iff cfg hok hmn refs hnil x T e hne hT he
  split
  · rename_i hf
    rw [hf] at h5
    refine ⟨?_, h5.2⟩
    unfold inlineRun
    rw [hns, hnone h5.1]
  · rename_i y hf
    rw [hf] at h5
    refine ⟨?_, h5.2⟩
    unfold inlineRun
    rw [hns, hsome _ h5.1]

/-- **`doc_resolves_case_ws` (3: matching ignores case and white-space runs).**  With the real Unicode
    tables (`Refs.Lt`, `Refs.Ut`): if `x ∈ L` is a definition with a non-blank label and a use's label `l`
    is a case variant (lower-cased, upper-cased or equal) of a text `l'` that differs from the
    definition's label only in white-space runs / leading / trailing white space (`Refs.WsEquiv`), then
    the use — wherever it stands in the document — IS a `Link`: to `x`, or to a matching definition on
    an earlier line. -/
theorem doc_resolves_case_ws (cfg : DocCfg) (hL : cfg.L = Refs.Lt) (hU : cfg.U = Refs.Ut)
    (hok : ChainOK (cfg.inlineCfg [])) (hmn : 2 ≤ cfg.maxNesting)
    (src : List Char) (t : Node) (h : parseDoc cfg src = .ok t) :
    ∃ (root : Block.BNode) (refs : Refs.RefMap) (L : List (Call × Refs.Def)),
      Block.parseBlocks cfg.blockCfg src = .ok (root, refs) ∧
      L.map (fun x => (Block.RuleId.reference, x.1.start, x.1.stop)) =
        (docTrace cfg.blockCfg src).filter (fun e => e.1 = .reference) ∧
      postPasses cfg src (spliceWith (inlineRun (cfg.inlineCfg refs)) root) = .ok t ∧
      ∀ d ∈ L, Refs.Nt d.2.label ≠ [] →
      ∀ (x : Nat) (T : List Char) (e : Option (List Char)), T ≠ [] → PlainTxt T → PlainTxt (e.getD []) →
      ∀ l' : List Nat, Refs.WsEquiv d.2.label l' →
        (labelOf T e = Refs.lowerStr Refs.Lt l' ∨ labelOf T e = Refs.upperStr Refs.Ut l' ∨ labelOf T e = l') →
        ∃ y ∈ L, inlineRun (cfg.inlineCfg refs) (useOf T e) [(0, x)] = ofInlineList [linkNode x T e y.2.entry] ∧
          Refs.Nt y.2.label = Refs.Nt d.2.label ∧ (y = d ∨ y.1.stop ≤ d.1.start) := by
  have hNeq : cfg.blockCfg.N = Refs.Nt := by
    show Refs.normalize cfg.L cfg.U = Refs.normalize Refs.Lt Refs.Ut
    rw [hL, hU]
  obtain ⟨root, refs, L, hb, h1, _, _, hpost, h5⟩ := doc_resolves_iff cfg hok hmn
    (by rw [hNeq]; exact Refs.table_normalize_idem) src t h
  refine ⟨root, refs, L, hb, h1, hpost, ?_⟩
  intro d hd hdne x T e hne hT he l' hws hl
  have hmatch : Refs.Nt d.2.label = Refs.Nt (labelOf T e) := by
    have e1 : Refs.Nt d.2.label = Refs.Nt l' := Refs.norm_ws_invariant Refs.Lt Refs.Ut hws
    rcases hl with hl | hl | hl
    · rw [hl, e1, (Refs.table_norm_case_invariant l').1]
    · rw [hl, e1, (Refs.table_norm_case_invariant l').2]
    · rw [hl, e1]
  have hhit : Refs.labelMatches cfg.blockCfg.N (labelOf T e) d.2 = true := by
    rw [hNeq]
    simp only [Refs.labelMatches, Bool.and_eq_true, Bool.not_eq_true', beq_iff_eq]
    exact ⟨by simpa using hdne, hmatch⟩
  have h6 := h5 x T e hne hT he
  simp only at h6
  split at h6
  · exact absurd hhit (by rw [h6.2 d hd]; simp)
  · rename_i y _
    refine ⟨y, h6.2.1, h6.1, ?_, h6.2.2.2 d hd hhit |>.imp Eq.symm id⟩
    have hy := h6.2.2.1
    rw [hNeq] at hy
    simp only [Refs.labelMatches, Bool.and_eq_true, Bool.not_eq_true', beq_iff_eq] at hy
    rw [hy.2, hmatch]

end MdIt.Pipeline

/-! ## examples: the hypotheses are satisfiable, and necessary -/

namespace MdIt.Pipeline
open MdIt.C13D (ChainOK useOf labelOf look linkNode isLink cps)
open MdIt.C11S (PlainTxt)

/-- the stock chain (with strikethrough) is `ChainOK` -/
theorem exCfg_chainOK (sp : Bool) (mn : Nat) : ChainOK ((exCfg sp mn).inlineCfg []) :=
  ⟨by show Inline.ChainCoherent ((exCfg false 0).inlineCfg []) = true; decide +kernel,
   by show Inline.RuleId.text ∈ ((exCfg false 0).inlineCfg []).chain; decide,
   by show ((exCfg false 0).inlineCfg []).chain.count .link = 1; decide,
   by show ']' ∉ ((exCfg false 0).inlineCfg []).emphMarkers; decide⟩

/-- `use_resolves_iff` / `doc_use_resolves_iff` instantiated: `[foo  BAR][]` under a map with the key
    `FOO BAR` is one link node -/
example : ∃ ns, Inline.parseInline ((exCfg false 100).inlineCfg [([70, 79, 79, 32, 66, 65, 82], ⟨[47, 117], none⟩)])
      (useOf "foo  BAR".toList (some [])) [(0, 7)] = .ok ns ∧ isLink ns = true ∧
      ns = [linkNode 7 "foo  BAR".toList (some []) ⟨[47, 117], none⟩] := by
  obtain ⟨ns, h1, h2, h3, _⟩ := doc_use_resolves_iff (exCfg false 100) (exCfg_chainOK _ _) (by decide)
    [([70, 79, 79, 32, 66, 65, 82], ⟨[47, 117], none⟩)] (by decide +kernel) 7 "foo  BAR".toList (some [])
    (by decide) (by unfold PlainTxt; decide) (by unfold PlainTxt; decide)
  exact ⟨ns, h1, h2.mpr (by decide +kernel), h3 _ (by decide +kernel)⟩

/-- the task's documents: the use in front, a definition in a block quote and a later one at top level —
    the quote's (first by line) wins; a use without definition stays text -/
example : (parseDoc (exCfg false 100) "[foo]\n\n> [FOO]: /a\n\n[foo]: /b".toList).toOption.map urlsOf =
    some [[47, 97]] := by decide +kernel
example : (parseDoc (exCfg false 100) "[x]\n\n[y]: /u".toList).toOption.map urlsOf = some [] := by
  decide +kernel
/-- definition in a list item, with title, collapsed use behind it; full use in front of it -/
example : (parseDoc (exCfg false 100) "[t][Foo]\n\n- [foo]: /a 'T'\n\n[FOO][]".toList).toOption.map urlsOf =
    some [[47, 97], [47, 97]] := by decide +kernel
/-- case and white space: `[foo  BAR]` against `[FOO bar]: /u` -/
example : (parseDoc (exCfg false 100) "[foo  BAR]\n\n[FOO bar]: /u".toList).toOption.map urlsOf =
    some [[47, 117]] := by decide +kernel
/-- … and with the real Unicode tables the two labels have the same normal form -/
example : Refs.Nt (cps "foo  BAR".toList) = Refs.Nt (cps "FOO bar".toList) ∧
    Refs.Nt (cps "FOO bar".toList) ≠ [] := by
  simp only [Refs.Nt_fast]; decide +kernel
/-- the full form does NOT fall back to the text: `[foo][bar]` with only `foo` defined is text -/
example : (parseDoc (exCfg false 100) "[foo][bar]\n\n[foo]: /a".toList).toOption.map urlsOf = some [] := by
  decide +kernel
/-- necessity: a definition inside a fenced block is not a definition … -/
example : (parseDoc (exCfg false 100) "[x]\n\n```\n[x]: /u\n```".toList).toOption.map urlsOf = some [] := by
  decide +kernel
/-- … nor is one in an indented code block, nor one that interrupts a paragraph -/
example : (parseDoc (exCfg false 100) "[x]\n\n    [x]: /u".toList).toOption.map urlsOf = some [] := by
  decide +kernel
example : (parseDoc (exCfg false 100) "[x]\n[x]: /u".toList).toOption.map urlsOf = some [] := by
  decide +kernel
/-- necessity of the plain class: a `]` in the text ends the label early (`[a]b]` uses the label `a`) -/
example : ¬ PlainTxt "a]b".toList ∧
    (parseDoc (exCfg false 100) "[a]b]\n\n[a]: /u".toList).toOption.map urlsOf = some [[47, 117]] := by
  refine ⟨by unfold PlainTxt; decide, by decide +kernel⟩
/-- … and `[a]b]: /v` is not a definition (the `]` of a label must be followed by `:`): it is a paragraph
    whose `[a]` resolves as well -/
example : (parseDoc (exCfg false 100) "[a]b]\n\n[a]: /u\n\n[a]b]: /v".toList).toOption.map urlsOf =
    some [[47, 117], [47, 117]] := by decide +kernel
/-- necessity of `max_nesting ≥ 1` for links at all: at nesting limit 0 nothing resolves -/
example : (parseDoc (exCfg false 0) "[x]\n\n[x]: /u".toList).toOption.map urlsOf = some [] := by
  decide +kernel
/-- necessity of "`]` is not an emphasis marker": with `]` as a marker the closing bracket is taken by
    the emphasis rule — the text-node shape of `use_resolves_text` fails (two nodes, not one) -/
example : (match Inline.parseInline { (exCfg false 100).inlineCfg [] with
      chain := [.text, .link, .emph ']' true] } "[x]".toList [(0, 0)] with
    | .ok ns => ns.length | .error _ => 0) = 2 := by decide +kernel

end MdIt.Pipeline

/-
OPEN: `doc_resolves_family` — the SOURCE-SHAPED family: a document made of one-line definition lines
`[Lᵢ]: dᵢ "tᵢ"`, each optionally prefixed by `> ` or `- `, separated by blank lines, and one use paragraph
at the front or the end, for ALL plain labels / destinations / titles and any number of definitions:
"`L` of `doc_resolves_iff` is exactly `[(Lᵢ, dᵢ, tᵢ)]ᵢ` in line order".  `doc_resolves_iff` holds for every
document and already ties the outcome to the definitions by source line (`DefOnLines`, in whatever
container); what is missing is the evaluation of the block pass on this family with GENERIC strings:
  Missing lemma `refParse_simple` (also the OPEN item `doc_two_definitions_labels` of `Props/C13Trace.lean`):
    `(∀ c ∈ l, c ∉ ['[', ']', '\\', '\n']) → PlainDest d → PlainTitle t →
     Block.refParse cfg ('[' :: l ++ "]: ".toList ++ d ++ " \"".toList ++ t ++ "\"".toList) =
       .ok (some (l.map Char.toNat, Link.utf8 d, some (t.map Char.toNat), 0))`
  — a symbolic evaluation of `Link.parseLinkDestination` / `Link.parseLinkTitle` at the byte position
  `byteLen l + 3` of an unknown string (both scanners work on byte positions of the whole string;
  `Props/C04.lean` has their alphabets, not their values), plus `Link.normalizeLink d = d` for plain `d`;
  Missing lemma `tokenize_def_lines`: the block tokenizer on `blank-separated lines` — each line a
  paragraph-free one-line block — performs exactly one `reference` call per definition line, at top level
  (extend `Lemmas/C13TraceTemplate.lean`: `leading_definition_stored` does the first line only), inside
  `> ` via `Block.quote_commutes` and inside `- ` via `Li.item_commutes_bullet` (both at `parseBlocks`
  level; they give the same MAP, which is what `docLookup` needs).
For concrete strings both are evaluation (`decide +kernel`, see the examples above).

OPEN (CLOSED by `doc_resolves_in_tree` below): `doc_resolves_in_tree` — `doc_resolves_iff` states the result on the spliced tree
`spliceWith (inlineRun icfg) root` in front of the join / sourcepos passes (`postPasses … = .ok t`); that
the `Link` node (kind, url, title, children) survives these two passes unchanged up to the `sourcepos`
attribute — `Within ⟨.inl (.link u ti), …⟩ t` — needs
  Missing lemma `postPasses_within`: `Within n t0 → n.kind = .inl (.link u ti) → postPasses cfg src t0 = .ok t →
    ∃ n', Within n' t ∧ n'.kind = n.kind` (`joinNode` rewrites text nodes only; `sourceposNode` adds
  attributes only — `Props/LinksDoc.lean` has the converse direction `parseDoc_every_kind`).

OPEN (item 4 of the task, untouched): prefix-locality of the scanners (`defOnLines_exact` of
`Props/C13Trace.lean`, missing lemma `refParse_local`).
-/

/-! ## (2') the tree `parseDoc` RETURNS: through the join and sourcepos passes -/

namespace MdIt.Pipeline
open MdIt.Block.Tr (Call docCalls docTrace DefOnLines)
open MdIt.C13D (ChainOK useOf labelOf look linkNode isLink)
open MdIt.C11S (PlainTxt)
open MdIt.InlineOps (byteLen)

/-- a node the join pass does not touch itself: neither a text node nor an emphasis marker -/
def Solid (n : Node) : Prop := n.isText = false ∧ markerToText n = n

theorem solid_blk (k : Block.Kind) (r : Option (Nat × Nat)) (a : List (List Char × List Char)) (cs : List Node) :
    Solid ⟨.blk k, r, a, cs⟩ := ⟨rfl, rfl⟩

/-- `n` is `t` or below it, every node on the way down (`t` excluded, `n` included) being `Solid` -/
inductive SWithin : Node → Node → Prop
  | self (t : Node) : SWithin t t
  | under {n c t : Node} : c ∈ t.children → Solid c → SWithin n c → SWithin n t

theorem SWithin.within {n t : Node} (h : SWithin n t) : Within n t := by
  induction h with
  | self => exact .self _
  | under hc _ _ ih => exact .under hc ih

theorem mem_mergeLoop {x : Node} (hx : x.isText = false) : ∀ (rest : List Node) (cur : Node),
    x ∈ cur :: rest → x ∈ mergeLoop cur rest
  | [], cur, h => by simpa [mergeLoop] using h
  | nxt :: rest, cur, h => by
    simp only [mergeLoop]
    split
    · rename_i hb
      simp only [Bool.and_eq_true] at hb
      have h1 : x ≠ cur := by intro e; rw [e, hb.1] at hx; cases hx
      have h2 : x ≠ nxt := by intro e; rw [e, hb.2] at hx; cases hx
      have : x ∈ rest := by
        rcases List.mem_cons.mp h with e | h'
        · exact absurd e h1
        · rcases List.mem_cons.mp h' with e | h''
          · exact absurd e h2
          · exact h''
      exact List.mem_cons_of_mem _ (mem_mergeLoop hx rest _ (List.mem_cons_of_mem _ this))
    · rcases List.mem_cons.mp h with e | h'
      · rw [e]; exact List.mem_cons_self
      · exact List.mem_cons_of_mem _ (mem_mergeLoop hx rest nxt h')

theorem mem_fragmentsJoin {c : Node} {cs : List Node} (hc : c ∈ cs) (hs : Solid c) : c ∈ fragmentsJoin cs := by
  unfold fragmentsJoin
  refine List.mem_filter.mpr ⟨?_, by simp [keep, hs.1]⟩
  have h1 : c ∈ pass1 cs := by
    unfold pass1
    exact List.mem_map.mpr ⟨c, hc, hs.2⟩
  cases hp : pass1 cs with
  | nil => rw [hp] at h1; cases h1
  | cons d r => rw [hp] at h1; exact mem_mergeLoop hs.1 r d h1

theorem solid_join {c : Node} (hs : Solid c) : Solid (joinNode c) := by
  rw [joinNode_eq]
  obtain ⟨h1, h2⟩ := hs
  cases c with
  | mk k r a cs =>
    refine ⟨h1, ?_⟩
    unfold markerToText at h2 ⊢
    split
    · rename_i heq
      simp only at heq
      simp only [heq] at h2
      have := congrArg Node.kind h2
      simp at this
    · rfl

/-- the join pass keeps every `Solid` path -/
theorem SWithin.join {n t : Node} (h : SWithin n t) : SWithin (joinNode n) (joinNode t) := by
  induction h with
  | self => exact .self _
  | @under c t hc hs _ ih =>
    refine .under (c := joinNode c) ?_ (solid_join hs) ih
    rw [joinNode_eq (n := t), joinList_eq_map]
    exact List.mem_map.mpr ⟨c, mem_fragmentsJoin hc hs, rfl⟩

theorem mem_sourceposList {src : List Char} {marks : List SourceMap.Mark} :
    ∀ (cs cs' : List Node), sourceposList src marks cs = .ok cs' → ∀ c ∈ cs,
      ∃ c', sourceposNode src marks c = .ok c' ∧ c' ∈ cs'
  | [], _, _, c, hc => by cases hc
  | d :: ds, cs', h, c, hc => by
    simp only [sourceposList] at h
    split at h
    · cases h
    · rename_i d' hd
      split at h
      · cases h
      · rename_i ds' hds
        cases h
        rcases List.mem_cons.mp hc with rfl | hc'
        · exact ⟨d', hd, List.mem_cons_self⟩
        · obtain ⟨c', h1, h2⟩ := mem_sourceposList ds ds' hds c hc'
          exact ⟨c', h1, List.mem_cons_of_mem _ h2⟩

/-- the sourcepos pass keeps every path: the image of a node below `t` is below the image of `t` -/
theorem Within.sourcepos {src : List Char} {marks : List SourceMap.Mark} {n t : Node} (h : Within n t) :
    ∀ t', sourceposNode src marks t = .ok t' → ∃ n', sourceposNode src marks n = .ok n' ∧ Within n' t' := by
  induction h with
  | self => exact fun t' ht => ⟨t', ht, .self _⟩
  | @under c t hc _ ih =>
    intro t' ht
    cases t with
    | mk k r a cs =>
      simp only [sourceposNode] at ht
      split at ht
      · cases ht
      · rename_i a' _
        split at ht
        · cases ht
        · rename_i cs' hcs
          cases ht
          obtain ⟨c', h1, h2⟩ := mem_sourceposList cs cs' hcs c hc
          obtain ⟨n', h3, h4⟩ := ih c' h1
          exact ⟨n', h3, .under h2 h4⟩

/-- what the sourcepos pass does to a node: kind and range stay, attributes are appended to -/
theorem sourceposNode_shapeR {src : List Char} {marks : List SourceMap.Mark} {k : Kind} {r : Option (Nat × Nat)}
    {a : List (List Char × List Char)} {cs : List Node} {n' : Node}
    (h : sourceposNode src marks ⟨k, r, a, cs⟩ = .ok n') :
    ∃ a' cs', n' = ⟨k, r, a', cs'⟩ ∧ sourceposList src marks cs = .ok cs' := by
  simp only [sourceposNode] at h
  split at h
  · cases h
  · rename_i a' _
    split at h
    · cases h
    · rename_i cs' hcs
      cases h
      exact ⟨a', cs', rfl, hcs⟩

theorem sourceposList_one {src : List Char} {marks : List SourceMap.Mark} {c : Node} {cs' : List Node}
    (h : sourceposList src marks [c] = .ok cs') : ∃ c', cs' = [c'] ∧ sourceposNode src marks c = .ok c' := by
  simp only [sourceposList] at h
  split at h
  · cases h
  · rename_i c' hc
    cases h
    exact ⟨c', rfl, hc⟩

theorem sourceposList_nil {src : List Char} {marks : List SourceMap.Mark} {cs' : List Node}
    (h : sourceposList src marks [] = .ok cs') : cs' = [] := by
  simp only [sourceposList] at h; cases h; rfl

/-- `n` is `t` or a block node below it in the BLOCK tree (no placeholder on the way) -/
inductive BWithin : Block.BNode → Block.BNode → Prop
  | self (t : Block.BNode) : BWithin t t
  | under {n c t : Block.BNode} : c ∈ t.children → (∀ ct mp, c.kind ≠ .inlineRoot ct mp) → BWithin n c →
      BWithin n t

theorem mem_spliceWithList (f : List Char → List (Nat × Nat) → List Node) :
    ∀ (cs : List Block.BNode) (c : Block.BNode), c ∈ cs → (∀ ct mp, c.kind ≠ .inlineRoot ct mp) →
      spliceWith f c ∈ spliceWithList f cs
  | [], _, h, _ => by cases h
  | d :: rest, c, h, hk => by
    rw [spliceWithList]
    rcases List.mem_cons.mp h with rfl | h'
    · split
      · rename_i ct mp heq; exact absurd heq (hk ct mp)
      · exact List.mem_cons_self
    · have ih := mem_spliceWithList f rest c h' hk
      split
      · exact List.mem_append_right _ ih
      · exact List.mem_cons_of_mem _ ih

/-- the splice walk keeps the block tree's paths, and they are `Solid` -/
theorem BWithin.splice (f : List Char → List (Nat × Nat) → List Node) {p root : Block.BNode}
    (h : BWithin p root) : SWithin (spliceWith f p) (spliceWith f root) := by
  induction h with
  | self => exact .self _
  | @under c t hc hk _ ih =>
    refine .under (c := spliceWith f c) ?_ ?_ ih
    · cases t with
      | mk k r cs => simp only [spliceWith]; exact mem_spliceWithList f cs c hc hk
    · cases c with
      | mk k r cs => simp only [spliceWith]; exact solid_blk _ _ _ _

/-- the join pass leaves a node with one non-empty text child alone -/
theorem joinNode_text_child (k : Kind) (r r2 : Option (Nat × Nat)) (a a2 : List (List Char × List Char))
    (s : List Char) (hs : s ≠ []) :
    joinNode ⟨k, r, a, [⟨.inl (.text s), r2, a2, []⟩]⟩ = ⟨k, r, a, [⟨.inl (.text s), r2, a2, []⟩]⟩ := by
  have hs' : s.isEmpty = false := by cases s <;> simp_all
  rw [joinNode_eq, joinList_eq_map]
  simp only [fragmentsJoin, pass1, List.map_cons, List.map_nil, markerToText, mergeAll, mergeLoop, List.filter_cons,
    keep, Node.isText, Node.content, hs', Bool.and_false, Bool.not_false, if_true, List.filter_nil]
  rw [joinNode_eq, joinList_eq_map]
  simp [fragmentsJoin, pass1, mergeAll]

/-- … and a node whose one child is a link over one non-empty text node -/
theorem joinNode_link_child (k : Kind) (r r2 r3 : Option (Nat × Nat)) (a a2 a3 : List (List Char × List Char))
    (u : List Nat) (ti : Option (List Char)) (s : List Char) (hs : s ≠ []) :
    joinNode ⟨k, r, a, [⟨.inl (.link u ti), r2, a2, [⟨.inl (.text s), r3, a3, []⟩]⟩]⟩ =
      ⟨k, r, a, [⟨.inl (.link u ti), r2, a2, [⟨.inl (.text s), r3, a3, []⟩]⟩]⟩ := by
  rw [joinNode_eq, joinList_eq_map]
  simp only [fragmentsJoin, pass1, List.map_cons, List.map_nil, markerToText, mergeAll, mergeLoop, List.filter_cons,
    keep, Node.isText, Bool.false_and, Bool.not_false, if_true, List.filter_nil]
  rw [joinNode_text_child _ _ _ _ _ s hs]

/-- **`postPasses_link` (`postPasses_within` for the resolved use).**  A paragraph over ONE `Link` node
    over ONE non-empty text node, on a `Solid` path of the spliced tree, is in the tree the join and
    sourcepos passes return — kinds (url, title, text), ranges and child structure unchanged; only the
    `data-sourcepos` attributes (if that pass is on) are new. -/
theorem postPasses_link (cfg : DocCfg) (src : List Char) (t0 t : Node) (h : postPasses cfg src t0 = .ok t)
    (r r2 r3 : Option (Nat × Nat)) (u : List Nat) (ti : Option (List Char)) (s : List Char) (hs : s ≠ [])
    (hw : SWithin ⟨.blk .paragraph, r, [], [⟨.inl (.link u ti), r2, [], [⟨.inl (.text s), r3, [], []⟩]⟩]⟩ t0) :
    ∃ a1 a2 a3, Within ⟨.blk .paragraph, r, a1, [⟨.inl (.link u ti), r2, a2, [⟨.inl (.text s), r3, a3, []⟩]⟩]⟩ t := by
  unfold postPasses at h
  have hw1 : SWithin ⟨.blk .paragraph, r, [], [⟨.inl (.link u ti), r2, [], [⟨.inl (.text s), r3, [], []⟩]⟩]⟩
      (if cfg.hasJoin then joinNode t0 else t0) := by
    split
    · have := hw.join
      rw [joinNode_link_child _ _ _ _ _ _ _ _ _ s hs] at this
      exact this
    · exact hw
  simp only at h
  split at h
  · obtain ⟨n', h1, h2⟩ := hw1.within.sourcepos _ h
    obtain ⟨a1, cs1, rfl, hc1⟩ := sourceposNode_shapeR h1
    obtain ⟨c1, rfl, hc1'⟩ := sourceposList_one hc1
    obtain ⟨a2, cs2, rfl, hc2⟩ := sourceposNode_shapeR hc1'
    obtain ⟨c2, rfl, hc2'⟩ := sourceposList_one hc2
    obtain ⟨a3, cs3, rfl, hc3⟩ := sourceposNode_shapeR hc2'
    rw [sourceposList_nil hc3] at h2
    exact ⟨a1, a2, a3, h2⟩
  · cases h
    exact ⟨[], [], [], hw1.within⟩

/-- the same for the unresolved use: a paragraph over ONE non-empty text node -/
theorem postPasses_text (cfg : DocCfg) (src : List Char) (t0 t : Node) (h : postPasses cfg src t0 = .ok t)
    (r r2 : Option (Nat × Nat)) (s : List Char) (hs : s ≠ [])
    (hw : SWithin ⟨.blk .paragraph, r, [], [⟨.inl (.text s), r2, [], []⟩]⟩ t0) :
    ∃ a1 a2, Within ⟨.blk .paragraph, r, a1, [⟨.inl (.text s), r2, a2, []⟩]⟩ t := by
  unfold postPasses at h
  have hw1 : SWithin ⟨.blk .paragraph, r, [], [⟨.inl (.text s), r2, [], []⟩]⟩
      (if cfg.hasJoin then joinNode t0 else t0) := by
    split
    · have := hw.join
      rw [joinNode_text_child _ _ _ _ _ s hs] at this
      exact this
    · exact hw
  simp only at h
  split at h
  · obtain ⟨n', h1, h2⟩ := hw1.within.sourcepos _ h
    obtain ⟨a1, cs1, rfl, hc1⟩ := sourceposNode_shapeR h1
    obtain ⟨c1, rfl, hc1'⟩ := sourceposList_one hc1
    obtain ⟨a2, cs2, rfl, hc2⟩ := sourceposNode_shapeR hc1'
    rw [sourceposList_nil hc2] at h2
    exact ⟨a1, a2, h2⟩
  · cases h
    exact ⟨[], [], hw1.within⟩

theorem Within.trans {a b c : Node} (h1 : Within a b) (h2 : Within b c) : Within a c := by
  induction h2 with
  | self => exact h1
  | under hc _ ih => exact .under hc ih

/-- **`doc_resolves_in_tree` (C13 on the tree `parseDoc` RETURNS; closes OPEN `doc_resolves_in_tree`).**
    Hypotheses and `L` as in `doc_resolves_iff`.  For every use paragraph of the block tree — a
    `Paragraph` node (range `r`) over the placeholder of a plain use `[T]` / `[T][]` / `[T][l]`, anywhere
    in the block tree (`BWithin`: top level, in quotes, in list items, before or behind any definition) —
    the RETURNED tree `t` (after the join and sourcepos passes) contains the paragraph with that range and
    * no definition of `L` matches ⇒ its only child is the text node with the use, literally;
    * otherwise its only child is the `Link` node whose url / title are those of the matching definition
      with the SMALLEST LINE, over the one text node `T`.
    (Only the `data-sourcepos` attribute lists `a₁ a₂ a₃` depend on the configuration.) -/
theorem doc_resolves_in_tree (cfg : DocCfg) (hok : ChainOK (cfg.inlineCfg [])) (hmn : 2 ≤ cfg.maxNesting)
    (hN : ∀ s, cfg.blockCfg.N (cfg.blockCfg.N s) = cfg.blockCfg.N s)
    (src : List Char) (t : Node) (h : parseDoc cfg src = .ok t) :
    ∃ (root : Block.BNode) (refs : Refs.RefMap) (L : List (Call × Refs.Def)),
      Block.parseBlocks cfg.blockCfg src = .ok (root, refs) ∧
      L.map (fun x => (Block.RuleId.reference, x.1.start, x.1.stop)) =
        (docTrace cfg.blockCfg src).filter (fun e => e.1 = .reference) ∧
      L.Pairwise (fun x y => x.1.stop ≤ y.1.start) ∧
      (∀ x ∈ L, x.1.stop ≤ (Lines.splitLines src).length ∧
        DefOnLines cfg.blockCfg src x.1.start x.1.stop x.2) ∧
      ∀ (x : Nat) (T : List Char) (e : Option (List Char)) (r : Option (Nat × Nat)),
        T ≠ [] → PlainTxt T → PlainTxt (e.getD []) →
        BWithin ⟨.paragraph, r, [⟨.inlineRoot (useOf T e) [(0, x)], none, []⟩]⟩ root →
        let hit := fun y : Call × Refs.Def => Refs.labelMatches cfg.blockCfg.N (labelOf T e) y.2
        match L.find? hit with
        | none =>
          (∃ a1 a2, Within ⟨.blk .paragraph, r, a1,
            [⟨.inl (.text (useOf T e)), some (x, x + byteLen (useOf T e)), a2, []⟩]⟩ t) ∧
          ∀ y ∈ L, hit y = false
        | some y =>
          (∃ a1 a2 a3, Within ⟨.blk .paragraph, r, a1,
            [⟨.inl (.link y.2.entry.dest (y.2.entry.title.map (fun ti => ti.map Char.ofNat))),
              some (x, x + byteLen (useOf T e)), a2,
              [⟨.inl (.text T), some (x + 1, x + (1 + byteLen T)), a3, []⟩]⟩]⟩ t) ∧
          y ∈ L ∧ hit y = true ∧ ∀ z ∈ L, hit z = true → z = y ∨ y.1.stop ≤ z.1.start := by
  obtain ⟨root, refs, L, hb, h1, h2, h3, hpost, h5⟩ := doc_resolves_iff cfg hok hmn hN src t h
  refine ⟨root, refs, L, hb, h1, h2, h3, ?_⟩
  intro x T e r hne hT he hbw hit
  have h6 := h5 x T e hne hT he
  have hsw := hbw.splice (inlineRun (cfg.inlineCfg refs))
  rw [spliceWith_paragraph] at hsw
  simp only at h6
  have huse : useOf T e ≠ [] := by simp [useOf]
  split at h6
  · rename_i hf
    simp only [hit, hf]
    refine ⟨?_, h6.2⟩
    rw [h6.1] at hsw
    simp only [ofInlineList, ofInline, Inline.Node.newText] at hsw
    exact postPasses_text cfg src _ t hpost _ _ _ huse hsw
  · rename_i y hf
    simp only [hit, hf]
    refine ⟨?_, h6.2⟩
    rw [h6.1] at hsw
    simp only [ofInlineList, ofInline, linkNode, Inline.Node.newText] at hsw
    exact postPasses_link cfg src _ t hpost _ _ _ _ _ _ hne hsw

open MdIt.NodeRender (tA linkAttrs) in
open MdIt.HtmlDecode (asChars) in
/-- **the resolved use is rendered as an `a` element with that url and title**: a `Link` child of a node
    of a parsed tree (the paragraph of `doc_resolves_in_tree`) renders as the trait calls
    `open("a", attrs ++ [href = url] ++ [title = …]?)`, its children, `close("a")`, the url safe
    (`doc_link_render`); `doc_href_output` writes the tag piece ` href="escape_html url"`. -/
theorem resolved_use_renders (cfg : DocCfg) (src : List Char) (t : Node) (h : parseDoc cfg src = .ok t)
    (p c : Node) (hp : Within p t) (hc : c ∈ p.children) (u : List Nat) (ti : Option (List Char))
    (hk : c.kind = .inl (.link u ti)) :
    SafeUrl u ∧ ∃ body, NodeRender.render cfg.entity (toRender cfg.langPrefix c) =
      .ok ([.open tA (linkAttrs c.attrs (asChars u) ti)] ++ body ++ [.close tA]) :=
  (doc_link_render cfg src t h c ((Within.under hc (.self _)).trans hp)).1 u ti hk

/-! ## "definitions themselves produce no output" -/

/-- **`doc_definitions_no_node` (tree level).**  Every call of the reference rule the block pass of a
    document makes — each definition of `doc_resolves_iff`'s `L` is read by exactly one of them — leaves
    the children and the kind of the node under construction as they were: a definition contributes NO
    node to the block tree, hence none to the tree `parseDoc` returns and nothing to the output. -/
theorem doc_definitions_no_node {cfg : Block.Cfg} {src : List Char} {root : Block.BNode} {refs : Refs.RefMap}
    (h : Block.parseBlocks cfg src = .ok (root, refs)) :
    ∀ c ∈ docCalls cfg src, c.rule = .reference →
      c.post.children = c.pre.children ∧ c.post.nodeKind = c.pre.nodeKind := by
  obtain ⟨n, _, P⟩ := Block.Tr.parseBlocks_calls h
  intro c hc hr
  obtain ⟨f, hf⟩ := (P.good c hc).fired
  rw [hr] at hf
  exact Block.reference_no_node hf

/-- documents consisting ONLY of definitions (adjacent, blank-separated, in a quote, in a list item,
    with titles, multi-line) render to the empty string / to empty containers -/
example : renderDoc false (exCfg false 100) "[a]: /u\n[b]: /v 't'\n\n[c]:\n  <w> \"x\"".toList = .ok [] := by
  decide +kernel
example : renderDoc false (exCfg false 100) "[foo  BAR]: /u\n".toList = .ok [] := by decide +kernel
example : renderDoc false (exCfg false 100) "> [a]: /u".toList = .ok "<blockquote>\n</blockquote>\n".toList := by
  decide +kernel
/-- the rendered form of the one-paragraph-plus-definition document -/
example : renderDoc false (exCfg false 100) "[foo  BAR]\n\n[FOO bar]: /u \"t&\"".toList =
    .ok "<p><a href=\"/u\" title=\"t&amp;\">foo  BAR</a></p>\n".toList := by decide +kernel
/-- `BWithin` is satisfiable: a paragraph child of the root -/
example (p : Block.BNode) (hp : p.kind = .paragraph) (r : Option (Nat × Nat)) (rest : List Block.BNode) :
    BWithin p ⟨.root, r, p :: rest⟩ :=
  .under (by simp) (by intro ct mp h; rw [hp] at h; cases h) (.self _)

end MdIt.Pipeline

/-
OPEN (state after the follow-up).
 * CLOSED: `doc_resolves_in_tree` (tree `parseDoc` returns; `postPasses_link` / `postPasses_text`), and the
   trait-call form of the resolved use (`resolved_use_renders` through `doc_link_render`).
 * `doc_definitions_no_node` is the TREE-level form of "definitions produce no output" (every `reference` call
   of the block pass leaves children and kind untouched).  The STRING-level statements
     `doc_definitions_no_output`: a document of one-line plain definitions only renders to `""`, and
     `doc_use_rendered`: `[T]\n\n[L]: /u "t"` renders to `<p><a href="/u" title="t">T</a></p>\n`
   for ALL plain strings are still open (checked by `decide +kernel` on instances above): both need
   `refParse_simple` (symbolic `Link.parseLinkDestination` / `parseLinkTitle` on an unknown string, see the
   first OPEN item above) — not attempted in the follow-up budget —, and the second in addition the
   serialisation of a three-node tree (`renderEvents` of Paragraph[Link[Text]]: `NodeRender.render` frames
   are available through `doc_link_render`, the `escape_html` of the text child through `Props/C03`).
 * `doc_resolves_family`, `refParse_local`: unchanged.
-/
