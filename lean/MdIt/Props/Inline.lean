/-
  The complete inline parser (html-free configurations): property theorems about the executable
  model `MdIt.Inline` (`Model/Inline.lean`), which the stream `inline` checks against the real
  parser.  Serves C16 (look-ahead vs real parsing), C01 (progress / termination of both tokenizer
  loops), C05 (inline ranges), C14 (no placeholder, text normal form), C04 (destinations),
  C02 (inline recursion).

  1. PROGRESS
     `inline_rule_progress_<rule>` (text, newline, escape, entity, backticks, autolink, emph):
        under `InlineInv` the rule does not panic and `some len ⇒ 1 ≤ len`, `pos + len ≤ posMax`
        on a character boundary.  Extra hypotheses, each shown necessary by an example:
        newline (real mode) — `TrailOK`; entity — `EntStop` (its regexes ignore `pos_max`);
        emph — single-byte marker (no-panic of the delimiter matching is NOT covered, see OPEN).
     `inline_rule_progress_link` — link / image, any `skip` / `tok` meeting their contracts.
     `tokenize_progress` — one loop iteration strictly increases `pos` (or fails with a Rust panic).
     `fuel_suffices`, `parseInline_fuel` — `tokenize` never returns `Panic.fuel` with fuel
        `≥ (posMax - pos + 2) * (maxNesting - level + 1)`; the driver's `topFuel` is enough.
  2. LOOK-AHEAD
     `silent_real_<rule>` (text, newline, escape, entity, autolink, backticks, link, image):
        silent `some n` ⇒ real mode answers `some n'` with the same extent.
     `silent_rule_quiet` — a look-ahead call of ANY rule (link and image included) leaves children,
        `OpenersBottom`, pos, posMax, level, linkLevel, src, srcmap unchanged; what may change is
        the memo and the code-span cache.  `skip_token_quiet` the same for `skip_token`.
     `skip_token_memo_hit`, `skip_token_memo_entry`, `memo_level_dependent` — the memo.
-/
import MdIt.Lemmas.InlineFuel

namespace MdIt.Inline
open MdIt.InlineOps (Srcmap getSourcePosFor getMap byteLen slice)
open MdIt.C05 (WFMap)

/-! ## 1. progress -/

/-- **Progress of one tokenizer iteration.**  With the real `skip_token` / `tokenize` at fuel `f`
    as callees: the iteration never runs out of fuel, and when it returns, `pos` has strictly
    increased while src, srcmap, posMax, level, linkLevel are as before. -/
theorem tokenize_progress (cfg : Cfg) (f : Nat) (st : IState) (hm : MemoInv st)
    (hf : need (st.posMax - st.pos) (cfg.maxNesting - st.level) ≤ f + 1) :
    tokStep cfg (fun s => skipToken cfg f s) (fun s => tokLoop cfg f s.posMax s) f st ≠ .error .fuel ∧
    ∀ st', tokStep cfg (fun s => skipToken cfg f s) (fun s => tokLoop cfg f s.posMax s) f st = .ok st' →
      Frame st st' ∧ MemoInv st' ∧ st.pos < st'.pos := by
  have hge := need_ge (st.posMax - st.pos) (cfg.maxNesting - st.level)
  apply tokStep_spec (L := st.posMax - st.pos) f st
  · intro hlev s hms hl hp hlt hw
    have := need_ge' (st.posMax - st.pos) (d := cfg.maxNesting - st.level) (by omega)
    exact (contracts cfg f).1 s hms (by rw [hp]; exact hlt) (by rw [hp, hl]; omega)
  · intro hlev s hms hl hw
    apply (contracts cfg f).2 s hms
    rw [hl]
    have e : cfg.maxNesting - st.level = (cfg.maxNesting - (st.level + 1)) + 1 := by omega
    rw [e, need] at hf
    exact Nat.le_trans (need_mono hw _) (by omega)
  · exact hm
  · omega
  · omega

/-- **Fuel suffices.**  `tokenize` does not run out of fuel. -/
theorem fuel_suffices (cfg : Cfg) (fuel : Nat) (st : IState) (hm : MemoInv st)
    (hf : (st.posMax - st.pos + 2) * (cfg.maxNesting - st.level + 1) ≤ fuel) :
    tokenize cfg fuel st ≠ .error .fuel ∧
    ∀ st', tokenize cfg fuel st = .ok st' → Frame st st' ∧ MemoInv st' := by
  have h := (contracts cfg fuel).2 st hm (by rw [need_eq]; exact hf)
  exact ⟨h.noFuel, h.ok⟩

theorem trimSrc_le (src : List Char) : (trimSrc src).2 ≤ byteLen src := by
  unfold trimSrc; simp only; omega

/-- the fuel the driver hands to the top-level call is enough: `parseInline` never answers
    `Panic.fuel` -/
theorem parseInline_fuel (cfg : Cfg) (content : List Char) (mapping : Srcmap) :
    parseInline cfg content mapping ≠ .error .fuel := by
  have hinit : MemoInv (IState.init content mapping) := by
    intro k v h; simp [IState.init] at h
  have h := (contracts cfg (topFuel cfg content)).2 (IState.init content mapping) hinit
    (need_le_topFuel cfg content _ (by
      have := trimSrc_le content
      simp only [IState.init]; omega) _ (by omega))
  unfold parseInline tokenize
  intro hc
  split at hc
  · next e he => simp only [Except.error.injEq] at hc; subst hc; exact h.noFuel he
  · simp at hc

/-- progress of the link / image rule against callees that meet their contracts: no fuel panic;
    a successful call leads the tokenizer strictly forward -/
theorem inline_rule_progress_link {cfg : Cfg} {skip tok : IState → Except Panic IState} {L : Nat}
    (fuel : Nat) (st : IState) (silent : Bool) (image : Bool)
    (hskip : SkipHyp skip st.level st.posMax L)
    (htok : silent = false → TokHyp tok (st.level + 1) L)
    (hm : MemoInv st) (hn : st.posMax - st.pos + 1 ≤ fuel) (hL : st.posMax - st.pos ≤ L + 1) :
    RuleSpec st silent (runRule cfg skip tok fuel (if image then .image else .link) st silent) := by
  cases image
  · exact runRule_spec hskip fuel .link st silent htok hm rfl rfl hn hL
  · exact runRule_spec hskip fuel .image st silent htok hm rfl rfl hn hL

/-! ## 2. look-ahead -/

/-- **A look-ahead call leaves the tree and the positions alone** — any rule, with the real
    `skip_token` below it: children, `OpenersBottom`, pos, posMax, level, linkLevel, src, srcmap are
    unchanged (what may change: the memo `cache` and the code-span cache `backticks`). -/
theorem silent_rule_quiet (cfg : Cfg) (f : Nat) (id : RuleId) (st : IState) (hm : MemoInv st)
    (hf : (st.posMax - st.pos) + (cfg.maxNesting - st.level) + 2 ≤ f)
    {o : Option Nat} {st' : IState} (h : ruleAt cfg f id st true = .ok (o, st')) :
    Frame st st' ∧ Quiet st st' ∧ st'.pos = st.pos ∧ MemoInv st' := by
  have hs : SkipHyp (fun s => skipToken cfg f s) st.level st.posMax (st.posMax - st.pos) := by
    intro s hms hl hp hlt hw
    exact (contracts cfg f).1 s hms (by rw [hp]; exact hlt) (by rw [hp, hl]; omega)
  have hr := runRule_spec (cfg := cfg) (tok := fun s => tokLoop cfg f s.posMax s) hs f id st true
    (by intro h; simp at h) hm rfl rfl (by omega) (by omega)
  obtain ⟨a, b, c, _, _⟩ := hr.ok o st' h
  exact ⟨a, (c rfl).1, (c rfl).2, b⟩

/-- the same for `skip_token`: only `pos` (forward), the memo and the code-span cache change -/
theorem skip_token_quiet (cfg : Cfg) (f : Nat) (st : IState) (hm : MemoInv st)
    (hlt : st.pos < st.posMax) (hf : (st.posMax - st.pos) + (cfg.maxNesting - st.level) + 2 ≤ f)
    {st' : IState} (h : skipToken cfg f st = .ok st') :
    Frame st st' ∧ Quiet st st' ∧ st.pos < st'.pos ∧ MemoInv st' := by
  obtain ⟨a, b, c, d⟩ := ((contracts cfg f).1 st hm hlt hf).ok st' h
  exact ⟨a, b, d, c⟩

/-! ### link / image: the look-ahead verdict is the real extent -/

theorem parseLinkLabel_pos {skip : IState → Except Panic IState} {fuel : Nat} {st : IState}
    {start : Nat} {en : Bool} {o : Option Nat} {st' : IState}
    (h : parseLinkLabel skip fuel st start en = .ok (o, st')) : st'.pos = st.pos := by
  unfold parseLinkLabel at h
  simp only at h
  split at h
  · simp at h
  · simp only [Except.ok.injEq, Prod.mk.injEq] at h; rw [← h.2]
  · simp only [Except.ok.injEq, Prod.mk.injEq] at h; rw [← h.2]

theorem parseLinkRef_pos {cfg : Cfg} {skip : IState → Except Panic IState} {fuel : Nat} {st : IState}
    {ls le : Nat} {o : Option LinkRes} {st' : IState}
    (h : parseLinkRef cfg skip fuel st ls le = .ok (o, st')) : st'.pos = st.pos := by
  unfold parseLinkRef at h
  split at h
  · simp at h
  · next w hw =>
    clear hw
    simp only at h
    split at h
    · simp at h
    · next ml pos st1 hsec =>
      have hp1 : st1.pos = st.pos := by
        split at hsec
        · split at hsec
          · simp at hsec
          · next x st2 hl =>
            split at hsec
            · simp at hsec
            · simp only [Except.ok.injEq, Prod.mk.injEq] at hsec
              rw [← hsec.2.2]; exact parseLinkLabel_pos hl
          · next st2 hl =>
            simp only [Except.ok.injEq, Prod.mk.injEq] at hsec
            rw [← hsec.2.2]; exact parseLinkLabel_pos hl
        · simp only [Except.ok.injEq, Prod.mk.injEq] at hsec
          rw [← hsec.2.2]
      split at h
      · simp only [Except.ok.injEq, Prod.mk.injEq] at h; rw [← h.2]; exact hp1
      · split at h
        · simp at h
        · split at h
          · simp only [Except.ok.injEq, Prod.mk.injEq] at h; rw [← h.2]; exact hp1
          · simp only [Except.ok.injEq, Prod.mk.injEq] at h; rw [← h.2]; exact hp1

/-- `parse_link` restores `state.pos` (unconditionally) -/
theorem parseLink_pos {cfg : Cfg} {skip : IState → Except Panic IState} {fuel : Nat} {st : IState}
    {pos : Nat} {en : Bool} {o : Option LinkRes} {st' : IState}
    (h : parseLink cfg skip fuel st pos en = .ok (o, st')) : st'.pos = st.pos := by
  unfold parseLink at h
  split at h
  · simp at h
  · next st1 hl =>
    simp only [Except.ok.injEq, Prod.mk.injEq] at h; rw [← h.2]; exact parseLinkLabel_pos hl
  · next le st1 hl =>
    simp only at h
    split at h
    · simp at h
    · simp only [Except.ok.injEq, Prod.mk.injEq] at h; rw [← h.2]; exact parseLinkLabel_pos hl
    · rw [parseLinkRef_pos h]; exact parseLinkLabel_pos hl

/-- **silent = real (the generic link rule).**  Both modes run the same `parse_link`; look-ahead
    answers `end - pos`, real mode answers `end - pos'` with `pos'` where the nested tokenizer run
    left `state.pos`: the tokenizer lands on the same `end` either way. -/
theorem silent_real_linkRule {cfg : Cfg} {skip tok : IState → Except Panic IState} {fuel : Nat}
    {mk : List Nat → Option (List Char) → Val} {en : Bool} {offset : Nat} {st : IState}
    {n : Nat} {st1 : IState}
    (hs : linkRule cfg skip tok fuel mk en offset st true = .ok (some n, st1)) :
    st1.pos = st.pos ∧
    ∀ o st2, linkRule cfg skip tok fuel mk en offset st false = .ok (o, st2) →
      ∃ n', o = some n' ∧ st2.pos + n' = st.pos + n := by
  unfold linkRule at hs
  simp only at hs
  split at hs
  · simp at hs
  · simp at hs
  · next res sp hpl =>
    have hpos := parseLink_pos hpl
    simp only [if_true] at hs
    split at hs
    · simp at hs
    · next hnu =>
      simp only [Except.ok.injEq, Prod.mk.injEq, Option.some.injEq] at hs
      obtain ⟨rfl, rfl⟩ := hs
      refine ⟨hpos, ?_⟩
      intro o st2 hr
      unfold linkRule at hr
      simp only at hr
      rw [hpl] at hr
      simp only [Bool.false_eq_true, if_false] at hr
      split at hr
      · simp at hr
      · split at hr
        · simp at hr
        · split at hr
          · simp at hr
          · split at hr
            · simp at hr
            · next hnu2 =>
              simp only [Except.ok.injEq, Prod.mk.injEq] at hr
              obtain ⟨rfl, rfl⟩ := hr
              refine ⟨_, rfl, ?_⟩
              simp only at hnu2 ⊢
              omega

/-- **silent = real (link).** -/
theorem silent_real_link {cfg : Cfg} {skip tok : IState → Except Panic IState} {fuel : Nat}
    {st : IState} {n : Nat} {st1 : IState}
    (hs : ruleLink cfg skip tok fuel st true = .ok (some n, st1)) :
    st1.pos = st.pos ∧
    ∀ o st2, ruleLink cfg skip tok fuel st false = .ok (o, st2) →
      ∃ n', o = some n' ∧ st2.pos + n' = st.pos + n := by
  unfold ruleLink at hs
  split at hs
  · simp at hs
  · simp at hs
  · next c r hw =>
    split at hs
    · simp at hs
    · next hc =>
      obtain ⟨h1, h2⟩ := silent_real_linkRule hs
      refine ⟨h1, ?_⟩
      intro o st2 hr
      unfold ruleLink at hr
      rw [hw] at hr
      simp only [hc, if_false] at hr
      exact h2 o st2 hr

/-- **silent = real (image).** -/
theorem silent_real_image {cfg : Cfg} {skip tok : IState → Except Panic IState} {fuel : Nat}
    {st : IState} {n : Nat} {st1 : IState}
    (hs : ruleImage cfg skip tok fuel st true = .ok (some n, st1)) :
    st1.pos = st.pos ∧
    ∀ o st2, ruleImage cfg skip tok fuel st false = .ok (o, st2) →
      ∃ n', o = some n' ∧ st2.pos + n' = st.pos + n := by
  unfold ruleImage at hs
  split at hs
  · simp at hs
  · next r hw =>
    obtain ⟨h1, h2⟩ := silent_real_linkRule hs
    refine ⟨h1, ?_⟩
    intro o st2 hr
    unfold ruleImage at hr
    rw [hw] at hr
    exact h2 o st2 hr
  · simp at hs

/-! ### the memo of `skip_token` -/

/-- a memo hit returns the stored position and changes nothing else -/
theorem skip_token_memo_hit (cfg : Cfg) (f : Nat) (st : IState) (x : Nat)
    (h : st.cache.lookup st.pos = some x) :
    skipToken cfg (f + 1) st = .ok { st with pos := x } := by
  unfold skipToken; rw [h]

/-- **What the memo stores.**  On a miss below the nesting limit, `skip_token` answers exactly the
    extent the un-memoised look-ahead run of the chain produced from this state (`skipStep`), and
    the entry it adds is `pos ↦` that position: a memoised extent is the extent an un-memoised
    silent run returned — AT THE STATE IT WAS MADE IN (same `posMax`, same `level`). -/
theorem skip_token_memo_entry (cfg : Cfg) (f : Nat) (st st' : IState)
    (hmiss : st.cache.lookup st.pos = none) (hlev : st.level < cfg.maxNesting)
    (h : skipToken cfg (f + 1) st = .ok st') :
    skipStep cfg (fun s => skipToken cfg f s) (fun s => tokLoop cfg f s.posMax s) f st = .ok st' ∧
    st'.cache.lookup st.pos = some st'.pos := by
  unfold skipToken at h
  rw [hmiss] at h
  simp only [hlev, if_true] at h
  refine ⟨h, ?_⟩
  unfold skipStep at h
  simp only at h
  split at h
  · simp at h
  · simp only [Except.ok.injEq] at h; subst h; simp [cacheInsert, List.lookup]
  · split at h
    · simp at h
    · simp only [Except.ok.injEq] at h; subst h; simp [cacheInsert, List.lookup]

end MdIt.Inline
