/-
  The complete inline parser (html-free configurations): property theorems about the executable
  model `MdIt.Inline` (`Model/Inline.lean`), which the stream `inline` checks against the real
  parser.  Serves C16 (look-ahead vs real parsing), C01 (progress / termination of both tokenizer
  loops), C05 (inline ranges), C14 (no placeholder, text normal form), C04 (destinations),
  C02 (inline recursion).

  1. PROGRESS
     `inline_rule_progress_<rule>` (text, newline, escape, entity, backticks, autolink, emph):
        under `InlineInv` the rule does not panic and `some len ⇒ 1 ≤ len`, `pos + len ≤ posMax`
        on a character boundary.  Extra hypotheses, each shown necessary by an example:
        newline (real mode) — `TrailOK`; entity — `EntStop` (its regexes ignore `pos_max`);
        emph — single-byte marker (no-panic of the delimiter matching is NOT covered, see OPEN).
     `inline_rule_progress_link` — link / image, any `skip` / `tok` meeting their contracts;
     `inline_rule_bounds_link` — its extent is a boundary `≤ posMax` (any fuel, no hypothesis).
     `tokenize_progress` — one loop iteration strictly increases `pos` (or fails with a Rust panic).
     `fuel_suffices`, `parseInline_fuel` — `tokenize` never returns `Panic.fuel` with fuel
        `≥ (posMax - pos + 2) * (maxNesting - level + 1)`; the driver's `topFuel` is enough.
  2. LOOK-AHEAD
     `silent_real_<rule>` (text, newline, escape, entity, autolink, backticks, link, image):
        silent `some n` ⇒ real mode answers `some n'` with the same extent.
     `silent_rule_quiet` — a look-ahead call of ANY rule (link and image included) leaves children,
        `OpenersBottom`, pos, posMax, level, linkLevel, src, srcmap unchanged; what may change is
        the memo and the code-span cache.  `skip_token_quiet` the same for `skip_token`.
     `skip_token_memo_hit`, `skip_token_memo_entry`, `memo_level_dependent` — the memo.
  3. RANGES
     `inline_children_ordered`, `finish_children_ordered` — ordered, non-overlapping sibling ranges
        inside `[tr pos₀, tr pos_end]`, every node well ranged (children inside parents,
        recursively), for well-formed monotone tables whose keys are line starts (`MapOK`);
        per rule: `rule<X>_ranges` (`Lemmas/InlineRanges3..6`), emphasis: `scanAndMatch_ranges`.
  4. OUTPUT OF `finish`
     `no_placeholder_after_finish` — no `EmphMarker` at any depth, and the text normal form of C14
        at every depth: with an emphasis-like rule from `C14.join_normal_form` (`allNF_joinAllN`),
        without one from `C14.push_no_adjacent` / `pop_no_adjacent` along the run (`text_induction`).
     `link_url_from_pipeline`, `fromPipeline_safe` — every emitted url is the empty default, an
        accepted result of the inline / autolink pipeline, or a stored reference destination.

  5. NO PANIC
     `parseInline_no_panic_flat` — the whole inline parser returns a tree (no Rust panic, no fuel
        panic) for every chain without the link / image rules; `ruleEmph_total`,
        `scanAndMatch_total` — the delimiter matching does not panic.

  OPEN (not proved here):
   * no-panic of the WHOLE tokenizer WITH the link / image rules.  Proved: no fuel panic
     (`fuel_suffices`); no panic of every rule without look-ahead recursion; extent of the link
     rule (`inline_rule_bounds_link`).  Missing for the composition: memoised positions of
     `skip_token` are boundaries `≤` the CURRENT `posMax` (the memo is shared between frames with
     different `posMax`: needs "rule verdicts do not change when `posMax` shrinks to a token end"
     for every rule plus look-ahead = real tiling; the code-span part is `CodePair.cache_transparent`).
   * `skip_token_memo_sound` in the strong form "a memo hit equals a fresh look-ahead run from the
     current state" is FALSE in general (`memo_level_dependent`); true form proved:
     `skip_token_memo_entry`.  A positive theorem under "the nesting limit is never reached"
     needs a simulation between runs at different levels; not done.
-/
import MdIt.Lemmas.InlineFuel
import MdIt.Lemmas.InlineVals2
import MdIt.Lemmas.InlineRanges7
import MdIt.Lemmas.InlineLinkEnd
import MdIt.Lemmas.InlineText2
import MdIt.Lemmas.InlineNoPanic

namespace MdIt.Inline
open MdIt.InlineOps (Srcmap getSourcePosFor getMap byteLen slice)
open MdIt.C05 (WFMap)

/-! ## 1. progress -/

/-- **Progress of one tokenizer iteration.**  With the real `skip_token` / `tokenize` at fuel `f`
    as callees: the iteration never runs out of fuel, and when it returns, `pos` has strictly
    increased while src, srcmap, posMax, level, linkLevel are as before. -/
theorem tokenize_progress (cfg : Cfg) (f : Nat) (st : IState) (hm : MemoInv st)
    (hf : need (st.posMax - st.pos) (cfg.maxNesting - st.level) ≤ f + 1) :
    tokStep cfg (fun s => skipToken cfg f s) (fun s => tokLoop cfg f s.posMax s) f st ≠ .error .fuel ∧
    ∀ st', tokStep cfg (fun s => skipToken cfg f s) (fun s => tokLoop cfg f s.posMax s) f st = .ok st' →
      Frame st st' ∧ MemoInv st' ∧ st.pos < st'.pos := by
  have hge := need_ge (st.posMax - st.pos) (cfg.maxNesting - st.level)
  apply tokStep_spec (L := st.posMax - st.pos) f st
  · intro hlev s hms hl hp hlt hw
    have := need_ge' (st.posMax - st.pos) (d := cfg.maxNesting - st.level) (by omega)
    exact (contracts cfg f).1 s hms (by rw [hp]; exact hlt) (by rw [hp, hl]; omega)
  · intro hlev s hms hl hw
    apply (contracts cfg f).2 s hms
    rw [hl]
    have e : cfg.maxNesting - st.level = (cfg.maxNesting - (st.level + 1)) + 1 := by omega
    rw [e, need] at hf
    exact Nat.le_trans (need_mono hw _) (by omega)
  · exact hm
  · omega
  · omega

/-- **Fuel suffices.**  `tokenize` does not run out of fuel. -/
theorem fuel_suffices (cfg : Cfg) (fuel : Nat) (st : IState) (hm : MemoInv st)
    (hf : (st.posMax - st.pos + 2) * (cfg.maxNesting - st.level + 1) ≤ fuel) :
    tokenize cfg fuel st ≠ .error .fuel ∧
    ∀ st', tokenize cfg fuel st = .ok st' → Frame st st' ∧ MemoInv st' := by
  have h := (contracts cfg fuel).2 st hm (by rw [need_eq]; exact hf)
  exact ⟨h.noFuel, h.ok⟩

theorem trimSrc_le (src : List Char) : (trimSrc src).2 ≤ byteLen src := by
  unfold trimSrc; simp only; omega

/-- the fuel the driver hands to the top-level call is enough: `parseInline` never answers
    `Panic.fuel` -/
theorem parseInline_fuel (cfg : Cfg) (content : List Char) (mapping : Srcmap) :
    parseInline cfg content mapping ≠ .error .fuel := by
  have hinit : MemoInv (IState.init content mapping) := by
    intro k v h; simp [IState.init] at h
  have h := (contracts cfg (topFuel cfg content)).2 (IState.init content mapping) hinit
    (need_le_topFuel cfg content _ (by
      have := trimSrc_le content
      simp only [IState.init]; omega) _ (by omega))
  unfold parseInline tokenize
  intro hc
  split at hc
  · next e he => simp only [Except.error.injEq] at hc; subst hc; exact h.noFuel he
  · simp at hc

/-- progress of the link / image rule against callees that meet their contracts: no fuel panic;
    a successful call leads the tokenizer strictly forward -/
theorem inline_rule_progress_link {cfg : Cfg} {skip tok : IState → Except Panic IState} {L : Nat}
    (fuel : Nat) (st : IState) (silent : Bool) (image : Bool)
    (hskip : SkipHyp skip st.level st.posMax L)
    (htok : silent = false → TokHyp tok (st.level + 1) L)
    (hm : MemoInv st) (hn : st.posMax - st.pos + 1 ≤ fuel) (hL : st.posMax - st.pos ≤ L + 1) :
    RuleSpec st silent (runRule cfg skip tok fuel (if image then .image else .link) st silent) := by
  cases image
  · exact runRule_spec hskip fuel .link st silent htok hm rfl rfl hn hL
  · exact runRule_spec hskip fuel .image st silent htok hm rfl rfl hn hL

/-- **the extent of the link / image rule**: in either mode, with the real `skip_token` below it and
    at any fuel, the position the tokenizer continues from after a successful call (`pos' + len`;
    real mode leaves `pos'` at the label end) is a character boundary `≤ posMax`; together with
    `inline_rule_progress_link` (`pos < pos' + len`) this is the progress statement of the other
    rules.  No hypothesis on the state: the scan itself ends on `)` / `]` it has sliced. -/
theorem inline_rule_bounds_link (cfg : Cfg) (f : Nat) (st : IState) (silent : Bool) (image : Bool)
    {len : Nat} {st' : IState}
    (h : ruleAt cfg f (if image then .image else .link) st silent = .ok (some len, st')) :
    st'.pos + len ≤ st.posMax ∧ Boundary st.src (st'.pos + len) := by
  unfold ruleAt runRule at h
  cases image
  · simp only [Bool.false_eq_true, if_false] at h
    unfold ruleLink at h
    split at h
    · simp at h
    · simp at h
    · split at h
      · simp at h
      · exact linkRule_bounds (skipToken_calm cfg f) h
  · simp only [if_true] at h
    unfold ruleImage at h
    split at h
    · simp at h
    · exact linkRule_bounds (skipToken_calm cfg f) h
    · simp at h

/-! ## 2. look-ahead -/

/-- **A look-ahead call leaves the tree and the positions alone** — any rule, with the real
    `skip_token` below it: children, `OpenersBottom`, pos, posMax, level, linkLevel, src, srcmap are
    unchanged (what may change: the memo `cache` and the code-span cache `backticks`). -/
theorem silent_rule_quiet (cfg : Cfg) (f : Nat) (id : RuleId) (st : IState) (hm : MemoInv st)
    (hf : (st.posMax - st.pos) + (cfg.maxNesting - st.level) + 2 ≤ f)
    {o : Option Nat} {st' : IState} (h : ruleAt cfg f id st true = .ok (o, st')) :
    Frame st st' ∧ Quiet st st' ∧ st'.pos = st.pos ∧ MemoInv st' := by
  have hs : SkipHyp (fun s => skipToken cfg f s) st.level st.posMax (st.posMax - st.pos) := by
    intro s hms hl hp hlt hw
    exact (contracts cfg f).1 s hms (by rw [hp]; exact hlt) (by rw [hp, hl]; omega)
  have hr := runRule_spec (cfg := cfg) (tok := fun s => tokLoop cfg f s.posMax s) hs f id st true
    (by intro h; simp at h) hm rfl rfl (by omega) (by omega)
  obtain ⟨a, b, c, _, _⟩ := hr.ok o st' h
  exact ⟨a, (c rfl).1, (c rfl).2, b⟩

/-- the same for `skip_token`: only `pos` (forward), the memo and the code-span cache change -/
theorem skip_token_quiet (cfg : Cfg) (f : Nat) (st : IState) (hm : MemoInv st)
    (hlt : st.pos < st.posMax) (hf : (st.posMax - st.pos) + (cfg.maxNesting - st.level) + 2 ≤ f)
    {st' : IState} (h : skipToken cfg f st = .ok st') :
    Frame st st' ∧ Quiet st st' ∧ st.pos < st'.pos ∧ MemoInv st' := by
  obtain ⟨a, b, c, d⟩ := ((contracts cfg f).1 st hm hlt hf).ok st' h
  exact ⟨a, b, d, c⟩

/-! ### link / image: the look-ahead verdict is the real extent -/

/-- **silent = real (the generic link rule).**  Both modes run the same `parse_link`; look-ahead
    answers `end - pos`, real mode answers `end - pos'` with `pos'` where the nested tokenizer run
    left `state.pos`: the tokenizer lands on the same `end` either way. -/
theorem silent_real_linkRule {cfg : Cfg} {skip tok : IState → Except Panic IState} {fuel : Nat}
    {mk : List Nat → Option (List Char) → Val} {en : Bool} {offset : Nat} {st : IState}
    {n : Nat} {st1 : IState}
    (hs : linkRule cfg skip tok fuel mk en offset st true = .ok (some n, st1)) :
    st1.pos = st.pos ∧
    ∀ o st2, linkRule cfg skip tok fuel mk en offset st false = .ok (o, st2) →
      ∃ n', o = some n' ∧ st2.pos + n' = st.pos + n := by
  unfold linkRule at hs
  simp only at hs
  split at hs
  · simp at hs
  · simp at hs
  · next res sp hpl =>
    have hpos := parseLink_pos hpl
    simp only [if_true] at hs
    split at hs
    · simp at hs
    · next hnu =>
      simp only [Except.ok.injEq, Prod.mk.injEq, Option.some.injEq] at hs
      obtain ⟨rfl, rfl⟩ := hs
      refine ⟨hpos, ?_⟩
      intro o st2 hr
      unfold linkRule at hr
      simp only at hr
      rw [hpl] at hr
      simp only [Bool.false_eq_true, if_false] at hr
      split at hr
      · simp at hr
      · split at hr
        · simp at hr
        · split at hr
          · simp at hr
          · split at hr
            · simp at hr
            · next hnu2 =>
              simp only [Except.ok.injEq, Prod.mk.injEq] at hr
              obtain ⟨rfl, rfl⟩ := hr
              refine ⟨_, rfl, ?_⟩
              simp only at hnu2 ⊢
              omega

/-- **silent = real (link).** -/
theorem silent_real_link {cfg : Cfg} {skip tok : IState → Except Panic IState} {fuel : Nat}
    {st : IState} {n : Nat} {st1 : IState}
    (hs : ruleLink cfg skip tok fuel st true = .ok (some n, st1)) :
    st1.pos = st.pos ∧
    ∀ o st2, ruleLink cfg skip tok fuel st false = .ok (o, st2) →
      ∃ n', o = some n' ∧ st2.pos + n' = st.pos + n := by
  unfold ruleLink at hs
  split at hs
  · simp at hs
  · simp at hs
  · next c r hw =>
    split at hs
    · simp at hs
    · next hc =>
      obtain ⟨h1, h2⟩ := silent_real_linkRule hs
      refine ⟨h1, ?_⟩
      intro o st2 hr
      unfold ruleLink at hr
      rw [hw] at hr
      simp only [hc, if_false] at hr
      exact h2 o st2 hr

/-- **silent = real (image).** -/
theorem silent_real_image {cfg : Cfg} {skip tok : IState → Except Panic IState} {fuel : Nat}
    {st : IState} {n : Nat} {st1 : IState}
    (hs : ruleImage cfg skip tok fuel st true = .ok (some n, st1)) :
    st1.pos = st.pos ∧
    ∀ o st2, ruleImage cfg skip tok fuel st false = .ok (o, st2) →
      ∃ n', o = some n' ∧ st2.pos + n' = st.pos + n := by
  unfold ruleImage at hs
  split at hs
  · simp at hs
  · next r hw =>
    obtain ⟨h1, h2⟩ := silent_real_linkRule hs
    refine ⟨h1, ?_⟩
    intro o st2 hr
    unfold ruleImage at hr
    rw [hw] at hr
    exact h2 o st2 hr
  · simp at hs

/-! ### the memo of `skip_token` -/

/-- a memo hit returns the stored position and changes nothing else -/
theorem skip_token_memo_hit (cfg : Cfg) (f : Nat) (st : IState) (x : Nat)
    (h : st.cache.lookup st.pos = some x) :
    skipToken cfg (f + 1) st = .ok { st with pos := x } := by
  unfold skipToken; rw [h]

/-- **What the memo stores.**  On a miss below the nesting limit, `skip_token` answers exactly the
    extent the un-memoised look-ahead run of the chain produced from this state (`skipStep`), and
    the entry it adds is `pos ↦` that position: a memoised extent is the extent an un-memoised
    silent run returned — AT THE STATE IT WAS MADE IN (same `posMax`, same `level`). -/
theorem skip_token_memo_entry (cfg : Cfg) (f : Nat) (st st' : IState)
    (hmiss : st.cache.lookup st.pos = none) (hlev : st.level < cfg.maxNesting)
    (h : skipToken cfg (f + 1) st = .ok st') :
    skipStep cfg (fun s => skipToken cfg f s) (fun s => tokLoop cfg f s.posMax s) f st = .ok st' ∧
    st'.cache.lookup st.pos = some st'.pos := by
  unfold skipToken at h
  rw [hmiss] at h
  simp only [hlev, if_true] at h
  refine ⟨h, ?_⟩
  unfold skipStep at h
  simp only at h
  split at h
  · simp at h
  · simp only [Except.ok.injEq] at h; subst h; simp [cacheInsert, List.lookup]
  · split at h
    · simp at h
    · simp only [Except.ok.injEq] at h; subst h; simp [cacheInsert, List.lookup]

/-! ## 4. the output of `finish` -/

/-- the value is not the parser-internal placeholder `EmphMarker` -/
def NotMarker : Val → Prop
  | .emphMarker _ _ _ _ _ => False
  | _ => True

theorem allValsList_erase_aux (k : Nat) :
    (∀ n, nsize n ≤ k → C14.AllNF (erase n) → AllValsList NotMarker n.children) := by
  induction k with
  | zero => intro n hn; rw [nsize_eq] at hn; omega
  | succ k ih =>
    intro n hn h
    rw [C14.AllNF_eq, erase_children] at h
    obtain ⟨hnf, hall⟩ := h
    rw [allValsList_iff]
    intro c hc
    rw [AllVals_eq]
    constructor
    · have := hnf.noMarker (erase c) (by rw [eraseList_eq_map]; exact List.mem_map_of_mem hc)
      rw [erase_isMarker] at this
      cases hv : c.val <;> simp_all [NotMarker]
    · apply ih
      · rw [nsize_eq] at hn; have := nsize_le_of_mem hc; omega
      · -- `AllNFList` of the erased children gives `AllNF` of each
        have hmem : ∀ (l : List Node), C14.AllNFList (eraseList l) → ∀ x ∈ l, C14.AllNF (erase x) := by
          intro l
          induction l with
          | nil => intro _ x hx; simp at hx
          | cons y ys ihl =>
            intro hl x hx
            simp only [eraseList, C14.AllNFList] at hl
            rcases List.mem_cons.mp hx with rfl | hx'
            · exact hl.1
            · exact ihl hl.2 x hx'
        exact hmem _ hall c hc

theorem notMarker_good (cfg : Cfg) (h : cfg.hasEmph = false) : GoodP cfg NotMarker := by
  have hno : ∀ mk csw, RuleId.emph mk csw ∉ cfg.chain := by
    intro mk csw hmem
    unfold Cfg.hasEmph at h
    rw [List.any_eq_false] at h
    have := h _ hmem
    simp [RuleId.isEmph] at this
  exact ⟨fun _ => trivial, fun _ _ _ => trivial, trivial, trivial, fun _ _ => trivial,
    fun _ _ _ _ => trivial, fun _ _ _ => trivial, fun _ _ _ => trivial,
    fun mk csw hm => absurd hm (hno mk csw), fun _ _ _ _ => trivial,
    fun _ _ _ _ _ _ h => h⟩

theorem parseInline_vals (cfg : Cfg) {P : Val → Prop} (g : GoodP cfg P) {content : List Char}
    {mapping : Srcmap} {cs : List Node} (h : parseInline cfg content mapping = .ok cs) :
    AllValsList P cs := by
  unfold parseInline tokenize at h
  split at h
  · simp at h
  · next st hst =>
    simp only [Except.ok.injEq] at h; subst h
    exact (vals_induction cfg g _).2 _ _ _ hst (by unfold ValsOK IState.init; trivial)

theorem normalForm_of {l : List Node} (hv : AllValsList NotMarker l) (ht : TOK l) :
    C14.NormalForm (eraseList l) := by
  refine ⟨?_, ht.noEmpty, ht.noAdj⟩
  intro n hn
  rw [eraseList_eq_map] at hn
  obtain ⟨a, ha, rfl⟩ := List.mem_map.mp hn
  have := ((AllVals_eq NotMarker a).mp ((allValsList_iff _ _).mp hv a ha)).1
  rw [erase_isMarker]
  cases hval : a.val <;> simp_all [NotMarker]

theorem allNF_of_aux (k : Nat) :
    ∀ n, nsize n ≤ k → AllVals NotMarker n → DeepTOK n → C14.AllNF (erase n) := by
  induction k with
  | zero => intro n hn; rw [nsize_eq] at hn; omega
  | succ k ih =>
    intro n hn hv ht
    rw [C14.AllNF_eq, erase_children]
    rw [AllVals_eq] at hv
    rw [DeepTOK_eq] at ht
    refine ⟨normalForm_of hv.2 ht.1, ?_⟩
    have hmem : ∀ (l : List Node), (∀ x ∈ l, C14.AllNF (erase x)) → C14.AllNFList (eraseList l) := by
      intro l
      induction l with
      | nil => intro _; simp [eraseList, C14.AllNFList]
      | cons y ys ihl =>
        intro hl
        simp only [eraseList, C14.AllNFList]
        exact ⟨hl y (by simp), ihl (fun x hx => hl x (by simp [hx]))⟩
    apply hmem
    intro x hx
    apply ih
    · rw [nsize_eq] at hn; have := nsize_le_of_mem hx; omega
    · exact (allValsList_iff _ _).mp hv.2 x hx
    · exact (deepTOKList_iff _).mp ht.2 x hx

/-- **No placeholder after `finish`; text normal form.**  The output of the inline parser + post
    pass contains no `EmphMarker` at any depth, and every sibling list of the output, at every
    depth, is in the text normal form of C14 — no marker, no empty `Text`, no two adjacent `Text`s.
    With an emphasis-like rule configured this is `C14.join_normal_form` for `FragmentsJoin::run`
    (through the projection `erase`); without one no join runs and the raw tokenizer output is
    already in normal form (`C14.push_no_adjacent`, `C14.pop_no_adjacent` along the run). -/
theorem no_placeholder_after_finish (cfg : Cfg) {content : List Char} {mapping : Srcmap}
    {cs : List Node} (h : parseFinish cfg content mapping = .ok cs) :
    AllValsList NotMarker cs ∧ C14.NormalForm (eraseList cs) ∧ C14.AllNFList (eraseList cs) := by
  unfold parseFinish at h
  split at h
  · simp at h
  · next cs0 hp =>
    simp only [Except.ok.injEq] at h; subst h
    unfold finish
    cases he : cfg.hasEmph with
    | true =>
      simp only [if_true]
      have hnf := allNF_joinAllN (rootOf cs0)
      refine ⟨allValsList_erase_aux _ _ (Nat.le_refl _) hnf, ?_⟩
      rw [C14.AllNF_eq, erase_children] at hnf
      exact hnf
    | false =>
      simp only [Bool.false_eq_true, if_false]
      have hv := parseInline_vals cfg (notMarker_good cfg he) hp
      have hne : ∀ id ∈ cfg.chain, id.isEmph = false := by
        intro id hid
        unfold Cfg.hasEmph at he
        rw [List.any_eq_false] at he
        have := he id hid
        simpa using this
      have ht : TOK cs0 ∧ DeepTOKList cs0 := by
        unfold parseInline tokenize at hp
        split at hp
        · simp at hp
        · next st hst =>
          simp only [Except.ok.injEq] at hp; subst hp
          exact text_induction cfg hne _ _ _ _ hst ⟨tok_nil, trivial⟩
      have hroot : C14.AllNF (erase (rootOf cs0)) :=
        allNF_of_aux _ _ (Nat.le_refl _) (by rw [AllVals_eq]; exact ⟨trivial, hv⟩)
          (by rw [DeepTOK_eq]; exact ht)
      rw [C14.AllNF_eq, erase_children] at hroot
      exact ⟨hv, hroot⟩

/-- where an emitted url comes from: the empty default, the inline pipeline, the autolink
    pipeline, or the reference map -/
def FromPipeline (cfg : Cfg) (u : List Nat) : Prop :=
  u = [] ∨ (∃ raw, Link.inlineDest (Entity.unescapeAll cfg.entity) raw = some u) ∨
  (∃ b url, Link.autolinkDest b url = some u) ∨
  (∃ m k e, cfg.refs = some m ∧ (k, e) ∈ m ∧ e.dest = u)

/-- the url of a link / image / autolink value comes out of a pipeline -/
def UrlP (cfg : Cfg) : Val → Prop
  | .link u _ => FromPipeline cfg u
  | .image u _ => FromPipeline cfg u
  | .autolink u => FromPipeline cfg u
  | _ => True

theorem hrefOK_fromPipeline {cfg : Cfg} {href : Option (List Nat)} (h : HrefOK cfg href) :
    FromPipeline cfg (href.getD []) := by
  rcases h with rfl | ⟨raw, hraw⟩ | ⟨m, k, e, hm, hmem, rfl⟩
  · left; rfl
  · cases href with
    | none => left; rfl
    | some u => right; left; exact ⟨raw, hraw⟩
  · right; right; right; exact ⟨m, k, e, hm, hmem, rfl⟩

theorem urlP_good (cfg : Cfg) : GoodP cfg (UrlP cfg) :=
  ⟨fun _ => trivial, fun _ _ _ => trivial, trivial, trivial, fun _ _ => trivial,
   fun b url u h => Or.inr (Or.inr (Or.inl ⟨b, url, h⟩)),
   fun _ _ h => hrefOK_fromPipeline h, fun _ _ h => hrefOK_fromPipeline h,
   fun _ _ _ _ _ _ _ => trivial, fun _ _ _ _ => trivial, fun _ _ _ _ _ _ _ => trivial⟩

/-- **Every emitted destination went through a pipeline.**  In the output of the inline parser +
    post pass, every `Link` / `Image` / `Autolink` url, at any depth, is the empty default, an
    ACCEPTED result of `Link.inlineDest` (decode → `normalize_link` → `validate_link`), an accepted
    result of `Link.autolinkDest`, or a destination stored in the reference map. -/
theorem link_url_from_pipeline (cfg : Cfg) {content : List Char} {mapping : Srcmap}
    {cs : List Node} (h : parseFinish cfg content mapping = .ok cs) : AllValsList (UrlP cfg) cs := by
  unfold parseFinish at h
  split at h
  · simp at h
  · next cs0 hp =>
    simp only [Except.ok.injEq] at h; subst h
    have h0 := parseInline_vals cfg (urlP_good cfg) hp
    unfold finish
    split
    · have : AllVals (UrlP cfg) (rootOf cs0) := by rw [AllVals_eq]; exact ⟨trivial, h0⟩
      have := joinAllN_vals (fun _ => trivial) this
      rw [AllVals_eq] at this; exact this.2
    · exact h0

/-- what the pipelines guarantee (`C04`): the url is `normalize_link` of something and passed
    `validate_link`; hence no browser treats it as `javascript:` / `vbscript:` / `file:` / a
    non-image `data:` url -/
theorem fromPipeline_safe {cfg : Cfg} {u : List Nat} (h : FromPipeline cfg u)
    (hrefs : ∀ m k e, cfg.refs = some m → (k, e) ∈ m →
      (∃ s, e.dest = Link.normalizeLink s) ∧ Link.validateLink e.dest = true ∧
        Link.dangerous e.dest = false) :
    (∃ s, u = Link.normalizeLink s) ∧ Link.validateLink u = true ∧ Link.dangerous u = false := by
  rcases h with rfl | ⟨raw, hraw⟩ | ⟨b, url, hurl⟩ | ⟨m, k, e, hm, hmem, rfl⟩
  · exact ⟨⟨[], by decide +kernel⟩, by decide +kernel, by decide +kernel⟩
  · refine ⟨?_, ?_, Link.pipeline_safe _ _ _ hraw⟩
    · unfold Link.inlineDest at hraw
      simp only at hraw
      split at hraw
      · simp only [Option.some.injEq] at hraw; exact ⟨_, hraw.symm⟩
      · simp at hraw
    · unfold Link.inlineDest at hraw
      simp only at hraw
      split at hraw
      · next hv => simp only [Option.some.injEq] at hraw; rw [← hraw]; exact hv
      · simp at hraw
  · refine ⟨?_, ?_, Link.pipeline_safe_autolink _ _ _ hurl⟩
    · unfold Link.autolinkDest at hurl
      cases b <;> simp only [Bool.false_eq_true, if_false, if_true] at hurl <;> split at hurl
      · simp only [Option.some.injEq] at hurl; exact ⟨_, hurl.symm⟩
      · simp at hurl
      · simp only [Option.some.injEq] at hurl; exact ⟨_, hurl.symm⟩
      · simp at hurl
    · unfold Link.autolinkDest at hurl
      cases b <;> simp only [Bool.false_eq_true, if_false, if_true] at hurl <;> split at hurl
      · next hv => simp only [Option.some.injEq] at hurl; rw [← hurl]; exact hv
      · simp at hurl
      · next hv => simp only [Option.some.injEq] at hurl; rw [← hurl]; exact hv
      · simp at hurl
  · exact hrefs m k e hm hmem

/-! ## 3. source ranges -/

/-- **The children the inline parser produces have ordered, non-overlapping ranges.**
    For a per-line table that is well formed, monotone (`C05.MonoMap`, so `C05.translate_mono`
    applies) and whose keys are line starts of the inline text (`KeysAfterLF`): the children list
    `tokenize` builds lies, in order and without overlap, inside `[tr pos₀, tr pos_end]`, where
    `pos₀` is where `trim_src` put the cursor and `pos_end` where the loop stopped; and every node
    is well ranged — its own children lie inside its range, ordered, recursively (wrappers made by
    the delimiter matching, link / image labels, code-span and autolink texts).  No fuel bound and
    no no-panic hypothesis is needed: the statement is about every successful run. -/
theorem inline_children_ordered (cfg : Cfg) {content : List Char} {mapping : Srcmap}
    (hm : MapOK content mapping) {cs : List Node} (h : parseInline cfg content mapping = .ok cs) :
    ∃ lo hi posEnd, getSourcePosFor mapping (trimSrc content).1 = .ok lo ∧
      getSourcePosFor mapping posEnd = .ok hi ∧ OrderedN lo hi cs ∧ WellRangedList cs := by
  unfold parseInline tokenize at h
  split at h
  · simp at h
  · next st hst =>
    simp only [Except.ok.injEq] at h; subst h
    obtain ⟨lo, hlo⟩ := C05.translate_total mapping hm.wf (trimSrc content).1
    have hinit : RInv lo (IState.init content mapping) :=
      ⟨⟨lo, hlo, Nat.le_refl _⟩, trivial, markersOK_nil, by intro init last hcs; simp [IState.init] at hcs⟩
    obtain ⟨hs, hmm, hri⟩ := ranges_induction cfg _ _ lo _ _ hm hst hinit
    obtain ⟨hi, hhi, hord⟩ := hri.ord
    have e1 : st.srcmap = mapping := hmm
    rw [e1] at hhi
    exact ⟨lo, hi, st.pos, hlo, hhi, hord, hri.deep⟩

/-- the same for the output of `finish` (the post pass keeps order and enclosure) -/
theorem finish_children_ordered (cfg : Cfg) {content : List Char} {mapping : Srcmap}
    (hm : MapOK content mapping) {cs : List Node} (h : parseFinish cfg content mapping = .ok cs) :
    ∃ lo hi posEnd, getSourcePosFor mapping (trimSrc content).1 = .ok lo ∧
      getSourcePosFor mapping posEnd = .ok hi ∧ OrderedN lo hi cs ∧ WellRangedList cs := by
  unfold parseFinish at h
  split at h
  · simp at h
  · next cs0 hp =>
    simp only [Except.ok.injEq] at h; subst h
    obtain ⟨lo, hi, pe, h1, h2, h3, h4⟩ := inline_children_ordered cfg hm hp
    refine ⟨lo, hi, pe, h1, h2, ?_⟩
    unfold finish
    split
    · exact od_finish_join ⟨h3, h4⟩
    · exact ⟨h3, h4⟩

/-! ## 5. no panic -/

/-- **The inline parser does not panic** for every chain without the link and image rules (text,
    newline, escape, entity, code spans, autolinks, emphasis-like pairs with single-byte markers, in
    any order; any `max_nesting`) on every content whose per-line table is `MapOK`: `parseInline`
    returns a tree (no Rust panic, no fuel panic).  Composition of `inline_rule_progress_<rule>`,
    `ruleEmph_total` (delimiter matching), the range invariant (which provides `TrailOK` for the
    newline rule) and `EntStop` at the trimmed end.  With the link / image rules the composition
    additionally needs the memo of `skip_token` to hold positions `≤` the CURRENT `posMax` — OPEN,
    see the header. -/
theorem parseInline_no_panic_flat (cfg : Cfg)
    (hsz : ∀ mk csw, RuleId.emph mk csw ∈ cfg.chain → mk.utf8Size = 1)
    (hflat : ∀ id ∈ cfg.chain, id.isFlat = true) {content : List Char} {mapping : Srcmap}
    (hm : MapOK content mapping) : ∃ cs, parseInline cfg content mapping = .ok cs := by
  obtain ⟨lo, _, hg⟩ := init_good hm
  have hfuel : (IState.init content mapping).posMax - (IState.init content mapping).pos
      ≤ topFuel cfg content := by
    have h1 := trimSrc_le content
    have h2 : byteLen content + 2 ≤ topFuel cfg content := by
      unfold topFuel
      calc byteLen content + 2 = (byteLen content + 2) * 1 := by omega
        _ ≤ (byteLen content + 2) * (cfg.maxNesting + 2) := Nat.mul_le_mul_left _ (by omega)
    show (trimSrc content).2 - (trimSrc content).1 ≤ topFuel cfg content
    omega
  obtain ⟨st', h, _⟩ := tokLoop_flat hsz hflat (topFuel cfg content) _ hg hfuel
  exact ⟨st'.children, by unfold parseInline tokenize; rw [h]⟩

/-! ## non-vacuity examples -/

/-- a small configuration for examples: every rule, `*` emphasis, no tables -/
def exCfg (maxNesting : Nat) : Cfg :=
  { maxNesting := maxNesting,
    chain := [.text, .newline, .escape, .backticks, .emph '*' true, .link, .linkEnd, .image,
              .autolink, .entity],
    fns := fun m i => if m = '*' then (if i = 0 then some .em else if i = 1 then some .strong else none) else none,
    refs := none, normRef := id,
    entity := fun s => if s = "&amp;".toList then some ['&'] else none,
    isWhite := fun c => c == ' ' || c == '\n', isPunctChar := fun _ => false }

def exSrc : List Char := "a&amp;\n`c` <xx:y> \\* *e*".toList

/-- `exSrc` with the cursor at byte `pos` (all characters are single bytes) -/
def exSt (pos : Nat) : IState := { IState.init exSrc [(0, 0)] with pos := pos }

theorem exInv : InlineInv (exSt 1) := by
  refine ⟨by decide +kernel, ⟨exSrc.take 1, exSrc.drop 1, by decide +kernel, by decide +kernel⟩,
    ⟨exSrc, [], by decide +kernel, by decide +kernel⟩, ⟨⟨0, [], rfl⟩, by decide +kernel⟩⟩

def verdict (r : SRes) : Except RPanic (Option Nat) :=
  match r with
  | .ok (o, _) => .ok o
  | .error e => .error e

-- every `inline_rule_progress_<rule>` / `silent_real_<rule>` has instances with a `some` verdict:
example : verdict (ruleText (exSt 0) true) = .ok (some 1) ∧ verdict (ruleText (exSt 0) false) = .ok (some 1) := by
  decide +kernel
example : verdict (ruleEntity (exCfg 100) (exSt 1) true) = .ok (some 5) ∧
    verdict (ruleEntity (exCfg 100) (exSt 1) false) = .ok (some 5) := by decide +kernel
example : verdict (ruleNewline (exSt 6) true) = .ok (some 1) ∧ verdict (ruleNewline (exSt 6) false) = .ok (some 1) := by
  decide +kernel
example : verdict (ruleBackticks (exSt 7) true) = .ok (some 3) ∧
    verdict (ruleBackticks (exSt 7) false) = .ok (some 3) := by decide +kernel
example : verdict (ruleAutolink (exSt 11) true) = .ok (some 6) ∧
    verdict (ruleAutolink (exSt 11) false) = .ok (some 6) := by decide +kernel
example : verdict (ruleEscape (exSt 18) true) = .ok (some 2) ∧ verdict (ruleEscape (exSt 18) false) = .ok (some 2) := by
  decide +kernel
example : verdict (ruleEmph (exCfg 100) '*' true (exSt 21) true) = .ok none ∧
    verdict (ruleEmph (exCfg 100) '*' true (exSt 21) false) = .ok (some 1) := by decide +kernel
-- `EntStop` holds for the example (`posMax` is the end of the text) …
example : EntStop (exSt 1).src (exSt 1).posMax := by
  intro pre c post hs hl
  have h1 : byteLen (exSt 1).src = 24 := by decide +kernel
  have h2 : (exSt 1).posMax = 24 := by decide +kernel
  have := congrArg byteLen hs
  rw [C05.byteLen_append, hl, h1, h2] at this
  have := Char.utf8Size_pos c
  simp only [byteLen] at *; omega
-- … and is needed: with `posMax` inside the reference the rule answers an extent beyond it
example : verdict (ruleEntity (exCfg 100) { exSt 1 with posMax := 3 } true) = .ok (some 5) := by
  decide +kernel
-- `TrailOK` is needed by the newline rule in real mode: a trailing text whose range end is
-- smaller than the number of blanks to cut makes `map_end - count` underflow
example : verdict (ruleNewline { exSt 6 with children := [Node.newText "x   ".toList (some (0, 2))] } false)
    = .error .underflow := by decide +kernel

-- `MapOK` is satisfiable for a two-line text (second line behind a block-quote marker in the
-- source), and the produced ranges are what `inline_children_ordered` says:
theorem exMapOK : MapOK "a *b*\nc".toList [(0, 0), (6, 8)] := by
  refine ⟨⟨⟨0, _, rfl⟩, by decide⟩, ?_, ?_⟩
  · intro i k1 v1 k2 v2 h1 h2
    match i, h1, h2 with
    | 0, h1, h2 =>
      simp only [List.getElem?_cons_zero, List.getElem?_cons_succ, Option.some.injEq, Prod.mk.injEq] at h1 h2
      omega
    | 1, h1, h2 => simp at h2
    | n + 2, h1, h2 => simp at h1
  · intro i k v h hk
    match i, h with
    | 0, h => simp only [List.getElem?_cons_zero, Option.some.injEq, Prod.mk.injEq] at h; omega
    | 1, h =>
      simp only [List.getElem?_cons_succ, List.getElem?_cons_zero, Option.some.injEq, Prod.mk.injEq] at h
      obtain ⟨rfl, rfl⟩ := h
      exact ⟨"a *b*".toList, "c".toList, by decide, by decide +kernel⟩
    | n + 2, h => simp at h

example : (match parseInline (exCfg 100) "a *b*\nc".toList [(0, 0), (6, 8)] with
    | .ok cs => cs.map (fun n => (n.range, n.children.map (·.range)))
    | .error _ => []) =
    [(some (0, 2), []), (some (2, 5), [some (3, 4)]), (some (5, 8), []), (some (8, 9), [])] := by
  decide +kernel

-- `parseInline_no_panic_flat` applies to a chain with emphasis, code spans, entities, … :
example : ∃ cs, parseInline { exCfg 100 with chain := [.text, .newline, .escape, .backticks,
      .emph '*' true, .autolink, .entity] } "a *b*\nc".toList [(0, 0), (6, 8)] = .ok cs := by
  apply parseInline_no_panic_flat _ _ _ exMapOK
  · intro mk csw h
    simp only [List.mem_cons, RuleId.emph.injEq, reduceCtorEq, List.mem_nil_iff, or_false, false_or] at h
    rw [h.1]; decide
  · intro id h
    simp only [List.mem_cons, List.mem_nil_iff, or_false] at h
    rcases h with rfl | rfl | rfl | rfl | rfl | rfl | rfl <;> rfl

/-- the projection of a result to its node values (for examples) -/
def vals (r : Except Panic (List Node)) : Except Panic (List Val) :=
  match r with
  | .ok cs => .ok (cs.map (·.val))
  | .error e => .error e

-- `parseInline` on a text with several constructs (so `no_placeholder_after_finish`,
-- `link_url_from_pipeline`, `fuel_suffices` are about non-trivial runs):
example : vals (parseInline (exCfg 100) "*a* [b](/u) <xx:y>".toList [(0, 0)]) =
    .ok [.wrap .em '*', .text [' '], .link [47, 117] none, .text [' '], .autolink [120, 120, 58, 121]] := by
  decide +kernel

/-- **The memo of `skip_token` is keyed by position only, but what it stores depends on `level`.**
    `[[a](b)](c)` with `max_nesting = 1`: the look-ahead for the outer label reaches `[` at 1 at
    level 1, whose own label scan calls `skip_token` at position 2 OVER the limit: that call jumps to
    `pos_max` and memoises `2 ↦ 11`.  When the tokenizer later stands at 1 (level 0) and asks
    again, the entry answers `11` where an un-memoised run at level 0 answers `3` — so the link
    `[a](b)`, which IS recognised on its own with the same limit, is not recognised here. -/
theorem memo_level_dependent :
    -- the entry is made at level 1 (over the limit) …
    (skipToken (exCfg 1) 40 { IState.init "[[a](b)](c)".toList [(0, 0)] with pos := 2, level := 1 }).map
        (fun s => (s.pos, s.cache)) = .ok (11, [(2, 11)]) ∧
    -- … answers at level 0 …
    (skipToken (exCfg 1) 40 { IState.init "[[a](b)](c)".toList [(0, 0)] with pos := 2, cache := [(2, 11)] }).map
        (fun s => s.pos) = .ok 11 ∧
    -- … where the un-memoised look-ahead says 3
    (skipToken (exCfg 1) 40 { IState.init "[[a](b)](c)".toList [(0, 0)] with pos := 2 }).map
        (fun s => s.pos) = .ok 3 ∧
    -- end to end: the whole input stays text, the inner link alone is a link
    vals (parseInline (exCfg 1) "[[a](b)](c)".toList [(0, 0)]) = .ok [.text "[[a](b)](c)".toList] ∧
    vals (parseInline (exCfg 1) "[a](b)".toList [(0, 0)]) = .ok [.link [98] none] ∧
    vals (parseInline (exCfg 2) "[[a](b)](c)".toList [(0, 0)]) =
      .ok [.text ['['], .link [98] none, .text "](c)".toList] := by
  decide +kernel

end MdIt.Inline
