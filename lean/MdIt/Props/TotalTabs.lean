/-
  C01 (parse + render never panic) for ALL sources: the "no tab" / `NoSplitTab` hypothesis of the
  whole-pipeline totality theorems of Props/MemoSafe.lean is removed.

  Why it was there: the inline totality theorems (`Inline.parseInline_total`,
  `Inline.parseInline_total_noesctick`) are proved for `Inline.MapOK` per-line tables; the `get_lines`
  table of a paragraph whose continuation line starts with a tab SPLIT by a container indent has a
  virtual-space entry (a key that does not follow a line feed, two entries with the same source offset)
  and is only `C05T.MapT`.

  How it is removed — a TRANSFER, not a second no-panic proof.  The one-entry table `[(0, 0)]` is `MapOK`
  for every text (`Inline.mapOK_single`), so inline totality applies to it for every text.  The control
  flow of the inline parser never reads the table (positions, the `skip_token` memo, the code-span cache,
  the rule that fires, the tree shape and every node value are the same under any two tables); the table
  only feeds node RANGES, and ranges are read by partial operations at two places only: `map_end - count`
  in `trailing_text_pop` (newline rule) and `e - marker_len` in the delimiter matching
  (`get_map`'s `debug_assert!(start <= end)` compares INLINE offsets).  Lemmas/TotalTabsSim.lean and
  Lemmas/TotalTabsSim2.lean run the two parses in lock step (relation `Inline.IRel false` of
  Lemmas/C10DocInline.lean, strict: side 2 must return `ok`); side 2 is safe at the two places by the
  frame invariant `C05T.RIv` of Lemmas/C05TabsRanges*.lean, which holds for every `MapT` table
  (`Inline.TT.parseInline_simT`).

  Property theorems.
  Inline (namespace `MdIt.Inline`):
    `parseInline_transfer_mapT`     success under ANY table transfers to every `MapT` table, same tree up
                                    to ranges;
    `parseInline_total_mapT`        generic in the black box: total on `[(0,0)]` for the texts in `P`
                                    ⇒ total on every `MapT` table for the texts in `P`;
    `parseInline_total_mapT_all`    every `ChainCoherent` chain (link / image once), solid markers: total
                                    on EVERY `MapT` table, every text;
    `parseInline_total_mapT_noesctick`  the same from the fourth-part theorem (texts without
                                    backslash-backtick-backtick) — kept because the task asked for it; it
                                    is subsumed by `_all`.
    `solidMarkers_of_coherent`, `parseInline_total_mapT_chain`: for chains that list the text rule and
                                    the newline rule, `SolidMarkers` follows from `ChainCoherent`;
    `solidMarkers_needed`           … and it cannot be dropped in general at inline level: coherent chain
                                    with marker ' ', `MapT` table, the run panics (crate-confirmed).
  Whole document (namespace `MdIt.Pipeline`), NO hypothesis about tabs:
    `doc_total_tabs_of_single`      generic in the black box (no text hypothesis);
    `doc_total_tabs_of_single_noesc` generic in the black box (texts without backslash-backtick-backtick);
    `doc_total_coherent_tabs`       every configuration with the paragraph rule, a coherent inline chain
                                    (link / image once) and solid emphasis markers: EVERY source within
                                    the `i32` bound parses and renders;
    `doc_total_coherent_tabs_chain` … without the marker hypothesis when the chain lists the text rule and
                                    the newline rule;
    `doc_total_noesctick_all`       the same from the fourth-part theorem (`NoEscTickTick src`);
    `doc_total_stock_every`         the stock configuration with strikethrough: EVERY source within the
                                    `i32` bound — C01 for the shipped configuration, complete;
    `doc_total_stock_tabs`          the statement the task asked for (with `NoEscTickTick src`);
    `no_inline_panic_tabs`, `doc_crlf_invariant_tabs` (sourcepos off), `doc_crlf_invariant_sp_tabs`
    (sourcepos on), `doc_crlf_invariant_every`, `doc_crlf_invariant_stock`: C10 LF ↦ CR LF without the
    inline-no-panic hypothesis and without any tab hypothesis.
-/
import MdIt.Lemmas.TotalTabsSim2
import MdIt.Lemmas.TotalTabsDoc
import MdIt.Lemmas.C05TabsRanges4
import MdIt.Props.MemoSafe
import MdIt.Props.DocTotal2

namespace MdIt.Inline
open MdIt.InlineOps (Srcmap getSourcePosFor getMap byteLen slice)
open MdIt.C05T (MapT SolidMarkers)

/-- **the transfer**: if `md.inline.parse` returns under SOME per-line table `m₁`, it returns under
    every table `m₂` that is `MapT` for the text (every `get_lines` table is: `C05T.mapT_of_virt`) —
    provided the emphasis markers are solid single bytes — and the two results are the same tree up to
    ranges (`LRel false`: same values, same shape). -/
theorem parseInline_transfer_mapT (cfg : Cfg) (hmk : SolidMarkers cfg.chain) {c : List Char}
    {m₁ m₂ : Srcmap} (hm : MapT c m₂) {ns₁ : List Node} (h₁ : parseInline cfg c m₁ = .ok ns₁) :
    ∃ ns₂, parseInline cfg c m₂ = .ok ns₂ ∧ LRel false ns₁ ns₂ := by
  have := TT.parseInline_simT cfg hmk c hm h₁
  cases h2 : parseInline cfg c m₂ with
  | ok ns₂ => rw [h2] at this; exact ⟨ns₂, rfl, this⟩
  | error e => rw [h2] at this; cases this

/-- **inline totality on `MapT` tables, generic in the black box**: if the inline parser is total on
    the one-entry table `[(0, 0)]` for every text in `P`, it is total on every `MapT` table for every
    text in `P`. -/
theorem parseInline_total_mapT (cfg : Cfg) (P : List Char → Prop)
    (Htot : ∀ c, P c → ∃ cs, parseInline cfg c [(0, 0)] = .ok cs)
    (hmk : SolidMarkers cfg.chain) {c : List Char} {m : Srcmap} (hm : MapT c m) (hp : P c) :
    ∃ cs, parseInline cfg c m = .ok cs := by
  obtain ⟨cs₁, h₁⟩ := Htot c hp
  obtain ⟨cs₂, h₂, _⟩ := parseInline_transfer_mapT cfg hmk hm h₁
  exact ⟨cs₂, h₂⟩

/-- **C01, inline pass, every `get_lines` table**: for every `ChainCoherent` chain (link / image rule at
    most once each) with solid emphasis markers, EVERY content and every `MapT` table — split tabs
    included — `md.inline.parse` returns a tree. -/
theorem parseInline_total_mapT_all (cfg : Cfg) (hc : ChainCoherent cfg = true)
    (hone : cfg.chain.count .link ≤ 1 ∧ cfg.chain.count .image ≤ 1)
    (hmk : SolidMarkers cfg.chain) {c : List Char} {m : Srcmap} (hm : MapT c m) :
    ∃ cs, parseInline cfg c m = .ok cs :=
  parseInline_total_mapT cfg (fun _ => True)
    (fun c _ => parseInline_total cfg hc hone (mapOK_single c)) hmk hm trivial

/-- the same from the fourth-part theorem: contents without backslash-backtick-backtick -/
theorem parseInline_total_mapT_noesctick (cfg : Cfg) (hc : ChainCoherent cfg = true)
    (hone : cfg.chain.count .link ≤ 1 ∧ cfg.chain.count .image ≤ 1)
    (hmk : SolidMarkers cfg.chain) {c : List Char} {m : Srcmap} (hm : MapT c m)
    (hne : CS.NoEscTickTick c) : ∃ cs, parseInline cfg c m = .ok cs :=
  parseInline_total_mapT cfg CS.NoEscTickTick
    (fun c hp => parseInline_total_noesctick cfg hc hone (mapOK_single c) hp) hmk hm hne

/-! ### `SolidMarkers` from coherence, for chains with the text rule and the newline rule -/

/-- in a `ChainCoherent` chain that lists the text rule and the newline rule (every shipped chain does),
    the emphasis markers are solid: the text rule answers at a space, the newline rule at a line feed -/
theorem solidMarkers_of_coherent (cfg : Cfg) (hc : ChainCoherent cfg = true)
    (htext : RuleId.text ∈ cfg.chain) (hnl : RuleId.newline ∈ cfg.chain) : SolidMarkers cfg.chain := by
  intro mk csw hmem
  have hmm : mk ∈ cfg.emphMarkers := by
    unfold Cfg.emphMarkers
    exact List.mem_filterMap.mpr ⟨_, hmem, rfl⟩
  unfold ChainCoherent at hc
  have h1 := List.all_eq_true.mp hc mk hmm
  simp only [Bool.and_eq_true, beq_iff_eq] at h1
  obtain ⟨hsz, hall⟩ := h1
  have h2 := List.all_eq_true.mp hall
  refine ⟨hsz, ?_, ?_⟩
  · intro e
    have := h2 _ hnl
    simp [RuleId.firesAt, e] at this
  · intro e
    have := h2 _ htext
    subst e
    revert this
    decide

/-- `parseInline_total_mapT_all` for chains with the text rule and the newline rule: coherence alone -/
theorem parseInline_total_mapT_chain (cfg : Cfg) (hc : ChainCoherent cfg = true)
    (hone : cfg.chain.count .link ≤ 1 ∧ cfg.chain.count .image ≤ 1)
    (htext : RuleId.text ∈ cfg.chain) (hnl : RuleId.newline ∈ cfg.chain)
    {c : List Char} {m : Srcmap} (hm : MapT c m) :
    ∃ cs, parseInline cfg c m = .ok cs :=
  parseInline_total_mapT_all cfg hc hone (solidMarkers_of_coherent cfg hc htext hnl) hm

/-! ### non-vacuity (inline) -/

/-- the table of Lemmas/C05TabsRanges4.lean (`"a  \n   b *c*"` with three virtual spaces in front of
    `b`) is `MapT` but NOT `MapOK`: the entries `(4, 11)`, `(7, 11)` have the same source offset -/
example : MapT "a  \n   b *c*".toList [(0, 5), (4, 11), (7, 11)] ∧
    ¬ MapOK "a  \n   b *c*".toList [(0, 5), (4, 11), (7, 11)] := by
  refine ⟨C05T.tv_exTab_mapT, fun h => ?_⟩
  have := h.mono 1 4 11 7 11 rfl rfl
  omega

/-- … and the theorem applies to it (stock chain with strikethrough, any `max_nesting`): hard break with
    trailing-text pop, emphasis behind the virtual spaces -/
example (n : Nat) : ∃ cs, parseInline (stockCfg n) "a  \n   b *c*".toList [(0, 5), (4, 11), (7, 11)] = .ok cs :=
  parseInline_total_mapT_all (stockCfg n)
    (by show ChainCoherent (stockCfg 0) = true; decide +kernel)
    (by show (stockCfg 0).chain.count .link ≤ 1 ∧ (stockCfg 0).chain.count .image ≤ 1; decide)
    (by
      intro mk csw hmem
      simp only [stockCfg, List.mem_cons, List.mem_nil_iff, or_false, reduceCtorEq, false_or,
        RuleId.emph.injEq] at hmem
      rcases hmem with ⟨rfl, _⟩ | ⟨rfl, _⟩ | ⟨rfl, _⟩ <;> exact ⟨by decide, by decide, by decide⟩)
    C05T.tv_exTab_mapT

/-- `MapT` is needed (some hypothesis on the table is): under a table whose values DEcrease the hard
    break's `map_end - count` underflows, although the run under `[(0, 0)]` succeeds -/
example :
    (∃ cs, parseInline (stockCfg 100) "x  \ny".toList [(0, 0)] = .ok cs) ∧
    Pipeline.errOf (parseInline (stockCfg 100) "x  \ny".toList [(0, 0), (1, 0), (2, 0), (3, 0)]) =
      some (.rust .underflow) := by
  refine ⟨parseInline_total_stock 100 _, ?_⟩
  decide +kernel

/-! ### `SolidMarkers` is needed at inline level -/

/-- a chain whose only rule is an emphasis pair on the SPACE character (coherent: no rule answers at a
    space in look-ahead mode) -/
def spCfg : Cfg :=
  { exCfg 100 with
    chain := [.emph ' ' true]
    fns := fun _ i => if i = 0 then some .em else if i = 1 then some .strong else none }

/-- a text whose second line starts with three spaces … -/
def spC : List Char := ['x', '\n', ' ', ' ', ' ', 'b', ' ', ' ', 'c', ' ', 'd']

/-- … which the table declares to be VIRTUAL (the cut part of a split tab: both entries at source
    offset 2) -/
def spM : Srcmap := [(0, 0), (2, 2), (5, 2)]

theorem spM_mapT : MapT spC spM := by
  refine C05T.mapT_of_virt ⟨⟨_, _, rfl⟩, by decide⟩ ?_ ?_ ⟨?_, ?_⟩
  · intro i k1 v1 k2 v2 h1 h2
    match i with
    | 0 => simp [spM] at h1 h2; omega
    | 1 => simp [spM] at h1 h2; omega
    | n + 2 => simp [spM] at h2
  · intro i k v h
    match i with
    | 0 =>
      simp [spM] at h
      obtain ⟨rfl, rfl⟩ := h
      exact .inl ⟨['x'], [' ', ' ', ' ', 'b', ' ', ' ', 'c', ' ', 'd'], rfl, by decide⟩
    | 1 =>
      simp [spM] at h
      obtain ⟨rfl, rfl⟩ := h
      exact .inr ⟨2, rfl⟩
    | n + 2 => simp [spM] at h
  · intro i k0 v k h0 h1 p hp hp'
    match i with
    | 0 => simp [spM] at h0 h1; omega
    | 1 =>
      simp [spM] at h0 h1
      obtain ⟨rfl, rfl⟩ := h0
      obtain ⟨rfl, _⟩ := h1
      have : p = 2 ∨ p = 3 ∨ p = 4 := by omega
      rcases this with rfl | rfl | rfl
      · exact ⟨['x', '\n'], [' ', ' ', 'b', ' ', ' ', 'c', ' ', 'd'], rfl, by decide⟩
      · exact ⟨['x', '\n', ' '], [' ', 'b', ' ', ' ', 'c', ' ', 'd'], rfl, by decide⟩
      · exact ⟨['x', '\n', ' ', ' '], ['b', ' ', ' ', 'c', ' ', 'd'], rfl, by decide⟩
    | n + 2 => simp [spM] at h1
  · intro i k0 v k h0 h1
    match i with
    | 0 => simp [spM] at h0 h1; omega
    | 1 =>
      simp [spM] at h0 h1
      obtain ⟨rfl, rfl⟩ := h0
      exact .inr ⟨['x'], [' ', ' ', ' ', 'b', ' ', ' ', 'c', ' ', 'd'], rfl, by decide⟩
    | n + 2 => simp [spM] at h1

/-- **`SolidMarkers` cannot be dropped from `parseInline_transfer_mapT` / `parseInline_total_mapT_all`**:
    a `ChainCoherent` chain with the marker ' ', a `MapT` table — the run of three VIRTUAL spaces becomes an
    `EmphMarker` with the empty range `(2, 2)`; the closer `"  "` cuts two delimiters off it (`2 - 2`), the
    closer `" "` one more: `0 - 1` underflows.  Under `[(0, 0)]` the same run returns.  CRATE-CONFIRMED
    (`md.inline.parse("x\n   b  c d", vec![(0,0),(2,2),(5,2)], ..)` with `emph_pair::add_with::<' ', 1|2, true>`
    on `MarkdownIt::new()`: "attempt to subtract with overflow"; under `vec![(0,0)]` it returns
    `Text(0,2) Em(2,10) Text(10,11)`, the ranges of the model).  (At DOCUMENT level
    the virtual spaces of a split tab sit at source offset ≥ 4, more than the three delimiters that can
    be cut: no document-level witness is known.) -/
theorem solidMarkers_needed :
    ChainCoherent spCfg = true ∧ MapT spC spM ∧
    (∃ cs, parseInline spCfg spC [(0, 0)] = .ok cs) ∧
    Pipeline.errOf (parseInline spCfg spC spM) = some (.rust .underflow) := by
  refine ⟨by decide +kernel, spM_mapT, ?_, by decide +kernel⟩
  have h : Pipeline.isOk (parseInline spCfg spC [(0, 0)]) = true := by decide +kernel
  cases hp : parseInline spCfg spC [(0, 0)] with
  | ok cs => exact ⟨cs, rfl⟩
  | error e => rw [hp] at h; cases h

end MdIt.Inline

namespace MdIt.Pipeline
open MdIt
open MdIt.Lines (lfToCrlf lfToCr)
open MdIt.C05T (MapT SolidMarkers)

/-! ## whole document -/

/-- the whole pipeline is total as soon as the inline parser is total on `MapT` tables (no hypothesis on
    the text; `doc_total_of_inline_mapT` of Lemmas/TotalTabsDoc.lean without `NoEscTickTick`) -/
theorem doc_total_of_inline_mapT_all (cfg : DocCfg) (src : List Char)
    (hsmall : 4 * Lines.byteLen src + 8 < 2147483648) (hpara : cfg.hasPara = true)
    (H : ∀ (refs : Refs.RefMap) (c : List Char) (m : InlineOps.Srcmap), MapT c m →
      ∃ cs, Inline.parseInline (cfg.inlineCfg refs) c m = .ok cs) :
    (∃ t, parseDoc cfg src = .ok t) ∧ ∀ x, ∃ html, renderDoc x cfg src = .ok html := by
  apply doc_total_of_inline
  intro root refs hb
  have hmap := doc_tables_mapT cfg src hsmall hpara hb
  have hall : Block.AllInl (fun c m => ∃ cs, Inline.parseInline (cfg.inlineCfg refs) c m = .ok cs) root :=
    allInl_and (fun _ _ hm _ => H refs _ _ hm) hmap hmap
  exact (placeholders_of_allInl _ (sizeOf root)).1 root (Nat.le_refl _) hall
    (Block.parseBlocks_inlNoRange hb)

/-- **whole-pipeline totality for ALL sources, generic in the inline black box** (no text hypothesis):
    if the inline parser of the configuration is total on the one-entry table `[(0, 0)]`, then for every
    source within the `i32` bound — tabs split by containers or not — `md.parse` returns a tree and
    `render` / `xrender` return a string. -/
theorem doc_total_tabs_of_single (cfg : DocCfg) (src : List Char)
    (hsmall : 4 * Lines.byteLen src + 8 < 2147483648) (hpara : cfg.hasPara = true)
    (hmk : SolidMarkers cfg.inlineChain)
    (Htot : ∀ (refs : Refs.RefMap) (c : List Char),
      ∃ cs, Inline.parseInline (cfg.inlineCfg refs) c [(0, 0)] = .ok cs) :
    (∃ t, parseDoc cfg src = .ok t) ∧ ∀ x, ∃ html, renderDoc x cfg src = .ok html :=
  doc_total_of_inline_mapT_all cfg src hsmall hpara (fun refs _ _ hm =>
    Inline.parseInline_total_mapT (cfg.inlineCfg refs) (fun _ => True) (fun c _ => Htot refs c) hmk hm
      trivial)

/-- … generic in a black box for texts without backslash-backtick-backtick -/
theorem doc_total_tabs_of_single_noesc (cfg : DocCfg) (src : List Char)
    (hsmall : 4 * Lines.byteLen src + 8 < 2147483648) (hpara : cfg.hasPara = true)
    (hmk : SolidMarkers cfg.inlineChain) (hne : Inline.CS.NoEscTickTick src)
    (Htot : ∀ (refs : Refs.RefMap) (c : List Char), Inline.CS.NoEscTickTick c →
      ∃ cs, Inline.parseInline (cfg.inlineCfg refs) c [(0, 0)] = .ok cs) :
    (∃ t, parseDoc cfg src = .ok t) ∧ ∀ x, ∃ html, renderDoc x cfg src = .ok html :=
  doc_total_of_inline_mapT cfg src hsmall hpara hne (fun refs _ _ hm hp =>
    Inline.parseInline_total_mapT (cfg.inlineCfg refs) Inline.CS.NoEscTickTick (Htot refs) hmk hm hp)

/-- **C01, whole pipeline, EVERY source** (within the `i32` bound): for every configuration with the
    paragraph rule whose inline chain is `ChainCoherent` (link / image rule at most once each) with solid
    single-byte emphasis markers, `md.parse(src)` returns a tree and `render` / `xrender` return a string.
    `doc_total_coherent_all` of Props/MemoSafe.lean without `NoSplitTab`. -/
theorem doc_total_coherent_tabs (cfg : DocCfg) (src : List Char)
    (hc : Inline.ChainCoherent (cfg.inlineCfg []) = true)
    (hone : cfg.inlineChain.count .link ≤ 1 ∧ cfg.inlineChain.count .image ≤ 1)
    (hsmall : 4 * Lines.byteLen src + 8 < 2147483648) (hpara : cfg.hasPara = true)
    (hmk : SolidMarkers cfg.inlineChain) :
    (∃ t, parseDoc cfg src = .ok t) ∧ ∀ x, ∃ html, renderDoc x cfg src = .ok html :=
  doc_total_tabs_of_single cfg src hsmall hpara hmk (fun refs c =>
    Inline.parseInline_total (cfg.inlineCfg refs) hc hone (Inline.mapOK_single c))

/-- … for chains with the text rule and the newline rule (every shipped chain): coherence alone, no
    separate hypothesis on the markers -/
theorem doc_total_coherent_tabs_chain (cfg : DocCfg) (src : List Char)
    (hc : Inline.ChainCoherent (cfg.inlineCfg []) = true)
    (hone : cfg.inlineChain.count .link ≤ 1 ∧ cfg.inlineChain.count .image ≤ 1)
    (htext : Inline.RuleId.text ∈ cfg.inlineChain) (hnl : Inline.RuleId.newline ∈ cfg.inlineChain)
    (hsmall : 4 * Lines.byteLen src + 8 < 2147483648) (hpara : cfg.hasPara = true) :
    (∃ t, parseDoc cfg src = .ok t) ∧ ∀ x, ∃ html, renderDoc x cfg src = .ok html :=
  doc_total_coherent_tabs cfg src hc hone hsmall hpara
    (Inline.solidMarkers_of_coherent (cfg.inlineCfg []) hc htext hnl)

/-- the same from the fourth-part inline theorem: sources without backslash-backtick-backtick
    (`doc_total_src_noesc` of Props/MemoSafe.lean without `'\t' ∉ src`); subsumed by
    `doc_total_coherent_tabs` -/
theorem doc_total_noesctick_all (cfg : DocCfg) (src : List Char)
    (hc : Inline.ChainCoherent (cfg.inlineCfg []) = true)
    (hone : cfg.inlineChain.count .link ≤ 1 ∧ cfg.inlineChain.count .image ≤ 1)
    (hsmall : 4 * Lines.byteLen src + 8 < 2147483648) (hpara : cfg.hasPara = true)
    (hmk : SolidMarkers cfg.inlineChain) (hne : Inline.CS.NoEscTickTick src) :
    (∃ t, parseDoc cfg src = .ok t) ∧ ∀ x, ∃ html, renderDoc x cfg src = .ok html :=
  doc_total_tabs_of_single_noesc cfg src hsmall hpara hmk hne (fun refs c hp =>
    Inline.parseInline_total_noesctick (cfg.inlineCfg refs) hc hone (Inline.mapOK_single c) hp)

/-- **C01 for the STOCK configuration with strikethrough, COMPLETE** (`exCfg`: CommonMark block and
    inline chains, `*`, `_`, `~~`), any `max_nesting`, sourcepos on or off: `md.parse(src)` returns a tree
    and `render` / `xrender` return a string for EVERY source within the `i32` size bound — no hypothesis
    about tabs, backticks, or the run. -/
theorem doc_total_stock_every (sp : Bool) (mn : Nat) (src : List Char)
    (hsmall : 4 * Lines.byteLen src + 8 < 2147483648) :
    (∃ t, parseDoc (exCfg sp mn) src = .ok t) ∧ ∀ x, ∃ html, renderDoc x (exCfg sp mn) src = .ok html :=
  doc_total_coherent_tabs (exCfg sp mn) src
    (by show Inline.ChainCoherent ((exCfg false 0).inlineCfg []) = true; decide +kernel)
    (by show (exCfg false 0).inlineChain.count .link ≤ 1 ∧ (exCfg false 0).inlineChain.count .image ≤ 1
        decide +kernel)
    hsmall (by show (exCfg false 0).hasPara = true; decide +kernel) (exCfg_solidMarkers sp mn)

/-- the statement of `doc_total_stock` (Props/MemoSafe.lean) without `'\t' ∉ src` -/
theorem doc_total_stock_tabs (sp : Bool) (mn : Nat) (src : List Char)
    (hsmall : 4 * Lines.byteLen src + 8 < 2147483648) (hne : Inline.CS.NoEscTickTick src) :
    (∃ t, parseDoc (exCfg sp mn) src = .ok t) ∧ ∀ x, ∃ html, renderDoc x (exCfg sp mn) src = .ok html :=
  doc_total_noesctick_all (exCfg sp mn) src
    (by show Inline.ChainCoherent ((exCfg false 0).inlineCfg []) = true; decide +kernel)
    (by show (exCfg false 0).inlineChain.count .link ≤ 1 ∧ (exCfg false 0).inlineChain.count .image ≤ 1
        decide +kernel)
    hsmall (by show (exCfg false 0).hasPara = true; decide +kernel) (exCfg_solidMarkers sp mn) hne

/-! ## C10: LF ↦ CR LF without the inline-no-panic hypothesis, all sources -/

/-- `parseDoc` reports no inline panic, whatever the tabs -/
theorem no_inline_panic_tabs (cfg : DocCfg) (src : List Char)
    (hc : Inline.ChainCoherent (cfg.inlineCfg []) = true)
    (hone : cfg.inlineChain.count .link ≤ 1 ∧ cfg.inlineChain.count .image ≤ 1)
    (hsmall : 4 * Lines.byteLen src + 8 < 2147483648) (hpara : cfg.hasPara = true)
    (hmk : SolidMarkers cfg.inlineChain) :
    ∀ e, parseDoc cfg src ≠ .error (.inline e) := by
  intro e h
  obtain ⟨⟨t, ht⟩, _⟩ := doc_total_coherent_tabs cfg src hc hone hsmall hpara hmk
  rw [ht] at h; cases h

/-- **C10, LF ↦ CR LF, sourcepos off, no hypothesis about panics or tabs** -/
theorem doc_crlf_invariant_tabs (x : Bool) (cfg : DocCfg) (src : List Char)
    (hsp : cfg.sourcepos = false) (hcr : '\r' ∉ src)
    (hc : Inline.ChainCoherent (cfg.inlineCfg []) = true)
    (hone : cfg.inlineChain.count .link ≤ 1 ∧ cfg.inlineChain.count .image ≤ 1)
    (hsmall : 4 * Lines.byteLen src + 8 < 2147483648) (hpara : cfg.hasPara = true)
    (hmk : SolidMarkers cfg.inlineChain) :
    renderDoc x cfg (lfToCrlf src) = renderDoc x cfg src :=
  doc_crlf_invariant_full x cfg src hsp hcr (no_inline_panic_tabs cfg src hc hone hsmall hpara hmk)

/-- **C10, LF ↦ CR LF, sourcepos ON, no hypothesis about panics or tabs**: the HTML with its
    `data-sourcepos` attributes is the same (`doc_crlf_invariant_sp_all` of Props/C10Sourcepos.lean with
    `hinl` discharged) -/
theorem doc_crlf_invariant_sp_tabs (x : Bool) (cfg : DocCfg) (src : List Char)
    (hsp : cfg.sourcepos = true) (hcr : '\r' ∉ src)
    (hc : Inline.ChainCoherent (cfg.inlineCfg []) = true)
    (hone : cfg.inlineChain.count .link ≤ 1 ∧ cfg.inlineChain.count .image ≤ 1)
    (hsmall : 4 * Lines.byteLen src + 8 < 2147483648) (hpara : cfg.hasPara = true)
    (hmk : SolidMarkers cfg.inlineChain) :
    renderDoc x cfg (lfToCrlf src) = renderDoc x cfg src :=
  doc_crlf_invariant_sp_all x cfg src hsp hcr (no_inline_panic_tabs cfg src hc hone hsmall hpara hmk)
    hsmall hpara hmk

/-- **C10, LF ↦ CR LF, every coherent configuration, with or without the sourcepos plugin, every
    CR-free source within the `i32` bound** -/
theorem doc_crlf_invariant_every (x : Bool) (cfg : DocCfg) (src : List Char) (hcr : '\r' ∉ src)
    (hc : Inline.ChainCoherent (cfg.inlineCfg []) = true)
    (hone : cfg.inlineChain.count .link ≤ 1 ∧ cfg.inlineChain.count .image ≤ 1)
    (hsmall : 4 * Lines.byteLen src + 8 < 2147483648) (hpara : cfg.hasPara = true)
    (hmk : SolidMarkers cfg.inlineChain) :
    renderDoc x cfg (lfToCrlf src) = renderDoc x cfg src := by
  cases hsp : cfg.sourcepos with
  | false => exact doc_crlf_invariant_tabs x cfg src hsp hcr hc hone hsmall hpara hmk
  | true => exact doc_crlf_invariant_sp_tabs x cfg src hsp hcr hc hone hsmall hpara hmk

/-- … for the stock configuration with strikethrough: every CR-free source within the `i32` bound -/
theorem doc_crlf_invariant_stock (x sp : Bool) (mn : Nat) (src : List Char) (hcr : '\r' ∉ src)
    (hsmall : 4 * Lines.byteLen src + 8 < 2147483648) :
    renderDoc x (exCfg sp mn) (lfToCrlf src) = renderDoc x (exCfg sp mn) src :=
  doc_crlf_invariant_every x (exCfg sp mn) src hcr
    (by show Inline.ChainCoherent ((exCfg false 0).inlineCfg []) = true; decide +kernel)
    (by show (exCfg false 0).inlineChain.count .link ≤ 1 ∧ (exCfg false 0).inlineChain.count .image ≤ 1
        decide +kernel)
    hsmall (by show (exCfg false 0).hasPara = true; decide +kernel) (exCfg_solidMarkers sp mn)

/-! ## non-vacuity -/

/-- a list item whose second paragraph starts with a SPLIT tab (content column 2, the tab reaches
    column 4): emphasis behind the virtual spaces, a hard break (trailing-text pop in source
    coordinates), a continuation line behind another split tab -/
def tabDoc : List Char := "- a\n\n \t*b*  \n\tc".toList

/-- its tab IS split: a placeholder table has a virtual-space entry, so `NoSplitTab` fails and
    `doc_total_coherent_all` of Props/MemoSafe.lean does not apply -/
example : (match Block.parseBlocks (exCfg true 100).blockCfg tabDoc with
    | .ok (root, _) => allNoVirtB root
    | .error _ => true) = false := by decide +kernel

/-- the theorem applies (nothing is evaluated but the size of the document) -/
example : (∃ t, parseDoc (exCfg true 100) tabDoc = .ok t) ∧
    ∀ x, ∃ html, renderDoc x (exCfg true 100) tabDoc = .ok html :=
  doc_total_stock_every true 100 tabDoc (by decide)

/-- … in agreement with kernel evaluation of the model -/
example : (parseDoc (exCfg true 100) tabDoc).toOption.isSome = true ∧
    (renderDoc false (exCfg true 100) tabDoc).toOption.isSome = true := by decide +kernel

/-- the documents of the task: a hard break in front of a split-tab paragraph, a code span and an
    emphasis across split tabs — every `max_nesting`, sourcepos on or off -/
example (sp : Bool) (mn : Nat) :
    ((∃ t, parseDoc (exCfg sp mn) "- a  \n\n \tb  \nc".toList = .ok t) ∧
      ∀ x, ∃ html, renderDoc x (exCfg sp mn) "- a  \n\n \tb  \nc".toList = .ok html) ∧
    ((∃ t, parseDoc (exCfg sp mn) "-    ` a\n\t\t`".toList = .ok t) ∧
      ∀ x, ∃ html, renderDoc x (exCfg sp mn) "-    ` a\n\t\t`".toList = .ok html) ∧
    ((∃ t, parseDoc (exCfg sp mn) "- *a\n\t b*  \n\tc".toList = .ok t) ∧
      ∀ x, ∃ html, renderDoc x (exCfg sp mn) "- *a\n\t b*  \n\tc".toList = .ok html) :=
  ⟨doc_total_stock_every sp mn _ (by decide), doc_total_stock_every sp mn _ (by decide),
    doc_total_stock_every sp mn _ (by decide)⟩

/-- the task's statement on a source with a split tab and no backslash-backtick-backtick -/
example : (∃ t, parseDoc (exCfg false 100) tabDoc = .ok t) ∧
    ∀ x, ∃ html, renderDoc x (exCfg false 100) tabDoc = .ok html :=
  doc_total_stock_tabs false 100 tabDoc (by decide) (by decide +kernel)

/-- C10 on the split-tab document, sourcepos on and off, nothing about the run evaluated -/
example (x sp : Bool) :
    renderDoc x (exCfg sp 100) (lfToCrlf tabDoc) = renderDoc x (exCfg sp 100) tabDoc :=
  doc_crlf_invariant_stock x sp 100 tabDoc (by decide) (by decide)

/-
  OPEN / what is left of C01 at whole-document level after this file.

  * NOTHING is open for the shipped configurations: `doc_total_stock_every` has the `i32` size bound as
    its only hypothesis (the crate's line offsets are `i32`; `4 * |src| + 8 < 2^31`).
  * `SolidMarkers` (every emphasis-like marker is a single byte other than line feed and space) is needed
    by the frame invariant of side 2 (`C05T.tv_ruleEmph`: the run of markers must start with a solid
    character for the translation to be a shift on it).  It is not implied by `ChainCoherent` (a chain
    without the text rule may use ' ' as a marker).  Whether a ' ' marker on the virtual spaces of a split
    tab can make `e - marker_len` underflow at document level is not known (a marker run inside virtual
    spaces has a range of length 0, but the underflow needs a source offset smaller than the marker
    length, i.e. a split tab in the first three bytes of the document, where a container prefix sits).
  * `hone` (link / image rule at most once) and `ChainCoherent` are inherited from
    `Inline.parseInline_total`; `hpara` (the paragraph rule) from the block-level geometry theorems.
-/

end MdIt.Pipeline
