/-
  The whole document pipeline WITH the raw-HTML plugin (`MdIt/Model/PipelineH.lean`, validated against
  the real crate by the differential stream `pipelineh`): property theorems.

  (a) CONSERVATIVITY.  `parseDocH_conservative`, `parseDocH_conservative'`, `renderDocH_conservative`,
      `renderDocH_conservative'`: for a configuration without the two html rules the model IS
      `Pipeline.parseDoc` / `Pipeline.renderDoc` — every whole-document theorem about html-free
      configurations (`Props/Pipeline.lean`, `Props/DocTotal.lean`, C03 / C05 / C10 / C13 / C14 …) is a
      theorem about `parseDocH` / `renderDocH` on such configurations.
  (b) ONLY AN INLINE RUN CAN PANIC.  `parseDocH_panic_inline_only`, `renderDocH_panic_inline_only`:
      for EVERY configuration over the extended enumerations (html rules anywhere, either or both),
      every `max_nesting`, every source, with or without sourcepos, a panic of `src ↦ tree` and of
      `src ↦ html` (both serializers) is a panic of one of the `md.inline.parse` calls: the block pass is
      total (`BlockH.parseBlocksH_total`), splice / join / sourcepos are total, and the parsed tree is
      `Renderable` (`parseDocH_final`, `docH_render_total`: ATX / setext levels in range —
      `parseBlocksH_wf`, the well-formedness of the block tree lifted to the ten-rule engine —, no
      placeholder left — `parseInlineH_vals`, the value invariant lifted to the extended inline chain).
  (c) `docH_total_of_inline` (total relative to the inline runs), `docH_total_of_docMemoSafeH` (executable check,
      any chain), `doc_totalH_flat_of_tables`, `docH_tables_mapOK` (placeholder tables well formed: the geometric
      invariant lifted to the ten-rule engine), `doc_totalH_flat` (tab-free sources; ONE residual hypothesis: the
      placeholder contents within the inline size bound — OPEN block in the section).
  (d) `renderDocH_raw_only_from_html`: every `raw` event of the rendering is the content of an html
      node of the rendered tree; with both html rules off there is none (`renderDocH_no_raw`).
  (e) `parseDocH_cr`, `renderDocH_cr`: LF ↦ CR invariance (sourcepos off), an equation.
-/
import MdIt.Props.BlockH
import MdIt.Props.InlineH
import MdIt.Props.DocTotal
import MdIt.Props.InlineTotal
import MdIt.Lemmas.PipelineH
import MdIt.Lemmas.PipelineHGeo
import MdIt.Lemmas.MemoSafeLamDoc
import MdIt.Model.PipelineH
import MdIt.Lemmas.PipelineHLen
import MdIt.Lemmas.PipelineHShape
import MdIt.Lemmas.PipelineHRanges
import MdIt.Props.C14Doc

namespace MdIt.PipelineH
open MdIt.Pipeline

/-! ## (a) conservativity -/

mutual
theorem spliceNodeG_parseInline (icfg : Inline.Cfg) (b : Block.BNode) :
    spliceNodeG (Inline.parseInline icfg) b = spliceNode icfg b := by
  match b with
  | ⟨k, r, cs⟩ =>
    simp only [spliceNodeG, spliceNode, spliceListG_parseInline icfg cs]
    cases spliceList icfg cs <;> rfl
theorem spliceListG_parseInline (icfg : Inline.Cfg) (cs : List Block.BNode) :
    spliceListG (Inline.parseInline icfg) cs = spliceList icfg cs := by
  match cs with
  | [] => simp only [spliceListG, spliceList]
  | c :: rest =>
    simp only [spliceListG, spliceList, spliceNodeG_parseInline icfg c, spliceListG_parseInline icfg rest]
    cases hk : c.kind <;> (try (rename_i content mapping; cases Inline.parseInline icfg content mapping)) <;>
      cases spliceList icfg rest <;> cases spliceNode icfg c <;> rfl
end

theorem kindToRenderH_ff (lp : List Char) (k : Kind) : kindToRenderH false false lp k = k.toRender lp := by
  cases k <;> rfl

mutual
/-- without decoding the projection is `Pipeline.toRender` -/
theorem toRenderH_ff (lp : List Char) (t : Node) : toRenderH false false lp t = toRender lp t := by
  match t with
  | ⟨k, r, a, cs⟩ => simp only [toRenderH, toRender, kindToRenderH_ff, toRenderListH_ff lp cs]
theorem toRenderListH_ff (lp : List Char) (cs : List Node) :
    toRenderListH false false lp cs = toRenderList lp cs := by
  match cs with
  | [] => simp only [toRenderListH, toRenderList]
  | c :: r => simp only [toRenderListH, toRenderList, toRenderH_ff lp c, toRenderListH_ff lp r]
end

theorem any_isEmphH_map (l : List Inline.RuleId) :
    (l.map InlineH.RuleIdH.base).any isEmphH = l.any Inline.RuleId.isEmph := by
  induction l with
  | nil => rfl
  | cons r rs ih => simp only [List.map_cons, List.any_cons, ih, isEmphH]

theorem hasJoin_ofCfg (cfg : DocCfg) : (DocCfgH.ofCfg cfg).hasJoin = cfg.hasJoin :=
  any_isEmphH_map cfg.inlineChain

theorem htmlBlock_ofCfg (cfg : DocCfg) : (DocCfgH.ofCfg cfg).htmlBlock = false := by
  simp [DocCfgH.htmlBlock, DocCfgH.ofCfg]

theorem htmlInline_ofCfg (cfg : DocCfg) : (DocCfgH.ofCfg cfg).htmlInline = false := by
  simp [DocCfgH.htmlInline, DocCfgH.ofCfg]

theorem afterBlocksH_conservative (cfg : DocCfg) (src : List Char) (root : Block.BNode) (refs : Refs.RefMap) :
    afterBlocksH (DocCfgH.ofCfg cfg) src root refs = afterBlocks cfg src root refs := by
  unfold afterBlocksH afterBlocks
  have hp : InlineH.parseInlineH ((DocCfgH.ofCfg cfg).inlineCfg refs) = Inline.parseInline (cfg.inlineCfg refs) := by
    funext content mapping
    exact InlineH.parseInlineH_conservative (cfg.inlineCfg refs) content mapping
  rw [hp, spliceNodeG_parseInline, hasJoin_ofCfg]
  rfl

/-- **(a) conservativity, parse**: an html-free configuration, read as a configuration over the
    extended enumerations, parses every source exactly as `Pipeline.parseDoc` does (same tree with
    ranges and attributes, same panic if any) -/
theorem parseDocH_conservative (cfg : DocCfg) (src : List Char) :
    parseDocH (DocCfgH.ofCfg cfg) src = parseDoc cfg src := by
  unfold parseDocH parseDoc
  have hb : BlockH.parseBlocksH (DocCfgH.ofCfg cfg).blockCfg src = Block.parseBlocks cfg.blockCfg src :=
    BlockH.parseBlocksH_conservative cfg.blockCfg src
  rw [hb]
  cases Block.parseBlocks cfg.blockCfg src with
  | error e => rfl
  | ok w => obtain ⟨root, refs⟩ := w; exact afterBlocksH_conservative cfg src root refs

/-- **(a) conservativity, render**: … and renders it exactly as `Pipeline.renderDoc` does, in both
    serializers -/
theorem renderDocH_conservative (x : Bool) (cfg : DocCfg) (src : List Char) :
    renderDocH x (DocCfgH.ofCfg cfg) src = renderDoc x cfg src := by
  unfold renderDocH renderDoc
  rw [parseDocH_conservative]
  cases parseDoc cfg src with
  | error e => rfl
  | ok t =>
    have : renderEventsH (DocCfgH.ofCfg cfg) t = renderEvents cfg t := by
      unfold renderEventsH renderEvents
      rw [htmlBlock_ofCfg, htmlInline_ofCfg, toRenderH_ff]
      rfl
    simp only [this]
    cases renderEvents cfg t <;> rfl

theorem bmap_filterMap : ∀ (l : List InlineH.RuleIdH), InlineH.RuleIdH.html ∉ l →
    (l.filterMap InlineH.RuleIdH.base?).map .base = l
  | [], _ => rfl
  | .base r :: rs, h => by
    simp only [List.filterMap_cons, InlineH.RuleIdH.base?, List.map_cons]
    rw [bmap_filterMap rs (fun hm => h (List.mem_cons_of_mem _ hm))]
  | .html :: _, h => absurd (List.mem_cons_self ..) h

/-- a configuration over the extended enumerations without either html rule IS its html-free base -/
theorem ofCfg_base (cfg : DocCfgH) (hb : BlockH.RuleIdH.html ∉ cfg.blockChain)
    (hi : InlineH.RuleIdH.html ∉ cfg.inlineChain) : DocCfgH.ofCfg cfg.base = cfg := by
  cases cfg
  simp only [DocCfgH.ofCfg, DocCfgH.base] at *
  rw [BlockH.map_base_filterMap _ hb, bmap_filterMap _ hi]

/-- **(a)** the same from the side of a `DocCfgH` whose chains do not contain the html rules -/
theorem parseDocH_conservative' (cfg : DocCfgH) (hb : BlockH.RuleIdH.html ∉ cfg.blockChain)
    (hi : InlineH.RuleIdH.html ∉ cfg.inlineChain) (src : List Char) :
    parseDocH cfg src = parseDoc cfg.base src := by
  rw [← parseDocH_conservative, ofCfg_base cfg hb hi]

theorem renderDocH_conservative' (x : Bool) (cfg : DocCfgH) (hb : BlockH.RuleIdH.html ∉ cfg.blockChain)
    (hi : InlineH.RuleIdH.html ∉ cfg.inlineChain) (src : List Char) :
    renderDocH x cfg src = renderDoc x cfg.base src := by
  rw [← renderDocH_conservative, ofCfg_base cfg hb hi]

/-! ## (b) only an inline run can panic -/

mutual
/-- a panic of the splice walk is a panic of one of the placeholder parses -/
theorem spliceNodeG_panic {parse : List Char → InlineOps.Srcmap → Except Inline.Panic (List Inline.Node)}
    (b : Block.BNode) (e : Panic) (h : spliceNodeG parse b = .error e) : ∃ p, e = .inline p := by
  match b with
  | ⟨k, r, cs⟩ =>
    simp only [spliceNodeG] at h
    split at h
    · rename_i e' he'; cases h; exact spliceListG_panic cs _ he'
    · cases h
theorem spliceListG_panic {parse : List Char → InlineOps.Srcmap → Except Inline.Panic (List Inline.Node)}
    (cs : List Block.BNode) (e : Panic) (h : spliceListG parse cs = .error e) : ∃ p, e = .inline p := by
  match cs with
  | [] => simp [spliceListG] at h
  | c :: rest =>
    simp only [spliceListG] at h
    split at h
    · split at h
      · cases h; exact ⟨_, rfl⟩
      · split at h
        · rename_i e' he'; cases h; exact spliceListG_panic rest _ he'
        · cases h
    · split at h
      · rename_i e' he'; cases h; exact spliceNodeG_panic c _ he'
      · split at h
        · rename_i e' he'; cases h; exact spliceListG_panic rest _ he'
        · cases h
end

mutual
theorem spliceNodeG_every' {para markers : Bool}
    {parse : List Char → InlineOps.Srcmap → Except Inline.Panic (List Inline.Node)}
    (hp : ∀ c m ns, parse c m = .ok ns → ∀ x ∈ ofInlineList ns, Every (Spliced markers) x)
    (b : Block.BNode) (hw : Block.WFB para b)
    (hk : ∀ t m, b.kind ≠ .inlineRoot t m) (t : Node) (h : spliceNodeG parse b = .ok t) :
    Every (Spliced markers) t ∧ t.kind = .blk b.kind := by
  match b with
  | ⟨k, r, cs⟩ =>
    simp only [spliceNodeG] at h
    split at h
    · cases h
    · rename_i cs' hcs
      cases h
      exact ⟨.mk _ ⟨rfl, BlkOK_of_loc hw.at hk⟩ (spliceListG_every hp cs hw.child cs' hcs), rfl⟩
theorem spliceListG_every {para markers : Bool}
    {parse : List Char → InlineOps.Srcmap → Except Inline.Panic (List Inline.Node)}
    (hp : ∀ c m ns, parse c m = .ok ns → ∀ x ∈ ofInlineList ns, Every (Spliced markers) x)
    (cs : List Block.BNode)
    (hw : ∀ c ∈ cs, Block.WFB para c) (out : List Node) (h : spliceListG parse cs = .ok out) :
    ∀ c ∈ out, Every (Spliced markers) c := by
  match cs with
  | [] => simp [spliceListG] at h; subst h; simp
  | c :: rest =>
    have hrest : ∀ x ∈ rest, Block.WFB para x := fun x hx => hw x (List.mem_cons_of_mem _ hx)
    simp only [spliceListG] at h
    split at h
    · split at h
      · cases h
      · rename_i ns hns
        split at h
        · cases h
        · rename_i rest' hr
          cases h
          intro x hx
          rcases List.mem_append.mp hx with h1 | h1
          · exact hp _ _ ns hns x h1
          · exact spliceListG_every hp rest hrest rest' hr x h1
    · rename_i hne
      split at h
      · cases h
      · rename_i c' hc
        split at h
        · cases h
        · rename_i rest' hr
          cases h
          intro x hx
          rcases List.mem_cons.mp hx with rfl | hx
          · exact (spliceNodeG_every' hp c (hw c (by simp)) (fun t m e => hne t m e) _ hc).1
          · exact spliceListG_every hp rest hrest rest' hr x hx
end

theorem any_isEmph_filterMap (l : List InlineH.RuleIdH) :
    (l.filterMap InlineH.RuleIdH.base?).any Inline.RuleId.isEmph = l.any isEmphH := by
  induction l with
  | nil => rfl
  | cons r rs ih =>
    cases r with
    | base r => simp only [List.filterMap_cons, InlineH.RuleIdH.base?, List.any_cons, ih, isEmphH]
    | html => simp only [List.filterMap_cons, InlineH.RuleIdH.base?, List.any_cons, ih, isEmphH, Bool.false_or]

theorem hasEmph_inlineCfgH (cfg : DocCfgH) (refs : Refs.RefMap) :
    (cfg.inlineCfg refs).base.hasEmph = cfg.hasJoin := any_isEmph_filterMap cfg.inlineChain

/-- what the placeholder parser with the html rule hands to the splice walk -/
theorem parseInlineH_spliced (cfg : DocCfgH) (refs : Refs.RefMap) (c : List Char) (m : InlineOps.Srcmap)
    (ns : List Inline.Node) (h : InlineH.parseInlineH (cfg.inlineCfg refs) c m = .ok ns) :
    ∀ x ∈ ofInlineList ns, Every (Spliced cfg.hasJoin) x := by
  have hv := InlineH.parseInlineH_vals (cfg.inlineCfg refs) (valOK_good (cfg.inlineCfg refs).base) h
  have := ofInlineList_every ns hv
  rw [hasEmph_inlineCfgH] at this
  exact this

/-- **The invariant of the parsed tree, with the html plugin** (`Pipeline.parseDoc_final`): whatever
    `parseDocH` returns is rooted at `Root` and every node of it is `Final` — its attributes are all
    `data-sourcepos`, its value is no `InlineRoot`, no `EmphMarker`, ATX levels in `1..6`, setext levels
    in `1..2`.  For EVERY configuration over the extended enumerations. -/
theorem parseDocH_final {cfg : DocCfgH} {src : List Char} {t : Node} (h : parseDocH cfg src = .ok t) :
    Every Final t ∧ t.kind = .blk .root := by
  unfold parseDocH at h
  split at h
  · cases h
  · rename_i root refs hb
    obtain ⟨hroot, hwf⟩ := BlockH.parseBlocksH_wf hb
    unfold afterBlocksH at h
    split at h
    · cases h
    · rename_i t0 hs
      obtain ⟨he0, hk0⟩ := spliceNodeG_every' (parseInlineH_spliced cfg refs) root hwf (by rw [hroot]; simp) t0 hs
      rw [hroot] at hk0
      have h1 : Every (Spliced false) (if cfg.hasJoin = true then joinNode t0 else t0) ∧
          (if cfg.hasJoin = true then joinNode t0 else t0).kind = .blk .root := by
        cases hj : cfg.hasJoin with
        | true =>
          rw [hj] at he0
          simp only [if_true]
          exact ⟨joinNode_every he0 (by rw [hk0]; rfl), by rw [joinNode_kind, hk0]⟩
        | false =>
          rw [hj] at he0
          simp only [Bool.false_eq_true, if_false]
          exact ⟨he0, hk0⟩
      have h2 := h1.1.imp (fun n => Spliced.final)
      simp only at h
      split at h
      · obtain ⟨h3, h4⟩ := sourceposNode_every _ _ h2 h
        exact ⟨h3, by rw [h4]; exact h1.2⟩
      · cases h
        exact ⟨h2, h1.2⟩

/-- **(b), parse**: for every configuration (html rules anywhere, either or both) and every source,
    `parseDocH` either returns a tree or fails inside one of the `md.inline.parse` calls: the block
    pass with the html rule is total, the splice walk, the join pass and `SyntaxPosRule` add no panic. -/
theorem parseDocH_panic_inline_only {cfg : DocCfgH} {src : List Char} {e : Panic}
    (h : parseDocH cfg src = .error e) : ∃ p, e = .inline p := by
  obtain ⟨root, refs, hb⟩ := BlockH.parseBlocksH_total cfg.blockCfg src
  unfold parseDocH at h
  rw [hb] at h
  simp only at h
  unfold afterBlocksH at h
  split at h
  · rename_i e' he'
    cases h
    exact spliceNodeG_panic _ _ he'
  · simp only at h
    split at h
    · obtain ⟨t', ht'⟩ := sourceposNode_total src (if cfg.hasJoin = true then joinNode _ else _)
      rw [ht'] at h
      cases h
    · cases h

/-- the block pass always hands a tree to the inline pass -/
theorem parseDocH_blocks_ok (cfg : DocCfgH) (src : List Char) :
    ∃ root refs, BlockH.parseBlocksH cfg.blockCfg src = .ok (root, refs) ∧
      parseDocH cfg src = afterBlocksH cfg src root refs := by
  obtain ⟨root, refs, hb⟩ := BlockH.parseBlocksH_total cfg.blockCfg src
  exact ⟨root, refs, hb, by unfold parseDocH; rw [hb]⟩

/-! ### the projection: every node of the rendered tree comes from a node of the document -/

mutual
/-- every node of a document tree, pre-order -/
def dnodes : Node → List Node
  | ⟨k, r, a, cs⟩ => ⟨k, r, a, cs⟩ :: dnodesList cs
def dnodesList : List Node → List Node
  | [] => []
  | c :: cs => dnodes c ++ dnodesList cs
end

mutual
theorem every_dnodes {P : Node → Prop} (t : Node) (h : Every P t) : ∀ n ∈ dnodes t, P n := by
  match t with
  | ⟨k, r, a, cs⟩ =>
    intro n hn
    simp only [dnodes, List.mem_cons] at hn
    rcases hn with rfl | hn
    · exact h.here
    · exact every_dnodesList cs h.child n hn
theorem every_dnodesList {P : Node → Prop} (cs : List Node) (h : ∀ c ∈ cs, Every P c) :
    ∀ n ∈ dnodesList cs, P n := by
  match cs with
  | [] => simp [dnodesList]
  | c :: r =>
    intro n hn
    simp only [dnodesList, List.mem_append] at hn
    rcases hn with hn | hn
    · exact every_dnodes c (h c (by simp)) n hn
    · exact every_dnodesList r (fun y hy => h y (List.mem_cons_of_mem _ hy)) n hn
end

mutual
theorem toRenderH_nodes (hb hi : Bool) (lp : List Char) (t : Node) :
    ∀ m ∈ NodeRender.nodes (toRenderH hb hi lp t), ∃ n ∈ dnodes t,
      m.kind = kindToRenderH hb hi lp n.kind ∧ m.attrs = n.attrs := by
  match t with
  | ⟨k, r, a, cs⟩ =>
    intro m hm
    simp only [toRenderH, NodeRender.nodes, List.mem_cons] at hm
    rcases hm with rfl | hm
    · exact ⟨⟨k, r, a, cs⟩, by simp [dnodes], rfl, rfl⟩
    · obtain ⟨n, hn, h1⟩ := toRenderListH_nodes hb hi lp cs m hm
      exact ⟨n, by simp only [dnodes, List.mem_cons]; exact .inr hn, h1⟩
theorem toRenderListH_nodes (hb hi : Bool) (lp : List Char) (cs : List Node) :
    ∀ m ∈ NodeRender.nodesList (toRenderListH hb hi lp cs), ∃ n ∈ dnodesList cs,
      m.kind = kindToRenderH hb hi lp n.kind ∧ m.attrs = n.attrs := by
  match cs with
  | [] => simp [toRenderListH, NodeRender.nodesList]
  | c :: r =>
    intro m hm
    simp only [toRenderListH, NodeRender.nodesList, List.mem_append] at hm
    rcases hm with hm | hm
    · obtain ⟨n, hn, h1⟩ := toRenderH_nodes hb hi lp c m hm
      exact ⟨n, by simp only [dnodesList, List.mem_append]; exact .inl hn, h1⟩
    · obtain ⟨n, hn, h1⟩ := toRenderListH_nodes hb hi lp r m hm
      exact ⟨n, by simp only [dnodesList, List.mem_append]; exact .inr hn, h1⟩
end

/-- the projection of a value: an html kind (decoded), or what `Pipeline.Kind.toRender` gives -/
theorem kindToRenderH_cases (hb hi : Bool) (lp : List Char) (k : Kind) :
    (hb = true ∧ ∃ b c, k = .blk b ∧ BlockH.htmlContent? b = some c ∧ kindToRenderH hb hi lp k = .htmlBlock c) ∨
    (hi = true ∧ ∃ v c, k = .inl v ∧ InlineH.htmlContent? v = some c ∧ kindToRenderH hb hi lp k = .htmlInline c) ∨
    kindToRenderH hb hi lp k = k.toRender lp := by
  cases k with
  | blk b =>
    cases hb with
    | false => exact .inr (.inr rfl)
    | true =>
      cases hc : BlockH.htmlContent? b with
      | none => refine .inr (.inr ?_); simp only [kindToRenderH, hc]
      | some c => refine .inl ⟨rfl, b, c, rfl, hc, ?_⟩; simp only [kindToRenderH, hc]
  | inl v =>
    cases hi with
    | false => exact .inr (.inr rfl)
    | true =>
      cases hc : InlineH.htmlContent? v with
      | none => refine .inr (.inr ?_); simp only [kindToRenderH, hc]
      | some c => refine .inr (.inl ⟨rfl, v, c, rfl, hc, ?_⟩); simp only [kindToRenderH, hc]

/-- a final value projects to a kind whose `render` does not panic (the html kinds never do) -/
theorem kindToRenderH_panic (hb hi : Bool) (lp : List Char) (k : Kind) (hk : KindOK false k) :
    (kindToRenderH hb hi lp k).panic? = none := by
  rcases kindToRenderH_cases hb hi lp k with ⟨_, b, c, _, _, e⟩ | ⟨_, v, c, _, _, e⟩ | e
  · rw [e]; rfl
  · rw [e]; rfl
  · rw [e]; exact (NodeRender.Kind.panic?_eq_none_iff _).mpr (toRender_level lp k hk)

theorem final_renderableH (hb hi : Bool) (lp : List Char) (t : Node) (he : Every Final t) :
    NodeRender.Renderable (toRenderH hb hi lp t) ∧ NodeRender.AttrsSourcepos (toRenderH hb hi lp t) := by
  constructor
  · intro m hm
    obtain ⟨n, hn, hk, _⟩ := toRenderH_nodes hb hi lp t m (NodeRender.visited_subset_nodes _ m hm)
    rw [hk]
    exact kindToRenderH_panic hb hi lp n.kind (every_dnodes t he n hn).2
  · intro m hm
    obtain ⟨n, hn, _, ha⟩ := toRenderH_nodes hb hi lp t m (NodeRender.visited_subset_nodes _ m hm)
    rw [ha]
    exact (every_dnodes t he n hn).1

/-- **`docH_render_total`**: `render` / `xrender` of a tree parsed with the html plugin never panic -/
theorem docH_render_total (cfg : DocCfgH) (src : List Char) (t : Node) (h : parseDocH cfg src = .ok t) :
    ∃ evs, renderEventsH cfg t = .ok evs ∧ ∀ x, renderDocH x cfg src = .ok (Render.serialize x evs) := by
  obtain ⟨evs, he⟩ := (NodeRender.render_total cfg.entity _).mpr
    (final_renderableH cfg.htmlBlock cfg.htmlInline cfg.langPrefix t (parseDocH_final h).1).1
  refine ⟨evs, by simp [renderEventsH, he], fun x => ?_⟩
  simp [renderDocH, h, renderEventsH, he]

/-- **(b), render**: a panic of `src ↦ html` (either serializer) with raw HTML enabled is a panic of
    one of the inline runs -/
theorem renderDocH_panic_inline_only {x : Bool} {cfg : DocCfgH} {src : List Char} {e : Panic}
    (h : renderDocH x cfg src = .error e) : ∃ p, e = .inline p := by
  cases hp : parseDocH cfg src with
  | error e' =>
    have : renderDocH x cfg src = .error e' := by simp [renderDocH, hp]
    rw [this] at h; cases h
    exact parseDocH_panic_inline_only hp
  | ok t =>
    obtain ⟨evs, _, hr⟩ := docH_render_total cfg src t hp
    rw [hr x] at h; cases h

/-! ## (d) every `raw` event comes from an html node -/

/-- **(d)**: every `text_raw` call of the rendering of a document tree hands over the content of an
    html node of that tree, and of the kind whose rule is loaded: an `HtmlBlock` (only when the html
    block rule is in the block chain) or an `HtmlInline` (only when the html inline rule is in the
    inline chain).  For ANY tree (not only parsed ones). -/
theorem renderEventsH_raw_only_from_html (cfg : DocCfgH) (t : Node) (evs : List Render.Event)
    (h : renderEventsH cfg t = .ok evs) (s : List Char) (hs : Render.Event.raw s ∈ evs) :
    ∃ n ∈ dnodes t,
      (cfg.htmlBlock = true ∧ ∃ b, n.kind = .blk b ∧ BlockH.htmlContent? b = some s) ∨
      (cfg.htmlInline = true ∧ ∃ v, n.kind = .inl v ∧ InlineH.htmlContent? v = some s) := by
  unfold renderEventsH at h
  split at h
  · cases h
  · rename_i evs' he
    cases h
    have hr := NodeRender.html_nodes_are_the_only_raw cfg.entity _ evs he
    rw [← NodeRender.mem_rawsOf, hr, List.mem_filterMap] at hs
    obtain ⟨m, hm, hc⟩ := hs
    obtain ⟨n, hn, hk, _⟩ := toRenderH_nodes _ _ _ t m (NodeRender.visited_subset_nodes _ m hm)
    refine ⟨n, hn, ?_⟩
    rw [hk] at hc
    rcases kindToRenderH_cases cfg.htmlBlock cfg.htmlInline cfg.langPrefix n.kind with
      ⟨h1, b, c, e1, e2, e3⟩ | ⟨h1, v, c, e1, e2, e3⟩ | e
    · rw [e3] at hc
      simp only [NodeRender.Kind.htmlContent?, Option.some.injEq] at hc
      exact .inl ⟨h1, b, e1, hc ▸ e2⟩
    · rw [e3] at hc
      simp only [NodeRender.Kind.htmlContent?, Option.some.injEq] at hc
      exact .inr ⟨h1, v, e1, hc ▸ e2⟩
    · rw [e] at hc
      have := toRender_not_html cfg.langPrefix n.kind
      cases hk' : Kind.toRender cfg.langPrefix n.kind <;> rw [hk'] at hc <;>
        simp [NodeRender.Kind.htmlContent?] at hc
      · exact absurd hk' (this.1 _)
      · exact absurd hk' (this.2 _)

/-- **(d), whole pipeline** -/
theorem renderDocH_raw_only_from_html (cfg : DocCfgH) (src : List Char) (t : Node) (evs : List Render.Event)
    (_hp : parseDocH cfg src = .ok t) (h : renderEventsH cfg t = .ok evs) (s : List Char)
    (hs : Render.Event.raw s ∈ evs) :
    ∃ n ∈ dnodes t,
      (cfg.htmlBlock = true ∧ ∃ b, n.kind = .blk b ∧ BlockH.htmlContent? b = some s) ∨
      (cfg.htmlInline = true ∧ ∃ v, n.kind = .inl v ∧ InlineH.htmlContent? v = some s) :=
  renderEventsH_raw_only_from_html cfg t evs h s hs

/-- **(d), plugin off**: without the two html rules the rendering issues no `text_raw` call at all —
    the C03 statement about html-free configurations is untouched -/
theorem renderEventsH_no_raw (cfg : DocCfgH) (hb : cfg.htmlBlock = false) (hi : cfg.htmlInline = false)
    (t : Node) (evs : List Render.Event) (h : renderEventsH cfg t = .ok evs) :
    ∀ s, Render.Event.raw s ∉ evs := by
  intro s hs
  obtain ⟨n, _, ⟨h1, _⟩ | ⟨h1, _⟩⟩ := renderEventsH_raw_only_from_html cfg t evs h s hs
  · rw [hb] at h1; cases h1
  · rw [hi] at h1; cases h1

/-! ## (c) totality

    `docH_total_of_inline`: the whole pipeline with the html plugin is total RELATIVE to the inline runs.
    `docH_total_of_docMemoSafeH`: … hence on every document that passes the executable memo check
    (`InlineH.memoSafeH`; any chain, link / image included).
    `doc_totalH_flat_of_tables`: for every configuration whose inline chain has neither the link nor the
    image rule (html anywhere, emphasis markers single bytes) every source whose placeholder tables are
    `MapOK` and whose placeholder contents are within `SizeOK` parses and renders in both serializers.

    `docH_tables_mapOK`: the table hypothesis DISCHARGED for tab-free sources: `Pipeline.doc_placeholder_tables`
    lifts to the ten-rule block engine (`Lemmas/PipelineHGeo.lean`: `Block.tokLoop_geo2` / `c05s_tokLoop_nr` are
    generic in the runner and apply through `BlockH.tokLoopG_eq`, the nine rules' lemmas verbatim, the html rule
    by `html_geo` — the proof text of `Block.fence_geo` — and `html_nr`).
    `doc_totalH_flat`: paragraph rule, raw HTML on, no link / image rule, tab-free source within the `i32` bound
    of the block side: total in both serializers, under ONE residual hypothesis — every placeholder content is
    within the size bound of the inline side.

    OPEN: `doc_totalH_flat` without `hlen`.  Missing, precisely: a bound `|content| ≤ |src|` at every
    placeholder of the block tree (then `4 * |src| + 8 < 2^31` and `max_nesting < 2^30` give `InlineH.SizeOK`);
    no existing lemma states it (`Block.PMapF` bounds translated POSITIONS, not the content length; it would
    come from `Lines.get_lines_faithful` for tab-free lines).  The html-free flat theorem
    (`Inline.parseInline_no_panic_flat`) needs no size bound: the bound is new with `link_level`. -/

mutual
theorem spliceNodeG_total {parse : List Char → InlineOps.Srcmap → Except Inline.Panic (List Inline.Node)}
    (b : Block.BNode) (h : Placeholders (fun c m => ∃ cs, parse c m = .ok cs) b) :
    ∃ t, spliceNodeG parse b = .ok t := by
  match b with
  | ⟨k, r, cs⟩ =>
    simp only [Placeholders] at h
    obtain ⟨cs', hcs⟩ := spliceListG_total cs h.2
    have : spliceNodeG parse ⟨k, r, cs⟩ = .ok ⟨.blk k, r, [], cs'⟩ := by simp only [spliceNodeG, hcs]
    exact ⟨_, this⟩
theorem spliceListG_total {parse : List Char → InlineOps.Srcmap → Except Inline.Panic (List Inline.Node)}
    (cs : List Block.BNode) (h : PlaceholdersList (fun c m => ∃ cs, parse c m = .ok cs) cs) :
    ∃ out, spliceListG parse cs = .ok out := by
  match cs with
  | [] => exact ⟨[], by simp [spliceListG]⟩
  | c :: rest =>
    simp only [PlaceholdersList] at h
    obtain ⟨rest', hrest⟩ := spliceListG_total rest h.2
    match c, h.1 with
    | ⟨k, r, ccs⟩, hc =>
      simp only [Placeholders] at hc
      by_cases hk : ∃ content mapping, k = .inlineRoot content mapping
      · obtain ⟨content, mapping, rfl⟩ := hk
        obtain ⟨ns, hns⟩ := hc.1
        have : spliceListG parse (⟨.inlineRoot content mapping, r, ccs⟩ :: rest)
            = .ok (ofInlineList ns ++ rest') := by simp only [spliceListG, hns, hrest]
        exact ⟨_, this⟩
      · obtain ⟨c', hc'⟩ := spliceNodeG_total (parse := parse) ⟨k, r, ccs⟩
          (by simp only [Placeholders]; exact hc)
        have : spliceListG parse (⟨k, r, ccs⟩ :: rest) = .ok (c' :: rest') := by
          simp only [spliceListG]
          split
          · exact absurd ⟨_, _, rfl⟩ hk
          · simp only [hc', hrest]
        exact ⟨_, this⟩
end

/-- **(c), relative to the inline runs**: if every `md.inline.parse` call the document makes returns a
    tree, `md.parse(src)` returns a tree and both renderers return a string — every configuration with the
    html plugin, every source -/
theorem docH_total_of_inline (cfg : DocCfgH) (src : List Char)
    (h : ∀ root refs, BlockH.parseBlocksH cfg.blockCfg src = .ok (root, refs) →
      Placeholders (fun c m => ∃ cs, InlineH.parseInlineH (cfg.inlineCfg refs) c m = .ok cs) root) :
    (∃ t, parseDocH cfg src = .ok t) ∧ ∀ x, ∃ html, renderDocH x cfg src = .ok html := by
  obtain ⟨root, refs, hb, hp⟩ := parseDocH_blocks_ok cfg src
  obtain ⟨t0, ht0⟩ := spliceNodeG_total root (h root refs hb)
  have hdoc : ∃ t, parseDocH cfg src = .ok t := by
    rw [hp]
    unfold afterBlocksH
    rw [ht0]
    simp only
    split
    · exact sourceposNode_total src _
    · exact ⟨_, rfl⟩
  refine ⟨hdoc, ?_⟩
  obtain ⟨t, ht⟩ := hdoc
  obtain ⟨evs, _, hr⟩ := docH_render_total cfg src t ht
  exact fun x => ⟨_, hr x⟩

theorem placeholders_imp {P Q : List Char → List (Nat × Nat) → Prop} (hpq : ∀ c m, P c m → Q c m) :
    ∀ n : Nat, (∀ b : Block.BNode, sizeOf b ≤ n → Placeholders P b → Placeholders Q b) ∧
      (∀ l : List Block.BNode, sizeOf l ≤ n → PlaceholdersList P l → PlaceholdersList Q l) := by
  intro n
  induction n with
  | zero =>
    constructor
    · intro b hb; cases b; simp at hb
    · intro l hl
      cases l with
      | nil => intro _; simp [PlaceholdersList]
      | cons c cs => simp at hl
  | succ n ih =>
    constructor
    · intro b hb hP
      match b, hb, hP with
      | ⟨k, r, cs⟩, hb, hP =>
        simp only [Placeholders] at hP ⊢
        refine ⟨?_, ih.2 cs (by simp at hb; omega) hP.2⟩
        cases k <;> first | trivial | exact hpq _ _ hP.1
    · intro l hl hP
      cases l with
      | nil => simp [PlaceholdersList]
      | cons c cs =>
        simp only [PlaceholdersList] at hP ⊢
        simp at hl
        exact ⟨ih.1 c (by omega) hP.1, ih.2 cs (by omega) hP.2⟩

/-- the memo check of a whole document with the html plugin: every inline run passes `InlineH.memoSafeH` -/
def docMemoSafeH (cfg : DocCfgH) (src : List Char) : Bool :=
  match BlockH.parseBlocksH cfg.blockCfg src with
  | .error _ => false
  | .ok (root, refs) => placeholdersB (fun c m => InlineH.memoSafeH (cfg.inlineCfg refs) c m) root

/-- **`md.parse` / `render` / `xrender` with the html plugin are total on every document that passes the
    memo check** (any chain: link, image, html, …; an executable hypothesis) -/
theorem docH_total_of_docMemoSafeH (cfg : DocCfgH) (src : List Char) (h : docMemoSafeH cfg src = true) :
    (∃ t, parseDocH cfg src = .ok t) ∧ ∀ x, ∃ html, renderDocH x cfg src = .ok html := by
  apply docH_total_of_inline
  intro root refs hb
  unfold docMemoSafeH at h
  rw [hb] at h
  exact (placeholders_imp (fun c m hm => InlineH.parseInlineH_total_of_memoSafeH _ hm) (sizeOf root)).1 root
    (Nat.le_refl _) (placeholdersB_sound root h)

/-- **(c) `doc_totalH_flat`, relative to the placeholder tables**: raw HTML on (or off), an inline chain
    without the link and the image rule, emphasis markers single bytes: every source whose placeholders
    have well-formed tables (`Inline.MapOK`) and contents within the size bound of the inline side
    (`2 * |content| + max_nesting < 2^31 - 1`) parses and renders in both serializers without panic. -/
theorem doc_totalH_flat_of_tables (cfg : DocCfgH) (src : List Char)
    (hfl : InlineH.RuleIdH.base .link ∉ cfg.inlineChain ∧ InlineH.RuleIdH.base .image ∉ cfg.inlineChain)
    (hsz : ∀ mk csw, InlineH.RuleIdH.base (.emph mk csw) ∈ cfg.inlineChain → mk.utf8Size = 1)
    (htab : ∀ root refs, BlockH.parseBlocksH cfg.blockCfg src = .ok (root, refs) →
      Placeholders (fun c m => Inline.MapOK c m ∧ 2 * InlineOps.byteLen c + cfg.maxNesting < 2 ^ 31 - 1) root) :
    (∃ t, parseDocH cfg src = .ok t) ∧ ∀ x, ∃ html, renderDocH x cfg src = .ok html := by
  apply docH_total_of_inline
  intro root refs hb
  exact (placeholders_imp (fun c m hm =>
    InlineH.parseInlineH_total_flat (cfg.inlineCfg refs) hfl hsz hm.1 hm.2) (sizeOf root)).1 root
    (Nat.le_refl _) (htab root refs hb)


/-- every placeholder of a tab-free document parsed with the html block rule has a `MapOK` table -/
theorem docH_tables_mapOK (cfg : DocCfgH) (src : List Char)
    (hsmall : 4 * Lines.byteLen src + 8 < 2147483648) (hpara : BlockH.hasParaH cfg.blockChain = true)
    (htab : '\t' ∉ src) {root : Block.BNode} {refs : Refs.RefMap}
    (hb : BlockH.parseBlocksH cfg.blockCfg src = .ok (root, refs)) :
    Block.AllInl (fun c m => Inline.MapOK c m) root :=
  (BlockH.parseBlocksH_placeholder_tables cfg.blockCfg src hsmall hpara hb).2.imp
    (fun _ _ ⟨_, _, h⟩ => h.2.2.2.2.1 (h.2.2.2.2.2.1 htab))

/-- **(c) `doc_totalH_flat`**: every configuration with the paragraph rule, raw HTML on (block and / or
    inline rule anywhere in the chains), an inline chain without the link and the image rule, emphasis
    markers single bytes, any `max_nesting`, sourcepos on or off: every TAB-FREE source within the `i32`
    bound of the block side whose placeholder contents are within the size bound of the inline side
    (`hlen`, see OPEN above) parses and renders in both serializers without panic. -/
theorem doc_totalH_flat (cfg : DocCfgH) (src : List Char)
    (hfl : InlineH.RuleIdH.base .link ∉ cfg.inlineChain ∧ InlineH.RuleIdH.base .image ∉ cfg.inlineChain)
    (hsz : ∀ mk csw, InlineH.RuleIdH.base (.emph mk csw) ∈ cfg.inlineChain → mk.utf8Size = 1)
    (hpara : BlockH.hasParaH cfg.blockChain = true)
    (hsmall : 4 * Lines.byteLen src + 8 < 2147483648) (htab : '\t' ∉ src)
    (hlen : ∀ root refs, BlockH.parseBlocksH cfg.blockCfg src = .ok (root, refs) →
      Block.AllInl (fun c _ => 2 * InlineOps.byteLen c + cfg.maxNesting < 2 ^ 31 - 1) root) :
    (∃ t, parseDocH cfg src = .ok t) ∧ ∀ x, ∃ html, renderDocH x cfg src = .ok html := by
  apply doc_totalH_flat_of_tables cfg src hfl hsz
  intro root refs hb
  have hall := allInl_and (Q3 := fun c m => Inline.MapOK c m ∧ 2 * InlineOps.byteLen c + cfg.maxNesting < 2 ^ 31 - 1)
    (fun _ _ h1 h2 => ⟨h1, h2⟩) (docH_tables_mapOK cfg src hsmall hpara htab hb) (hlen root refs hb)
  exact (placeholders_of_allInl _ (sizeOf root)).1 root (Nat.le_refl _) hall (BlockH.parseBlocksH_inlNoRange hb)

/-! ## (e) line endings -/

open MdIt.Lines (lfToCr) in
/-- **(e) LF ↦ CR, parse** (sourcepos off): the SAME tree, ranges included — an equation, for every
    configuration with the html plugin, no fuel / panic hypothesis (`BlockH.parseBlocksH_cr`) -/
theorem parseDocH_cr (cfg : DocCfgH) (src : List Char) (hsp : cfg.sourcepos = false) (hcr : '\r' ∉ src) :
    parseDocH cfg (lfToCr src) = parseDocH cfg src := by
  unfold parseDocH
  rw [BlockH.parseBlocksH_cr cfg.blockCfg src hcr]
  cases BlockH.parseBlocksH cfg.blockCfg src with
  | error e => rfl
  | ok w =>
    obtain ⟨root, refs⟩ := w
    simp only [afterBlocksH, hsp]
    rfl

open MdIt.Lines (lfToCr) in
/-- **(e) LF ↦ CR, render**: the same output in both serializers -/
theorem renderDocH_cr (x : Bool) (cfg : DocCfgH) (src : List Char) (hsp : cfg.sourcepos = false)
    (hcr : '\r' ∉ src) : renderDocH x cfg (lfToCr src) = renderDocH x cfg src := by
  unfold renderDocH
  rw [parseDocH_cr cfg src hsp hcr]

/-! ## non-vacuity examples (by evaluation) -/

section examples

/-- `Pipeline.exCfg` (all of cmark, `*` `_` `~~`) + both html rules where `cmark::add`, `html::add` put
    them: `html_block` in front of the heading rule, `html_inline` behind the cmark inline rules -/
def exCfgH (sp : Bool) (mn : Nat) : DocCfgH :=
  { DocCfgH.ofCfg (exCfg sp mn) with
    blockChain := BlockH.stockH
    inlineChain := (exCfg sp mn).inlineChain.map .base ++ [.html] }

/-- the same without the link and the image rule (the flat case of (c)) -/
def exFlatH (sp : Bool) (mn : Nat) : DocCfgH :=
  { exCfgH sp mn with
    inlineChain := [.base .text, .base .newline, .base .escape, .base .backticks, .base (.emph '*' true),
                    .base (.emph '_' false), .base .autolink, .base .entity, .base (.emph '~' true), .html] }

def exDoc : List Char := "a <b>c</b>\n\n<div>\n*x*\n</div>\n\n> <!-- c -->".toList

deriving instance DecidableEq for Except

-- the document of the task: inline tags in a paragraph, an html block (no emphasis inside), a comment
-- block inside a quote; `render` and `xrender`
example : renderDocH false (exCfgH false 100) exDoc =
    .ok "<p>a <b>c</b></p>\n<div>\n*x*\n</div>\n<blockquote>\n<!-- c -->\n</blockquote>\n".toList := by
  decide +kernel
example : renderDocH true (exCfgH true 100) "<hr>\n\n***\na<br>\nb".toList =
    .ok "<hr>\n<hr data-sourcepos=\"3:1-3:3\" />\n<p data-sourcepos=\"4:1-5:1\">a<br>\nb</p>\n".toList := by
  decide +kernel
-- only the block rule / only the inline rule / neither (conservativity side: escaped text)
example : renderDocH false { exCfgH false 100 with inlineChain := (exCfg false 100).inlineChain.map .base } exDoc =
    .ok "<p>a &lt;b&gt;c&lt;/b&gt;</p>\n<div>\n*x*\n</div>\n<blockquote>\n<!-- c -->\n</blockquote>\n".toList := by
  decide +kernel
example : renderDocH false { exCfgH false 100 with blockChain := (exCfg false 100).blockChain.map .base } exDoc =
    .ok "<p>a <b>c</b></p>\n<p><div>\n<em>x</em>\n</div></p>\n<blockquote>\n<p><!-- c --></p>\n</blockquote>\n".toList := by
  decide +kernel
example : renderDocH false (DocCfgH.ofCfg (exCfg false 100)) "a <b>c</b>\n\n<div>".toList =
    renderDoc false (exCfg false 100) "a <b>c</b>\n\n<div>".toList ∧
    renderDoc false (exCfg false 100) "a <b>c</b>\n\n<div>".toList =
      .ok "<p>a &lt;b&gt;c&lt;/b&gt;</p>\n<p>&lt;div&gt;</p>\n".toList := by
  decide +kernel
-- (b)/(c): the document passes the memo check, so parse and both renderings are total (with link rules)
example : docMemoSafeH (exCfgH true 100) exDoc = true := by decide +kernel
example : ∀ x, ∃ html, renderDocH x (exCfgH true 100) exDoc = .ok html :=
  (docH_total_of_docMemoSafeH _ _ (by decide +kernel)).2
-- a tag inside a link label, a link inside `<a>`…`</a>`: still total
example : docMemoSafeH (exCfgH false 100) "[a <b c=\"]\"> d](u) <a>[x](v)</a>\n\n- <pre>\n  y".toList = true := by
  decide +kernel
-- (c) flat: the hypotheses of `doc_totalH_flat_of_tables` on the chain side hold for `exFlatH`
example : (InlineH.RuleIdH.base .link ∉ (exFlatH false 100).inlineChain ∧
    InlineH.RuleIdH.base .image ∉ (exFlatH false 100).inlineChain) ∧
    ∀ mk csw, InlineH.RuleIdH.base (.emph mk csw) ∈ (exFlatH false 100).inlineChain → mk.utf8Size = 1 := by
  refine ⟨by decide, ?_⟩
  intro mk csw h
  simp only [exFlatH, List.mem_cons, InlineH.RuleIdH.base.injEq, Inline.RuleId.emph.injEq, reduceCtorEq,
    false_or, or_false, List.not_mem_nil] at h
  rcases h with ⟨rfl, _⟩ | ⟨rfl, _⟩ | ⟨rfl, _⟩ <;> decide
example : renderDocH false (exFlatH false 100) exDoc =
    .ok "<p>a <b>c</b></p>\n<div>\n*x*\n</div>\n<blockquote>\n<!-- c -->\n</blockquote>\n".toList := by
  decide +kernel
-- `doc_totalH_flat` on the example: every hypothesis holds (the residual `hlen` by evaluation)
example : BlockH.hasParaH (exFlatH false 100).blockChain = true ∧ '\t' ∉ exDoc ∧
    4 * Lines.byteLen exDoc + 8 < 2147483648 ∧
    (match BlockH.parseBlocksH (exFlatH false 100).blockCfg exDoc with
     | .ok (root, _) => placeholdersB (fun c _ => decide (2 * InlineOps.byteLen c + 100 < 2 ^ 31 - 1)) root
     | .error _ => false) = true := by decide +kernel

-- (d): the raw events of the example are the three html contents, in order
example : (match parseDocH (exCfgH false 100) exDoc with
    | .ok t => (match renderEventsH (exCfgH false 100) t with
                | .ok evs => some (NodeRender.rawsOf evs) | .error _ => none)
    | .error _ => none) =
    some ["<b>".toList, "</b>".toList, "<div>\n*x*\n</div>\n".toList, "<!-- c -->\n".toList] := by
  decide +kernel
-- (e): CR line endings
example : renderDocH false (exCfgH false 100) (Lines.lfToCr exDoc) = renderDocH false (exCfgH false 100) exDoc :=
  renderDocH_cr _ _ _ rfl (by decide)
example : Lines.lfToCr exDoc = "a <b>c</b>\r\r<div>\r*x*\r</div>\r\r> <!-- c -->".toList := by decide +kernel
-- the join pass does not merge text ACROSS an html node, and leaves the node alone ("a*<b>*c": both `*`
-- become text again, one on each side of the tag)
example : (match parseDocH (exCfgH false 100) "a*<b>*c".toList with
    | .ok t => t.children.map (fun p => p.children.map (fun n => n.kind))
    | .error _ => []) =
    [[.inl (.text "a*".toList), .inl (InlineH.htmlVal "<b>".toList), .inl (.text "*c".toList)]] := by
  decide +kernel

end examples


/-! # Follow-up: source-only flat totality, C14 and C05 (root) with the html plugin -/

/-! ## (c'), follow-up: `doc_totalH_flat` with hypotheses on the SOURCE only -/

/-- **(c) `doc_totalH_flat_src`** — `doc_totalH_flat` without its residual hypothesis: every configuration
    with the paragraph rule, raw HTML on (block and / or inline rule anywhere), an inline chain without the
    link and the image rule, emphasis markers single bytes, `max_nesting ≤ 2^30`, sourcepos on or off: EVERY
    tab-free source with `4 * |src| + 8 < 2^31` parses and renders in both serializers without panic.
    (The content of every placeholder is no longer than the source: `BlockH.parseBlocksH_content_len`.) -/
theorem doc_totalH_flat_src (cfg : DocCfgH) (src : List Char)
    (hfl : InlineH.RuleIdH.base .link ∉ cfg.inlineChain ∧ InlineH.RuleIdH.base .image ∉ cfg.inlineChain)
    (hsz : ∀ mk csw, InlineH.RuleIdH.base (.emph mk csw) ∈ cfg.inlineChain → mk.utf8Size = 1)
    (hpara : BlockH.hasParaH cfg.blockChain = true) (hmn : cfg.maxNesting ≤ 1073741824)
    (hsmall : 4 * Lines.byteLen src + 8 < 2147483648) (htab : '\t' ∉ src) :
    (∃ t, parseDocH cfg src = .ok t) ∧ ∀ x, ∃ html, renderDocH x cfg src = .ok html := by
  refine doc_totalH_flat cfg src hfl hsz hpara hsmall htab ?_
  intro root refs hb
  refine (BlockH.parseBlocksH_content_len cfg.blockCfg src hsmall hpara htab hb).imp ?_
  intro c _ h
  rw [C05I.linesLen_eq c] at h
  show 2 * InlineOps.byteLen c + cfg.maxNesting < 2147483647
  omega

/-- the content bound itself, at document level -/
theorem docH_content_len (cfg : DocCfgH) (src : List Char)
    (hsmall : 4 * Lines.byteLen src + 8 < 2147483648) (hpara : BlockH.hasParaH cfg.blockChain = true)
    (htab : '\t' ∉ src) {root : Block.BNode} {refs : Refs.RefMap}
    (hb : BlockH.parseBlocksH cfg.blockCfg src = .ok (root, refs)) :
    Block.AllInl (fun c _ => Lines.byteLen c ≤ Lines.byteLen src) root :=
  BlockH.parseBlocksH_content_len cfg.blockCfg src hsmall hpara htab hb

-- non-vacuity: the flat configuration on the example document, every hypothesis by evaluation
example : (∃ t, parseDocH (exFlatH true 100) exDoc = .ok t) ∧
    ∀ x, ∃ html, renderDocH x (exFlatH true 100) exDoc = .ok html := by
  refine doc_totalH_flat_src _ _ (by decide) ?_ (by decide) (by decide) (by decide +kernel) (by decide +kernel)
  intro mk csw h
  simp only [exFlatH, List.mem_cons, InlineH.RuleIdH.base.injEq, Inline.RuleId.emph.injEq, reduceCtorEq,
    false_or, or_false, List.not_mem_nil] at h
  rcases h with ⟨rfl, _⟩ | ⟨rfl, _⟩ | ⟨rfl, _⟩ <;> decide

/-! ## C14 with html: the parsed tree is well formed -/

theorem spliceNodeG_kind {parse : List Char → InlineOps.Srcmap → Except Inline.Panic (List Inline.Node)}
    {b : Block.BNode} {t : Node} (h : spliceNodeG parse b = .ok t) : t.kind = .blk b.kind := by
  obtain ⟨k, r, cs⟩ := b
  simp only [spliceNodeG] at h
  split at h
  · cases h
  · cases h; rfl

theorem spliceListG_kinds {parse : List Char → InlineOps.Srcmap → Except Inline.Panic (List Inline.Node)} :
    ∀ (cs : List Block.BNode) (out : List Node),
    spliceListG parse cs = .ok out → ∀ k' ∈ kinds out,
      (k'.isInline = true ∧ ∃ c ∈ cs, IsInl c.kind) ∨ (∃ c ∈ cs, k' = .blk c.kind ∧ ¬ IsInl c.kind)
  | [], out, h => by simp [spliceListG] at h; subst h; simp [kinds]
  | c :: rest, out, h => by
    simp only [spliceListG] at h
    split at h
    · rename_i content mapping hck
      split at h
      · cases h
      · rename_i ns hns
        split at h
        · cases h
        · rename_i rest' hr
          cases h
          intro k' hk'
          obtain ⟨x, hx, rfl⟩ := mem_kinds.mp hk'
          rcases List.mem_append.mp hx with h1 | h1
          · exact .inl ⟨ofInlineList_inline ns x h1, c, by simp, ⟨content, mapping, hck⟩⟩
          · rcases spliceListG_kinds rest rest' hr x.kind (mem_kinds.mpr ⟨x, h1, rfl⟩) with
              ⟨hi, c', hc', hci⟩ | ⟨c', hc', hk, hci⟩
            · exact .inl ⟨hi, c', List.mem_cons_of_mem _ hc', hci⟩
            · exact .inr ⟨c', List.mem_cons_of_mem _ hc', hk, hci⟩
    · rename_i hne
      split at h
      · cases h
      · rename_i c' hc
        split at h
        · cases h
        · rename_i rest' hr
          cases h
          intro k' hk'
          obtain ⟨x, hx, rfl⟩ := mem_kinds.mp hk'
          rcases List.mem_cons.mp hx with rfl | h1
          · exact .inr ⟨c, by simp, spliceNodeG_kind hc, fun ⟨t, m, e⟩ => hne t m e⟩
          · rcases spliceListG_kinds rest rest' hr x.kind (mem_kinds.mpr ⟨x, h1, rfl⟩) with
              ⟨hi, c', hc', hci⟩ | ⟨c', hc', hk, hci⟩
            · exact .inl ⟨hi, c', List.mem_cons_of_mem _ hc', hci⟩
            · exact .inr ⟨c', List.mem_cons_of_mem _ hc', hk, hci⟩

theorem spliceListG_nil {parse : List Char → InlineOps.Srcmap → Except Inline.Panic (List Inline.Node)}
    {out : List Node} (h : spliceListG parse [] = .ok out) : out = [] := by
  simp [spliceListG] at h; exact h

mutual
theorem spliceNodeG_wf' {para markers : Bool}
    {parse : List Char → InlineOps.Srcmap → Except Inline.Panic (List Inline.Node)}
    (hp : ∀ c m ns, parse c m = .ok ns → ∀ x ∈ ofInlineList ns, Every (LocN para markers false) x)
    (b : Block.BNode) (hw : Block.WFB para b)
    (hk : ¬ IsInl b.kind) (t : Node) (h : spliceNodeG parse b = .ok t) :
    Every (LocN para markers false) t := by
  match b with
  | ⟨k, r, cs⟩ =>
    simp only [spliceNodeG] at h
    split at h
    · cases h
    · rename_i cs' hcs
      cases h
      refine .mk _ ?_ (spliceListG_wf hp cs hw.child cs' hcs)
      exact locK_block hw.at hk (fun e => by subst e; exact congrArg kinds (spliceListG_nil hcs))
        (spliceListG_kinds cs cs' hcs)
theorem spliceListG_wf {para markers : Bool}
    {parse : List Char → InlineOps.Srcmap → Except Inline.Panic (List Inline.Node)}
    (hp : ∀ c m ns, parse c m = .ok ns → ∀ x ∈ ofInlineList ns, Every (LocN para markers false) x)
    (cs : List Block.BNode)
    (hw : ∀ c ∈ cs, Block.WFB para c) (out : List Node) (h : spliceListG parse cs = .ok out) :
    ∀ c ∈ out, Every (LocN para markers false) c := by
  match cs with
  | [] => simp [spliceListG] at h; subst h; simp
  | c :: rest =>
    have hrest : ∀ x ∈ rest, Block.WFB para x := fun x hx => hw x (List.mem_cons_of_mem _ hx)
    simp only [spliceListG] at h
    split at h
    · split at h
      · cases h
      · rename_i ns hns
        split at h
        · cases h
        · rename_i rest' hr
          cases h
          intro x hx
          rcases List.mem_append.mp hx with h1 | h1
          · exact hp _ _ ns hns x h1
          · exact spliceListG_wf hp rest hrest rest' hr x h1
    · rename_i hne
      split at h
      · cases h
      · rename_i c' hc
        split at h
        · cases h
        · rename_i rest' hr
          cases h
          intro x hx
          rcases List.mem_cons.mp hx with rfl | hx
          · exact spliceNodeG_wf' hp c (hw c (by simp)) (fun ⟨t, m, e⟩ => hne t m e) _ hc
          · exact spliceListG_wf hp rest hrest rest' hr x hx
end

theorem parseInlineH_wf (para : Bool) (cfg : DocCfgH) (refs : Refs.RefMap) (c : List Char) (m : InlineOps.Srcmap)
    (ns : List Inline.Node) (h : InlineH.parseInlineH (cfg.inlineCfg refs) c m = .ok ns) :
    ∀ x ∈ ofInlineList ns, Every (LocN para cfg.hasJoin false) x := by
  have hv := InlineH.parseInlineH_vals (cfg.inlineCfg refs) (valOK_good (cfg.inlineCfg refs).base) h
  have := ofInlineList_wf (para := para) ns hv
  rw [hasEmph_inlineCfgH] at this
  exact this

/-- **`doc_tree_wfH` (C14 with the html plugin).**  For EVERY configuration over the extended enumerations
    and every source, the tree `parseDocH` returns satisfies the well-formedness predicate of C14
    (`Pipeline.WF`, `LocK` at every node): `Root` on top only; no `InlineRoot`, no `EmphMarker`; lists hold
    list items only, items sit under lists only; an inline node has inline children only, a paragraph /
    heading has inline children only; thematic breaks, code blocks, fences — and HTML BLOCKS, which are
    encoded as fences — are childless; with the paragraph rule inline nodes — HTML INLINE nodes included —
    occur only under paragraphs / headings, (tight) list items and inline nodes; with a join pass no empty
    `Text` and no two adjacent `Text`s in any sibling list. -/
theorem doc_tree_wfH (cfg : DocCfgH) (src : List Char) (t : Node) (h : parseDocH cfg src = .ok t) :
    WF (BlockH.hasParaH cfg.blockChain) cfg.hasJoin t := by
  refine ⟨(parseDocH_final h).2, ?_⟩
  unfold parseDocH at h
  split at h
  · cases h
  · rename_i root refs hb
    obtain ⟨hroot, hwf⟩ := BlockH.parseBlocksH_wf hb
    unfold afterBlocksH at h
    split at h
    · cases h
    · rename_i t0 hs
      have he0 := spliceNodeG_wf' (parseInlineH_wf _ cfg refs) root hwf
        (by rw [hroot]; rintro ⟨_, _, e⟩; cases e) t0 hs
      have hk0 : t0.kind = .blk .root := by rw [spliceNodeG_kind hs, hroot]
      have h1 : Every (LocN (BlockH.hasParaH cfg.blockChain) false cfg.hasJoin)
          (if cfg.hasJoin = true then joinNode t0 else t0) := by
        cases hj : cfg.hasJoin with
        | true =>
          rw [hj] at he0
          simp only [if_true]
          exact joinNode_wf_aux _ t0 (Nat.le_refl _) he0 (by rw [hk0]; rfl)
        | false =>
          rw [hj] at he0
          simp only [Bool.false_eq_true, if_false]
          exact he0
      simp only at h
      split at h
      · exact (sourceposNode_wf _ _ h1 h).1
      · cases h
        exact h1

/-- is the value an (encoded) `HtmlBlock` -/
def Kind.isHtmlBlock : Kind → Bool
  | .blk b => (BlockH.htmlContent? b).isSome
  | .inl _ => false

/-- is the value an (encoded) `HtmlInline` -/
def Kind.isHtmlInline : Kind → Bool
  | .inl v => (InlineH.htmlContent? v).isSome
  | .blk _ => false

theorem isBlockLeaf_of_htmlBlock {k : Kind} (h : Kind.isHtmlBlock k = true) : k.isBlockLeaf = true := by
  cases k with
  | inl v => cases h
  | blk b =>
    cases b <;> simp [Kind.isHtmlBlock, BlockH.htmlContent?] at h
    rfl

theorem isInline_of_htmlInline {k : Kind} (h : Kind.isHtmlInline k = true) : k.isInline = true := by
  cases k with
  | inl v => rfl
  | blk b => cases h

/-- **the html nodes in the tree** (corollary of `doc_tree_wfH`): at every node `n` of the parsed tree —
    an `HtmlBlock` is childless; an `HtmlBlock` child never sits under an inline node or a paragraph /
    heading (block positions only); with the paragraph rule an `HtmlInline` child sits under a paragraph /
    heading, a (tight) list item or an inline node (inline positions only). -/
theorem doc_html_placesH (cfg : DocCfgH) (src : List Char) (t : Node) (h : parseDocH cfg src = .ok t) :
    Every (fun n =>
      (Kind.isHtmlBlock n.kind = true → n.children = []) ∧
      (∀ c ∈ n.children, Kind.isHtmlBlock c.kind = true → n.kind.isInline = false ∧ n.kind.isTextBlock = false) ∧
      (BlockH.hasParaH cfg.blockChain = true → ∀ c ∈ n.children, Kind.isHtmlInline c.kind = true →
        n.kind.isTextBlock = true ∨ n.kind = .blk .listItem ∨ n.kind.isInline = true)) t := by
  refine (doc_tree_wfH cfg src t h).2.imp ?_
  intro n hl
  have hl : LocK _ _ _ n.kind (kinds n.children) := hl
  refine ⟨?_, ?_, ?_⟩
  · intro hb
    have := hl.blockLeaf (isBlockLeaf_of_htmlBlock hb)
    simpa [kinds] using this
  · intro c hc hb
    have hci : c.kind.isInline = false := by
      cases hk : c.kind with
      | inl v => rw [hk] at hb; cases hb
      | blk b => rfl
    constructor
    · cases hn : n.kind.isInline with
      | false => rfl
      | true =>
        have := hl.inlineKids hn c.kind (mem_kinds.mpr ⟨c, hc, rfl⟩)
        rw [hci] at this; cases this
    · cases hn : n.kind.isTextBlock with
      | false => rfl
      | true =>
        have := hl.textBlockKids hn c.kind (mem_kinds.mpr ⟨c, hc, rfl⟩)
        rw [hci] at this; cases this
  · intro hp c hc hi
    exact hl.inlinePlace hp c.kind (mem_kinds.mpr ⟨c, hc, rfl⟩) (isInline_of_htmlInline hi)

mutual
theorem spliceNodeG_shape {parse : List Char → InlineOps.Srcmap → Except Inline.Panic (List Inline.Node)}
    (hp : ∀ c m ns, parse c m = .ok ns → Inline.AllShapeList ns)
    (b : Block.BNode) (t : Node) (h : spliceNodeG parse b = .ok t) : Every ShapeD t := by
  match b with
  | ⟨k, r, cs⟩ =>
    simp only [spliceNodeG] at h
    split at h
    · cases h
    · rename_i cs' hcs
      cases h
      exact .mk _ (shapeD_blk _ _ _ _) (spliceListG_shape hp cs cs' hcs)
theorem spliceListG_shape {parse : List Char → InlineOps.Srcmap → Except Inline.Panic (List Inline.Node)}
    (hp : ∀ c m ns, parse c m = .ok ns → Inline.AllShapeList ns)
    (cs : List Block.BNode) (out : List Node)
    (h : spliceListG parse cs = .ok out) : ∀ c ∈ out, Every ShapeD c := by
  match cs with
  | [] => simp [spliceListG] at h; subst h; simp
  | c :: rest =>
    simp only [spliceListG] at h
    split at h
    · split at h
      · cases h
      · rename_i ns hns
        split at h
        · cases h
        · rename_i rest' hr
          cases h
          intro x hx
          rcases List.mem_append.mp hx with h1 | h1
          · exact ofInlineList_shape ns (hp _ _ ns hns) x h1
          · exact spliceListG_shape hp rest rest' hr x h1
    · split at h
      · cases h
      · rename_i c' hc
        split at h
        · cases h
        · rename_i rest' hr
          cases h
          intro x hx
          rcases List.mem_cons.mp hx with rfl | hx
          · exact spliceNodeG_shape hp c _ hc
          · exact spliceListG_shape hp rest rest' hr x hx
end

/-- **`doc_inline_leavesH`**: in the tree `parseDocH` returns, at every node: `Text`, `TextSpecial` — hence
    `HtmlInline` —, `Softbreak`, `Hardbreak` are childless; `CodeInline` / `Autolink` have exactly one
    child, a childless non-empty `Text`.  Every configuration with the html plugin, every source. -/
theorem doc_inline_leavesH (cfg : DocCfgH) (src : List Char) (t : Node) (h : parseDocH cfg src = .ok t) :
    Every ShapeD t := by
  unfold parseDocH at h
  split at h
  · cases h
  · rename_i root refs hb
    unfold afterBlocksH at h
    split at h
    · cases h
    · rename_i t0 hs
      have he0 := spliceNodeG_shape (fun c m ns hns => InlineH.parseInlineH_shapes _ hns) root t0 hs
      have h1 : Every ShapeD (if cfg.hasJoin = true then joinNode t0 else t0) := by
        split
        · exact joinNode_shape_aux _ t0 (Nat.le_refl _) he0
        · exact he0
      simp only at h
      split at h
      · exact (sourceposNode_shape _ _ h1 h).1
      · cases h
        exact h1

/-- **`doc_tree_wf_fullH` (C14 with the html plugin, complete predicate).**  For every configuration with the
    paragraph rule and a join pass (an emphasis-like rule), html rules anywhere: every tree `parseDocH` returns
    satisfies `Pipeline.WFFull` — `WF true true` (no placeholder, `Root` on top only, lists / items, inline
    nodes in their places, block leaves — html blocks included — childless, no empty `Text`, no two adjacent
    `Text`s) and `Every ShapeD` (inline leaves — html inline included — childless, `CodeInline` / `Autolink`
    exactly one non-empty `Text`).  (Without a join pass: `doc_tree_wfH` + `doc_inline_leavesH`; the text
    normal form then needs `Block.ParaLast` and `Props/C14Doc.doc_text_nf_nojoin` for the ten-rule engine,
    not lifted.) -/
theorem doc_tree_wf_fullH (cfg : DocCfgH) (src : List Char) (t : Node) (h : parseDocH cfg src = .ok t)
    (hp : BlockH.hasParaH cfg.blockChain = true) (hj : cfg.hasJoin = true) : WFFull t := by
  refine ⟨?_, doc_inline_leavesH cfg src t h⟩
  have := doc_tree_wfH cfg src t h
  rw [hp, hj] at this
  exact this

theorem isInlineLeaf_of_htmlInline {k : Kind} (h : Kind.isHtmlInline k = true) : k.isInlineLeaf = true := by
  cases k with
  | blk b => cases h
  | inl v => cases v <;> simp [Kind.isHtmlInline, InlineH.htmlContent?] at h <;> rfl

/-- **html nodes are leaves**: in every tree `parseDocH` returns a node that decodes as `HtmlBlock` or as
    `HtmlInline` has no children -/
theorem doc_html_leavesH (cfg : DocCfgH) (src : List Char) (t : Node) (h : parseDocH cfg src = .ok t) :
    Every (fun n => (Kind.isHtmlBlock n.kind = true ∨ Kind.isHtmlInline n.kind = true) → n.children = []) t := by
  refine (every_and (doc_html_placesH cfg src t h) (doc_inline_leavesH cfg src t h)).imp ?_
  rintro n ⟨⟨h1, _⟩, h2⟩ (hb | hi)
  · exact h1 hb
  · exact h2.1 (isInlineLeaf_of_htmlInline hi)

-- non-vacuity: the example document, stock configuration with the html rules (paragraph rule, join pass)
example : BlockH.hasParaH (exCfgH true 100).blockChain = true ∧ (exCfgH true 100).hasJoin = true ∧
    (parseDocH (exCfgH true 100) exDoc).toOption.isSome = true := by decide +kernel

/-! ## C05 with html, the cheap part: the root range -/

theorem spliceNodeG_range {parse : List Char → InlineOps.Srcmap → Except Inline.Panic (List Inline.Node)}
    {b : Block.BNode} {t : Node} (h : spliceNodeG parse b = .ok t) : t.range = b.range := by
  obtain ⟨k, r, cs⟩ := b
  simp only [spliceNodeG] at h
  split at h
  · cases h
  · cases h; rfl

theorem sourceposNode_range {src : List Char} {marks : List SourceMap.Mark} {t t' : Node}
    (h : sourceposNode src marks t = .ok t') : t'.range = t.range := by
  obtain ⟨k, r, a, cs⟩ := t
  simp only [sourceposNode] at h
  split at h
  · cases h
  · split at h
    · cases h
    · cases h; rfl

theorem parseBlocksH_root_range {cfg : BlockH.CfgH} {src : List Char} {root : Block.BNode} {refs : Refs.RefMap}
    (h : BlockH.parseBlocksH cfg src = .ok (root, refs)) : root.range = some (0, Lines.byteLen src) := by
  unfold BlockH.parseBlocksH at h
  split at h
  · cases h
  · simp only [Except.ok.injEq, Prod.mk.injEq] at h
    obtain ⟨rfl, _⟩ := h
    rfl

/-- **`docH_root_range`**: the root of every tree `parseDocH` returns covers the whole source, `(0, |src|)` —
    every configuration with the html plugin, every source -/
theorem docH_root_range (cfg : DocCfgH) (src : List Char) (t : Node) (h : parseDocH cfg src = .ok t) :
    t.range = some (0, Lines.byteLen src) := by
  unfold parseDocH at h
  split at h
  · cases h
  · rename_i root refs hb
    have hr := parseBlocksH_root_range hb
    unfold afterBlocksH at h
    split at h
    · cases h
    · rename_i t0 hs
      have h0 : t0.range = some (0, Lines.byteLen src) := by rw [spliceNodeG_range hs, hr]
      have h1 : (if cfg.hasJoin = true then joinNode t0 else t0).range = some (0, Lines.byteLen src) := by
        split
        · rw [joinNode_eq]; exact h0
        · exact h0
      simp only at h
      split at h
      · rw [sourceposNode_range h]; exact h1
      · cases h; exact h1


/-! ## C05 with html: every `HtmlBlock` node has a proper range inside the source -/

/-- a node predicate that only reads the value and the range, and holds of every inline node -/
structure KR (P : Node → Prop) : Prop where
  congr : ∀ a b : Node, a.kind = b.kind → a.range = b.range → P a → P b
  inl : ∀ (n : Node) (v : Inline.Val), n.kind = .inl v → P n

theorem KR.text {P : Node → Prop} (h : KR P) {n : Node} (ht : n.isText = true) : P n := by
  cases hk : n.kind with
  | blk b => unfold Node.isText at ht; rw [hk] at ht; simp at ht
  | inl v => exact h.inl n v hk

mutual
theorem ofInline_kr {P : Node → Prop} (h : KR P) (n : Inline.Node) : Every P (ofInline n) := by
  match n with
  | ⟨v, r, cs⟩ =>
    unfold ofInline
    exact .mk _ (h.inl _ v rfl) (ofInlineList_kr h cs)
theorem ofInlineList_kr {P : Node → Prop} (h : KR P) (cs : List Inline.Node) :
    ∀ c ∈ ofInlineList cs, Every P c := by
  match cs with
  | [] => simp [ofInlineList]
  | c :: r =>
    intro x hx
    simp only [ofInlineList, List.mem_cons] at hx
    rcases hx with rfl | hx
    · exact ofInline_kr h c
    · exact ofInlineList_kr h r x hx
end

theorem mergeLoop_same (cur : Node) (rest : List Node) :
    ∀ x ∈ mergeLoop cur rest, x.isText = true ∨ x = cur ∨ x ∈ rest := by
  induction rest generalizing cur with
  | nil => intro x hx; simp [mergeLoop] at hx; exact .inr (.inl hx)
  | cons nxt rest ih =>
    intro x hx
    simp only [mergeLoop] at hx
    split at hx
    · rcases List.mem_cons.mp hx with rfl | hx
      · exact .inl rfl
      · rcases ih _ x hx with h | rfl | h
        · exact .inl h
        · exact .inl rfl
        · exact .inr (.inr (List.mem_cons_of_mem _ h))
    · rcases List.mem_cons.mp hx with rfl | hx
      · exact .inr (.inl rfl)
      · rcases ih _ x hx with h | rfl | h
        · exact .inl h
        · exact .inr (.inr (by simp))
        · exact .inr (.inr (List.mem_cons_of_mem _ h))

/-- a child `fragments_join` keeps is a `Text` or is, unchanged, one of the children it was given -/
theorem fragmentsJoin_same (cs : List Node) : ∀ x ∈ fragmentsJoin cs, x.isText = true ∨ x ∈ cs := by
  intro x hx
  unfold fragmentsJoin at hx
  have hx := (List.mem_filter.mp hx).1
  have h1 : x.isText = true ∨ x ∈ pass1 cs := by
    cases hp : pass1 cs with
    | nil => rw [hp] at hx; simp [mergeAll] at hx
    | cons c r =>
      rw [hp] at hx
      simp only [mergeAll] at hx
      rcases mergeLoop_same c r x hx with h | rfl | h
      · exact .inl h
      · exact .inr (by simp)
      · exact .inr (List.mem_cons_of_mem _ h)
  rcases h1 with h | h
  · exact .inl h
  · unfold pass1 at h
    obtain ⟨c, hc, rfl⟩ := List.mem_map.mp h
    unfold markerToText
    split
    · exact .inl rfl
    · exact .inr hc

theorem joinNode_kr_aux {P : Node → Prop} (hP : KR P) (k : Nat) : ∀ n : Node, nsize n ≤ k → Every P n →
    Every P (joinNode n) := by
  induction k with
  | zero => intro n hn; rw [nsize_eq] at hn; omega
  | succ k ih =>
    intro n hn he
    rw [joinNode_eq, joinList_eq_map]
    refine .mk _ (hP.congr n _ rfl rfl he.here) ?_
    intro y hy
    simp only at hy
    obtain ⟨x, hx, rfl⟩ := List.mem_map.mp hy
    obtain ⟨c, hc, hr, _⟩ := fragmentsJoin_mem _ x hx
    have hec := he.child c hc
    have hpx : P x := by
      rcases fragmentsJoin_same _ x hx with ht | hm
      · exact hP.text ht
      · exact (he.child x hm).here
    have hsz : nsize x ≤ k := by
      have h1 : nsize x = nsize c := by rw [nsize_eq, nsize_eq, hr.1]
      have h2 := nsize_le_of_mem hc
      rw [nsize_eq] at hn
      omega
    exact ih x hsz (hr.every hpx hec)

mutual
theorem sourceposNode_kr {P : Node → Prop} (hP : KR P) {src : List Char} {marks : List SourceMap.Mark}
    (t t' : Node) (he : Every P t) (h : sourceposNode src marks t = .ok t') : Every P t' := by
  match t with
  | ⟨k, r, a, cs⟩ =>
    simp only [sourceposNode] at h
    split at h
    · cases h
    · split at h
      · cases h
      · rename_i cs' hcs
        cases h
        exact .mk _ (hP.congr ⟨k, r, a, cs⟩ _ rfl rfl he.here) (sourceposList_kr hP cs cs' he.child hcs)
theorem sourceposList_kr {P : Node → Prop} (hP : KR P) {src : List Char} {marks : List SourceMap.Mark}
    (cs cs' : List Node) (he : ∀ c ∈ cs, Every P c) (h : sourceposList src marks cs = .ok cs') :
    ∀ c ∈ cs', Every P c := by
  match cs with
  | [] => simp [sourceposList] at h; subst h; simp
  | c :: r =>
    simp only [sourceposList] at h
    split at h
    · cases h
    · rename_i c' hc
      split at h
      · cases h
      · rename_i r' hr
        cases h
        intro x hx
        rcases List.mem_cons.mp hx with rfl | hx
        · exact sourceposNode_kr hP c _ (he c (by simp)) hc
        · exact sourceposList_kr hP r r' (fun y hy => he y (List.mem_cons_of_mem _ hy)) hr x hx
end

/-- a block-level node that is no placeholder has a proper range that ends inside the source -/
def BlkRanged (L : Nat) (n : Node) : Prop :=
  ∀ b, n.kind = .blk b → (∀ c m, b ≠ .inlineRoot c m) → ∃ x y, n.range = some (x, y) ∧ x ≤ y ∧ y ≤ L

theorem kr_blkRanged (L : Nat) : KR (BlkRanged L) :=
  ⟨fun a b hk hr h => by unfold BlkRanged at *; rw [← hk, ← hr]; exact h,
   fun n v hk b hb => by rw [hk] at hb; cases hb⟩

mutual
theorem spliceNodeG_blkRanged {Pm : Block.InlP} {src : List Char}
    {parse : List Char → InlineOps.Srcmap → Except Inline.Panic (List Inline.Node)}
    (b : Block.BNode) (hw : Block.RangedB Pm src b) (t : Node) (h : spliceNodeG parse b = .ok t) :
    Every (BlkRanged (Lines.byteLen src)) t := by
  match b with
  | ⟨k, r, cs⟩ =>
    simp only [spliceNodeG] at h
    split at h
    · cases h
    · rename_i cs' hcs
      cases h
      refine .mk _ ?_ (spliceListG_blkRanged cs hw.child cs' hcs)
      intro b hb hne
      simp only [Kind.blk.injEq] at hb
      subst hb
      cases r with
      | none =>
        have hnone : ∃ c m, k = Block.Kind.inlineRoot c m ∧ cs = [] := by
          cases hw with
          | mk _ _ h2 _ => exact h2 rfl
        obtain ⟨c, m, e, _⟩ := hnone
        exact absurd e (hne c m)
      | some ab =>
        obtain ⟨x, y⟩ := ab
        obtain ⟨h1, _, h3, _⟩ := hw.at x y rfl
        exact ⟨x, y, rfl, h1, h3.le⟩
theorem spliceListG_blkRanged {Pm : Block.InlP} {src : List Char}
    {parse : List Char → InlineOps.Srcmap → Except Inline.Panic (List Inline.Node)}
    (cs : List Block.BNode) (hw : ∀ c ∈ cs, Block.RangedB Pm src c) (out : List Node)
    (h : spliceListG parse cs = .ok out) : ∀ c ∈ out, Every (BlkRanged (Lines.byteLen src)) c := by
  match cs with
  | [] => simp [spliceListG] at h; subst h; simp
  | c :: rest =>
    have hrest : ∀ x ∈ rest, Block.RangedB Pm src x := fun x hx => hw x (List.mem_cons_of_mem _ hx)
    simp only [spliceListG] at h
    split at h
    · split at h
      · cases h
      · rename_i ns hns
        split at h
        · cases h
        · rename_i rest' hr
          cases h
          intro x hx
          rcases List.mem_append.mp hx with h1 | h1
          · exact ofInlineList_kr (kr_blkRanged _) ns x h1
          · exact spliceListG_blkRanged rest hrest rest' hr x h1
    · split at h
      · cases h
      · rename_i c' hc
        split at h
        · cases h
        · rename_i rest' hr
          cases h
          intro x hx
          rcases List.mem_cons.mp hx with rfl | hx
          · exact spliceNodeG_blkRanged c (hw c (by simp)) _ hc
          · exact spliceListG_blkRanged rest hrest rest' hr x hx
end

/-- **`docH_block_ranges`**: paragraph rule in the ten-rule chain, `i32` bound of the block side: in the tree
    `parseDocH` returns EVERY block-level node (html blocks included) has a range `(x, y)` with
    `x ≤ y ≤ |src|` -/
theorem docH_block_ranges (cfg : DocCfgH) (src : List Char) (t : Node)
    (hsmall : 4 * Lines.byteLen src + 8 < 2147483648) (hpara : BlockH.hasParaH cfg.blockChain = true)
    (h : parseDocH cfg src = .ok t) : Every (BlkRanged (Lines.byteLen src)) t := by
  unfold parseDocH at h
  split at h
  · cases h
  · rename_i root refs hb
    have hg := (BlockH.parseBlocksH_placeholder_tables cfg.blockCfg src hsmall hpara hb).1
    unfold afterBlocksH at h
    split at h
    · cases h
    · rename_i t0 hs
      have he0 := spliceNodeG_blkRanged root hg t0 hs
      have h1 : Every (BlkRanged (Lines.byteLen src)) (if cfg.hasJoin = true then joinNode t0 else t0) := by
        split
        · exact joinNode_kr_aux (kr_blkRanged _) _ t0 (Nat.le_refl _) he0
        · exact he0
      simp only at h
      split at h
      · exact sourceposNode_kr (kr_blkRanged _) _ _ h1 h
      · cases h
        exact h1

/-- **every `HtmlBlock` node has a range inside the source** (corollary) -/
theorem docH_html_block_ranges (cfg : DocCfgH) (src : List Char) (t : Node)
    (hsmall : 4 * Lines.byteLen src + 8 < 2147483648) (hpara : BlockH.hasParaH cfg.blockChain = true)
    (h : parseDocH cfg src = .ok t) :
    Every (fun n => Kind.isHtmlBlock n.kind = true →
      ∃ x y, n.range = some (x, y) ∧ x ≤ y ∧ y ≤ Lines.byteLen src) t := by
  refine (docH_block_ranges cfg src t hsmall hpara h).imp ?_
  intro n hn hb
  cases hk : n.kind with
  | inl v => rw [hk] at hb; cases hb
  | blk b =>
    refine hn b hk ?_
    intro c m e
    rw [hk, e] at hb
    simp [Kind.isHtmlBlock, BlockH.htmlContent?] at hb

/-
  OPEN (C05 with html, not attempted): the range of an `HtmlInline` node inside the source.  `Html.htmlInline_node`
  gives the range as the two ends translated by `get_source_pos_for` and `start ≤ end` on monotone tables; the
  bound `end ≤ |src|` needs `C05I.UpToAll` of the placeholder's table (available: `parseBlocksH_placeholder_tables`)
  carried through the inline tokenizer as a node-level invariant (`Inline.ranges_induction` is about the constants
  `tokLoop` / `skipToken`; to be re-proved over `tokLoopH` as the value and shape invariants were here).
-/


/-! ## C05 with html: every `HtmlInline` node has a proper range inside the source -/

/-- an `HtmlInline` node has a proper range that ends inside the source -/
def HtmlInlineRanged (L : Nat) (n : Node) : Prop :=
  Kind.isHtmlInline n.kind = true → ∃ x y, n.range = some (x, y) ∧ x ≤ y ∧ y ≤ L

/-- the same on a node of the inline parser -/
def HIR (L : Nat) (d : Inline.Node) : Prop :=
  (InlineH.htmlContent? d.val).isSome = true → ∃ x y, d.range = some (x, y) ∧ x ≤ y ∧ y ≤ L

theorem desc_cons {d c : Inline.Node} {r : List Inline.Node} (h : InlineH.Desc d r) : InlineH.Desc d (c :: r) := by
  cases h with
  | top hm => exact .top (List.mem_cons_of_mem _ hm)
  | under hm hd => exact .under (List.mem_cons_of_mem _ hm) hd

mutual
theorem ofInline_hir {L : Nat} (n : Inline.Node) (h0 : HIR L n) (h : ∀ d, InlineH.Desc d n.children → HIR L d) :
    Every (HtmlInlineRanged L) (ofInline n) := by
  match n with
  | ⟨v, r, cs⟩ =>
    unfold ofInline
    exact .mk _ h0 (ofInlineList_hir cs h)
theorem ofInlineList_hir {L : Nat} (cs : List Inline.Node) (h : ∀ d, InlineH.Desc d cs → HIR L d) :
    ∀ c ∈ ofInlineList cs, Every (HtmlInlineRanged L) c := by
  match cs with
  | [] => simp [ofInlineList]
  | c :: r =>
    intro x hx
    simp only [ofInlineList, List.mem_cons] at hx
    rcases hx with rfl | hx
    · exact ofInline_hir c (h c (.top (by simp))) (fun d hd => h d (.under (List.mem_cons_self ..) hd))
    · exact ofInlineList_hir r (fun d hd => h d (desc_cons hd)) x hx
end

mutual
/-- the splice walk: a claim about every spliced-in paragraph and about every block node is a claim about
    every node of the result -/
theorem spliceNodeG_every_of {Q : Node → Prop}
    {parse : List Char → InlineOps.Srcmap → Except Inline.Panic (List Inline.Node)}
    (hB : ∀ k r cs, Q ⟨.blk k, r, [], cs⟩) (b : Block.BNode)
    (h : Placeholders (fun c m => ∀ ns, parse c m = .ok ns → ∀ x ∈ ofInlineList ns, Every Q x) b)
    (t : Node) (ht : spliceNodeG parse b = .ok t) : Every Q t := by
  match b with
  | ⟨k, r, cs⟩ =>
    simp only [Placeholders] at h
    simp only [spliceNodeG] at ht
    split at ht
    · cases ht
    · rename_i cs' hcs
      cases ht
      exact .mk _ (hB _ _ _) (spliceListG_every_of hB cs h.2 cs' hcs)
theorem spliceListG_every_of {Q : Node → Prop}
    {parse : List Char → InlineOps.Srcmap → Except Inline.Panic (List Inline.Node)}
    (hB : ∀ k r cs, Q ⟨.blk k, r, [], cs⟩) (cs : List Block.BNode)
    (h : PlaceholdersList (fun c m => ∀ ns, parse c m = .ok ns → ∀ x ∈ ofInlineList ns, Every Q x) cs)
    (out : List Node) (ht : spliceListG parse cs = .ok out) : ∀ c ∈ out, Every Q c := by
  match cs with
  | [] => simp [spliceListG] at ht; subst ht; simp
  | c :: rest =>
    simp only [PlaceholdersList] at h
    match c, h.1 with
    | ⟨k, r, ccs⟩, hc =>
      have hnode := h.1
      simp only [Placeholders] at hc
      by_cases hk : ∃ content mapping, k = .inlineRoot content mapping
      · obtain ⟨content, mapping, rfl⟩ := hk
        simp only [spliceListG] at ht
        split at ht
        · cases ht
        · rename_i ns hns
          split at ht
          · cases ht
          · rename_i rest' hr
            cases ht
            intro x hx
            rcases List.mem_append.mp hx with h1 | h1
            · exact hc.1 ns hns x h1
            · exact spliceListG_every_of hB rest h.2 rest' hr x h1
      · simp only [spliceListG] at ht
        split at ht
        · exact absurd ⟨_, _, rfl⟩ hk
        · split at ht
          · cases ht
          · rename_i c' hc'
            split at ht
            · cases ht
            · rename_i rest' hr
              cases ht
              intro x hx
              rcases List.mem_cons.mp hx with rfl | hx
              · exact spliceNodeG_every_of hB _ hnode _ hc'
              · exact spliceListG_every_of hB rest h.2 rest' hr x hx
end

/-- `joinNode_kr_aux` for predicates that hold of every `Text` (not necessarily of every inline node) -/
theorem joinNode_kq_aux {P : Node → Prop} (hcongr : ∀ a b : Node, a.kind = b.kind → a.range = b.range → P a → P b)
    (htext : ∀ n : Node, n.isText = true → P n) (k : Nat) : ∀ n : Node, nsize n ≤ k → Every P n →
    Every P (joinNode n) := by
  induction k with
  | zero => intro n hn; rw [nsize_eq] at hn; omega
  | succ k ih =>
    intro n hn he
    rw [joinNode_eq, joinList_eq_map]
    refine .mk _ (hcongr n _ rfl rfl he.here) ?_
    intro y hy
    simp only at hy
    obtain ⟨x, hx, rfl⟩ := List.mem_map.mp hy
    obtain ⟨c, hc, hr, _⟩ := fragmentsJoin_mem _ x hx
    have hec := he.child c hc
    have hpx : P x := by
      rcases fragmentsJoin_same _ x hx with ht | hm
      · exact htext x ht
      · exact (he.child x hm).here
    have hsz : nsize x ≤ k := by
      have h1 : nsize x = nsize c := by rw [nsize_eq, nsize_eq, hr.1]
      have h2 := nsize_le_of_mem hc
      rw [nsize_eq] at hn
      omega
    exact ih x hsz (hr.every hpx hec)

mutual
theorem sourceposNode_kq {P : Node → Prop} (hcongr : ∀ a b : Node, a.kind = b.kind → a.range = b.range → P a → P b)
    {src : List Char} {marks : List SourceMap.Mark}
    (t t' : Node) (he : Every P t) (h : sourceposNode src marks t = .ok t') : Every P t' := by
  match t with
  | ⟨k, r, a, cs⟩ =>
    simp only [sourceposNode] at h
    split at h
    · cases h
    · split at h
      · cases h
      · rename_i cs' hcs
        cases h
        exact .mk _ (hcongr ⟨k, r, a, cs⟩ _ rfl rfl he.here) (sourceposList_kq hcongr cs cs' he.child hcs)
theorem sourceposList_kq {P : Node → Prop} (hcongr : ∀ a b : Node, a.kind = b.kind → a.range = b.range → P a → P b)
    {src : List Char} {marks : List SourceMap.Mark}
    (cs cs' : List Node) (he : ∀ c ∈ cs, Every P c) (h : sourceposList src marks cs = .ok cs') :
    ∀ c ∈ cs', Every P c := by
  match cs with
  | [] => simp [sourceposList] at h; subst h; simp
  | c :: r =>
    simp only [sourceposList] at h
    split at h
    · cases h
    · rename_i c' hc
      split at h
      · cases h
      · rename_i r' hr
        cases h
        intro x hx
        rcases List.mem_cons.mp hx with rfl | hx
        · exact sourceposNode_kq hcongr c _ (he c (by simp)) hc
        · exact sourceposList_kq hcongr r r' (fun y hy => he y (List.mem_cons_of_mem _ hy)) hr x hx
end

theorem hir_congr (L : Nat) : ∀ a b : Node, a.kind = b.kind → a.range = b.range →
    HtmlInlineRanged L a → HtmlInlineRanged L b := by
  intro a b hk hr h
  unfold HtmlInlineRanged at *
  rw [← hk, ← hr]; exact h

theorem hir_text (L : Nat) : ∀ n : Node, n.isText = true → HtmlInlineRanged L n := by
  intro n ht hh
  cases hk : n.kind with
  | blk b => rw [hk] at hh; cases hh
  | inl v =>
    unfold Node.isText at ht
    rw [hk] at ht hh
    cases v <;> simp at ht
    simp [Kind.isHtmlInline, InlineH.htmlContent?] at hh

/-- one paragraph: with a `MapOK` table that maps the content into the source, within the size bound, and the
    memo check passed, every `HtmlInline` node the inline run hands to the splice walk is ranged -/
theorem parseInlineH_hir (icfg : InlineH.CfgH) (L : Nat)
    (hsz : ∀ mk csw, InlineH.RuleIdH.base (.emph mk csw) ∈ icfg.chain → mk.utf8Size = 1)
    {c : List Char} {m : InlineOps.Srcmap} (hm : Inline.MapOK c m) (hup : C05I.UpToAll c m L)
    (hsize : 2 * InlineOps.byteLen c + icfg.maxNesting < 2 ^ 31 - 1)
    (hs : InlineH.memoSafeH icfg c m = true) (ns : List Inline.Node)
    (h : InlineH.parseInlineH icfg c m = .ok ns) : ∀ x ∈ ofInlineList ns, Every (HtmlInlineRanged L) x := by
  obtain ⟨lo, hi, _, hhi, hd⟩ := InlineH.parseInlineH_ranges_window_raw icfg hsz hm hsize hs h
  have hle : hi ≤ L := hup _ _ (by rw [C05I.linesLen_eq]; exact Inline.trimSrc_le c) hhi
  refine ofInlineList_hir ns ?_
  intro d hdd _
  obtain ⟨a, b, e, _, h2, h3⟩ := hd d hdd
  exact ⟨a, b, e, h2, by omega⟩

/-- the assembly: from the claim at every placeholder to every node of the parsed tree -/
theorem docH_html_inline_ranges_of (cfg : DocCfgH) (src : List Char) (t : Node)
    (hp : ∀ root refs, BlockH.parseBlocksH cfg.blockCfg src = .ok (root, refs) →
      Placeholders (fun c m => ∀ ns, InlineH.parseInlineH (cfg.inlineCfg refs) c m = .ok ns →
        ∀ x ∈ ofInlineList ns, Every (HtmlInlineRanged (Lines.byteLen src)) x) root)
    (h : parseDocH cfg src = .ok t) : Every (HtmlInlineRanged (Lines.byteLen src)) t := by
  unfold parseDocH at h
  split at h
  · cases h
  · rename_i root refs hb
    unfold afterBlocksH at h
    split at h
    · cases h
    · rename_i t0 hs
      have he0 := spliceNodeG_every_of (Q := HtmlInlineRanged (Lines.byteLen src))
        (fun k r cs hh => by cases hh) root (hp root refs hb) t0 hs
      have h1 : Every (HtmlInlineRanged (Lines.byteLen src)) (if cfg.hasJoin = true then joinNode t0 else t0) := by
        split
        · exact joinNode_kq_aux (hir_congr _) (hir_text _) _ t0 (Nat.le_refl _) he0
        · exact he0
      simp only at h
      split at h
      · exact sourceposNode_kq (hir_congr _) _ _ h1 h
      · cases h
        exact h1

/-- the per-placeholder facts the block pass provides for a tab-free source: `MapOK`, `UpToAll` into the
    source, the inline size bound -/
theorem docH_placeholder_facts (cfg : DocCfgH) (src : List Char)
    (hpara : BlockH.hasParaH cfg.blockChain = true) (hmn : cfg.maxNesting ≤ 1073741824)
    (hsmall : 4 * Lines.byteLen src + 8 < 2147483648) (htab : '\t' ∉ src)
    {root : Block.BNode} {refs : Refs.RefMap} (hb : BlockH.parseBlocksH cfg.blockCfg src = .ok (root, refs)) :
    Block.AllInl (fun c m => Inline.MapOK c m ∧ C05I.UpToAll c m (Lines.byteLen src) ∧
      2 * InlineOps.byteLen c + cfg.maxNesting < 2 ^ 31 - 1) root := by
  have h1 := docH_tables_mapOK cfg src hsmall hpara htab hb
  have h2 := BlockH.parseBlocksH_upToAll cfg.blockCfg src hsmall hpara hb
  have h3 := BlockH.parseBlocksH_content_len cfg.blockCfg src hsmall hpara htab hb
  have h23 := allInl_and (Q3 := fun c m => C05I.UpToAll c m (Lines.byteLen src) ∧
      2 * InlineOps.byteLen c + cfg.maxNesting < 2 ^ 31 - 1)
    (fun c _ hu hl => ⟨hu, by
      rw [C05I.linesLen_eq c] at hl
      show 2 * InlineOps.byteLen c + cfg.maxNesting < 2147483647
      omega⟩) h2 h3
  exact allInl_and (fun _ _ a b => ⟨a, b⟩) h1 h23

/-- **`docH_html_inline_ranges` (flat chains, unconditional).**  Paragraph rule, html rules anywhere, an inline
    chain without the link and the image rule, emphasis markers single bytes, `max_nesting ≤ 2^30`: in the tree
    `parseDocH` returns for a tab-free source with `4 * |src| + 8 < 2^31`, every `HtmlInline` node — at any depth —
    has a range `(x, y)` with `x ≤ y ≤ |src|`. -/
theorem docH_html_inline_ranges (cfg : DocCfgH) (src : List Char) (t : Node)
    (hfl : InlineH.RuleIdH.base .link ∉ cfg.inlineChain ∧ InlineH.RuleIdH.base .image ∉ cfg.inlineChain)
    (hsz : ∀ mk csw, InlineH.RuleIdH.base (.emph mk csw) ∈ cfg.inlineChain → mk.utf8Size = 1)
    (hpara : BlockH.hasParaH cfg.blockChain = true) (hmn : cfg.maxNesting ≤ 1073741824)
    (hsmall : 4 * Lines.byteLen src + 8 < 2147483648) (htab : '\t' ∉ src)
    (h : parseDocH cfg src = .ok t) : Every (HtmlInlineRanged (Lines.byteLen src)) t := by
  refine docH_html_inline_ranges_of cfg src t ?_ h
  intro root refs hb
  have hall : Block.AllInl (fun c m => ∀ ns, InlineH.parseInlineH (cfg.inlineCfg refs) c m = .ok ns →
        ∀ x ∈ ofInlineList ns, Every (HtmlInlineRanged (Lines.byteLen src)) x) root :=
    (docH_placeholder_facts cfg src hpara hmn hsmall htab hb).imp
      (fun c m ⟨hm, hu, hs⟩ ns hns =>
        parseInlineH_hir (cfg.inlineCfg refs) _ hsz hm hu hs
          (InlineH.memoSafeH_flat (cfg.inlineCfg refs) hfl hsz hm hs) ns hns)
  exact (placeholders_of_allInl _ (sizeOf root)).1 root (Nat.le_refl _) hall (BlockH.parseBlocksH_inlNoRange hb)

/-- **`docH_html_inline_ranges_memoSafe` (any chain, under the executable memo check).**  The same for EVERY
    inline chain (link, image, html, …) on every document that passes `docMemoSafeH`. -/
theorem docH_html_inline_ranges_memoSafe (cfg : DocCfgH) (src : List Char) (t : Node)
    (hsz : ∀ mk csw, InlineH.RuleIdH.base (.emph mk csw) ∈ cfg.inlineChain → mk.utf8Size = 1)
    (hpara : BlockH.hasParaH cfg.blockChain = true) (hmn : cfg.maxNesting ≤ 1073741824)
    (hsmall : 4 * Lines.byteLen src + 8 < 2147483648) (htab : '\t' ∉ src)
    (hsafe : docMemoSafeH cfg src = true)
    (h : parseDocH cfg src = .ok t) : Every (HtmlInlineRanged (Lines.byteLen src)) t := by
  refine docH_html_inline_ranges_of cfg src t ?_ h
  intro root refs hb
  unfold docMemoSafeH at hsafe
  rw [hb] at hsafe
  have hms := placeholdersB_sound root hsafe
  have hfacts := (placeholders_of_allInl _ (sizeOf root)).1 root (Nat.le_refl _)
    (docH_placeholder_facts cfg src hpara hmn hsmall htab hb) (BlockH.parseBlocksH_inlNoRange hb)
  -- combine the two placeholder claims
  have hand : ∀ n : Nat,
      (∀ b : Block.BNode, sizeOf b ≤ n → ∀ {P Q R : List Char → List (Nat × Nat) → Prop},
        (∀ c m, P c m → Q c m → R c m) → Placeholders P b → Placeholders Q b → Placeholders R b) ∧
      (∀ l : List Block.BNode, sizeOf l ≤ n → ∀ {P Q R : List Char → List (Nat × Nat) → Prop},
        (∀ c m, P c m → Q c m → R c m) → PlaceholdersList P l → PlaceholdersList Q l → PlaceholdersList R l) := by
    intro n
    induction n with
    | zero =>
      constructor
      · intro b hb; cases b; simp at hb
      · intro l hl
        cases l with
        | nil => intro _ _ _ _ _ _; simp [PlaceholdersList]
        | cons c cs => simp at hl
    | succ n ih =>
      constructor
      · intro b hb P Q R hpqr hP hQ
        match b, hb, hP, hQ with
        | ⟨k, r, cs⟩, hb, hP, hQ =>
          simp only [Placeholders] at hP hQ ⊢
          refine ⟨?_, ih.2 cs (by simp at hb; omega) hpqr hP.2 hQ.2⟩
          cases k <;> first | trivial | exact hpqr _ _ hP.1 hQ.1
      · intro l hl P Q R hpqr hP hQ
        cases l with
        | nil => simp [PlaceholdersList]
        | cons c cs =>
          simp only [PlaceholdersList] at hP hQ ⊢
          simp at hl
          exact ⟨ih.1 c (by omega) hpqr hP.1 hQ.1, ih.2 cs (by omega) hpqr hP.2 hQ.2⟩
  exact (hand (sizeOf root)).1 root (Nat.le_refl _)
    (fun c m ⟨hm, hu, hs⟩ hsafe' ns hns =>
      parseInlineH_hir (cfg.inlineCfg refs) _ hsz hm hu hs hsafe' ns hns) hfacts hms

-- non-vacuity: the two tags of the example document, flat configuration: ranges `[2,5]`, `[6,10]` of 43 bytes
example : (match parseDocH (exFlatH false 100) exDoc with
    | .ok t => (dnodes t).filterMap (fun n => if Kind.isHtmlInline n.kind then some n.range else none)
    | .error _ => []) = [some (2, 5), some (6, 10)] := by decide +kernel

end MdIt.PipelineH
