/-
  The whole document pipeline WITH the raw-HTML plugin (`MdIt/Model/PipelineH.lean`, validated against
  the real crate by the differential stream `pipelineh`): property theorems.

  (a) CONSERVATIVITY.  `parseDocH_conservative`, `parseDocH_conservative'`, `renderDocH_conservative`,
      `renderDocH_conservative'`: for a configuration without the two html rules the model IS
      `Pipeline.parseDoc` / `Pipeline.renderDoc` — every whole-document theorem about html-free
      configurations (`Props/Pipeline.lean`, `Props/DocTotal.lean`, C03 / C05 / C10 / C13 / C14 …) is a
      theorem about `parseDocH` / `renderDocH` on such configurations.
  (b) ONLY AN INLINE RUN CAN PANIC.  `parseDocH_panic_inline_only`, `renderDocH_panic_inline_only`:
      for EVERY configuration over the extended enumerations (html rules anywhere, either or both),
      every `max_nesting`, every source, with or without sourcepos, a panic of `src ↦ tree` and of
      `src ↦ html` (both serializers) is a panic of one of the `md.inline.parse` calls: the block pass is
      total (`BlockH.parseBlocksH_total`), splice / join / sourcepos are total, and the parsed tree is
      `Renderable` (`parseDocH_final`, `docH_render_total`: ATX / setext levels in range —
      `parseBlocksH_wf`, the well-formedness of the block tree lifted to the ten-rule engine —, no
      placeholder left — `parseInlineH_vals`, the value invariant lifted to the extended inline chain).
  (c) `doc_totalH_flat`: see the section.
  (d) `renderDocH_raw_only_from_html`: every `raw` event of the rendering is the content of an html
      node of the rendered tree; with both html rules off there is none (`renderDocH_no_raw`).
  (e) `parseDocH_cr`, `renderDocH_cr`: LF ↦ CR invariance (sourcepos off), an equation.
-/
import MdIt.Props.BlockH
import MdIt.Props.InlineH
import MdIt.Props.DocTotal
import MdIt.Model.PipelineH

namespace MdIt.PipelineH
open MdIt.Pipeline

/-! ## (a) conservativity -/

mutual
theorem spliceNodeG_parseInline (icfg : Inline.Cfg) (b : Block.BNode) :
    spliceNodeG (Inline.parseInline icfg) b = spliceNode icfg b := by
  match b with
  | ⟨k, r, cs⟩ =>
    simp only [spliceNodeG, spliceNode, spliceListG_parseInline icfg cs]
    cases spliceList icfg cs <;> rfl
theorem spliceListG_parseInline (icfg : Inline.Cfg) (cs : List Block.BNode) :
    spliceListG (Inline.parseInline icfg) cs = spliceList icfg cs := by
  match cs with
  | [] => simp only [spliceListG, spliceList]
  | c :: rest =>
    simp only [spliceListG, spliceList, spliceNodeG_parseInline icfg c, spliceListG_parseInline icfg rest]
    cases hk : c.kind <;> (try (rename_i content mapping; cases Inline.parseInline icfg content mapping)) <;>
      cases spliceList icfg rest <;> cases spliceNode icfg c <;> rfl
end

theorem kindToRenderH_ff (lp : List Char) (k : Kind) : kindToRenderH false false lp k = k.toRender lp := by
  cases k <;> rfl

mutual
/-- without decoding the projection is `Pipeline.toRender` -/
theorem toRenderH_ff (lp : List Char) (t : Node) : toRenderH false false lp t = toRender lp t := by
  match t with
  | ⟨k, r, a, cs⟩ => simp only [toRenderH, toRender, kindToRenderH_ff, toRenderListH_ff lp cs]
theorem toRenderListH_ff (lp : List Char) (cs : List Node) :
    toRenderListH false false lp cs = toRenderList lp cs := by
  match cs with
  | [] => simp only [toRenderListH, toRenderList]
  | c :: r => simp only [toRenderListH, toRenderList, toRenderH_ff lp c, toRenderListH_ff lp r]
end

theorem any_isEmphH_map (l : List Inline.RuleId) :
    (l.map InlineH.RuleIdH.base).any isEmphH = l.any Inline.RuleId.isEmph := by
  induction l with
  | nil => rfl
  | cons r rs ih => simp only [List.map_cons, List.any_cons, ih, isEmphH]

theorem hasJoin_ofCfg (cfg : DocCfg) : (DocCfgH.ofCfg cfg).hasJoin = cfg.hasJoin :=
  any_isEmphH_map cfg.inlineChain

theorem htmlBlock_ofCfg (cfg : DocCfg) : (DocCfgH.ofCfg cfg).htmlBlock = false := by
  simp [DocCfgH.htmlBlock, DocCfgH.ofCfg]

theorem htmlInline_ofCfg (cfg : DocCfg) : (DocCfgH.ofCfg cfg).htmlInline = false := by
  simp [DocCfgH.htmlInline, DocCfgH.ofCfg]

theorem afterBlocksH_conservative (cfg : DocCfg) (src : List Char) (root : Block.BNode) (refs : Refs.RefMap) :
    afterBlocksH (DocCfgH.ofCfg cfg) src root refs = afterBlocks cfg src root refs := by
  unfold afterBlocksH afterBlocks
  have hp : InlineH.parseInlineH ((DocCfgH.ofCfg cfg).inlineCfg refs) = Inline.parseInline (cfg.inlineCfg refs) := by
    funext content mapping
    exact InlineH.parseInlineH_conservative (cfg.inlineCfg refs) content mapping
  rw [hp, spliceNodeG_parseInline, hasJoin_ofCfg]
  rfl

/-- **(a) conservativity, parse**: an html-free configuration, read as a configuration over the
    extended enumerations, parses every source exactly as `Pipeline.parseDoc` does (same tree with
    ranges and attributes, same panic if any) -/
theorem parseDocH_conservative (cfg : DocCfg) (src : List Char) :
    parseDocH (DocCfgH.ofCfg cfg) src = parseDoc cfg src := by
  unfold parseDocH parseDoc
  have hb : BlockH.parseBlocksH (DocCfgH.ofCfg cfg).blockCfg src = Block.parseBlocks cfg.blockCfg src :=
    BlockH.parseBlocksH_conservative cfg.blockCfg src
  rw [hb]
  cases Block.parseBlocks cfg.blockCfg src with
  | error e => rfl
  | ok w => obtain ⟨root, refs⟩ := w; exact afterBlocksH_conservative cfg src root refs

/-- **(a) conservativity, render**: … and renders it exactly as `Pipeline.renderDoc` does, in both
    serializers -/
theorem renderDocH_conservative (x : Bool) (cfg : DocCfg) (src : List Char) :
    renderDocH x (DocCfgH.ofCfg cfg) src = renderDoc x cfg src := by
  unfold renderDocH renderDoc
  rw [parseDocH_conservative]
  cases parseDoc cfg src with
  | error e => rfl
  | ok t =>
    have : renderEventsH (DocCfgH.ofCfg cfg) t = renderEvents cfg t := by
      unfold renderEventsH renderEvents
      rw [htmlBlock_ofCfg, htmlInline_ofCfg, toRenderH_ff]
      rfl
    simp only [this]
    cases renderEvents cfg t <;> rfl

theorem bmap_filterMap : ∀ (l : List InlineH.RuleIdH), InlineH.RuleIdH.html ∉ l →
    (l.filterMap InlineH.RuleIdH.base?).map .base = l
  | [], _ => rfl
  | .base r :: rs, h => by
    simp only [List.filterMap_cons, InlineH.RuleIdH.base?, List.map_cons]
    rw [bmap_filterMap rs (fun hm => h (List.mem_cons_of_mem _ hm))]
  | .html :: _, h => absurd (List.mem_cons_self ..) h

/-- a configuration over the extended enumerations without either html rule IS its html-free base -/
theorem ofCfg_base (cfg : DocCfgH) (hb : BlockH.RuleIdH.html ∉ cfg.blockChain)
    (hi : InlineH.RuleIdH.html ∉ cfg.inlineChain) : DocCfgH.ofCfg cfg.base = cfg := by
  cases cfg
  simp only [DocCfgH.ofCfg, DocCfgH.base] at *
  rw [BlockH.map_base_filterMap _ hb, bmap_filterMap _ hi]

/-- **(a)** the same from the side of a `DocCfgH` whose chains do not contain the html rules -/
theorem parseDocH_conservative' (cfg : DocCfgH) (hb : BlockH.RuleIdH.html ∉ cfg.blockChain)
    (hi : InlineH.RuleIdH.html ∉ cfg.inlineChain) (src : List Char) :
    parseDocH cfg src = parseDoc cfg.base src := by
  rw [← parseDocH_conservative, ofCfg_base cfg hb hi]

theorem renderDocH_conservative' (x : Bool) (cfg : DocCfgH) (hb : BlockH.RuleIdH.html ∉ cfg.blockChain)
    (hi : InlineH.RuleIdH.html ∉ cfg.inlineChain) (src : List Char) :
    renderDocH x cfg src = renderDoc x cfg.base src := by
  rw [← renderDocH_conservative, ofCfg_base cfg hb hi]

end MdIt.PipelineH
