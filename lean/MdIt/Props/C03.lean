/-
  C03 — without raw HTML the output is well-formed, fully escaped markup (serializer level).

  Everything here is about the event model of `Model/Render.lean`; the per-node-kind
  `render : Node → List Event` comes later and only has to show that its event lists satisfy
  `EventOK` (no `raw`, tags/attributes from the fixed vocabulary) and `Balanced`.
-/
import MdIt.Props.C19

namespace MdIt.Render

/-! ## 1. `escape_html` -/

/-- a char `escape_html` copies verbatim -/
def Plain (c : Char) : Prop := c ≠ '&' ∧ c ≠ '<' ∧ c ≠ '>' ∧ c ≠ '"'

/-- The language of escaped character data: plain chars and the four entities. -/
inductive Escaped : List Char → Prop
  | nil : Escaped []
  | plain (c : Char) (l : List Char) : Plain c → Escaped l → Escaped (c :: l)
  | amp (l : List Char) : Escaped l → Escaped ('&' :: 'a' :: 'm' :: 'p' :: ';' :: l)
  | lt (l : List Char) : Escaped l → Escaped ('&' :: 'l' :: 't' :: ';' :: l)
  | gt (l : List Char) : Escaped l → Escaped ('&' :: 'g' :: 't' :: ';' :: l)
  | quot (l : List Char) : Escaped l → Escaped ('&' :: 'q' :: 'u' :: 'o' :: 't' :: ';' :: l)

/-- `l` begins with one of the four entities -/
def StartsEntity (l : List Char) : Prop :=
  ∃ r, l = '&' :: 'a' :: 'm' :: 'p' :: ';' :: r ∨ l = '&' :: 'l' :: 't' :: ';' :: r ∨
       l = '&' :: 'g' :: 't' :: ';' :: r ∨ l = '&' :: 'q' :: 'u' :: 'o' :: 't' :: ';' :: r

/-- decoder for the four entities (everything else, including a bare `&`, is copied) -/
def unescape : List Char → List Char
  | '&' :: 'a' :: 'm' :: 'p' :: ';' :: r => '&' :: unescape r
  | '&' :: 'l' :: 't' :: ';' :: r => '<' :: unescape r
  | '&' :: 'g' :: 't' :: ';' :: r => '>' :: unescape r
  | '&' :: 'q' :: 'u' :: 'o' :: 't' :: ';' :: r => '"' :: unescape r
  | c :: r => c :: unescape r
  | [] => []

theorem Escaped.append {a b : List Char} (ha : Escaped a) (hb : Escaped b) : Escaped (a ++ b) := by
  induction ha with
  | nil => simpa
  | plain c l hc _ ih => exact .plain c _ hc ih
  | amp l _ ih => exact .amp _ ih
  | lt l _ ih => exact .lt _ ih
  | gt l _ ih => exact .gt _ ih
  | quot l _ ih => exact .quot _ ih

theorem escapeChar_escaped (c : Char) : Escaped (escapeChar c) := by
  unfold escapeChar
  split
  · exact .amp _ .nil
  · split
    · exact .lt _ .nil
    · split
      · exact .gt _ .nil
      · split
        · exact .quot _ .nil
        · exact .plain c _ ⟨‹_›, ‹_›, ‹_›, ‹_›⟩ .nil

theorem escapeHtml_escaped (s : List Char) : Escaped (escapeHtml s) := by
  induction s with
  | nil => exact .nil
  | cons c r ih => exact (escapeChar_escaped c).append ih

/-- no `<`, `>`, `"` in escaped data -/
theorem Escaped.no_delim {l : List Char} (h : Escaped l) :
    ∀ c ∈ l, c ≠ '<' ∧ c ≠ '>' ∧ c ≠ '"' := by
  induction h with
  | nil => simp
  | plain c l hc _ ih =>
    intro d hd
    rcases List.mem_cons.mp hd with rfl | hd
    · exact ⟨hc.2.1, hc.2.2.1, hc.2.2.2⟩
    · exact ih d hd
  | amp l _ ih | lt l _ ih | gt l _ ih | quot l _ ih =>
    intro d hd
    simp only [List.mem_cons] at hd
    rcases hd with rfl | rfl | rfl | rfl | hd
    all_goals first | exact ih d hd | (refine ⟨?_, ?_, ?_⟩ <;> decide) | skip
    all_goals
      rcases hd with rfl | hd
      all_goals first | exact ih d hd | (refine ⟨?_, ?_, ?_⟩ <;> decide) | skip
    all_goals
      rcases hd with rfl | hd
      all_goals first | exact ih d hd | (refine ⟨?_, ?_, ?_⟩ <;> decide)

/-- every `&` in escaped data is the first char of one of the four entities (positional) -/
theorem Escaped.amp_entity {l : List Char} (h : Escaped l) :
    ∀ i, l[i]? = some '&' → StartsEntity (l.drop i) := by
  induction h with
  | nil => simp
  | plain c l hc _ ih =>
    intro i hi
    cases i with
    | zero => simp at hi; exact absurd hi hc.1
    | succ i => simpa using ih i (by simpa using hi)
  | amp l _ ih =>
    intro i hi
    rcases i with _ | _ | _ | _ | _ | i
    · exact ⟨l, .inl rfl⟩
    all_goals first | (simp at hi; done) | skip
    simpa using ih i (by simpa using hi)
  | lt l _ ih =>
    intro i hi
    rcases i with _ | _ | _ | _ | i
    · exact ⟨l, .inr (.inl rfl)⟩
    all_goals first | (simp at hi; done) | skip
    simpa using ih i (by simpa using hi)
  | gt l _ ih =>
    intro i hi
    rcases i with _ | _ | _ | _ | i
    · exact ⟨l, .inr (.inr (.inl rfl))⟩
    all_goals first | (simp at hi; done) | skip
    simpa using ih i (by simpa using hi)
  | quot l _ ih =>
    intro i hi
    rcases i with _ | _ | _ | _ | _ | _ | i
    · exact ⟨l, .inr (.inr (.inr rfl))⟩
    all_goals first | (simp at hi; done) | skip
    simpa using ih i (by simpa using hi)

theorem unescape_plain (c : Char) (r : List Char) (hc : c ≠ '&') :
    unescape (c :: r) = c :: unescape r := by
  rw [unescape]
  all_goals simp_all

theorem unescape_escapeHtml (s : List Char) : unescape (escapeHtml s) = s := by
  induction s with
  | nil => simp [escapeHtml, unescape]
  | cons c r ih =>
    simp only [escapeHtml, escapeChar]
    split
    · subst_vars; simp [unescape, ih]
    · split
      · subst_vars; simp [unescape, ih]
      · split
        · subst_vars; simp [unescape, ih]
        · split
          · subst_vars; simp [unescape, ih]
          · simp only [List.singleton_append]
            rw [unescape_plain _ _ ‹_›, ih]

/-- **C03 (escaping).** For every string: the result of `escape_html` is in the `Escaped`
    language, contains none of `<`, `>`, `"`, every `&` in it starts one of the four entities, and
    decoding the four entities gives the original string back. -/
theorem escape_sound (s : List Char) :
    Escaped (escapeHtml s) ∧
    (∀ c ∈ escapeHtml s, c ≠ '<' ∧ c ≠ '>' ∧ c ≠ '"') ∧
    (∀ i, (escapeHtml s)[i]? = some '&' → StartsEntity ((escapeHtml s).drop i)) ∧
    unescape (escapeHtml s) = s :=
  ⟨escapeHtml_escaped s, (escapeHtml_escaped s).no_delim, (escapeHtml_escaped s).amp_entity,
    unescape_escapeHtml s⟩

/-- `escape_html` is injective (no two sources collide after escaping) -/
theorem escapeHtml_injective (s t : List Char) (h : escapeHtml s = escapeHtml t) : s = t := by
  rw [← unescape_escapeHtml s, ← unescape_escapeHtml t, h]

-- non-vacuity: a hostile string, and an entity look-alike that gets double-escaped, not interpreted
example : escapeHtml "<script>\"&".toList = "&lt;script&gt;&quot;&amp;".toList := by decide
example : escapeHtml "&lt;".toList = "&amp;lt;".toList ∧ unescape "&amp;lt;".toList = "&lt;".toList := by
  decide

/-! ## 2. Nesting is a property of the event list -/

/-- run the events against a stack of currently open element names; `none` = a `close` that does
    not match the innermost open element. `selfClose`, `text`, `raw`, `cr` do not touch it. -/
def balStack : List (List Char) → List Event → Option (List (List Char))
  | st, [] => some st
  | st, .open t _ :: r => balStack (t :: st) r
  | [], .close _ :: _ => none
  | t' :: st, .close t :: r => if t = t' then balStack st r else none
  | st, .selfClose _ _ :: r => balStack st r
  | st, .text _ :: r => balStack st r
  | st, .raw _ :: r => balStack st r
  | st, .cr :: r => balStack st r

/-- `open`/`close` properly nested and all closed -/
def Balanced (evs : List Event) : Prop := balStack [] evs = some []

instance (evs : List Event) : Decidable (Balanced evs) := by unfold Balanced; infer_instance

theorem balStack_append (st : List (List Char)) (a b : List Event) :
    balStack st (a ++ b) = (balStack st a).bind (fun st' => balStack st' b) := by
  induction a generalizing st with
  | nil => simp [balStack]
  | cons e r ih =>
    cases e with
    | «open» t at' => simp [balStack, ih]
    | close t =>
      cases st with
      | nil => simp [balStack]
      | cons t' st => simp only [List.cons_append, balStack]; split <;> simp [ih]
    | selfClose t at' => simp [balStack, ih]
    | text s => simp [balStack, ih]
    | raw s => simp [balStack, ih]
    | cr => simp [balStack, ih]

/-- a run that succeeds on a stack succeeds on any extension of it, leaving the extension alone -/
theorem balStack_frame (st st' u : List (List Char)) (evs : List Event)
    (h : balStack st evs = some st') : balStack (st ++ u) evs = some (st' ++ u) := by
  induction evs generalizing st with
  | nil => simp [balStack] at h ⊢; exact h
  | cons e r ih =>
    cases e with
    | «open» t at' => simp only [balStack] at h ⊢; exact ih (t :: st) h
    | close t =>
      cases st with
      | nil => simp [balStack] at h
      | cons t' st =>
        simp only [List.cons_append, balStack] at h ⊢
        split at h
        · rename_i ht; simp only [ht, if_true]; exact ih st h
        · simp at h
    | selfClose t at' => simp only [balStack] at h ⊢; exact ih st h
    | text s => simp only [balStack] at h ⊢; exact ih st h
    | raw s => simp only [balStack] at h ⊢; exact ih st h
    | cr => simp only [balStack] at h ⊢; exact ih st h

theorem Balanced.nil : Balanced [] := rfl

theorem Balanced.append {a b : List Event} (ha : Balanced a) (hb : Balanced b) :
    Balanced (a ++ b) := by
  unfold Balanced at *
  rw [balStack_append, ha]; exact hb

/-- wrapping a balanced list in `open t … close t` keeps it balanced -/
theorem Balanced.wrap {evs : List Event} (t : List Char) (a : List (List Char × List Char))
    (h : Balanced evs) : Balanced (.open t a :: evs ++ [.close t]) := by
  unfold Balanced at *
  have := balStack_frame [] [] [t] evs h
  simp only [List.nil_append] at this
  show balStack [] (.open t a :: (evs ++ [.close t])) = some []
  simp [balStack, balStack_append, this]

theorem Balanced.leaf (e : Event) (h : (∀ t a, e ≠ .open t a) ∧ (∀ t, e ≠ .close t)) :
    Balanced [e] := by
  cases e <;> simp_all [Balanced, balStack]

example : Balanced [.open ['u','l'] [], .cr, .open ['l','i'] [], .text ['x'], .selfClose ['b','r'] [],
    .close ['l','i'], .cr, .close ['u','l'], .cr] := by decide
example : ¬ Balanced [.open ['a'] [], .open ['b'] [], .close ['a'], .close ['b']] := by decide
example : ¬ Balanced [.open ['a'] []] := by decide
example : ¬ Balanced [.close ['a']] := by decide

/-! ## 3. The safe output language -/

/-- characters allowed in element and attribute names -/
def NameOK (s : List Char) : Prop := ∀ c ∈ s, c.isAlphanum = true ∨ c = '-'

instance (s : List Char) : Decidable (NameOK s) := by unfold NameOK; infer_instance

/-- The fixed vocabulary: which element names exist, and which attribute names each may carry. -/
structure Vocab where
  tag : List Char → Prop
  attr : List Char → List Char → Prop
  tag_ok : ∀ t, tag t → NameOK t
  attr_ok : ∀ t n, attr t n → NameOK n

/-- A lexical piece of the output. Attribute values are stored *as they appear in the output*
    (already escaped), without the surrounding quotes. -/
inductive Piece where
  /-- `<name attrs>` -/
  | «open» (name : List Char) (attrs : List (List Char × List Char))
  /-- `</name>` -/
  | close (name : List Char)
  /-- `<name attrs>` (HTML) or `<name attrs />` (XHTML) -/
  | void (name : List Char) (attrs : List (List Char × List Char)) (slash : Bool)
  /-- character data -/
  | chars (s : List Char)

/-- ` name="value"` for each attribute -/
def pattrsStr : List (List Char × List Char) → List Char
  | [] => []
  | nv :: r => (' ' :: (nv.1 ++ ('=' :: '"' :: (nv.2 ++ ['"'])))) ++ pattrsStr r

def Piece.str : Piece → List Char
  | .open n a => '<' :: (n ++ (pattrsStr a ++ ['>']))
  | .close n => '<' :: '/' :: (n ++ ['>'])
  | .void n a slash => '<' :: (n ++ (pattrsStr a ++ ((if slash then [' ', '/'] else []) ++ ['>'])))
  | .chars s => s

def Piece.isTag : Piece → Bool
  | .chars _ => false
  | _ => true

def flattenP (ps : List Piece) : List Char := flatten (ps.map Piece.str)

def SafePiece (V : Vocab) : Piece → Prop
  | .open n a => V.tag n ∧ ∀ nv ∈ a, V.attr n nv.1 ∧ Escaped nv.2
  | .close n => V.tag n
  | .void n a _ => V.tag n ∧ ∀ nv ∈ a, V.attr n nv.1 ∧ Escaped nv.2
  | .chars s => Escaped s

/-- every tag piece names a known element, carries only that element's known attributes with
    escaped values; every character-data piece is escaped -/
def Safe (V : Vocab) (ps : List Piece) : Prop := ∀ p ∈ ps, SafePiece V p

/-! ### from events to pieces -/

def escAttrs (a : List (List Char × List Char)) : List (List Char × List Char) :=
  a.map (fun nv => (escapeHtml nv.1, escapeHtml nv.2))

/-- the lexical piece an event produces (defined for every event; `raw` gives unchecked chars) -/
def pieceOf (x sol : Bool) : Event → Piece
  | .open t a => .open t (escAttrs a)
  | .close t => .close t
  | .selfClose t a => .void t (escAttrs a) x
  | .text s => .chars (escapeHtml s)
  | .raw s => .chars s
  | .cr => .chars (if sol then [] else ['\n'])

def piecesOfFrom (x : Bool) : Bool → List Event → List Piece
  | _, [] => []
  | sol, e :: r => pieceOf x sol e :: piecesOfFrom x (solAfter sol (piece x sol e)) r

/-- one lexical piece per event, in order -/
def piecesOf (x : Bool) (evs : List Event) : List Piece := piecesOfFrom x true evs

theorem pattrsStr_escAttrs (a : List (List Char × List Char)) :
    pattrsStr (escAttrs a) = attrsStr a := by
  induction a with
  | nil => rfl
  | cons nv r ih =>
    have : escAttrs (nv :: r) = (escapeHtml nv.1, escapeHtml nv.2) :: escAttrs r := rfl
    rw [this, pattrsStr, attrsStr, ih]; rfl

theorem pieceOf_str (x sol : Bool) (e : Event) : (pieceOf x sol e).str = piece x sol e := by
  cases e <;> simp [pieceOf, Piece.str, piece, pattrsStr_escAttrs]

theorem piecesOfFrom_str (x sol : Bool) (evs : List Event) :
    (piecesOfFrom x sol evs).map Piece.str = piecesFrom x sol evs := by
  induction evs generalizing sol with
  | nil => rfl
  | cons e r ih => simp [piecesOfFrom, piecesFrom, pieceOf_str, ih]

theorem piecesOfFrom_length (x sol : Bool) (evs : List Event) :
    (piecesOfFrom x sol evs).length = evs.length := by
  induction evs generalizing sol with
  | nil => rfl
  | cons e r ih => simp [piecesOfFrom, ih]

/-- the lexical decomposition is a decomposition of the real output — for EVERY event list -/
theorem serializeRaw_piecesOf (x : Bool) (evs : List Event) :
    serializeRaw x evs = flattenP (piecesOf x evs) := by
  rw [serializeRaw_events, flattenP, piecesOf, piecesOfFrom_str, pieces]

/-- what the later `render` model has to guarantee about each event -/
def EventOK (V : Vocab) : Event → Prop
  | .open t a => V.tag t ∧ ∀ nv ∈ a, V.attr t nv.1
  | .close t => V.tag t
  | .selfClose t a => V.tag t ∧ ∀ nv ∈ a, V.attr t nv.1
  | .text _ => True
  | .raw _ => False
  | .cr => True

theorem NameOK.plain {s : List Char} (h : NameOK s) : ∀ c ∈ s, Plain c := by
  intro c hc
  rcases h c hc with h | rfl
  · refine ⟨?_, ?_, ?_, ?_⟩ <;> (rintro rfl; exact absurd h (by decide))
  · refine ⟨?_, ?_, ?_, ?_⟩ <;> decide

theorem escapeHtml_of_plain (s : List Char) (h : ∀ c ∈ s, Plain c) : escapeHtml s = s := by
  induction s with
  | nil => rfl
  | cons c r ih =>
    have hc := h c (by simp)
    rw [escapeHtml, ih (fun d hd => h d (by simp [hd]))]
    simp [escapeChar, hc.1, hc.2.1, hc.2.2.1, hc.2.2.2]

/-- names from the vocabulary are written verbatim -/
theorem NameOK.escapeHtml_eq {s : List Char} (h : NameOK s) : escapeHtml s = s :=
  escapeHtml_of_plain s h.plain

theorem pieceOf_safe (V : Vocab) (x sol : Bool) (e : Event) (h : EventOK V e) :
    SafePiece V (pieceOf x sol e) := by
  cases e with
  | «open» t a =>
    refine ⟨h.1, ?_⟩
    intro nv hnv
    obtain ⟨nv', hnv', rfl⟩ := List.mem_map.mp hnv
    have := h.2 nv' hnv'
    exact ⟨by rw [(V.attr_ok t _ this).escapeHtml_eq]; exact this, escapeHtml_escaped _⟩
  | close t => exact h
  | selfClose t a =>
    refine ⟨h.1, ?_⟩
    intro nv hnv
    obtain ⟨nv', hnv', rfl⟩ := List.mem_map.mp hnv
    have := h.2 nv' hnv'
    exact ⟨by rw [(V.attr_ok t _ this).escapeHtml_eq]; exact this, escapeHtml_escaped _⟩
  | text s => exact escapeHtml_escaped s
  | raw s => exact absurd h id
  | cr =>
    cases sol
    · exact .plain '\n' [] (by refine ⟨?_, ?_, ?_, ?_⟩ <;> decide) .nil
    · exact .nil

theorem piecesOfFrom_safe (V : Vocab) (x sol : Bool) (evs : List Event)
    (h : ∀ e ∈ evs, EventOK V e) : Safe V (piecesOfFrom x sol evs) := by
  induction evs generalizing sol with
  | nil => intro p hp; simp [piecesOfFrom] at hp
  | cons e r ih =>
    intro p hp
    simp only [piecesOfFrom, List.mem_cons] at hp
    rcases hp with rfl | hp
    · exact pieceOf_safe V x sol e (h e (by simp))
    · exact ih _ (fun e' he' => h e' (by simp [he'])) p hp

/-- **C03 (safe serialisation).** For every event list without `raw` whose tags and attribute names
    come from the vocabulary — whatever the text payloads and attribute values are — the output is
    the concatenation of one lexical piece per event, and these pieces are `Safe`. -/
theorem serialize_safe (V : Vocab) (x : Bool) (evs : List Event) (h : ∀ e ∈ evs, EventOK V e) :
    serializeRaw x evs = flattenP (piecesOf x evs) ∧
    (piecesOf x evs).length = evs.length ∧
    Safe V (piecesOf x evs) :=
  ⟨serializeRaw_piecesOf x evs, piecesOfFrom_length x true evs, piecesOfFrom_safe V x true evs h⟩

/-! ## 4. Delimiters occur only at structural positions -/

@[simp] theorem flattenP_nil : flattenP [] = [] := rfl
@[simp] theorem flattenP_cons (p : Piece) (ps : List Piece) :
    flattenP (p :: ps) = p.str ++ flattenP ps := rfl

theorem flattenP_append (a b : List Piece) : flattenP (a ++ b) = flattenP a ++ flattenP b := by
  simp [flattenP, flatten_append]

theorem pattrsStr_no_angle (a : List (List Char × List Char))
    (h : ∀ nv ∈ a, NameOK nv.1 ∧ Escaped nv.2) : ∀ c ∈ pattrsStr a, c ≠ '<' ∧ c ≠ '>' := by
  induction a with
  | nil => simp [pattrsStr]
  | cons nv r ih =>
    intro c hc
    have hnv := h nv (by simp)
    simp only [pattrsStr, List.cons_append, List.mem_cons, List.mem_append, List.append_assoc] at hc
    rcases hc with rfl | hc | rfl | rfl | hc | rfl | hc | hc
    · decide
    · have := hnv.1.plain c hc; exact ⟨this.2.1, this.2.2.1⟩
    · decide
    · decide
    · have := hnv.2.no_delim c hc; exact ⟨this.1, this.2.1⟩
    · decide
    · simp at hc
    · exact ih (fun nv' h' => h nv' (by simp [h'])) c hc

/-- a safe tag piece is `<` + a body without `<`/`>` + `>` -/
theorem SafePiece.tag_shape (V : Vocab) (p : Piece) (hp : SafePiece V p) (ht : p.isTag = true) :
    ∃ mid, p.str = '<' :: (mid ++ ['>']) ∧ ∀ c ∈ mid, c ≠ '<' ∧ c ≠ '>' := by
  have hname : ∀ n, V.tag n → ∀ c ∈ n, c ≠ '<' ∧ c ≠ '>' := by
    intro n hn c hc
    have := (V.tag_ok n hn).plain c hc; exact ⟨this.2.1, this.2.2.1⟩
  cases p with
  | «open» n a =>
    refine ⟨n ++ pattrsStr a, by simp [Piece.str], ?_⟩
    intro c hc
    rcases List.mem_append.mp hc with hc | hc
    · exact hname n hp.1 c hc
    · exact pattrsStr_no_angle a (fun nv h => ⟨V.attr_ok n _ (hp.2 nv h).1, (hp.2 nv h).2⟩) c hc
  | close n =>
    refine ⟨'/' :: n, by simp [Piece.str], ?_⟩
    intro c hc
    rcases List.mem_cons.mp hc with rfl | hc
    · decide
    · exact hname n hp c hc
  | void n a slash =>
    refine ⟨n ++ pattrsStr a ++ (if slash then [' ', '/'] else []), by simp [Piece.str], ?_⟩
    intro c hc
    rcases List.mem_append.mp hc with hc | hc
    · rcases List.mem_append.mp hc with hc | hc
      · exact hname n hp.1 c hc
      · exact pattrsStr_no_angle a (fun nv h => ⟨V.attr_ok n _ (hp.2 nv h).1, (hp.2 nv h).2⟩) c hc
    · cases slash <;> simp at hc
      rcases hc with rfl | rfl <;> decide
  | chars s => simp [Piece.isTag] at ht

theorem SafePiece.chars_no_delim (V : Vocab) (p : Piece) (hp : SafePiece V p)
    (ht : p.isTag = false) : ∀ c ∈ p.str, c ≠ '<' ∧ c ≠ '>' ∧ c ≠ '"' := by
  cases p with
  | chars s => exact Escaped.no_delim hp
  | _ => simp [Piece.isTag] at ht

/-- **C03 (no injection, `<`).** In a safe output every position holding `<` is the first character
    of a tag piece: no `<` occurs inside character data, inside an attribute value or anywhere
    else inside a tag. Positional, on the flattened output. -/
theorem lt_only_in_tags (V : Vocab) (ps : List Piece) (hs : Safe V ps) (i : Nat)
    (hlt : (flattenP ps)[i]? = some '<') :
    ∃ pre p post, ps = pre ++ p :: post ∧ p.isTag = true ∧ i = (flattenP pre).length := by
  induction ps generalizing i with
  | nil => simp at hlt
  | cons p r ih =>
    rw [flattenP_cons, List.getElem?_append] at hlt
    split at hlt
    · -- the position is inside `p`
      have hmem : '<' ∈ p.str := List.mem_of_getElem? hlt
      cases ht : p.isTag with
      | false => exact absurd rfl ((SafePiece.chars_no_delim V p (hs p (by simp)) ht) _ hmem).1
      | true =>
        obtain ⟨mid, hstr, hmid⟩ := SafePiece.tag_shape V p (hs p (by simp)) ht
        cases i with
        | zero => exact ⟨[], p, r, rfl, ht, rfl⟩
        | succ k =>
          rw [hstr] at hlt
          simp only [List.getElem?_cons_succ] at hlt
          have := List.mem_of_getElem? hlt
          rcases List.mem_append.mp this with h' | h'
          · exact absurd rfl (hmid _ h').1
          · simp at h'
    · rename_i hi
      obtain ⟨pre, q, post, hr, hq, hidx⟩ := ih (fun q hq => hs q (by simp [hq])) _ hlt
      refine ⟨p :: pre, q, post, by simp [hr], hq, ?_⟩
      simp only [flattenP_cons, List.length_append]
      omega

/-- **C03 (`>`).** Every position holding `>` is the last character of a tag piece. -/
theorem gt_only_in_tags (V : Vocab) (ps : List Piece) (hs : Safe V ps) (i : Nat)
    (hgt : (flattenP ps)[i]? = some '>') :
    ∃ pre p post, ps = pre ++ p :: post ∧ p.isTag = true ∧
      i + 1 = (flattenP pre).length + p.str.length := by
  induction ps generalizing i with
  | nil => simp at hgt
  | cons p r ih =>
    rw [flattenP_cons, List.getElem?_append] at hgt
    split at hgt
    · have hmem : '>' ∈ p.str := List.mem_of_getElem? hgt
      cases ht : p.isTag with
      | false => exact absurd rfl ((SafePiece.chars_no_delim V p (hs p (by simp)) ht) _ hmem).2.1
      | true =>
        obtain ⟨mid, hstr, hmid⟩ := SafePiece.tag_shape V p (hs p (by simp)) ht
        refine ⟨[], p, r, rfl, ht, ?_⟩
        rw [hstr] at hgt ⊢
        cases i with
        | zero => simp at hgt
        | succ k =>
          simp only [List.getElem?_cons_succ, List.getElem?_append] at hgt
          split at hgt
          · exact absurd rfl (hmid _ (List.mem_of_getElem? hgt)).2
          · have : k - mid.length < 1 := by
              have := (List.getElem?_eq_some_iff.mp hgt).1; simpa using this
            simp; omega
    · rename_i hi
      obtain ⟨pre, q, post, hr, hq, hidx⟩ := ih (fun q hq => hs q (by simp [hq])) _ hgt
      refine ⟨p :: pre, q, post, by simp [hr], hq, ?_⟩
      simp only [flattenP_cons, List.length_append]
      omega

theorem Piece.tag_str (p : Piece) (ht : p.isTag = true) : ∃ mid, p.str = '<' :: (mid ++ ['>']) := by
  cases p with
  | «open» n a => exact ⟨n ++ pattrsStr a, by simp [Piece.str]⟩
  | close n => exact ⟨'/' :: n, by simp [Piece.str]⟩
  | void n a slash =>
    exact ⟨n ++ pattrsStr a ++ (if slash then [' ', '/'] else []), by simp [Piece.str]⟩
  | chars s => simp [Piece.isTag] at ht

/-- conversely every tag piece does start with `<` and end with `>` at those positions -/
theorem tag_piece_delims (ps pre post : List Piece) (p : Piece) (h : ps = pre ++ p :: post)
    (ht : p.isTag = true) :
    (flattenP ps)[(flattenP pre).length]? = some '<' ∧
    (flattenP ps)[(flattenP pre).length + p.str.length - 1]? = some '>' := by
  subst h
  obtain ⟨mid, hmid⟩ := p.tag_str ht
  rw [flattenP_append, flattenP_cons, hmid]
  constructor
  · simp
  · rw [List.getElem?_append_right (by simp)]
    have : (flattenP pre).length + ('<' :: (mid ++ ['>'])).length - 1 - (flattenP pre).length
        = mid.length + 1 := by simp
    rw [this]
    simp

/-! ### the complete lexical reading: a role for every output position -/

/-- what a position of the output *is*, according to the piece decomposition -/
inductive Role where
  | tagOpen     -- the `<` that starts a tag
  | tagClose    -- the `>` that ends a tag
  | slash       -- `/` of `</name>` or of ` />`
  | space       -- the blank before an attribute or before `/>`
  | eq          -- `=` between attribute name and value
  | quoteOpen   -- opening `"` of an attribute value
  | quoteClose  -- closing `"` of an attribute value
  | tagName | attrName | attrValue | data
  deriving DecidableEq, Repr

def attrRoles : List (List Char × List Char) → List Role
  | [] => []
  | nv :: r =>
    (.space :: (nv.1.map (fun _ => Role.attrName) ++
      (.eq :: .quoteOpen :: (nv.2.map (fun _ => Role.attrValue) ++ [.quoteClose])))) ++ attrRoles r

/-- parallel to `Piece.str` -/
def Piece.roles : Piece → List Role
  | .open n a => .tagOpen :: (n.map (fun _ => Role.tagName) ++ (attrRoles a ++ [.tagClose]))
  | .close n => .tagOpen :: .slash :: (n.map (fun _ => Role.tagName) ++ [.tagClose])
  | .void n a slash =>
    .tagOpen :: (n.map (fun _ => Role.tagName) ++
      (attrRoles a ++ ((if slash then [.space, .slash] else []) ++ [.tagClose])))
  | .chars s => s.map (fun _ => Role.data)

def rolesP : List Piece → List Role
  | [] => []
  | p :: r => p.roles ++ rolesP r

/-- the char at a position agrees with the position's role: the delimiters `<`, `>`, `"` sit
    exactly at the structural positions, structural positions hold exactly their character, and
    `&` occurs only inside attribute values and character data -/
def Agree (c : Char) (r : Role) : Prop :=
  (c = '<' ↔ r = .tagOpen) ∧ (c = '>' ↔ r = .tagClose) ∧
  (c = '"' ↔ (r = .quoteOpen ∨ r = .quoteClose)) ∧
  (r = .slash → c = '/') ∧ (r = .space → c = ' ') ∧ (r = .eq → c = '=') ∧
  (c = '&' → (r = .attrValue ∨ r = .data))

inductive All2 {α β : Type} (R : α → β → Prop) : List α → List β → Prop
  | nil : All2 R [] []
  | cons {a b l l'} : R a b → All2 R l l' → All2 R (a :: l) (b :: l')

theorem All2.append {α β : Type} {R : α → β → Prop} {a a' : List α} {b b' : List β}
    (h : All2 R a b) (h' : All2 R a' b') : All2 R (a ++ a') (b ++ b') := by
  induction h with
  | nil => simpa
  | cons hab _ ih => exact .cons hab ih

theorem All2.length_eq {α β : Type} {R : α → β → Prop} {a : List α} {b : List β}
    (h : All2 R a b) : a.length = b.length := by
  induction h with
  | nil => rfl
  | cons _ _ ih => simp [ih]

theorem All2.get {α β : Type} {R : α → β → Prop} {a : List α} {b : List β} (h : All2 R a b) :
    ∀ (i : Nat) (x : α), a[i]? = some x → ∃ y, b[i]? = some y ∧ R x y := by
  induction h with
  | nil => simp
  | cons hab _ ih =>
    intro i x hx
    cases i with
    | zero => simp at hx; subst hx; exact ⟨_, by simp, hab⟩
    | succ i => simpa using ih i x (by simpa using hx)

theorem All2.map_const {α β : Type} {R : α → β → Prop} (s : List α) (r : β)
    (h : ∀ c ∈ s, R c r) : All2 R s (s.map (fun _ => r)) := by
  induction s with
  | nil => exact .nil
  | cons c l ih => exact .cons (h c (by simp)) (ih (fun d hd => h d (by simp [hd])))

theorem All2.single {α β : Type} {R : α → β → Prop} {a : α} {b : β} (h : R a b) :
    All2 R [a] [b] := .cons h .nil

theorem agree_name (s : List Char) (h : NameOK s) (r : Role) (hr : r = .tagName ∨ r = .attrName) :
    All2 Agree s (s.map (fun _ => r)) := by
  apply All2.map_const
  intro c hc
  have hp := h.plain c hc
  rcases hr with rfl | rfl <;>
    simp [Agree, hp.1, hp.2.1, hp.2.2.1, hp.2.2.2]

theorem agree_escaped (s : List Char) (h : Escaped s) (r : Role) (hr : r = .attrValue ∨ r = .data) :
    All2 Agree s (s.map (fun _ => r)) := by
  apply All2.map_const
  intro c hc
  have hp := h.no_delim c hc
  rcases hr with rfl | rfl <;> simp [Agree, hp.1, hp.2.1, hp.2.2]

theorem agree_attrs (a : List (List Char × List Char))
    (h : ∀ nv ∈ a, NameOK nv.1 ∧ Escaped nv.2) : All2 Agree (pattrsStr a) (attrRoles a) := by
  induction a with
  | nil => exact .nil
  | cons nv r ih =>
    have hnv := h nv (by simp)
    unfold pattrsStr attrRoles
    refine All2.append ?_ (ih (fun nv' h' => h nv' (by simp [h'])))
    refine .cons (by simp [Agree]) (All2.append (agree_name _ hnv.1 _ (.inr rfl)) ?_)
    refine .cons (by simp [Agree]) (.cons (by simp [Agree]) ?_)
    exact All2.append (agree_escaped _ hnv.2 _ (.inl rfl)) (All2.single (by simp [Agree]))

theorem agree_piece (V : Vocab) (p : Piece) (hp : SafePiece V p) : All2 Agree p.str p.roles := by
  cases p with
  | «open» n a =>
    unfold Piece.str Piece.roles
    refine .cons (by simp [Agree]) (All2.append (agree_name _ (V.tag_ok n hp.1) _ (.inl rfl)) ?_)
    refine All2.append (agree_attrs a fun nv h => ⟨V.attr_ok n _ (hp.2 nv h).1, (hp.2 nv h).2⟩) ?_
    exact All2.single (by simp [Agree])
  | close n =>
    unfold Piece.str Piece.roles
    refine .cons (by simp [Agree]) (.cons (by simp [Agree]) ?_)
    exact All2.append (agree_name _ (V.tag_ok n hp) _ (.inl rfl)) (All2.single (by simp [Agree]))
  | void n a slash =>
    unfold Piece.str Piece.roles
    refine .cons (by simp [Agree]) (All2.append (agree_name _ (V.tag_ok n hp.1) _ (.inl rfl)) ?_)
    refine All2.append (agree_attrs a fun nv h => ⟨V.attr_ok n _ (hp.2 nv h).1, (hp.2 nv h).2⟩) ?_
    refine All2.append ?_ (All2.single (by simp [Agree]))
    cases slash
    · exact .nil
    · exact .cons (by simp [Agree]) (All2.single (by simp [Agree]))
  | chars s => exact agree_escaped s hp _ (.inr rfl)

theorem agree_pieces (V : Vocab) (ps : List Piece) (hs : Safe V ps) :
    All2 Agree (flattenP ps) (rolesP ps) := by
  induction ps with
  | nil => exact .nil
  | cons p r ih =>
    exact All2.append (agree_piece V p (hs p (by simp))) (ih fun q hq => hs q (by simp [hq]))

/-- **C03 (unique reading).** In a safe output, position by position: a `<` is exactly a tag start,
    a `>` exactly a tag end, a `"` exactly an opening or closing attribute-value quote, and `&`
    occurs only inside attribute values and character data. Nothing a payload contributes can be
    read as markup. -/
theorem delims_exact (V : Vocab) (ps : List Piece) (hs : Safe V ps) :
    (flattenP ps).length = (rolesP ps).length ∧
    ∀ (i : Nat) (c : Char), (flattenP ps)[i]? = some c →
      ∃ r, (rolesP ps)[i]? = some r ∧ Agree c r :=
  ⟨(agree_pieces V ps hs).length_eq, (agree_pieces V ps hs).get⟩

/-! ### every `&` of the output starts one of the four entities -/

def AmpOK (l : List Char) : Prop := ∀ i, l[i]? = some '&' → StartsEntity (l.drop i)

theorem StartsEntity.append {a : List Char} (h : StartsEntity a) (b : List Char) :
    StartsEntity (a ++ b) := by
  obtain ⟨r, h | h | h | h⟩ := h <;> subst h
  · exact ⟨r ++ b, .inl rfl⟩
  · exact ⟨r ++ b, .inr (.inl rfl)⟩
  · exact ⟨r ++ b, .inr (.inr (.inl rfl))⟩
  · exact ⟨r ++ b, .inr (.inr (.inr rfl))⟩

theorem AmpOK.append {a b : List Char} (ha : AmpOK a) (hb : AmpOK b) : AmpOK (a ++ b) := by
  intro i hi
  rw [List.getElem?_append] at hi
  split at hi
  · rename_i hlt
    have := (ha i hi).append b
    rwa [List.drop_append_of_le_length (by omega)]
  · rename_i hge
    have := hb _ hi
    rw [List.drop_append]
    rwa [List.drop_eq_nil_of_le (by omega), List.nil_append]

theorem AmpOK.of_no_amp {l : List Char} (h : ∀ c ∈ l, c ≠ '&') : AmpOK l := by
  intro i hi
  exact absurd rfl (h _ (List.mem_of_getElem? hi))

theorem ampOK_name {s : List Char} (h : NameOK s) : AmpOK s :=
  AmpOK.of_no_amp fun c hc => (h.plain c hc).1

theorem ampOK_attrs (a : List (List Char × List Char))
    (h : ∀ nv ∈ a, NameOK nv.1 ∧ Escaped nv.2) : AmpOK (pattrsStr a) := by
  induction a with
  | nil => exact AmpOK.of_no_amp (by simp [pattrsStr])
  | cons nv r ih =>
    have hnv := h nv (by simp)
    have e : pattrsStr (nv :: r) =
        [' '] ++ (nv.1 ++ (['=', '"'] ++ (nv.2 ++ (['"'] ++ pattrsStr r)))) := by
      simp [pattrsStr]
    rw [e]
    refine AmpOK.append (AmpOK.of_no_amp (by simp)) (AmpOK.append (ampOK_name hnv.1) ?_)
    refine AmpOK.append (AmpOK.of_no_amp (by simp)) (AmpOK.append hnv.2.amp_entity ?_)
    exact AmpOK.append (AmpOK.of_no_amp (by simp)) (ih fun nv' h' => h nv' (by simp [h']))

theorem ampOK_piece (V : Vocab) (p : Piece) (hp : SafePiece V p) : AmpOK p.str := by
  cases p with
  | «open» n a =>
    have e : (Piece.open n a).str = ['<'] ++ (n ++ (pattrsStr a ++ ['>'])) := rfl
    rw [e]
    refine AmpOK.append (AmpOK.of_no_amp (by simp)) (AmpOK.append (ampOK_name (V.tag_ok n hp.1)) ?_)
    exact AmpOK.append
      (ampOK_attrs a fun nv h => ⟨V.attr_ok n _ (hp.2 nv h).1, (hp.2 nv h).2⟩)
      (AmpOK.of_no_amp (by simp))
  | close n =>
    have e : (Piece.close n).str = ['<', '/'] ++ (n ++ ['>']) := rfl
    rw [e]
    exact AmpOK.append (AmpOK.of_no_amp (by simp))
      (AmpOK.append (ampOK_name (V.tag_ok n hp)) (AmpOK.of_no_amp (by simp)))
  | void n a slash =>
    have e : (Piece.void n a slash).str =
        ['<'] ++ (n ++ (pattrsStr a ++ ((if slash then [' ', '/'] else []) ++ ['>']))) := rfl
    rw [e]
    refine AmpOK.append (AmpOK.of_no_amp (by simp)) (AmpOK.append (ampOK_name (V.tag_ok n hp.1)) ?_)
    refine AmpOK.append
      (ampOK_attrs a fun nv h => ⟨V.attr_ok n _ (hp.2 nv h).1, (hp.2 nv h).2⟩) ?_
    exact AmpOK.append (AmpOK.of_no_amp (by cases slash <;> simp)) (AmpOK.of_no_amp (by simp))
  | chars s => exact Escaped.amp_entity hp

/-- **C03 (`&`).** Every `&` of a safe output is the first char of `&amp;` `&lt;` `&gt;` `&quot;`. -/
theorem amp_only_entities (V : Vocab) (ps : List Piece) (hs : Safe V ps) :
    ∀ i, (flattenP ps)[i]? = some '&' → StartsEntity ((flattenP ps).drop i) := by
  induction ps with
  | nil => simp
  | cons p r ih =>
    exact AmpOK.append (ampOK_piece V p (hs p (by simp))) (ih fun q hq => hs q (by simp [hq]))

/-! ## 5. Nesting of the output pieces, and the final (NUL-patched) string -/

/-- the same stack discipline, read off the lexical pieces of the output -/
def balP : List (List Char) → List Piece → Option (List (List Char))
  | st, [] => some st
  | st, .open n _ :: r => balP (n :: st) r
  | [], .close _ :: _ => none
  | t :: st, .close n :: r => if n = t then balP st r else none
  | st, .void _ _ _ :: r => balP st r
  | st, .chars _ :: r => balP st r

/-- safe pieces whose tag pieces are properly nested and all closed -/
def WellFormed (V : Vocab) (ps : List Piece) : Prop := Safe V ps ∧ balP [] ps = some []

theorem balP_piecesOfFrom (x sol : Bool) (st : List (List Char)) (evs : List Event) :
    balP st (piecesOfFrom x sol evs) = balStack st evs := by
  induction evs generalizing st sol with
  | nil => simp [piecesOfFrom, balP, balStack]
  | cons e r ih =>
    cases e with
    | close t => cases st <;> simp [piecesOfFrom, pieceOf, balP, balStack, ih]
    | _ => simp [piecesOfFrom, pieceOf, balP, balStack, ih]

/-- **C03 (well-formed output, serializer level).** Events from the vocabulary, no `raw`,
    balanced ⇒ the buffer is the flattening of a well-formed piece list (one piece per event). -/
theorem serialize_wellformed (V : Vocab) (x : Bool) (evs : List Event)
    (h : ∀ e ∈ evs, EventOK V e) (hb : Balanced evs) :
    serializeRaw x evs = flattenP (piecesOf x evs) ∧ WellFormed V (piecesOf x evs) :=
  ⟨serializeRaw_piecesOf x evs, piecesOfFrom_safe V x true evs h,
    by rw [piecesOf, balP_piecesOfFrom]; exact hb⟩

theorem NameOK.nulStr_eq {s : List Char} (h : NameOK s) : nulStr s = s := by
  unfold nulStr
  conv => rhs; rw [← List.map_id s]
  apply List.map_congr_left
  intro c hc
  have : c ≠ '\x00' := by
    rcases h c hc with h | rfl
    · rintro rfl; exact absurd h (by decide)
    · decide
  simp [nulChar, this]

theorem nulEvent_ok (V : Vocab) (e : Event) (h : EventOK V e) : EventOK V (nulEvent e) := by
  cases e with
  | «open» t a =>
    simp only [nulEvent, EventOK, (V.tag_ok t h.1).nulStr_eq]
    refine ⟨h.1, ?_⟩
    intro nv hnv
    obtain ⟨nv', hnv', rfl⟩ := List.mem_map.mp hnv
    simpa [(V.attr_ok t _ (h.2 nv' hnv')).nulStr_eq] using h.2 nv' hnv'
  | close t => simpa [nulEvent, EventOK, (V.tag_ok t h).nulStr_eq] using h
  | selfClose t a =>
    simp only [nulEvent, EventOK, (V.tag_ok t h.1).nulStr_eq]
    refine ⟨h.1, ?_⟩
    intro nv hnv
    obtain ⟨nv', hnv', rfl⟩ := List.mem_map.mp hnv
    simpa [(V.attr_ok t _ (h.2 nv' hnv')).nulStr_eq] using h.2 nv' hnv'
  | text s => trivial
  | raw s => exact h
  | cr => trivial

theorem balStack_nul (V : Vocab) (st : List (List Char)) (evs : List Event)
    (h : ∀ e ∈ evs, EventOK V e) : balStack st (evs.map nulEvent) = balStack st evs := by
  induction evs generalizing st with
  | nil => rfl
  | cons e r ih =>
    have hr : ∀ e' ∈ r, EventOK V e' := fun e' he' => h e' (by simp [he'])
    have he := h e (by simp)
    cases e with
    | «open» t a => simp [nulEvent, balStack, (V.tag_ok t he.1).nulStr_eq, ih _ hr]
    | close t =>
      cases st <;> simp [nulEvent, balStack, (V.tag_ok t he).nulStr_eq, ih _ hr]
    | selfClose t a => simp [nulEvent, balStack, ih _ hr]
    | text s => simp [nulEvent, balStack, ih _ hr]
    | raw s => simp [nulEvent, balStack, ih _ hr]
    | cr => simp [nulEvent, balStack, ih _ hr]

/-- **C03 (final string).** The same holds for the string actually returned (after U+0000 ↦ U+FFFD):
    it is the flattening of a well-formed piece list, one piece per event — so `lt_only_in_tags`,
    `gt_only_in_tags`, `delims_exact`, `amp_only_entities` apply to it verbatim. -/
theorem serialize_wellformed_final (V : Vocab) (x : Bool) (evs : List Event)
    (h : ∀ e ∈ evs, EventOK V e) (hb : Balanced evs) :
    ∃ ps, serialize x evs = flattenP ps ∧ ps.length = evs.length ∧ WellFormed V ps := by
  refine ⟨piecesOf x (evs.map nulEvent), ?_, ?_, ?_⟩
  · rw [serialize_nul_payload, serializeRaw_piecesOf]
  · simp [piecesOf, piecesOfFrom_length]
  · have h' : ∀ e ∈ evs.map nulEvent, EventOK V e := by
      intro e he
      obtain ⟨e', he', rfl⟩ := List.mem_map.mp he
      exact nulEvent_ok V e' (h e' he')
    refine (serialize_wellformed V x _ h' ?_).2
    unfold Balanced; rw [balStack_nul V [] evs h]; exact hb

/-- the headline corollary, on the returned string: every `<` starts a tag piece -/
theorem serialize_lt_only_in_tags (V : Vocab) (x : Bool) (evs : List Event)
    (h : ∀ e ∈ evs, EventOK V e) (hb : Balanced evs) :
    ∃ ps, serialize x evs = flattenP ps ∧ WellFormed V ps ∧
      ∀ i, (serialize x evs)[i]? = some '<' →
        ∃ pre p post, ps = pre ++ p :: post ∧ p.isTag = true ∧ i = (flattenP pre).length := by
  obtain ⟨ps, hser, _, hwf⟩ := serialize_wellformed_final V x evs h hb
  refine ⟨ps, hser, hwf, ?_⟩
  intro i hi
  rw [hser] at hi
  exact lt_only_in_tags V ps hwf.1 i hi

/-! ## 6. Non-vacuity: hostile payloads, and why the hypotheses are needed -/

/-- a small concrete vocabulary -/
def demoVocab : Vocab where
  tag t := t ∈ [['p'], ['a'], ['i', 'm', 'g']]
  attr _ n := n ∈ [['h', 'r', 'e', 'f'], ['s', 'r', 'c'], ['a', 'l', 't']]
  tag_ok := by
    intro t ht
    simp only [List.mem_cons, List.not_mem_nil, or_false] at ht
    rcases ht with rfl | rfl | rfl <;> decide
  attr_ok := by
    intro _ n hn
    simp only [List.mem_cons, List.not_mem_nil, or_false] at hn
    rcases hn with rfl | rfl | rfl <;> decide

/-- attribute-breaking quote in a value, `<script>` and an unescaped quote in text -/
def demoEvents : List Event :=
  [.open ['p'] [], .open ['a'] [(['h', 'r', 'e', 'f'], "\" onclick=\"x".toList)],
   .text "<script>\"&".toList, .close ['a'],
   .selfClose ['i', 'm', 'g'] [(['s', 'r', 'c'], "x\"><b".toList), (['a', 'l', 't'], "&lt;\x00".toList)],
   .close ['p'], .cr]

example : (∀ e ∈ demoEvents, EventOK demoVocab e) ∧ Balanced demoEvents := by
  refine ⟨?_, by decide⟩
  intro e he
  simp only [demoEvents, List.mem_cons, List.not_mem_nil, or_false] at he
  rcases he with rfl | rfl | rfl | rfl | rfl | rfl | rfl <;> simp [EventOK, demoVocab]

example : serialize true demoEvents =
    ("<p><a href=\"&quot; onclick=&quot;x\">&lt;script&gt;&quot;&amp;</a>" ++
     "<img src=\"x&quot;&gt;&lt;b\" alt=\"&amp;lt;\uFFFD\" /></p>\n").toList := by decide +kernel

theorem demoEvents_ok : ∀ e ∈ demoEvents, EventOK demoVocab e := by
  intro e he
  simp only [demoEvents, List.mem_cons, List.not_mem_nil, or_false] at he
  rcases he with rfl | rfl | rfl | rfl | rfl | rfl | rfl <;> simp [EventOK, demoVocab]

-- `lt_only_in_tags` / `gt_only_in_tags` / `amp_only_entities` instantiated on the hostile demo:
-- position 3 holds the `<` of `<a …>` and is the start of the second piece
example : ∃ pre p post, piecesOf true demoEvents = pre ++ p :: post ∧ p.isTag = true ∧
    3 = (flattenP pre).length :=
  lt_only_in_tags demoVocab _ (serialize_safe demoVocab true demoEvents demoEvents_ok).2.2 3
    (by decide +kernel)
-- position 12 holds the `&` of the `&quot;` the attribute-breaking quote was turned into
example : StartsEntity ((flattenP (piecesOf true demoEvents)).drop 12) :=
  amp_only_entities demoVocab _ (serialize_safe demoVocab true demoEvents demoEvents_ok).2.2 12
    (by decide +kernel)

/-- The hypotheses are needed. The serializer pushes tag names unescaped, and `escape_html` on an
    attribute *name* does not stop blanks or `=`: a `Renderer` client that lets input reach a tag or
    attribute name, or calls `text_raw`, can inject. (The shipped node kinds use literals there.) -/
example : serialize false [.open "x><script".toList []] = "<x><script>".toList := by decide
example : serialize false [.open ['a'] [("x onclick=alert(1) y".toList, [])]] =
    "<a x onclick=alert(1) y=\"\">".toList := by decide
example : serialize false [.raw "<script>".toList] = "<script>".toList := by decide

end MdIt.Render
