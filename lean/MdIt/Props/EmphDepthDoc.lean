/-
  Property C02 WITHOUT its exception, at document level: since emphasis nesting is limited by
  `max_nesting` (`Props/EmphDepth.lean`), the PLAIN depth of the tree `parseDoc` builds — every node
  counted, the emphasis wrappers `Em` / `Strong` / `Strikethrough` included — is bounded by a
  function of `N = max_nesting` alone:

      `depth t ≤ N + 1 + depthBound N = (N + 1) (N + 4) / 2`      (`= 1` for `N = 0`)

  `N + 1` block nodes above a paragraph's inline content (`Lemmas/C02DocBlock.parseBlocks_depth`),
  `depthBound N = 1 + N (N + 3) / 2` for the inline tree (`inline_tree_depth_bounded`).  The bound is
  reached for `N = 1` (5) and `N = 2` (9) (`full_depth_tight`).  `Props/C02Doc.lean` proves the
  linear bound `2 N + 2` for the depth NOT counting the wrappers; this file reuses its block-side
  lemma and its `Lighter` analysis of `fragments_join` and repeats the (short) walk lemmas for the
  plain depth.
-/
import MdIt.Props.C02Doc
import MdIt.Props.EmphDepth

namespace MdIt.Pipeline
open MdIt.Block (bdepth bdepthList bdepth_eq)
open MdIt.EmphDepth (treeDepth treeDepthList depthBound)

theorem depth_eq (n : Node) : depth n = 1 + depthList n.children := by
  cases n; simp [depth]

theorem depthList_le_iff (B : Nat) (cs : List Node) : depthList cs ≤ B ↔ ∀ c ∈ cs, depth c ≤ B := by
  induction cs with
  | nil => simp [depthList]
  | cons c cs ih => simp [depthList, Nat.max_le, ih]

theorem depth_le_of_mem {c : Node} {cs : List Node} (h : c ∈ cs) : depth c ≤ depthList cs :=
  (depthList_le_iff _ cs).mp (Nat.le_refl _) c h

theorem depthList_append (a b : List Node) : depthList (a ++ b) = max (depthList a) (depthList b) := by
  induction a with
  | nil => simp [depthList]
  | cons c cs ih => simp only [List.cons_append, depthList, ih]; omega

/-! ## step 1: the splice walk -/

mutual
theorem ofInline_depth (n : Inline.Node) : depth (ofInline n) = treeDepth n := by
  match n with
  | ⟨v, r, cs⟩ =>
    unfold ofInline
    rw [depth_eq]
    simp only [treeDepth]
    have := ofInlineList_depth cs
    omega
theorem ofInlineList_depth (cs : List Inline.Node) : depthList (ofInlineList cs) = treeDepthList cs := by
  match cs with
  | [] => simp [ofInlineList, depthList, treeDepthList]
  | c :: r =>
    simp only [ofInlineList, depthList, treeDepthList]
    rw [ofInline_depth c, ofInlineList_depth r]
end

/-- every list of children the inline parser returns has height `≤ I` -/
def InlineHeight (icfg : Inline.Cfg) (I : Nat) : Prop :=
  ∀ content mapping ns, Inline.parseInline icfg content mapping = .ok ns → treeDepthList ns ≤ I

mutual
theorem spliceNode_depth {icfg : Inline.Cfg} {I : Nat} (hI : InlineHeight icfg I)
    (b : Block.BNode) (hk : b.kind.isInl = false) (t : Node) (h : spliceNode icfg b = .ok t) :
    depth t ≤ bdepth 1 I b := by
  match b with
  | ⟨k, r, cs⟩ =>
    simp only [spliceNode] at h
    split at h
    · cases h
    · rename_i cs' hcs
      cases h
      rw [depth_eq, bdepth_eq]
      simp only at hk
      simp only [hk, Bool.false_eq_true, ↓reduceIte]
      have := spliceList_depth hI cs cs' hcs
      omega
theorem spliceList_depth {icfg : Inline.Cfg} {I : Nat} (hI : InlineHeight icfg I)
    (cs : List Block.BNode) (out : List Node) (h : spliceList icfg cs = .ok out) :
    depthList out ≤ bdepthList 1 I cs := by
  match cs with
  | [] => simp [spliceList] at h; subst h; simp [depthList]
  | c :: rest =>
    simp only [spliceList] at h
    split at h
    · -- an `InlineRoot`: the children the inline parser returns
      rename_i content mapping hck
      split at h
      · cases h
      · rename_i ns hns
        split at h
        · cases h
        · rename_i rest' hr
          cases h
          rw [depthList_append]
          simp only [bdepthList]
          have h1 := ofInlineList_depth ns
          have h2 := hI _ _ _ hns
          have h3 := spliceList_depth hI rest rest' hr
          have h4 : bdepth 1 I c = I := by rw [bdepth_eq, hck]; rfl
          omega
    · -- any other child: walked
      rename_i hne
      split at h
      · cases h
      · rename_i c' hc
        split at h
        · cases h
        · rename_i rest' hr
          cases h
          simp only [depthList, bdepthList]
          have hk : c.kind.isInl = false := by
            cases hck : c.kind <;> first | rfl | exact absurd hck (hne _ _)
          have h1 := spliceNode_depth hI c hk c' hc
          have h3 := spliceList_depth hI rest rest' hr
          omega
end

/-! ## step 2: the join pass never deepens anything -/

theorem joinNode_depth_aux (k : Nat) : ∀ n : Node, nsize n ≤ k → depth (joinNode n) ≤ depth n := by
  induction k with
  | zero => intro n hn; rw [nsize_eq] at hn; omega
  | succ k ih =>
    intro n hn
    rw [joinNode_eq, joinList_eq_map, depth_eq, depth_eq]
    simp only
    have : depthList ((fragmentsJoin n.children).map joinNode) ≤ depthList n.children := by
      rw [depthList_le_iff]
      intro y hy
      obtain ⟨x, hx, rfl⟩ := List.mem_map.mp hy
      -- what `fragments_join` keeps has the children of a node that was there
      obtain ⟨c, hc, hr⟩ := fragmentsJoin_lighter 0 0 _ x hx
      have hsz : nsize x ≤ k := by
        have h1 : nsize x = nsize c := by rw [nsize_eq, nsize_eq, hr.1]
        have h2 := nsize_le_of_mem hc
        rw [nsize_eq] at hn
        omega
      have hxc : depth x = depth c := by rw [depth_eq, depth_eq, hr.1]
      exact Nat.le_trans (ih x hsz) (by rw [hxc]; exact depth_le_of_mem hc)
    omega

/-- `FragmentsJoin::run` never deepens the tree -/
theorem joinNode_depth (n : Node) : depth (joinNode n) ≤ depth n :=
  joinNode_depth_aux _ n (Nat.le_refl _)

/-! ## step 3: the sourcepos pass only adds attributes -/

mutual
theorem sourceposNode_depth {src : List Char} {marks : List SourceMap.Mark} (t t' : Node)
    (h : sourceposNode src marks t = .ok t') : depth t' = depth t := by
  match t with
  | ⟨k, r, a, cs⟩ =>
    simp only [sourceposNode] at h
    split at h
    · cases h
    · split at h
      · cases h
      · rename_i cs' hcs
        cases h
        simp only [depth]
        rw [sourceposList_depth cs cs' hcs]
theorem sourceposList_depth {src : List Char} {marks : List SourceMap.Mark}
    (cs cs' : List Node) (h : sourceposList src marks cs = .ok cs') : depthList cs' = depthList cs := by
  match cs with
  | [] => simp [sourceposList] at h; subst h; rfl
  | c :: rest =>
    simp only [sourceposList] at h
    split at h
    · cases h
    · rename_i c' hc
      split at h
      · cases h
      · rename_i rest' hr
        cases h
        simp only [depthList]
        rw [sourceposNode_depth c c' hc, sourceposList_depth rest rest' hr]
end

/-! ## the composition -/

/-- the plain depth of the document is at most the depth of its block tree with every placeholder
    weighing what the inline parser can return -/
theorem parseDoc_depth {cfg : DocCfg} {src : List Char} {t : Node} (I : Nat)
    (hI : ∀ refs, InlineHeight (cfg.inlineCfg refs) I) (h : parseDoc cfg src = .ok t) :
    ∃ root refs, Block.parseBlocks cfg.blockCfg src = .ok (root, refs) ∧ depth t ≤ bdepth 1 I root := by
  unfold parseDoc at h
  split at h
  · cases h
  · rename_i root refs hb
    refine ⟨root, refs, hb, ?_⟩
    have hroot : root.kind.isInl = false := by
      rw [(Block.parseBlocks_wf hb).1]; rfl
    unfold afterBlocks at h
    split at h
    · cases h
    · rename_i t0 hs
      have h0 := spliceNode_depth (hI refs) root hroot t0 hs
      have h1 : depth (if cfg.hasJoin then joinNode t0 else t0) ≤ depth t0 := by
        split
        · exact joinNode_depth t0
        · exact Nat.le_refl _
      simp only at h
      split at h
      · rw [sourceposNode_depth _ _ h]; omega
      · cases h; omega

theorem inlineHeight_bound (cfg : DocCfg) (refs : Refs.RefMap) :
    InlineHeight (cfg.inlineCfg refs) (depthBound cfg.maxNesting) := by
  intro content mapping ns h
  have := EmphDepth.inline_tree_depth_bounded h
  simp only [DocCfg.inlineCfg] at this
  exact (EmphDepth.treeDepthList_le_iff _ _).mpr this

/-- `(N + 1) (N + 4) / 2` as `N + 1 + depthBound N` -/
def fullDepthBound (N : Nat) : Nat := N + 1 + depthBound N

theorem fullDepthBound_closed (N : Nat) : 2 * fullDepthBound N = (N + 1) * (N + 4) := by
  have := EmphDepth.depthBound_closed N
  unfold fullDepthBound
  simp only [Nat.add_mul, Nat.mul_add, Nat.one_mul, Nat.mul_one]
  omega

/-- **`doc_full_depth_bounded`: C02 without the emphasis exception.**  The depth of every parsed
    document — the root and EVERY node counted, emphasis wrappers included — is at most
    `fullDepthBound N = N + 1 + depthBound N = (N + 1) (N + 4) / 2` for `N = max_nesting` (`1` when
    `N = 0`): a function of the limit alone.  So every recursive pass over the tree (render, drop,
    `walk`) nests at most that deep.  Reached for `N = 1, 2` (`full_depth_tight`). -/
theorem doc_full_depth_bounded (cfg : DocCfg) (src : List Char) (t : Node) (h : parseDoc cfg src = .ok t) :
    depth t ≤ (if cfg.maxNesting = 0 then 1 else fullDepthBound cfg.maxNesting) := by
  obtain ⟨root, refs, hb, hle⟩ := parseDoc_depth (depthBound cfg.maxNesting) (inlineHeight_bound cfg) h
  have hpos : 1 ≤ depthBound cfg.maxNesting := by
    have := EmphDepth.baseBound_pos cfg.maxNesting
    unfold depthBound; omega
  have : bdepth 1 (depthBound cfg.maxNesting) root ≤
      (if cfg.maxNesting = 0 then 1 else cfg.maxNesting + 1 + depthBound cfg.maxNesting) :=
    Block.parseBlocks_depth (I := depthBound cfg.maxNesting) (J := depthBound cfg.maxNesting)
      hpos (Nat.le_refl _) hb
  unfold fullDepthBound
  by_cases h0 : cfg.maxNesting = 0
  · rw [if_pos h0] at this ⊢; omega
  · rw [if_neg h0] at this ⊢; omega

/-- the uniform form -/
theorem doc_full_depth_bounded' (cfg : DocCfg) (src : List Char) (t : Node) (h : parseDoc cfg src = .ok t) :
    2 * depth t ≤ (cfg.maxNesting + 1) * (cfg.maxNesting + 4) := by
  have h1 := doc_full_depth_bounded cfg src t h
  have h2 := fullDepthBound_closed cfg.maxNesting
  have h3 : 1 ≤ fullDepthBound cfg.maxNesting := by unfold fullDepthBound; omega
  split at h1 <;> omega

/-! ## examples -/

/-- the bound is reached: `N = 1`: root / paragraph / em / link / text = 5;
    `N = 2`: root / quote / paragraph / em / em / image / em / link / text = 9 -/
theorem full_depth_tight :
    fullDepthBound 1 = 5 ∧ fullDepthBound 2 = 9 ∧
    (parseDoc (exCfg false 1) "*[a](b)*".toList).toOption.map depth = some 5 ∧
    (parseDoc (exCfg false 2) ">*a *b ![*c [t](u) c*](i) b* a*".toList).toOption.map depth = some 9 := by
  decide +kernel

-- deeper emphasis stays text: the document whose depth grew with its length before the fix
-- (`'*a ' × k ++ 'a* ' × k`) now has the same depth for every `k ≥ N`
example : (parseDoc (exCfg false 2) "*a *a *a *a a* a* a* a*".toList).toOption.map depth = some 5 ∧
    (parseDoc (exCfg false 2) "*a *a a* a*".toList).toOption.map depth = some 5 ∧
    (parseDoc (exCfg false 2) "*a a*".toList).toOption.map depth = some 4 := by
  decide +kernel

-- the default limit
example : fullDepthBound 100 = 5252 := by decide +kernel

end MdIt.Pipeline
