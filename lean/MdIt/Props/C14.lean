/-
  C14 (inline-side mechanisms): "The tree returned by parsing contains only final node kinds — no
  parser-internal placeholder survives — … It never contains an empty text node or two adjacent text
  siblings."

  Proved here, for ALL inputs of the modelled functions:
    * `join_normal_form`      — after `fragments_join` a child vector has no `EmphMarker`, no empty
                                `Text` and no two adjacent `Text`s;
    * `join_content`          — `fragments_join` loses / reorders nothing of what is displayed;
    * `joinAll_normal_form`   — after `FragmentsJoin::run` (`walk_mut`) that holds at every node;
    * `push_no_adjacent`, `pop_no_adjacent` — the trailing-text operations keep "no empty text, no two
                                adjacent texts";
    * `splice_removes_inlineroot`, `walkNode_eq_loop` — `InlineParserRule`'s walk leaves no `InlineRoot`
                                at any depth; the index loop (terminating: measure `len - idx`) computes
                                the structural walk.
-/
import MdIt.Model.Join

namespace MdIt.C14
open MdIt.InlineOps MdIt.Join

/-! ## the normal form -/

def isMarker (n : INode) : Bool :=
  match n.kind with
  | .marker _ => true
  | _ => false

/-- no parser-internal `EmphMarker` -/
def NoMarker (l : List INode) : Prop := ∀ n ∈ l, isMarker n = false

/-- no `Text` with empty content -/
def NoEmptyText (l : List INode) : Prop := ∀ n ∈ l, n.isText = true → n.content ≠ []

/-- no two adjacent `Text` siblings -/
def NoAdjText : List INode → Prop
  | [] => True
  | x :: r => (∀ y, r.head? = some y → ¬ (x.isText = true ∧ y.isText = true)) ∧ NoAdjText r

structure NormalForm (l : List INode) : Prop where
  noMarker : NoMarker l
  noEmpty : NoEmptyText l
  noAdj : NoAdjText l

/-! ## pass 2 invariant: a text node that is directly followed by a text node is empty -/

def LeftEmpty : List INode → Prop
  | [] => True
  | x :: r =>
    (∀ y, r.head? = some y → x.isText = true → y.isText = true → x.content = []) ∧ LeftEmpty r

theorem head_mergeLoop (cur : INode) (rest : List INode) :
    ∃ h t, mergeLoop cur rest = h :: t ∧ h.isText = cur.isText := by
  cases rest with
  | nil => exact ⟨cur, [], rfl, rfl⟩
  | cons nxt rest =>
    simp only [mergeLoop]
    split
    · next hc =>
      simp only [Bool.and_eq_true] at hc
      exact ⟨_, _, rfl, by rw [hc.1]; exact hc.2⟩
    · exact ⟨_, _, rfl, rfl⟩

theorem leftEmpty_mergeLoop (cur : INode) (rest : List INode) : LeftEmpty (mergeLoop cur rest) := by
  induction rest generalizing cur with
  | nil => simp [mergeLoop, LeftEmpty]
  | cons nxt rest ih =>
    simp only [mergeLoop]
    split
    · exact ⟨fun _ _ _ _ => rfl, ih _⟩
    · next hc =>
      refine ⟨?_, ih _⟩
      obtain ⟨h, t, e, ht⟩ := head_mergeLoop nxt rest
      intro y hy h1 h2
      rw [e] at hy
      simp only [List.head?_cons, Option.some.injEq] at hy
      subst hy
      rw [ht] at h2
      simp [h1, h2] at hc

theorem leftEmpty_mergeAll (l : List INode) : LeftEmpty (mergeAll l) := by
  cases l with
  | nil => simp [mergeAll, LeftEmpty]
  | cons c r => exact leftEmpty_mergeLoop c r

theorem keep_of_not_text (n : INode) (h : n.isText = false) : keep n = true := by
  simp [keep, h]

/-- after a non-empty text that survives `retain`, the next survivor is not a text -/
theorem filter_head_after_text (x : INode) (r : List INode) (h : LeftEmpty (x :: r))
    (hx : x.isText = true) (hne : x.content ≠ []) :
    ∀ y, (r.filter keep).head? = some y → y.isText = false := by
  cases r with
  | nil => simp
  | cons y' r' =>
    have hy' : y'.isText = false := by
      cases hyt : y'.isText with
      | false => rfl
      | true => exact absurd (h.1 y' rfl hx hyt) hne
    intro y hy
    rw [List.filter_cons_of_pos (keep_of_not_text _ hy')] at hy
    simp only [List.head?_cons, Option.some.injEq] at hy
    subst hy; exact hy'

theorem noAdj_filter_of_leftEmpty (l : List INode) (h : LeftEmpty l) : NoAdjText (l.filter keep) := by
  induction l with
  | nil => simp [NoAdjText]
  | cons x r ih =>
    by_cases hk : keep x = true
    · rw [List.filter_cons_of_pos hk]
      refine ⟨?_, ih h.2⟩
      intro y hy hxy
      have hne : x.content ≠ [] := by
        intro hc
        simp [keep, hxy.1, hc] at hk
      have := filter_head_after_text x r h hxy.1 hne y hy
      rw [this] at hxy
      exact absurd hxy.2 (by simp)
    · rw [List.filter_cons_of_neg hk]
      exact ih h.2

/-! ## no marker survives pass 1 / pass 2 keeps kinds -/

theorem isMarker_markerToText (n : INode) : isMarker (markerToText n) = false := by
  unfold markerToText
  split
  · rfl
  · next h =>
    unfold isMarker
    split
    · next ch hk => exact absurd hk (h ch)
    · rfl

theorem noMarker_pass1 (cs : List INode) : NoMarker (pass1 cs) := by
  intro n hn
  simp only [pass1, List.mem_map] at hn
  obtain ⟨a, _, rfl⟩ := hn
  exact isMarker_markerToText a

theorem noMarker_mergeLoop (cur : INode) (rest : List INode) (h : NoMarker (cur :: rest)) :
    NoMarker (mergeLoop cur rest) := by
  induction rest generalizing cur with
  | nil => simpa [mergeLoop] using h
  | cons nxt rest ih =>
    have hcur := h cur (by simp)
    have hnxt := h nxt (by simp)
    have hrest : ∀ n ∈ rest, isMarker n = false := fun n hn => h n (by simp [hn])
    simp only [mergeLoop]
    split
    · intro n hn
      rcases List.mem_cons.mp hn with rfl | hn
      · exact hnxt
      · apply ih (merged cur nxt) _ n hn
        intro m hm
        rcases List.mem_cons.mp hm with rfl | hm
        · exact hcur
        · exact hrest m hm
    · intro n hn
      rcases List.mem_cons.mp hn with rfl | hn
      · exact hcur
      · apply ih nxt _ n hn
        intro m hm
        rcases List.mem_cons.mp hm with rfl | hm
        · exact hnxt
        · exact hrest m hm

theorem noMarker_mergeAll (l : List INode) (h : NoMarker l) : NoMarker (mergeAll l) := by
  cases l with
  | nil => simpa [mergeAll] using h
  | cons c r => exact noMarker_mergeLoop c r h

/-! ## `join_normal_form` -/

/-- **C14 / join_normal_form.**  For EVERY child vector — any mixture of texts (empty or not), markers
    (any `remaining`, 0 included) and other nodes, with or without source ranges — the result of
    `fragments_join` contains no marker, no empty text node and no two adjacent text nodes. -/
theorem join_normal_form (cs : List INode) : NormalForm (fragmentsJoin cs) := by
  rw [fragmentsJoin_eq, fragmentsJoinL]
  refine ⟨?_, ?_, ?_⟩
  · intro n hn
    exact noMarker_mergeAll _ (noMarker_pass1 cs) n (List.mem_filter.mp hn).1
  · intro n hn ht hc
    have := (List.mem_filter.mp hn).2
    simp [keep, ht, hc] at this
  · exact noAdj_filter_of_leftEmpty _ (leftEmpty_mergeAll _)

/-- rendering of a child vector for the examples: `T` text / `N` non-text, content, range -/
def summary (l : List INode) : String :=
  ";".intercalate (l.map (fun n =>
    (if n.isText then "T:" else "N:") ++ String.ofList n.content ++ ":" ++
      (match n.range with
       | some (a, b) => toString a ++ "-" ++ toString b
       | none => "none")))

def exText (s : String) (a b : Nat) : INode := INode.newText s.toList (some (a, b))
def exMarker (ch : Char) (r a b : Nat) : INode :=
  { kind := .marker ch, content := [], range := some (a, b), children := [], remaining := r }

/-- non-vacuity: a run `text, marker×2, empty text, marker×0, other, text, text` — three merges, two
    removals, nothing adjacent left -/
example :
    summary (fragmentsJoin [exText "a" 0 1, exMarker '*' 2 1 3, exText "" 3 3, exMarker '*' 0 3 3,
      INode.newOther 7 (some (3, 5)), exText "b" 5 6, exText "c" 6 7]) =
      "T:a**:0-3;N::3-5;T:bc:5-7" := by
  decide +kernel

/-! ## `join_content` -/

/-- what a child shows: the characters of a text, `remaining` copies of the marker character of a
    marker, and any other node as an opaque token (the node itself) -/
def displayNode (n : INode) : List (Char ⊕ INode) :=
  match n.kind with
  | .text => n.content.map Sum.inl
  | .marker ch => (markerText ch n.remaining).map Sum.inl
  | .other _ => [Sum.inr n]

def display (l : List INode) : List (Char ⊕ INode) := l.flatMap displayNode

theorem display_cons (n : INode) (l : List INode) : display (n :: l) = displayNode n ++ display l := by
  simp [display]

theorem isText_iff (n : INode) : n.isText = true ↔ n.kind = .text := by
  unfold INode.isText; split <;> simp_all

theorem displayNode_markerToText (n : INode) : displayNode (markerToText n) = displayNode n := by
  unfold markerToText
  split
  · next ch h => simp [displayNode, h]
  · rfl

theorem display_pass1 (cs : List INode) : display (pass1 cs) = display cs := by
  induction cs with
  | nil => rfl
  | cons c cs ih =>
    simp only [pass1, List.map_cons] at ih ⊢
    rw [display_cons, display_cons, ih, displayNode_markerToText]

theorem displayNode_emptied (n : INode) (h : n.isText = true) : displayNode (emptied n) = [] := by
  have := (isText_iff n).mp h
  simp [displayNode, emptied, this]

theorem displayNode_merged (a b : INode) (ha : a.isText = true) (hb : b.isText = true) :
    displayNode (merged a b) = displayNode a ++ displayNode b := by
  have h1 := (isText_iff a).mp ha
  have h2 := (isText_iff b).mp hb
  simp [displayNode, merged, h1, h2]

theorem display_mergeLoop (cur : INode) (rest : List INode) :
    display (mergeLoop cur rest) = display (cur :: rest) := by
  induction rest generalizing cur with
  | nil => rfl
  | cons nxt rest ih =>
    simp only [mergeLoop]
    split
    · next hc =>
      simp only [Bool.and_eq_true] at hc
      rw [display_cons, ih, display_cons, display_cons, display_cons,
        displayNode_emptied _ hc.2, displayNode_merged _ _ hc.1 hc.2]
      simp
    · rw [display_cons, ih]
      simp [display_cons]

theorem display_filter_keep (l : List INode) : display (l.filter keep) = display l := by
  induction l with
  | nil => rfl
  | cons x r ih =>
    by_cases hk : keep x = true
    · rw [List.filter_cons_of_pos hk, display_cons, display_cons, ih]
    · rw [List.filter_cons_of_neg hk, display_cons, ih]
      simp only [keep, Bool.not_eq_true', Bool.not_eq_false, Bool.and_eq_true,
        List.isEmpty_iff] at hk
      have := (isText_iff x).mp hk.1
      simp [displayNode, this, hk.2]

/-- **C14 / join_content.**  The concatenation of what the children show is preserved by
    `fragments_join`: no character is lost, duplicated or moved across another node. -/
theorem join_content (cs : List INode) : display (fragmentsJoin cs) = display cs := by
  rw [fragmentsJoin_eq, fragmentsJoinL, display_filter_keep]
  rw [← display_pass1 cs]
  cases pass1 cs with
  | nil => rfl
  | cons c r => exact display_mergeLoop c r

example :
    (display [exText "a" 0 1, exMarker '*' 2 1 3, exText "" 3 3, exText "b" 3 4]).length = 4 ∧
    (fragmentsJoin [exText "a" 0 1, exMarker '*' 2 1 3, exText "" 3 3, exText "b" 3 4]).length = 1 := by
  decide +kernel

/-! ## `joinAll_normal_form` -/

mutual
/-- the normal form holds for the children of every node of the tree -/
def AllNF : INode → Prop
  | ⟨_, _, _, cs, _⟩ => NormalForm cs ∧ AllNFList cs
def AllNFList : List INode → Prop
  | [] => True
  | c :: cs => AllNF c ∧ AllNFList cs
end

theorem AllNF_eq (n : INode) : AllNF n ↔ NormalForm n.children ∧ AllNFList n.children := by
  cases n; simp [AllNF]

theorem joinList_eq_map (l : List INode) : joinList l = l.map joinNode := by
  induction l with
  | nil => simp [joinList]
  | cons c cs ih => rw [joinList, ih]; rfl

theorem joinNode_kind (n : INode) : (joinNode n).kind = n.kind := by rw [joinNode]
theorem joinNode_content (n : INode) : (joinNode n).content = n.content := by rw [joinNode]
theorem joinNode_children (n : INode) :
    (joinNode n).children = joinList (fragmentsJoin n.children) := by rw [joinNode]

theorem joinNode_isText (n : INode) : (joinNode n).isText = n.isText := by
  simp [INode.isText, joinNode_kind]

theorem joinNode_isMarker (n : INode) : isMarker (joinNode n) = isMarker n := by
  simp [isMarker, joinNode_kind]

theorem noAdj_map_joinNode (l : List INode) (h : NoAdjText l) : NoAdjText (l.map joinNode) := by
  induction l with
  | nil => simp [NoAdjText]
  | cons x r ih =>
    refine ⟨?_, ih h.2⟩
    intro y hy
    cases r with
    | nil => simp at hy
    | cons y' r' =>
      simp only [List.map_cons, List.head?_cons, Option.some.injEq] at hy
      subst hy
      rw [joinNode_isText, joinNode_isText]
      exact h.1 y' rfl

/-- the walk changes only `children`, so the normal form of a sibling list is not disturbed by what
    happens below it -/
theorem normalForm_map_joinNode (l : List INode) (h : NormalForm l) : NormalForm (l.map joinNode) := by
  refine ⟨?_, ?_, noAdj_map_joinNode l h.noAdj⟩
  · intro n hn
    obtain ⟨a, ha, rfl⟩ := List.mem_map.mp hn
    rw [joinNode_isMarker]; exact h.noMarker a ha
  · intro n hn
    obtain ⟨a, ha, rfl⟩ := List.mem_map.mp hn
    rw [joinNode_isText, joinNode_content]; exact h.noEmpty a ha

theorem joinAll_aux (k : Nat) :
    (∀ n, size n ≤ k → AllNF (joinNode n)) ∧ (∀ l, sizeList l ≤ k → AllNFList (joinList l)) := by
  induction k with
  | zero =>
    constructor
    · intro n hn; rw [size_eq] at hn; omega
    · intro l hl
      cases l with
      | nil => simp [joinList, AllNFList]
      | cons c cs => simp only [sizeList] at hl; have := size_eq c; omega
  | succ k ih =>
    have hnode : ∀ n, size n ≤ k + 1 → AllNF (joinNode n) := by
      intro n hn
      rw [AllNF_eq, joinNode_children]
      constructor
      · rw [joinList_eq_map]
        exact normalForm_map_joinNode _ (join_normal_form _)
      · apply ih.2
        have := sizeList_fragmentsJoin_le n.children
        rw [size_eq] at hn; omega
    refine ⟨hnode, ?_⟩
    intro l hl
    induction l with
    | nil => simp [joinList, AllNFList]
    | cons c cs ihl =>
      rw [joinList]
      simp only [sizeList] at hl
      have := size_eq c
      exact ⟨hnode c (by omega), ihl (by omega)⟩

/-- **C14 / joinAll_normal_form.**  After `FragmentsJoin::run` every node of the tree has children
    in normal form: no marker, no empty text, no two adjacent texts — at every depth. -/
theorem joinAll_normal_form (root : INode) : AllNF (joinAll root) :=
  (joinAll_aux (size root)).1 root (Nat.le_refl _)

def exEm : INode :=
  { INode.newOther 1 none with children := [exText "x" 1 2, exMarker '_' 1 2 3, exText "" 3 3, exText "y" 3 4] }
def exRoot : INode :=
  { INode.newOther 0 none with children := [exText "a" 0 1, exMarker '_' 0 1 1, exEm, exMarker '_' 1 4 5, exText "b" 5 6] }

example :
    summary (joinAll exRoot).children = "T:a:0-1;N::none;T:_b:4-6" ∧
    (joinAll exRoot).children.map (fun n => summary n.children) = ["", "T:x_y:1-4", ""] := by
  decide +kernel

/-! ## trailing-text operations keep "no empty text, no two adjacent texts" -/

theorem popLast_spec (l : List INode) :
    (popLast l = none ∧ l = []) ∨ (∃ init last, popLast l = some (init, last) ∧ l = init ++ [last]) := by
  induction l with
  | nil => left; simp [popLast]
  | cons x r ih =>
    right
    cases r with
    | nil => exact ⟨[], x, rfl, rfl⟩
    | cons y r' =>
      rcases ih with ⟨_, h⟩ | ⟨init, last, h1, h2⟩
      · simp at h
      · exact ⟨x :: init, last, by simp [popLast, h1], by simp [h2]⟩

theorem noAdj_snoc (l : List INode) (x : INode) :
    NoAdjText (l ++ [x]) ↔
      NoAdjText l ∧ ∀ y, l.getLast? = some y → ¬ (y.isText = true ∧ x.isText = true) := by
  induction l with
  | nil => simp [NoAdjText]
  | cons a r ih =>
    cases r with
    | nil => simp [NoAdjText]
    | cons b r' =>
      have e : (a :: b :: r') ++ [x] = a :: ((b :: r') ++ [x]) := rfl
      rw [e]
      simp only [NoAdjText] at ih ⊢
      rw [ih]
      simp only [List.cons_append, List.head?_cons, Option.some.injEq, forall_eq',
        List.getLast?_cons_cons]
      constructor
      · rintro ⟨h1, ⟨h2, h3⟩, h4⟩; exact ⟨⟨h1, h2, h3⟩, h4⟩
      · rintro ⟨⟨h1, h2, h3⟩, h4⟩; exact ⟨h1, ⟨h2, h3⟩, h4⟩

theorem splitAtByte_spec (s : List Char) (n : Nat) (a b : List Char)
    (h : splitAtByte s n = some (a, b)) : s = a ++ b ∧ byteLen a = n := by
  induction s generalizing n a b with
  | nil =>
    simp only [splitAtByte] at h
    split at h
    · simp only [Option.some.injEq, Prod.mk.injEq] at h
      obtain ⟨rfl, rfl⟩ := h
      simp [byteLen, *]
    · simp at h
  | cons c r ih =>
    simp only [splitAtByte] at h
    split at h
    · simp only [Option.some.injEq, Prod.mk.injEq] at h
      obtain ⟨rfl, rfl⟩ := h
      simp [byteLen, *]
    · split at h
      · simp at h
      · split at h
        · simp at h
        · next a' b' hs =>
          simp only [Option.some.injEq, Prod.mk.injEq] at h
          obtain ⟨rfl, rfl⟩ := h
          obtain ⟨e1, e2⟩ := ih _ _ _ hs
          refine ⟨by simp [e1], ?_⟩
          simp only [byteLen]; omega

theorem byteLen_pos_ne_nil (s : List Char) (h : 0 < byteLen s) : s ≠ [] := by
  intro e; subst e; simp [byteLen] at h

theorem slice_len (s : List Char) (a b : Nat) (p : List Char) (h : slice s a b = .ok p) :
    byteLen p = b - a := by
  unfold slice at h
  split at h
  · simp at h
  · split at h
    · simp at h
    · split at h
      · simp at h
      · next mid _ hs =>
        simp only [Except.ok.injEq] at h
        subst h
        exact (splitAtByte_spec _ _ _ _ hs).2

/-- the two facts about a child vector this section is about -/
structure TextOK (l : List INode) : Prop where
  noEmpty : NoEmptyText l
  noAdj : NoAdjText l

theorem noEmpty_snoc (l : List INode) (x : INode) :
    NoEmptyText (l ++ [x]) ↔ NoEmptyText l ∧ (x.isText = true → x.content ≠ []) := by
  simp only [NoEmptyText, List.mem_append, List.mem_singleton]
  constructor
  · intro h; exact ⟨fun n hn => h n (Or.inl hn), h x (Or.inr rfl)⟩
  · rintro ⟨h1, h2⟩ n (hn | rfl)
    · exact h1 n hn
    · exact h2

/-- **C14 / push_no_adjacent.**  `trailing_text_push(start, end)` with `start < end` on a child vector
    without empty texts and without adjacent texts yields such a vector again. -/
theorem push_no_adjacent (src : List Char) (m : Srcmap) (children : List INode) (start stop : Nat)
    (hok : TextOK children) (hlt : start < stop) (out : List INode)
    (h : trailingTextPush src m children start stop = .ok out) : TextOK out := by
  -- the fresh-node branch
  have fresh : ∀ (hlast : ∀ y, children.getLast? = some y → y.isText = false),
      (match slice src start stop with
        | .error e => Except.error e
        | .ok piece =>
          match getMap m start stop with
          | .error e => .error e
          | .ok r => .ok (children ++ [INode.newText piece (some r)])) = Except.ok out →
      TextOK out := by
    intro hlast hf
    split at hf
    · simp at hf
    · next piece hp =>
      split at hf
      · simp at hf
      · simp only [Except.ok.injEq] at hf
        subst hf
        have hne : piece ≠ [] :=
          byteLen_pos_ne_nil _ (by rw [slice_len _ _ _ _ hp]; omega)
        refine ⟨(noEmpty_snoc _ _).mpr ⟨hok.noEmpty, fun _ => hne⟩,
          (noAdj_snoc _ _).mpr ⟨hok.noAdj, ?_⟩⟩
        intro y hy hc
        rw [hlast y hy] at hc
        exact absurd hc.1 (by simp)
  unfold trailingTextPush at h
  rcases popLast_spec children with ⟨hp, hnil⟩ | ⟨init, last, hp, hsplit⟩
  · rw [hp] at h
    exact fresh (by simp [hnil]) h
  · rw [hp] at h
    simp only at h
    split at h
    · next hlt' =>
      -- the last child is a text: it grows
      have hinit : TextOK init := by
        rw [hsplit] at hok
        exact ⟨((noEmpty_snoc _ _).mp hok.noEmpty).1, ((noAdj_snoc _ _).mp hok.noAdj).1⟩
      have hlastAdj := ((noAdj_snoc init last).mp (hsplit ▸ hok.noAdj)).2
      have hlastNe : last.content ≠ [] :=
        ((noEmpty_snoc init last).mp (hsplit ▸ hok.noEmpty)).2 hlt'
      have grow : ∀ (last' : INode), last'.isText = last.isText →
          (∃ p, last'.content = last.content ++ p) → TextOK (init ++ [last']) := by
        intro last' hk ⟨p, hc⟩
        refine ⟨(noEmpty_snoc _ _).mpr ⟨hinit.noEmpty, fun _ => ?_⟩,
          (noAdj_snoc _ _).mpr ⟨hinit.noAdj, ?_⟩⟩
        · rw [hc]; intro e; exact hlastNe (List.append_eq_nil_iff.mp e).1
        · intro y hy; rw [hk]; exact hlastAdj y hy
      split at h
      · simp at h
      · next piece _ =>
        split at h
        · simp only [Except.ok.injEq] at h
          subst h
          exact grow _ rfl ⟨piece, rfl⟩
        · split at h
          · simp at h
          · simp only [Except.ok.injEq] at h
            subst h
            exact grow _ rfl ⟨piece, rfl⟩
    · next hnt =>
      apply fresh _ h
      intro y hy
      rw [hsplit] at hy
      simp only [List.getLast?_append, List.getLast?_singleton, Option.some_or,
        Option.some.injEq] at hy
      subst hy
      simpa using hnt

/-- **C14 / pop_no_adjacent.**  `trailing_text_pop(count)` (which removes the node when nothing of it is
    left) keeps "no empty text, no two adjacent texts". -/
theorem pop_no_adjacent (children : List INode) (count : Nat) (hok : TextOK children)
    (out : List INode) (h : trailingTextPop children count = .ok out) : TextOK out := by
  unfold trailingTextPop at h
  split at h
  · simp only [Except.ok.injEq] at h; subst h; exact hok
  · rcases popLast_spec children with ⟨hp, _⟩ | ⟨init, last, hp, hsplit⟩
    · rw [hp] at h; simp at h
    · rw [hp] at h
      simp only at h
      have hinit : TextOK init := by
        rw [hsplit] at hok
        exact ⟨((noEmpty_snoc _ _).mp hok.noEmpty).1, ((noAdj_snoc _ _).mp hok.noAdj).1⟩
      have hlastAdj := ((noAdj_snoc init last).mp (hsplit ▸ hok.noAdj)).2
      have shrink : ∀ (last' : INode), last'.isText = last.isText → last'.content ≠ [] →
          TextOK (init ++ [last']) := by
        intro last' hk hc
        refine ⟨(noEmpty_snoc _ _).mpr ⟨hinit.noEmpty, fun _ => hc⟩,
          (noAdj_snoc _ _).mpr ⟨hinit.noAdj, ?_⟩⟩
        intro y hy; rw [hk]; exact hlastAdj y hy
      split at h
      · simp at h
      · split at h
        · simp only [Except.ok.injEq] at h; subst h; exact hinit
        · split at h
          · simp at h
          · next hne hnlt =>
            split at h
            · simp at h
            · next content' ht =>
              have hc' : content' ≠ [] := by
                unfold truncate at ht
                split at ht
                · simp at ht
                · next a b hs =>
                  simp only [Except.ok.injEq] at ht
                  subst ht
                  have := (splitAtByte_spec _ _ _ _ hs).2
                  exact byteLen_pos_ne_nil _ (by omega)
              split at h
              · simp only [Except.ok.injEq] at h; subst h
                exact shrink _ rfl hc'
              · split at h
                · simp at h
                · simp only [Except.ok.injEq] at h; subst h
                  exact shrink _ rfl hc'

def exShow (r : Except InlineOps.Panic (List INode)) : String :=
  match r with
  | .ok l => summary l
  | .error _ => "PANIC"

def exSrc : List Char := "ab  cd  ".toList

/-- non-vacuity: push (fresh), push (grows), push after an opaque node (fresh), pop (shrinks),
    pop (removes) -/
example :
    exShow (trailingTextPush exSrc [(0, 10)] [] 0 2) = "T:ab:10-12" ∧
    exShow (trailingTextPush exSrc [(0, 10)] [exText "ab" 10 12] 2 4) = "T:ab  :10-14" ∧
    exShow (trailingTextPush exSrc [(0, 10)] [INode.newOther 3 none] 4 8) = "N::none;T:cd  :14-18" ∧
    exShow (trailingTextPop [exText "ab  " 10 14] 2) = "T:ab:10-12" ∧
    exShow (trailingTextPop [INode.newOther 3 none, exText "  " 12 14] 2) = "N::none" := by
  decide +kernel

/-! ## `InlineParserRule`: no `InlineRoot` survives -/

mutual
/-- no `InlineRoot` placeholder at this node or anywhere below it -/
def NoRootDeep : BNode → Prop
  | ⟨r, _, cs⟩ => r = false ∧ NoRootDeepList cs
def NoRootDeepList : List BNode → Prop
  | [] => True
  | c :: cs => NoRootDeep c ∧ NoRootDeepList cs
end

theorem noRootDeepList_append (a b : List BNode) :
    NoRootDeepList (a ++ b) ↔ NoRootDeepList a ∧ NoRootDeepList b := by
  induction a with
  | nil => simp [NoRootDeepList]
  | cons x r ih => simp [NoRootDeepList, ih, and_assoc]

mutual
theorem walkNode_noRoot (parse : BNode → List BNode) (hp : ∀ c, NoRootDeepList (parse c)) :
    ∀ n : BNode, n.isRoot = false → NoRootDeep (walkNode parse n)
  | ⟨r, t, cs⟩, h => by
    simp only [walkNode, NoRootDeep]
    exact ⟨h, walkList_noRoot parse hp cs⟩
theorem walkList_noRoot (parse : BNode → List BNode) (hp : ∀ c, NoRootDeepList (parse c)) :
    ∀ l : List BNode, NoRootDeepList (walkList parse l)
  | [] => by simp [walkList, NoRootDeepList]
  | c :: cs => by
    simp only [walkList]
    split
    · exact (noRootDeepList_append _ _).mpr ⟨hp c, walkList_noRoot parse hp cs⟩
    · next h =>
      exact ⟨walkNode_noRoot parse hp c (by simpa using h), walkList_noRoot parse hp cs⟩
end

/-- **C14 / splice_removes_inlineroot.**  Whatever the inline parser returns for a placeholder — as
    long as it contains no placeholder itself — the tree produced by `InlineParserRule`'s walk from a
    non-placeholder root contains no placeholder at any depth (also inside list items, quotes, …: the
    walk descends into every non-placeholder child). -/
theorem splice_removes_inlineroot (parse : BNode → List BNode)
    (hp : ∀ c, NoRootDeepList (parse c)) (root : BNode) (hr : root.isRoot = false) :
    NoRootDeep (walkNode parse root) :=
  walkNode_noRoot parse hp root hr

/-- one step of the loop body, as a list: the spliced result, or the walked child -/
def step (parse : BNode → List BNode) (recur : BNode → BNode) (c : BNode) : List BNode :=
  if c.isRoot then parse c else [recur c]

/-- the index loop (whose termination Lean checked with the measure `len − idx`: `idx` advances by the
    spliced length, which may be 0, while the vector shrinks by one) leaves the first `idx` children
    alone and replaces every later one by its `step` -/
theorem spliceLoop_eq (parse : BNode → List BNode) (recur : BNode → BNode) (pre post : List BNode) :
    spliceLoop parse recur (pre ++ post) pre.length = pre ++ post.flatMap (step parse recur) := by
  induction post generalizing pre with
  | nil => rw [spliceLoop]; simp
  | cons c post ih =>
    rw [spliceLoop]
    have h : pre.length < (pre ++ c :: post).length := by simp
    have e : (pre ++ c :: post)[pre.length] = c := by simp
    simp only [h, dite_true, e]
    split
    · next hc =>
      have e2 : List.take pre.length (pre ++ c :: post) ++ parse c ++
          List.drop (pre.length + 1) (pre ++ c :: post) = (pre ++ parse c) ++ post := by
        simp
      rw [e2]
      have := ih (pre ++ parse c)
      simp only [List.length_append] at this
      rw [this]
      simp [step, hc]
    · next hc =>
      have e2 : (pre ++ c :: post).set pre.length (recur c) = (pre ++ [recur c]) ++ post := by
        simp
      rw [e2]
      have := ih (pre ++ [recur c])
      simp only [List.length_append, List.length_singleton] at this
      rw [this]
      simp [step, hc]

theorem walkList_eq_flatMap (parse : BNode → List BNode) (l : List BNode) :
    walkList parse l = l.flatMap (step parse (walkNode parse)) := by
  induction l with
  | nil => simp [walkList]
  | cons c cs ih =>
    simp only [walkList, List.flatMap_cons, step, ih]
    split <;> simp

/-- the structural walk IS the loop of the Rust: at every node, `children` after the walk is what the
    `while idx < node.children.len()` loop started at `idx = 0` leaves, with the recursive call on
    non-placeholder children being the walk itself -/
theorem walkNode_eq_loop (parse : BNode → List BNode) (n : BNode) :
    walkNode parse n = { n with children := spliceLoop parse (walkNode parse) n.children 0 } := by
  cases n with
  | mk r t cs =>
    simp only [walkNode]
    have := spliceLoop_eq parse (walkNode parse) [] cs
    simp only [List.nil_append, List.length_nil] at this
    rw [this, walkList_eq_flatMap]

def exLeaf (t : Nat) : BNode := ⟨false, t, []⟩
def exPh (t : Nat) : BNode := ⟨true, t, []⟩
/-- a placeholder with tag `t` parses to `t` leaves -/
def exParse : BNode → List BNode := fun c => (List.range c.tag).map (fun i => exLeaf (100 + i))
def exTree : BNode := ⟨false, 0, [exPh 2, ⟨false, 1, [exPh 0, exPh 0, exPh 1]⟩, exPh 0]⟩

mutual
def bnodeBeq : BNode → BNode → Bool
  | ⟨r, t, cs⟩, ⟨r', t', cs'⟩ => r == r' && t == t' && bnodeListBeq cs cs'
def bnodeListBeq : List BNode → List BNode → Bool
  | [], [] => true
  | a :: as, b :: bs => bnodeBeq a b && bnodeListBeq as bs
  | _, _ => false
end

/-- non-vacuity: a placeholder at depth 1 spliced to two nodes, two at depth 2 spliced to NOTHING
    (`idx` does not advance), one to one node; the loop and the structural walk agree -/
example :
    bnodeBeq (walkNode exParse exTree)
      ⟨false, 0, [exLeaf 100, exLeaf 101, ⟨false, 1, [exLeaf 100]⟩]⟩ = true ∧
    bnodeListBeq (spliceLoop exParse (walkNode exParse) exTree.children 0)
      [exLeaf 100, exLeaf 101, ⟨false, 1, [exLeaf 100]⟩] = true := by
  decide +kernel

end MdIt.C14
