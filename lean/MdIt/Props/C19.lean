/-
  C19 — the serializer is faithful to renderer events.

  All statements quantify over every event list (every tag, attribute list and payload string,
  including hostile / empty / NUL-containing ones) and both serializer modes.
-/
import MdIt.Model.Render

namespace MdIt.Render

/-! ### flatten / summary helpers -/

@[simp] theorem flatten_nil : flatten [] = [] := rfl
@[simp] theorem flatten_cons (p : List Char) (r : List (List Char)) :
    flatten (p :: r) = p ++ flatten r := rfl

theorem flatten_append (a b : List (List Char)) : flatten (a ++ b) = flatten a ++ flatten b := by
  induction a with
  | nil => rfl
  | cons p r ih => simp [ih]

/-- the summary of `buf ++ p` depends only on the summary of `buf` and on `p` -/
theorem atSol_append (buf p : List Char) : atSol (buf ++ p) = solAfter (atSol buf) p := by
  unfold atSol solAfter
  cases h : p.getLast? with
  | none =>
    have : p = [] := by simpa using h
    subst this; simp
  | some c =>
    have : (buf ++ p).getLast? = some c := by
      simp [List.getLast?_append, h]
    simp [this]

@[simp] theorem atSol_nil : atSol [] = true := rfl

theorem makeAttrs_eq (buf : List Char) (attrs : List (List Char × List Char)) :
    makeAttrs buf attrs = buf ++ attrsStr attrs := by
  induction attrs generalizing buf with
  | nil => simp [makeAttrs, attrsStr]
  | cons nv r ih =>
    have : makeAttrs buf (nv :: r) = makeAttrs (makeAttr buf nv.1 nv.2) r := rfl
    rw [this, ih]
    simp [makeAttr, attrsStr, attrStr]

/-- one trait call appends exactly the event's piece, chosen from the buffer summary alone -/
theorem serializeBuf_eq (x : Bool) (buf : List Char) (e : Event) :
    serializeBuf x buf e = buf ++ piece x (atSol buf) e := by
  cases e with
  | «open» t a => simp [serializeBuf, piece, makeAttrs_eq]
  | close t => simp [serializeBuf, piece]
  | selfClose t a => cases x <;> simp [serializeBuf, piece, makeAttrs_eq]
  | text s => simp [serializeBuf, piece]
  | raw s => simp [serializeBuf, piece]
  | cr =>
    unfold serializeBuf piece atSol
    cases buf.getLast? with
    | none => simp
    | some c => by_cases hc : c = '\n' <;> simp [hc]

theorem foldl_serializeBuf (x : Bool) (buf : List Char) (evs : List Event) :
    evs.foldl (serializeBuf x) buf = buf ++ flatten (piecesFrom x (atSol buf) evs) := by
  induction evs generalizing buf with
  | nil => simp [piecesFrom]
  | cons e r ih =>
    simp only [List.foldl_cons, piecesFrom, flatten_cons]
    rw [ih, serializeBuf_eq, atSol_append, List.append_assoc]

/-! ### `serialize_events` -/

theorem serializeRaw_events (x : Bool) (evs : List Event) :
    serializeRaw x evs = flatten (pieces x evs) := by
  simpa [serializeRaw, pieces] using foldl_serializeBuf x [] evs

/-- **C19 (faithfulness).** The built-in serializer emits exactly the concatenation of the
    per-event pieces, in event order, followed by the NUL replacement. -/
theorem serialize_events (x : Bool) (evs : List Event) :
    serialize x evs = replaceNul (flatten (pieces x evs)) := by
  rw [serialize, serializeRaw_events]

/-- one piece per event -/
theorem piecesFrom_length (x sol : Bool) (evs : List Event) :
    (piecesFrom x sol evs).length = evs.length := by
  induction evs generalizing sol with
  | nil => rfl
  | cons e r ih => simp [piecesFrom, ih]

theorem pieces_length (x : Bool) (evs : List Event) : (pieces x evs).length = evs.length :=
  piecesFrom_length x true evs

/-- `solAfter` is an action of the free monoid -/
theorem solAfter_append (s : Bool) (p q : List Char) :
    solAfter s (p ++ q) = solAfter (solAfter s p) q := by
  unfold solAfter
  cases hq : q.getLast? with
  | none =>
    have : q = [] := by simpa using hq
    subst this; simp
  | some c => simp [List.getLast?_append, hq]

theorem piecesFrom_append (x sol : Bool) (a b : List Event) :
    piecesFrom x sol (a ++ b) =
      piecesFrom x sol a ++ piecesFrom x (solAfter sol (flatten (piecesFrom x sol a))) b := by
  induction a generalizing sol with
  | nil => simp [piecesFrom, solAfter]
  | cons e r ih =>
    simp only [List.cons_append, piecesFrom, flatten_cons, ih]
    rw [solAfter_append]

/-- The `i`-th piece is the piece of the `i`-th event, the `cr` decision being taken on what
    the events before it produced: `""` iff that is empty or ends in `'\n'`. -/
theorem pieces_getElem (x : Bool) (evs : List Event) (i : Nat) (h : i < evs.length) :
    (pieces x evs)[i]'(by rw [pieces_length]; exact h) =
      piece x (atSol (serializeRaw x (evs.take i))) evs[i] := by
  have hsplit : evs = evs.take i ++ evs[i] :: evs.drop (i + 1) := by simp
  have hlen : (piecesFrom x true (evs.take i)).length = i := by
    rw [piecesFrom_length]; simp; omega
  have key : pieces x evs = piecesFrom x true (evs.take i) ++
      piecesFrom x (solAfter true (flatten (piecesFrom x true (evs.take i))))
        (evs[i] :: evs.drop (i + 1)) := by
    conv => lhs; rw [pieces, hsplit]
    exact piecesFrom_append x true _ _
  have hs : atSol (serializeRaw x (evs.take i)) =
      solAfter true (flatten (piecesFrom x true (evs.take i))) := by
    rw [serializeRaw_events, pieces]
    have := atSol_append [] (flatten (piecesFrom x true (evs.take i)))
    simpa using this
  simp only [key, hs]
  rw [List.getElem_append_right (by omega)]
  simp [hlen, piecesFrom]

theorem atSol_iff (b : List Char) : atSol b = true ↔ (b = [] ∨ b.getLast? = some '\n') := by
  unfold atSol
  cases hb : b.getLast? with
  | none =>
    have : b = [] := by simpa using hb
    simp [this]
  | some c =>
    have : b ≠ [] := by intro h0; simp [h0] at hb
    simp [this]

/-- the `cr` rule, spelled out: the piece of a `cr` event is `""` iff everything emitted before it
    is empty or ends in `'\n'`, and `"\n"` otherwise -/
theorem pieces_cr (x : Bool) (evs : List Event) (i : Nat) (h : i < evs.length)
    (hcr : evs[i] = .cr) :
    let before := serializeRaw x (evs.take i)
    let p := (pieces x evs)[i]'(by rw [pieces_length]; exact h)
    (p = [] ↔ (before = [] ∨ before.getLast? = some '\n')) ∧
    (p ≠ [] → p = ['\n']) := by
  simp only [pieces_getElem _ _ _ h, hcr, piece, ← atSol_iff]
  cases atSol (serializeRaw x (evs.take i)) <;> simp

/-- **C19 (fold law).** Serialising `a ++ b` is serialising `a` and then feeding the events of `b`
    one by one into the resulting buffer: no reordering, no look-ahead. -/
theorem serialize_append (x : Bool) (a b : List Event) :
    serializeRaw x (a ++ b) = b.foldl (serializeBuf x) (serializeRaw x a) := by
  simp [serializeRaw, List.foldl_append]

/-- consequence: the prefix output is a prefix of the whole output -/
theorem serializeRaw_prefix (x : Bool) (a b : List Event) :
    ∃ rest, serializeRaw x (a ++ b) = serializeRaw x a ++ rest := by
  rw [serialize_append, foldl_serializeBuf]
  exact ⟨_, rfl⟩

/-! ### `cr` is modelled on chars; the Rust looks at the last *byte* -/

theorem utf8Bytes_ne_nil (c : Char) : utf8Bytes c ≠ [] := by
  unfold utf8Bytes; simp only []; split
  · simp
  · split
    · simp
    · split <;> simp

/-- last byte of one encoded char is `0x0A` iff the char is `'\n'`
    (single-byte chars encode as themselves; every multi-byte encoding ends in `0x80..0xBF`) -/
theorem utf8Bytes_last (c : Char) : (utf8Bytes c).getLast? = some 10 ↔ c = '\n' := by
  constructor
  · intro h
    have hv : c.toNat = 10 := by
      unfold utf8Bytes at h; simp only [] at h
      split at h
      · simpa using h
      · split at h
        · simp at h; omega
        · split at h <;> (simp at h; omega)
    rw [← Char.ofNat_toNat c, hv]
  · rintro rfl; decide

theorem getLast?_append_ne_nil {α : Type} (l l' : List α) (h : l' ≠ []) :
    (l ++ l').getLast? = l'.getLast? := by
  rw [List.getLast?_append]
  cases h' : l'.getLast? with
  | none => exact absurd (by simpa using h') h
  | some c => rfl

theorem utf8_getLast? (buf : List Char) :
    (utf8 buf).getLast? = buf.getLast?.bind (fun c => (utf8Bytes c).getLast?) := by
  induction buf with
  | nil => rfl
  | cons c r ih =>
    simp only [utf8]
    cases r with
    | nil => simp [utf8]
    | cons d r' =>
      have hne : utf8 (d :: r') ≠ [] := by
        simp [utf8, utf8Bytes_ne_nil]
      rw [getLast?_append_ne_nil _ _ hne, ih]
      simp [List.getLast?_cons_cons]

/-- **Byte/char agreement for `cr`.** `self.result.as_bytes().last()` is `None` exactly when the
    buffer is empty and `Some(b'\n')` exactly when the last char is `'\n'`; so the char-level
    test in `serializeBuf` is the Rust test. -/
theorem lastByte_lf_iff (buf : List Char) :
    (lastByte? buf = none ↔ buf = []) ∧
    (lastByte? buf = some 10 ↔ buf.getLast? = some '\n') := by
  unfold lastByte?
  rw [utf8_getLast?]
  constructor
  · cases h : buf.getLast? with
    | none => simpa using h
    | some c =>
      have : buf ≠ [] := by intro hb; simp [hb] at h
      simp [this, utf8Bytes_ne_nil]
  · cases h : buf.getLast? with
    | none => simp
    | some c => simp [utf8Bytes_last]

/-- `cr` stated on bytes, literally as in the Rust -/
theorem serializeBuf_cr_bytes (x : Bool) (buf : List Char) :
    serializeBuf x buf .cr =
      match lastByte? buf with
      | none => buf
      | some b => if b = 10 then buf else buf ++ ['\n'] := by
  have ⟨h1, h2⟩ := lastByte_lf_iff buf
  unfold serializeBuf
  cases hb : buf.getLast? with
  | none =>
    have : buf = [] := by simpa using hb
    simp [h1.mpr this]
  | some c =>
    cases hl : lastByte? buf with
    | none => have := h1.mp hl; simp [this] at hb
    | some b =>
      by_cases hc : c = '\n'
      · subst hc
        have := h2.mpr hb
        rw [hl] at this
        simp_all
      · have : b ≠ 10 := by
          rintro rfl
          have := h2.mp hl
          rw [hb] at this
          exact hc (by simpa using this)
        simp [hc, this]

/-! ### `xhtml_diff` -/

/-- what XHTML mode does to the HTML piece of an event: insert `" /"` before the final `>` of a
    `selfClose` piece, nothing anywhere else -/
def xhtmlOf (e : Event) (p : List Char) : List Char :=
  match e with
  | .selfClose _ _ => p.dropLast ++ [' ', '/', '>']
  | _ => p

theorem piece_xhtml (sol : Bool) (e : Event) :
    piece true sol e = xhtmlOf e (piece false sol e) := by
  cases e <;> simp [piece, xhtmlOf]
  rename_i t a
  have : '<' :: (t ++ (attrsStr a ++ ['>'])) = ('<' :: (t ++ attrsStr a)) ++ ['>'] := by simp
  rw [this, List.dropLast_concat]
  simp

/-- both modes produce buffers with the same summary after every event -/
theorem solAfter_xhtml (sol : Bool) (e : Event) :
    solAfter sol (piece true sol e) = solAfter sol (piece false sol e) := by
  cases e <;> simp [piece]
  rename_i t a
  unfold solAfter
  rw [← List.append_assoc, ← List.append_assoc]
  have h1 : ((t ++ attrsStr a) ++ [' ', '/', '>']) = ((t ++ attrsStr a) ++ [' ', '/']) ++ ['>'] := by simp
  simp only [h1]
  simp [List.getLast?_cons]

theorem piecesFrom_xhtml (sol : Bool) (evs : List Event) :
    piecesFrom true sol evs = List.zipWith xhtmlOf evs (piecesFrom false sol evs) := by
  induction evs generalizing sol with
  | nil => rfl
  | cons e r ih =>
    simp only [piecesFrom, List.zipWith_cons_cons]
    rw [solAfter_xhtml, ih, piece_xhtml]

/-- after any event sequence both modes have buffers with the same summary -/
theorem solAfter_flatten_xhtml (sol : Bool) (pre : List Event) :
    solAfter sol (flatten (piecesFrom true sol pre)) =
      solAfter sol (flatten (piecesFrom false sol pre)) := by
  induction pre generalizing sol with
  | nil => rfl
  | cons e r ih =>
    simp only [piecesFrom, flatten_cons, solAfter_append]
    rw [solAfter_xhtml, ih]

theorem atSol_serializeRaw_xhtml (evs : List Event) :
    atSol (serializeRaw true evs) = atSol (serializeRaw false evs) := by
  rw [serializeRaw_events, serializeRaw_events, pieces, pieces]
  have h1 := atSol_append [] (flatten (piecesFrom true true evs))
  have h2 := atSol_append [] (flatten (piecesFrom false true evs))
  simp only [List.nil_append] at h1 h2
  rw [h1, h2]
  exact solAfter_flatten_xhtml _ evs

/-- **C19 (XHTML vs HTML).** Same number of pieces; position by position the XHTML piece is the
    HTML piece, except at `selfClose` events where `" /"` is inserted before the final `>`
    (the HTML piece there is `<tag attrs>`, so this is `<tag attrs />`). In particular every `cr`
    takes the same decision in both modes. -/
theorem xhtml_diff (evs : List Event) :
    (pieces true evs).length = evs.length ∧ (pieces false evs).length = evs.length ∧
    pieces true evs = List.zipWith xhtmlOf evs (pieces false evs) ∧
    ∀ (i : Nat) (h : i < evs.length),
      let pt := (pieces true evs)[i]'(by rw [pieces_length]; exact h)
      let pf := (pieces false evs)[i]'(by rw [pieces_length]; exact h)
      match evs[i] with
      | .selfClose t a =>
          pf = '<' :: (t ++ (attrsStr a ++ ['>'])) ∧
          pt = '<' :: (t ++ (attrsStr a ++ [' ', '/', '>']))
      | _ => pt = pf := by
  refine ⟨pieces_length _ _, pieces_length _ _, piecesFrom_xhtml true evs, ?_⟩
  intro i h
  have hsol := atSol_serializeRaw_xhtml (evs.take i)
  simp only [pieces_getElem _ _ _ h, hsol]
  cases evs[i] <;> simp [piece]

/-- the `cr` decisions coincide, spelled out -/
theorem xhtml_cr_same (evs : List Event) (i : Nat) (h : i < evs.length) (hcr : evs[i] = .cr) :
    (pieces true evs)[i]'(by rw [pieces_length]; exact h) =
    (pieces false evs)[i]'(by rw [pieces_length]; exact h) := by
  have := (xhtml_diff evs).2.2.2 i h
  simp only [hcr] at this
  exact this

/-! ### `no_nul` -/

theorem replaceNul_eq_map (s : List Char) :
    replaceNul s = s.map (fun c => if c = '\x00' then '\uFFFD' else c) := by
  unfold replaceNul
  split
  · rfl
  · rename_i h
    have h' : ∀ c ∈ s, c ≠ '\x00' := by
      intro c hc hz; subst hz; exact h (by simpa using hc)
    symm
    conv => rhs; rw [← List.map_id s]
    apply List.map_congr_left
    intro c hc
    simp [h' c hc]

theorem replaceNul_no_nul (s : List Char) : '\x00' ∉ replaceNul s := by
  rw [replaceNul_eq_map]
  intro h
  rw [List.mem_map] at h
  obtain ⟨c, _, hc⟩ := h
  split at hc
  · exact absurd hc (by decide)
  · rename_i hne; exact hne hc

/-- **C19 (NUL).** The final string never contains U+0000. -/
theorem no_nul (x : Bool) (evs : List Event) : '\x00' ∉ serialize x evs :=
  replaceNul_no_nul _

theorem replaceNul_length (s : List Char) : (replaceNul s).length = s.length := by
  rw [replaceNul_eq_map]; simp

/-- the replacement is positional: it touches NULs only, every other char (in particular every
    delimiter `< > " &` and every `'\n'`) stays where it is -/
theorem replaceNul_getElem (s : List Char) (i : Nat) (h : i < s.length) :
    (replaceNul s)[i]'(by rw [replaceNul_length]; exact h) =
      if s[i] = '\x00' then '\uFFFD' else s[i] := by
  simp [replaceNul_eq_map]

/-! ### the NUL replacement commutes with serialisation -/

/-- the per-char replacement -/
def nulChar (c : Char) : Char := if c = '\x00' then '\uFFFD' else c

def nulStr (s : List Char) : List Char := s.map nulChar

def nulAttrs (a : List (List Char × List Char)) : List (List Char × List Char) :=
  a.map (fun nv => (nulStr nv.1, nulStr nv.2))

/-- replace NUL in every string an event carries -/
def nulEvent : Event → Event
  | .open t a => .open (nulStr t) (nulAttrs a)
  | .close t => .close (nulStr t)
  | .selfClose t a => .selfClose (nulStr t) (nulAttrs a)
  | .text s => .text (nulStr s)
  | .raw s => .raw (nulStr s)
  | .cr => .cr

theorem replaceNul_eq_nulStr (s : List Char) : replaceNul s = nulStr s := replaceNul_eq_map s

theorem nulChar_eq_iff (c d : Char) (hd : d ≠ '\x00') (hd' : d ≠ '\uFFFD') :
    nulChar c = d ↔ c = d := by
  unfold nulChar
  split
  · rename_i h; subst h
    constructor
    · intro h; exact absurd h.symm hd'
    · intro h; exact absurd h.symm hd
  · rfl

theorem escapeChar_nul (c : Char) : escapeChar (nulChar c) = nulStr (escapeChar c) := by
  unfold escapeChar
  simp only [nulChar_eq_iff c '&' (by decide) (by decide),
    nulChar_eq_iff c '<' (by decide) (by decide), nulChar_eq_iff c '>' (by decide) (by decide),
    nulChar_eq_iff c '"' (by decide) (by decide)]
  repeat' split
  all_goals first | rfl | simp [nulStr]
  all_goals decide

theorem escapeHtml_nul (s : List Char) : escapeHtml (nulStr s) = nulStr (escapeHtml s) := by
  induction s with
  | nil => rfl
  | cons c r ih =>
    have : nulStr (c :: r) = nulChar c :: nulStr r := rfl
    rw [this, escapeHtml, escapeHtml, ih, escapeChar_nul]
    simp [nulStr]

theorem attrsStr_nul (a : List (List Char × List Char)) :
    attrsStr (nulAttrs a) = nulStr (attrsStr a) := by
  induction a with
  | nil => rfl
  | cons nv r ih =>
    have : nulAttrs (nv :: r) = (nulStr nv.1, nulStr nv.2) :: nulAttrs r := rfl
    rw [this, attrsStr, attrsStr, ih]
    simp only [attrStr, escapeHtml_nul]
    simp [nulStr]
    decide

theorem piece_nul (x sol : Bool) (e : Event) :
    piece x sol (nulEvent e) = nulStr (piece x sol e) := by
  cases e with
  | «open» t a => simp [nulEvent, piece, attrsStr_nul]; simp [nulStr]; decide
  | close t => simp [nulEvent, piece]; simp [nulStr]; decide
  | selfClose t a =>
    cases x <;> (simp [nulEvent, piece, attrsStr_nul]; simp [nulStr]; decide)
  | text s => simp [nulEvent, piece, escapeHtml_nul]
  | raw s => simp [nulEvent, piece]
  | cr => cases sol <;> simp [nulEvent, piece, nulStr] <;> decide

theorem solAfter_nul (sol : Bool) (p : List Char) : solAfter sol (nulStr p) = solAfter sol p := by
  unfold solAfter nulStr
  rw [List.getLast?_map]
  cases p.getLast? with
  | none => rfl
  | some c =>
    simp only [Option.map_some]
    have := nulChar_eq_iff c '\n' (by decide) (by decide)
    simp [this]

theorem piecesFrom_nul (x sol : Bool) (evs : List Event) :
    piecesFrom x sol (evs.map nulEvent) = (piecesFrom x sol evs).map nulStr := by
  induction evs generalizing sol with
  | nil => rfl
  | cons e r ih =>
    simp only [List.map_cons, piecesFrom, piece_nul, solAfter_nul, ih]

theorem flatten_map_nul (ps : List (List Char)) : flatten (ps.map nulStr) = nulStr (flatten ps) := by
  induction ps with
  | nil => rfl
  | cons p r ih => simp [ih, nulStr]

/-- **C19 (NUL, second half).** The result equals the *unpatched* serialisation of the events with
    U+0000 replaced by U+FFFD in every payload: doing the replacement once at the end is the same
    as doing it on the way in (no `cr` decision, no escape and no delimiter depends on it). -/
theorem serialize_nul_payload (x : Bool) (evs : List Event) :
    serialize x evs = serializeRaw x (evs.map nulEvent) := by
  rw [serialize, replaceNul_eq_nulStr, serializeRaw_events, serializeRaw_events, pieces, pieces,
    piecesFrom_nul, flatten_map_nul]

/-! ### non-vacuity -/

-- hostile payloads, NULs, LF-terminated text before `cr`, leading and doubled `cr`
example :
    serialize true
      [.cr, .open ['p'] [], .text ['a', '<', '\x00', '\n'], .cr, .cr,
       .selfClose ['b', 'r'] [(['x'], ['"'])], .close ['p'], .cr, .raw ['<', 'i', '>'], .cr]
    = "<p>a&lt;�\n<br x=\"&quot;\" /></p>\n<i>\n".toList := by decide

example :
    pieces false [.cr, .text ['a'], .cr, .cr, .selfClose ['b', 'r'] [], .raw ['\n'], .cr]
    = [[], ['a'], ['\n'], [], ['<', 'b', 'r', '>'], ['\n'], []] := by decide

example :
    pieces true [.cr, .text ['a'], .cr, .cr, .selfClose ['b', 'r'] [], .raw ['\n'], .cr]
    = [[], ['a'], ['\n'], [], ['<', 'b', 'r', ' ', '/', '>'], ['\n'], []] := by decide

-- a multi-byte char whose scalar value ends in 0x0A (U+010A) is not a line feed, on bytes either
example : lastByte? ['Ċ'] = some 0x8A ∧ lastByte? ['a', '\n'] = some 10 := by decide

end MdIt.Render
