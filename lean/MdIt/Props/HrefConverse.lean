/-
  C04 / C03, the CONVERSE left OPEN by `Props/LinksDoc.lean` (`doc_href_occurrences`): what a
  BROWSER reads off the string `renderDoc` returns is exactly what the renderer was given.

  `Props/LinksDoc.doc_href_output` goes from the trait calls to the string (every `href` / `src`
  attribute of every call is written ` href="escape_html u"`, `u` safe).  Here the other direction:
  the string is handed to a model of the HTML5 tokenizer (`Lemmas/HrefConverseTok.lean`: `htmlTokens`,
  `parseAttrs`; WHATWG §13.2.5 state by state, character references left raw) and

  Part A (namespace `MdIt.HtmlTok`, serializer level — for ANY event list over a readable vocabulary):
    `tokens_of_safe`, `tokens_of_events`   the token stream of the serialisation is one tag token per
                             `open` / `close` / `self_close` call, carrying exactly that call's
                             attribute list (names and values as `escape_html` wrote them), and one
                             character token per character of the text pieces; the tokenizer ends in
                             the data state and never reaches a state outside the model
    (`Lemmas/HrefConverseBound.lean`: `parseAttrs_attrsStr`, `attr_boundaries`, `tag_piece_occurrence`)
  Part B (namespace `MdIt.Pipeline`, for every configuration and every source):
    `doc_tokens_exact`       … for the string `renderDoc` returns
    `doc_attrs_exact`        tag piece by tag piece: `parseAttrs` gives back exactly the attribute list
                             of the call that produced it; every `href` / `src` among them is a
                             `SafeUrl`; names come from the fixed table
    `doc_no_smuggled_href`   stated on the token stream alone: EVERY attribute named `href` / `src` of
                             EVERY tag token the browser sees in the output holds `escape_html u` for a
                             `SafeUrl` `u`, which the browser decodes to `u` — not dangerous; every
                             other attribute name is one of the fixed literals of that element
    `doc_href_occurrences`   by POSITION: every occurrence of ` href=` / ` src=` inside a tag piece
                             either starts that call's `href` / `src` attribute (value a `SafeUrl`)
                             or lies wholly between the quotes of ONE attribute value of that call
                             (where a `"` of the payload appears as `&quot;`)
  `doc_attr_names_nodup` / `doc_tokens_nodup` (no tag token carries two attributes of the same name, so the
  tokenizer's duplicate-attribute rule `dropDupNames` drops nothing) are proved in `Props/HrefNodup.lean`.
-/
import MdIt.Props.LinksDoc
import MdIt.Lemmas.HrefConverseBound

set_option autoImplicit false

/-! # Part A: serializer level -/

namespace MdIt.HtmlTok
open MdIt.Render

/-- a vocabulary the tokenizer reads back unchanged: element names start with an ASCII lower case
    letter, all names are non-empty and free of white space, `/`, `>`, `=`, upper case, U+0000 -/
structure LowVocab (V : Vocab) : Prop where
  tag : ∀ t, V.tag t → TagNameTok t
  attr : ∀ t n, V.attr t n → n ≠ [] ∧ NameTok n

theorem mem_pattrsStr {a : List (List Char × List Char)} {nv : List Char × List Char} (h : nv ∈ a)
    {c : Char} (hc : c ∈ nv.2) : c ∈ pattrsStr a := by
  induction a with
  | nil => simp at h
  | cons x r ih =>
    rcases List.mem_cons.mp h with rfl | h
    · simp [pattrsStr, hc]
    · have := ih h
      simp [pattrsStr, this]

theorem safe_pieceTok {V : Vocab} (hV : LowVocab V) (p : Piece) (hp : SafePiece V p)
    (hnul : '\x00' ∉ p.str) : PieceTok p := by
  have hattrs : ∀ (n : List Char) (a : List (List Char × List Char)),
      (∀ nv ∈ a, V.attr n nv.1 ∧ Escaped nv.2) → '\x00' ∉ pattrsStr a → ∀ nv ∈ a, AttrTok nv := by
    intro n a ha hn nv hnv
    obtain ⟨h1, h2⟩ := ha nv hnv
    refine ⟨(hV.attr n _ h1).1, (hV.attr n _ h1).2, ?_⟩
    intro c hc
    refine ⟨(h2.no_delim c hc).2.2, ?_⟩
    rintro rfl
    exact hn (mem_pattrsStr hnv hc)
  cases p with
  | «open» n a =>
    refine ⟨hV.tag n hp.1, hattrs n a hp.2 ?_⟩
    intro hm; apply hnul; simp [Piece.str, hm]
  | close n => exact hV.tag n hp
  | void n a slash =>
    refine ⟨hV.tag n hp.1, hattrs n a hp.2 ?_⟩
    intro hm; apply hnul; simp [Piece.str, hm]
  | chars s => exact fun c hc => (Escaped.no_delim hp c hc).1

theorem mem_flattenP {ps : List Piece} {p : Piece} (h : p ∈ ps) {c : Char} (hc : c ∈ p.str) :
    c ∈ flattenP ps := by
  induction ps with
  | nil => simp at h
  | cons q r ih =>
    rcases List.mem_cons.mp h with rfl | h
    · simp [hc]
    · simp [ih h]

/-- **`tokens_of_safe`.**  A string of the safe output language of C03 over a readable vocabulary,
    without U+0000, is tokenized into exactly its pieces. -/
theorem tokens_of_safe {V : Vocab} (hV : LowVocab V) (ps : List Piece) (hs : Safe V ps)
    (hnul : '\x00' ∉ flattenP ps) : htmlTokens (flattenP ps) = (toksP ps, .data) :=
  tokens_of_pieces ps (fun p hp =>
    safe_pieceTok hV p (hs p hp) (fun hm => hnul (mem_flattenP hp hm)))

/-- the tag tokens of a stream, in order -/
def tagsOf : List Tok → List Tag
  | [] => []
  | .tag t :: r => t :: tagsOf r
  | .char _ :: r => tagsOf r

/-- the tag token a trait call stands for: the call's element name and ITS attribute list, each
    name and value through `escape_html`; `self_close` sets the flag in XHTML mode -/
def evTag (x : Bool) : Event → Option Tag
  | .open t a => some ⟨false, t, escAttrs a, false⟩
  | .close t => some ⟨true, t, [], false⟩
  | .selfClose t a => some ⟨false, t, escAttrs a, x⟩
  | _ => none

theorem tagsOf_append (a b : List Tok) : tagsOf (a ++ b) = tagsOf a ++ tagsOf b := by
  induction a with
  | nil => rfl
  | cons t r ih => cases t <;> simp [tagsOf, ih]

theorem tagsOf_chars (s : List Char) : tagsOf (s.map .char) = [] := by
  induction s with
  | nil => rfl
  | cons c r ih => simp [tagsOf, ih]

theorem tagsOf_piecesOfFrom (x sol : Bool) (evs : List Event) :
    tagsOf (toksP (piecesOfFrom x sol evs)) = evs.filterMap (evTag x) := by
  induction evs generalizing sol with
  | nil => rfl
  | cons e r ih =>
    simp only [piecesOfFrom, toksP, tagsOf_append, ih]
    cases e <;> simp [pieceOf, tokOf, tagsOf, evTag, tagsOf_chars, List.filterMap_cons]

/-- **`tokens_of_events`.**  For every event list without `raw` whose element and attribute names
    come from a readable vocabulary — whatever the text payloads and attribute VALUES are — the
    tokenizer reads the returned string (HTML or XHTML) back as the pieces of the calls (U+0000 ↦
    U+FFFD in the payloads): it ends in the data state, and its tag tokens are, in order, exactly the
    `open` / `close` / `self_close` calls with exactly their attribute lists. -/
theorem tokens_of_events {V : Vocab} (hV : LowVocab V) (x : Bool) (evs : List Event)
    (h : ∀ e ∈ evs, EventOK V e) :
    htmlTokens (serialize x evs) = (toksP (piecesOf x (evs.map nulEvent)), .data) ∧
    tagsOf (htmlTokens (serialize x evs)).1 = (evs.map nulEvent).filterMap (evTag x) := by
  have h' : ∀ e ∈ evs.map nulEvent, EventOK V e := by
    intro e he
    obtain ⟨e', he', rfl⟩ := List.mem_map.mp he
    exact nulEvent_ok V e' (h e' he')
  have hs := (serialize_safe V x _ h').2.2
  have hser : serialize x evs = flattenP (piecesOf x (evs.map nulEvent)) := by
    rw [serialize_nul_payload, serializeRaw_piecesOf]
  have hnul : '\x00' ∉ flattenP (piecesOf x (evs.map nulEvent)) := by
    rw [← hser]; exact no_nul x evs
  have key := tokens_of_safe hV _ hs hnul
  rw [← hser] at key
  refine ⟨key, ?_⟩
  rw [key]
  exact tagsOf_piecesOfFrom x true _

/-- the hostile event list of `Props/C03` (a quote and `onclick=` in an `href`, markup in a `src`,
    an entity look-alike and a NUL in an `alt`, `<script>` in text), as a browser tokenizes it -/
example : htmlTokens (serialize true demoEvents) =
    ([.tag ⟨false, ['p'], [], false⟩,
      .tag ⟨false, ['a'], [("href".toList, "&quot; onclick=&quot;x".toList)], false⟩] ++
      "&lt;script&gt;&quot;&amp;".toList.map .char ++
     [.tag ⟨true, ['a'], [], false⟩,
      .tag ⟨false, "img".toList,
        [("src".toList, "x&quot;&gt;&lt;b".toList), ("alt".toList, "&amp;lt;\uFFFD".toList)], true⟩,
      .tag ⟨true, ['p'], [], false⟩, .char '\n'], .data) := by decide +kernel

/-- the hypotheses are needed: a name with a blank is read as two attributes; `raw` opens anything -/
example : tagsOf (htmlTokens (serialize false [.open ['a'] [("x onclick=alert(1) y".toList, [])]])).1 =
    [⟨false, ['a'], [(['x'], []), ("onclick".toList, "alert(1)".toList), (['y'], [])], false⟩] := by
  decide +kernel
example : tagsOf (htmlTokens (serialize false [.raw "<script>".toList])).1 =
    [⟨false, "script".toList, [], false⟩] := by decide +kernel


/-! ### occurrences of ` name=` in what `make_attrs` writes -/

/-- **`attrsStr_boundaries`** (`attr_boundaries` on the serializer's own attribute part).  For an
    attribute list whose names are written verbatim and hold no blank and no `=` (values ARBITRARY),
    every occurrence of ` name=` in `make_attrs`' output either starts an attribute of the list
    called `name`, or lies wholly between the quotes of ONE attribute — inside `escape_html` of its
    value. -/
theorem attrsStr_boundaries (n : List Char) (hn : ' ' ∉ n ∧ '=' ∉ n ∧ '"' ∉ n)
    (attrs : List (List Char × List Char))
    (hnames : ∀ nv ∈ attrs, escapeHtml nv.1 = nv.1 ∧ ' ' ∉ nv.1 ∧ '=' ∉ nv.1)
    (pre post : List Char) (h : attrsStr attrs = pre ++ (' ' :: (n ++ ['='])) ++ post) :
    (∃ a1 v a2, attrs = a1 ++ (n, v) :: a2 ∧ pre = attrsStr a1 ∧
      post = '"' :: (escapeHtml v ++ '"' :: attrsStr a2)) ∨
    (∃ a1 nv a2 v1 v2, attrs = a1 ++ nv :: a2 ∧
      escapeHtml nv.2 = v1 ++ (' ' :: (n ++ ['='])) ++ v2 ∧
      pre = attrsStr a1 ++ (' ' :: (nv.1 ++ ('=' :: '"' :: v1))) ∧
      post = v2 ++ '"' :: attrsStr a2) := by
  rw [← pattrsStr_escAttrs] at h
  have hesc : ∀ nv ∈ escAttrs attrs, ' ' ∉ nv.1 ∧ '=' ∉ nv.1 ∧ '"' ∉ nv.2 := by
    intro nv hnv
    obtain ⟨nv0, h0, rfl⟩ := List.mem_map.mp hnv
    obtain ⟨e, h1, h2⟩ := hnames nv0 h0
    simp only
    rw [e]
    exact ⟨h1, h2, fun hm => ((escapeHtml_escaped nv0.2).no_delim _ hm).2.2 rfl⟩
  rcases attr_boundaries n hn (escAttrs attrs) hesc pre post h with
    ⟨a1, v, a2, e1, e2, e3⟩ | ⟨a1, nm, v1, v2, a2, e1, e2, e3⟩
  · obtain ⟨l1, l2, rfl, rfl, hl2⟩ := List.map_eq_append_iff.mp e1
    obtain ⟨nv, l3, rfl, hnv, rfl⟩ := List.map_eq_cons_iff.mp hl2
    simp only [Prod.mk.injEq] at hnv
    have hname : nv.1 = n := by
      rw [← (hnames nv (by simp)).1]; exact hnv.1
    refine .inl ⟨l1, nv.2, l3, ?_, ?_, ?_⟩
    · rw [← hname]
    · rw [e2]; exact pattrsStr_escAttrs l1
    · rw [e3, ← hnv.2]
      have := pattrsStr_escAttrs l3
      unfold escAttrs at this
      rw [this]
  · obtain ⟨l1, l2, rfl, rfl, hl2⟩ := List.map_eq_append_iff.mp e1
    obtain ⟨nv, l3, rfl, hnv, rfl⟩ := List.map_eq_cons_iff.mp hl2
    simp only [Prod.mk.injEq] at hnv
    have h1 := pattrsStr_escAttrs l1
    have h3 := pattrsStr_escAttrs l3
    unfold escAttrs at h1 h3
    refine .inr ⟨l1, nv, l3, v1, v2, rfl, hnv.2, ?_, ?_⟩
    · rw [e2, h1, ← hnv.1, (hnames nv (by simp)).1]
    · rw [e3, h3]

/-- **`tag_piece_boundaries`.**  The same for a whole tag piece `<tag attrs>` / `<tag attrs />`:
    an occurrence of ` name=` ANYWHERE in the piece is the start of the call's attribute `name`, or
    lies strictly inside one quoted, escaped value. -/
theorem tag_piece_boundaries (n : List Char) (hn : ' ' ∉ n ∧ '=' ∉ n ∧ '"' ∉ n)
    (tag : List Char) (htag : ' ' ∉ tag) (attrs : List (List Char × List Char))
    (hnames : ∀ nv ∈ attrs, escapeHtml nv.1 = nv.1 ∧ ' ' ∉ nv.1 ∧ '=' ∉ nv.1)
    (close : List Char) (hclose : close = ['>'] ∨ close = [' ', '/', '>'])
    (pre post : List Char)
    (h : '<' :: (tag ++ (attrsStr attrs ++ close)) = pre ++ (' ' :: (n ++ ['='])) ++ post) :
    (∃ a1 v a2, attrs = a1 ++ (n, v) :: a2 ∧ pre = '<' :: (tag ++ attrsStr a1) ∧
      post = '"' :: (escapeHtml v ++ '"' :: (attrsStr a2 ++ close))) ∨
    (∃ a1 nv a2 v1 v2, attrs = a1 ++ nv :: a2 ∧
      escapeHtml nv.2 = v1 ++ (' ' :: (n ++ ['='])) ++ v2 ∧
      pre = '<' :: (tag ++ (attrsStr a1 ++ (' ' :: (nv.1 ++ ('=' :: '"' :: v1))))) ∧
      post = v2 ++ '"' :: (attrsStr a2 ++ close)) := by
  rw [← pattrsStr_escAttrs] at h
  obtain ⟨pre', post', rfl, rfl, h'⟩ := tag_piece_occurrence n tag htag _ close hclose pre post h
  rw [pattrsStr_escAttrs] at h'
  rcases attrsStr_boundaries n hn attrs hnames pre' post' h' with
    ⟨a1, v, a2, e1, e2, e3⟩ | ⟨a1, nv, a2, v1, v2, e1, e2, e3, e4⟩
  · exact .inl ⟨a1, v, a2, e1, by rw [e2], by rw [e3]; simp⟩
  · exact .inr ⟨a1, nv, a2, v1, v2, e1, e2, by rw [e3], by rw [e4]; simp⟩

/-- a title that tries to smuggle an `href`: the occurrence is there, INSIDE the quoted value, and
    the payload's quotes are `&quot;` -/
example : attrsStr [("href".toList, "/u".toList), ("title".toList, "x\" href=\"javascript:x".toList)] =
    " href=\"/u\" title=\"x&quot; href=&quot;javascript:x\"".toList := by decide +kernel

end MdIt.HtmlTok

/-! # Part B: whole documents -/

namespace MdIt.Pipeline
open MdIt.HtmlTok
open MdIt.Render (Event escapeHtml attrStr attrsStr escAttrs EventOK nulEvent serialize piecesOf
  pieces flatten)
open MdIt.NodeRender (shippedVocab shippedTags attrsFor allAttrNames aHref aSrc aTitle aAlt aSourcepos)
open MdIt.HtmlDecode (asChars browserDecode FourEntities)

/-- decidable form of `TagNameTok` -/
def tagNameOk : List Char → Bool
  | [] => false
  | c :: r => isLower c && r.all nameChar

theorem tagNameOk_spec {n : List Char} (h : tagNameOk n = true) : TagNameTok n := by
  cases n with
  | nil => simp [tagNameOk] at h
  | cons c r =>
    simp only [tagNameOk, Bool.and_eq_true, List.all_eq_true] at h
    exact ⟨c, r, rfl, h.1, h.2⟩

theorem shippedTags_ok : ∀ t ∈ shippedTags, tagNameOk t = true := by decide
theorem allAttrNames_ok : ∀ n ∈ allAttrNames, n ≠ [] ∧ NameTok n := by decide

/-- the shipped table — `p blockquote ul ol li pre code h1 … h6 hr em strong s a img br`, attributes
    `start class href title src alt data-sourcepos` — is readable -/
theorem shippedVocab_low : LowVocab shippedVocab where
  tag := fun t ht => tagNameOk_spec (shippedTags_ok t ht)
  attr := fun t n h => allAttrNames_ok n (NodeRender.attrsFor_subset t n h.2)

/-- the calls of a parsed document: over the shipped vocabulary, and every `href` / `src` safe -/
theorem doc_events (cfg : DocCfg) (src : List Char) (t : Node) (h : parseDoc cfg src = .ok t) :
    ∃ evs, renderEvents cfg t = .ok evs ∧ (∀ x, renderDoc x cfg src = .ok (serialize x evs)) ∧
      (∀ e ∈ evs, EventOK shippedVocab e) ∧ (∀ e ∈ evs, EvUrls e) := by
  obtain ⟨evs, he, hev, hx⟩ := doc_render_total cfg src t h
  obtain ⟨_, hf, ha⟩ := final_hyps cfg.langPrefix t (parseDoc_final h).1
  have hv := NodeRender.render_vocab cfg.entity _ hf ha evs he
  obtain ⟨evs', hev', _, hsafe⟩ := doc_href_safe cfg src t h
  have : evs' = evs := by rw [hev] at hev'; cases hev'; rfl
  subst this
  refine ⟨evs', hev, hx, hv, ?_⟩
  intro e he0
  cases e with
  | «open» tg a =>
    intro nv hnv hn
    obtain ⟨u, hs, hval, _⟩ := hsafe _ he0 tg a (.inl rfl) nv hnv hn
    exact ⟨u, hs, hval⟩
  | selfClose tg a =>
    intro nv hnv hn
    obtain ⟨u, hs, hval, _⟩ := hsafe _ he0 tg a (.inr rfl) nv hnv hn
    exact ⟨u, hs, hval⟩
  | _ => trivial

/-- … and the same for the calls with U+0000 ↦ U+FFFD in the payloads, of which the returned string
    is the plain concatenation -/
theorem doc_events_nul (cfg : DocCfg) (src : List Char) (t : Node) (h : parseDoc cfg src = .ok t) :
    ∃ evs, renderEvents cfg t = .ok evs ∧ (∀ x, renderDoc x cfg src = .ok (serialize x evs)) ∧
      (∀ e ∈ evs, EventOK shippedVocab e) ∧
      (∀ e ∈ evs.map nulEvent, EventOK shippedVocab e) ∧ (∀ e ∈ evs.map nulEvent, EvUrls e) := by
  obtain ⟨evs, hev, hx, hv, hu⟩ := doc_events cfg src t h
  refine ⟨evs, hev, hx, hv, ?_, ?_⟩
  · intro e he
    obtain ⟨e', he', rfl⟩ := List.mem_map.mp he
    exact Render.nulEvent_ok _ e' (hv e' he')
  · intro e he
    obtain ⟨e', he', rfl⟩ := List.mem_map.mp he
    exact evUrls_nul (hu e' he')

/-- **`doc_tokens_exact`.**  For EVERY configuration and EVERY source the parser accepts, in HTML
    and in XHTML mode: the HTML5 tokenizer, run over the returned string, ends in the data state
    without ever leaving the modelled states (no comment, no DOCTYPE, no bogus comment, no
    unfinished tag), and its token stream is exactly the pieces of the rendering's trait calls
    `evs` (payloads with U+0000 ↦ U+FFFD): its TAG tokens are, in order, one per `open` / `close` /
    `self_close` call — that call's element name and exactly that call's attribute list, names and
    values as `escape_html` wrote them (`evTag`) — everything else is character tokens. -/
theorem doc_tokens_exact (cfg : DocCfg) (src : List Char) (t : Node) (h : parseDoc cfg src = .ok t) :
    ∃ evs, renderEvents cfg t = .ok evs ∧ ∀ x : Bool,
      renderDoc x cfg src = .ok (serialize x evs) ∧
      htmlTokens (serialize x evs) = (toksP (piecesOf x (evs.map nulEvent)), .data) ∧
      tagsOf (htmlTokens (serialize x evs)).1 = (evs.map nulEvent).filterMap (evTag x) := by
  obtain ⟨evs, hev, hx, hv, _⟩ := doc_events cfg src t h
  exact ⟨evs, hev, fun x => ⟨hx x, tokens_of_events shippedVocab_low x evs hv⟩⟩

theorem mem_filterMap_evTag {x : Bool} {evs : List Event} {tg : HtmlTok.Tag}
    (h : tg ∈ evs.filterMap (evTag x)) :
    (tg.isEnd = true ∧ tg.attrs = [] ∧ Event.close tg.name ∈ evs) ∨
    (tg.isEnd = false ∧ ∃ a, tg.attrs = escAttrs a ∧
      (Event.open tg.name a ∈ evs ∨ Event.selfClose tg.name a ∈ evs)) := by
  obtain ⟨e, he, hte⟩ := List.mem_filterMap.mp h
  cases e with
  | «open» n a => simp only [evTag, Option.some.injEq] at hte; subst hte; exact .inr ⟨rfl, a, rfl, .inl he⟩
  | close n => simp only [evTag, Option.some.injEq] at hte; subst hte; exact .inl ⟨rfl, rfl, he⟩
  | selfClose n a =>
    simp only [evTag, Option.some.injEq] at hte; subst hte; exact .inr ⟨rfl, a, rfl, .inr he⟩
  | _ => simp [evTag] at hte

theorem mem_tagsOf {toks : List Tok} {tg : HtmlTok.Tag} : Tok.tag tg ∈ toks ↔ tg ∈ tagsOf toks := by
  induction toks with
  | nil => simp [tagsOf]
  | cons t r ih => cases t <;> simp [tagsOf, ih]

theorem attrNames_plain : ∀ n ∈ allAttrNames, escapeHtml n = n := by decide

theorem attrsFor_plain {t n : List Char} (h : n ∈ attrsFor t) : escapeHtml n = n :=
  attrNames_plain n (NodeRender.attrsFor_subset t n h)

/-- **`doc_no_smuggled_href`.**  Stated on what the browser sees, for EVERY configuration, EVERY
    source and both output modes: tokenizing the returned string ends in the data state, and for
    EVERY tag token of the stream
    * its name is one of the twenty shipped element names; an end tag has no attribute;
    * EVERY attribute name is one of the literals that element may carry (`attrsFor`: `href title
      data-sourcepos` for `a`, `src alt title data-sourcepos` for `img`, …) — no input-chosen name,
      no `onclick`, whatever titles, alts, info strings and texts the document contains;
    * EVERY attribute named `href` or `src` has the raw value `escape_html u` for a `SafeUrl` `u`
      (an output of `normalize_link`, visible ASCII, accepted by `validate_link`), which a browser
      decoding all character references turns back into `u`, byte for byte, and `u` is not a
      `javascript:` / `vbscript:` / `file:` / non-image `data:` url.
    No attribute value, attribute name or text can make the browser see a second `href`. -/
theorem doc_no_smuggled_href (x : Bool) (cfg : DocCfg) (src : List Char) (out : List Char)
    (h : renderDoc x cfg src = .ok out) :
    (htmlTokens out).2 = .data ∧
    ∀ tg : HtmlTok.Tag, Tok.tag tg ∈ (htmlTokens out).1 →
      tg.name ∈ shippedTags ∧ (tg.isEnd = true → tg.attrs = []) ∧
      (∀ nv ∈ tg.attrs, nv.1 ∈ attrsFor tg.name) ∧
      ∀ nv ∈ tg.attrs, (nv.1 = aHref ∨ nv.1 = aSrc) →
        ∃ u, SafeUrl u ∧ nv.2 = escapeHtml (asChars u) ∧ '"' ∉ nv.2 ∧
          ∀ named, FourEntities named →
            browserDecode named nv.2 = asChars u ∧
            Link.utf8 (browserDecode named nv.2) = u ∧
            Link.dangerous (Link.utf8 (browserDecode named nv.2)) = false := by
  cases hp : parseDoc cfg src with
  | error e => simp [renderDoc, hp] at h
  | ok t =>
    obtain ⟨evs, _, hx, hv, hvn, hun⟩ := doc_events_nul cfg src t hp
    rw [hx x] at h
    cases h
    obtain ⟨htok, htags⟩ := tokens_of_events shippedVocab_low x evs hv
    refine ⟨by rw [htok], ?_⟩
    intro tg htg
    rw [mem_tagsOf, htags] at htg
    rcases mem_filterMap_evTag htg with ⟨hend, hattrs, hmem⟩ | ⟨hend, a, hattrs, hmem⟩
    · have hok : EventOK shippedVocab (.close tg.name) := hvn _ hmem
      refine ⟨hok, fun _ => hattrs, ?_, ?_⟩ <;> (rw [hattrs]; simp)
    · have hok : tg.name ∈ shippedTags ∧ ∀ nv ∈ a, nv.1 ∈ attrsFor tg.name := by
        rcases hmem with hm | hm
        · have := hvn _ hm; exact ⟨this.1, fun nv hnv => (this.2 nv hnv).2⟩
        · have := hvn _ hm; exact ⟨this.1, fun nv hnv => (this.2 nv hnv).2⟩
      have hurl : ∀ nv ∈ a, UrlAttr nv := by
        rcases hmem with hm | hm
        · exact hun _ hm
        · exact hun _ hm
      refine ⟨hok.1, ?_, ?_, ?_⟩
      · intro he; rw [hend] at he; cases he
      · intro nv hnv
        rw [hattrs] at hnv
        obtain ⟨nv0, h0, rfl⟩ := List.mem_map.mp hnv
        simp only
        rw [attrsFor_plain (hok.2 nv0 h0)]
        exact hok.2 nv0 h0
      · intro nv hnv hname
        rw [hattrs] at hnv
        obtain ⟨nv0, h0, rfl⟩ := List.mem_map.mp hnv
        simp only at hname ⊢
        rw [attrsFor_plain (hok.2 nv0 h0)] at hname
        obtain ⟨u, hs, hval⟩ := hurl nv0 h0 hname
        obtain ⟨_, h2, h3⟩ := safeUrl_attr hs nv0.1
        rw [hval]
        exact ⟨u, hs, rfl, h2, h3⟩


/-! ## tag piece by tag piece -/

theorem nulStr_no_nul (s : List Char) : '\x00' ∉ Render.nulStr s := by
  intro h
  obtain ⟨c, _, hc⟩ := List.mem_map.mp h
  unfold Render.nulChar at hc
  split at hc
  · exact absurd hc (by decide)
  · exact absurd hc ‹_›

theorem shippedTags_no_blank : ∀ t ∈ shippedTags, ' ' ∉ t := by decide
theorem allAttrNames_shape : ∀ n ∈ allAttrNames, escapeHtml n = n ∧ ' ' ∉ n ∧ '=' ∉ n := by decide

/-- the frame shared by `doc_attrs_exact` and `doc_href_occurrences`: the returned string is the
    concatenation of one piece per call of `evs'`; the piece of an `open` / `self_close` call is
    `<tag` ++ `make_attrs` of ITS attributes ++ `>` (` />`), the element is a shipped one, the names
    are that element's literals, `href` / `src` values are safe urls, no value holds U+0000 -/
theorem doc_tag_pieces (x : Bool) (cfg : DocCfg) (src : List Char) (out : List Char)
    (h : renderDoc x cfg src = .ok out) :
    ∃ evs' : List Event, out = flatten (pieces x evs') ∧
      ∃ hlen : (pieces x evs').length = evs'.length,
      ∀ (i : Nat) (hi : i < evs'.length) (tag : List Char) (attrs : List (List Char × List Char)),
        (evs'[i] = .open tag attrs ∨ evs'[i] = .selfClose tag attrs) →
        ∃ close, (close = ['>'] ∨ close = [' ', '/', '>']) ∧
          (pieces x evs')[i]'(by rw [hlen]; exact hi) = '<' :: (tag ++ (attrsStr attrs ++ close)) ∧
          tag ∈ shippedTags ∧ (∀ nv ∈ attrs, nv.1 ∈ attrsFor tag) ∧
          (∀ nv ∈ attrs, UrlAttr nv) ∧ (∀ nv ∈ attrs, '\x00' ∉ nv.2) := by
  cases hp : parseDoc cfg src with
  | error e => simp [renderDoc, hp] at h
  | ok t =>
    obtain ⟨evs, _, hx, _, hvn, hun⟩ := doc_events_nul cfg src t hp
    rw [hx x] at h
    cases h
    refine ⟨evs.map nulEvent, ?_, Render.pieces_length _ _, ?_⟩
    · rw [Render.serialize_nul_payload, Render.serializeRaw_events]
    · intro i hi tag attrs hshape
      have hmem : (evs.map nulEvent)[i] ∈ evs.map nulEvent := List.getElem_mem hi
      have hok := hvn _ hmem
      have hurl := hun _ hmem
      have hpiece := Render.pieces_getElem x (evs.map nulEvent) i hi
      have hnul : ∀ nv ∈ attrs, '\x00' ∉ nv.2 := by
        obtain ⟨e0, _, he0⟩ := List.mem_map.mp hmem
        have key : ∀ a0 : List (List Char × List Char), ∀ nv ∈ Render.nulAttrs a0, '\x00' ∉ nv.2 := by
          intro a0 nv hnv
          obtain ⟨nv0, _, rfl⟩ := List.mem_map.mp hnv
          exact nulStr_no_nul _
        rcases hshape with e | e <;> rw [e] at he0 <;> cases e0 <;>
          simp only [Render.nulEvent, Event.open.injEq, Event.selfClose.injEq, reduceCtorEq] at he0
        all_goals (obtain ⟨_, rfl⟩ := he0; exact key _)
      rcases hshape with e | e
      · rw [e] at hok hurl
        refine ⟨['>'], .inl rfl, by rw [hpiece, e]; rfl, hok.1, fun nv hnv => (hok.2 nv hnv).2,
          hurl, hnul⟩
      · rw [e] at hok hurl
        refine ⟨(if x then [' ', '/'] else []) ++ ['>'], ?_, by rw [hpiece, e]; rfl, hok.1,
          fun nv hnv => (hok.2 nv hnv).2, hurl, hnul⟩
        cases x
        · exact .inl rfl
        · exact .inr rfl

/-- **`doc_attrs_exact`.**  For every configuration, every source and both modes, the returned
    string is the concatenation of one piece per trait call (`evs'`: the rendering's calls with
    U+0000 ↦ U+FFFD in the payloads), and for EVERY tag piece with attributes — the piece of an
    `open` / `self_close` call `(tag, attrs)`:
    * it is `<tag` ++ `make_attrs attrs` ++ `>` or ` />`;
    * the browser's attribute parser, reading `make_attrs attrs` left to right, recovers EXACTLY the
      call's attribute list — same length, same order, every name verbatim, every value as
      `escape_html` wrote it (`escAttrs`), whatever the values contain;
    * `tag` is a shipped element and every name one of its literals (written verbatim);
    * every `href` / `src` value among them is a `SafeUrl`. -/
theorem doc_attrs_exact (x : Bool) (cfg : DocCfg) (src : List Char) (out : List Char)
    (h : renderDoc x cfg src = .ok out) :
    ∃ evs' : List Event, out = flatten (pieces x evs') ∧
      ∃ hlen : (pieces x evs').length = evs'.length,
      ∀ (i : Nat) (hi : i < evs'.length) (tag : List Char) (attrs : List (List Char × List Char)),
        (evs'[i] = .open tag attrs ∨ evs'[i] = .selfClose tag attrs) →
        ∃ close, (close = ['>'] ∨ close = [' ', '/', '>']) ∧
          (pieces x evs')[i]'(by rw [hlen]; exact hi) = '<' :: (tag ++ (attrsStr attrs ++ close)) ∧
          parseAttrs (attrsStr attrs) = some (escAttrs attrs) ∧
          (escAttrs attrs).map (·.1) = attrs.map (·.1) ∧
          tag ∈ shippedTags ∧ (∀ nv ∈ attrs, nv.1 ∈ attrsFor tag) ∧
          ∀ nv ∈ attrs, (nv.1 = aHref ∨ nv.1 = aSrc) → ∃ u, SafeUrl u ∧ nv.2 = asChars u := by
  obtain ⟨evs', hout, hlen, hall⟩ := doc_tag_pieces x cfg src out h
  refine ⟨evs', hout, hlen, ?_⟩
  intro i hi tag attrs hshape
  obtain ⟨close, hclose, hpiece, htag, hnames, hurl, hnul⟩ := hall i hi tag attrs hshape
  refine ⟨close, hclose, hpiece, ?_, ?_, htag, hnames, fun nv hnv hn => hurl nv hnv hn⟩
  · apply parseAttrs_attrsStr
    intro nv hnv
    have := allAttrNames_ok nv.1 (NodeRender.attrsFor_subset tag _ (hnames nv hnv))
    exact ⟨this.1, this.2, hnul nv hnv⟩
  · unfold escAttrs
    rw [List.map_map]
    apply List.map_congr_left
    intro nv hnv
    exact attrsFor_plain (hnames nv hnv)

/-- **`doc_href_occurrences`** (the statement left OPEN in `Props/LinksDoc.lean`, corrected: an
    occurrence MAY lie inside a quoted value — that is where a hostile title's ` href=` ends up).
    For every configuration, source and mode, in EVERY tag piece of the returned string, EVERY
    occurrence of the six characters ` href=` or the five characters ` src=` (more generally of
    ` name=` for any word `name` without blank, `=`, `"`) is of exactly one of two kinds:
    * it STARTS the call's attribute of that name: before it stand `<tag` and the attributes
      preceding it, after it `"`, the escaped value, `"` and the remaining attributes — and for
      `href` / `src` that value is a `SafeUrl`;
    * it lies wholly INSIDE the quoted value of one attribute `nv` of the call, i.e. inside
      `escape_html nv.2`, which contains no `"` (a quote of the payload is `&quot;` there): the
      browser's double-quoted-value state reads over it. -/
theorem doc_href_occurrences (x : Bool) (cfg : DocCfg) (src : List Char) (out : List Char)
    (h : renderDoc x cfg src = .ok out) :
    ∃ evs' : List Event, out = flatten (pieces x evs') ∧
      ∃ hlen : (pieces x evs').length = evs'.length,
      ∀ (i : Nat) (hi : i < evs'.length) (tag : List Char) (attrs : List (List Char × List Char)),
        (evs'[i] = .open tag attrs ∨ evs'[i] = .selfClose tag attrs) →
        ∀ (n : List Char), ' ' ∉ n ∧ '=' ∉ n ∧ '"' ∉ n → ∀ (pre post : List Char),
          (pieces x evs')[i]'(by rw [hlen]; exact hi) = pre ++ (' ' :: (n ++ ['='])) ++ post →
          (∃ a1 v a2 close, attrs = a1 ++ (n, v) :: a2 ∧ pre = '<' :: (tag ++ attrsStr a1) ∧
            post = '"' :: (escapeHtml v ++ '"' :: (attrsStr a2 ++ close)) ∧
            ((n = aHref ∨ n = aSrc) → ∃ u, SafeUrl u ∧ v = asChars u)) ∨
          (∃ a1 nv a2 v1 v2 close, attrs = a1 ++ nv :: a2 ∧
            escapeHtml nv.2 = v1 ++ (' ' :: (n ++ ['='])) ++ v2 ∧ '"' ∉ escapeHtml nv.2 ∧
            pre = '<' :: (tag ++ (attrsStr a1 ++ (' ' :: (nv.1 ++ ('=' :: '"' :: v1))))) ∧
            post = v2 ++ '"' :: (attrsStr a2 ++ close)) := by
  obtain ⟨evs', hout, hlen, hall⟩ := doc_tag_pieces x cfg src out h
  refine ⟨evs', hout, hlen, ?_⟩
  intro i hi tag attrs hshape n hn pre post hocc
  obtain ⟨close, hclose, hpiece, htag, hnames, hurl, _⟩ := hall i hi tag attrs hshape
  rw [hpiece] at hocc
  have hnm : ∀ nv ∈ attrs, escapeHtml nv.1 = nv.1 ∧ ' ' ∉ nv.1 ∧ '=' ∉ nv.1 := fun nv hnv =>
    allAttrNames_shape nv.1 (NodeRender.attrsFor_subset tag _ (hnames nv hnv))
  rcases tag_piece_boundaries n hn tag (shippedTags_no_blank tag htag) attrs hnm close hclose pre post
      hocc with ⟨a1, v, a2, e1, e2, e3⟩ | ⟨a1, nv, a2, v1, v2, e1, e2, e3, e4⟩
  · refine .inl ⟨a1, v, a2, close, e1, e2, e3, ?_⟩
    intro hname
    exact hurl (n, v) (by rw [e1]; simp) hname
  · exact .inr ⟨a1, nv, a2, v1, v2, close, e1, e2,
      fun hm => ((Render.escapeHtml_escaped nv.2).no_delim _ hm).2.2 rfl, e3, e4⟩

end MdIt.Pipeline
