/-
  The whole document pipeline (html-free configurations): property theorems about the composed
  model `MdIt.Pipeline` (`Model/Pipeline.lean`), which the stream `pipeline` checks against
  `md.parse(src)` / `.render()` / `.xrender()` of the real parser.  Everything is COMPOSED from the
  theorems of the slices (`Props/Block`, `Props/Inline`, `Props/NodeRender`, `Props/C03`, `Props/C15`).

  Part A (namespace `MdIt.Block`): one more invariant of the block parser, by the induction scheme
  of `list_shape`: `parseBlocks_wf` — every tree `parseBlocks` returns is `WFB`:
      ATX level in 1..6, setext level in 1..2, heading / paragraph = exactly one `InlineRoot` leaf,
      leaf kinds childless, lists = items only, items only under lists, `Root` nowhere below the top,
      and — when the paragraph rule is in the chain — no bare `InlineRoot` under `Root` / `Blockquote`.
-/
import MdIt.Props.Block
import MdIt.Props.Inline
import MdIt.Props.NodeRender
import MdIt.Props.C15
import MdIt.Model.Pipeline

/-! # Part A: the block tree is well formed -/

namespace MdIt.Block
open MdIt.Lines (LineOffset)

/-- the children of a paragraph / heading: exactly one `InlineRoot` placeholder, without range and
    without children -/
def OneInl (cs : List BNode) : Prop := ∃ t m, cs = [⟨.inlineRoot t m, none, []⟩]

/-- may the node sit directly under `Root` / `Blockquote`: no list item; and with the paragraph rule
    in the chain (`para`) no bare `InlineRoot` (the no-paragraph fallback never runs) -/
def TopKid (para : Bool) (c : BNode) : Prop :=
  c.kind ≠ .listItem ∧ (para = true → ∀ t m, c.kind ≠ .inlineRoot t m)

/-- the local condition on a node of kind `k` with children `cs` -/
def LocB (para : Bool) (k : Kind) (cs : List BNode) : Prop :=
  (∀ c ∈ cs, c.kind ≠ .root) ∧
  (match k with
   | .atx l => (1 ≤ l ∧ l ≤ 6) ∧ OneInl cs
   | .setext l _ => (1 ≤ l ∧ l ≤ 2) ∧ OneInl cs
   | .paragraph => OneInl cs
   | .hr _ _ => cs = []
   | .codeBlock _ => cs = []
   | .codeFence _ _ _ _ => cs = []
   | .inlineRoot _ _ => cs = []
   | .bulletList _ => ∀ c ∈ cs, c.kind = .listItem
   | .orderedList _ _ => ∀ c ∈ cs, c.kind = .listItem
   | .listItem => ∀ c ∈ cs, c.kind ≠ .listItem
   | .root => ∀ c ∈ cs, TopKid para c
   | .blockquote => ∀ c ∈ cs, TopKid para c)

/-- the condition holds at every node of the tree -/
inductive WFB (para : Bool) : BNode → Prop
  | mk (n : BNode) : LocB para n.kind n.children → (∀ c ∈ n.children, WFB para c) → WFB para n

theorem WFB.at {para : Bool} {n : BNode} (h : WFB para n) : LocB para n.kind n.children := by
  cases h; assumption
theorem WFB.child {para : Bool} {n : BNode} (h : WFB para n) : ∀ c ∈ n.children, WFB para c := by
  cases h; assumption

/-- a node the tokenizer may push into `Root` / `Blockquote` / a list item under construction -/
structure GoodB (para : Bool) (c : BNode) : Prop where
  notRoot : c.kind ≠ .root
  top : TopKid para c
  wf : WFB para c

def AllGoodB (para : Bool) (cs : List BNode) : Prop := ∀ c ∈ cs, GoodB para c

theorem AllGoodB.nil {para : Bool} : AllGoodB para [] := fun _ h => by simp at h

theorem AllGoodB.push {para : Bool} {cs : List BNode} {n : BNode} (h : AllGoodB para cs)
    (hn : GoodB para n) : AllGoodB para (cs ++ [n]) := by
  intro c hc
  rcases List.mem_append.mp hc with h1 | h1
  · exact h c h1
  · simp at h1; subst h1; exact hn

theorem wfb_inl {para : Bool} (t : List Char) (m : List (Nat × Nat)) :
    WFB para ⟨.inlineRoot t m, none, []⟩ :=
  .mk _ ⟨by simp, rfl⟩ (by simp)

/-- `Root` / `Blockquote` over good children -/
theorem wfb_container {para : Bool} {k : Kind} {r : Option (Nat × Nat)} {cs : List BNode}
    (hk : k = .root ∨ k = .blockquote) (h : AllGoodB para cs) : WFB para ⟨k, r, cs⟩ := by
  refine .mk _ ⟨fun c hc => (h c hc).notRoot, ?_⟩ (fun c hc => (h c hc).wf)
  rcases hk with rfl | rfl <;> exact fun c hc => (h c hc).top

/-- a childless leaf block -/
theorem good_leafB {para : Bool} (k : Kind) (r : Option (Nat × Nat))
    (hk : (∃ a b, k = .hr a b) ∨ (∃ c, k = .codeBlock c) ∨ (∃ a b c d, k = .codeFence a b c d)) :
    GoodB para ⟨k, r, []⟩ := by
  rcases hk with ⟨a, b, rfl⟩ | ⟨c, rfl⟩ | ⟨a, b, c, d, rfl⟩
  all_goals exact ⟨by simp, ⟨by simp, fun _ => by simp⟩, .mk _ ⟨by simp, rfl⟩ (by simp)⟩

/-- a paragraph / heading with its one placeholder -/
theorem good_textB {para : Bool} (k : Kind) (r : Option (Nat × Nat)) (t : List Char) (m : List (Nat × Nat))
    (hk : k = .paragraph ∨ (∃ l, k = .atx l ∧ 1 ≤ l ∧ l ≤ 6) ∨ (∃ l c, k = .setext l c ∧ 1 ≤ l ∧ l ≤ 2)) :
    GoodB para ⟨k, r, [⟨.inlineRoot t m, none, []⟩]⟩ := by
  have hkids : ∀ c ∈ [(⟨.inlineRoot t m, none, []⟩ : BNode)], WFB para c := by
    intro c hc; simp at hc; subst hc; exact wfb_inl t m
  rcases hk with rfl | ⟨l, rfl, h1, h2⟩ | ⟨l, c, rfl, h1, h2⟩
  · exact ⟨by simp, ⟨by simp, fun _ => by simp⟩, .mk _ ⟨by simp, ⟨t, m, rfl⟩⟩ hkids⟩
  · exact ⟨by simp, ⟨by simp, fun _ => by simp⟩, .mk _ ⟨by simp, ⟨h1, h2⟩, ⟨t, m, rfl⟩⟩ hkids⟩
  · exact ⟨by simp, ⟨by simp, fun _ => by simp⟩, .mk _ ⟨by simp, ⟨h1, h2⟩, ⟨t, m, rfl⟩⟩ hkids⟩

/-- the fallback placeholder (only without the paragraph rule) -/
theorem good_inlB (t : List Char) (m : List (Nat × Nat)) : GoodB false ⟨.inlineRoot t m, none, []⟩ :=
  ⟨by simp, ⟨by simp, fun h => by cases h⟩, wfb_inl t m⟩

def KeepsGoodB (para : Bool) (s s' : BState) : Prop := AllGoodB para s.children → AllGoodB para s'.children

/-! ### the heading levels -/

theorem atxOpen_level : ∀ (l : List Char) (lv : Nat) (r : Nat × Nat × List Char),
    atxOpen l lv = some r → lv ≤ 6 → lv ≤ r.1 ∧ r.1 ≤ 6
  | [], lv, r, h, hl => by simp [atxOpen] at h; subst h; exact ⟨Nat.le_refl _, hl⟩
  | c :: rest, lv, r, h, hl => by
    simp only [atxOpen] at h
    split at h
    · split at h
      · cases h
      · have := atxOpen_level rest (lv + 1) r h (by omega)
        omega
    · split at h
      · simp at h; subst h; exact ⟨Nat.le_refl _, hl⟩
      · cases h

theorem atxOpen_hash {line : List Char} {r : Nat × Nat × List Char} (hh : line.head? = some '#')
    (h : atxOpen line 0 = some r) : 1 ≤ r.1 ∧ r.1 ≤ 6 := by
  cases line with
  | nil => simp at hh
  | cons c rest =>
    simp only [List.head?_cons, Option.some.injEq] at hh
    subst hh
    simp only [atxOpen, if_true] at h
    split at h
    · cases h
    · have := atxOpen_level rest 1 r h (by omega)
      omega

theorem underlineLevel_le (l : List Char) : underlineLevel l ≤ 2 := by
  unfold underlineLevel
  repeat' split
  all_goals omega

theorem lazyScan_level {test : Test} (setext : Bool) :
    ∀ (fuel : Nat) (s : BState) (n : Nat) (r : Nat × Nat × BState),
      lazyScan test setext fuel s n = .ok r → r.2.1 ≤ 2 := by
  intro fuel
  induction fuel with
  | zero => intro s n r h; simp [lazyScan] at h
  | succ f ih =>
    intro s n r h
    simp only [lazyScan] at h
    crack h
    all_goals (try (exact ih _ _ _ h))
    all_goals (try (subst_vars; simp; done))
    · have hs := ‹setextCheck _ _ _ _ = _›
      subst_vars
      unfold setextCheck at hs
      crack hs
      all_goals (subst_vars; first | exact underlineLevel_le _ | simp)

/-! ### the nine rules -/

theorem hr_wf {para : Bool} {s s' : BState} {b : Bool} (h : hrRule s false = .ok (b, s')) :
    KeepsGoodB para s s' := by
  unfold hrRule at h
  crack h
  all_goals (try subst_vars)
  all_goals (intro hg)
  all_goals (first | exact hg | exact hg.push (good_leafB _ _ (.inl ⟨_, _, rfl⟩)))

theorem code_wf {para : Bool} {s s' : BState} {b : Bool} (h : codeRule s false = .ok (b, s')) :
    KeepsGoodB para s s' := by
  unfold codeRule at h
  crack h
  all_goals (try subst_vars)
  all_goals (intro hg)
  all_goals (first | exact hg | exact hg.push (good_leafB _ _ (.inr (.inl ⟨_, rfl⟩))))

theorem fence_wf {para : Bool} {s s' : BState} {b : Bool} (h : fenceRule s false = .ok (b, s')) :
    KeepsGoodB para s s' := by
  unfold fenceRule at h
  crack h
  all_goals (try subst_vars)
  all_goals (intro hg)
  all_goals (first | exact hg | exact hg.push (good_leafB _ _ (.inr (.inr ⟨_, _, _, _, rfl⟩))))

theorem heading_wf {para : Bool} {s s' : BState} {b : Bool} (h : headingRule s false = .ok (b, s')) :
    KeepsGoodB para s s' := by
  unfold headingRule at h
  crack h
  all_goals (try subst_vars)
  all_goals (intro hg)
  all_goals (first | exact hg | skip)
  have ha := ‹atxOpen _ 0 = some _›
  have hh : ¬ _ ≠ some '#' := ‹_›
  exact hg.push (good_textB _ _ _ _ (.inr (.inl ⟨_, rfl, atxOpen_hash (by simpa using hh) ha⟩)))

theorem paragraph_wf {para : Bool} {test : Test} (ht : TestPure test) {fuel : Nat} {s s' : BState} {b : Bool}
    (h : paragraphRule test fuel s false = .ok (b, s')) : KeepsGoodB para s s' := by
  unfold paragraphRule at h
  crack h
  have h1 := (lazyScan_spec ht false _ _ _ _ ‹lazyScan _ _ _ _ _ = _›).1
  intro hg
  simp only [BState.push, h1]
  exact hg.push (good_textB _ _ _ _ (.inl rfl))

theorem lheading_wf {para : Bool} {test : Test} (ht : TestPure test) {fuel : Nat} {s s' : BState} {b : Bool}
    (h : lheadingRule test fuel s false = .ok (b, s')) : KeepsGoodB para s s' := by
  unfold lheadingRule at h
  crack h
  all_goals (try (have h1 := (lazyScan_spec ht true _ _ _ _ ‹lazyScan _ _ _ _ _ = _›).1))
  all_goals (try (have h2 := lazyScan_level true _ _ _ _ ‹lazyScan _ _ _ _ _ = _›))
  all_goals (try subst_vars)
  all_goals (intro hg)
  all_goals (first | exact hg | skip)
  exact hg.push (good_textB _ _ _ _ (.inr (.inr ⟨_, _, rfl, by omega, h2⟩)))

theorem reference_wf {para : Bool} {cfg : Cfg} {test : Test} (ht : TestPure test) {fuel : Nat}
    {s s' : BState} {b : Bool} (h : referenceRule cfg test fuel s false = .ok (b, s')) :
    KeepsGoodB para s s' := by
  unfold referenceRule at h
  crack h
  all_goals (try (have h1 := (lazyScan_spec ht false _ _ _ _ ‹lazyScan _ _ _ _ _ = _›).1))
  all_goals (try subst_vars)
  all_goals (intro hg)
  all_goals (first | exact hg | (rw [h1]; exact hg) | (simp only [h1]; exact hg))

/-- the nested tokenizer keeps the children of its current node good -/
def TokWF (para : Bool) (tok : Tok) : Prop := ∀ s s', tok s = .ok s' → KeepsGoodB para s s'

theorem blockquote_wf {para : Bool} {tok : Tok} {test : Test} (hk : TokSpec tok) (hsh : TokWF para tok)
    (ht : TestPure test) {fuel : Nat} {s s' : BState} {b : Bool}
    (h : blockquoteRule tok test fuel s false = .ok (b, s')) : KeepsGoodB para s s' := by
  unfold blockquoteRule at h
  crack h
  all_goals (try subst_vars)
  · exact fun hg => hg
  · exact fun hg => hg
  · have hscan := ‹bqScan _ _ _ _ _ _ = _›
    have htok := ‹tok _ = _›
    rename_i scan _ s2 _ _ _ _ _ _ _ _ _
    obtain ⟨n, old', S'⟩ := scan
    obtain ⟨hch, _⟩ := bqScan_children ht hscan
    have hfr := hk.frame _ _ htok
    have hg2 := hsh _ _ htok AllGoodB.nil
    intro hg
    simp only at hch hfr hg2 ⊢
    rw [hch]
    have hkind : s2.nodeKind = .blockquote := hfr.nodeKind
    refine hg.push ⟨by rw [hkind]; simp, ⟨by rw [hkind]; simp, fun _ => by rw [hkind]; simp⟩, ?_⟩
    rw [hkind]
    exact wfb_container (.inr rfl) hg2

/-- may sit directly under a list item: what the tokenizer pushed, or the placeholder of a
    paragraph that `mark_tight_paragraphs` dissolved -/
def ItemKid (para : Bool) (c : BNode) : Prop := c.kind ≠ .listItem ∧ c.kind ≠ .root ∧ WFB para c

theorem GoodB.itemKid {para : Bool} {c : BNode} (h : GoodB para c) : ItemKid para c :=
  ⟨h.top.1, h.notRoot, h.wf⟩

theorem wfb_item {para : Bool} {r : Option (Nat × Nat)} {cs : List BNode}
    (h : ∀ c ∈ cs, ItemKid para c) : WFB para ⟨.listItem, r, cs⟩ :=
  .mk _ ⟨fun c hc => (h c hc).2.1, fun c hc => (h c hc).1⟩ (fun c hc => (h c hc).2.2)

theorem markTight_kids {para : Bool} : ∀ (cs : List BNode), (∀ c ∈ cs, ItemKid para c) →
    ∀ c ∈ markTight cs, ItemKid para c
  | [], _ => by simp [markTight]
  | n :: r, h => by
    have hr := markTight_kids r (fun c hc => h c (List.mem_cons_of_mem _ hc))
    have hn := h n (by simp)
    simp only [markTight]
    split
    · rename_i hp
      intro c hc
      rcases List.mem_append.mp hc with h1 | h1
      · have hloc := hn.2.2.at
        rw [hp] at hloc
        obtain ⟨t, m, hcs⟩ := hloc.2
        rw [hcs] at h1
        simp at h1
        subst h1
        exact ⟨by simp, by simp, wfb_inl t m⟩
      · exact hr c h1
    · intro c hc
      simp at hc
      rcases hc with rfl | h1
      · exact hn
      · exact hr c h1

/-- the children of a list under construction: list items, each well formed -/
def AllItemsB (para : Bool) (cs : List BNode) : Prop := ∀ c ∈ cs, c.kind = .listItem ∧ WFB para c

theorem wfb_list {para : Bool} {k : Kind} {r : Option (Nat × Nat)} {cs : List BNode}
    (hk : isListKind k = true) (h : AllItemsB para cs) : WFB para ⟨k, r, cs⟩ := by
  refine .mk _ ⟨fun c hc => by rw [(h c hc).1]; simp, ?_⟩ (fun c hc => (h c hc).2)
  cases k <;> simp [isListKind] at hk <;> exact fun c hc => (h c hc).1

theorem tightenItems_itemsB {para : Bool} : ∀ (cs cs' : List BNode), tightenItems cs = .ok cs' →
    AllItemsB para cs → AllItemsB para cs'
  | [], cs', h, _ => by simp [tightenItems] at h; subst h; exact fun _ hc => by simp at hc
  | c :: r, cs', h, hi => by
    simp only [tightenItems] at h
    split at h
    · cases h
    · split at h
      · cases h
      · rename_i hk r' hr
        cases h
        have ih := tightenItems_itemsB r r' hr (fun x hx => hi x (List.mem_cons_of_mem _ hx))
        obtain ⟨hck, hcs⟩ := hi c (by simp)
        intro x hx
        simp at hx
        rcases hx with rfl | hx
        · refine ⟨hck, ?_⟩
          have hloc := hcs.at
          rw [hck] at hloc
          have hkids : ∀ y ∈ c.children, ItemKid para y := fun y hy =>
            ⟨hloc.2 y hy, hloc.1 y hy, hcs.child y hy⟩
          rw [hck]
          exact wfb_item (markTight_kids _ hkids)
        · exact ih x hx

theorem listItemBody_wf {para : Bool} {tok : Tok} (hsh : TokWF para tok) {S2 S3 : BState} {m : Nat} {re : Bool}
    (h : listItemBody tok S2 m re = .ok S3) : KeepsGoodB para S2 S3 := by
  unfold listItemBody at h
  crack h
  · exact fun hg => hg
  · have htok := ‹tok _ = _›
    subst_vars
    have key := hsh _ _ htok
    intro hg
    exact key hg

theorem listItem_wf {para : Bool} {tok : Tok} (hk : TokSpec tok) (hsh : TokWF para tok) {S S' : BState}
    {m pos : Nat} {pee tight pee' tight' : Bool}
    (h : listItem tok S m pos pee tight = .ok (S', tight', pee'))
    (hline : S.line = m) (hlt : m < S.lineMax) :
    AllItemsB para S.children → AllItemsB para S'.children := by
  have hspec := listItem_spec hk h hline hlt
  unfold listItem at h
  crack h
  rename_i o ho rw hrw S2 hS2 S3 hbody _ li hli S5 hS5 e _ r _ hS' _ _
  subst hS'
  obtain ⟨hm, hS2eq⟩ := setOff_ok hS2
  obtain ⟨hm5, rfl⟩ := setOff_ok hS5
  have hg3 := listItemBody_wf hsh hbody (by rw [hS2eq]; exact AllGoodB.nil)
  -- the kind of the node under construction is still `listItem`
  have hkind : S3.nodeKind = .listItem := by
    unfold listItemBody at hbody
    crack hbody
    · rw [hS2eq]
    · have := (hk.frame _ _ ‹tok _ = _›).nodeKind
      simp only at this ⊢
      rw [this, hS2eq]
  intro hi c hc
  simp only at hc
  rcases List.mem_append.mp hc with h1 | h1
  · exact hi c h1
  · simp at h1
    subst h1
    simp only
    rw [hkind]
    exact ⟨rfl, wfb_item (fun y hy => (hg3 y hy).itemKid)⟩

theorem listLoop_wf {para : Bool} {tok : Tok} {test : Test} (hk : TokSpec tok) (hsh : TokWF para tok)
    (ht : TestPure test) {ordered : Bool} {mc : Char} :
    ∀ (fuel : Nat) (S : BState) (m pos : Nat) (pee tight : Bool) (n : Nat) (tight' : Bool) (S' : BState),
      listLoop tok test ordered mc fuel S m pos pee tight = .ok (n, tight', S') →
      S.line = m → m < S.lineMax → AllItemsB para S.children → AllItemsB para S'.children := by
  intro fuel
  induction fuel with
  | zero => intro S m pos pee tight n tight' S' h; simp [listLoop] at h
  | succ f ih =>
    intro S m pos pee tight n tight' S' h hline hlt hi
    simp only [listLoop] at h
    crack h
    all_goals (try subst_vars)
    · rename_i wi wc hc _ hnone _ hitem
      obtain ⟨S1, t1, p1⟩ := wi
      obtain ⟨c, S2⟩ := wc
      obtain ⟨rfl, _⟩ := listContinue_spec ht hc
      exact listItem_wf hk hsh hitem rfl hlt hi
    · rename_i wi wc hc _ p hsome _ hitem
      obtain ⟨S1, t1, p1⟩ := wi
      obtain ⟨c, S2⟩ := wc
      obtain ⟨hfr, h1, h2⟩ := listItem_spec hk hitem rfl hlt
      obtain ⟨rfl, hc2⟩ := listContinue_spec ht hc
      simp only at hsome h hc2
      have hlt2 := hc2 (by rw [hsome]; simp)
      exact ih _ _ _ _ _ _ _ _ h rfl hlt2 (listItem_wf hk hsh hitem rfl hlt hi)

theorem list_rule_wf {para : Bool} {tok : Tok} {test : Test} (hk : TokSpec tok) (hsh : TokWF para tok)
    (ht : TestPure test) {fuel : Nat} {s s' : BState} {b : Bool}
    (h : listRule tok test fuel s false = .ok (b, s')) (hl : s.line < s.lineMax) : KeepsGoodB para s s' := by
  unfold listRule at h
  crack h
  all_goals (try subst_vars)
  all_goals (try (exact fun hg => hg))
  all_goals (
    have hloop := ‹listLoop _ _ _ _ _ _ _ _ _ _ = _›
    have htight := ‹(if _ then tightenItems _ else _) = Except.ok _›
    rename_i wl _ cs _ _ _ _ _ _ _
    obtain ⟨n, t, S'⟩ := wl
    have hitems := listLoop_wf (para := para) hk hsh ht _ _ _ _ _ _ _ _ _ hloop rfl hl (fun _ hc => by simp at hc)
    obtain ⟨hfr, _⟩ := listLoop_spec hk ht _ _ _ _ _ _ _ _ _ hloop rfl hl
    have hcs : AllItemsB para cs := by
      simp only at htight
      split at htight
      · exact tightenItems_itemsB _ _ htight hitems
      · simp [pure, Except.pure] at htight; subst htight; exact hitems
    intro hg
    simp only
    have hkind := hfr.nodeKind
    simp only at hkind
    refine hg.push ⟨by rw [hkind]; simp, ⟨by rw [hkind]; simp, fun _ => by rw [hkind]; simp⟩, ?_⟩
    rw [hkind]
    exact wfb_list rfl hcs)

theorem runRule_wf {para : Bool} {cfg : Cfg} {tok : Tok} {test : Test} (hk : TokSpec tok)
    (hsh : TokWF para tok) (ht : TestPure test) (fuel : Nat) (r : RuleId) {s s' : BState} {b : Bool}
    (h : runRule cfg tok test fuel r s false = .ok (b, s')) (hl : s.line < s.lineMax) :
    KeepsGoodB para s s' := by
  cases r <;> simp only [runRule] at h
  · exact code_wf h
  · exact fence_wf h
  · exact blockquote_wf hk hsh ht h
  · exact hr_wf h
  · exact list_rule_wf hk hsh ht h hl
  · exact reference_wf ht h
  · exact heading_wf h
  · exact lheading_wf ht h
  · exact paragraph_wf ht h

theorem runChain_wf {para : Bool} {run : RuleId → BState → Bool → Res} (hr : RunSpec run)
    (hsh : ∀ r s b s', run r s false = .ok (b, s') → s.line < s.lineMax → KeepsGoodB para s s') :
    ∀ (chain : List RuleId) (s : BState) (b : Bool) (s' : BState),
      runChain run chain s false = .ok (b, s') → s.line < s.lineMax → KeepsGoodB para s s' := by
  intro chain
  induction chain with
  | nil => intro s b s' h _; simp [runChain] at h; rw [← h.2]; exact fun hg => hg
  | cons r rs ih =>
    intro s b s' h hl
    simp only [runChain] at h
    split at h
    · cases h
    · rename_i s1 h1
      cases h
      exact hsh _ _ _ _ h1 hl
    · rename_i s1 h1
      have := hr.false_same _ _ _ h1
      subst this
      exact ih _ _ _ h hl

/-- with the paragraph rule in the chain the chain always claims the line (the paragraph rule never
    answers `false` in real mode): the no-paragraph fallback of `tokenize` is dead code -/
theorem runChain_para {cfg : Cfg} {tok : Tok} {test : Test} {fuel : Nat} :
    ∀ (chain : List RuleId) (s : BState) (b : Bool) (s' : BState), RuleId.paragraph ∈ chain →
      runChain (runRule cfg tok test fuel) chain s false = .ok (b, s') → b = true := by
  intro chain
  induction chain with
  | nil => intro s b s' hm; simp at hm
  | cons r rs ih =>
    intro s b s' hm h
    simp only [runChain] at h
    split at h
    · cases h
    · cases h; rfl
    · rename_i s1 h1
      have hr : r ≠ .paragraph := by
        intro e
        subst e
        simp only [runRule] at h1
        exact absurd (real_true_paragraph h1) (by simp)
      have hm' : RuleId.paragraph ∈ rs := by
        rcases List.mem_cons.mp hm with e | e
        · exact absurd e.symm hr
        · exact e
      exact ih _ _ _ hm' h

theorem afterChain_wf {para : Bool} {ok : Bool} {s s' : BState} {prev : Nat}
    (h : afterChain ok s prev = .ok s') (hp : ok = false → para = false) : KeepsGoodB para s s' := by
  unfold afterChain at h
  crack h
  · exact fun hg => hg
  · intro hg
    simp only [BState.push]
    have e : para = false := hp (by simpa using ‹¬ ok = true›)
    subst e
    exact hg.push (good_inlB _ _)

theorem tokLoop_wf {para : Bool} {cfg : Cfg} {run : RuleId → BState → Bool → Res} (hr : RunSpec run)
    (hsh : ∀ r s b s', run r s false = .ok (b, s') → s.line < s.lineMax → KeepsGoodB para s s')
    (hpara : para = true → ∀ s b s', runChain run cfg.chain s false = .ok (b, s') → b = true) :
    ∀ (fuel : Nat) (he : Bool) (s s' : BState), tokLoop cfg run fuel he s = .ok s' → KeepsGoodB para s s' := by
  intro fuel
  induction fuel with
  | zero => intro he s s' h; simp [tokLoop] at h
  | succ f ih =>
    intro he s s' h
    simp only [tokLoop] at h
    crack h
    all_goals (try subst_vars)
    all_goals (try (exact fun hg => hg))
    all_goals (
      have hchain := ‹runChain _ _ _ _ = _›
      have hafter := ‹afterChain _ _ _ = _›
      have h1 := runChain_wf hr hsh _ _ _ _ hchain (by simp; omega)
      have h2 := afterChain_wf (para := para) hafter (by
        intro hok
        cases hp : para with
        | false => rfl
        | true => have := hpara hp _ _ _ hchain; simp_all)
      have h3 := ih _ _ _ h
      exact fun hg => h3 (h2 (h1 hg)))

/-- is the default block rule configured -/
def Cfg.hasPara (cfg : Cfg) : Bool := cfg.chain.contains .paragraph

/-- the tokenizer pushes only well-formed nodes that may sit under `Root` / `Blockquote` -/
theorem tokenize_wf (cfg : Cfg) : ∀ fuel : Nat, TokWF cfg.hasPara (tokenize cfg fuel) := by
  intro fuel
  induction fuel with
  | zero => intro s s' h; simp [tokenize, engine] at h
  | succ f ih =>
    intro s s' h
    simp only [tokenize, engine] at h
    have hk := tokenize_tokSpec cfg f
    have ht := testRules_pure cfg f
    refine tokLoop_wf (runRule_spec hk ht _)
      (fun r s b s' h hl => runRule_wf hk ih ht _ r h hl) ?_ _ _ _ _ h
    intro hp s b s' hc
    exact runChain_para _ _ _ _ (by simpa [Cfg.hasPara] using hp) hc

/-- **`parseBlocks_wf`.**  Every tree the block parser returns is well formed (`WFB`, at every
    node): the top is `Root` and `Root` occurs nowhere else; an ATX heading has a level in `1..6`, a
    setext heading a level in `1..2` (so `TAG[level - 1]` of their `render` is in range); a paragraph
    / heading has exactly one child, an `InlineRoot` placeholder without children; thematic breaks,
    code blocks, fences and placeholders are childless; lists contain list items only and list items
    occur under lists only; and when the paragraph rule is in the chain no bare `InlineRoot` sits
    under `Root` / `Blockquote` (only under paragraphs, headings and — tight lists — list items). -/
theorem parseBlocks_wf {cfg : Cfg} {src : List Char} {root : BNode} {refs : Refs.RefMap}
    (h : parseBlocks cfg src = .ok (root, refs)) : root.kind = .root ∧ WFB cfg.hasPara root := by
  unfold parseBlocks at h
  split at h
  · cases h
  · rename_i s hs
    simp only [Except.ok.injEq, Prod.mk.injEq] at h
    obtain ⟨rfl, _⟩ := h
    have hfr := (tokenize_spec cfg _ _ _ hs).frame
    have hg := tokenize_wf cfg _ _ _ hs AllGoodB.nil
    have hk : s.nodeKind = .root := hfr.nodeKind
    refine ⟨hk, ?_⟩
    rw [hk]
    exact wfb_container (.inl rfl) hg

end MdIt.Block
