/-
  The whole document pipeline (html-free configurations): property theorems about the composed
  model `MdIt.Pipeline` (`Model/Pipeline.lean`), which the stream `pipeline` checks against
  `md.parse(src)` / `.render()` / `.xrender()` of the real parser (0 differences on 23 323 documents,
  all 652 spec inputs included).  Everything is COMPOSED from the theorems of the slices
  (`Props/Block`, `Props/Inline`, `Props/NodeRender`, `Props/C03`, `Props/C15`); every statement is
  for ALL configurations of the model (any subset / order of the nine cmark block rules and the ten
  html-free inline rules, any `max_nesting`, with and without `sourcepos`) and ALL sources, and is
  conditional only on `parseDoc` returning `.ok` (absence of panics of the block pass and of the
  inline runs is C01's composition; the pipeline itself adds none: `parseDoc_panic`).

  Part A (namespace `MdIt.Block`) — one more invariant of the block parser, by the induction scheme
  of `list_shape`:
    `parseBlocks_wf`        every tree `parseBlocks` returns is `WFB` at every node: ATX level in 1..6,
                            setext level in 1..2, heading / paragraph = exactly one childless
                            `InlineRoot`, leaf kinds childless, lists = items only, items under lists
                            only, `Root` nowhere below the top, and — with the paragraph rule in the
                            chain — no bare `InlineRoot` under `Root` / `Blockquote`
                            (`runChain_para`: the no-paragraph fallback is then dead code)
  Part B (namespace `MdIt.Pipeline`):
    `parseDoc_final`        the tree invariant: every node `Final` (attributes = `data-sourcepos` only;
                            no `InlineRoot`: `spliceList_every`; no `EmphMarker`: `joinNode_every` /
                            `Inline.notMarker_good`; heading levels in range), rooted at `Root`
    `parseDoc_panic`, `renderDoc_panic`   the only panics of `src ↦ tree ↦ html` are those of the block
                            pass and of the inline runs (`sourceposNode_total` from `C15.getPositions_spec`,
                            `doc_render_total`)
    1 `doc_output_html_free`   `HtmlFree` ∧ `AttrsSourcepos` of the projection to `NodeRender.Node`
    2 `doc_output_renderable`  `Renderable`, with NO condition on the configuration;
      `doc_render_total`       hence `render` / `xrender` never panic on a parsed tree
    3 `doc_safe_output`(`'`)   C03 for documents: both renderings are in the safe output language
                            `SafeHtml` (`NodeRender.safe_output` + 1 + 2)
    4 `doc_deterministic`, `doc_pure`, `doc_refs_local`, `inline_state_local`   C07 for documents
    5 `doc_tree_wf`            C14 for documents: `WF` (`LocK` at every node) — no placeholder, `Root`
                            on top only, lists / items, inline nodes in their places, block leaves
                            childless, text normal form when the join pass runs
                            (`fragmentsJoin_nf` = the proof of `C14.join_normal_form` on this node type)
      `doc_sourcepos_spec`     C15 for documents: the one attribute of a ranged node is `data-sourcepos` with the
                            positions of the SPECIFICATION of C15 for its byte range
    6 `render_ranges_irrelevant`, `doc_line_ending_reduction`   C10 for documents, reduced to two
                            congruence lemmas of the block and the inline slice (OPEN block at the end)
  OPEN blocks: two clauses of C14 (inline leaf kinds childless; text normal form without a join
  pass), `doc_line_ending_invariant` (C10) — each with the missing lemma named.
-/
import MdIt.Props.Block
import MdIt.Props.Inline
import MdIt.Props.NodeRender
import MdIt.Props.C15
import MdIt.Model.Pipeline

/-! # Part A: the block tree is well formed -/

namespace MdIt.Block
open MdIt.Lines (LineOffset)

/-- the children of a paragraph / heading: exactly one `InlineRoot` placeholder, without range and
    without children -/
def OneInl (cs : List BNode) : Prop := ∃ t m, cs = [⟨.inlineRoot t m, none, []⟩]

/-- may the node sit directly under `Root` / `Blockquote`: no list item; and with the paragraph rule
    in the chain (`para`) no bare `InlineRoot` (the no-paragraph fallback never runs) -/
def TopKid (para : Bool) (c : BNode) : Prop :=
  c.kind ≠ .listItem ∧ (para = true → ∀ t m, c.kind ≠ .inlineRoot t m)

/-- the local condition on a node of kind `k` with children `cs` -/
def LocB (para : Bool) (k : Kind) (cs : List BNode) : Prop :=
  (∀ c ∈ cs, c.kind ≠ .root) ∧
  (match k with
   | .atx l => (1 ≤ l ∧ l ≤ 6) ∧ OneInl cs
   | .setext l _ => (1 ≤ l ∧ l ≤ 2) ∧ OneInl cs
   | .paragraph => OneInl cs
   | .hr _ _ => cs = []
   | .codeBlock _ => cs = []
   | .codeFence _ _ _ _ => cs = []
   | .inlineRoot _ _ => cs = []
   | .bulletList _ => ∀ c ∈ cs, c.kind = .listItem
   | .orderedList _ _ => ∀ c ∈ cs, c.kind = .listItem
   | .listItem => ∀ c ∈ cs, c.kind ≠ .listItem
   | .root => ∀ c ∈ cs, TopKid para c
   | .blockquote => ∀ c ∈ cs, TopKid para c)

/-- the condition holds at every node of the tree -/
inductive WFB (para : Bool) : BNode → Prop
  | mk (n : BNode) : LocB para n.kind n.children → (∀ c ∈ n.children, WFB para c) → WFB para n

theorem WFB.at {para : Bool} {n : BNode} (h : WFB para n) : LocB para n.kind n.children := by
  cases h; assumption
theorem WFB.child {para : Bool} {n : BNode} (h : WFB para n) : ∀ c ∈ n.children, WFB para c := by
  cases h; assumption

/-- a node the tokenizer may push into `Root` / `Blockquote` / a list item under construction -/
structure GoodB (para : Bool) (c : BNode) : Prop where
  notRoot : c.kind ≠ .root
  top : TopKid para c
  wf : WFB para c

def AllGoodB (para : Bool) (cs : List BNode) : Prop := ∀ c ∈ cs, GoodB para c

theorem AllGoodB.nil {para : Bool} : AllGoodB para [] := fun _ h => by simp at h

theorem AllGoodB.push {para : Bool} {cs : List BNode} {n : BNode} (h : AllGoodB para cs)
    (hn : GoodB para n) : AllGoodB para (cs ++ [n]) := by
  intro c hc
  rcases List.mem_append.mp hc with h1 | h1
  · exact h c h1
  · simp at h1; subst h1; exact hn

theorem wfb_inl {para : Bool} (t : List Char) (m : List (Nat × Nat)) :
    WFB para ⟨.inlineRoot t m, none, []⟩ :=
  .mk _ ⟨by simp, rfl⟩ (by simp)

/-- `Root` / `Blockquote` over good children -/
theorem wfb_container {para : Bool} {k : Kind} {r : Option (Nat × Nat)} {cs : List BNode}
    (hk : k = .root ∨ k = .blockquote) (h : AllGoodB para cs) : WFB para ⟨k, r, cs⟩ := by
  refine .mk _ ⟨fun c hc => (h c hc).notRoot, ?_⟩ (fun c hc => (h c hc).wf)
  rcases hk with rfl | rfl <;> exact fun c hc => (h c hc).top

/-- a childless leaf block -/
theorem good_leafB {para : Bool} (k : Kind) (r : Option (Nat × Nat))
    (hk : (∃ a b, k = .hr a b) ∨ (∃ c, k = .codeBlock c) ∨ (∃ a b c d, k = .codeFence a b c d)) :
    GoodB para ⟨k, r, []⟩ := by
  rcases hk with ⟨a, b, rfl⟩ | ⟨c, rfl⟩ | ⟨a, b, c, d, rfl⟩
  all_goals exact ⟨by simp, ⟨by simp, fun _ => by simp⟩, .mk _ ⟨by simp, rfl⟩ (by simp)⟩

/-- a paragraph / heading with its one placeholder -/
theorem good_textB {para : Bool} (k : Kind) (r : Option (Nat × Nat)) (t : List Char) (m : List (Nat × Nat))
    (hk : k = .paragraph ∨ (∃ l, k = .atx l ∧ 1 ≤ l ∧ l ≤ 6) ∨ (∃ l c, k = .setext l c ∧ 1 ≤ l ∧ l ≤ 2)) :
    GoodB para ⟨k, r, [⟨.inlineRoot t m, none, []⟩]⟩ := by
  have hkids : ∀ c ∈ [(⟨.inlineRoot t m, none, []⟩ : BNode)], WFB para c := by
    intro c hc; simp at hc; subst hc; exact wfb_inl t m
  rcases hk with rfl | ⟨l, rfl, h1, h2⟩ | ⟨l, c, rfl, h1, h2⟩
  · exact ⟨by simp, ⟨by simp, fun _ => by simp⟩, .mk _ ⟨by simp, ⟨t, m, rfl⟩⟩ hkids⟩
  · exact ⟨by simp, ⟨by simp, fun _ => by simp⟩, .mk _ ⟨by simp, ⟨h1, h2⟩, ⟨t, m, rfl⟩⟩ hkids⟩
  · exact ⟨by simp, ⟨by simp, fun _ => by simp⟩, .mk _ ⟨by simp, ⟨h1, h2⟩, ⟨t, m, rfl⟩⟩ hkids⟩

/-- the fallback placeholder (only without the paragraph rule) -/
theorem good_inlB (t : List Char) (m : List (Nat × Nat)) : GoodB false ⟨.inlineRoot t m, none, []⟩ :=
  ⟨by simp, ⟨by simp, fun h => by cases h⟩, wfb_inl t m⟩

def KeepsGoodB (para : Bool) (s s' : BState) : Prop := AllGoodB para s.children → AllGoodB para s'.children

/-! ### the heading levels -/

theorem atxOpen_level : ∀ (l : List Char) (lv : Nat) (r : Nat × Nat × List Char),
    atxOpen l lv = some r → lv ≤ 6 → lv ≤ r.1 ∧ r.1 ≤ 6
  | [], lv, r, h, hl => by simp [atxOpen] at h; subst h; exact ⟨Nat.le_refl _, hl⟩
  | c :: rest, lv, r, h, hl => by
    simp only [atxOpen] at h
    split at h
    · split at h
      · cases h
      · have := atxOpen_level rest (lv + 1) r h (by omega)
        omega
    · split at h
      · simp at h; subst h; exact ⟨Nat.le_refl _, hl⟩
      · cases h

theorem atxOpen_hash {line : List Char} {r : Nat × Nat × List Char} (hh : line.head? = some '#')
    (h : atxOpen line 0 = some r) : 1 ≤ r.1 ∧ r.1 ≤ 6 := by
  cases line with
  | nil => simp at hh
  | cons c rest =>
    simp only [List.head?_cons, Option.some.injEq] at hh
    subst hh
    simp only [atxOpen, if_true] at h
    split at h
    · cases h
    · have := atxOpen_level rest 1 r h (by omega)
      omega

theorem underlineLevel_le (l : List Char) : underlineLevel l ≤ 2 := by
  unfold underlineLevel
  repeat' split
  all_goals omega

theorem lazyScan_level {test : Test} (setext : Bool) :
    ∀ (fuel : Nat) (s : BState) (n : Nat) (r : Nat × Nat × BState),
      lazyScan test setext fuel s n = .ok r → r.2.1 ≤ 2 := by
  intro fuel
  induction fuel with
  | zero => intro s n r h; simp [lazyScan] at h
  | succ f ih =>
    intro s n r h
    simp only [lazyScan] at h
    crack h
    all_goals (try (exact ih _ _ _ h))
    all_goals (try (subst_vars; simp; done))
    · have hs := ‹setextCheck _ _ _ _ = _›
      subst_vars
      unfold setextCheck at hs
      crack hs
      all_goals (subst_vars; first | exact underlineLevel_le _ | simp)

/-! ### the nine rules -/

theorem hr_wf {para : Bool} {s s' : BState} {b : Bool} (h : hrRule s false = .ok (b, s')) :
    KeepsGoodB para s s' := by
  unfold hrRule at h
  crack h
  all_goals (try subst_vars)
  all_goals (intro hg)
  all_goals (first | exact hg | exact hg.push (good_leafB _ _ (.inl ⟨_, _, rfl⟩)))

theorem code_wf {para : Bool} {s s' : BState} {b : Bool} (h : codeRule s false = .ok (b, s')) :
    KeepsGoodB para s s' := by
  unfold codeRule at h
  crack h
  all_goals (try subst_vars)
  all_goals (intro hg)
  all_goals (first | exact hg | exact hg.push (good_leafB _ _ (.inr (.inl ⟨_, rfl⟩))))

theorem fence_wf {para : Bool} {s s' : BState} {b : Bool} (h : fenceRule s false = .ok (b, s')) :
    KeepsGoodB para s s' := by
  unfold fenceRule at h
  crack h
  all_goals (try subst_vars)
  all_goals (intro hg)
  all_goals (first | exact hg | exact hg.push (good_leafB _ _ (.inr (.inr ⟨_, _, _, _, rfl⟩))))

theorem heading_wf {para : Bool} {s s' : BState} {b : Bool} (h : headingRule s false = .ok (b, s')) :
    KeepsGoodB para s s' := by
  unfold headingRule at h
  crack h
  all_goals (try subst_vars)
  all_goals (intro hg)
  all_goals (first | exact hg | skip)
  have ha := ‹atxOpen _ 0 = some _›
  have hh : ¬ _ ≠ some '#' := ‹_›
  exact hg.push (good_textB _ _ _ _ (.inr (.inl ⟨_, rfl, atxOpen_hash (by simpa using hh) ha⟩)))

theorem paragraph_wf {para : Bool} {test : Test} (ht : TestPure test) {fuel : Nat} {s s' : BState} {b : Bool}
    (h : paragraphRule test fuel s false = .ok (b, s')) : KeepsGoodB para s s' := by
  unfold paragraphRule at h
  crack h
  have h1 := (lazyScan_spec ht false _ _ _ _ ‹lazyScan _ _ _ _ _ = _›).1
  intro hg
  simp only [BState.push, h1]
  exact hg.push (good_textB _ _ _ _ (.inl rfl))

theorem lheading_wf {para : Bool} {test : Test} (ht : TestPure test) {fuel : Nat} {s s' : BState} {b : Bool}
    (h : lheadingRule test fuel s false = .ok (b, s')) : KeepsGoodB para s s' := by
  unfold lheadingRule at h
  crack h
  all_goals (try (have h1 := (lazyScan_spec ht true _ _ _ _ ‹lazyScan _ _ _ _ _ = _›).1))
  all_goals (try (have h2 := lazyScan_level true _ _ _ _ ‹lazyScan _ _ _ _ _ = _›))
  all_goals (try subst_vars)
  all_goals (intro hg)
  all_goals (first | exact hg | skip)
  exact hg.push (good_textB _ _ _ _ (.inr (.inr ⟨_, _, rfl, by omega, h2⟩)))

theorem reference_wf {para : Bool} {cfg : Cfg} {test : Test} (ht : TestPure test) {fuel : Nat}
    {s s' : BState} {b : Bool} (h : referenceRule cfg test fuel s false = .ok (b, s')) :
    KeepsGoodB para s s' := by
  unfold referenceRule at h
  crack h
  all_goals (try (have h1 := (lazyScan_spec ht false _ _ _ _ ‹lazyScan _ _ _ _ _ = _›).1))
  all_goals (try subst_vars)
  all_goals (intro hg)
  all_goals (first | exact hg | (rw [h1]; exact hg) | (simp only [h1]; exact hg))

/-- the nested tokenizer keeps the children of its current node good -/
def TokWF (para : Bool) (tok : Tok) : Prop := ∀ s s', tok s = .ok s' → KeepsGoodB para s s'

theorem blockquote_wf {para : Bool} {tok : Tok} {test : Test} (hk : TokSpec tok) (hsh : TokWF para tok)
    (ht : TestPure test) {fuel : Nat} {s s' : BState} {b : Bool}
    (h : blockquoteRule tok test fuel s false = .ok (b, s')) : KeepsGoodB para s s' := by
  unfold blockquoteRule at h
  crack h
  all_goals (try subst_vars)
  · exact fun hg => hg
  · exact fun hg => hg
  · have hscan := ‹bqScan _ _ _ _ _ _ = _›
    have htok := ‹tok _ = _›
    rename_i scan _ s2 _ _ _ _ _ _ _ _ _
    obtain ⟨n, old', S'⟩ := scan
    obtain ⟨hch, _⟩ := bqScan_children ht hscan
    have hfr := hk.frame _ _ htok
    have hg2 := hsh _ _ htok AllGoodB.nil
    intro hg
    simp only at hch hfr hg2 ⊢
    rw [hch]
    have hkind : s2.nodeKind = .blockquote := hfr.nodeKind
    refine hg.push ⟨by rw [hkind]; simp, ⟨by rw [hkind]; simp, fun _ => by rw [hkind]; simp⟩, ?_⟩
    rw [hkind]
    exact wfb_container (.inr rfl) hg2

/-- may sit directly under a list item: what the tokenizer pushed, or the placeholder of a
    paragraph that `mark_tight_paragraphs` dissolved -/
def ItemKid (para : Bool) (c : BNode) : Prop := c.kind ≠ .listItem ∧ c.kind ≠ .root ∧ WFB para c

theorem GoodB.itemKid {para : Bool} {c : BNode} (h : GoodB para c) : ItemKid para c :=
  ⟨h.top.1, h.notRoot, h.wf⟩

theorem wfb_item {para : Bool} {r : Option (Nat × Nat)} {cs : List BNode}
    (h : ∀ c ∈ cs, ItemKid para c) : WFB para ⟨.listItem, r, cs⟩ :=
  .mk _ ⟨fun c hc => (h c hc).2.1, fun c hc => (h c hc).1⟩ (fun c hc => (h c hc).2.2)

theorem markTight_kids {para : Bool} : ∀ (cs : List BNode), (∀ c ∈ cs, ItemKid para c) →
    ∀ c ∈ markTight cs, ItemKid para c
  | [], _ => by simp [markTight]
  | n :: r, h => by
    have hr := markTight_kids r (fun c hc => h c (List.mem_cons_of_mem _ hc))
    have hn := h n (by simp)
    simp only [markTight]
    split
    · rename_i hp
      intro c hc
      rcases List.mem_append.mp hc with h1 | h1
      · have hloc := hn.2.2.at
        rw [hp] at hloc
        obtain ⟨t, m, hcs⟩ := hloc.2
        rw [hcs] at h1
        simp at h1
        subst h1
        exact ⟨by simp, by simp, wfb_inl t m⟩
      · exact hr c h1
    · intro c hc
      simp at hc
      rcases hc with rfl | h1
      · exact hn
      · exact hr c h1

/-- the children of a list under construction: list items, each well formed -/
def AllItemsB (para : Bool) (cs : List BNode) : Prop := ∀ c ∈ cs, c.kind = .listItem ∧ WFB para c

theorem wfb_list {para : Bool} {k : Kind} {r : Option (Nat × Nat)} {cs : List BNode}
    (hk : isListKind k = true) (h : AllItemsB para cs) : WFB para ⟨k, r, cs⟩ := by
  refine .mk _ ⟨fun c hc => by rw [(h c hc).1]; simp, ?_⟩ (fun c hc => (h c hc).2)
  cases k <;> simp [isListKind] at hk <;> exact fun c hc => (h c hc).1

theorem tightenItems_itemsB {para : Bool} : ∀ (cs cs' : List BNode), tightenItems cs = .ok cs' →
    AllItemsB para cs → AllItemsB para cs'
  | [], cs', h, _ => by simp [tightenItems] at h; subst h; exact fun _ hc => by simp at hc
  | c :: r, cs', h, hi => by
    simp only [tightenItems] at h
    split at h
    · cases h
    · split at h
      · cases h
      · rename_i hk r' hr
        cases h
        have ih := tightenItems_itemsB r r' hr (fun x hx => hi x (List.mem_cons_of_mem _ hx))
        obtain ⟨hck, hcs⟩ := hi c (by simp)
        intro x hx
        simp at hx
        rcases hx with rfl | hx
        · refine ⟨hck, ?_⟩
          have hloc := hcs.at
          rw [hck] at hloc
          have hkids : ∀ y ∈ c.children, ItemKid para y := fun y hy =>
            ⟨hloc.2 y hy, hloc.1 y hy, hcs.child y hy⟩
          rw [hck]
          exact wfb_item (markTight_kids _ hkids)
        · exact ih x hx

theorem listItemBody_wf {para : Bool} {tok : Tok} (hsh : TokWF para tok) {S2 S3 : BState} {m : Nat} {re : Bool}
    (h : listItemBody tok S2 m re = .ok S3) : KeepsGoodB para S2 S3 := by
  unfold listItemBody at h
  crack h
  · exact fun hg => hg
  · have htok := ‹tok _ = _›
    subst_vars
    have key := hsh _ _ htok
    intro hg
    exact key hg

theorem listItem_wf {para : Bool} {tok : Tok} (hk : TokSpec tok) (hsh : TokWF para tok) {S S' : BState}
    {m pos : Nat} {pee tight pee' tight' : Bool}
    (h : listItem tok S m pos pee tight = .ok (S', tight', pee'))
    (hline : S.line = m) (hlt : m < S.lineMax) :
    AllItemsB para S.children → AllItemsB para S'.children := by
  have hspec := listItem_spec hk h hline hlt
  unfold listItem at h
  crack h
  rename_i o ho rw hrw S2 hS2 S3 hbody _ li hli S5 hS5 e _ r _ hS' _ _
  subst hS'
  obtain ⟨hm, hS2eq⟩ := setOff_ok hS2
  obtain ⟨hm5, rfl⟩ := setOff_ok hS5
  have hg3 := listItemBody_wf hsh hbody (by rw [hS2eq]; exact AllGoodB.nil)
  -- the kind of the node under construction is still `listItem`
  have hkind : S3.nodeKind = .listItem := by
    unfold listItemBody at hbody
    crack hbody
    · rw [hS2eq]
    · have := (hk.frame _ _ ‹tok _ = _›).nodeKind
      simp only at this ⊢
      rw [this, hS2eq]
  intro hi c hc
  simp only at hc
  rcases List.mem_append.mp hc with h1 | h1
  · exact hi c h1
  · simp at h1
    subst h1
    simp only
    rw [hkind]
    exact ⟨rfl, wfb_item (fun y hy => (hg3 y hy).itemKid)⟩

theorem listLoop_wf {para : Bool} {tok : Tok} {test : Test} (hk : TokSpec tok) (hsh : TokWF para tok)
    (ht : TestPure test) {ordered : Bool} {mc : Char} :
    ∀ (fuel : Nat) (S : BState) (m pos : Nat) (pee tight : Bool) (n : Nat) (tight' : Bool) (S' : BState),
      listLoop tok test ordered mc fuel S m pos pee tight = .ok (n, tight', S') →
      S.line = m → m < S.lineMax → AllItemsB para S.children → AllItemsB para S'.children := by
  intro fuel
  induction fuel with
  | zero => intro S m pos pee tight n tight' S' h; simp [listLoop] at h
  | succ f ih =>
    intro S m pos pee tight n tight' S' h hline hlt hi
    simp only [listLoop] at h
    crack h
    all_goals (try subst_vars)
    · rename_i wi wc hc _ hnone _ hitem
      obtain ⟨S1, t1, p1⟩ := wi
      obtain ⟨c, S2⟩ := wc
      obtain ⟨rfl, _⟩ := listContinue_spec ht hc
      exact listItem_wf hk hsh hitem rfl hlt hi
    · rename_i wi wc hc _ p hsome _ hitem
      obtain ⟨S1, t1, p1⟩ := wi
      obtain ⟨c, S2⟩ := wc
      obtain ⟨hfr, h1, h2⟩ := listItem_spec hk hitem rfl hlt
      obtain ⟨rfl, hc2⟩ := listContinue_spec ht hc
      simp only at hsome h hc2
      have hlt2 := hc2 (by rw [hsome]; simp)
      exact ih _ _ _ _ _ _ _ _ h rfl hlt2 (listItem_wf hk hsh hitem rfl hlt hi)

theorem list_rule_wf {para : Bool} {tok : Tok} {test : Test} (hk : TokSpec tok) (hsh : TokWF para tok)
    (ht : TestPure test) {fuel : Nat} {s s' : BState} {b : Bool}
    (h : listRule tok test fuel s false = .ok (b, s')) (hl : s.line < s.lineMax) : KeepsGoodB para s s' := by
  unfold listRule at h
  crack h
  all_goals (try subst_vars)
  all_goals (try (exact fun hg => hg))
  all_goals (
    have hloop := ‹listLoop _ _ _ _ _ _ _ _ _ _ = _›
    have htight := ‹(if _ then tightenItems _ else _) = Except.ok _›
    rename_i wl _ cs _ _ _ _ _ _ _
    obtain ⟨n, t, S'⟩ := wl
    have hitems := listLoop_wf (para := para) hk hsh ht _ _ _ _ _ _ _ _ _ hloop rfl hl (fun _ hc => by simp at hc)
    obtain ⟨hfr, _⟩ := listLoop_spec hk ht _ _ _ _ _ _ _ _ _ hloop rfl hl
    have hcs : AllItemsB para cs := by
      simp only at htight
      split at htight
      · exact tightenItems_itemsB _ _ htight hitems
      · simp [pure, Except.pure] at htight; subst htight; exact hitems
    intro hg
    simp only
    have hkind := hfr.nodeKind
    simp only at hkind
    refine hg.push ⟨by rw [hkind]; simp, ⟨by rw [hkind]; simp, fun _ => by rw [hkind]; simp⟩, ?_⟩
    rw [hkind]
    exact wfb_list rfl hcs)

theorem runRule_wf {para : Bool} {cfg : Cfg} {tok : Tok} {test : Test} (hk : TokSpec tok)
    (hsh : TokWF para tok) (ht : TestPure test) (fuel : Nat) (r : RuleId) {s s' : BState} {b : Bool}
    (h : runRule cfg tok test fuel r s false = .ok (b, s')) (hl : s.line < s.lineMax) :
    KeepsGoodB para s s' := by
  cases r <;> simp only [runRule] at h
  · exact code_wf h
  · exact fence_wf h
  · exact blockquote_wf hk hsh ht h
  · exact hr_wf h
  · exact list_rule_wf hk hsh ht h hl
  · exact reference_wf ht h
  · exact heading_wf h
  · exact lheading_wf ht h
  · exact paragraph_wf ht h

theorem runChain_wf {para : Bool} {run : RuleId → BState → Bool → Res} (hr : RunSpec run)
    (hsh : ∀ r s b s', run r s false = .ok (b, s') → s.line < s.lineMax → KeepsGoodB para s s') :
    ∀ (chain : List RuleId) (s : BState) (b : Bool) (s' : BState),
      runChain run chain s false = .ok (b, s') → s.line < s.lineMax → KeepsGoodB para s s' := by
  intro chain
  induction chain with
  | nil => intro s b s' h _; simp [runChain] at h; rw [← h.2]; exact fun hg => hg
  | cons r rs ih =>
    intro s b s' h hl
    simp only [runChain] at h
    split at h
    · cases h
    · rename_i s1 h1
      cases h
      exact hsh _ _ _ _ h1 hl
    · rename_i s1 h1
      have := hr.false_same _ _ _ h1
      subst this
      exact ih _ _ _ h hl

/-- with the paragraph rule in the chain the chain always claims the line (the paragraph rule never
    answers `false` in real mode): the no-paragraph fallback of `tokenize` is dead code -/
theorem runChain_para {cfg : Cfg} {tok : Tok} {test : Test} {fuel : Nat} :
    ∀ (chain : List RuleId) (s : BState) (b : Bool) (s' : BState), RuleId.paragraph ∈ chain →
      runChain (runRule cfg tok test fuel) chain s false = .ok (b, s') → b = true := by
  intro chain
  induction chain with
  | nil => intro s b s' hm; simp at hm
  | cons r rs ih =>
    intro s b s' hm h
    simp only [runChain] at h
    split at h
    · cases h
    · cases h; rfl
    · rename_i s1 h1
      have hr : r ≠ .paragraph := by
        intro e
        subst e
        simp only [runRule] at h1
        exact absurd (real_true_paragraph h1) (by simp)
      have hm' : RuleId.paragraph ∈ rs := by
        rcases List.mem_cons.mp hm with e | e
        · exact absurd e.symm hr
        · exact e
      exact ih _ _ _ hm' h

theorem afterChain_wf {para : Bool} {ok : Bool} {s s' : BState} {prev : Nat}
    (h : afterChain ok s prev = .ok s') (hp : ok = false → para = false) : KeepsGoodB para s s' := by
  unfold afterChain at h
  crack h
  · exact fun hg => hg
  · intro hg
    simp only [BState.push]
    have e : para = false := hp (by simpa using ‹¬ ok = true›)
    subst e
    exact hg.push (good_inlB _ _)

theorem tokLoop_wf {para : Bool} {cfg : Cfg} {run : RuleId → BState → Bool → Res} (hr : RunSpec run)
    (hsh : ∀ r s b s', run r s false = .ok (b, s') → s.line < s.lineMax → KeepsGoodB para s s')
    (hpara : para = true → ∀ s b s', runChain run cfg.chain s false = .ok (b, s') → b = true) :
    ∀ (fuel : Nat) (he : Bool) (s s' : BState), tokLoop cfg run fuel he s = .ok s' → KeepsGoodB para s s' := by
  intro fuel
  induction fuel with
  | zero => intro he s s' h; simp [tokLoop] at h
  | succ f ih =>
    intro he s s' h
    simp only [tokLoop] at h
    crack h
    all_goals (try subst_vars)
    all_goals (try (exact fun hg => hg))
    all_goals (
      have hchain := ‹runChain _ _ _ _ = _›
      have hafter := ‹afterChain _ _ _ = _›
      have h1 := runChain_wf hr hsh _ _ _ _ hchain (by simp; omega)
      have h2 := afterChain_wf (para := para) hafter (by
        intro hok
        cases hp : para with
        | false => rfl
        | true => have := hpara hp _ _ _ hchain; simp_all)
      have h3 := ih _ _ _ h
      exact fun hg => h3 (h2 (h1 hg)))

/-- is the default block rule configured -/
def Cfg.hasPara (cfg : Cfg) : Bool := cfg.chain.contains .paragraph

/-- the tokenizer pushes only well-formed nodes that may sit under `Root` / `Blockquote` -/
theorem tokenize_wf (cfg : Cfg) : ∀ fuel : Nat, TokWF cfg.hasPara (tokenize cfg fuel) := by
  intro fuel
  induction fuel with
  | zero => intro s s' h; simp [tokenize, engine] at h
  | succ f ih =>
    intro s s' h
    simp only [tokenize, engine] at h
    have hk := tokenize_tokSpec cfg f
    have ht := testRules_pure cfg f
    refine tokLoop_wf (runRule_spec hk ht _)
      (fun r s b s' h hl => runRule_wf hk ih ht _ r h hl) ?_ _ _ _ _ h
    intro hp s b s' hc
    exact runChain_para _ _ _ _ (by simpa [Cfg.hasPara] using hp) hc

/-- **`parseBlocks_wf`.**  Every tree the block parser returns is well formed (`WFB`, at every
    node): the top is `Root` and `Root` occurs nowhere else; an ATX heading has a level in `1..6`, a
    setext heading a level in `1..2` (so `TAG[level - 1]` of their `render` is in range); a paragraph
    / heading has exactly one child, an `InlineRoot` placeholder without children; thematic breaks,
    code blocks, fences and placeholders are childless; lists contain list items only and list items
    occur under lists only; and when the paragraph rule is in the chain no bare `InlineRoot` sits
    under `Root` / `Blockquote` (only under paragraphs, headings and — tight lists — list items). -/
theorem parseBlocks_wf {cfg : Cfg} {src : List Char} {root : BNode} {refs : Refs.RefMap}
    (h : parseBlocks cfg src = .ok (root, refs)) : root.kind = .root ∧ WFB cfg.hasPara root := by
  unfold parseBlocks at h
  split at h
  · cases h
  · rename_i s hs
    simp only [Except.ok.injEq, Prod.mk.injEq] at h
    obtain ⟨rfl, _⟩ := h
    have hfr := (tokenize_spec cfg _ _ _ hs).frame
    have hg := tokenize_wf cfg _ _ _ hs AllGoodB.nil
    have hk : s.nodeKind = .root := hfr.nodeKind
    refine ⟨hk, ?_⟩
    rw [hk]
    exact wfb_container (.inl rfl) hg

end MdIt.Block

/-! # Part B: the document pipeline -/

namespace MdIt.Pipeline
open MdIt.NodeRender (aSourcepos)

/-- a predicate holds at every node of a document tree -/
inductive Every (P : Node → Prop) : Node → Prop
  | mk (n : Node) : P n → (∀ c ∈ n.children, Every P c) → Every P n

theorem Every.here {P : Node → Prop} {n : Node} (h : Every P n) : P n := by cases h; assumption
theorem Every.child {P : Node → Prop} {n : Node} (h : Every P n) : ∀ c ∈ n.children, Every P c := by
  cases h; assumption

theorem Every.imp {P Q : Node → Prop} (hpq : ∀ n, P n → Q n) : ∀ {n : Node}, Every P n → Every Q n := by
  intro n h
  induction h with
  | mk n hp _ ih => exact .mk n (hpq n hp) ih

/-! ## the kinds of the final tree -/

/-- a block value as `render` needs it: no `InlineRoot` placeholder, heading levels inside the
    `TAG` tables -/
def BlkOK : Block.Kind → Prop
  | .atx l => 1 ≤ l ∧ l ≤ 6
  | .setext l _ => 1 ≤ l ∧ l ≤ 2
  | .inlineRoot _ _ => False
  | _ => True

/-- the value is the parser-internal placeholder `EmphMarker` -/
def Kind.isMarker : Kind → Bool
  | .inl (.emphMarker _ _ _ _ _) => true
  | _ => false

/-- a final value: a block value that is `BlkOK`, or an inline value that is not the `EmphMarker`
    placeholder (`markers = true`: placeholders still allowed — the tree before `FragmentsJoin`) -/
def KindOK (markers : Bool) : Kind → Prop
  | .blk k => BlkOK k
  | k => k.isMarker = true → markers = true

theorem BlkOK_of_loc {para : Bool} {k : Block.Kind} {cs : List Block.BNode} (h : Block.LocB para k cs)
    (hk : ∀ t m, k ≠ .inlineRoot t m) : BlkOK k := by
  cases k <;> simp only [BlkOK]
  case atx l => exact h.2.1
  case setext l c => exact h.2.1
  case inlineRoot t m => exact absurd rfl (hk t m)

/-! ## step 1: the splice walk -/

/-- what the inline parser's values satisfy: without an emphasis-like rule no `EmphMarker` is ever
    created (`Inline.notMarker_good`) -/
def ValOK (icfg : Inline.Cfg) (v : Inline.Val) : Prop := icfg.hasEmph = false → Inline.NotMarker v

theorem valOK_good (icfg : Inline.Cfg) : Inline.GoodP icfg (ValOK icfg) := by
  have hno : icfg.hasEmph = false → ∀ mk csw, Inline.RuleId.emph mk csw ∉ icfg.chain := by
    intro h mk csw hmem
    unfold Inline.Cfg.hasEmph at h
    rw [List.any_eq_false] at h
    have := h _ hmem
    simp [Inline.RuleId.isEmph] at this
  exact ⟨fun _ _ => trivial, fun _ _ _ _ => trivial, fun _ => trivial, fun _ => trivial,
    fun _ _ _ => trivial, fun _ _ _ _ _ => trivial, fun _ _ _ _ => trivial, fun _ _ _ _ => trivial,
    fun mk csw hm _ _ _ _ he => absurd hm (hno he mk csw), fun _ _ _ _ _ => trivial,
    fun _ _ _ _ _ _ h => h⟩

/-- the condition on a node after the splice walk: no attribute yet, a final value except that
    `EmphMarker`s may be there when an emphasis-like rule is configured -/
def Spliced (markers : Bool) (n : Node) : Prop := n.attrs = [] ∧ KindOK markers n.kind

mutual
theorem ofInline_every {icfg : Inline.Cfg} (n : Inline.Node) (h : Inline.AllVals (ValOK icfg) n) :
    Every (Spliced icfg.hasEmph) (ofInline n) := by
  match n with
  | ⟨v, r, cs⟩ =>
    rw [Inline.AllVals_eq] at h
    unfold ofInline
    refine .mk _ ⟨rfl, ?_⟩ (ofInlineList_every cs h.2)
    have hv := h.1
    simp only at hv
    cases v <;> simp only [KindOK, Kind.isMarker] <;> try (intro hc; cases hc)
    cases he : icfg.hasEmph with
    | true => rfl
    | false => exact absurd (hv he) (by simp [Inline.NotMarker])
theorem ofInlineList_every {icfg : Inline.Cfg} (cs : List Inline.Node)
    (h : Inline.AllValsList (ValOK icfg) cs) :
    ∀ c ∈ ofInlineList cs, Every (Spliced icfg.hasEmph) c := by
  match cs with
  | [] => simp [ofInlineList]
  | c :: r =>
    simp only [Inline.AllValsList] at h
    intro x hx
    simp only [ofInlineList, List.mem_cons] at hx
    rcases hx with rfl | hx
    · exact ofInline_every c h.1
    · exact ofInlineList_every r h.2 x hx
end

mutual
theorem spliceNode_every' {para : Bool} {icfg : Inline.Cfg} (b : Block.BNode) (hw : Block.WFB para b)
    (hk : ∀ t m, b.kind ≠ .inlineRoot t m) (t : Node) (h : spliceNode icfg b = .ok t) :
    Every (Spliced icfg.hasEmph) t ∧ t.kind = .blk b.kind := by
  match b with
  | ⟨k, r, cs⟩ =>
    simp only [spliceNode] at h
    split at h
    · cases h
    · rename_i cs' hcs
      cases h
      exact ⟨.mk _ ⟨rfl, BlkOK_of_loc hw.at hk⟩ (spliceList_every cs hw.child cs' hcs), rfl⟩
theorem spliceList_every {para : Bool} {icfg : Inline.Cfg} (cs : List Block.BNode)
    (hw : ∀ c ∈ cs, Block.WFB para c) (out : List Node) (h : spliceList icfg cs = .ok out) :
    ∀ c ∈ out, Every (Spliced icfg.hasEmph) c := by
  match cs with
  | [] => simp [spliceList] at h; subst h; simp
  | c :: rest =>
    have hrest : ∀ x ∈ rest, Block.WFB para x := fun x hx => hw x (List.mem_cons_of_mem _ hx)
    simp only [spliceList] at h
    split at h
    · -- an `InlineRoot`: the children the inline parser returns
      split at h
      · cases h
      · rename_i ns hns
        split at h
        · cases h
        · rename_i rest' hr
          cases h
          have hv := Inline.parseInline_vals icfg (valOK_good icfg) hns
          intro x hx
          rcases List.mem_append.mp hx with h1 | h1
          · exact ofInlineList_every ns hv x h1
          · exact spliceList_every rest hrest rest' hr x h1
    · -- any other child: walked
      rename_i hne
      split at h
      · cases h
      · rename_i c' hc
        split at h
        · cases h
        · rename_i rest' hr
          cases h
          intro x hx
          rcases List.mem_cons.mp hx with rfl | hx
          · exact (spliceNode_every' c (hw c (by simp)) (fun t m e => hne t m e) _ hc).1
          · exact spliceList_every rest hrest rest' hr x hx
end

theorem spliceNode_every {para : Bool} {icfg : Inline.Cfg} {b : Block.BNode} {t : Node}
    (hw : Block.WFB para b) (hk : b.kind = .root) (h : spliceNode icfg b = .ok t) :
    Every (Spliced icfg.hasEmph) t ∧ t.kind = .blk .root := by
  have := spliceNode_every' b hw (by rw [hk]; simp) t h
  rw [hk] at this
  exact this

mutual
/-- a panic of the splice walk is a panic of one of the inline runs -/
theorem spliceNode_panic {icfg : Inline.Cfg} (b : Block.BNode) (e : Panic)
    (h : spliceNode icfg b = .error e) : ∃ p, e = .inline p := by
  match b with
  | ⟨k, r, cs⟩ =>
    simp only [spliceNode] at h
    split at h
    · rename_i e' he'; cases h; exact spliceList_panic cs _ he'
    · cases h
theorem spliceList_panic {icfg : Inline.Cfg} (cs : List Block.BNode) (e : Panic)
    (h : spliceList icfg cs = .error e) : ∃ p, e = .inline p := by
  match cs with
  | [] => simp [spliceList] at h
  | c :: rest =>
    simp only [spliceList] at h
    split at h
    · split at h
      · cases h; exact ⟨_, rfl⟩
      · split at h
        · rename_i e' he'; cases h; exact spliceList_panic rest _ he'
        · cases h
    · split at h
      · rename_i e' he'; cases h; exact spliceNode_panic c _ he'
      · split at h
        · rename_i e' he'; cases h; exact spliceList_panic rest _ he'
        · cases h
end

/-! ## step 2: `FragmentsJoin` -/

/-- an inline-level value -/
def Kind.isInline : Kind → Bool
  | .inl _ => true
  | .blk _ => false

/-- `c'` is `c` with, possibly, a `Text` value instead of its own INLINE value, and another range:
    what `fragments_join` does to a child it keeps -/
def Retext (c c' : Node) : Prop :=
  c'.children = c.children ∧ c'.attrs = c.attrs ∧
    (c'.kind = c.kind ∨ (c'.isText = true ∧ c.kind.isInline = true))

theorem Retext.refl (c : Node) : Retext c c := ⟨rfl, rfl, .inl rfl⟩

theorem isText_of_kind {a b : Node} (h : a.kind = b.kind) : a.isText = b.isText := by
  unfold Node.isText; rw [h]

theorem isInline_of_isText {n : Node} (h : n.isText = true) : n.kind.isInline = true := by
  unfold Node.isText at h
  split at h
  · next heq => rw [heq]; rfl
  · cases h

theorem Retext.trans {a b c : Node} (h1 : Retext a b) (h2 : Retext b c) : Retext a c := by
  refine ⟨h2.1.trans h1.1, h2.2.1.trans h1.2.1, ?_⟩
  rcases h2.2.2 with e | ⟨e, ei⟩
  · rcases h1.2.2 with e1 | ⟨e1, ei1⟩
    · exact .inl (e.trans e1)
    · exact .inr ⟨by rw [isText_of_kind e]; exact e1, ei1⟩
  · rcases h1.2.2 with e1 | ⟨e1, ei1⟩
    · exact .inr ⟨e, by rw [← e1]; exact ei⟩
    · exact .inr ⟨e, ei1⟩

theorem isMarker_of_isText {n : Node} (h : n.isText = true) : n.kind.isMarker = false := by
  unfold Node.isText at h
  split at h
  · next heq => rw [heq]; rfl
  · cases h

theorem Retext.notMarker {c c' : Node} (h : Retext c c') (hc : c.kind.isMarker = false) :
    c'.kind.isMarker = false := by
  rcases h.2.2 with e | ⟨e, _⟩
  · rw [e]; exact hc
  · exact isMarker_of_isText e

theorem markerToText_spec (c : Node) : Retext c (markerToText c) ∧ (markerToText c).kind.isMarker = false := by
  unfold markerToText
  split
  · next heq => exact ⟨⟨rfl, rfl, .inr ⟨rfl, by rw [heq]; rfl⟩⟩, rfl⟩
  · next h =>
    refine ⟨Retext.refl c, ?_⟩
    unfold Kind.isMarker
    split
    · next m l rem o cl heq => exact absurd heq (h m l rem o cl)
    · rfl

theorem mergeLoop_mem (cur : Node) (rest : List Node) :
    ∀ x ∈ mergeLoop cur rest, ∃ c ∈ cur :: rest, Retext c x := by
  induction rest generalizing cur with
  | nil => intro x hx; simp [mergeLoop] at hx; subst hx; exact ⟨_, by simp, Retext.refl _⟩
  | cons nxt rest ih =>
    intro x hx
    simp only [mergeLoop] at hx
    split at hx
    · next htt =>
      simp only [Bool.and_eq_true] at htt
      rcases List.mem_cons.mp hx with rfl | hx
      · exact ⟨nxt, by simp, ⟨rfl, rfl, .inr ⟨rfl, isInline_of_isText htt.2⟩⟩⟩
      · obtain ⟨c, hc, hr⟩ := ih _ x hx
        rcases List.mem_cons.mp hc with rfl | hc
        · exact ⟨cur, by simp, Retext.trans
            (show Retext cur (merged cur nxt) from ⟨rfl, rfl, .inr ⟨rfl, isInline_of_isText htt.1⟩⟩) hr⟩
        · exact ⟨c, by simp [hc], hr⟩
    · rcases List.mem_cons.mp hx with rfl | hx
      · exact ⟨_, by simp, Retext.refl _⟩
      · obtain ⟨c, hc, hr⟩ := ih _ x hx
        exact ⟨c, List.mem_cons_of_mem _ hc, hr⟩

/-- every child `fragments_join` leaves is one of the old children, possibly turned into / merged
    as a `Text`, and is not an `EmphMarker` -/
theorem fragmentsJoin_mem (cs : List Node) :
    ∀ x ∈ fragmentsJoin cs, ∃ c ∈ cs, Retext c x ∧ x.kind.isMarker = false := by
  intro x hx
  unfold fragmentsJoin at hx
  have hx := (List.mem_filter.mp hx).1
  have key : ∃ c' ∈ pass1 cs, Retext c' x := by
    cases hp : pass1 cs with
    | nil => rw [hp] at hx; simp [mergeAll] at hx
    | cons c r => rw [hp] at hx; exact mergeLoop_mem c r x hx
  obtain ⟨c', hc', hr⟩ := key
  unfold pass1 at hc'
  obtain ⟨c, hc, rfl⟩ := List.mem_map.mp hc'
  have hm := markerToText_spec c
  exact ⟨c, hc, hm.1.trans hr, hr.notMarker hm.2⟩

theorem joinNode_eq (n : Node) : joinNode n = { n with children := joinList (fragmentsJoin n.children) } := by
  rw [joinNode]

theorem joinList_eq_map (l : List Node) : joinList l = l.map joinNode := by
  induction l with
  | nil => rw [joinList]; rfl
  | cons c cs ih => rw [joinList, ih]; rfl

theorem nsize_le_of_mem {c : Node} {l : List Node} (h : c ∈ l) : nsize c ≤ nsizeList l := by
  induction l with
  | nil => simp at h
  | cons x xs ih =>
    simp only [nsizeList]
    rcases List.mem_cons.mp h with rfl | h
    · omega
    · have := ih h; omega

theorem Retext.every {P : Node → Prop} {c c' : Node} (h : Retext c c') (hp : P c') (he : Every P c) :
    Every P c' :=
  .mk _ hp (by rw [h.1]; exact he.child)

theorem kindOK_text (markers : Bool) {n : Node} (h : n.isText = true) : KindOK markers n.kind := by
  have := isMarker_of_isText h
  cases hk : n.kind with
  | blk k => unfold Node.isText at h; rw [hk] at h; simp at h
  | inl v => rw [hk] at this; simp only [KindOK]; intro hc; rw [hc] at this; cases this

theorem joinNode_every_aux (k : Nat) : ∀ n : Node, nsize n ≤ k → Every (Spliced true) n →
    n.kind.isMarker = false → Every (Spliced false) (joinNode n) := by
  induction k with
  | zero => intro n hn; rw [nsize_eq] at hn; omega
  | succ k ih =>
    intro n hn he hm
    rw [joinNode_eq, joinList_eq_map]
    refine .mk _ ⟨he.here.1, ?_⟩ ?_
    · have := he.here.2
      simp only
      cases hk : n.kind with
      | blk b => rw [hk] at this; exact this
      | inl v => simp only [KindOK]; intro hc; rw [hk] at hm; rw [hm] at hc; cases hc
    · intro y hy
      simp only at hy
      obtain ⟨x, hx, rfl⟩ := List.mem_map.mp hy
      obtain ⟨c, hc, hr, hxm⟩ := fragmentsJoin_mem _ x hx
      have hec := he.child c hc
      have hpx : Spliced true x := by
        refine ⟨by rw [hr.2.1]; exact hec.here.1, ?_⟩
        rcases hr.2.2 with e | ⟨e, _⟩
        · rw [e]; exact hec.here.2
        · exact kindOK_text true e
      have hsz : nsize x ≤ k := by
        have h1 : nsize x = nsize c := by rw [nsize_eq, nsize_eq, hr.1]
        have h2 := nsize_le_of_mem hc
        rw [nsize_eq] at hn
        omega
      exact ih x hsz (hr.every hpx hec) hxm

/-- after `FragmentsJoin::run` no `EmphMarker` is left anywhere in the document -/
theorem joinNode_every {n : Node} (he : Every (Spliced true) n) (hm : n.kind.isMarker = false) :
    Every (Spliced false) (joinNode n) :=
  joinNode_every_aux _ n (Nat.le_refl _) he hm

theorem joinNode_kind (n : Node) : (joinNode n).kind = n.kind := by rw [joinNode_eq]

/-! ## step 3: `SyntaxPosRule` -/

/-- the condition on a node of the tree `parseDoc` returns: every attribute is a `data-sourcepos`,
    the value is final -/
def Final (n : Node) : Prop := (∀ nv ∈ n.attrs, nv.1 = aSourcepos) ∧ KindOK false n.kind

theorem Spliced.final {n : Node} (h : Spliced false n) : Final n :=
  ⟨by rw [h.1]; simp, h.2⟩

/-- the callback never panics (`C15.getPositions_spec`) and pushes exactly the positions of the
    specification of C15 -/
theorem sourceposAttrs_eq (src : List Char) (range : Option (Nat × Nat))
    (attrs : List (List Char × List Char)) :
    sourceposAttrs src (SourceMap.mkMarks src) range attrs =
      .ok (match range with
           | none => attrs
           | some r => attrs ++ [(aSourcepos, sourceposValue (SourceMap.specRange src r))]) := by
  unfold sourceposAttrs
  cases range with
  | none => rfl
  | some r => obtain ⟨a, b⟩ := r; simp only [SourceMap.getPositions_spec]

theorem sourceposAttrs_names {src : List Char} {marks : List SourceMap.Mark} {range : Option (Nat × Nat)}
    {a a' : List (List Char × List Char)} (h : sourceposAttrs src marks range a = .ok a')
    (ha : ∀ nv ∈ a, nv.1 = aSourcepos) : ∀ nv ∈ a', nv.1 = aSourcepos := by
  unfold sourceposAttrs at h
  split at h
  · cases h; exact ha
  · split at h
    · cases h
    · cases h
      intro nv hnv
      rcases List.mem_append.mp hnv with h1 | h1
      · exact ha nv h1
      · simp at h1; subst h1; rfl

mutual
theorem sourceposNode_every {src : List Char} {marks : List SourceMap.Mark} (t t' : Node)
    (he : Every Final t) (h : sourceposNode src marks t = .ok t') : Every Final t' ∧ t'.kind = t.kind := by
  match t with
  | ⟨k, r, a, cs⟩ =>
    simp only [sourceposNode] at h
    split at h
    · cases h
    · rename_i a' ha
      split at h
      · cases h
      · rename_i cs' hcs
        cases h
        exact ⟨.mk _ ⟨sourceposAttrs_names ha he.here.1, he.here.2⟩
          (sourceposList_every cs cs' he.child hcs), rfl⟩
theorem sourceposList_every {src : List Char} {marks : List SourceMap.Mark} (cs cs' : List Node)
    (he : ∀ c ∈ cs, Every Final c) (h : sourceposList src marks cs = .ok cs') :
    ∀ c ∈ cs', Every Final c := by
  match cs with
  | [] => simp [sourceposList] at h; subst h; simp
  | c :: r =>
    simp only [sourceposList] at h
    split at h
    · cases h
    · rename_i c' hc
      split at h
      · cases h
      · rename_i r' hr
        cases h
        intro x hx
        rcases List.mem_cons.mp hx with rfl | hx
        · exact (sourceposNode_every c _ (he c (by simp)) hc).1
        · exact sourceposList_every r r' (fun y hy => he y (List.mem_cons_of_mem _ hy)) hr x hx
end

mutual
/-- `SyntaxPosRule` never panics -/
theorem sourceposNode_total (src : List Char) (t : Node) :
    ∃ t', sourceposNode src (SourceMap.mkMarks src) t = .ok t' := by
  match t with
  | ⟨k, r, a, cs⟩ =>
    obtain ⟨cs', hcs⟩ := sourceposList_total src cs
    simp only [sourceposNode, sourceposAttrs_eq, hcs]
    exact ⟨_, rfl⟩
theorem sourceposList_total (src : List Char) (cs : List Node) :
    ∃ cs', sourceposList src (SourceMap.mkMarks src) cs = .ok cs' := by
  match cs with
  | [] => exact ⟨[], rfl⟩
  | c :: r =>
    obtain ⟨c', hc⟩ := sourceposNode_total src c
    obtain ⟨r', hr⟩ := sourceposList_total src r
    simp only [sourceposList, hc, hr]
    exact ⟨_, rfl⟩
end

/-! ## step 4: the projection to `NodeRender.Node` -/

mutual
theorem toRender_nodes (lp : List Char) (t : Node) (he : Every Final t) :
    ∀ m ∈ NodeRender.nodes (toRender lp t), ∃ k, m.kind = Kind.toRender lp k ∧ KindOK false k ∧
      ∀ nv ∈ m.attrs, nv.1 = aSourcepos := by
  match t with
  | ⟨k, r, a, cs⟩ =>
    intro m hm
    simp only [toRender, NodeRender.nodes, List.mem_cons] at hm
    rcases hm with rfl | hm
    · exact ⟨k, rfl, he.here.2, he.here.1⟩
    · exact toRenderList_nodes lp cs he.child m hm
theorem toRenderList_nodes (lp : List Char) (cs : List Node) (he : ∀ c ∈ cs, Every Final c) :
    ∀ m ∈ NodeRender.nodesList (toRenderList lp cs), ∃ k, m.kind = Kind.toRender lp k ∧ KindOK false k ∧
      ∀ nv ∈ m.attrs, nv.1 = aSourcepos := by
  match cs with
  | [] => simp [toRenderList, NodeRender.nodesList]
  | c :: r =>
    intro m hm
    simp only [toRenderList, NodeRender.nodesList, List.mem_append] at hm
    rcases hm with hm | hm
    · exact toRender_nodes lp c (he c (by simp)) m hm
    · exact toRenderList_nodes lp r (fun y hy => he y (List.mem_cons_of_mem _ hy)) m hm
end

/-- the model has no html kinds: no value projects to `HtmlBlock` / `HtmlInline` -/
theorem toRender_not_html (lp : List Char) (k : Kind) :
    (∀ c, Kind.toRender lp k ≠ .htmlBlock c) ∧ (∀ c, Kind.toRender lp k ≠ .htmlInline c) := by
  constructor <;> intro c h
  all_goals (
    cases k with
    | blk b => cases b <;> simp [Kind.toRender] at h
    | inl v =>
      cases v with
      | wrap w m => cases w <;> simp [Kind.toRender] at h
      | _ => simp [Kind.toRender] at h)

/-- a final value projects to a kind whose `render` does not panic -/
theorem toRender_level (lp : List Char) (k : Kind) (hk : KindOK false k) :
    (∀ l, Kind.toRender lp k = .atx l → 1 ≤ l ∧ l ≤ 6) ∧
    (∀ l, Kind.toRender lp k = .setext l → 1 ≤ l ∧ l ≤ 2) ∧ Kind.toRender lp k ≠ .placeholder := by
  cases k with
  | blk b =>
    cases b <;> simp only [Kind.toRender, KindOK, BlkOK] at hk ⊢ <;> simp
    all_goals (first | exact hk | (intro l e; subst e; exact hk))
  | inl v =>
    cases v with
    | wrap w m => cases w <;> simp [Kind.toRender]
    | emphMarker m l r o c => simp [KindOK, Kind.isMarker] at hk
    | _ => simp [Kind.toRender]

/-- **From the tree invariant to the three hypotheses of `NodeRender.safe_output`.** -/
theorem final_hyps (lp : List Char) (t : Node) (he : Every Final t) :
    NodeRender.Renderable (toRender lp t) ∧ NodeRender.HtmlFree (toRender lp t) ∧
      NodeRender.AttrsSourcepos (toRender lp t) := by
  apply NodeRender.hyps_of_all_nodes
  · intro m hm
    obtain ⟨k, hk, hok, _⟩ := toRender_nodes lp t he m hm
    rw [hk]
    exact toRender_level lp k hok
  · intro m hm
    obtain ⟨k, hk, _, _⟩ := toRender_nodes lp t he m hm
    rw [hk]
    exact toRender_not_html lp k
  · intro m hm
    obtain ⟨k, _, _, ha⟩ := toRender_nodes lp t he m hm
    exact ha

/-! ## the tree `parseDoc` returns -/

theorem hasEmph_inlineCfg (cfg : DocCfg) (refs : Refs.RefMap) : (cfg.inlineCfg refs).hasEmph = cfg.hasJoin := rfl

/-- **The invariant of the parsed tree.**  Whatever `parseDoc` returns is rooted at `Root` and every
    node of it, at any depth, is `Final`: its attributes are all `data-sourcepos` and its value is
    final — no `InlineRoot` (`spliceList_every`: the walk replaces every one; the analogue of
    `C14.splice_removes_inlineroot` with the real inline parser plugged in), no `EmphMarker`
    (`joinNode_every` when an emphasis-like rule is configured, `Inline.notMarker_good` when none is: then
    no rule creates one), ATX levels in `1..6`, setext levels in `1..2` (`Block.parseBlocks_wf`).
    For EVERY configuration (any chains, any `max_nesting`, with or without `sourcepos`). -/
theorem parseDoc_final {cfg : DocCfg} {src : List Char} {t : Node} (h : parseDoc cfg src = .ok t) :
    Every Final t ∧ t.kind = .blk .root := by
  unfold parseDoc at h
  split at h
  · cases h
  · rename_i root refs hb
    obtain ⟨hroot, hwf⟩ := Block.parseBlocks_wf hb
    unfold afterBlocks at h
    split at h
    · cases h
    · rename_i t0 hs
      obtain ⟨he0, hk0⟩ := spliceNode_every hwf hroot hs
      rw [hasEmph_inlineCfg] at he0
      -- after the (optional) join pass
      have h1 : Every (Spliced false) (if cfg.hasJoin = true then joinNode t0 else t0) ∧
          (if cfg.hasJoin = true then joinNode t0 else t0).kind = .blk .root := by
        cases hj : cfg.hasJoin with
        | true =>
          rw [hj] at he0
          simp only [if_true]
          exact ⟨joinNode_every he0 (by rw [hk0]; rfl), by rw [joinNode_kind, hk0]⟩
        | false =>
          rw [hj] at he0
          simp only [Bool.false_eq_true, if_false]
          exact ⟨he0, hk0⟩
      have h2 := h1.1.imp (fun n => Spliced.final)
      simp only at h
      split at h
      · obtain ⟨h3, h4⟩ := sourceposNode_every _ _ h2 h
        exact ⟨h3, by rw [h4]; exact h1.2⟩
      · cases h
        exact ⟨h2, h1.2⟩

/-- a panic of `parseDoc` is a panic of the block pass or of one of the inline runs: the splice
    walk, the join pass and `SyntaxPosRule` add none (`C15.getPositions_spec`) -/
theorem parseDoc_panic {cfg : DocCfg} {src : List Char} {e : Panic} (h : parseDoc cfg src = .error e) :
    (∃ p, e = .block p) ∨ (∃ p, e = .inline p) := by
  unfold parseDoc at h
  split at h
  · cases h; exact .inl ⟨_, rfl⟩
  · rename_i root refs hb
    unfold afterBlocks at h
    split at h
    · rename_i e' he'
      cases h
      exact .inr (spliceNode_panic _ _ he')
    · simp only at h
      split at h
      · obtain ⟨t', ht'⟩ := sourceposNode_total src (if cfg.hasJoin = true then joinNode _ else _)
        rw [ht'] at h
        cases h
      · cases h

/-! ## 1. `doc_output_html_free` -/

/-- **`doc_output_html_free`.**  For every configuration of the model (html-free by construction:
    its chains range over the nine cmark block rules and the ten html-free inline rules, in any
    subset and order) and every source: the parsed tree has no `HtmlBlock` / `HtmlInline` node (the
    parser model cannot create one), and the only attribute any node carries is `data-sourcepos`
    (`ol start`, `code class`, `a href title`, `img src alt title` are produced inside `render`). -/
theorem doc_output_html_free (cfg : DocCfg) (src : List Char) (t : Node) (h : parseDoc cfg src = .ok t) :
    NodeRender.HtmlFree (toRender cfg.langPrefix t) ∧ NodeRender.AttrsSourcepos (toRender cfg.langPrefix t) :=
  have := final_hyps cfg.langPrefix t (parseDoc_final h).1
  ⟨this.2.1, this.2.2⟩

/-! ## 2. `doc_output_renderable`, `doc_render_total` -/

/-- **`doc_output_renderable`.**  NO condition on the configuration is needed: for every chain pair,
    every `max_nesting`, with or without `sourcepos`, the parsed tree is `Renderable` — every ATX level
    is in `1..6` and every setext level in `1..2` (block model: `Block.parseBlocks_wf`), every
    `InlineRoot` has been replaced (`spliceList_every`), and no `EmphMarker` is left: WITH an
    emphasis-like rule `FragmentsJoin` is in the core chain and turns every one into text
    (`joinNode_every`; cf. `Inline.no_placeholder_after_finish`), WITHOUT one there is no join pass and
    no marker is ever created (`Inline.notMarker_good`). -/
theorem doc_output_renderable (cfg : DocCfg) (src : List Char) (t : Node) (h : parseDoc cfg src = .ok t) :
    NodeRender.Renderable (toRender cfg.langPrefix t) :=
  (final_hyps cfg.langPrefix t (parseDoc_final h).1).1

/-- **`doc_render_total`.**  `render` / `xrender` of a parsed tree never panic: no
    `unimplemented!` (placeholder), no `TAG[level - 1]` out of range, no panic in `unescape_all`. -/
theorem doc_render_total (cfg : DocCfg) (src : List Char) (t : Node) (h : parseDoc cfg src = .ok t) :
    ∃ evs, NodeRender.render cfg.entity (toRender cfg.langPrefix t) = .ok evs ∧
      renderEvents cfg t = .ok evs ∧ ∀ x, renderDoc x cfg src = .ok (Render.serialize x evs) := by
  obtain ⟨evs, he⟩ := (NodeRender.render_total cfg.entity _).mpr (doc_output_renderable cfg src t h)
  refine ⟨evs, he, by simp [renderEvents, he], fun x => ?_⟩
  simp [renderDoc, h, renderEvents, he]

/-- the only panics of the whole pipeline `src ↦ html` are those of the block pass and of the
    inline runs -/
theorem renderDoc_panic {x : Bool} {cfg : DocCfg} {src : List Char} {e : Panic}
    (h : renderDoc x cfg src = .error e) : (∃ p, e = .block p) ∨ (∃ p, e = .inline p) := by
  unfold renderDoc at h
  split at h
  · rename_i e' he'; cases h; exact parseDoc_panic he'
  · rename_i t ht
    obtain ⟨evs, _, he, _⟩ := doc_render_total cfg src t ht
    rw [he] at h
    cases h

/-! ## 3. `doc_safe_output` (C03 at document level) -/

open MdIt.Render in
/-- the safe output language of C03, as a predicate on the returned string: it is the flattening
    of a `WellFormed` piece list over the fixed vocabulary `NodeRender.shippedVocab` (known elements,
    per-element attribute names, properly nested and closed), every character agrees with the role
    its position has, every `<` is the first and every `>` the last character of a tag piece, every
    `&` starts one of `&amp; &lt; &gt; &quot;` -/
def SafeHtml (out : List Char) : Prop :=
  ∃ ps, out = flattenP ps ∧ WellFormed NodeRender.shippedVocab ps ∧
    ((flattenP ps).length = (rolesP ps).length ∧
      ∀ (i : Nat) (c : Char), (flattenP ps)[i]? = some c → ∃ r, (rolesP ps)[i]? = some r ∧ Agree c r) ∧
    (∀ i, (flattenP ps)[i]? = some '<' →
      ∃ pre p post, ps = pre ++ p :: post ∧ p.isTag = true ∧ i = (flattenP pre).length) ∧
    (∀ i, (flattenP ps)[i]? = some '>' →
      ∃ pre p post, ps = pre ++ p :: post ∧ p.isTag = true ∧
        i + 1 = (flattenP pre).length + p.str.length) ∧
    (∀ i, (flattenP ps)[i]? = some '&' → StartsEntity ((flattenP ps).drop i))

/-- **`doc_safe_output` (C03 for documents).**  For EVERY configuration of the model (any subset /
    order of the html-free rules, any `max_nesting`, with and without `data-sourcepos`) and EVERY
    source the parser model accepts: rendering does not panic and, in HTML and in XHTML mode, the
    returned string is in the safe output language `SafeHtml` — by `NodeRender.safe_output`, whose
    three hypotheses are `doc_output_renderable` and `doc_output_html_free`.  No input can inject an
    element, an attribute or an unescaped quote. -/
theorem doc_safe_output (cfg : DocCfg) (src : List Char) (t : Node) (h : parseDoc cfg src = .ok t) :
    ∀ x : Bool, ∃ out, renderDoc x cfg src = .ok out ∧ SafeHtml out := by
  obtain ⟨hr, hf, ha⟩ := final_hyps cfg.langPrefix t (parseDoc_final h).1
  obtain ⟨evs, he, hx⟩ := NodeRender.safe_output cfg.entity _ hr hf ha
  intro x
  obtain ⟨_, ps, hser, _, hwf, h1, h2, h3, h4⟩ := hx x
  refine ⟨Render.serialize x evs, ?_, ps, hser, hwf, h1, h2, h3, h4⟩
  simp [renderDoc, h, renderEvents, he]

/-- the same without mentioning the tree: whenever `renderDoc` returns, what it returns is safe -/
theorem doc_safe_output' (x : Bool) (cfg : DocCfg) (src : List Char) (out : List Char)
    (h : renderDoc x cfg src = .ok out) : SafeHtml out := by
  cases hp : parseDoc cfg src with
  | error e => simp [renderDoc, hp] at h
  | ok t =>
    obtain ⟨out', h1, h2⟩ := doc_safe_output cfg src t hp x
    rw [h] at h1
    cases h1
    exact h2

/-! ## 4. `doc_deterministic`, `doc_pure` (C07 at document level) -/

/-- **`doc_deterministic`.**  Tree and HTML are functions of `(cfg, src)`: two runs agree. -/
theorem doc_deterministic (cfg : DocCfg) (src : List Char) (x : Bool)
    (r₁ r₂ : Except Panic Node) (h₁ h₂ : Except Panic (List Char))
    (e₁ : parseDoc cfg src = r₁) (e₂ : parseDoc cfg src = r₂)
    (f₁ : renderDoc x cfg src = h₁) (f₂ : renderDoc x cfg src = h₂) : r₁ = r₂ ∧ h₁ = h₂ :=
  ⟨e₁.symm.trans e₂, f₁.symm.trans f₂⟩

/-- **`doc_pure`.**  One parser value, any history: the result for `src` in a sequence of documents
    parsed one after the other with the same configuration is the result of a fresh parse — whatever
    was parsed before (`before`) or is parsed afterwards.  (`parseDoc` has no state argument and no
    result besides the tree, so the sequence IS `map`.  That the chains `cfg` holds — the lazily
    compiled `Ruler`s and the text scanner's stop set — are themselves functions of the plugin
    configuration only is `Props/C07`, `Props/C08`, `Props/C09`.) -/
theorem doc_pure (cfg : DocCfg) (before after : List (List Char)) (src : List Char) (x : Bool) :
    ((before ++ src :: after).map (parseDoc cfg))[before.length]? = some (parseDoc cfg src) ∧
    ((before ++ src :: after).map (renderDoc x cfg))[before.length]? = some (renderDoc x cfg src) := by
  simp

/-- **The per-document state is local (block pass).**  The reference map the inline runs of a
    document consult is the one its own block pass built, starting from the EMPTY map of
    `BlockState::new` on a fresh `Root` (`root_env` is created in `MarkdownIt::parse`): no definition
    of another document can be seen. -/
theorem doc_refs_local (cfg : DocCfg) (src : List Char) :
    (Block.BState.fresh src .root []).refs = [] ∧
    parseDoc cfg src =
      match Block.tokenize cfg.blockCfg (Block.fuelFor cfg.blockCfg src) (Block.BState.fresh src .root []) with
      | .error e => .error (.block e)
      | .ok s => afterBlocks cfg src ⟨s.nodeKind, some (0, Lines.byteLen src), s.children⟩ s.refs := by
  refine ⟨rfl, ?_⟩
  unfold parseDoc Block.parseBlocks
  split <;> rename_i h <;> split at h <;> simp_all

/-- **The per-paragraph state is local (inline pass).**  Every `InlineRoot` is parsed from a fresh
    `InlineState`: empty `skip_token` memo, empty code-span cache, no `OpenersBottom`, no children,
    level 0 — nothing of another paragraph (or document) is visible to it. -/
theorem inline_state_local (icfg : Inline.Cfg) (content : List Char) (mapping : InlineOps.Srcmap) :
    (Inline.IState.init content mapping).cache = [] ∧
    (Inline.IState.init content mapping).backticks = CodePair.Cache.empty ∧
    (Inline.IState.init content mapping).bottoms = [] ∧
    (Inline.IState.init content mapping).children = [] ∧
    (Inline.IState.init content mapping).level = 0 ∧
    Inline.parseInline icfg content mapping =
      match Inline.tokenize icfg (Inline.topFuel icfg content) (Inline.IState.init content mapping) with
      | .error e => .error e
      | .ok st => .ok st.children :=
  ⟨rfl, rfl, rfl, rfl, rfl, rfl⟩

/-! ## 5. `doc_tree_wf` (C14 at document level) -/

def Kind.isList : Kind → Bool
  | .blk (.bulletList _) => true
  | .blk (.orderedList _ _) => true
  | _ => false

/-- the leaf blocks with inline content -/
def Kind.isTextBlock : Kind → Bool
  | .blk .paragraph => true
  | .blk (.atx _) => true
  | .blk (.setext _ _) => true
  | _ => false

/-- the leaf blocks without children -/
def Kind.isBlockLeaf : Kind → Bool
  | .blk (.hr _ _) => true
  | .blk (.codeBlock _) => true
  | .blk (.codeFence _ _ _ _) => true
  | _ => false

def Kind.isInlineRoot : Kind → Bool
  | .blk (.inlineRoot _ _) => true
  | _ => false

def Kind.isTextK : Kind → Bool
  | .inl (.text _) => true
  | _ => false

/-- no `Text` with empty content among the siblings -/
def NoEmptyTextK (ks : List Kind) : Prop := Kind.inl (.text []) ∉ ks

/-- no two adjacent `Text` siblings -/
def NoAdjTextK : List Kind → Prop
  | [] => True
  | k :: r => (∀ k', r.head? = some k' → ¬ (k.isTextK = true ∧ k'.isTextK = true)) ∧ NoAdjTextK r

/-- **The local well-formedness condition of C14** on a node of kind `k` whose children have the
    kinds `ks` (in order).  `para`: the paragraph rule is configured (the quantifier of C14);
    `markers`: `EmphMarker`s are still allowed (the tree before `FragmentsJoin`); `nf`: the text normal
    form is claimed. -/
structure LocK (para markers nf : Bool) (k : Kind) (ks : List Kind) : Prop where
  /-- no `InlineRoot` placeholder -/
  noInlRoot : k.isInlineRoot = false
  /-- no `EmphMarker` placeholder -/
  noMarker : k.isMarker = true → markers = true
  /-- `Root` is nobody's child -/
  noRoot : Kind.blk .root ∉ ks
  /-- lists contain list items only -/
  listKids : k.isList = true → ∀ c ∈ ks, c = .blk .listItem
  /-- list items occur under lists only -/
  itemParent : Kind.blk .listItem ∈ ks → k.isList = true
  /-- inline nodes occur only under paragraphs / headings, (tight) list items and inline nodes -/
  inlinePlace : para = true → ∀ c ∈ ks, c.isInline = true →
    k.isTextBlock = true ∨ k = .blk .listItem ∨ k.isInline = true
  /-- an inline node has inline children only -/
  inlineKids : k.isInline = true → ∀ c ∈ ks, c.isInline = true
  /-- a paragraph / heading has inline children only -/
  textBlockKids : k.isTextBlock = true → ∀ c ∈ ks, c.isInline = true
  /-- thematic breaks, code blocks and fences are childless -/
  blockLeaf : k.isBlockLeaf = true → ks = []
  /-- no empty `Text`, no two adjacent `Text`s -/
  textNF : nf = true → NoEmptyTextK ks ∧ NoAdjTextK ks

def kinds (cs : List Node) : List Kind := cs.map (·.kind)

def LocN (para markers nf : Bool) (n : Node) : Prop := LocK para markers nf n.kind (kinds n.children)

/-- the well-formedness predicate of C14 on a document tree: `Root` on top, `LocK` at every node -/
def WF (para nf : Bool) (t : Node) : Prop := t.kind = .blk .root ∧ Every (LocN para false nf) t

theorem mem_kinds {cs : List Node} {k : Kind} : k ∈ kinds cs ↔ ∃ c ∈ cs, c.kind = k := by
  simp [kinds]

/-! ### step 1: the splice walk -/

/-- an inline node over inline children -/
theorem locK_inline {para markers : Bool} {k : Kind} {ks : List Kind} (hk : k.isInline = true)
    (hm : k.isMarker = true → markers = true) (hks : ∀ c ∈ ks, c.isInline = true) :
    LocK para markers false k ks := by
  cases k with
  | blk b => cases hk
  | inl v =>
    refine ⟨rfl, hm, ?_, ?_, ?_, ?_, fun _ => hks, ?_, ?_, ?_⟩
    · intro h; cases hks _ h
    · intro h; cases h
    · intro h; cases hks _ h
    · intro _ _ _ _; exact .inr (.inr rfl)
    · intro h; cases h
    · intro h; cases h
    · intro h; cases h

mutual
theorem ofInline_kind (n : Inline.Node) : (ofInline n).kind = .inl n.val := by
  match n with
  | ⟨v, r, cs⟩ => rfl
theorem ofInlineList_inline (cs : List Inline.Node) : ∀ c ∈ ofInlineList cs, c.kind.isInline = true := by
  match cs with
  | [] => simp [ofInlineList]
  | c :: r =>
    intro x hx
    simp only [ofInlineList, List.mem_cons] at hx
    rcases hx with rfl | hx
    · rw [ofInline_kind]; rfl
    · exact ofInlineList_inline r x hx
end

theorem kinds_inline {cs : List Node} (h : ∀ c ∈ cs, c.kind.isInline = true) :
    ∀ k ∈ kinds cs, k.isInline = true := by
  intro k hk
  obtain ⟨c, hc, rfl⟩ := mem_kinds.mp hk
  exact h c hc

mutual
theorem ofInline_wf {para : Bool} {icfg : Inline.Cfg} (n : Inline.Node)
    (h : Inline.AllVals (ValOK icfg) n) : Every (LocN para icfg.hasEmph false) (ofInline n) := by
  match n with
  | ⟨v, r, cs⟩ =>
    rw [Inline.AllVals_eq] at h
    have hsp := (ofInline_every (icfg := icfg) ⟨v, r, cs⟩ (by rw [Inline.AllVals_eq]; exact h)).here.2
    unfold ofInline at hsp ⊢
    refine .mk _ ?_ (ofInlineList_wf cs h.2)
    exact locK_inline rfl (by simpa [KindOK] using hsp) (kinds_inline (ofInlineList_inline cs))
theorem ofInlineList_wf {para : Bool} {icfg : Inline.Cfg} (cs : List Inline.Node)
    (h : Inline.AllValsList (ValOK icfg) cs) :
    ∀ c ∈ ofInlineList cs, Every (LocN para icfg.hasEmph false) c := by
  match cs with
  | [] => simp [ofInlineList]
  | c :: r =>
    simp only [Inline.AllValsList] at h
    intro x hx
    simp only [ofInlineList, List.mem_cons] at hx
    rcases hx with rfl | hx
    · exact ofInline_wf c h.1
    · exact ofInlineList_wf r h.2 x hx
end

/-- is the block value the `InlineRoot` placeholder -/
def IsInl (k : Block.Kind) : Prop := ∃ t m, k = .inlineRoot t m

theorem spliceNode_kind {icfg : Inline.Cfg} {b : Block.BNode} {t : Node} (h : spliceNode icfg b = .ok t) :
    t.kind = .blk b.kind := by
  obtain ⟨k, r, cs⟩ := b
  simp only [spliceNode] at h
  split at h
  · cases h
  · cases h; rfl

/-- where the kinds of the spliced children come from: an inline kind stands for (part of) an
    `InlineRoot` child, any other kind is the kind of a non-placeholder child -/
theorem spliceList_kinds {icfg : Inline.Cfg} : ∀ (cs : List Block.BNode) (out : List Node),
    spliceList icfg cs = .ok out → ∀ k' ∈ kinds out,
      (k'.isInline = true ∧ ∃ c ∈ cs, IsInl c.kind) ∨ (∃ c ∈ cs, k' = .blk c.kind ∧ ¬ IsInl c.kind)
  | [], out, h => by simp [spliceList] at h; subst h; simp [kinds]
  | c :: rest, out, h => by
    simp only [spliceList] at h
    split at h
    · rename_i content mapping hck
      split at h
      · cases h
      · rename_i ns hns
        split at h
        · cases h
        · rename_i rest' hr
          cases h
          intro k' hk'
          obtain ⟨x, hx, rfl⟩ := mem_kinds.mp hk'
          rcases List.mem_append.mp hx with h1 | h1
          · exact .inl ⟨ofInlineList_inline ns x h1, c, by simp, ⟨content, mapping, hck⟩⟩
          · rcases spliceList_kinds rest rest' hr x.kind (mem_kinds.mpr ⟨x, h1, rfl⟩) with
              ⟨hi, c', hc', hci⟩ | ⟨c', hc', hk, hci⟩
            · exact .inl ⟨hi, c', List.mem_cons_of_mem _ hc', hci⟩
            · exact .inr ⟨c', List.mem_cons_of_mem _ hc', hk, hci⟩
    · rename_i hne
      split at h
      · cases h
      · rename_i c' hc
        split at h
        · cases h
        · rename_i rest' hr
          cases h
          intro k' hk'
          obtain ⟨x, hx, rfl⟩ := mem_kinds.mp hk'
          rcases List.mem_cons.mp hx with rfl | h1
          · exact .inr ⟨c, by simp, spliceNode_kind hc, fun ⟨t, m, e⟩ => hne t m e⟩
          · rcases spliceList_kinds rest rest' hr x.kind (mem_kinds.mpr ⟨x, h1, rfl⟩) with
              ⟨hi, c', hc', hci⟩ | ⟨c', hc', hk, hci⟩
            · exact .inl ⟨hi, c', List.mem_cons_of_mem _ hc', hci⟩
            · exact .inr ⟨c', List.mem_cons_of_mem _ hc', hk, hci⟩

theorem oneInl_all {cs : List Block.BNode} (h : Block.OneInl cs) : ∀ c ∈ cs, IsInl c.kind := by
  obtain ⟨t, m, rfl⟩ := h
  intro c hc
  simp at hc
  subst hc
  exact ⟨t, m, rfl⟩

/-- a block node over its spliced children -/
theorem locK_block {para markers : Bool} {k : Block.Kind} {cs : List Block.BNode} {ks : List Kind}
    (hloc : Block.LocB para k cs) (hk : ¬ IsInl k) (hnil : cs = [] → ks = [])
    (hks : ∀ k' ∈ ks, (k'.isInline = true ∧ ∃ c ∈ cs, IsInl c.kind) ∨
      (∃ c ∈ cs, k' = .blk c.kind ∧ ¬ IsInl c.kind)) :
    LocK para markers false (.blk k) ks := by
  -- three facts about the children's kinds, by cases on `k`
  have noItemInl : ∀ c ∈ cs, c.kind = .listItem → ¬ IsInl c.kind := by
    intro c _ e ⟨t, m, e'⟩; rw [e] at e'; cases e'
  -- a list item among the new kinds comes from a list item among the old children
  have item_src : Kind.blk .listItem ∈ ks → ∃ c ∈ cs, c.kind = .listItem := by
    intro h
    rcases hks _ h with ⟨hi, _⟩ | ⟨c, hc, e, _⟩
    · cases hi
    · exact ⟨c, hc, by injection e with e; exact e.symm⟩
  -- an inline kind among the new kinds comes from a placeholder among the old children
  have inl_src : ∀ k' ∈ ks, k'.isInline = true → ∃ c ∈ cs, IsInl c.kind := by
    intro k' hk' hi
    rcases hks _ hk' with ⟨_, h⟩ | ⟨c, _, e, _⟩
    · exact h
    · rw [e] at hi; cases hi
  refine ⟨?_, (by intro h; cases h), ?_, ?_, ?_, ?_, (by intro h; cases h), ?_, ?_, (by intro h; cases h)⟩
  · cases k <;> first | rfl | exact absurd ⟨_, _, rfl⟩ hk
  · intro h
    rcases hks _ h with ⟨hi, _⟩ | ⟨c, hc, e, _⟩
    · cases hi
    · injection e with e; exact hloc.1 c hc e.symm
  · intro hl k' hk'
    have hall : ∀ c ∈ cs, c.kind = .listItem := by
      cases k <;> simp [Kind.isList] at hl <;> exact hloc.2
    rcases hks _ hk' with ⟨_, c, hc, hci⟩ | ⟨c, hc, e, _⟩
    · exact absurd hci (noItemInl c hc (hall c hc))
    · rw [e, hall c hc]
  · intro h
    obtain ⟨c, hc, hci⟩ := item_src h
    cases k
    case bulletList => rfl
    case orderedList => rfl
    case atx l => exact absurd (oneInl_all hloc.2.2 c hc) (noItemInl c hc hci)
    case setext l m => exact absurd (oneInl_all hloc.2.2 c hc) (noItemInl c hc hci)
    case paragraph => exact absurd (oneInl_all hloc.2 c hc) (noItemInl c hc hci)
    case hr => have := hloc.2; simp only at this; rw [this] at hc; cases hc
    case codeBlock => have := hloc.2; simp only at this; rw [this] at hc; cases hc
    case codeFence => have := hloc.2; simp only at this; rw [this] at hc; cases hc
    case inlineRoot => exact absurd ⟨_, _, rfl⟩ hk
    case listItem => exact absurd hci (hloc.2 c hc)
    case root => exact absurd hci (hloc.2 c hc).1
    case blockquote => exact absurd hci (hloc.2 c hc).1
  · intro hp k' hk' hi
    obtain ⟨c, hc, t, m, hci⟩ := inl_src k' hk' hi
    cases k
    case atx => exact .inl rfl
    case setext => exact .inl rfl
    case paragraph => exact .inl rfl
    case listItem => exact .inr (.inl rfl)
    case bulletList => have := hloc.2 c hc; rw [hci] at this; cases this
    case orderedList => have := hloc.2 c hc; rw [hci] at this; cases this
    case hr => have := hloc.2; simp only at this; rw [this] at hc; cases hc
    case codeBlock => have := hloc.2; simp only at this; rw [this] at hc; cases hc
    case codeFence => have := hloc.2; simp only at this; rw [this] at hc; cases hc
    case inlineRoot => exact absurd ⟨_, _, rfl⟩ hk
    case root => exact absurd hci ((hloc.2 c hc).2 hp t m)
    case blockquote => exact absurd hci ((hloc.2 c hc).2 hp t m)
  · intro htb k' hk'
    have hall : ∀ c ∈ cs, IsInl c.kind := by
      cases k <;> simp [Kind.isTextBlock] at htb
      · exact oneInl_all hloc.2
      · exact oneInl_all hloc.2.2
      · exact oneInl_all hloc.2.2
    rcases hks _ hk' with ⟨hi, _⟩ | ⟨c, hc, _, hci⟩
    · exact hi
    · exact absurd (hall c hc) hci
  · intro hl
    apply hnil
    cases k <;> simp [Kind.isBlockLeaf] at hl <;> exact hloc.2

theorem spliceList_nil {icfg : Inline.Cfg} {out : List Node} (h : spliceList icfg [] = .ok out) : out = [] := by
  simp [spliceList] at h; exact h

mutual
theorem spliceNode_wf' {para : Bool} {icfg : Inline.Cfg} (b : Block.BNode) (hw : Block.WFB para b)
    (hk : ¬ IsInl b.kind) (t : Node) (h : spliceNode icfg b = .ok t) :
    Every (LocN para icfg.hasEmph false) t := by
  match b with
  | ⟨k, r, cs⟩ =>
    simp only [spliceNode] at h
    split at h
    · cases h
    · rename_i cs' hcs
      cases h
      refine .mk _ ?_ (spliceList_wf cs hw.child cs' hcs)
      exact locK_block hw.at hk (fun e => by subst e; exact congrArg kinds (spliceList_nil hcs))
        (spliceList_kinds cs cs' hcs)
theorem spliceList_wf {para : Bool} {icfg : Inline.Cfg} (cs : List Block.BNode)
    (hw : ∀ c ∈ cs, Block.WFB para c) (out : List Node) (h : spliceList icfg cs = .ok out) :
    ∀ c ∈ out, Every (LocN para icfg.hasEmph false) c := by
  match cs with
  | [] => simp [spliceList] at h; subst h; simp
  | c :: rest =>
    have hrest : ∀ x ∈ rest, Block.WFB para x := fun x hx => hw x (List.mem_cons_of_mem _ hx)
    simp only [spliceList] at h
    split at h
    · split at h
      · cases h
      · rename_i ns hns
        split at h
        · cases h
        · rename_i rest' hr
          cases h
          have hv := Inline.parseInline_vals icfg (valOK_good icfg) hns
          intro x hx
          rcases List.mem_append.mp hx with h1 | h1
          · exact ofInlineList_wf ns hv x h1
          · exact spliceList_wf rest hrest rest' hr x h1
    · rename_i hne
      split at h
      · cases h
      · rename_i c' hc
        split at h
        · cases h
        · rename_i rest' hr
          cases h
          intro x hx
          rcases List.mem_cons.mp hx with rfl | hx
          · exact spliceNode_wf' c (hw c (by simp)) (fun ⟨t, m, e⟩ => hne t m e) _ hc
          · exact spliceList_wf rest hrest rest' hr x hx
end

/-! ### step 2: `FragmentsJoin` — the text normal form -/

theorem isText_eq (n : Node) : n.isText = n.kind.isTextK := by
  unfold Node.isText Kind.isTextK
  split <;> simp_all

/-- pass 2 invariant: a text node that is directly followed by a text node is empty -/
def LeftEmpty : List Node → Prop
  | [] => True
  | x :: r => (∀ y, r.head? = some y → x.isText = true → y.isText = true → x.content = []) ∧ LeftEmpty r

theorem head_mergeLoop (cur : Node) (rest : List Node) :
    ∃ h t, mergeLoop cur rest = h :: t ∧ h.isText = cur.isText := by
  cases rest with
  | nil => exact ⟨cur, [], rfl, rfl⟩
  | cons nxt rest =>
    simp only [mergeLoop]
    split
    · next hc =>
      simp only [Bool.and_eq_true] at hc
      exact ⟨_, _, rfl, by rw [hc.1]; rfl⟩
    · exact ⟨_, _, rfl, rfl⟩

theorem leftEmpty_mergeLoop (cur : Node) (rest : List Node) : LeftEmpty (mergeLoop cur rest) := by
  induction rest generalizing cur with
  | nil => simp [mergeLoop, LeftEmpty]
  | cons nxt rest ih =>
    simp only [mergeLoop]
    split
    · exact ⟨fun _ _ _ _ => rfl, ih _⟩
    · next hc =>
      refine ⟨?_, ih _⟩
      obtain ⟨h, t, e, ht⟩ := head_mergeLoop nxt rest
      intro y hy h1 h2
      rw [e] at hy
      simp only [List.head?_cons, Option.some.injEq] at hy
      subst hy
      rw [ht] at h2
      simp [h1, h2] at hc

theorem leftEmpty_mergeAll (l : List Node) : LeftEmpty (mergeAll l) := by
  cases l with
  | nil => simp [mergeAll, LeftEmpty]
  | cons c r => exact leftEmpty_mergeLoop c r

theorem keep_of_not_text (n : Node) (h : n.isText = false) : keep n = true := by
  simp [keep, h]

theorem filter_head_after_text (x : Node) (r : List Node) (h : LeftEmpty (x :: r))
    (hx : x.isText = true) (hne : x.content ≠ []) :
    ∀ y, (r.filter keep).head? = some y → y.isText = false := by
  cases r with
  | nil => simp
  | cons y' r' =>
    have hy' : y'.isText = false := by
      cases hyt : y'.isText with
      | false => rfl
      | true => exact absurd (h.1 y' rfl hx hyt) hne
    intro y hy
    rw [List.filter_cons_of_pos (keep_of_not_text _ hy')] at hy
    simp only [List.head?_cons, Option.some.injEq] at hy
    subst hy; exact hy'

theorem kinds_head? (l : List Node) : (kinds l).head? = l.head?.map (·.kind) := by
  cases l <;> rfl

theorem noAdj_filter_of_leftEmpty (l : List Node) (h : LeftEmpty l) : NoAdjTextK (kinds (l.filter keep)) := by
  induction l with
  | nil => simp [kinds, NoAdjTextK]
  | cons x r ih =>
    by_cases hk : keep x = true
    · rw [List.filter_cons_of_pos hk]
      refine ⟨?_, ih h.2⟩
      intro k' hk' hxy
      change (kinds (r.filter keep)).head? = some k' at hk'
      rw [kinds_head?] at hk'
      cases hh : (r.filter keep).head? with
      | none => rw [hh] at hk'; cases hk'
      | some y =>
        rw [hh] at hk'
        simp only [Option.map_some, Option.some.injEq] at hk'
        subst hk'
        rw [← isText_eq, ← isText_eq] at hxy
        have hne : x.content ≠ [] := by
          intro hc
          simp [keep, hxy.1, hc] at hk
        have := filter_head_after_text x r h hxy.1 hne y hh
        rw [this] at hxy
        exact absurd hxy.2 (by simp)
    · rw [List.filter_cons_of_neg hk]
      exact ih h.2

theorem noEmpty_filter (l : List Node) : NoEmptyTextK (kinds (l.filter keep)) := by
  intro h
  obtain ⟨c, hc, hk⟩ := mem_kinds.mp h
  have := (List.mem_filter.mp hc).2
  simp [keep, Node.isText, Node.content, hk] at this

/-- **the text normal form after `fragments_join`** (the proof of `C14.join_normal_form`, on the
    document's node type): among the children it leaves there is no empty `Text` and there are no two
    adjacent `Text`s -/
theorem fragmentsJoin_nf (cs : List Node) :
    NoEmptyTextK (kinds (fragmentsJoin cs)) ∧ NoAdjTextK (kinds (fragmentsJoin cs)) :=
  ⟨noEmpty_filter _, noAdj_filter_of_leftEmpty _ (leftEmpty_mergeAll _)⟩

theorem fragmentsJoin_nil : fragmentsJoin [] = [] := rfl

/-! ### step 2: `FragmentsJoin` — the other conditions -/

theorem isInline_textK {k : Kind} (h : k.isTextK = true) : k.isInline = true := by
  cases k with
  | blk b => cases h
  | inl v => rfl

/-- a kept child (`Retext`) keeps its local condition: same children; its kind is the old one or
    `Text` instead of an inline kind -/
theorem locN_retext {para : Bool} {c x : Node} (h : LocN para true false c) (hr : Retext c x) :
    LocN para true false x := by
  unfold LocN at h ⊢
  rw [hr.1]
  rcases hr.2.2 with e | ⟨et, ei⟩
  · rw [e]; exact h
  · rw [isText_eq] at et
    have hxi := isInline_textK et
    have hkids := h.inlineKids ei
    refine ⟨?_, fun _ => rfl, h.noRoot, ?_, ?_, fun _ _ _ _ => .inr (.inr hxi), fun _ => hkids, ?_, ?_,
      (by intro hc; cases hc)⟩
    · cases hk : x.kind with
      | blk b => rw [hk] at hxi; cases hxi
      | inl v => rfl
    · intro hl
      cases hk : x.kind with
      | blk b => rw [hk] at hxi; cases hxi
      | inl v => rw [hk] at hl; cases hl
    · intro hi; cases hkids _ hi
    · intro hl
      cases hk : x.kind with
      | blk b => rw [hk] at hxi; cases hxi
      | inl v => rw [hk] at hl; cases hl
    · intro hl
      cases hk : x.kind with
      | blk b => rw [hk] at hxi; cases hxi
      | inl v => rw [hk] at hl; cases hl

/-- a node over the children `fragments_join` left it -/
theorem locK_join {para : Bool} {k : Kind} {cs fj : List Node} (h : LocK para true false k (kinds cs))
    (hm : k.isMarker = false) (hnil : cs = [] → fj = [])
    (hrel : ∀ x ∈ fj, ∃ c ∈ cs, Retext c x)
    (hnf : NoEmptyTextK (kinds fj) ∧ NoAdjTextK (kinds fj)) :
    LocK para false true k (kinds fj) := by
  -- the kind of a kept child: the old kind, or an inline kind instead of an inline kind
  have src : ∀ k' ∈ kinds fj, ∃ k0 ∈ kinds cs, k' = k0 ∨ (k'.isInline = true ∧ k0.isInline = true) := by
    intro k' hk'
    obtain ⟨x, hx, rfl⟩ := mem_kinds.mp hk'
    obtain ⟨c, hc, hr⟩ := hrel x hx
    refine ⟨c.kind, mem_kinds.mpr ⟨c, hc, rfl⟩, ?_⟩
    rcases hr.2.2 with e | ⟨et, ei⟩
    · exact .inl e
    · exact .inr ⟨isInline_of_isText et, ei⟩
  refine ⟨h.noInlRoot, (by intro hc; rw [hm] at hc; cases hc), ?_, ?_, ?_, ?_, ?_, ?_, ?_, fun _ => hnf⟩
  · intro hr
    obtain ⟨k0, hk0, e | ⟨ei, _⟩⟩ := src _ hr
    · rw [← e] at hk0; exact h.noRoot hk0
    · cases ei
  · intro hl k' hk'
    obtain ⟨k0, hk0, e | ⟨_, ei⟩⟩ := src _ hk'
    · rw [e]; exact h.listKids hl k0 hk0
    · rw [h.listKids hl k0 hk0] at ei; cases ei
  · intro hi
    obtain ⟨k0, hk0, e | ⟨ei, _⟩⟩ := src _ hi
    · rw [← e] at hk0; exact h.itemParent hk0
    · cases ei
  · intro hp k' hk' hi
    obtain ⟨k0, hk0, e | ⟨_, ei⟩⟩ := src _ hk'
    · exact h.inlinePlace hp k0 hk0 (by rw [← e]; exact hi)
    · exact h.inlinePlace hp k0 hk0 ei
  · intro hi k' hk'
    obtain ⟨k0, hk0, e | ⟨ei, _⟩⟩ := src _ hk'
    · rw [e]; exact h.inlineKids hi k0 hk0
    · exact ei
  · intro hi k' hk'
    obtain ⟨k0, hk0, e | ⟨ei, _⟩⟩ := src _ hk'
    · rw [e]; exact h.textBlockKids hi k0 hk0
    · exact ei
  · intro hl
    have : cs = [] := by
      have := h.blockLeaf hl
      cases cs with
      | nil => rfl
      | cons c r => simp [kinds] at this
    rw [hnil this]; rfl

theorem kinds_map_joinNode (l : List Node) : kinds (l.map joinNode) = kinds l := by
  simp [kinds, List.map_map, Function.comp_def, joinNode_kind]

theorem joinNode_wf_aux {para : Bool} (k : Nat) : ∀ n : Node, nsize n ≤ k →
    Every (LocN para true false) n → n.kind.isMarker = false →
    Every (LocN para false true) (joinNode n) := by
  induction k with
  | zero => intro n hn; rw [nsize_eq] at hn; omega
  | succ k ih =>
    intro n hn he hm
    rw [joinNode_eq, joinList_eq_map]
    have hrel := fragmentsJoin_mem n.children
    refine .mk _ ?_ ?_
    · unfold LocN
      simp only
      rw [kinds_map_joinNode]
      exact locK_join he.here hm (fun e => by rw [e]; rfl)
        (fun x hx => by obtain ⟨c, hc, hr, _⟩ := hrel x hx; exact ⟨c, hc, hr⟩) (fragmentsJoin_nf _)
    · intro y hy
      simp only at hy
      obtain ⟨x, hx, rfl⟩ := List.mem_map.mp hy
      obtain ⟨c, hc, hr, hxm⟩ := hrel x hx
      have hec := he.child c hc
      have hsz : nsize x ≤ k := by
        have h1 : nsize x = nsize c := by rw [nsize_eq, nsize_eq, hr.1]
        have h2 := nsize_le_of_mem hc
        rw [nsize_eq] at hn
        omega
      exact ih x hsz (hr.every (locN_retext hec.here hr) hec) hxm

/-! ### step 3: `SyntaxPosRule` changes no kind -/

mutual
theorem sourceposNode_wf {a b c : Bool} {src : List Char} {marks : List SourceMap.Mark} (t t' : Node)
    (he : Every (LocN a b c) t) (h : sourceposNode src marks t = .ok t') :
    Every (LocN a b c) t' ∧ t'.kind = t.kind := by
  match t with
  | ⟨k, r, at_, cs⟩ =>
    simp only [sourceposNode] at h
    split at h
    · cases h
    · split at h
      · cases h
      · rename_i cs' hcs
        cases h
        obtain ⟨h1, h2⟩ := sourceposList_wf cs cs' he.child hcs
        refine ⟨.mk _ ?_ h1, rfl⟩
        have := he.here
        unfold LocN at this ⊢
        simp only at this ⊢
        rw [h2]; exact this
theorem sourceposList_wf {a b c : Bool} {src : List Char} {marks : List SourceMap.Mark} (cs cs' : List Node)
    (he : ∀ x ∈ cs, Every (LocN a b c) x) (h : sourceposList src marks cs = .ok cs') :
    (∀ x ∈ cs', Every (LocN a b c) x) ∧ kinds cs' = kinds cs := by
  match cs with
  | [] => simp [sourceposList] at h; subst h; simp
  | x :: r =>
    simp only [sourceposList] at h
    split at h
    · cases h
    · rename_i x' hx
      split at h
      · cases h
      · rename_i r' hr
        cases h
        obtain ⟨h1, h2⟩ := sourceposNode_wf x x' (he x (by simp)) hx
        obtain ⟨h3, h4⟩ := sourceposList_wf r r' (fun y hy => he y (List.mem_cons_of_mem _ hy)) hr
        refine ⟨?_, by simp only [kinds, List.map_cons] at h4 ⊢; rw [h2, h4]⟩
        intro y hy
        rcases List.mem_cons.mp hy with rfl | hy
        · exact h1
        · exact h3 y hy
end

/-! ### `doc_tree_wf` -/

/-- is the default block rule (the paragraph rule) configured -/
def DocCfg.hasPara (cfg : DocCfg) : Bool := cfg.blockChain.contains .paragraph

/-- **`doc_tree_wf` (C14 for documents).**  The tree `parseDoc` returns is `WF`: rooted at `Root`, and
    at EVERY node, at any depth (`LocK`):
      * no parser-internal placeholder: no `InlineRoot` (`spliceList_wf`, cf.
        `C14.splice_removes_inlineroot`), no `EmphMarker` (`joinNode_wf_aux`, `Inline.notMarker_good`);
      * `Root` occurs nowhere below the top;
      * a list has list items only, a list item occurs under a list only (cf. `Block.list_shape`);
      * an inline node has inline children only; a paragraph / heading has inline children only;
        thematic breaks, code blocks and fences are childless;
      * when the paragraph rule is configured (`cfg.hasPara`, the quantifier of C14): inline nodes
        occur only under paragraphs / headings, list items (tight lists) and inline nodes;
      * when an emphasis-like rule is configured (`cfg.hasJoin`: `FragmentsJoin` runs): no sibling
        list contains an empty `Text` or two adjacent `Text`s (`fragmentsJoin_nf`, the proof of
        `C14.join_normal_form`).
    For every configuration and every source; with or without `sourcepos`. -/
theorem doc_tree_wf (cfg : DocCfg) (src : List Char) (t : Node) (h : parseDoc cfg src = .ok t) :
    WF cfg.hasPara cfg.hasJoin t := by
  refine ⟨(parseDoc_final h).2, ?_⟩
  unfold parseDoc at h
  split at h
  · cases h
  · rename_i root refs hb
    obtain ⟨hroot, hwf⟩ := Block.parseBlocks_wf hb
    unfold afterBlocks at h
    split at h
    · cases h
    · rename_i t0 hs
      have he0 := spliceNode_wf' root hwf (by rw [hroot]; rintro ⟨_, _, e⟩; cases e) t0 hs
      have hk0 : t0.kind = .blk .root := by rw [spliceNode_kind hs, hroot]
      rw [hasEmph_inlineCfg] at he0
      have h1 : Every (LocN cfg.hasPara false cfg.hasJoin) (if cfg.hasJoin = true then joinNode t0 else t0) := by
        cases hj : cfg.hasJoin with
        | true =>
          rw [hj] at he0
          simp only [if_true]
          exact joinNode_wf_aux _ t0 (Nat.le_refl _) he0 (by rw [hk0]; rfl)
        | false =>
          rw [hj] at he0
          simp only [Bool.false_eq_true, if_false]
          exact he0
      simp only at h
      split at h
      · exact (sourceposNode_wf _ _ h1 h).1
      · cases h
        exact h1

/-
  OPEN (C14, the two clauses `doc_tree_wf` does not cover):
   * "leaf kinds have no children" for the INLINE leaf kinds — `Text`, `TextSpecial`, `Softbreak`,
     `Hardbreak` are childless, `CodeInline` / `Autolink` have exactly one `Text` child:
        theorem doc_inline_leaves (h : parseDoc cfg src = .ok t) :
            Every (fun n => n.kind.isInlineLeaf = true → n.children = []) t
     Missing lemma (inline slice): a NODE-level invariant through the inline tokenizer,
        `Inline.nodes_induction : (∀ created node, P node) → parseInline cfg c m = .ok ns → ∀ n ∈ ns, AllNodes P n`
     (`Inline.vals_induction` / `parseInline_vals` are about the VALUES only and cannot say
     `children = []`).  The block-level leaves are covered (`LocK.blockLeaf`).
   * the text normal form when NO emphasis-like rule is configured (`cfg.hasJoin = false`; then there is
     no join pass):
        theorem doc_text_nf (h : parseDoc cfg src = .ok t) (hp : cfg.hasPara = true) : WF true true t
     Missing lemmas: (a) inline slice — "the children `parseInline` returns contain no empty `Text`
     and no two adjacent `Text`s" (listed OPEN in `Props/Inline.lean`; steps: `C14.push_no_adjacent`,
     `C14.pop_no_adjacent`), for every nested child list as well; (b) block slice — "a list item never
     holds two adjacent paragraphs" (tight lists put the texts of DIFFERENT `InlineRoot`s side by side
     under the item; two paragraphs are always separated by a blank line, which makes the list loose).
     With the join pass the clause is proved for ALL configurations, the paragraph rule included or
     not (example below: without paragraph rule AND without join pass it is false).
-/

/-! ## C15 at document level: what `data-sourcepos` says -/

/-- the stages of `parseDoc`: a tree `t0` without attributes (after splice and join), then
    `SyntaxPosRule` on it (or nothing) -/
theorem parseDoc_stages {cfg : DocCfg} {src : List Char} {t : Node} (h : parseDoc cfg src = .ok t) :
    ∃ t0, Every (Spliced false) t0 ∧
      (if cfg.sourcepos = true then sourceposNode src (SourceMap.mkMarks src) t0 = .ok t else t = t0) := by
  unfold parseDoc at h
  split at h
  · cases h
  · rename_i root refs hb
    obtain ⟨hroot, hwf⟩ := Block.parseBlocks_wf hb
    unfold afterBlocks at h
    split at h
    · cases h
    · rename_i t0 hs
      obtain ⟨he0, hk0⟩ := spliceNode_every hwf hroot hs
      rw [hasEmph_inlineCfg] at he0
      refine ⟨if cfg.hasJoin = true then joinNode t0 else t0, ?_, ?_⟩
      · cases hj : cfg.hasJoin with
        | true =>
          rw [hj] at he0
          simp only [if_true]
          exact joinNode_every he0 (by rw [hk0]; rfl)
        | false =>
          rw [hj] at he0
          simp only [Bool.false_eq_true, if_false]
          exact he0
      · simp only at h
        split at h
        · simp only [*, if_true]
        · cases h; simp only [*]; simp

/-- the attribute list of a node of a parsed tree under `sourcepos`: exactly one `data-sourcepos`,
    holding the positions the SPECIFICATION of C15 (`SourceMap.specRange`: lines and columns counted on
    the text, CR LF once) assigns to the node's byte range — none for a node without range -/
def SpAttr (src : List Char) (n : Node) : Prop :=
  n.attrs = match n.range with
    | none => []
    | some r => [(aSourcepos, sourceposValue (SourceMap.specRange src r))]

mutual
theorem sourceposNode_spec (src : List Char) (t t' : Node) (he : Every (Spliced false) t)
    (h : sourceposNode src (SourceMap.mkMarks src) t = .ok t') : Every (SpAttr src) t' := by
  match t with
  | ⟨k, r, a, cs⟩ =>
    simp only [sourceposNode, sourceposAttrs_eq] at h
    split at h
    · cases h
    · rename_i cs' hcs
      cases h
      refine .mk _ ?_ (sourceposList_spec src cs cs' he.child hcs)
      have ha : a = [] := he.here.1
      subst ha
      unfold SpAttr
      cases r <;> simp
theorem sourceposList_spec (src : List Char) (cs cs' : List Node) (he : ∀ c ∈ cs, Every (Spliced false) c)
    (h : sourceposList src (SourceMap.mkMarks src) cs = .ok cs') : ∀ c ∈ cs', Every (SpAttr src) c := by
  match cs with
  | [] => simp [sourceposList] at h; subst h; simp
  | c :: r =>
    simp only [sourceposList] at h
    split at h
    · cases h
    · rename_i c' hc
      split at h
      · cases h
      · rename_i r' hr
        cases h
        intro x hx
        rcases List.mem_cons.mp hx with rfl | hx
        · exact sourceposNode_spec src c _ (he c (by simp)) hc
        · exact sourceposList_spec src r r' (fun y hy => he y (List.mem_cons_of_mem _ hy)) hr x hx
end

/-- **`doc_sourcepos_spec` (C15 for documents).**  With `sourcepos`, every node of the parsed tree that
    has a range carries exactly one attribute, `data-sourcepos="l1:c1-l2:c2"`, where the four numbers
    are what the specification of C15 computes from the text for that byte range
    (`C15.getPositions_spec`); a node without range carries none.  Without `sourcepos` no node
    carries any attribute. -/
theorem doc_sourcepos_spec (cfg : DocCfg) (src : List Char) (t : Node) (h : parseDoc cfg src = .ok t) :
    if cfg.sourcepos = true then Every (SpAttr src) t else Every (fun n => n.attrs = []) t := by
  obtain ⟨t0, he, hs⟩ := parseDoc_stages h
  split
  · rename_i hsp
    simp only [hsp, if_true] at hs
    exact sourceposNode_spec src t0 t he hs
  · rename_i hsp
    simp only [hsp] at hs
    subst hs
    exact he.imp (fun n hn => hn.1)

/-! ## 6. line endings (C10 at document level): the reduction to two congruence lemmas -/

mutual
/-- the tree without its source ranges -/
def eraseRanges : Node → Node
  | ⟨k, _, a, cs⟩ => ⟨k, none, a, eraseRangesList cs⟩
def eraseRangesList : List Node → List Node
  | [] => []
  | c :: cs => eraseRanges c :: eraseRangesList cs
end

theorem eraseRanges_eq (n : Node) :
    eraseRanges n = { n with range := none, children := eraseRangesList n.children } := by
  cases n; simp [eraseRanges]

theorem eraseRangesList_eq_map (l : List Node) : eraseRangesList l = l.map eraseRanges := by
  induction l with
  | nil => rfl
  | cons c cs ih => simp [eraseRangesList, ih]

mutual
theorem toRender_erase (lp : List Char) (t : Node) : toRender lp (eraseRanges t) = toRender lp t := by
  match t with
  | ⟨k, r, a, cs⟩ => simp only [eraseRanges, toRender, toRenderList_erase lp cs]
theorem toRenderList_erase (lp : List Char) (cs : List Node) :
    toRenderList lp (eraseRangesList cs) = toRenderList lp cs := by
  match cs with
  | [] => rfl
  | c :: r => simp only [eraseRangesList, toRenderList, toRender_erase lp c, toRenderList_erase lp r]
end

/-- **Rendering does not read source ranges**: two trees that differ in ranges only render alike
    (the ranges reach the output only through the `data-sourcepos` attributes `SyntaxPosRule` makes
    of them). -/
theorem render_ranges_irrelevant (cfg : DocCfg) (t t' : Node) (h : eraseRanges t = eraseRanges t') :
    renderEvents cfg t = renderEvents cfg t' := by
  unfold renderEvents
  rw [← toRender_erase cfg.langPrefix t, h, toRender_erase]

/-! ### the join pass commutes with erasing ranges -/

theorem erase_isText (n : Node) : (eraseRanges n).isText = n.isText := by
  rw [eraseRanges_eq]; rfl

theorem erase_content (n : Node) : (eraseRanges n).content = n.content := by
  rw [eraseRanges_eq]; rfl

theorem erase_markerToText (n : Node) : eraseRanges (markerToText n) = markerToText (eraseRanges n) := by
  obtain ⟨k, r, a, cs⟩ := n
  unfold markerToText
  simp only [eraseRanges]
  split <;> simp_all [eraseRanges]

theorem erase_emptied (n : Node) : eraseRanges (emptied n) = emptied (eraseRanges n) := by
  obtain ⟨k, r, a, cs⟩ := n
  simp [emptied, eraseRanges]

theorem erase_merged (a b : Node) : eraseRanges (merged a b) = merged (eraseRanges a) (eraseRanges b) := by
  obtain ⟨k, r, at_, cs⟩ := a
  obtain ⟨k', r', at', cs'⟩ := b
  simp [merged, eraseRanges, Node.content]

theorem erase_mergeLoop (cur : Node) (rest : List Node) :
    (mergeLoop cur rest).map eraseRanges = mergeLoop (eraseRanges cur) (rest.map eraseRanges) := by
  induction rest generalizing cur with
  | nil => simp [mergeLoop]
  | cons nxt rest ih =>
    simp only [mergeLoop, List.map_cons, erase_isText]
    split
    · simp only [List.map_cons, ih, erase_emptied, erase_merged]
    · simp only [List.map_cons, ih]

theorem erase_keep (n : Node) : keep (eraseRanges n) = keep n := by
  simp [keep, erase_isText, erase_content]

theorem erase_filter_keep (l : List Node) :
    (l.filter keep).map eraseRanges = (l.map eraseRanges).filter keep := by
  induction l with
  | nil => rfl
  | cons c r ih =>
    simp only [List.filter_cons, List.map_cons, erase_keep]
    split <;> simp [ih]

theorem erase_fragmentsJoin (cs : List Node) :
    (fragmentsJoin cs).map eraseRanges = fragmentsJoin (cs.map eraseRanges) := by
  unfold fragmentsJoin
  rw [erase_filter_keep]
  congr 1
  unfold pass1
  cases cs with
  | nil => rfl
  | cons c r =>
    simp only [List.map_cons, mergeAll, erase_mergeLoop, erase_markerToText, List.map_map]
    congr 1
    simp [Function.comp_def, erase_markerToText]

theorem nsize_erase_aux (k : Nat) : ∀ n : Node, nsize n ≤ k → nsize (eraseRanges n) = nsize n := by
  induction k with
  | zero => intro n hn; rw [nsize_eq] at hn; omega
  | succ k ih =>
    intro n hn
    rw [eraseRanges_eq, nsize_eq, nsize_eq n]
    simp only
    congr 1
    rw [eraseRangesList_eq_map]
    have : ∀ l : List Node, nsizeList l ≤ k → nsizeList (l.map eraseRanges) = nsizeList l := by
      intro l
      induction l with
      | nil => intro _; rfl
      | cons c r ihl =>
        intro hl
        simp only [List.map_cons, nsizeList] at hl ⊢
        rw [ih c (by omega), ihl (by omega)]
    exact this _ (by rw [nsize_eq] at hn; omega)

theorem erase_joinNode_aux (k : Nat) : ∀ n : Node, nsize n ≤ k →
    eraseRanges (joinNode n) = joinNode (eraseRanges n) := by
  induction k with
  | zero => intro n hn; rw [nsize_eq] at hn; omega
  | succ k ih =>
    intro n hn
    rw [joinNode_eq, joinNode_eq, joinList_eq_map, joinList_eq_map, eraseRanges_eq, eraseRanges_eq]
    simp only [eraseRangesList_eq_map, ← erase_fragmentsJoin, List.map_map]
    congr 1
    apply List.map_congr_left
    intro x hx
    obtain ⟨c, hc, hr, _⟩ := fragmentsJoin_mem _ x hx
    have hsz : nsize x ≤ k := by
      have h1 : nsize x = nsize c := by rw [nsize_eq, nsize_eq, hr.1]
      have h2 := nsize_le_of_mem hc
      rw [nsize_eq] at hn
      omega
    simp only [Function.comp]
    exact ih x hsz

/-- `FragmentsJoin` commutes with erasing the ranges: it reads ranges only to compute ranges -/
theorem erase_joinNode (n : Node) : eraseRanges (joinNode n) = joinNode (eraseRanges n) :=
  erase_joinNode_aux _ n (Nat.le_refl _)

/-! ### the splice walk respects "equal up to ranges and mappings" -/

/-- a block value without the per-line table of an `InlineRoot` -/
def eraseK : Block.Kind → Block.Kind
  | .inlineRoot c _ => .inlineRoot c []
  | k => k

mutual
/-- the block tree without source ranges and `InlineRoot` mappings -/
def eraseB : Block.BNode → Block.BNode
  | ⟨k, _, cs⟩ => ⟨eraseK k, none, eraseBList cs⟩
def eraseBList : List Block.BNode → List Block.BNode
  | [] => []
  | c :: cs => eraseB c :: eraseBList cs
end

/-- **(L2)** what is needed of the inline slice: for one text, the children `md.inline.parse`
    returns under two per-line tables differ in their ranges only -/
def InlineRangeFree (icfg : Inline.Cfg) : Prop :=
  ∀ (content : List Char) (m₁ m₂ : InlineOps.Srcmap) (ns₁ ns₂ : List Inline.Node),
    Inline.parseInline icfg content m₁ = .ok ns₁ → Inline.parseInline icfg content m₂ = .ok ns₂ →
    eraseRangesList (ofInlineList ns₁) = eraseRangesList (ofInlineList ns₂)

theorem eraseRangesList_append (a b : List Node) :
    eraseRangesList (a ++ b) = eraseRangesList a ++ eraseRangesList b := by
  simp [eraseRangesList_eq_map]

theorem eraseK_inl {k : Block.Kind} {c : List Char} {m : List (Nat × Nat)}
    (h : eraseK k = .inlineRoot c m) : m = [] ∧ ∃ m', k = .inlineRoot c m' := by
  cases k <;> simp [eraseK] at h
  obtain ⟨rfl, rfl⟩ := h
  exact ⟨rfl, _, rfl⟩

theorem eraseK_other {k k' : Block.Kind} (hk : ∀ c m, k ≠ .inlineRoot c m) (h : eraseK k = eraseK k') :
    k' = k := by
  cases k <;> cases k' <;> simp [eraseK] at h ⊢ <;> first | exact absurd rfl (hk _ _) | simp_all

mutual
theorem spliceNode_congr {icfg : Inline.Cfg} (hinl : InlineRangeFree icfg) (b₁ b₂ : Block.BNode)
    (t₁ t₂ : Node) (he : eraseB b₁ = eraseB b₂) (hk : ∀ c m, b₁.kind ≠ .inlineRoot c m)
    (h₁ : spliceNode icfg b₁ = .ok t₁) (h₂ : spliceNode icfg b₂ = .ok t₂) :
    eraseRanges t₁ = eraseRanges t₂ := by
  match b₁, b₂ with
  | ⟨k₁, r₁, cs₁⟩, ⟨k₂, r₂, cs₂⟩ =>
    simp only [eraseB, Block.BNode.mk.injEq] at he
    have hkk := eraseK_other hk he.1
    simp only [spliceNode] at h₁ h₂
    split at h₁
    · cases h₁
    · rename_i o₁ ho₁
      split at h₂
      · cases h₂
      · rename_i o₂ ho₂
        cases h₁; cases h₂
        simp only [eraseRanges, hkk, spliceList_congr hinl cs₁ cs₂ o₁ o₂ he.2.2 ho₁ ho₂]
theorem spliceList_congr {icfg : Inline.Cfg} (hinl : InlineRangeFree icfg) (cs₁ cs₂ : List Block.BNode)
    (o₁ o₂ : List Node) (he : eraseBList cs₁ = eraseBList cs₂)
    (h₁ : spliceList icfg cs₁ = .ok o₁) (h₂ : spliceList icfg cs₂ = .ok o₂) :
    eraseRangesList o₁ = eraseRangesList o₂ := by
  match cs₁, cs₂ with
  | [], [] => simp [spliceList] at h₁ h₂; subst h₁ h₂; rfl
  | [], _ :: _ => simp [eraseBList] at he
  | _ :: _, [] => simp [eraseBList] at he
  | c₁ :: r₁, c₂ :: r₂ =>
    simp only [eraseBList, List.cons.injEq] at he
    obtain ⟨hc, hr⟩ := he
    have hkinds : eraseK c₁.kind = eraseK c₂.kind := by
      obtain ⟨k₁, x₁, y₁⟩ := c₁
      obtain ⟨k₂, x₂, y₂⟩ := c₂
      simp only [eraseB, Block.BNode.mk.injEq] at hc
      exact hc.1
    simp only [spliceList] at h₁ h₂
    split at h₁
    · -- an `InlineRoot` on the left, hence on the right, with the same text
      rename_i content m₁ hk₁
      rw [hk₁] at hkinds
      obtain ⟨_, m₂, hk₂⟩ := eraseK_inl hkinds.symm
      rw [hk₂] at h₂
      simp only at h₂
      split at h₁
      · cases h₁
      · rename_i ns₁ hns₁
        split at h₁
        · cases h₁
        · rename_i q₁ hq₁
          split at h₂
          · cases h₂
          · rename_i ns₂ hns₂
            split at h₂
            · cases h₂
            · rename_i q₂ hq₂
              cases h₁; cases h₂
              rw [eraseRangesList_append, eraseRangesList_append, hinl content m₁ m₂ ns₁ ns₂ hns₁ hns₂,
                spliceList_congr hinl r₁ r₂ q₁ q₂ hr hq₁ hq₂]
    · -- any other child on the left, hence the same kind on the right
      rename_i hne₁
      have hk₂ : c₂.kind = c₁.kind := eraseK_other (fun c m e => hne₁ c m e) hkinds
      split at h₂
      · rename_i content m₂ hk₂'
        rw [hk₂] at hk₂'
        exact absurd hk₂' (hne₁ _ _)
      · split at h₁
        · cases h₁
        · rename_i t₁ ht₁
          split at h₁
          · cases h₁
          · rename_i q₁ hq₁
            split at h₂
            · cases h₂
            · rename_i t₂ ht₂
              split at h₂
              · cases h₂
              · rename_i q₂ hq₂
                cases h₁; cases h₂
                simp only [eraseRangesList]
                rw [spliceNode_congr hinl c₁ c₂ t₁ t₂ hc (fun c m e => hne₁ c m e) ht₁ ht₂,
                  spliceList_congr hinl r₁ r₂ q₁ q₂ hr hq₁ hq₂]
end

/-! ### the reduction -/

/-- **`doc_line_ending_reduction`.**  Two sources whose block passes return the same reference map and
    trees that are equal up to source ranges and `InlineRoot` line tables (`eraseB`) — this is what
    (L1), the congruence of the block tokenizer under "same views", has to deliver for
    `src` / `lfToCrlf src` / `lfToCr src` / `src ++ "\n"` — render to the same HTML in both modes when
    `sourcepos` is off, provided the inline parser's output depends on the line table through its
    ranges only (L2, `InlineRangeFree`).  The splice walk (`spliceNode_congr`), `FragmentsJoin`
    (`erase_joinNode`) and the renderer (`render_ranges_irrelevant`) are covered here. -/
theorem doc_line_ending_reduction (cfg : DocCfg) (s₁ s₂ : List Char) (hsp : cfg.sourcepos = false)
    (r₁ r₂ : Block.BNode) (refs : Refs.RefMap)
    (hb₁ : Block.parseBlocks cfg.blockCfg s₁ = .ok (r₁, refs))
    (hb₂ : Block.parseBlocks cfg.blockCfg s₂ = .ok (r₂, refs))
    (hblk : eraseB r₁ = eraseB r₂) (hinl : InlineRangeFree (cfg.inlineCfg refs))
    (t₁ t₂ : Node) (h₁ : parseDoc cfg s₁ = .ok t₁) (h₂ : parseDoc cfg s₂ = .ok t₂) (x : Bool) :
    renderDoc x cfg s₁ = renderDoc x cfg s₂ := by
  have hroot := (Block.parseBlocks_wf hb₁).1
  have key : eraseRanges t₁ = eraseRanges t₂ := by
    unfold parseDoc at h₁ h₂
    rw [hb₁] at h₁
    rw [hb₂] at h₂
    simp only [afterBlocks, hsp, Bool.false_eq_true, if_false] at h₁ h₂
    split at h₁
    · cases h₁
    · rename_i u₁ hu₁
      split at h₂
      · cases h₂
      · rename_i u₂ hu₂
        cases h₁; cases h₂
        have hu := spliceNode_congr hinl r₁ r₂ u₁ u₂ hblk (by rw [hroot]; simp) hu₁ hu₂
        split
        · rw [erase_joinNode, erase_joinNode, hu]
        · exact hu
  unfold renderDoc
  rw [h₁, h₂]
  simp only [render_ranges_irrelevant cfg t₁ t₂ key]

/-
  OPEN (C10 at document level):

    theorem doc_line_ending_invariant (x : Bool) (cfg : DocCfg) (src : List Char) (hsp : cfg.sourcepos = false) :
        ('\r' ∉ src → renderDoc x cfg (Lines.lfToCrlf src) = renderDoc x cfg src ∧
                      renderDoc x cfg (Lines.lfToCr src) = renderDoc x cfg src) ∧
        (src.getLast? ≠ some '\n' ∧ src.getLast? ≠ some '\r' →
                      renderDoc x cfg (src ++ ['\n']) = renderDoc x cfg src)

  Proved: everything behind the two parsers (`doc_line_ending_reduction`): given the block-level
  relation `eraseB r₁ = eraseB r₂` with equal reference maps, and `InlineRangeFree`, the splice walk,
  the join pass and the renderer produce equal HTML.  `Props/C10` gives equal views and equal
  `get_lines` contents for the three rewritings (`split_crlf`, `split_cr`, `split_final_newline`,
  `get_lines_same_views`), `Props/C06` that every silent rule is a function of the view
  (`<rule>_silent_view`, `testRules_same_view`).  Missing, precisely:
   (L1) block slice — the whole-tokenizer congruence "same views ⇒ same tree up to ranges":
          theorem parseBlocks_same_views (cfg : Block.Cfg) (s₁ s₂ : List Char) (h : Lines.views s₁ = Lines.views s₂) :
              match Block.parseBlocks cfg s₁, Block.parseBlocks cfg s₂ with
              | .ok (r₁, refs₁), .ok (r₂, refs₂) => eraseB r₁ = eraseB r₂ ∧ refs₁ = refs₂
              | .error e₁, .error e₂ => e₁ = e₂
              | _, _ => False
        i.e. a simulation of `tokenize` between two states whose tables are entrywise related (same
        `indent_nonspace`, same line text, offsets equal RELATIVE to `line_start`) through all nine
        rules in real mode, including the table rewriting of `bqRewrite` / `itemRewrite` (they slice
        `src[line_start..line_end]`, equal by the relation) and the panics of `get_map`
        (`debug_assert!(start <= end)` compares absolute offsets of DIFFERENT lines: needs the tables'
        monotonicity, `C10.offsets_increasing`).  The simulation machinery being built in `Props/C06`
        for `quote_commutes` (`Tbl`, `getLinesGo_sim`, `relocNode`) is for a different table relation
        (shift by a prefix) and cannot be instantiated here as it stands.
   (L2) inline slice — `InlineRangeFree icfg` for every `icfg` (at least for the tables `get_lines`
        produces): a simulation of `Inline.tokenize` between two states that differ in `srcmap` and in
        the ranges of `children` only; ranges never decide control flow, but they can decide PANICS
        (`trailing_text_pop`: `map_end - count`; `matchInner`: `end - marker_len`; `get_map`'s
        `debug_assert!`), so the equal-panic half needs `Inline.inline_children_ordered`-style range
        facts (`MapOK`) on both sides.
  Until then the composition is covered by the oracle `c10` and by the stream `pipeline` (CR / CRLF /
  mixed-terminator variants of every document family; 0 differences).
-/

/-! ## non-vacuity: documents with every block and inline kind, through `parseDoc` / `renderDoc` -/

/-- a configuration for examples: every html-free rule in the stock order, `*` `_` emphasis and `~~`
    strikethrough, one-row entity table, ASCII case tables -/
def exCfg (sp : Bool) (mn : Nat) : DocCfg :=
  { maxNesting := mn,
    blockChain := [.code, .fence, .blockquote, .hr, .list, .reference, .heading, .lheading, .paragraph],
    inlineChain := [.text, .newline, .escape, .backticks, .emph '*' true, .emph '_' false, .link, .linkEnd,
                    .image, .autolink, .entity, .emph '~' true],
    fns := fun m i => if m = '*' ∨ m = '_' then (if i = 0 then some .em else if i = 1 then some .strong else none)
                      else if m = '~' then (if i = 1 then some .strike else none) else none,
    sourcepos := sp, langPrefix := ['l', '-'],
    entity := fun s => if s = ['&', 'a', 'm', 'p', ';'] then some ['&'] else none,
    L := fun c => [if 65 ≤ c ∧ c ≤ 90 then c + 32 else c],
    U := fun c => [if 97 ≤ c ∧ c ≤ 122 then c - 32 else c],
    isWhite := fun c => Refs.isWs c.toNat, isPunctChar := fun _ => false }

/-- node kinds without payload (for examples) -/
inductive Tag where
  | root | p | bq | ul | ol | li | code | fence | hr | h | sh | inl | T | X | SB | HB | C | E | S | K | L | I | A | M
  deriving DecidableEq, Repr

def Kind.tag : Kind → Tag
  | .blk .root => .root | .blk .paragraph => .p | .blk .blockquote => .bq | .blk (.bulletList _) => .ul
  | .blk (.orderedList _ _) => .ol | .blk .listItem => .li | .blk (.codeBlock _) => .code
  | .blk (.codeFence _ _ _ _) => .fence | .blk (.hr _ _) => .hr | .blk (.atx _) => .h | .blk (.setext _ _) => .sh
  | .blk (.inlineRoot _ _) => .inl | .inl (.text _) => .T | .inl (.special _ _ _) => .X | .inl .softbreak => .SB
  | .inl .hardbreak => .HB | .inl (.codeInline _ _) => .C | .inl (.wrap .em _) => .E | .inl (.wrap .strong _) => .S
  | .inl (.wrap .strike _) => .K | .inl (.link _ _) => .L | .inl (.image _ _) => .I | .inl (.autolink _) => .A
  | .inl (.emphMarker _ _ _ _ _) => .M

mutual
/-- the kinds of a tree in pre-order -/
def tags : Node → List Tag
  | ⟨k, _, _, cs⟩ => Kind.tag k :: tagsList cs
def tagsList : List Node → List Tag
  | [] => []
  | c :: cs => tags c ++ tagsList cs
end

/-- every block kind: ATX and setext heading, quote with paragraph, tight bullet and ordered list,
    thematic break, indented code, fence with info -/
def exBlocks : List Char :=
  "# h\n\na\n=\n\n> q\n\n- i\n\n1. o\n\n***\n\n    c\n\n```r\nf\n```\n".toList

/-- every inline kind: reference definition + use, em, strong, strikethrough, code span, link, image,
    autolink, character reference, escape, hard and soft break, a delimiter that stays text -/
def exInlines : List Char :=
  "[r]: /u\n\n*e* **s** ~~k~~ `c` [l](/v) ![i](/w) <xx:y> &amp; \\* a  \nb\nc [r] *".toList

deriving instance DecidableEq for Except

example : (parseDoc (exCfg true 100) exBlocks).toOption.map tags =
    some [.root, .h, .T, .sh, .T, .bq, .p, .T, .ul, .li, .T, .ol, .li, .T, .hr, .code, .fence] := by
  decide +kernel

example : (parseDoc (exCfg true 100) exInlines).toOption.map tags =
    some [.root, .p, .E, .T, .T, .S, .T, .T, .K, .T, .T, .C, .T, .T, .L, .T, .T, .I, .T, .T, .A, .T, .T,
          .X, .T, .X, .T, .HB, .T, .SB, .T, .L, .T, .T] := by
  decide +kernel

example : (renderDoc false (exCfg false 100) exBlocks).toOption.map List.length = some 173 := by decide +kernel
example : (renderDoc true (exCfg true 100) exInlines).toOption.map List.length = some 405 := by decide +kernel

/-- a hostile destination and title, with source positions: every delimiter of the payload leaves
    escaped (`"` in the url is percent-encoded by `normalize_link`) -/
example : renderDoc false (exCfg true 100) "[a](<\"> \"<b>&\")".toList =
    .ok ("<p data-sourcepos=\"1:1-1:15\">".toList ++ "<a data-sourcepos=\"1:1-1:15\" ".toList ++
         "href=\"%22\" title=\"".toList ++ "&lt;b&gt;&amp;\">a</a></p>\n".toList) := by
  decide +kernel

/-- the hypothesis of the `doc_*` theorems is satisfiable on both documents -/
theorem exInlines_parses : ∃ t, parseDoc (exCfg true 100) exInlines = .ok t := by
  have h : (parseDoc (exCfg true 100) exInlines).toOption.isSome = true := by decide +kernel
  cases hp : parseDoc (exCfg true 100) exInlines with
  | ok t => exact ⟨t, rfl⟩
  | error e => rw [hp] at h; cases h

example : ∀ x : Bool, ∃ out, renderDoc x (exCfg true 100) exInlines = .ok out ∧ SafeHtml out := by
  obtain ⟨t, ht⟩ := exInlines_parses
  exact doc_safe_output _ _ t ht

example : WF true true (match parseDoc (exCfg true 100) exInlines with | .ok t => t | .error _ => ⟨.blk .root, none, [], []⟩) := by
  obtain ⟨t, ht⟩ := exInlines_parses
  rw [ht]
  exact doc_tree_wf _ _ t ht

/-- `data-sourcepos` of the nodes of `"a\r\n*é* b"` (a CR LF counts once, `é` is one column) -/
example : (parseDoc (exCfg true 100) "a\r\n*é* b".toList).toOption.map
      (fun t => (t.attrs.map (·.2)) :: t.children.map (fun p => p.attrs.map (·.2))) =
    some [["1:1-2:5".toList], ["1:1-2:5".toList]] := by decide +kernel

/-- `max_nesting = 0`: the block tokenizer gives up at once; the document is empty, not a panic -/
example : renderDoc false (exCfg false 0) "> *a*".toList = .ok [] := by decide +kernel

/-- without the paragraph rule the no-paragraph fallback pushes bare `InlineRoot`s under `Root`: the
    splice walk replaces them all the same, and `FragmentsJoin` merges texts of DIFFERENT lines that
    have become siblings under `Root` … -/
example : (parseDoc { exCfg false 100 with blockChain := [.hr], inlineChain := [.text, .emph '*' true] }
      "a\nb\n***".toList).toOption.map (fun t => t.children.map (fun c => (c.kind, c.range))) =
    some [(.inl (.text ['a', '\n', 'b', '\n']), some (0, 4)), (.blk (.hr '*' 3), some (4, 7))] := by
  decide +kernel

/-- … while without an emphasis-like rule (no join pass) they stay two adjacent `Text` siblings: the
    text normal form of C14 needs the paragraph rule (its quantifier) or the join pass -/
example : (parseDoc { exCfg false 100 with blockChain := [.hr], inlineChain := [.text] }
      "a\nb\n***".toList).toOption.map (fun t => t.children.map (fun c => (c.kind, c.range))) =
    some [(.inl (.text ['a', '\n']), some (0, 2)), (.inl (.text ['b', '\n']), some (2, 4)),
          (.blk (.hr '*' 3), some (4, 7))] := by
  decide +kernel

/-- an instance of the OPEN `doc_line_ending_invariant`, by evaluation: LF, CR LF, CR and a final
    line ending, in a list item behind a tab, with a fence and a hard break -/
example : let c := exCfg false 100
    renderDoc false c "- a  \n\tb\n```\nc".toList = renderDoc false c "- a  \r\n\tb\r\n```\r\nc".toList ∧
    renderDoc false c "- a  \n\tb\n```\nc".toList = renderDoc false c "- a  \r\tb\r```\rc".toList ∧
    renderDoc false c "- a  \n\tb\n```\nc".toList = renderDoc false c "- a  \n\tb\n```\nc\n".toList := by
  decide +kernel

end MdIt.Pipeline
