/-
  C18 — Image alt text is the full plain-text content of the description.

  Property theorems: `alt_is_display`, `alt_flatMap`, `alt_nothing_dropped`, `alt_length`,
  `alt_leaf_infix`, `alt_append`, `alt_nested_image`, `alt_container_transparent`,
  `altOld_drops` (negation witness for the pre-repair assembly).
  All statements are for every tree of inline nodes (no size / depth bound).
-/
import MdIt.Model.Alt

namespace MdIt.Alt

/-- the accumulator loop is a concatenation -/
theorem foldl_contrib (f : Inl → List Char) (l : List Inl) (acc : List Char) :
    l.foldl (fun a m => a ++ f m) acc = acc ++ l.flatMap f := by
  induction l generalizing acc with
  | nil => simp
  | cons x r ih => simp [ih, List.append_assoc]

/-- `alt` = concatenation of the contributions along the pre-order walk -/
theorem alt_flatMap (cs : List Inl) : altOf cs = (walkList cs).flatMap contrib := by
  unfold altOf altOfNode
  rw [foldl_contrib]
  simp [walk, contrib]

mutual
theorem walk_display (n : Inl) : (walk n).flatMap contrib = displayNode n := by
  match n with
  | .text s => simp [walk, contrib, displayNode]
  | .special c => simp [walk, contrib, displayNode]
  | .soft => simp [walk, contrib, displayNode]
  | .hard => simp [walk, contrib, displayNode]
  | .wrap k cs => simp [walk, contrib, displayNode, walkList_display cs]
theorem walkList_display (cs : List Inl) : (walkList cs).flatMap contrib = display cs := by
  match cs with
  | [] => simp [walkList, display]
  | c :: r => simp [walkList, display, walk_display c, walkList_display r]
end

/-- **C18.** The alt text the image renderer assembles is exactly what the description displays as
inline text. -/
theorem alt_is_display (cs : List Inl) : altOf cs = display cs := by
  rw [alt_flatMap, walkList_display]

/-- the same for a walk started at any node (what a nested image's own `render` would assemble) -/
theorem altOfNode_display (n : Inl) : altOfNode n = displayNode n := by
  unfold altOfNode
  rw [foldl_contrib, walk_display]
  simp

/-! ## nothing is dropped -/

mutual
/-- the text-bearing leaves of a tree, in document order, by structural recursion -/
def leafTextsNode : Inl → List (List Char)
  | .text s => [s]
  | .special c => [c]
  | .soft => [['\n']]
  | .hard => [['\n']]
  | .wrap _ cs => leafTexts cs
def leafTexts : List Inl → List (List Char)
  | [] => []
  | c :: r => leafTextsNode c ++ leafTexts r
end

mutual
/-- number of characters carried by the text-bearing leaves -/
def textSizeNode : Inl → Nat
  | .text s => s.length
  | .special c => c.length
  | .soft => 1
  | .hard => 1
  | .wrap _ cs => textSize cs
def textSize : List Inl → Nat
  | [] => 0
  | c :: r => textSizeNode c + textSize r
end

mutual
theorem displayNode_leaves (n : Inl) : displayNode n = (leafTextsNode n).flatten := by
  match n with
  | .text s => simp [displayNode, leafTextsNode]
  | .special c => simp [displayNode, leafTextsNode]
  | .soft => simp [displayNode, leafTextsNode]
  | .hard => simp [displayNode, leafTextsNode]
  | .wrap k cs => simp [displayNode, leafTextsNode, display_leaves cs]
theorem display_leaves (cs : List Inl) : display cs = (leafTexts cs).flatten := by
  match cs with
  | [] => simp [display, leafTexts]
  | c :: r => simp [display, leafTexts, displayNode_leaves c, display_leaves r]
end

/-- **C18 (nothing dropped, in order).** The alt text is the concatenation of ALL text-bearing leaves
of the description, in document order. -/
theorem alt_nothing_dropped (cs : List Inl) : altOf cs = (leafTexts cs).flatten := by
  rw [alt_is_display, display_leaves]

mutual
theorem displayNode_length (n : Inl) : (displayNode n).length = textSizeNode n := by
  match n with
  | .text s => simp [displayNode, textSizeNode]
  | .special c => simp [displayNode, textSizeNode]
  | .soft => simp [displayNode, textSizeNode]
  | .hard => simp [displayNode, textSizeNode]
  | .wrap k cs => simp [displayNode, textSizeNode, display_length cs]
theorem display_length (cs : List Inl) : (display cs).length = textSize cs := by
  match cs with
  | [] => simp [display, textSize]
  | c :: r => simp [display, textSize, displayNode_length c, display_length r]
end

/-- **C18 (length).** No character is lost: the alt text is as long as all leaf contents together. -/
theorem alt_length (cs : List Inl) : (altOf cs).length = textSize cs := by
  rw [alt_is_display, display_length]

/-- **C18 (every leaf present).** The content of every node the walk reaches — at any depth, under any
nesting of containers — occurs contiguously in the alt text. -/
theorem alt_leaf_infix (cs : List Inl) (n : Inl) (hn : n ∈ walkList cs) :
    contrib n <:+: altOf cs := by
  rw [alt_flatMap]
  obtain ⟨a, b, hab⟩ := List.append_of_mem hn
  rw [hab]
  exact ⟨a.flatMap contrib, b.flatMap contrib, by simp [List.append_assoc]⟩

/-! ## compositionality, nested images -/

theorem display_append (a b : List Inl) : display (a ++ b) = display a ++ display b := by
  induction a with
  | nil => simp [display]
  | cons x r ih => simp [display, ih, List.append_assoc]

theorem alt_append (a b : List Inl) : altOf (a ++ b) = altOf a ++ altOf b := by
  simp [alt_is_display, display_append]

/-- **C18 (nested image).** An image (or any other container) nested in the description contributes
exactly the alt text of its own description, at its place. -/
theorem alt_nested_image (k : Nat) (pre inner post : List Inl) :
    altOf (pre ++ .wrap k inner :: post) = altOf pre ++ altOf inner ++ altOf post := by
  simp [alt_is_display, display_append, display, displayNode, List.append_assoc]

/-- containers are transparent: flattening one level of nesting does not change the alt text -/
theorem alt_container_transparent (k : Nat) (pre inner post : List Inl) :
    altOf (pre ++ .wrap k inner :: post) = altOf (pre ++ inner ++ post) := by
  simp [alt_is_display, display_append, display, displayNode, List.append_assoc]

/-! ## non-vacuity and the pre-repair witness -/

/-- `![a \* *b&amp;c* ![`d`](y)␤e](x)`: every kind of node, nesting depth 3 -/
def sample : List Inl :=
  [.text ['a', ' '], .special ['*'], .text [' '],
   .wrap 1 [.text ['b'], .special ['&'], .text ['c']],
   .text [' '], .wrap 2 [.wrap 3 [.text ['d']]], .soft, .text ['e'], .hard]

example : altOf sample = "a * b&c d\ne\n".toList := by decide
example : display sample = "a * b&c d\ne\n".toList := by decide
example : textSize sample = 12 := by decide
example : Inl.special ['&'] ∈ walkList sample := by simp [sample, walkList, walk]

/-- **Pinned-tree finding (reproduced in the model).** The assembly that collects plain `Text` only
drops the escaped character: it is NOT the displayed text. -/
theorem altOld_drops :
    altOfOld [.text ['a', ' '], .special ['*'], .text [' ', 'b']] ≠
      display [.text ['a', ' '], .special ['*'], .text [' ', 'b']] := by decide

example : altOfOld [.text ['a', ' '], .special ['*'], .text [' ', 'b']] = "a  b".toList := by decide
example : altOf [.text ['a', ' '], .special ['*'], .text [' ', 'b']] = "a * b".toList := by decide

end MdIt.Alt
