/-
  C01 (never panics) for the WHOLE inline pass of the model — link and image rules included.

  RESULT.  The one thing that can make the inline pass panic is a memo hit of `skip_token`
  (`state.cache`, position ↦ end position, shared by all frames of one inline run) whose stored end
  lies BEYOND the `pos_max` of the frame that reads it.  Precisely:

    * `guarded_no_panic` / `parseInlineG_no_panic` — the tokenizer with a GUARDED memo
      (`Lemmas/InlineTotalDef.lean`: the model's `tokLoop` / `skipToken` with one extra test — a memo
      hit with `pos_max < stored end` stops the run) NEVER returns a Rust panic: every chain (link /
      image anywhere, any order, repetitions), every `max_nesting`, every reference map, every
      content with a `MapOK` table; emphasis markers single bytes (as in `parseInline_no_panic_flat`).
      All slicing, `unwrap`, subtraction, `get_map` of every rule in both modes, of both loops, of the
      label look-ahead and of the nested label run are covered.
    * `parseInlineG_agree` (`Lemmas/InlineTotalMono.lean`) — the guarded run and the model run give the
      SAME result unless the guard trips.
    * `parseInline_panic_memo_only` — hence: if `parseInline` panics, the guard trips.
    * `parseInline_total_of_memoSafe` — `parseInline` returns a tree whenever the executable check
      `memoSafe cfg content mapping` (= the guarded run completes) holds; `decide +kernel` evaluates it.
    * whole document (namespace `MdIt.Pipeline`): `doc_total_of_inline` — `md.parse` returns a tree and
      both renderers return a string whenever every `md.inline.parse` call of the document returns
      (block pass, splice walk, join, sourcepos, serializers are total); `doc_total_of_memoSafe`,
      `doc_total_of_docMemoSafe` — … whenever every inline run passes the memo check (`docMemoSafe`,
      executable; no hypothesis on the per-paragraph tables is needed in this direction: `MapOK` is
      only used to show that the GUARDED run cannot panic).

  FINDING (`witness_panics`): `parseInline_total` for ALL chains is FALSE.  With an emphasis pair on
  the marker '`' placed BEFORE the code-span rule, ``[`[a`[`](u) ` `` panics (`slice`), in the model
  and in the real crate (`begin > end (13 > 7)` at `full_link.rs:135`, default `max_nesting`):
  look-ahead mode never runs the emphasis rule, so the look-ahead tiling has the code span
  `` `[a` `` where real mode takes the single backtick as a delimiter run and ENTERS the span; the
  link at 2 then gets the label `[3,7)` although the memo (made by the look-ahead from 0) holds
  `6 ↦ 13`, and the label run reads it under `pos_max = 7`.

  OPEN (`parseInline_total`): `memoSafe` holds for EVERY content when the chain is `ChainCoherent`
  (decidable: every emphasis marker is a single byte at which no rule of the chain answers in
  look-ahead mode — true of every shipped configuration: markers `*`, `_`, `~`).  Statement at the end
  of the file.  Evidence: 0 guard trips in 159 million guarded runs of a native instrumented copy
  (exhaustive over `[]()!a` up to length 8 and over ``[]!a(` `` up to length 7, random over
  ``[]()!a`*\ `` up to length 16; `max_nesting` 1, 2, 3, 4, 100; six chains incl. emphasis on `[`, `!`,
  `]`; three reference maps, one with an entry for the EMPTY label).
  Missing for the proof: (L1) REPLAY — a label walk (`labelLoop`) repeated on a memo that extends the
  one an earlier walk from the same position left makes the same steps and stops at the same place,
  whatever the level (an entry made over the nesting limit sends every later walk to `pos_max`, so all
  enclosing walks fail alike) and whatever `pos_max ≥` its old end; (L2) REAL FOLLOWS LOOK-AHEAD — at a
  position that has a memo entry, the real tokenizer step ends where the entry says, or is a delimiter
  run over single-character entries (`silent_real_<rule>` + `CodePair.cache_transparent` + L1 for
  links; this is where `ChainCoherent` enters); (L3) LAMINARITY — with L1, L2: memo entries that start
  at or behind the tokenizer position never cross (`k < k' < v → v' ≤ v`); then the entries along the
  successful label walk `[ls, le)` bound every entry starting inside by `le`, which is what the
  guard asks.
-/
import MdIt.Lemmas.InlineTotalLoop
import MdIt.Props.DocTotal

namespace MdIt.Inline
open MdIt.InlineOps (Srcmap getSourcePosFor getMap byteLen slice)
open MdIt.C05 (WFMap MonoMap)

/-! ## the guarded tokenizer never panics -/

/-- **No Rust panic of the guarded tokenizer**, from every good state (`Good`, `Lemmas/InlineNoPanic`:
    window on boundaries, `MapOK` table, `EntStop`, range invariant, `OpenersBottom` tables of length 6)
    with a sound memo (`MemoB`: jumps go forward and end on boundaries), at every fuel: the result is a
    state — again good, same frame — or the non-Rust outcome (`Panic.fuel`: out of fuel, or the guard
    tripped). -/
theorem guarded_no_panic (cfg : Cfg)
    (hsz : ∀ mk csw, RuleId.emph mk csw ∈ cfg.chain → mk.utf8Size = 1) (fuel : Nat) {lo : Nat}
    (st : IState) (hg : Good lo st) (hm : MemoB st) :
    NoRust (tokLoopG cfg true fuel st.posMax st) ∧
    ∀ st', tokLoopG cfg true fuel st.posMax st = .ok st' → Frame st st' ∧ MemoB st' ∧ Good lo st' :=
  ⟨((guarded_total cfg hsz fuel).2 lo st hg hm).noRust, ((guarded_total cfg hsz fuel).2 lo st hg hm).ok⟩

/-- the same for the guarded `skip_token` (look-ahead): from every state whose window lies in the text
    on boundaries (`LInv`) -/
theorem guarded_skip_no_panic (cfg : Cfg)
    (hsz : ∀ mk csw, RuleId.emph mk csw ∈ cfg.chain → mk.utf8Size = 1) (fuel : Nat)
    (st : IState) (hi : LInv st) (hlt : st.pos < st.posMax) :
    NoRust (skipTokenG cfg true fuel st) ∧
    ∀ st', skipTokenG cfg true fuel st = .ok st' →
      MemoB st' ∧ st.pos < st'.pos ∧ st'.pos ≤ st.posMax ∧ Boundary st.src st'.pos :=
  ⟨((guarded_total cfg hsz fuel).1 st hi hlt).noRust, ((guarded_total cfg hsz fuel).1 st hi hlt).ok⟩

theorem memoB_init (content : List Char) (mapping : Srcmap) : MemoB (IState.init content mapping) := by
  intro k v h; simp [IState.init] at h

/-- **The guarded inline parser never panics.** -/
theorem parseInlineG_no_panic (cfg : Cfg)
    (hsz : ∀ mk csw, RuleId.emph mk csw ∈ cfg.chain → mk.utf8Size = 1) {content : List Char}
    {mapping : Srcmap} (hm : MapOK content mapping) : NoRust (parseInlineG cfg content mapping) := by
  obtain ⟨lo, _, hg⟩ := init_good hm
  have h := (guarded_no_panic cfg hsz (topFuel cfg content) _ hg (memoB_init content mapping)).1
  unfold parseInlineG
  split
  · next e he =>
    intro p hp
    simp only [Except.error.injEq] at hp; subst hp
    exact h p he
  · exact NoRust.ok _

/-- **Every panic of the inline pass is a memo hit beyond `pos_max`**: if the model's inline parser
    panics, the guarded run does not complete (it cannot panic, and it agrees with the model run
    unless the guard trips). -/
theorem parseInline_panic_memo_only (cfg : Cfg)
    (hsz : ∀ mk csw, RuleId.emph mk csw ∈ cfg.chain → mk.utf8Size = 1) {content : List Char}
    {mapping : Srcmap} (hm : MapOK content mapping) {p : RPanic}
    (h : parseInline cfg content mapping = .error (.rust p)) :
    parseInlineG cfg content mapping = .error .fuel ∧ memoSafe cfg content mapping = false := by
  have hg : parseInlineG cfg content mapping = .error .fuel := by
    rcases parseInlineG_agree cfg content mapping with heq | hf
    · exact absurd (heq.trans h) (parseInlineG_no_panic cfg hsz hm p)
    · exact hf
  exact ⟨hg, by unfold memoSafe; rw [hg]⟩

/-- **`parseInline` is total whenever the memo check passes.** -/
theorem parseInline_total_of_memoSafe (cfg : Cfg) {content : List Char} {mapping : Srcmap}
    (hs : memoSafe cfg content mapping = true) : ∃ cs, parseInline cfg content mapping = .ok cs := by
  unfold memoSafe at hs
  split at hs
  · next cs hcs => exact ⟨cs, parseInlineG_ok hcs⟩
  · simp at hs

/-- … equivalently (with the hypotheses under which the guarded run cannot panic): the model run
    completes iff … it does not panic; stated as the disjunction the proofs give -/
theorem parseInline_ok_or_guard (cfg : Cfg)
    (hsz : ∀ mk csw, RuleId.emph mk csw ∈ cfg.chain → mk.utf8Size = 1) {content : List Char}
    {mapping : Srcmap} (hm : MapOK content mapping) :
    (∃ cs, parseInline cfg content mapping = .ok cs) ∨ memoSafe cfg content mapping = false := by
  cases h : parseInline cfg content mapping with
  | ok cs => exact .inl ⟨cs, rfl⟩
  | error e =>
    cases e with
    | fuel => exact absurd h (parseInline_fuel cfg content mapping)
    | rust p => exact .inr (parseInline_panic_memo_only cfg hsz hm h).2

/-! ## the chain hypothesis of the OPEN theorem -/

/-- first characters at which a rule can answer `Some` in look-ahead mode -/
def RuleId.firesAt (id : RuleId) (c : Char) : Bool :=
  match id with
  | .text => !Entity.textStop.contains c
  | .newline => c == '\n'
  | .escape => c == '\\'
  | .backticks => c == '`'
  | .emph _ _ => false
  | .link => c == '['
  | .image => c == '!'
  | .linkEnd => false
  | .autolink => c == '<'
  | .entity => c == '&'

/-- the emphasis markers of the chain -/
def Cfg.emphMarkers (cfg : Cfg) : List Char :=
  cfg.chain.filterMap fun id => match id with | .emph m _ => some m | _ => none

/-- **the real tokenizer follows the look-ahead tiling**: every emphasis marker is a single byte at
    which no rule of the chain answers in look-ahead mode (in particular it is a text-stop
    character) — the emphasis rules are the only rules that answer in real mode but not in look-ahead
    mode, so under this condition a real delimiter run covers single-character look-ahead tokens -/
def ChainCoherent (cfg : Cfg) : Bool :=
  cfg.emphMarkers.all fun m => m.utf8Size == 1 && cfg.chain.all fun id => !id.firesAt m

/-! ## examples -/

/-- one-line contents: the table `[(0, 0)]` is `MapOK` -/
theorem mapOK_single (content : List Char) : MapOK content [(0, 0)] := by
  refine ⟨⟨⟨0, _, rfl⟩, by decide⟩, ?_, ?_⟩
  · intro i k1 v1 k2 v2 h1 h2
    match i, h1, h2 with
    | 0, h1, h2 => simp at h2
    | n + 1, h1, h2 => simp at h1
  · intro i k v h hk
    match i, h with
    | 0, h => simp only [List.getElem?_cons_zero, Option.some.injEq, Prod.mk.injEq] at h; omega
    | n + 1, h => simp at h

/-- the stock CommonMark chain with strikethrough -/
def stockCfg (maxNesting : Nat) : Cfg :=
  { exCfg maxNesting with
    chain := [.text, .newline, .escape, .backticks, .emph '~' true, .emph '*' true, .emph '_' false,
              .link, .image, .autolink, .entity],
    fns := fun m i =>
      if m = '~' then (if i = 1 then some .strike else none)
      else if i = 0 then some .em else if i = 1 then some .strong else none,
    refs := some [([97], { dest := [120], title := none })] }

/-- the configuration of the finding: an emphasis pair on '`' in front of the code-span rule -/
def witnessCfg : Cfg := { exCfg 100 with chain := [.emph '`' true, .backticks, .link] }

def witness : List Char := "[`[a`[`](u) `".toList

-- every shipped marker set is coherent; the witness configuration is not
example : ChainCoherent (stockCfg 100) = true ∧ ChainCoherent (exCfg 100) = true ∧
    ChainCoherent witnessCfg = false := by decide +kernel

/-- **FINDING: the inline pass panics** on the witness (slice `src[13..7]` in the label loop of the
    link rule at 5, after the memo hit `6 ↦ 13` under `pos_max = 7`); real crate:
    `begin > end (13 > 7) when slicing` at `src/generics/inline/full_link.rs:135`.  The memo check
    fails on it; with the emphasis rule BEHIND the code-span rule the same text parses. -/
theorem witness_panics :
    vals (parseInline witnessCfg witness [(0, 0)]) = .error (.rust .slice) ∧
    memoSafe witnessCfg witness [(0, 0)] = false ∧
    memoSafe { witnessCfg with chain := [.backticks, .emph '`' true, .link] } witness [(0, 0)] = true := by
  decide +kernel

-- the hypotheses of `parseInlineG_no_panic` / `parseInline_panic_memo_only` hold for the witness
example : parseInlineG witnessCfg witness [(0, 0)] = .error .fuel :=
  (parseInline_panic_memo_only witnessCfg
    (by
      intro mk csw h
      simp only [witnessCfg, List.mem_cons, RuleId.emph.injEq, reduceCtorEq, List.mem_nil_iff,
        or_false] at h
      rw [h.1]; decide)
    (mapOK_single _) (by
      have := witness_panics.1
      unfold vals at this
      split at this
      · simp at this
      · next e he => simp only [Except.error.injEq] at this; rw [he, this])).1

-- `parseInline_total_of_memoSafe` on non-trivial runs of the stock chain: nested image / link /
-- reference labels, look-ahead over the nesting limit (`max_nesting = 2`), code spans, emphasis
example : memoSafe (stockCfg 100) "![a [b](c) *d*](e) [a][a]".toList [(0, 0)] = true := by decide +kernel
example : memoSafe (stockCfg 2) "[[[a](b)](c)](d) `[`".toList [(0, 0)] = true := by decide +kernel
example : ∃ cs, parseInline (stockCfg 2) "[[[a](b)](c)](d) `[`".toList [(0, 0)] = .ok cs :=
  parseInline_total_of_memoSafe _ (by decide +kernel)

/-
  OPEN: the unconditional theorem.

  theorem memoSafe_of_coherent (cfg : Cfg) (hc : ChainCoherent cfg = true) {content : List Char}
      {mapping : Srcmap} (hm : MapOK content mapping) : memoSafe cfg content mapping = true

  theorem parseInline_total (cfg : Cfg) (hc : ChainCoherent cfg = true) {content : List Char}
      {mapping : Srcmap} (hm : MapOK content mapping) : ∃ cs, parseInline cfg content mapping = .ok cs
    := parseInline_total_of_memoSafe cfg (memoSafe_of_coherent cfg hc hm)

  (`ChainCoherent` gives the `hsz` of the theorems above.)  Missing lemmas: L1 (replay of label walks
  under memo growth / level change / shrinking `pos_max`), L2 (the real step at a memoised position
  ends where the entry says), L3 (memo entries at or behind the tokenizer position are laminar) — see
  the header.  The clause "the code-span rule does not answer at a marker" of `ChainCoherent` is
  necessary (`witness_panics`: the same character opens and closes a code span, so a walk started
  inside a look-ahead span can run over its end); for the other clauses (`[`, `!`, `<`, `\\`, `&`,
  non-stop characters) no counterexample is known — they keep the real tokenizer on the look-ahead
  tiling, which is what the proof plan L2 uses.
-/

end MdIt.Inline

/-! ## whole document -/

namespace MdIt.Pipeline
open MdIt

mutual
/-- every `InlineRoot` placeholder of a block tree satisfies `P content mapping` -/
def Placeholders (P : List Char → List (Nat × Nat) → Prop) : Block.BNode → Prop
  | ⟨k, _, cs⟩ =>
    (match k with
     | .inlineRoot content mapping => P content mapping
     | _ => True) ∧ PlaceholdersList P cs
def PlaceholdersList (P : List Char → List (Nat × Nat) → Prop) : List Block.BNode → Prop
  | [] => True
  | c :: cs => Placeholders P c ∧ PlaceholdersList P cs
end

mutual
theorem spliceNode_total {icfg : Inline.Cfg} (b : Block.BNode)
    (h : Placeholders (fun c m => ∃ cs, Inline.parseInline icfg c m = .ok cs) b) :
    ∃ t, spliceNode icfg b = .ok t := by
  match b with
  | ⟨k, r, cs⟩ =>
    simp only [Placeholders] at h
    obtain ⟨cs', hcs⟩ := spliceList_total cs h.2
    have : spliceNode icfg ⟨k, r, cs⟩ = .ok ⟨.blk k, r, [], cs'⟩ := by simp only [spliceNode, hcs]
    exact ⟨_, this⟩
theorem spliceList_total {icfg : Inline.Cfg} (cs : List Block.BNode)
    (h : PlaceholdersList (fun c m => ∃ cs, Inline.parseInline icfg c m = .ok cs) cs) :
    ∃ out, spliceList icfg cs = .ok out := by
  match cs with
  | [] => exact ⟨[], by simp [spliceList]⟩
  | c :: rest =>
    simp only [PlaceholdersList] at h
    obtain ⟨rest', hrest⟩ := spliceList_total rest h.2
    match c, h.1 with
    | ⟨k, r, ccs⟩, hc =>
      simp only [Placeholders] at hc
      by_cases hk : ∃ content mapping, k = .inlineRoot content mapping
      · obtain ⟨content, mapping, rfl⟩ := hk
        obtain ⟨ns, hns⟩ := hc.1
        have : spliceList icfg (⟨.inlineRoot content mapping, r, ccs⟩ :: rest)
            = .ok (ofInlineList ns ++ rest') := by simp only [spliceList, hns, hrest]
        exact ⟨_, this⟩
      · obtain ⟨c', hc'⟩ := spliceNode_total (icfg := icfg) ⟨k, r, ccs⟩
          (by simp only [Placeholders]; exact hc)
        have : spliceList icfg (⟨k, r, ccs⟩ :: rest) = .ok (c' :: rest') := by
          simp only [spliceList]
          split
          · exact absurd ⟨_, _, rfl⟩ hk
          · simp only [hc', hrest]
        exact ⟨_, this⟩
end

/-- **C01 for the whole pipeline, relative to the inline runs**: if every `md.inline.parse` call the
    document makes returns a tree, `md.parse(src)` returns a tree and both renderers return a string —
    for every configuration and every source (block pass: `Block.parseBlocks_total`; splice walk, join
    pass, sourcepos pass, serializers: `Props/Pipeline.lean`). -/
theorem doc_total_of_inline (cfg : DocCfg) (src : List Char)
    (h : ∀ root refs, Block.parseBlocks cfg.blockCfg src = .ok (root, refs) →
      Placeholders (fun c m => ∃ cs, Inline.parseInline (cfg.inlineCfg refs) c m = .ok cs) root) :
    (∃ t, parseDoc cfg src = .ok t) ∧ ∀ x, ∃ html, renderDoc x cfg src = .ok html := by
  obtain ⟨root, refs, hb, hp⟩ := parseDoc_blocks_ok cfg src
  obtain ⟨t0, ht0⟩ := spliceNode_total root (h root refs hb)
  have hdoc : ∃ t, parseDoc cfg src = .ok t := by
    rw [hp]
    unfold afterBlocks
    rw [ht0]
    simp only
    split
    · exact sourceposNode_total src _
    · exact ⟨_, rfl⟩
  refine ⟨hdoc, ?_⟩
  obtain ⟨t, ht⟩ := hdoc
  obtain ⟨evs, _, _, hr⟩ := doc_render_total cfg src t ht
  exact fun x => ⟨_, hr x⟩

/-- **the whole pipeline is total whenever every inline run passes the memo check**
    (`Inline.memoSafe`, executable): no table hypothesis is needed for this direction. -/
theorem doc_total_of_memoSafe (cfg : DocCfg) (src : List Char)
    (h : ∀ root refs, Block.parseBlocks cfg.blockCfg src = .ok (root, refs) →
      Placeholders (fun c m => Inline.memoSafe (cfg.inlineCfg refs) c m = true) root) :
    (∃ t, parseDoc cfg src = .ok t) ∧ ∀ x, ∃ html, renderDoc x cfg src = .ok html := by
  apply doc_total_of_inline
  intro root refs hb
  have := h root refs hb
  -- weaken the predicate
  have hw : ∀ (P Q : List Char → List (Nat × Nat) → Prop), (∀ c m, P c m → Q c m) →
      (∀ b, Placeholders P b → Placeholders Q b) ∧ (∀ l, PlaceholdersList P l → PlaceholdersList Q l) := by
    intro P Q hpq
    have aux : ∀ n : Nat, (∀ b : Block.BNode, sizeOf b ≤ n → Placeholders P b → Placeholders Q b) ∧
        (∀ l : List Block.BNode, sizeOf l ≤ n → PlaceholdersList P l → PlaceholdersList Q l) := by
      intro n
      induction n with
      | zero =>
        constructor
        · intro b hb; cases b; simp at hb
        · intro l hl; cases l with
          | nil => intro _; simp [PlaceholdersList]
          | cons c cs => simp at hl
      | succ n ih =>
        constructor
        · intro b hb hP
          match b, hb, hP with
          | ⟨k, r, cs⟩, hb, hP =>
            simp only [Placeholders] at hP ⊢
            refine ⟨?_, ih.2 cs (by simp at hb; omega) hP.2⟩
            cases k <;> first | trivial | exact hpq _ _ hP.1
        · intro l hl hP
          cases l with
          | nil => simp [PlaceholdersList]
          | cons c cs =>
            simp only [PlaceholdersList] at hP ⊢
            simp at hl
            exact ⟨ih.1 c (by omega) hP.1, ih.2 cs (by omega) hP.2⟩
    exact ⟨fun b => (aux (sizeOf b)).1 b (Nat.le_refl _), fun l => (aux (sizeOf l)).2 l (Nat.le_refl _)⟩
  exact (hw _ _ (fun c m hm => Inline.parseInline_total_of_memoSafe _ hm)).1 root this

/-! ### the hypothesis as an executable check, and an instance -/

mutual
def placeholdersB (p : List Char → List (Nat × Nat) → Bool) : Block.BNode → Bool
  | ⟨k, _, cs⟩ =>
    (match k with
     | .inlineRoot content mapping => p content mapping
     | _ => true) && placeholdersListB p cs
def placeholdersListB (p : List Char → List (Nat × Nat) → Bool) : List Block.BNode → Bool
  | [] => true
  | c :: cs => placeholdersB p c && placeholdersListB p cs
end

mutual
theorem placeholdersB_sound {p : List Char → List (Nat × Nat) → Bool} (b : Block.BNode)
    (h : placeholdersB p b = true) : Placeholders (fun c m => p c m = true) b := by
  match b with
  | ⟨k, r, cs⟩ =>
    simp only [placeholdersB, Bool.and_eq_true] at h
    simp only [Placeholders]
    refine ⟨?_, placeholdersListB_sound cs h.2⟩
    cases k <;> first | trivial | exact h.1
theorem placeholdersListB_sound {p : List Char → List (Nat × Nat) → Bool} (l : List Block.BNode)
    (h : placeholdersListB p l = true) : PlaceholdersList (fun c m => p c m = true) l := by
  match l with
  | [] => simp [PlaceholdersList]
  | c :: cs =>
    simp only [placeholdersListB, Bool.and_eq_true] at h
    simp only [PlaceholdersList]
    exact ⟨placeholdersB_sound c h.1, placeholdersListB_sound cs h.2⟩
end

/-- the memo check of a whole document: every inline run of the document passes `memoSafe` -/
def docMemoSafe (cfg : DocCfg) (src : List Char) : Bool :=
  match Block.parseBlocks cfg.blockCfg src with
  | .error _ => false
  | .ok (root, refs) => placeholdersB (fun c m => Inline.memoSafe (cfg.inlineCfg refs) c m) root

/-- **`md.parse` / `render` / `xrender` are total on every document that passes the memo check** -/
theorem doc_total_of_docMemoSafe (cfg : DocCfg) (src : List Char) (h : docMemoSafe cfg src = true) :
    (∃ t, parseDoc cfg src = .ok t) ∧ ∀ x, ∃ html, renderDoc x cfg src = .ok html := by
  apply doc_total_of_memoSafe
  intro root refs hb
  unfold docMemoSafe at h
  rw [hb] at h
  exact placeholdersB_sound root h

-- an instance: nested image / link labels, a reference link, a block quote and a list around them
example : docMemoSafe (exCfg false 100) "> ![a [b](c)](d) [x]\n\n- *e* [f `g`](h)\n\n[x]: /u".toList = true := by
  decide +kernel
example : ∀ x, ∃ html, renderDoc x (exCfg false 100)
    "> ![a [b](c)](d) [x]\n\n- *e* [f `g`](h)\n\n[x]: /u".toList = .ok html :=
  (doc_total_of_docMemoSafe _ _ (by decide +kernel)).2

end MdIt.Pipeline
