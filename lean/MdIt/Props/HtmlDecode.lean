/-
  C04, last mile — the URL the BROWSER obtains from `href="…"` / `src="…"` is the URL that was validated.

  `Props/C04.lean` shows that the URL handed to the renderer is not dangerous.  The renderer then
  writes `escape_html(url)` into a double-quoted attribute, and the browser decodes every character
  reference of the attribute value (`Model/HtmlDecode.lean: browserDecode` — decimal, hexadecimal,
  named, numeric ones also without the `;`), not only the four entities `escape_html` produces.

    1. `decode_escaped`   on the language `Escaped` of `escape_html` outputs (`Props/C03.lean`) the
                          browser's full decoder coincides with the four-entity decoder `unescape`
    2. `decode_escape`    hence `browserDecode named (escapeHtml s) = s` for EVERY string `s` and EVERY
                          entity table `named` in which `&amp; &lt; &gt; &quot;` mean `& < > "`
    3. `attr_value_seen`  the value between the quotes of ` name="…"` contains no quote and decodes to
                          the attribute value the renderer was given
    4. `browser_sees_validated_url`, `browser_safe_inline`, `browser_safe_ref`,
       `browser_safe_autolink`, `browser_safe_inline_tail`
                          composition with `validate_sound` / `pipeline_safe*` /
                          `rejected_stays_literal`: what the browser decodes is not `dangerous`
    5. `decode_not_injective_without_escape`, `seeded_lead_amp_raw`, `seeded_keep_refs`
                          the escaping is needed, and the two seeded regressions of the escaping
                          layer are refuted by a concrete destination that passes every check of
                          `Props/C04.lean`
    6. `numVal_fits`      the `Err` arm of `u32::from_str_radix` that the model leaves out is dead
-/
import MdIt.Props.C03
import MdIt.Props.C04
import MdIt.Model.HtmlDecode
import MdIt.Model.Entity
import MdIt.Gen.Entities

namespace MdIt.HtmlDecode
open MdIt.Render (escapeHtml escapeChar Escaped unescape Plain attrStr)
open MdIt.Link (Visible validateLink dangerous inlineDest refDest autolinkDest normalizeLink)

/-- the hypothesis on the entity table: the four names `escape_html` writes have their HTML meaning
    (names are looked up with the `&` and the `;`, as `browserDecode` asks for them) -/
structure FourEntities (named : List Char → Option (List Char)) : Prop where
  amp : named ['&', 'a', 'm', 'p', ';'] = some ['&']
  lt : named ['&', 'l', 't', ';'] = some ['<']
  gt : named ['&', 'g', 't', ';'] = some ['>']
  quot : named ['&', 'q', 'u', 'o', 't', ';'] = some ['"']

/-! ## 1. one step of the decoder on each shape of escaped data -/

theorem decodeFrom_plain (named : List Char → Option (List Char)) (c : Char) (r : List Char)
    (hc : c ≠ '&') : decodeFrom named 0 (c :: r) = c :: decodeFrom named 0 r := by
  simp [decodeFrom, hc]

theorem decodeFrom_amp {named : List Char → Option (List Char)} (h : FourEntities named)
    (l : List Char) :
    decodeFrom named 0 ('&' :: 'a' :: 'm' :: 'p' :: ';' :: l) = '&' :: decodeFrom named 0 l := by
  have h1 : numericRef ('a' :: 'm' :: 'p' :: ';' :: l) = none := rfl
  have h2 : namedRef named ('a' :: 'm' :: 'p' :: ';' :: l) = some (['&'], 4) := by
    have : takeUpTo isAlnum 33 ('a' :: 'm' :: 'p' :: ';' :: l) = ['a', 'm', 'p'] := rfl
    simp [namedRef, this, h.amp]
  simp [decodeFrom, h1, h2]

theorem decodeFrom_lt {named : List Char → Option (List Char)} (h : FourEntities named)
    (l : List Char) :
    decodeFrom named 0 ('&' :: 'l' :: 't' :: ';' :: l) = '<' :: decodeFrom named 0 l := by
  have h1 : numericRef ('l' :: 't' :: ';' :: l) = none := rfl
  have h2 : namedRef named ('l' :: 't' :: ';' :: l) = some (['<'], 3) := by
    have : takeUpTo isAlnum 33 ('l' :: 't' :: ';' :: l) = ['l', 't'] := rfl
    simp [namedRef, this, h.lt]
  simp [decodeFrom, h1, h2]

theorem decodeFrom_gt {named : List Char → Option (List Char)} (h : FourEntities named)
    (l : List Char) :
    decodeFrom named 0 ('&' :: 'g' :: 't' :: ';' :: l) = '>' :: decodeFrom named 0 l := by
  have h1 : numericRef ('g' :: 't' :: ';' :: l) = none := rfl
  have h2 : namedRef named ('g' :: 't' :: ';' :: l) = some (['>'], 3) := by
    have : takeUpTo isAlnum 33 ('g' :: 't' :: ';' :: l) = ['g', 't'] := rfl
    simp [namedRef, this, h.gt]
  simp [decodeFrom, h1, h2]

theorem decodeFrom_quot {named : List Char → Option (List Char)} (h : FourEntities named)
    (l : List Char) :
    decodeFrom named 0 ('&' :: 'q' :: 'u' :: 'o' :: 't' :: ';' :: l) =
      '"' :: decodeFrom named 0 l := by
  have h1 : numericRef ('q' :: 'u' :: 'o' :: 't' :: ';' :: l) = none := rfl
  have h2 : namedRef named ('q' :: 'u' :: 'o' :: 't' :: ';' :: l) = some (['"'], 5) := by
    have : takeUpTo isAlnum 33 ('q' :: 'u' :: 'o' :: 't' :: ';' :: l) = ['q', 'u', 'o', 't'] := rfl
    simp [namedRef, this, h.quot]
  simp [decodeFrom, h1, h2]

/-! ## 2. the round trip -/

/-- **On escaped data the browser's decoder is the four-entity decoder.**  Every `&` of an
    `Escaped` string starts `&amp;` `&lt;` `&gt;` `&quot;` (`Escaped.amp_entity`), the decoder
    resolves exactly that entity, and what follows is again `Escaped` — so no other reference
    (numeric, semicolon-less, named) is ever recognised, whatever the table contains. -/
theorem decode_escaped {named : List Char → Option (List Char)} (h : FourEntities named)
    {l : List Char} (hl : Escaped l) : browserDecode named l = unescape l := by
  unfold browserDecode
  induction hl with
  | nil => rfl
  | plain c l hc _ ih => rw [decodeFrom_plain named c l hc.1, Render.unescape_plain c l hc.1, ih]
  | amp l _ ih => rw [decodeFrom_amp h, ih]; simp [unescape]
  | lt l _ ih => rw [decodeFrom_lt h, ih]; simp [unescape]
  | gt l _ ih => rw [decodeFrom_gt h, ih]; simp [unescape]
  | quot l _ ih => rw [decodeFrom_quot h, ih]; simp [unescape]

/-- **C04 (the browser undoes `escape_html`, and nothing more).**  For EVERY entity table in which
    the four names have their HTML meaning and EVERY string `s`: decoding all character references
    of `escape_html(s)` as a browser does gives `s` back. -/
theorem decode_escape {named : List Char → Option (List Char)} (h : FourEntities named)
    (s : List Char) : browserDecode named (escapeHtml s) = s := by
  rw [decode_escaped h (Render.escape_sound s).1, (Render.escape_sound s).2.2.2]

/-- two attribute values written by the renderer that a browser reads as the same string come
    from the same string -/
theorem decode_escape_injective {named : List Char → Option (List Char)} (h : FourEntities named)
    (s t : List Char)
    (e : browserDecode named (escapeHtml s) = browserDecode named (escapeHtml t)) : s = t := by
  rwa [decode_escape h, decode_escape h] at e

/-- **The attribute as written.**  ` name="V"` as `make_attr` writes it: `V` contains no `"` (the
    tokenizer's "attribute value (double-quoted) state" ends exactly at the closing quote the
    renderer wrote) and the browser decodes `V` to the value the renderer was given. -/
theorem attr_value_seen {named : List Char → Option (List Char)} (h : FourEntities named)
    (nv : List Char × List Char) :
    ∃ V, attrStr nv = ' ' :: (escapeHtml nv.1 ++ ('=' :: '"' :: (V ++ ['"']))) ∧ '"' ∉ V ∧
      browserDecode named V = nv.2 :=
  ⟨escapeHtml nv.2, rfl, fun hm => ((Render.escape_sound nv.2).2.1 _ hm).2.2 rfl,
    decode_escape h nv.2⟩

/-! ## 3. bytes ↔ characters for a normalised URL

`normalize_link` returns a `String` whose bytes are all in 33..126 (`normalized_alphabet`); as a
sequence of `char`s it is `u.map Char.ofNat`, and `Link.utf8` goes back. -/

/-- the `String` with the (ASCII) bytes `u`, as characters -/
def asChars (u : List Nat) : List Char := u.map Char.ofNat

theorem utf8Char_ofNat_ascii : ∀ n < 128, Link.utf8Char (Char.ofNat n) = [n] := by decide +kernel

theorem utf8_asChars (u : List Nat) (hu : ∀ b ∈ u, b < 128) : Link.utf8 (asChars u) = u := by
  induction u with
  | nil => rfl
  | cons b r ih =>
    have e : asChars (b :: r) = Char.ofNat b :: asChars r := rfl
    rw [e, Link.utf8_cons, utf8Char_ofNat_ascii b (hu b (by simp)),
      ih (fun c hc => hu c (by simp [hc]))]
    rfl

theorem utf8_asChars_visible (u : List Nat) (hu : Visible u) : Link.utf8 (asChars u) = u :=
  utf8_asChars u (fun b hb => by have := hu b hb; omega)

/-! ## 4. what the browser sees is what was validated -/

/-- **C04 (browser view).** A URL over the normalised alphabet that `validate_link` accepts, written
    by the renderer into a double-quoted attribute and decoded by the browser — every kind of
    character reference — is the same URL again, byte for byte, and therefore not dangerous. -/
theorem browser_sees_validated_url {named : List Char → Option (List Char)} (h : FourEntities named)
    (u : List Nat) (hu : Visible u) (hv : validateLink u = true) :
    browserDecode named (escapeHtml (asChars u)) = asChars u ∧
    Link.utf8 (browserDecode named (escapeHtml (asChars u))) = u ∧
    dangerous (Link.utf8 (browserDecode named (escapeHtml (asChars u)))) = false := by
  have e := decode_escape h (asChars u)
  rw [e, utf8_asChars_visible u hu]
  exact ⟨rfl, rfl, Link.validate_sound u hu hv⟩

/-- the same from the conclusion of a pipeline: `u` came out of `normalize_link` and is not
    dangerous ⇒ neither is what the browser decodes from the attribute -/
theorem browser_view_of_safe {named : List Char → Option (List Char)} (h : FourEntities named)
    (u : List Nat) (hu : Visible u) (hs : dangerous u = false) :
    dangerous (Link.utf8 (browserDecode named (escapeHtml (asChars u)))) = false := by
  rw [decode_escape h, utf8_asChars_visible u hu]; exact hs

theorem inlineDest_visible (dec : List Char → List Char) (raw : List Char) (u : List Nat)
    (hd : inlineDest dec raw = some u) : Visible u := by
  unfold inlineDest at hd
  simp only at hd
  split at hd
  · cases hd; exact Link.normalized_alphabet_chars _
  · cases hd

theorem refDest_visible (dec : List Char → List Char) (raw : List Char) (u : List Nat)
    (hd : refDest dec raw = some u) : Visible u := inlineDest_visible dec raw u hd

theorem autolinkDest_visible (isAutolink : Bool) (url : List Char) (u : List Nat)
    (hd : autolinkDest isAutolink url = some u) : Visible u := by
  unfold autolinkDest at hd
  cases isAutolink <;> simp only [Bool.false_eq_true, if_false, if_true] at hd <;> split at hd
  · cases hd; exact Link.normalized_alphabet_chars _
  · cases hd
  · cases hd; exact Link.normalized_alphabet_chars _
  · cases hd

/-- **C04 (inline links and images, browser view).** Whatever the raw destination and whatever the
    markdown-level decoder does: the destination a browser obtains from the rendered `href` / `src`
    attribute of an accepted inline link is not dangerous. -/
theorem browser_safe_inline {named : List Char → Option (List Char)} (h : FourEntities named)
    (dec : List Char → List Char) (raw : List Char) (u : List Nat)
    (hd : inlineDest dec raw = some u) :
    dangerous (Link.utf8 (browserDecode named (escapeHtml (asChars u)))) = false :=
  browser_view_of_safe h u (inlineDest_visible dec raw u hd) (Link.pipeline_safe dec raw u hd)

/-- **C04 (reference definitions, browser view).** -/
theorem browser_safe_ref {named : List Char → Option (List Char)} (h : FourEntities named)
    (dec : List Char → List Char) (raw : List Char) (u : List Nat)
    (hd : refDest dec raw = some u) :
    dangerous (Link.utf8 (browserDecode named (escapeHtml (asChars u)))) = false :=
  browser_view_of_safe h u (refDest_visible dec raw u hd) (Link.pipeline_safe_ref dec raw u hd)

/-- **C04 (autolinks, browser view)**, URL form and e-mail form. -/
theorem browser_safe_autolink {named : List Char → Option (List Char)} (h : FourEntities named)
    (isAutolink : Bool) (url : List Char) (u : List Nat)
    (hd : autolinkDest isAutolink url = some u) :
    dangerous (Link.utf8 (browserDecode named (escapeHtml (asChars u)))) = false :=
  browser_view_of_safe h u (autolinkDest_visible isAutolink url u hd)
    (Link.pipeline_safe_autolink isAutolink url u hd)

/-- every `href` returned by the inline branch of `parse_link` went through `inlineDest` -/
theorem inlineTail_href_from_pipeline (dec : List Char → List Char) (src : List Char)
    (pos max : Nat) (l : Link.InlineLink) (u : List Nat)
    (hp : Link.parseInlineTail dec src pos max = .ok (some l)) (hu : l.href = some u) :
    ∃ raw, inlineDest dec raw = some u := by
  unfold Link.parseInlineTail at hp
  split at hp
  · cases hp
  · split at hp
    · simp only at hp
      split at hp
      · cases hp
      · rename_i dest _
        split at hp
        · cases hp
        · rename_i href title p4 hstage
          split at hp
          · cases hp
          · simp only [Except.ok.injEq, Option.some.injEq] at hp
            subst hp
            simp only at hu
            subst hu
            cases dest with
            | none => simp at hstage
            | some res =>
              simp only at hstage
              unfold Link.inlineAfterDest at hstage
              split at hstage
              · rename_i u' hacc
                have := Link.titlePart_href dec src max res.pos (some u') _ _ _ hstage
                cases this
                exact ⟨res.raw, hacc⟩
              · have := Link.titlePart_href dec src max _ none _ _ _ hstage
                cases this
          · cases hp
    · cases hp

/-- **C04 (the inline branch of `parse_link`, browser view).** The `href` of every link the inline
    branch returns, as a browser decodes it from the rendered attribute, is not dangerous. -/
theorem browser_safe_inline_tail {named : List Char → Option (List Char)} (h : FourEntities named)
    (dec : List Char → List Char) (src : List Char) (pos max : Nat) (l : Link.InlineLink)
    (u : List Nat) (hp : Link.parseInlineTail dec src pos max = .ok (some l))
    (hu : l.href = some u) :
    dangerous (Link.utf8 (browserDecode named (escapeHtml (asChars u)))) = false := by
  obtain ⟨raw, hraw⟩ := inlineTail_href_from_pipeline dec src pos max l u hp hu
  exact browser_safe_inline h dec raw u hraw

/-! ## 5. the dead `Err` arm of `u32::from_str_radix` -/

theorem takeUpTo_length (p : Char → Bool) (n : Nat) (l : List Char) :
    (takeUpTo p n l).length ≤ n := by
  induction n generalizing l with
  | zero => simp [takeUpTo]
  | succ n ih =>
    cases l with
    | nil => simp [takeUpTo]
    | cons c r =>
      simp only [takeUpTo]
      split
      · simp only [List.length_cons]; have := ih r; omega
      · simp

theorem takeUpTo_all (p : Char → Bool) (n : Nat) (l : List Char) :
    ∀ c ∈ takeUpTo p n l, p c = true := by
  induction n generalizing l with
  | zero => simp [takeUpTo]
  | succ n ih =>
    cases l with
    | nil => simp [takeUpTo]
    | cons c r =>
      simp only [takeUpTo]
      split
      · intro d hd
        rcases List.mem_cons.mp hd with rfl | hd
        · assumption
        · exact ih r d hd
      · simp

theorem digitVal_dec (c : Char) (h : isDec c = true) : digitVal c < 10 := by
  simp only [isDec, Bool.and_eq_true, decide_eq_true_eq] at h
  unfold digitVal
  simp only
  split <;> omega

theorem digitVal_hex (c : Char) (h : isHex c = true) : digitVal c < 16 := by
  simp only [isHex, isDec, Bool.or_eq_true, Bool.and_eq_true, decide_eq_true_eq] at h
  unfold digitVal
  simp only
  split
  · omega
  · split <;> omega

theorem foldl_digits_lt (radix : Nat) (ds : List Char) (a : Nat)
    (hd : ∀ c ∈ ds, digitVal c < radix) :
    ds.foldl (fun a c => a * radix + digitVal c) a < (a + 1) * radix ^ ds.length := by
  induction ds generalizing a with
  | nil => simp
  | cons c r ih =>
    have hc := hd c (by simp)
    have := ih (a * radix + digitVal c) (fun d hd' => hd d (by simp [hd']))
    simp only [List.foldl_cons, List.length_cons]
    calc _ < (a * radix + digitVal c + 1) * radix ^ r.length := this
      _ ≤ ((a + 1) * radix) * radix ^ r.length := by
        apply Nat.mul_le_mul_right
        rw [Nat.add_mul]; omega
      _ = (a + 1) * radix ^ (r.length + 1) := by rw [Nat.pow_succ, Nat.mul_assoc, Nat.mul_comm radix]

/-- **the number the oracle parses always fits in a `u32`** (its `Err` arm is dead): at most 8 digits
    of the radix — decimal < 10⁸, hexadecimal < 16⁸ = 2³² -/
theorem numVal_fits (l : List Char) :
    numVal 10 (takeUpTo isDec 8 l) < 2 ^ 32 ∧ numVal 16 (takeUpTo isHex 8 l) < 2 ^ 32 := by
  constructor
  · have h1 := foldl_digits_lt 10 (takeUpTo isDec 8 l) 0
      (fun c hc => digitVal_dec c (takeUpTo_all _ _ _ c hc))
    have h2 := takeUpTo_length isDec 8 l
    have : 10 ^ (takeUpTo isDec 8 l).length ≤ 10 ^ 8 := Nat.pow_le_pow_right (by omega) h2
    unfold numVal; omega
  · have h1 := foldl_digits_lt 16 (takeUpTo isHex 8 l) 0
      (fun c hc => digitVal_hex c (takeUpTo_all _ _ _ c hc))
    have h2 := takeUpTo_length isHex 8 l
    have : 16 ^ (takeUpTo isHex 8 l).length ≤ 16 ^ 8 := Nat.pow_le_pow_right (by omega) h2
    unfold numVal; omega

/-! ## 6. non-vacuity, and why the escaping is needed -/

/-- a small table: the four entities and `&colon;` -/
def named5 (n : List Char) : Option (List Char) :=
  if n = ['&', 'a', 'm', 'p', ';'] then some ['&']
  else if n = ['&', 'l', 't', ';'] then some ['<']
  else if n = ['&', 'g', 't', ';'] then some ['>']
  else if n = ['&', 'q', 'u', 'o', 't', ';'] then some ['"']
  else if n = ['&', 'c', 'o', 'l', 'o', 'n', ';'] then some [':']
  else none

theorem named5_four : FourEntities named5 := ⟨rfl, rfl, rfl, rfl⟩

/-- the hypothesis of `decode_escape` holds of the table the crate is linked with
    (`entities::ENTITIES`, generated into `Gen/Entities.lean`) -/
theorem table_four : FourEntities (Entity.lookupIn Gen.Entities.table) := by
  refine ⟨?_, ?_, ?_, ?_⟩ <;> decide +kernel

/-- `decode_escape` on hostile text: an attribute-breaking quote, a reference look-alike, a bare `&` -/
example : escapeHtml "\"&#106;&colon;&<".toList = "&quot;&amp;#106;&amp;colon;&amp;&lt;".toList ∧
    browserDecode named5 "&quot;&amp;#106;&amp;colon;&amp;&lt;".toList = "\"&#106;&colon;&<".toList := by
  decide

/-- the decoder does decode all three kinds, with and without the semicolon, and stops after 8 digits -/
example : browserDecode named5 "&#106;&#106&#x6a;&#X6A&colon;&colon&nosuch;&".toList =
    "jjjj:&colon&nosuch;&".toList := by decide
example : browserDecode named5 "&#00000106;&#000000106;".toList = "j\n6;".toList := by decide
example : browserDecode named5 "&#0;&#xD800;&#x110000;&#99999999;".toList = "\uFFFD\uFFFD\uFFFD\uFFFD".toList := by
  decide

/-- the numeric branches do not consult the table at all -/
theorem numeric_any_table (named : List Char → Option (List Char)) :
    browserDecode named "&#106;avascript:x".toList = "javascript:x".toList := by
  simp [browserDecode, decodeFrom, numericRef, takeUpTo, isDec, numVal, digitVal, scalar]

/-- `javascript:x` -/
def jsX : List Nat := [106, 97, 118, 97, 115, 99, 114, 105, 112, 116, 58, 120]

/-- `&#106;avascript:x` — over the normalised alphabet, accepted by `validate_link`, harmless -/
def ampJsX : List Nat := [38, 35, 49, 48, 54, 59, 97, 118, 97, 115, 99, 114, 105, 112, 116, 58, 120]

/-- **The escaping is needed: the browser's decoder is not injective on unescaped values.**
    Written WITHOUT `escape_html`, the harmless, validated destination `&#106;avascript:x` is read by
    the browser as `javascript:x` — the same string it reads from the value `javascript:x` — in each
    spelling of the reference (decimal, no semicolon, hexadecimal), and `javascript&colon;x` likewise. -/
theorem decode_not_injective_without_escape :
    browserDecode named5 "&#106;avascript:x".toList = "javascript:x".toList ∧
    browserDecode named5 "&#106avascript:x".toList = "javascript:x".toList ∧
    browserDecode named5 "&#x6a;avascript:x".toList = "javascript:x".toList ∧
    browserDecode named5 "&#X6A;avascript:x".toList = "javascript:x".toList ∧
    browserDecode named5 "javascript&colon;x".toList = "javascript:x".toList ∧
    browserDecode named5 "javascript:x".toList = "javascript:x".toList ∧
    "&#106;avascript:x".toList ≠ "javascript:x".toList ∧
    asChars ampJsX = "&#106;avascript:x".toList ∧
    Visible ampJsX ∧ validateLink ampJsX = true ∧ dangerous ampJsX = false ∧
    Link.utf8 (browserDecode named5 (asChars ampJsX)) = jsX ∧ dangerous jsX = true ∧
    Link.utf8 (browserDecode named5 (escapeHtml (asChars ampJsX))) = ampJsX := by
  decide

/-- the witness is reachable: `[a](\&#106;avascript:x)` / `[a](&amp;#106;avascript:x)` — the
    markdown-level decoder yields the text `&#106;avascript:x`, which the inline pipeline accepts
    unchanged (every character is in the safe set of `normalize_link`) -/
theorem ampJsX_accepted :
    inlineDest (fun _ => "&#106;avascript:x".toList) [] = some ampJsX ∧
    refDest (fun _ => "&#106;avascript:x".toList) [] = some ampJsX ∧
    autolinkDest true "&#106;avascript:x".toList = some ampJsX := by
  have e : Link.utf8 "&#106;avascript:x".toList = ampJsX := by decide
  have n : normalizeLink ampJsX = ampJsX := Link.normalize_safe_id ampJsX (by decide +kernel)
  refine ⟨?_, ?_, ?_⟩
  · unfold inlineDest; simp only [e, n]; decide
  · unfold refDest; simp only [e, n]; decide
  · unfold autolinkDest; simp only [if_true, e, n]; decide

/-- seeded regression 1: an `escape_html` that writes a LEADING `&` of the value verbatim -/
def escapeLeadRaw : List Char → List Char
  | '&' :: r => '&' :: escapeHtml r
  | s => escapeHtml s

/-- a reference-shaped continuation: `#` digits `;`, `#x` hex digits `;`, or a name and `;` -/
def looksLikeRef (r : List Char) : Bool :=
  match r with
  | '#' :: c :: t =>
    let hex : Bool := c == 'x' || c == 'X'
    let body := if hex then t else c :: t
    let ds := takeUpTo (if hex then isHex else isDec) 8 body
    !ds.isEmpty && body[ds.length]? = some ';'
  | _ =>
    let nm := takeUpTo isAlnum 33 r
    !nm.isEmpty && r[nm.length]? = some ';'

/-- seeded regression 2: "keep well-formed references" — `&` is written verbatim when a
    reference-shaped text follows (`&amp;#106;` would be "over-escaping"), escaped otherwise -/
def escapeKeepRefs : List Char → List Char
  | [] => []
  | c :: r => (if c = '&' ∧ looksLikeRef r = true then ['&'] else escapeChar c) ++ escapeKeepRefs r

/-- **Seeded shape 1 refuted.** On the accepted destination `&#106;avascript:x` the variant writes
    `href="&#106;avascript:x"`, which the browser reads as `javascript:x`; the real `escape_html`
    writes `href="&amp;#106;avascript:x"`, read back as the harmless original.  (On values that do
    not start with `&` the variant is `escape_html`.) -/
theorem seeded_lead_amp_raw :
    escapeLeadRaw (asChars ampJsX) = "&#106;avascript:x".toList ∧
    dangerous (Link.utf8 (browserDecode named5 (escapeLeadRaw (asChars ampJsX)))) = true ∧
    escapeHtml (asChars ampJsX) = "&amp;#106;avascript:x".toList ∧
    dangerous (Link.utf8 (browserDecode named5 (escapeHtml (asChars ampJsX)))) = false ∧
    escapeLeadRaw "a&\"".toList = escapeHtml "a&\"".toList := by
  decide

/-- **Seeded shape 2 refuted.** "Keeping well-formed references" writes the same dangerous
    attribute for `&#106;avascript:x` and for `javascript&colon;x`, while bare `&` is still
    escaped — the policy looks right on ordinary text and is wrong exactly on references. -/
theorem seeded_keep_refs :
    escapeKeepRefs (asChars ampJsX) = "&#106;avascript:x".toList ∧
    dangerous (Link.utf8 (browserDecode named5 (escapeKeepRefs (asChars ampJsX)))) = true ∧
    dangerous (Link.utf8 (browserDecode named5 (escapeKeepRefs "javascript&colon;x".toList))) = true ∧
    dangerous (Link.utf8 (browserDecode named5 (escapeHtml "javascript&colon;x".toList))) = false ∧
    escapeKeepRefs "a&b&\"".toList = escapeHtml "a&b&\"".toList := by
  decide

/-- `browser_sees_validated_url` and the pipeline theorems are not vacuous: the witness above
    satisfies their hypotheses, and so does an ordinary URL with `&` in its query -/
example : Visible ampJsX ∧ validateLink ampJsX = true := by decide

/-- `http://x?a=1&b=2` -/
def httpQuery : List Nat := [104, 116, 116, 112, 58, 47, 47, 120, 63, 97, 61, 49, 38, 98, 61, 50]

example : Visible httpQuery ∧ validateLink httpQuery = true ∧
    escapeHtml (asChars httpQuery) = "http://x?a=1&amp;b=2".toList ∧
    browserDecode named5 (escapeHtml (asChars httpQuery)) = asChars httpQuery := by decide

example : dangerous (Link.utf8 (browserDecode (Entity.lookupIn Gen.Entities.table)
    (escapeHtml (asChars ampJsX)))) = false :=
  (browser_sees_validated_url table_four ampJsX (by decide) (by decide)).2.2

/-- `browser_safe_inline` instantiated on the reachable witness -/
example : dangerous (Link.utf8 (browserDecode named5 (escapeHtml (asChars ampJsX)))) = false :=
  browser_safe_inline named5_four _ _ _ ampJsX_accepted.1

end MdIt.HtmlDecode
