/-
  Tie BY PROOF of pure first-order Rust functions to the hand-written model (properties C12, C17, C04, C01/C05/C10/C11).

  `MdIt/Gen/Translated.lean` is REGENERATED from the current /repo source on every run by `extract/rs2lean.py`
  (a translator for a small subset of Rust: if-chains, match on literals, boolean / comparison / arithmetic / bit
  operators with explicit width, casts, newtype `Self(x)` / `self.0`, flattened `&Struct` parameters).  Each theorem
  `translated_<fn>_eq` below states that the translated definition equals, for ALL inputs in the range of the Rust
  parameter types, the model function the property theorems are about:

    Rust function (file)                                   model function                  properties served
    is_valid_entity_code  (src/common/utils.rs)            MdIt.Entity.isValidEntityCode   C12
    AsciiSet::new         (src/common/mdurl/asciiset.rs)   MdIt.Url.asciiNew               C17, C04
    AsciiSet::empty                                        0 (start of MdIt.Url.setOps)    C17, C04
    AsciiSet::add                                          MdIt.Url.setAdd                 C17, C04
    AsciiSet::remove                                       MdIt.Url.setRemove              C17, C04
    AsciiSet::has                                          MdIt.Url.setHas                 C17, C04
    is_odd_match          (src/generics/inline/emph_pair.rs) MdIt.Inline.isOddMatch        C01, C05, C10, C11 (inline emphasis)

  A harmless rewrite of such a Rust function (reordered independent tests, a range test written the other way round,
  `a | b` for `b | a`, `(x >> n) & 1 == 1` for `x & 1 << n != 0`, an if-chain for a boolean expression) re-proves
  automatically: the proofs do not follow the shape of the definition — they normalise both sides (linear arithmetic
  through `omega`, bits through `Nat.testBit`).  A behavioural change (`0xFDEF` → `0xFDEE`, `remove` with `^` instead of
  `& !`) makes the obligation fail.  Where the translator REFUSES a rewritten function its definition is absent from the
  generated file and the obligation fails to elaborate (never a stale pass).
-/
import MdIt.Props.C12
import MdIt.Props.C17Set
import MdIt.Model.Inline
import MdIt.Gen.Translated

set_option linter.unusedSimpArgs false

namespace MdIt.GenTranslated
open MdIt.Gen

/-! ## bit-level normal forms (u128 shifts by a byte < 128, single-bit tests) -/

theorem pow_mod_u128 {b : Nat} (h : b < 128) : 2 ^ b % 2 ^ 128 = 2 ^ b :=
  Nat.mod_eq_of_lt (Nat.pow_lt_pow_right (by omega) h)

theorem pow_mod_u128' {b : Nat} (h : b < 128) : 2 ^ b % 340282366920938463463374607431768211456 = 2 ^ b :=
  pow_mod_u128 h

theorem and_two_pow_ne_zero (s b : Nat) : (s &&& 2 ^ b != 0) = s.testBit b := by
  cases hb : s.testBit b
  · have : s &&& 2 ^ b = 0 := by
      apply Nat.eq_of_testBit_eq; intro i
      simp only [Nat.testBit_and, Nat.testBit_two_pow, Nat.zero_testBit]
      by_cases hi : b = i
      · subst hi; simp [hb]
      · simp [hi]
    simp [this]
  · have : (s &&& 2 ^ b).testBit b = true := by simp [Nat.testBit_and, Nat.testBit_two_pow, hb]
    have h0 : s &&& 2 ^ b ≠ 0 := by intro h; rw [h] at this; simp at this
    simp [h0]

theorem two_pow_and_ne_zero (s b : Nat) : (2 ^ b &&& s != 0) = s.testBit b := by
  rw [Nat.and_comm]; exact and_two_pow_ne_zero s b

theorem and_two_pow_eq_zero (s b : Nat) : (s &&& 2 ^ b == 0) = !s.testBit b := by
  have := and_two_pow_ne_zero s b
  cases h : s.testBit b <;> simp_all [bne]

theorem two_pow_and_eq_zero (s b : Nat) : (2 ^ b &&& s == 0) = !s.testBit b := by
  rw [Nat.and_comm]; exact and_two_pow_eq_zero s b

theorem and_two_pow_eq_self (s b : Nat) : (s &&& 2 ^ b == 2 ^ b) = s.testBit b := by
  cases hb : s.testBit b
  · have h := and_two_pow_ne_zero s b
    rw [hb] at h
    have h0 : s &&& 2 ^ b = 0 := by simpa [bne] using h
    have : (0 : Nat) ≠ 2 ^ b := Nat.ne_of_lt (Nat.two_pow_pos b)
    simp [h0, this]
  · have : s &&& 2 ^ b = 2 ^ b := by
      apply Nat.eq_of_testBit_eq; intro i
      simp only [Nat.testBit_and, Nat.testBit_two_pow]
      by_cases hi : b = i
      · subst hi; simp [hb]
      · simp [hi]
    simp [this]

theorem shr_and_one_eq_one (s b : Nat) : ((s >>> b) &&& 1 == 1) = s.testBit b := by
  simp [Nat.testBit, Nat.and_comm 1, Nat.and_one_is_mod]

theorem shr_and_one_ne_zero (s b : Nat) : ((s >>> b) &&& 1 != 0) = s.testBit b := by
  simp [Nat.testBit, Nat.and_comm 1, Nat.and_one_is_mod]

theorem one_and_shr_eq_one (s b : Nat) : (1 &&& (s >>> b) == 1) = s.testBit b := by
  simp [Nat.testBit, Nat.and_one_is_mod]

theorem one_and_shr_ne_zero (s b : Nat) : (1 &&& (s >>> b) != 0) = s.testBit b := by
  simp [Nat.testBit, Nat.and_one_is_mod]

theorem shr_mod_two_eq_one (s b : Nat) : ((s >>> b) % 2 == 1) = s.testBit b := by
  simp [Nat.testBit, Nat.and_one_is_mod]

theorem shr_mod_two_ne_zero (s b : Nat) : ((s >>> b) % 2 != 0) = s.testBit b := by
  simp [Nat.testBit, Nat.and_one_is_mod]

/-- single-bit tests of every spelling → `Nat.testBit`; `1 << b` on `u128` with `b < 128` → `2 ^ b` -/
macro "u128_norm" "[" defs:Lean.Parser.Tactic.simpLemma,* "]" h:term : tactic =>
  `(tactic| simp only [$defs,*, Url.setHas_testBit, Nat.one_shiftLeft, pow_mod_u128 $h, pow_mod_u128' $h,
      and_two_pow_ne_zero, two_pow_and_ne_zero, and_two_pow_eq_zero, two_pow_and_eq_zero, and_two_pow_eq_self,
      shr_and_one_eq_one, shr_and_one_ne_zero, one_and_shr_eq_one, one_and_shr_ne_zero, shr_mod_two_eq_one,
      shr_mod_two_ne_zero])

/-- two `Nat` built from `&&& ||| ^^^` are equal when they agree bit by bit -/
macro "bitwise_eq" : tactic =>
  `(tactic| (apply Nat.eq_of_testBit_eq; intro i;
             simp [Bool.or_comm, Bool.and_comm, Bool.xor_comm] <;> (try grind)))

/-! ## `is_valid_entity_code` (C12) -/

/-- **`is_valid_entity_code` of the CURRENT source = `Entity.isValidEntityCode`**, for every `code` (in particular for
    every `u32`).  The proof does not follow the if-chain: both sides become propositions of linear arithmetic
    (`code & 0xFFFF` = `code % 65536`) decided by `omega`, so reordered or re-spelled tests re-prove. -/
theorem translated_is_valid_entity_code_eq (code : Nat) :
    Translated.is_valid_entity_code code = Entity.isValidEntityCode code := by
  rw [Bool.eq_iff_iff]
  have h : code &&& 0xFFFF = code % 65536 := Nat.and_two_pow_sub_one_eq_mod code 16
  have h' : 0xFFFF &&& code = code % 65536 := by rw [Nat.and_comm]; exact h
  simp only [Translated.is_valid_entity_code, Entity.isValidEntityCode, h, h']
  simp <;> omega

/-- what C12 uses of it (`Props/C12.lean`, `valid_code_is_scalar`): a code the SOURCE function accepts is a Unicode
    scalar value, so `char::from_u32(code).unwrap()` cannot panic -/
theorem translated_valid_code_is_scalar (code : Nat) (h : Translated.is_valid_entity_code code = true) :
    code.isValidChar :=
  Entity.valid_code_is_scalar code (by rw [← translated_is_valid_entity_code_eq]; exact h)

example : Translated.is_valid_entity_code 32 = true ∧ Translated.is_valid_entity_code 0xFDEF = false ∧
    Translated.is_valid_entity_code 0xFDF0 = true ∧ Translated.is_valid_entity_code 0x1FFFE = false := by decide

/-! ## `AsciiSet` (C17, C04) -/

/-- `AsciiSet::new()` -/
theorem translated_AsciiSet_new_eq : Translated.AsciiSet_new = Url.asciiNew := by decide

/-- `AsciiSet::empty()`: the zero constant, the set without members -/
theorem translated_AsciiSet_empty_eq : Translated.AsciiSet_empty = 0 := by decide

theorem translated_AsciiSet_empty_has (b : Nat) : Url.setHas Translated.AsciiSet_empty b = false := by
  rw [translated_AsciiSet_empty_eq, Url.setHas_testBit]; exact Nat.zero_testBit b

/-- **`AsciiSet::add` of the current source = `Url.setAdd`** for every 7-bit byte (`byte < 128`: beyond that the
    `u128` shift overflows — a panic in debug builds; `encode` only calls `has` after `byte >= 0x80 ||`, and `from`
    is applied to the ASCII constant of `normalize_link`) -/
theorem translated_AsciiSet_add_eq (s b : Nat) (h : b < 128) :
    Translated.AsciiSet_add s b = Url.setAdd s b := by
  u128_norm [Translated.AsciiSet_add, Url.setAdd] h <;> bitwise_eq

/-- **`AsciiSet::remove` of the current source = `Url.setRemove`** (`self.0 & !(1 << byte)` on `u128`) -/
theorem translated_AsciiSet_remove_eq (s b : Nat) (h : b < 128) :
    Translated.AsciiSet_remove s b = Url.setRemove s b := by
  u128_norm [Translated.AsciiSet_remove, Url.setRemove] h <;> bitwise_eq

/-- **`AsciiSet::has` of the current source = `Url.setHas`** -/
theorem translated_AsciiSet_has_eq (s b : Nat) (h : b < 128) :
    Translated.AsciiSet_has s b = Url.setHas s b := by
  u128_norm [Translated.AsciiSet_has] h <;> (cases s.testBit b <;> simp)

/-- what C17 (`Props/C17Set.lean`, `setHas_setRemove`) says, stated of the SOURCE functions: `remove c` takes out
    exactly `c` -/
theorem translated_has_remove (s c b : Nat) (hc : c < 128) (hb : b < 128) :
    Translated.AsciiSet_has (Translated.AsciiSet_remove s c) b = (Translated.AsciiSet_has s b && b != c) := by
  rw [translated_AsciiSet_has_eq _ _ hb, translated_AsciiSet_has_eq _ _ hb, translated_AsciiSet_remove_eq _ _ hc]
  exact Url.setHas_setRemove s c b hb

/-- … and `add c` puts in exactly `c` -/
theorem translated_has_add (s c b : Nat) (hc : c < 128) (hb : b < 128) :
    Translated.AsciiSet_has (Translated.AsciiSet_add s c) b = (Translated.AsciiSet_has s b || b == c) := by
  rw [translated_AsciiSet_has_eq _ _ hb, translated_AsciiSet_has_eq _ _ hb, translated_AsciiSet_add_eq _ _ hc]
  exact Url.setHas_setAdd s c b

example : Translated.AsciiSet_has (Translated.AsciiSet_remove Translated.AsciiSet_new 97) 97 = false ∧
    Translated.AsciiSet_has (Translated.AsciiSet_add Translated.AsciiSet_empty 33) 33 = true ∧
    Translated.AsciiSet_has Translated.AsciiSet_new 122 = true := by decide

/-! ## `is_odd_match` (inline emphasis: C01, C05, C10, C11) -/

/-- **`is_odd_match` of the current source = `Inline.isOddMatch`**: the parameters `opener: &EmphMarker`,
    `closer: &EmphMarker` are flattened to the fields the body USES (ordered by parameter, then field name).  Both
    sides compute on `Nat`; they are the Rust function as long as `opener.length + closer.length` does not overflow
    `usize` (lengths are bounded by the length of the source). -/
theorem translated_is_odd_match_eq (o c : Inline.Marker) :
    Translated.is_odd_match o.close o.length c.length c.open_ = Inline.isOddMatch o c := by
  obtain ⟨_, ol, _, _, oc⟩ := o
  obtain ⟨_, cl, _, co, _⟩ := c
  rw [Bool.eq_iff_iff]
  cases oc <;> cases co <;> simp [Translated.is_odd_match, Inline.isOddMatch] <;> omega

example : Translated.is_odd_match true 1 2 false = true ∧ Translated.is_odd_match true 3 3 true = false ∧
    Translated.is_odd_match false 1 2 false = false := by decide

end MdIt.GenTranslated
