/-
  C05 (inline-side mechanisms): "Every node of the parsed tree carries a byte range [start,end) …
  each child's range lies within its parent's, and siblings appear in source order without overlapping.
  A plain text node whose range lies on one line selects exactly its own text from the source …"

  Proved here, for ALL inputs of the modelled functions:
    * `translate_total`, `translate_segment`, `translate_affine`, `translate_mono`, `translate_le_next`
      and `translate_mono_all` (monotone on every table `get_lines` makes, the virtual-space entries of a
      split tab included — the clamp of `fix:` "positions inside the virtual spaces of a split tab");
      `getSourcePosFor_eq_raw(_at)`: where the clamp is inactive the function is the affine one of the
      pre-fix code (`getSourcePosForRaw`), for which `translateRaw_not_mono_inside_virtual` records the
      defect — `get_source_pos_for`;
    * `pop_range`, `pop_faithful`, `text_pop_total`  — `trailing_text_pop`;
    * `push_range`, `push_faithful`, `text_push_total` — `trailing_text_push`;
    * `join_split`, `join_run`, `hull_range`, `hull_content`, `join_ordered` (= `join_ranges`)
                                                     — `fragments_join`;
    * `emph_wrap_range`, `emph_wrap_ordered`         — one match step of `scan_and_match_delimiters`.
-/
import MdIt.Model.Join
import MdIt.Lemmas.SourceMap
import MdIt.Props.C14

namespace MdIt.C05
open MdIt.InlineOps MdIt.Join
open MdIt.SourceMap (bsearch bsearch_contract BsContract sorted_strict sorted_mono)
open MdIt.C14 (popLast_spec splitAtByte_spec slice_len isText_iff)

/-- results are compared in the examples -/
instance {ε α : Type} [DecidableEq ε] [DecidableEq α] : DecidableEq (Except ε α) := fun a b =>
  match a, b with
  | .ok x, .ok y => if h : x = y then isTrue (by rw [h]) else isFalse (by intro e; cases e; exact h rfl)
  | .error x, .error y =>
    if h : x = y then isTrue (by rw [h]) else isFalse (by intro e; cases e; exact h rfl)
  | .ok _, .error _ => isFalse (by intro e; cases e)
  | .error _, .ok _ => isFalse (by intro e; cases e)

/-! ## `get_source_pos_for` -/

/-- a per-line table as `get_lines` makes it: non-empty, first key 0, keys strictly increasing -/
structure WFMap (m : Srcmap) : Prop where
  first : ∃ v rest, m = (0, v) :: rest
  sorted : (m.map Prod.fst).Pairwise (· < ·)

theorem getElem?_key (m : Srcmap) (j : Nat) (k v : Nat) (h : m[j]? = some (k, v)) :
    ∃ hj : j < (m.map Prod.fst).length, (m.map Prod.fst)[j] = k := by
  have hj : j < m.length := by
    rcases Nat.lt_or_ge j m.length with h' | h'
    · exact h'
    · rw [List.getElem?_eq_none h'] at h; simp at h
  refine ⟨by simpa using hj, ?_⟩
  rw [List.getElem?_eq_getElem hj] at h
  simp only [Option.some.injEq] at h
  simp [h]

theorem key_getElem? (m : Srcmap) (j : Nat) (hj : j < (m.map Prod.fst).length) :
    ∃ v, m[j]? = some ((m.map Prod.fst)[j], v) := by
  have hj' : j < m.length := by simpa using hj
  refine ⟨m[j].2, ?_⟩
  rw [List.getElem?_eq_getElem hj']
  simp

/-- the line the bisection selects: the LAST entry whose key is `≤ pos` -/
theorem lineOf_spec (m : Srcmap) (hm : WFMap m) (pos : Nat) :
    ∃ i k v, lineOf m pos = .ok i ∧ m[i]? = some (k, v) ∧ k ≤ pos ∧
      ∀ j k' v', i < j → m[j]? = some (k', v') → pos < k' := by
  have hb := bsearch_contract (m.map Prod.fst) pos hm.sorted
  unfold lineOf
  generalize bsearch (m.map Prod.fst) pos = r at hb
  obtain ⟨v0, rest, hm0⟩ := hm.first
  have hlen : 0 < (m.map Prod.fst).length := by simp [hm0]
  have hk0 : (m.map Prod.fst)[0] = 0 := by simp [hm0]
  rcases r with i | i <;> simp only [BsContract] at hb
  · obtain ⟨hi, e⟩ := hb
    obtain ⟨v, hv⟩ := key_getElem? m i hi
    refine ⟨i, _, v, rfl, hv, by omega, ?_⟩
    intro j k' v' hij hj
    obtain ⟨hj', ej⟩ := getElem?_key m j k' v' hj
    have := sorted_strict hm.sorted hi hj' hij
    omega
  · obtain ⟨hl, h1, h2⟩ := hb
    have hi : i ≠ 0 := by
      intro hi; subst hi
      have := h2 0 hlen (Nat.le_refl _); omega
    have hi' : i - 1 < (m.map Prod.fst).length := by omega
    obtain ⟨v, hv⟩ := key_getElem? m (i - 1) hi'
    refine ⟨i - 1, _, v, by simp [hi], hv, ?_, ?_⟩
    · have := h1 (i - 1) hi' (by omega); omega
    · intro j k' v' hij hj
      obtain ⟨hj', ej⟩ := getElem?_key m j k' v' hj
      have := h2 j hj' (by omega)
      omega

theorem getSourcePosForRaw_of_line (m : Srcmap) (pos i k v : Nat) (h1 : lineOf m pos = .ok i)
    (h2 : m[i]? = some (k, v)) (h3 : k ≤ pos) : getSourcePosForRaw m pos = .ok (v + (pos - k)) := by
  unfold getSourcePosForRaw
  rw [h1]; simp only [h2]
  rw [if_neg (by omega)]

/-- the value of the clamped translation in terms of the entry the bisection selects and the next one -/
def clampNext (m : Srcmap) (i x : Nat) : Nat :=
  match m[i + 1]? with
  | some (_, v') => min x v'
  | none => x

theorem clampNext_le (m : Srcmap) (i x : Nat) : clampNext m i x ≤ x := by
  unfold clampNext; split <;> omega

theorem clampNext_mono (m : Srcmap) (i x y : Nat) (h : x ≤ y) : clampNext m i x ≤ clampNext m i y := by
  unfold clampNext; split <;> omega

theorem clampNext_eq (m : Srcmap) (i x : Nat) (h : ∀ k' v', m[i + 1]? = some (k', v') → x ≤ v') :
    clampNext m i x = x := by
  unfold clampNext
  split
  · next k' v' hn => have := h k' v' hn; omega
  · rfl

theorem clampNext_le_next (m : Srcmap) (i x k' v' : Nat) (h : m[i + 1]? = some (k', v')) :
    clampNext m i x ≤ v' := by
  unfold clampNext; rw [h]; simp only; omega

theorem clampNext_ge (m : Srcmap) (i x lo : Nat) (hx : lo ≤ x)
    (h : ∀ k' v', m[i + 1]? = some (k', v') → lo ≤ v') : lo ≤ clampNext m i x := by
  unfold clampNext
  split
  · next k' v' hn => have := h k' v' hn; omega
  · exact hx

/-- the clamped function, exactly: the affine offset, cut at the next entry's source offset -/
theorem getSourcePosFor_of_line_clamp (m : Srcmap) (pos i k v : Nat) (h1 : lineOf m pos = .ok i)
    (h2 : m[i]? = some (k, v)) (h3 : k ≤ pos) :
    getSourcePosFor m pos = .ok (clampNext m i (v + (pos - k))) := by
  unfold getSourcePosFor clampNext
  rw [h1]; simp only [h2]
  rw [if_neg (by omega)]
  cases m[i + 1]? with
  | none => rfl
  | some kv => rfl

/-- … and the affine offset itself when the clamp is inactive at `pos` -/
theorem getSourcePosFor_of_line (m : Srcmap) (pos i k v : Nat) (h1 : lineOf m pos = .ok i)
    (h2 : m[i]? = some (k, v)) (h3 : k ≤ pos)
    (hcl : ∀ k' v', m[i + 1]? = some (k', v') → v + (pos - k) ≤ v') :
    getSourcePosFor m pos = .ok (v + (pos - k)) := by
  rw [getSourcePosFor_of_line_clamp m pos i k v h1 h2 h3, clampNext_eq _ _ _ hcl]

/-- **C05 / translate_total.**  On a well-formed table `get_source_pos_for` never panics, for every
    position (also beyond the end of the inline text). -/
theorem translate_total (m : Srcmap) (hm : WFMap m) (pos : Nat) :
    ∃ x, getSourcePosFor m pos = .ok x := by
  obtain ⟨i, k, v, h1, h2, h3, _⟩ := lineOf_spec m hm pos
  exact ⟨_, getSourcePosFor_of_line_clamp m pos i k v h1 h2 h3⟩

theorem translateRaw_total (m : Srcmap) (hm : WFMap m) (pos : Nat) :
    ∃ x, getSourcePosForRaw m pos = .ok x := by
  obtain ⟨i, k, v, h1, h2, h3, _⟩ := lineOf_spec m hm pos
  exact ⟨_, getSourcePosForRaw_of_line m pos i k v h1 h2 h3⟩

/-- the entry `(k, v)` whose segment `[k, next key)` contains `pos` is the one the bisection selects -/
theorem lineOf_segment (m : Srcmap) (hm : WFMap m) (pos i k v : Nat) (hi : m[i]? = some (k, v))
    (hk : k ≤ pos) (hnext : ∀ k' v', m[i + 1]? = some (k', v') → pos < k') :
    lineOf m pos = .ok i := by
  obtain ⟨i0, k0, v0, h1, h2, h3, h4⟩ := lineOf_spec m hm pos
  have : i0 = i := by
    rcases Nat.lt_trichotomy i0 i with hlt | heq | hgt
    · have := h4 i k v hlt hi; omega
    · exact heq
    · exfalso
      obtain ⟨hj0, e0⟩ := getElem?_key m i0 k0 v0 h2
      have hj1 : i + 1 < (m.map Prod.fst).length := by omega
      obtain ⟨v1, hv1⟩ := key_getElem? m (i + 1) hj1
      have a := hnext _ _ hv1
      have b := sorted_mono hm.sorted hj1 hj0 (by omega)
      omega
  subst this
  exact h1

/-- what `get_lines` guarantees for two consecutive entries `(k1,v1)`, `(k2,v2)`: either the second line
    starts in the source at or after the end of the first (`v1 + (k2 − k1) ≤ v2`: the `k2 − k1` inline bytes
    of the first segment — its source bytes plus the line feed — lie before it), or the first segment
    consists of the virtual spaces of a split tab, which have no source bytes (`v1 = v2`) -/
def MonoMapV (m : Srcmap) : Prop :=
  ∀ i k1 v1 k2 v2, m[i]? = some (k1, v1) → m[i + 1]? = some (k2, v2) →
    v1 + (k2 - k1) ≤ v2 ∨ v1 = v2

/-- the same without virtual-space entries -/
def MonoMap (m : Srcmap) : Prop :=
  ∀ i k1 v1 k2 v2, m[i]? = some (k1, v1) → m[i + 1]? = some (k2, v2) → v1 + (k2 - k1) ≤ v2

theorem MonoMap.toV {m : Srcmap} (h : MonoMap m) : MonoMapV m :=
  fun i k1 v1 k2 v2 a b => Or.inl (h i k1 v1 k2 v2 a b)

/-- `pos` is not strictly inside a virtual-space segment -/
def NotInsideVirtual (m : Srcmap) (pos : Nat) : Prop :=
  ∀ i k1 v1 k2 v2, m[i]? = some (k1, v1) → m[i + 1]? = some (k2, v2) → k1 ≤ pos → pos < k2 →
    v1 + (k2 - k1) ≤ v2 ∨ pos = k1

/-- the clamp is inactive at `pos`: the affine offset of `pos` in its own segment does not pass the
    source offset of the next entry.  (`MonoMap m` gives it at every position, `MonoMapV m` at every
    position that is not strictly inside a virtual segment.) -/
def ClampFree (m : Srcmap) (pos : Nat) : Prop :=
  ∀ i k1 v1 k2 v2, m[i]? = some (k1, v1) → m[i + 1]? = some (k2, v2) → k1 ≤ pos → pos < k2 →
    v1 + (pos - k1) ≤ v2

theorem clampFree_of_mono (m : Srcmap) (hv : MonoMap m) (pos : Nat) : ClampFree m pos := by
  intro i k1 v1 k2 v2 h1 h2 a b
  have := hv i k1 v1 k2 v2 h1 h2
  omega

theorem clampFree_of_real (m : Srcmap) (hv : MonoMapV m) (pos : Nat) (hreal : NotInsideVirtual m pos) :
    ClampFree m pos := by
  intro i k1 v1 k2 v2 h1 h2 a b
  rcases hreal i k1 v1 k2 v2 h1 h2 a b with h | h
  · omega
  · have := hv i k1 v1 k2 v2 h1 h2
    omega

/-- **C05 / the bridge between the repaired function and the affine one.**  Wherever the clamp is
    inactive, `get_source_pos_for` is the affine function of the pre-`fix:` code. -/
theorem getSourcePosFor_eq_raw_at (m : Srcmap) (hm : WFMap m) (pos : Nat) (hc : ClampFree m pos) :
    getSourcePosFor m pos = getSourcePosForRaw m pos := by
  obtain ⟨i, k, v, h1, h2, h3, h4⟩ := lineOf_spec m hm pos
  rw [getSourcePosForRaw_of_line m pos i k v h1 h2 h3]
  apply getSourcePosFor_of_line m pos i k v h1 h2 h3
  intro k' v' hn
  exact hc i k v k' v' h2 hn h3 (h4 (i + 1) k' v' (by omega) hn)

/-- on a table without virtual-space entries the clamp is a no-op -/
theorem getSourcePosFor_eq_raw (m : Srcmap) (hm : WFMap m) (hv : MonoMap m) (pos : Nat) :
    getSourcePosFor m pos = getSourcePosForRaw m pos :=
  getSourcePosFor_eq_raw_at m hm pos (clampFree_of_mono m hv pos)

/-- the repaired function never answers more than the affine one -/
theorem getSourcePosFor_le_raw (m : Srcmap) (pos x y : Nat) (hx : getSourcePosFor m pos = .ok x)
    (hy : getSourcePosForRaw m pos = .ok y) : x ≤ y := by
  unfold getSourcePosFor at hx
  unfold getSourcePosForRaw at hy
  split at hx
  · simp at hx
  · next line hl =>
    rw [hl] at hy
    simp only at hy
    split at hx
    · simp at hx
    · next k v hkv =>
      rw [hkv] at hy
      simp only at hy
      split at hx
      · simp at hx
      · next hnk =>
        rw [if_neg hnk] at hy
        simp only [Except.ok.injEq] at hy
        split at hx <;> simp only [Except.ok.injEq] at hx <;> omega

/-- `lineOf_spec` together with the value of the translation, for the callers that know the clamp is
    inactive -/
theorem lineOf_spec_tr (m : Srcmap) (hm : WFMap m) (pos : Nat) (hc : ClampFree m pos) :
    ∃ i k v, lineOf m pos = .ok i ∧ m[i]? = some (k, v) ∧ k ≤ pos ∧
      (∀ j k' v', i < j → m[j]? = some (k', v') → pos < k') ∧
      getSourcePosFor m pos = .ok (v + (pos - k)) := by
  obtain ⟨i, k, v, h1, h2, h3, h4⟩ := lineOf_spec m hm pos
  refine ⟨i, k, v, h1, h2, h3, h4, getSourcePosFor_of_line m pos i k v h1 h2 h3 ?_⟩
  intro k' v' hn
  exact hc i k v k' v' h2 hn h3 (h4 (i + 1) k' v' (by omega) hn)

/-- **C05 / translate_segment.**  The answer is determined by the entry `(k, v)` whose segment
    `[k, next key)` contains `pos` and the source offset `v'` of the next entry:
    `clampNext m i (v + (pos − k))` = `min (v + (pos − k)) v'` (just `v + (pos − k)` in the last
    segment).  Unconditional on `WFMap`, as before the `fix:`; the value is no longer always affine. -/
theorem translate_segment (m : Srcmap) (hm : WFMap m) (pos i k v : Nat) (hi : m[i]? = some (k, v))
    (hk : k ≤ pos) (hnext : ∀ k' v', m[i + 1]? = some (k', v') → pos < k') :
    getSourcePosFor m pos = .ok (clampNext m i (v + (pos - k))) :=
  getSourcePosFor_of_line_clamp m pos i k v (lineOf_segment m hm pos i k v hi hk hnext) hi hk

/-- … hence the affine value `v + (pos − k)` of the pre-`fix:` code whenever that does not pass the next
    entry's source offset (always, when the table has no virtual-space entries:
    `translate_segment_mono`) -/
theorem translate_segment_free (m : Srcmap) (hm : WFMap m) (pos i k v : Nat) (hi : m[i]? = some (k, v))
    (hk : k ≤ pos) (hnext : ∀ k' v', m[i + 1]? = some (k', v') → pos < k')
    (hcl : ∀ k' v', m[i + 1]? = some (k', v') → v + (pos - k) ≤ v') :
    getSourcePosFor m pos = .ok (v + (pos - k)) :=
  getSourcePosFor_of_line m pos i k v (lineOf_segment m hm pos i k v hi hk hnext) hi hk hcl

theorem translate_segment_mono (m : Srcmap) (hm : WFMap m) (hv : MonoMap m) (pos i k v : Nat)
    (hi : m[i]? = some (k, v)) (hk : k ≤ pos)
    (hnext : ∀ k' v', m[i + 1]? = some (k', v') → pos < k') :
    getSourcePosFor m pos = .ok (v + (pos - k)) := by
  apply translate_segment_free m hm pos i k v hi hk hnext
  intro k' v' hn
  have := hv i k v k' v' hi hn
  have := hnext k' v' hn
  omega

theorem translateRaw_segment (m : Srcmap) (hm : WFMap m) (pos i k v : Nat) (hi : m[i]? = some (k, v))
    (hk : k ≤ pos) (hnext : ∀ k' v', m[i + 1]? = some (k', v') → pos < k') :
    getSourcePosForRaw m pos = .ok (v + (pos - k)) :=
  getSourcePosForRaw_of_line m pos i k v (lineOf_segment m hm pos i k v hi hk hnext) hi hk

/-- **C05 / translate_affine.**  Inside one line (between two consecutive keys, or after the last key)
    the translation is a shift: `tr (k + d) = v + d` — as long as `v + d` does not pass the source offset
    of the next entry (it never does on a table without virtual-space entries: `translate_affine_mono`;
    in a virtual segment only `d = 0` qualifies). -/
theorem translate_affine (m : Srcmap) (hm : WFMap m) (i k v d : Nat) (hi : m[i]? = some (k, v))
    (hnext : ∀ k' v', m[i + 1]? = some (k', v') → k + d < k')
    (hcl : ∀ k' v', m[i + 1]? = some (k', v') → v + d ≤ v') :
    getSourcePosFor m (k + d) = .ok (v + d) := by
  have := translate_segment_free m hm (k + d) i k v hi (by omega) hnext (by
    intro k' v' hn; have := hcl k' v' hn; omega)
  rw [this]
  congr 2; omega

theorem translate_affine_mono (m : Srcmap) (hm : WFMap m) (hv : MonoMap m) (i k v d : Nat)
    (hi : m[i]? = some (k, v)) (hnext : ∀ k' v', m[i + 1]? = some (k', v') → k + d < k') :
    getSourcePosFor m (k + d) = .ok (v + d) := by
  apply translate_affine m hm i k v d hi hnext
  intro k' v' hn
  have := hv i k v k' v' hi hn
  have := hnext k' v' hn
  omega

theorem getElem?_some_of_lt (m : Srcmap) (i j : Nat) (x : Nat × Nat) (h : m[j]? = some x)
    (hij : i ≤ j) : ∃ y, m[i]? = some y := by
  have hj : j < m.length := by
    rcases Nat.lt_or_ge j m.length with h' | h'
    · exact h'
    · rw [List.getElem?_eq_none h'] at h; simp at h
  exact ⟨m[i]'(by omega), List.getElem?_eq_getElem _⟩

/-- source offsets never decrease along the table -/
theorem values_mono (m : Srcmap) (hv : MonoMapV m) (i n : Nat) (k1 v1 k2 v2 : Nat)
    (h1 : m[i]? = some (k1, v1)) (h2 : m[i + n]? = some (k2, v2)) : v1 ≤ v2 := by
  induction n generalizing k2 v2 with
  | zero =>
    rw [Nat.add_zero, h1] at h2
    simp only [Option.some.injEq, Prod.mk.injEq] at h2
    omega
  | succ n ih =>
    obtain ⟨⟨k3, v3⟩, h3⟩ := getElem?_some_of_lt m (i + n) (i + (n + 1)) _ h2 (by omega)
    have a := ih k3 v3 h3
    have b := hv (i + n) k3 v3 k2 v2 h3 h2
    omega

/-- **C05 / translate_le_next.**  A position of the segment of entry `i` is never translated past the
    source offset of entry `i + 1` — in particular the virtual spaces of a split tab all map to the
    tab's own byte. -/
theorem translate_le_next (m : Srcmap) (hm : WFMap m) (pos i k v k' v' x : Nat)
    (hi : m[i]? = some (k, v)) (hk : k ≤ pos) (hn : m[i + 1]? = some (k', v')) (hlt : pos < k')
    (hx : getSourcePosFor m pos = .ok x) : x ≤ v' := by
  rw [translate_segment m hm pos i k v hi hk (by
    intro k2 v2 h2; rw [hn] at h2; simp only [Option.some.injEq, Prod.mk.injEq] at h2; omega)] at hx
  simp only [Except.ok.injEq] at hx
  subst hx
  exact clampNext_le_next m i _ k' v' hn

/-- the translation of a position is at or after the source offset of its own entry -/
theorem translate_ge_entry (m : Srcmap) (hv : MonoMapV m) (pos i k v x : Nat)
    (h1 : lineOf m pos = .ok i) (h2 : m[i]? = some (k, v)) (h3 : k ≤ pos)
    (hx : getSourcePosFor m pos = .ok x) : v ≤ x := by
  rw [getSourcePosFor_of_line_clamp m pos i k v h1 h2 h3] at hx
  simp only [Except.ok.injEq] at hx
  subst hx
  apply clampNext_ge _ _ _ _ (by omega)
  intro k' v' hn
  have := hv i k v k' v' h2 hn
  omega

/-- **C05 / translate_mono_all.**  With the clamp the translation is monotone on EVERY table `get_lines`
    makes, the positions strictly inside the virtual spaces of a split tab included:
    `pos ≤ pos' → tr pos ≤ tr pos'`. -/
theorem translate_mono_all (m : Srcmap) (hm : WFMap m) (hv : MonoMapV m) (pos pos' : Nat)
    (hle : pos ≤ pos') (x x' : Nat)
    (hx : getSourcePosFor m pos = .ok x) (hx' : getSourcePosFor m pos' = .ok x') : x ≤ x' := by
  obtain ⟨i, k, v, h1, h2, h3, h4⟩ := lineOf_spec m hm pos
  obtain ⟨i', k', v', h1', h2', h3', h4'⟩ := lineOf_spec m hm pos'
  have hge := translate_ge_entry m hv pos' i' k' v' x' h1' h2' h3' hx'
  rw [getSourcePosFor_of_line_clamp m pos i k v h1 h2 h3] at hx
  rw [getSourcePosFor_of_line_clamp m pos' i' k' v' h1' h2' h3'] at hx'
  simp only [Except.ok.injEq] at hx hx'
  subst hx hx'
  rcases Nat.lt_trichotomy i i' with hlt | heq | hgt
  · -- a later line: go through the entry right after `pos`'s own
    obtain ⟨⟨k2, v2⟩, hn⟩ := getElem?_some_of_lt m (i + 1) i' _ h2' (by omega)
    have step := clampNext_le_next m i (v + (pos - k)) k2 v2 hn
    obtain ⟨n, hn'⟩ : ∃ n, i' = i + 1 + n := ⟨i' - (i + 1), by omega⟩
    subst hn'
    have := values_mono m hv (i + 1) n k2 v2 k' v' hn h2'
    omega
  · subst heq
    rw [h2] at h2'
    simp only [Option.some.injEq, Prod.mk.injEq] at h2'
    obtain ⟨rfl, rfl⟩ := h2'
    exact clampNext_mono m i _ _ (by omega)
  · have := h4' i k v hgt h2
    omega

/-- **C05 / translate_mono (tables with virtual-space entries).**  Special case of
    `translate_mono_all`, kept under its name: before the `fix:` monotonicity held only from positions
    that are not strictly inside the virtual spaces of a split tab (`translateRaw_mono_virtual`). -/
theorem translate_mono_virtual (m : Srcmap) (hm : WFMap m) (hv : MonoMapV m) (pos pos' : Nat)
    (_hreal : NotInsideVirtual m pos) (hle : pos ≤ pos') (x x' : Nat)
    (hx : getSourcePosFor m pos = .ok x) (hx' : getSourcePosFor m pos' = .ok x') : x ≤ x' :=
  translate_mono_all m hm hv pos pos' hle x x' hx hx'

/-- the pre-`fix:` function: monotone from every position that is not strictly inside the virtual
    spaces of a split tab -/
theorem translateRaw_mono_virtual (m : Srcmap) (hm : WFMap m) (hv : MonoMapV m) (pos pos' : Nat)
    (hreal : NotInsideVirtual m pos) (hle : pos ≤ pos') (x x' : Nat)
    (hx : getSourcePosForRaw m pos = .ok x) (hx' : getSourcePosForRaw m pos' = .ok x') : x ≤ x' := by
  obtain ⟨i, k, v, h1, h2, h3, h4⟩ := lineOf_spec m hm pos
  obtain ⟨i', k', v', h1', h2', h3', h4'⟩ := lineOf_spec m hm pos'
  rw [getSourcePosForRaw_of_line m pos i k v h1 h2 h3] at hx
  rw [getSourcePosForRaw_of_line m pos' i' k' v' h1' h2' h3'] at hx'
  simp only [Except.ok.injEq] at hx hx'
  subst hx hx'
  rcases Nat.lt_trichotomy i i' with hlt | heq | hgt
  · -- a later line: go through the entry right after `pos`'s own
    obtain ⟨⟨k2, v2⟩, hn⟩ := getElem?_some_of_lt m (i + 1) i' _ h2' (by omega)
    have hpk2 : pos < k2 := h4 (i + 1) k2 v2 (by omega) hn
    have step : v + (pos - k) ≤ v2 := by
      rcases hreal i k v k2 v2 h2 hn h3 hpk2 with h | h
      · omega
      · have := hv i k v k2 v2 h2 hn
        omega
    obtain ⟨n, hn'⟩ : ∃ n, i' = i + 1 + n := ⟨i' - (i + 1), by omega⟩
    subst hn'
    have := values_mono m hv (i + 1) n k2 v2 k' v' hn h2'
    omega
  · subst heq
    rw [h2] at h2'
    simp only [Option.some.injEq, Prod.mk.injEq] at h2'
    obtain ⟨rfl, rfl⟩ := h2'
    omega
  · have := h4' i k v hgt h2
    omega

/-- **C05 / translate_mono.**  Well-formed table, each line's source start at or after the previous
    line's source end: `pos ≤ pos' → tr pos ≤ tr pos'`. -/
theorem translate_mono (m : Srcmap) (hm : WFMap m) (hv : MonoMap m) (pos pos' : Nat)
    (hle : pos ≤ pos') (x x' : Nat)
    (hx : getSourcePosFor m pos = .ok x) (hx' : getSourcePosFor m pos' = .ok x') : x ≤ x' :=
  translate_mono_all m hm hv.toV pos pos' hle x x' hx hx'

/-- the table `get_lines` makes for `"a\n \tb"` cut at indent 2 (second line: one real space, then a tab
    of which 2 columns remain → 2 virtual spaces): keys 0 / 2 / 4, the last two entries with the same
    source offset -/
def exMap : Srcmap := [(0, 0), (2, 3), (4, 3)]

theorem exMap_wf : WFMap exMap := ⟨⟨0, _, rfl⟩, by decide⟩

theorem exMap_monoV : MonoMapV exMap := by
  intro i k1 v1 k2 v2 h1 h2
  match i with
  | 0 => simp [exMap] at h1 h2; omega
  | 1 => simp [exMap] at h1 h2; omega
  | n + 2 => simp [exMap] at h2

/-- non-vacuity of `translate_total` / `translate_affine` / `translate_mono_all`: both virtual spaces
    (positions 2 and 3) translate to the tab's byte, offset 3; the result is non-decreasing -/
example : (List.range 8).map (getSourcePosFor exMap) =
    [.ok 0, .ok 1, .ok 3, .ok 3, .ok 3, .ok 4, .ok 5, .ok 6] := by decide +kernel

/-- the pre-`fix:` function on the same table: position 3 runs ahead -/
example : (List.range 8).map (getSourcePosForRaw exMap) =
    [.ok 0, .ok 1, .ok 3, .ok 4, .ok 3, .ok 4, .ok 5, .ok 6] := by decide +kernel

example : getSourcePosFor exMap (4 + 2) = .ok (3 + 2) :=
  translate_affine exMap exMap_wf 2 4 3 2 (by decide +kernel) (by intro k' v' h; simp [exMap] at h)
    (by intro k' v' h; simp [exMap] at h)

/-- `translate_segment` inside the virtual segment: the affine value `3 + (3 − 2) = 4`, cut at the
    next entry's source offset 3 -/
example : getSourcePosFor exMap 3 = .ok (clampNext exMap 1 (3 + (3 - 2))) ∧
    clampNext exMap 1 (3 + (3 - 2)) = 3 :=
  ⟨translate_segment exMap exMap_wf 3 1 2 3 (by decide +kernel) (by omega)
    (by intro k' v' h; simp [exMap] at h; omega), by decide +kernel⟩

/-- `translate_le_next` inside the virtual segment -/
example : ∀ x, getSourcePosFor exMap 3 = .ok x → x ≤ 3 := fun x hx =>
  translate_le_next exMap exMap_wf 3 1 2 3 4 3 x (by decide +kernel) (by omega) (by decide +kernel)
    (by omega) hx

example : NotInsideVirtual exMap 2 ∧ NotInsideVirtual exMap 4 ∧ NotInsideVirtual exMap 1 := by
  refine ⟨?_, ?_, ?_⟩ <;> intro i k1 v1 k2 v2 h1 h2 a b <;>
    (match i with
     | 0 => simp [exMap] at h1 h2; omega
     | 1 => simp [exMap] at h1 h2; omega
     | n + 2 => simp [exMap] at h2)

example : WFMap [(0, 5), (4, 12), (9, 30)] ∧ MonoMap [(0, 5), (4, 12), (9, 30)] := by
  refine ⟨⟨⟨5, _, rfl⟩, by decide⟩, ?_⟩
  intro i k1 v1 k2 v2 h1 h2
  match i with
  | 0 => simp at h1 h2; omega
  | 1 => simp at h1 h2; omega
  | n + 2 => simp at h2

/-- The defect the `fix:` repairs, as a statement about the PRE-fix function `getSourcePosForRaw`:
    strictly inside the virtual spaces the affine translation runs ahead of the segment start
    (position 3 is the second virtual space; it was translated to source offset 4, the byte AFTER the
    one position 4 — the first real byte — maps to).  Well-formed `get_lines` table, `3 ≤ 4`, but
    `raw 3 = 4 > 3 = raw 4`; the repaired function answers 3 for both (`translate_mono_all`). -/
theorem translateRaw_not_mono_inside_virtual :
    WFMap exMap ∧ MonoMapV exMap ∧
      getSourcePosForRaw exMap 3 = .ok 4 ∧ getSourcePosForRaw exMap 4 = .ok 3 ∧
      getSourcePosFor exMap 3 = .ok 3 ∧ getSourcePosFor exMap 4 = .ok 3 :=
  ⟨exMap_wf, exMap_monoV, by decide +kernel, by decide +kernel, by decide +kernel, by decide +kernel⟩

/-! ## strings -/

theorem byteLen_append (a b : List Char) : byteLen (a ++ b) = byteLen a + byteLen b := by
  induction a with
  | nil => simp [byteLen]
  | cons c a ih => simp [byteLen, ih]; omega

theorem splitAtByte_append (a b : List Char) : splitAtByte (a ++ b) (byteLen a) = some (a, b) := by
  induction a with
  | nil => cases b <;> simp [splitAtByte, byteLen]
  | cons c a ih =>
    have hp := Char.utf8Size_pos c
    simp only [List.cons_append, splitAtByte, byteLen]
    rw [if_neg (by omega), if_neg (by omega)]
    have : c.utf8Size + byteLen a - c.utf8Size = byteLen a := by omega
    rw [this, ih]

/-- `&s[a..b]` succeeds exactly when `s = p ++ mid ++ q` with `|p| = a`, `|p ++ mid| = b` -/
theorem slice_ok_iff (s : List Char) (a b : Nat) (mid : List Char) :
    slice s a b = .ok mid ↔ ∃ p q, s = p ++ mid ++ q ∧ byteLen p = a ∧ a + byteLen mid = b := by
  constructor
  · intro h
    have hl := slice_len s a b mid h
    unfold slice at h
    split at h
    · simp at h
    · next hab =>
      split at h
      · simp at h
      · next p tail hs1 =>
        split at h
        · simp at h
        · next mid' q hs2 =>
          simp only [Except.ok.injEq] at h
          subst h
          obtain ⟨e1, e2⟩ := splitAtByte_spec _ _ _ _ hs1
          obtain ⟨e3, e4⟩ := splitAtByte_spec _ _ _ _ hs2
          exact ⟨p, q, by rw [e1, e3, List.append_assoc], e2, by omega⟩
  · rintro ⟨p, q, rfl, rfl, rfl⟩
    unfold slice
    rw [if_neg (by omega)]
    rw [List.append_assoc, splitAtByte_append]
    simp only
    have : byteLen p + byteLen mid - byteLen p = byteLen mid := by omega
    rw [this, splitAtByte_append]

/-- cutting a suffix off the selected text moves the range end left by its length -/
theorem slice_drop_suffix (s : List Char) (a b : Nat) (pre suf : List Char)
    (h : slice s a b = .ok (pre ++ suf)) : slice s a (b - byteLen suf) = .ok pre := by
  obtain ⟨p, q, e1, e2, e3⟩ := (slice_ok_iff _ _ _ _).mp h
  apply (slice_ok_iff _ _ _ _).mpr
  refine ⟨p, suf ++ q, by rw [e1]; simp, e2, ?_⟩
  rw [byteLen_append] at e3; omega

/-! ## `trailing_text_pop` -/

theorem popLast_snoc (init : List INode) (x : INode) : popLast (init ++ [x]) = some (init, x) := by
  rcases popLast_spec (init ++ [x]) with ⟨_, h⟩ | ⟨i, l, h1, h2⟩
  · simp at h
  · have := List.append_inj' h2 rfl
    simp only [List.cons.injEq, and_true] at this
    rw [h1, this.1, this.2]

/-- **C05 / pop_range.**  `trailing_text_pop(count)` on a trailing text node with range `(a, b)` whose
    content ends with `count` bytes `suf` (on a character boundary — the callers pass a number of
    trailing ASCII spaces), `0 < count < len`: the node keeps `pre`, its range becomes `(a, b − count)`.
    No re-translation takes place: `b` is already a source offset. -/
theorem pop_range (init : List INode) (node : INode) (a b count : Nat) (pre suf : List Char)
    (ht : node.isText = true) (hr : node.range = some (a, b)) (hc : node.content = pre ++ suf)
    (hsuf : byteLen suf = count) (hpos : 0 < count) (hpre : pre ≠ []) (hb : count ≤ b) :
    trailingTextPop (init ++ [node]) count =
      .ok (init ++ [{ node with content := pre, range := some (a, b - count) }]) := by
  have hlen : byteLen node.content = byteLen pre + count := by rw [hc, byteLen_append, hsuf]
  have hpre' : 0 < byteLen pre := by
    cases pre with
    | nil => exact absurd rfl hpre
    | cons c r => have := Char.utf8Size_pos c; simp only [byteLen]; omega
  unfold trailingTextPop
  rw [if_neg (by omega), popLast_snoc]
  simp only [ht, Bool.not_true, Bool.false_eq_true, if_false]
  rw [if_neg (by omega), if_neg (by omega)]
  have : byteLen node.content - count = byteLen pre := by omega
  rw [this]
  have : truncate node.content (byteLen pre) = .ok pre := by
    unfold truncate; rw [hc, splitAtByte_append]
  rw [this]
  simp only [hr]
  rw [if_neg (by omega)]

/-- **C05 / pop_range, faithfulness.**  If the trailing text node selects exactly its own text from
    the source (`source[a..b] = content`), it still does after the pop — and the side condition
    `count ≤ b` of `pop_range` is automatic. -/
theorem pop_faithful (source : List Char) (init : List INode) (node : INode) (a b count : Nat)
    (pre suf : List Char) (ht : node.isText = true) (hr : node.range = some (a, b))
    (hc : node.content = pre ++ suf) (hsuf : byteLen suf = count) (hpos : 0 < count)
    (hpre : pre ≠ []) (hf : slice source a b = .ok node.content) :
    ∃ node', trailingTextPop (init ++ [node]) count = .ok (init ++ [node']) ∧
      node'.isText = true ∧ node'.content = pre ∧ node'.range = some (a, b - count) ∧
      slice source a (b - count) = .ok node'.content := by
  have hl := slice_len _ _ _ _ hf
  have hb : count ≤ b := by
    rw [hc, byteLen_append, hsuf] at hl; omega
  refine ⟨_, pop_range init node a b count pre suf ht hr hc hsuf hpos hpre hb, ht, rfl, rfl, ?_⟩
  rw [hc] at hf
  rw [← hsuf]
  exact slice_drop_suffix _ _ _ _ _ hf

/-- **C05 / text_pop_total.**  No panic when the last child is a text node, `count` bytes can be cut
    off its end on a character boundary, and its range end (if it has a range) is at least `count`. -/
theorem text_pop_total (init : List INode) (node : INode) (count : Nat) (pre suf : List Char)
    (ht : node.isText = true) (hc : node.content = pre ++ suf) (hsuf : byteLen suf = count)
    (hb : ∀ a b, node.range = some (a, b) → count ≤ b) :
    ∃ out, trailingTextPop (init ++ [node]) count = .ok out := by
  have hlen : byteLen node.content = byteLen pre + count := by rw [hc, byteLen_append, hsuf]
  unfold trailingTextPop
  split
  · exact ⟨_, rfl⟩
  · rw [popLast_snoc]
    simp only [ht, Bool.not_true, Bool.false_eq_true, if_false]
    split
    · exact ⟨_, rfl⟩
    · rw [if_neg (by omega)]
      have : byteLen node.content - count = byteLen pre := by omega
      rw [this]
      have : truncate node.content (byteLen pre) = .ok pre := by
        unfold truncate; rw [hc, splitAtByte_append]
      rw [this]
      simp only
      split
      · exact ⟨_, rfl⟩
      · next a b hr =>
        rw [if_neg (by have := hb a b hr; omega)]
        exact ⟨_, rfl⟩

/-- non-vacuity (`"x y  "` at source 20..25, two trailing spaces popped) -/
example :
    ∃ node', trailingTextPop ([INode.newOther 1 none] ++ [INode.newText ['x', ' ', 'y', ' ', ' '] (some (20, 25))]) 2
        = .ok ([INode.newOther 1 none] ++ [node']) ∧
      node'.isText = true ∧ node'.content = ['x', ' ', 'y'] ∧ node'.range = some (20, 25 - 2) ∧
      slice (List.replicate 20 '.' ++ ['x', ' ', 'y', ' ', ' ', '\n']) 20 (25 - 2) = .ok node'.content :=
  pop_faithful _ _ _ 20 25 2 ['x', ' ', 'y'] [' ', ' '] rfl rfl rfl (by decide) (by decide) (by simp)
    (by show slice _ 20 25 = .ok ['x', ' ', 'y', ' ', ' ']; decide +kernel)

/-! ## `trailing_text_push` -/

/-- **C05 / push_range.**  After a successful `trailing_text_push(start, end)` the last child is a text
    node; either it is the previous trailing text node grown by `src[start..end]`, range start unchanged
    and range end `tr end` (a node without range stays without), or — when there was no trailing text
    node — a fresh one with content `src[start..end]` and range `(tr start, tr end)`. -/
theorem push_range (src : List Char) (m : Srcmap) (children : List INode) (start stop : Nat)
    (out : List INode) (h : trailingTextPush src m children start stop = .ok out) :
    ∃ piece, slice src start stop = .ok piece ∧
      ((∃ init old last, children = init ++ [old] ∧ old.isText = true ∧ out = init ++ [last] ∧
          last.isText = true ∧ last.content = old.content ++ piece ∧
          ((old.range = none ∧ last.range = none) ∨
            ∃ a b e, old.range = some (a, b) ∧ getSourcePosFor m stop = .ok e ∧
              last.range = some (a, e))) ∨
       (∃ last, (∀ y, children.getLast? = some y → y.isText = false) ∧ out = children ++ [last] ∧
          last.isText = true ∧ last.content = piece ∧
          ∃ s e, getSourcePosFor m start = .ok s ∧ getSourcePosFor m stop = .ok e ∧
            last.range = some (s, e))) := by
  have fresh : ∀ (hlast : ∀ y, children.getLast? = some y → y.isText = false),
      (match slice src start stop with
        | .error e => Except.error e
        | .ok piece =>
          match getMap m start stop with
          | .error e => .error e
          | .ok r => .ok (children ++ [INode.newText piece (some r)])) = Except.ok out →
      ∃ piece, slice src start stop = .ok piece ∧
        ∃ last, (∀ y, children.getLast? = some y → y.isText = false) ∧ out = children ++ [last] ∧
          last.isText = true ∧ last.content = piece ∧
          ∃ s e, getSourcePosFor m start = .ok s ∧ getSourcePosFor m stop = .ok e ∧
            last.range = some (s, e) := by
    intro hlast hf
    split at hf
    · simp at hf
    · next piece hp =>
      split at hf
      · simp at hf
      · next r hr =>
        simp only [Except.ok.injEq] at hf
        subst hf
        refine ⟨piece, hp, _, hlast, rfl, rfl, rfl, ?_⟩
        unfold getMap at hr
        split at hr
        · simp at hr
        · split at hr
          · simp at hr
          · next s hs =>
            split at hr
            · simp at hr
            · next e he =>
              simp only [Except.ok.injEq] at hr
              subst hr
              exact ⟨s, e, hs, he, rfl⟩
  unfold trailingTextPush at h
  rcases popLast_spec children with ⟨hp, hnil⟩ | ⟨init, last, hp, hsplit⟩
  · rw [hp] at h
    obtain ⟨piece, h1, h2⟩ := fresh (by simp [hnil]) h
    exact ⟨piece, h1, Or.inr h2⟩
  · rw [hp] at h
    simp only at h
    split at h
    · next hlt =>
      split at h
      · simp at h
      · next piece hpiece =>
        refine ⟨piece, hpiece, Or.inl ?_⟩
        split at h
        · next hnone =>
          simp only [Except.ok.injEq] at h
          subst h
          exact ⟨init, last, _, hsplit, hlt, rfl, hlt, rfl, Or.inl ⟨hnone, hnone⟩⟩
        · next a b hsome =>
          split at h
          · simp at h
          · next e he =>
            simp only [Except.ok.injEq] at h
            subst h
            exact ⟨init, last, _, hsplit, hlt, rfl, hlt, rfl, Or.inr ⟨a, b, e, hsome, he, rfl⟩⟩
    · next hnt =>
      have hlast : ∀ y, children.getLast? = some y → y.isText = false := by
        intro y hy
        rw [hsplit] at hy
        simp only [List.getLast?_append, List.getLast?_singleton, Option.some_or,
          Option.some.injEq] at hy
        subst hy
        simpa using hnt
      obtain ⟨piece, h1, h2⟩ := fresh hlast h
      exact ⟨piece, h1, Or.inr h2⟩

/-- **C05 / text_push_total.**  No panic when `start ≤ end` are character boundaries within `src`
    (i.e. the slice exists) and the table is well formed. -/
theorem text_push_total (src : List Char) (m : Srcmap) (hm : WFMap m) (children : List INode)
    (start stop : Nat) (piece : List Char) (hs : slice src start stop = .ok piece) :
    ∃ out, trailingTextPush src m children start stop = .ok out := by
  have hle : ¬ stop < start := by
    obtain ⟨_, _, _, e2, e3⟩ := (slice_ok_iff _ _ _ _).mp hs; omega
  obtain ⟨s, hs'⟩ := translate_total m hm start
  obtain ⟨e, he'⟩ := translate_total m hm stop
  unfold trailingTextPush
  simp only [hs, getMap, if_neg hle, hs', he']
  split
  · exact ⟨_, rfl⟩
  · split
    · split <;> exact ⟨_, rfl⟩
    · exact ⟨_, rfl⟩

theorem append_inj_byteLen (a b c d : List Char) (h : a ++ b = c ++ d)
    (hl : byteLen a = byteLen c) : a = c ∧ b = d := by
  induction a generalizing c with
  | nil =>
    cases c with
    | nil => exact ⟨rfl, by simpa using h⟩
    | cons y c => have := Char.utf8Size_pos y; simp only [byteLen] at hl; omega
  | cons x a ih =>
    cases c with
    | nil => have := Char.utf8Size_pos x; simp only [byteLen] at hl; omega
    | cons y c =>
      simp only [List.cons_append, List.cons.injEq] at h
      obtain ⟨rfl, h⟩ := h
      simp only [byteLen] at hl
      obtain ⟨rfl, rfl⟩ := ih c h (by omega)
      exact ⟨rfl, rfl⟩

/-- adjacent selections concatenate -/
theorem slice_append (s : List Char) (a b c : Nat) (x y : List Char)
    (h1 : slice s a b = .ok x) (h2 : slice s b c = .ok y) : slice s a c = .ok (x ++ y) := by
  obtain ⟨p, q, e1, e2, e3⟩ := (slice_ok_iff _ _ _ _).mp h1
  obtain ⟨p', q', e1', e2', e3'⟩ := (slice_ok_iff _ _ _ _).mp h2
  have hpx : byteLen (p ++ x) = byteLen p' := by rw [byteLen_append]; omega
  have := append_inj_byteLen (p ++ x) q p' (y ++ q') (by rw [← e1, e1']; simp) hpx
  apply (slice_ok_iff _ _ _ _).mpr
  refine ⟨p, q', ?_, e2, ?_⟩
  · rw [e1', ← this.1]; simp
  · rw [byteLen_append]; omega

/-- **C05 / push_range, faithfulness.**  If the trailing text node selects exactly its own text from
    the source, and the bytes pushed are the source bytes from its range end up to `tr end` (what
    `get_lines_faithful` provides for a push that continues where the node ended, on the same line),
    then the grown node selects exactly its own text again. -/
theorem push_faithful (source src : List Char) (m : Srcmap) (init : List INode) (old : INode)
    (start stop a b e : Nat) (piece : List Char) (ht : old.isText = true)
    (hr : old.range = some (a, b)) (hf : slice source a b = .ok old.content)
    (hs : slice src start stop = .ok piece) (he : getSourcePosFor m stop = .ok e)
    (hcont : slice source b e = .ok piece) :
    ∃ last, trailingTextPush src m (init ++ [old]) start stop = .ok (init ++ [last]) ∧
      last.isText = true ∧ last.range = some (a, e) ∧ slice source a e = .ok last.content := by
  refine ⟨{ old with content := old.content ++ piece, range := some (a, e) }, ?_, ht, rfl,
    slice_append _ _ _ _ _ _ hf hcont⟩
  unfold trailingTextPush
  rw [popLast_snoc]
  simp only [ht, if_true, hs, hr, he]

/-- `"ab\ncd"` (second line at source 7): push `"ab"`, then push `"\ncd"` onto it -/
def exPushTwice : Except InlineOps.Panic (List INode) :=
  match trailingTextPush ['a', 'b', '\n', 'c', 'd'] [(0, 2), (3, 7)] [] 0 2 with
  | .ok out1 => trailingTextPush ['a', 'b', '\n', 'c', 'd'] [(0, 2), (3, 7)] out1 2 5
  | .error e => .error e

/-- non-vacuity: range start kept (2), range end `tr 5 = 7 + (5 − 3) = 9` -/
example : C14.exShow exPushTwice = "T:ab\ncd:2-9" := by decide +kernel

example : WFMap [(0, 2), (3, 7)] ∧ slice ['a', 'b', '\n', 'c', 'd'] 2 5 = .ok ['\n', 'c', 'd'] :=
  ⟨⟨⟨2, _, rfl⟩, by decide⟩, by decide +kernel⟩

/-! ## `fragments_join` and ranges -/

/-- consecutive ranges inside the interval `[lo, hi]`: every node has a range `(a, b)` with `a ≤ b`,
    the first starts at or after `lo`, each starts at or after the end of its left neighbour, the last
    ends at or before `hi` -/
def Ordered : Nat → Nat → List INode → Prop
  | lo, hi, [] => lo ≤ hi
  | lo, hi, n :: rest => ∃ a b, n.range = some (a, b) ∧ lo ≤ a ∧ a ≤ b ∧ Ordered b hi rest

theorem ordered_weaken (lo lo' hi : Nat) (l : List INode) (h : Ordered lo hi l) (hl : lo' ≤ lo) :
    Ordered lo' hi l := by
  cases l with
  | nil => simp only [Ordered] at h ⊢; omega
  | cons n r =>
    obtain ⟨a, b, h1, h2, h3, h4⟩ := h
    exact ⟨a, b, h1, by omega, h3, h4⟩

theorem ordered_le (lo hi : Nat) (l : List INode) (h : Ordered lo hi l) : lo ≤ hi := by
  induction l generalizing lo with
  | nil => exact h
  | cons n r ih =>
    obtain ⟨a, b, _, h2, h3, h4⟩ := h
    have := ih b h4; omega

theorem markerToText_range (n : INode) : (markerToText n).range = n.range := by
  unfold markerToText; split <;> rfl

theorem ordered_pass1 (lo hi : Nat) (l : List INode) (h : Ordered lo hi l) :
    Ordered lo hi (pass1 l) := by
  induction l generalizing lo with
  | nil => exact h
  | cons n r ih =>
    obtain ⟨a, b, h1, h2, h3, h4⟩ := h
    exact ⟨a, b, by rw [markerToText_range]; exact h1, h2, h3, ih b h4⟩

theorem keep_emptied (n : INode) (h : n.isText = true) : keep (emptied n) = false := by
  have h1 : (emptied n).isText = true := h
  have h2 : (emptied n).content = [] := rfl
  unfold keep
  rw [h1, h2]; rfl

theorem ordered_filter_mergeLoop (lo hi : Nat) (cur : INode) (rest : List INode)
    (h : Ordered lo hi (cur :: rest)) : Ordered lo hi ((mergeLoop cur rest).filter keep) := by
  induction rest generalizing lo cur with
  | nil =>
    obtain ⟨a, b, h1, h2, h3, h4⟩ := h
    simp only [mergeLoop, List.filter_cons, List.filter_nil]
    split
    · exact ⟨a, b, h1, h2, h3, h4⟩
    · simp only [Ordered] at h4 ⊢; omega
  | cons nxt rest ih =>
    obtain ⟨a, b, h1, h2, h3, c, d, h5, h6, h7, h8⟩ := h
    simp only [mergeLoop]
    split
    · next hc =>
      simp only [Bool.and_eq_true] at hc
      rw [List.filter_cons_of_neg (by rw [keep_emptied _ hc.2]; simp)]
      apply ih
      refine ⟨a, d, ?_, h2, by omega, h8⟩
      simp [merged, h1, h5]
    · have hrec := ih b nxt ⟨c, d, h5, h6, h7, h8⟩
      simp only [List.filter_cons]
      split
      · exact ⟨a, b, h1, h2, h3, hrec⟩
      · exact ordered_weaken _ _ _ _ hrec (by omega)

/-- **C05 / join_ranges (order).**  If the children carry consecutive, non-overlapping ranges inside
    the parent's interval `[lo, hi]`, so do the children `fragments_join` leaves. -/
theorem join_ordered (lo hi : Nat) (cs : List INode) (h : Ordered lo hi cs) :
    Ordered lo hi (fragmentsJoin cs) := by
  rw [fragmentsJoin_eq, fragmentsJoinL]
  have := ordered_pass1 lo hi cs h
  cases hp : pass1 cs with
  | nil => rw [hp] at this; simpa [mergeAll] using this
  | cons c r => rw [hp] at this; exact ordered_filter_mergeLoop lo hi c r this

/-! ### structure of the result: non-text nodes are fixed points that cut the list into runs -/

theorem mergeLoop_nontext (o : INode) (ys : List INode) (ho : o.isText = false) :
    mergeLoop o ys = o :: mergeAll ys := by
  cases ys with
  | nil => rfl
  | cons y ys => simp [mergeLoop, mergeAll, ho]

theorem mergeLoop_split (cur : INode) (xs : List INode) (o : INode) (ys : List INode)
    (ho : o.isText = false) :
    mergeLoop cur (xs ++ o :: ys) = mergeLoop cur xs ++ o :: mergeAll ys := by
  induction xs generalizing cur with
  | nil =>
    simp only [List.nil_append, mergeLoop, ho, Bool.and_false, Bool.false_eq_true, if_false,
      List.cons_append]
    rw [mergeLoop_nontext o ys ho]
  | cons x xs ih =>
    simp only [List.cons_append, mergeLoop]
    split
    · rw [ih]; rfl
    · rw [ih]; rfl

theorem mergeAll_split (xs : List INode) (o : INode) (ys : List INode) (ho : o.isText = false) :
    mergeAll (xs ++ o :: ys) = mergeAll xs ++ o :: mergeAll ys := by
  cases xs with
  | nil => simpa [mergeAll] using mergeLoop_nontext o ys ho
  | cons x xs => simpa [mergeAll] using mergeLoop_split x xs o ys ho

/-- **C05 / join_ranges (non-text nodes, order of survivors).**  A non-text, non-marker child stays
    where it is, unchanged (kind, range, children), and what is left and right of it is processed
    independently — so survivors keep their relative order. -/
theorem join_split (xs : List INode) (o : INode) (ys : List INode) (k : Nat) (ho : o.kind = .other k) :
    fragmentsJoin (xs ++ o :: ys) = fragmentsJoin xs ++ o :: fragmentsJoin ys := by
  have h1 : markerToText o = o := by unfold markerToText; rw [ho]
  have h2 : o.isText = false := by unfold INode.isText; rw [ho]
  have h3 : keep o = true := by simp [keep, h2]
  simp only [fragmentsJoin_eq, fragmentsJoinL, pass1, List.map_append, List.map_cons, h1]
  rw [mergeAll_split _ _ _ h2, List.filter_append, List.filter_cons_of_pos h3]

/-- the merged node of a run: the FIRST node of the run, extended by the others from left to right -/
def hull (t : INode) (ts : List INode) : INode := ts.foldl merged t

theorem mergeLoop_run (cur : INode) (ts : List INode) (hc : cur.isText = true)
    (ht : ∀ t ∈ ts, t.isText = true) :
    mergeLoop cur ts = ts.map emptied ++ [hull cur ts] := by
  induction ts generalizing cur with
  | nil => rfl
  | cons t ts ih =>
    have h1 := ht t (by simp)
    simp only [mergeLoop, hc, h1, Bool.and_self, if_true, List.map_cons, List.cons_append, hull,
      List.foldl_cons]
    rw [ih (merged cur t) hc (fun x hx => ht x (by simp [hx]))]
    rfl

theorem isText_markerToText (n : INode) (h : n.isText = true ∨ C14.isMarker n = true) :
    (markerToText n).isText = true := by
  unfold markerToText
  split
  · rfl
  · next hk =>
    rcases h with h | h
    · exact h
    · unfold C14.isMarker at h
      split at h
      · next ch hk' => exact absurd hk' (hk ch)
      · simp at h

/-- **C05 / join_ranges (runs).**  A maximal run of text / marker children collapses to at most one
    node: the hull of the run (markers first turned into their text), dropped when its content is
    empty. -/
theorem join_run (t : INode) (ts : List INode)
    (ht : ∀ x ∈ t :: ts, x.isText = true ∨ C14.isMarker x = true) :
    fragmentsJoin (t :: ts) =
      if (hull (markerToText t) (pass1 ts)).content = [] then []
      else [hull (markerToText t) (pass1 ts)] := by
  have h0 : (markerToText t).isText = true := isText_markerToText t (ht t (by simp))
  have h1 : ∀ x ∈ pass1 ts, x.isText = true := by
    intro x hx
    simp only [pass1, List.mem_map] at hx
    obtain ⟨y, hy, rfl⟩ := hx
    exact isText_markerToText y (ht y (by simp [hy]))
  have hhull : ∀ (c : INode) (l : List INode), c.isText = true → (hull c l).isText = true := by
    intro c l
    induction l generalizing c with
    | nil => exact id
    | cons x l ih => intro hc; exact ih (merged c x) hc
  have hp : pass1 (t :: ts) = markerToText t :: pass1 ts := rfl
  rw [fragmentsJoin_eq, fragmentsJoinL, hp]
  simp only [mergeAll]
  rw [mergeLoop_run _ _ h0 h1, List.filter_append]
  have : (List.map emptied (pass1 ts)).filter keep = [] := by
    rw [List.filter_eq_nil_iff]
    intro a ha
    obtain ⟨b, hb, rfl⟩ := List.mem_map.mp ha
    rw [keep_emptied _ (h1 b hb)]; simp
  rw [this, List.nil_append]
  have hk : keep (hull (markerToText t) (pass1 ts)) =
      !(hull (markerToText t) (pass1 ts)).content.isEmpty := by
    simp [keep, hhull _ _ h0]
  by_cases hc : (hull (markerToText t) (pass1 ts)).content = []
  · rw [if_pos hc, List.filter_cons_of_neg (by rw [hk, hc]; simp)]; rfl
  · rw [if_neg hc, List.filter_cons_of_pos (by rw [hk]; simpa using hc)]; rfl

/-- content of the hull: the concatenation, in order -/
theorem hull_content (t : INode) (ts : List INode) :
    (hull t ts).content = t.content ++ (ts.map (·.content)).flatten := by
  induction ts generalizing t with
  | nil => simp [hull]
  | cons x ts ih =>
    simp only [hull, List.foldl_cons] at ih ⊢
    rw [ih]; simp [merged]

/-- range of the hull when every member of the run has a range: from the start of the first to the
    end of the last -/
theorem hull_range (t : INode) (ts : List INode) (a b : Nat) (ht : t.range = some (a, b))
    (hts : ∀ x ∈ ts, ∃ c d, x.range = some (c, d)) :
    ∃ e, (hull t ts).range = some (a, e) ∧
      (match ts.getLast? with
       | none => e = b
       | some l => ∃ c, l.range = some (c, e)) := by
  induction ts generalizing t b with
  | nil => exact ⟨b, ht, rfl⟩
  | cons x ts ih =>
    obtain ⟨c, d, hx⟩ := hts x (by simp)
    have hm : (merged t x).range = some (a, d) := by simp [merged, ht, hx]
    obtain ⟨e, he, hl⟩ := ih (merged t x) d hm (fun y hy => hts y (by simp [hy]))
    refine ⟨e, he, ?_⟩
    cases ts with
    | nil =>
      simp only [List.getLast?_nil] at hl
      subst hl
      exact ⟨c, hx⟩
    | cons y ys =>
      rw [List.getLast?_cons_cons]
      cases hgl : (y :: ys).getLast? with
      | none => simp at hgl
      | some l => rw [hgl] at hl; exact hl

/-- nodes of the run without a range: the left one missing → the hull has none; a right one missing →
    that step leaves the range as it was (so the hull may end before the run does) -/
theorem merged_range_none (t x : INode) :
    (t.range = none → (merged t x).range = none) ∧
    (x.range = none → (merged t x).range = t.range) := by
  constructor
  · intro h; simp [merged, h]
  · intro h; simp only [merged, h]; cases t.range <;> rfl

/-- non-vacuity: `Ordered 0 9`, one run of three (the middle one an unmatched `**` marker), an opaque
    node, an empty text (dropped) and a text -/
def exRun : List INode :=
  [C14.exText "a" 0 1, C14.exMarker '*' 2 1 3, C14.exText "b" 3 4,
    INode.newOther 5 (some (4, 6)), C14.exText "" 6 6, C14.exText "c" 7 9]

example : Ordered 0 9 exRun :=
  ⟨0, 1, rfl, by omega, by omega, 1, 3, rfl, by omega, by omega, 3, 4, rfl, by omega, by omega,
    4, 6, rfl, by omega, by omega, 6, 6, rfl, by omega, by omega, 7, 9, rfl, by omega, by omega,
    Nat.le_refl 9⟩

/-- the empty text `(6,6)` is the first node of the last run, so the hull starts there: `(6,9)` -/
example : C14.summary (fragmentsJoin exRun) = "T:a**b:0-4;N::4-6;T:c:6-9" := by decide +kernel

/-- non-vacuity of `join_run` / `hull_range` / `hull_content`: the run `a`, `**` (unmatched marker), `b` -/
example :
    (∀ x ∈ [C14.exText "a" 0 1, C14.exMarker '*' 2 1 3, C14.exText "b" 3 4],
      x.isText = true ∨ C14.isMarker x = true) ∧
    (hull (markerToText (C14.exText "a" 0 1))
      (pass1 [C14.exMarker '*' 2 1 3, C14.exText "b" 3 4])).range = some (0, 4) ∧
    (hull (markerToText (C14.exText "a" 0 1))
      (pass1 [C14.exMarker '*' 2 1 3, C14.exText "b" 3 4])).content = ['a', '*', '*', 'b'] := by
  refine ⟨?_, by decide +kernel, by decide +kernel⟩
  intro x hx
  simp only [List.mem_cons, List.mem_nil_iff, or_false] at hx
  rcases hx with rfl | rfl | rfl <;> decide

/-- non-vacuity of `join_split`: the opaque node of `exRun` -/
example : (INode.newOther 5 (some (4, 6))).kind = .other 5 := rfl

/-! ## one match step of `scan_and_match_delimiters` -/

/-- **C05 / emph_wrap_range.**  Opener marker range `(os, oe)`, closer marker range `(cs, ce)`, both
    source ranges, `oe ≤ cs`; `n` delimiters matched with `n ≤ oe − os`, `n ≤ ce − cs`.  Then no
    subtraction underflows, the opener keeps `(os, oe − n)`, the wrapper gets `(oe − n, cs + n)`, the
    closer keeps `(cs + n, ce)`; the three are consecutive and non-overlapping inside `[os, ce]`, and
    every range inside `[oe, cs]` (the children moved into the wrapper, a previous wrapper of the same
    pair included) lies inside the wrapper's. -/
theorem emph_wrap_range (os oe cs ce n : Nat) (h1 : os ≤ oe) (h2 : oe ≤ cs) (h3 : cs ≤ ce)
    (hn1 : n ≤ oe - os) (hn2 : n ≤ ce - cs) :
    ∃ w, wrapRanges os oe cs ce n = .ok w ∧
      w.opener = (os, oe - n) ∧ w.wrapper = (oe - n, cs + n) ∧ w.closer = (cs + n, ce) ∧
      os ≤ w.opener.2 ∧ w.opener.2 = w.wrapper.1 ∧ w.wrapper.1 ≤ w.wrapper.2 ∧
      w.wrapper.2 = w.closer.1 ∧ w.closer.1 ≤ ce ∧
      (∀ a b, oe ≤ a → a ≤ b → b ≤ cs → w.wrapper.1 ≤ a ∧ b ≤ w.wrapper.2) ∧
      (n > 0 → w.wrapper.1 < oe ∧ cs < w.wrapper.2) := by
  refine ⟨_, by unfold wrapRanges; rw [if_neg (by omega)], rfl, rfl, rfl, ?_⟩
  simp only
  refine ⟨by omega, trivial, by omega, trivial, by omega, ?_, ?_⟩
  · intro a b _ _ _; omega
  · intro _; omega

/-- the same in terms of sibling lists: the children (ordered inside `[oe, cs]`) are ordered inside
    the wrapper's range, and `opener-rest, wrapper, closer-rest` are ordered inside `[os, ce]` -/
theorem emph_wrap_ordered (os oe cs ce n : Nat) (h1 : os ≤ oe) (h2 : oe ≤ cs) (h3 : cs ≤ ce)
    (hn1 : n ≤ oe - os) (hn2 : n ≤ ce - cs) (children : List INode) (opener wrapper closer : INode)
    (hch : Ordered oe cs children) (w : WrapRanges) (hw : wrapRanges os oe cs ce n = .ok w)
    (ho : opener.range = some w.opener) (hwr : wrapper.range = some w.wrapper)
    (hcl : closer.range = some w.closer) :
    Ordered w.wrapper.1 w.wrapper.2 children ∧ Ordered os ce [opener, wrapper, closer] := by
  obtain ⟨w', hw', e1, e2, e3, _⟩ := emph_wrap_range os oe cs ce n h1 h2 h3 hn1 hn2
  rw [hw] at hw'
  simp only [Except.ok.injEq] at hw'
  subst hw'
  constructor
  · rw [e2]
    simp only
    have : ∀ (lo lo' hi hi' : Nat) (l : List INode), Ordered lo hi l → lo' ≤ lo → hi ≤ hi' →
        Ordered lo' hi' l := by
      intro lo lo' hi hi' l
      induction l generalizing lo lo' with
      | nil => intro h a b; simp only [Ordered] at h ⊢; omega
      | cons x r ih =>
        rintro ⟨a, b, q1, q2, q3, q4⟩ ha hb
        exact ⟨a, b, q1, by omega, q3, ih b b q4 (Nat.le_refl _) hb⟩
    exact this oe (oe - n) cs (cs + n) children hch (by omega) (by omega)
  · rw [e1] at ho; rw [e2] at hwr; rw [e3] at hcl
    exact ⟨os, oe - n, ho, Nat.le_refl _, by omega, oe - n, cs + n, hwr, Nat.le_refl _, by omega,
      cs + n, ce, hcl, Nat.le_refl _, by omega, Nat.le_refl _⟩

/-- non-vacuity: `**a**` at source 10: opener `(10,12)`, closer `(13,15)`, `n = 2` -/
example : wrapRanges 10 12 13 15 2 = .ok ⟨(10, 10), (10, 15), (15, 15)⟩ := by decide

/-- `***a**`: `n = 2` of an opener of 3 — the opener keeps its first byte -/
example : wrapRanges 10 13 14 16 2 = .ok ⟨(10, 11), (11, 16), (16, 16)⟩ := by decide

end MdIt.C05
