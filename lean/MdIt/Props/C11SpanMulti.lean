/-
  C11, third context — code SPANS — at WHOLE-DOCUMENT level: MULTI-LINE spans and the UNPADDED form.

  Property C11: "text enclosed in a backtick span longer than every backtick run in it reappears in the output
  character for character — HTML-escaped, … and for spans line endings turned into spaces and one pair of padding
  spaces removed."  `Props/C11Span.lean` proves this for ONE-line paragraphs `pre ++ `ᵏ⁺¹ ␠ T ␠ `ᵏ⁺¹ ++ post` (the padded
  form), where the clause "line endings turned into spaces" is void.  Here:

  THE SPAN `` `ᵏ⁺¹ R `ᵏ⁺¹ `` (`rawSpan k R`): `R` is ANY text that is not empty, neither begins nor ends with a
  backtick and holds no run of `k + 1` backticks (`CodePair.RawOk`) — padded or not, with line feeds or not.
  THE CONTENT of the `CodeInline` node's one text child is `spanContent R` (`strip_char`, section 1):
      R' := R with every LF replaced by ONE space            (`CodePair.normalise`; nothing else changes: a
                                                              continuation line's indentation and blanks in front
                                                              of the LF stay, CommonMark strips the former)
      content = if R' starts with ' ' and ends with ' ' and |R'| > 2 bytes then R' without first and last char
                else R'                                       (`CodePair.padded` / `unpad`, the code's
                                                              `starts_with(' ') && ends_with(' ') && len() > 2`)
  — also for `R'` consisting of spaces only (three or more): CommonMark does not strip then, the crate does.

  PROPERTY theorems
    `strip_char`, `padW_char`, `strip_padded`, `strip_unpadded`, `normalise_docOf`, `strip_lines`
                                                           what the content is (section 1)
    `doc_span_multiline_sp`, `doc_span_multiline`          the document `docOf Ls` — lines `Ls`, `n ≥ 1` of them,
                                                           forming ONE top-level paragraph (`SpanLines`: first
                                                           character `ParaFirst`, every further line `ContLine`) that
                                                           reads `pre ++ `ᵏ⁺¹ R `ᵏ⁺¹ ++ post` with `pre`, `post` plain:
                                                           the span opens on the first line and closes on the last —
                                                           the tree, exactly (kinds, payloads, every range, attributes):
                                                           `Root[Paragraph[Text pre, CodeInline[Text (spanContent R)],
                                                           Text post]]`; every range is the byte range in the source
    `doc_span_multiline_render_sp`, `doc_span_multiline_render`
                                                           `render` / `xrender`, exactly: `<p>pre<code>` escaped content
                                                           `</code>post</p>` LF
    `spanLines_padded`, `doc_span_padded_lines`, `doc_span_padded_lines_render`
                                                           the padded payload `T = t₁ ⏎ … ⏎ t_m` spelled out
                                                           (`paddedLines pre k ts post`): hypotheses on the pieces;
                                                           the content is `t₁ ␠ t₂ ␠ … ␠ t_m` (`spaced ts`), its range
                                                           the bytes of the payload
    `doc_span_raw_sp`, `doc_span_raw`, `doc_span_raw_render_sp`, `doc_span_raw_render`
                                                           ONE-line paragraphs with the general span, top level
    `doc_span_unpadded`, `doc_span_unpadded_render`        … `R` not both starting and ending with a space: the content
                                                           is `R`, the text child ranges over all of `R`
    `doc_span_raw_nested_sp`, `doc_span_raw_nested`, `doc_span_raw_render_nested_sp`, `doc_span_raw_render_nested`
                                                           the one-line paragraph inside any wrappers (block quotes,
                                                           list items), as in `Props/C11Span.lean`
  Built from `CodePair.span_raw_ctx` / `C11M.parseInline_raw` (Lemmas/C11SpanMultiInline.lean: the code-span rule and
  the inline parser on `pre ++ span ++ post` for the general span and ANY table with a total translation),
  `Block.parseBlocks_lines` (Lemmas/C11SpanMultiPara.lean: the block pass on an `n`-line top-level paragraph —
  `lazyScan` over the continuation lines in `lheading` and `paragraph`, every rule silent on a `ContLine` — with the
  exact table `idTable 0 Ls`), `C11M.idTable_translate` (that table translates every offset to itself),
  Lemmas/C11SpanMultiDoc.lean (join, sourcepos, render for nodes with any ranges) and the serializer part of
  Lemmas/C11SpanDoc.lean.

  What the model (= the crate, checked on every example of section 6) does with a multi-line span:
    * the block structure comes first: the lines of the span are paragraph continuation lines; a line that a block
      rule claims in look-ahead (`- y`, `===`, a fence, a blank line) ends the paragraph and the span with it
      (witnesses in section 6) — hence the hypothesis `ContLine` per line;
    * where the paragraph goes on, EVERY line ending inside the span becomes ONE space and nothing else changes:
      a continuation line's indentation stays in the content (CommonMark strips it), blanks in front of the line
      feed stay (no hard break inside a span), a line indented by 4 or more columns is payload whatever it holds;
    * the stripping test runs AFTER that, so a line feed directly behind the opening run / in front of the closing
      run counts as a padding space.

  OPEN (see the end of the file): the multi-line paragraph inside containers; paragraphs with further lines in
  front of the opening line / behind the closing line (soft breaks in `pre` / `post`).
-/
import MdIt.Props.C11Span
import MdIt.Lemmas.C11SpanMultiDoc
import MdIt.Lemmas.C11SpanMultiPara
set_option linter.unusedSimpArgs false
set_option linter.unusedVariables false

namespace MdIt.C11M
open MdIt.Block MdIt.Block.Li MdIt.Pipeline MdIt.C11N
open MdIt.Lines (NoTerm lead)
open MdIt.Render (Event piece piecesFrom flatten solAfter attrsStr escapeHtml)
open MdIt.NodeRender (aSourcepos tP tCode tBlockquote tUl tOl tLi olAttrs)
open MdIt.C11S (PlainTxt QuietTick)

/-! ## 1. the content: the exact stripping rule -/

/-- **`strip_char`**: the text of the code node, from the characters `R` between the backtick runs.  With
    `R' = normalise R` (`R` with every line feed replaced by one space): if `R'` starts with a space, ends with
    a space and is longer than 2 bytes, `R'` without its first and its last character; otherwise `R'`. -/
theorem strip_char (R : List Char) :
    spanContent R =
      if (CodePair.normalise R).head? = some ' ' ∧ (CodePair.normalise R).getLast? = some ' ' ∧
          2 < Lines.byteLen (CodePair.normalise R)
      then (CodePair.normalise R).tail.dropLast else CodePair.normalise R := by
  unfold spanContent CodePair.unpad CodePair.padded
  simp only [Bool.and_eq_true, beq_iff_eq, decide_eq_true_eq, and_assoc, C05I.linesLen_eq, Inline.codeByteLen_eq]

/-- … and the width of the padding taken off either end of the text child's range: 1 in the first case, else 0 -/
theorem padW_char (R : List Char) :
    padW R =
      if (CodePair.normalise R).head? = some ' ' ∧ (CodePair.normalise R).getLast? = some ' ' ∧
          2 < Lines.byteLen (CodePair.normalise R)
      then 1 else 0 := by
  unfold padW CodePair.padded
  simp only [Bool.and_eq_true, beq_iff_eq, decide_eq_true_eq, and_assoc, C05I.linesLen_eq, Inline.codeByteLen_eq]

/-- the padded form `␠ T ␠` (`T ≠ []`): exactly the one pair goes — `T` with its line feeds turned into spaces
    stays whole, also when it begins / ends with spaces or consists of spaces only -/
theorem strip_padded (T : List Char) (hT : T ≠ []) :
    spanContent (' ' :: T ++ [' ']) = CodePair.normalise T ∧ padW (' ' :: T ++ [' ']) = 1 := by
  have hn : CodePair.normalise (' ' :: T ++ [' ']) = ' ' :: CodePair.normalise T ++ [' '] := by
    simp [CodePair.normalise]
  obtain ⟨h1, h2⟩ := CodePair.strip_exact (CodePair.normalise T) (CodePair.normalise_ne_nil hT)
  exact ⟨by rw [spanContent, hn, h2], by rw [padW, hn, if_pos h1]⟩

/-- the unpadded form on one line (`R` does not both begin and end with a space): nothing is stripped, nothing
    changes — the content is `R` -/
theorem strip_unpadded (R : List Char) (hl : NoTerm R) (hu : ¬ (R.head? = some ' ' ∧ R.getLast? = some ' ')) :
    spanContent R = R ∧ padW R = 0 := by
  have hn := C11N.normalise_line hl
  rw [strip_char, padW_char, hn]
  exact ⟨by rw [if_neg (fun h => hu ⟨h.1, h.2.1⟩)], by rw [if_neg (fun h => hu ⟨h.1, h.2.1⟩)]⟩

/-- the payload lines `t₁ … t_m` joined by ONE space each -/
def spaced : List (List Char) → List Char
  | [] => []
  | [t] => t
  | t :: u :: r => t ++ ' ' :: spaced (u :: r)

/-- **line endings are turned into spaces**: `normalise` of the lines joined by LF is the lines joined by a space —
    every line whole, indentation and trailing blanks included -/
theorem normalise_docOf : ∀ (ts : List (List Char)), (∀ t ∈ ts, NoTerm t) →
    CodePair.normalise (docOf ts) = spaced ts
  | [], _ => rfl
  | [t], h => by
    simpa [docOf, Lines.joinLines, spaced] using C11N.normalise_line (h t (by simp))
  | t :: u :: r, h => by
    have ih := normalise_docOf (u :: r) (fun x hx => h x (List.mem_cons_of_mem _ hx))
    have ht := C11N.normalise_line (h t (by simp))
    simp only [docOf, Lines.joinLines, spaced] at ih ⊢
    rw [CodePair.normalise_append, ht]
    simp only [CodePair.normalise, List.map_cons, if_true] at ih ⊢
    rw [ih]

/-- the padded multi-line payload `␠ t₁ ⏎ t₂ ⏎ … ⏎ t_m ␠`: the content is `t₁ ␠ t₂ ␠ … ␠ t_m` -/
theorem strip_lines (ts : List (List Char)) (hts : ∀ t ∈ ts, NoTerm t) (hne : docOf ts ≠ []) :
    spanContent (' ' :: docOf ts ++ [' ']) = spaced ts ∧ padW (' ' :: docOf ts ++ [' ']) = 1 := by
  have := strip_padded (docOf ts) hne
  rw [normalise_docOf ts hts] at this
  exact this

/-- three spaces: the crate strips one pair (CommonMark keeps all three); two spaces stay; a content that only
    starts with a space keeps it; a line feed at either end counts as a space -/
example : spanContent [' ', ' ', ' '] = [' '] ∧ spanContent [' ', ' '] = [' ', ' '] ∧
    spanContent [' ', 'x'] = [' ', 'x'] ∧ spanContent ['\n', 'x', '\n'] = ['x'] ∧
    spanContent [' ', 'x', ' ', ' '] = ['x', ' '] := by decide +kernel

/-! ## 2. from the block tree to the document tree -/

section core
variable (cfg : DocCfg) (src : List Char) (pre R post : List Char) (k : Nat)
  (hpre : PlainTxt pre) (hpost : PlainTxt post) (hR : CodePair.RawOk '`' k R)
  (htrim : Inline.trimSrc (pre ++ rawSpan k R ++ post) = (0, InlineOps.byteLen (pre ++ rawSpan k R ++ post)))
  (c1 c2 : List Inline.RuleId) (hic : cfg.inlineChain = .text :: (c1 ++ .backticks :: c2))
  (hq : ∀ r ∈ c1, QuietTick r) (hmn : 0 < cfg.maxNesting)
  (w : List Wrapper) (E W : Nat) (m : List (Nat × Nat)) (tr : Nat → Nat)
  (hm : ∀ a, InlineOps.getSourcePosFor (m.map fun kv => (kv.1, kv.2 + W)) a = .ok (tr a))
  (hb : parseBlocks cfg.blockCfg src =
    .ok (⟨.root, some (0, E), wrapForest E w 0 (paraLeaf (pre ++ rawSpan k R ++ post) m 0 W E (tightOf w))⟩, []))
include hpre hpost hR htrim hic hq hmn hm hb

/-- the document tree, given the block tree: the wrapper nodes around the paragraph (or, tight, around nothing)
    over `Text pre`, `CodeInline[Text (spanContent R)]`, `Text post` -/
theorem parseDoc_of_blocks_raw :
    parseDoc cfg src =
      .ok ⟨.blk .root, some (0, E), spAttrs cfg src (0, E),
        wrapForestN (spAttrs cfg src) E w 0
          (spanLeaf (spAttrs cfg src) W E (tightOf w) (rawNodes (spAttrs cfg src) tr k pre R post))⟩ := by
  have hpi := parseInline_raw (cfg.inlineCfg []) hmn c1 c2 hic hq pre R post k _ tr hm hpre hpost hR htrim
  have hsl := spliceList_paraLeaf (cfg.inlineCfg []) (pre ++ rawSpan k R ++ post) m 0 W E (tightOf w) _ hpi
  rw [ofInlineList_raw, Nat.add_zero] at hsl
  have hsf := splice_wrapForest (cfg.inlineCfg []) E _ _ hsl w 0
  unfold parseDoc
  rw [hb]
  refine afterBlocks_forest cfg src (0, E) [] _ _ _ hsf
    (joinFix_wrapForestN _ E _ (joinFix_spanLeaf _ _ _ _ _ (joinFix_rawNodes _ tr k pre R post hR.ne)) w 0) ?_ ?_
  · intro hs; rw [spAttrs_off hs]
  · intro hs
    rw [spAttrs_on hs]
    exact sourcepos_wrapForestN src E _ _ (sourcepos_spanLeaf src W E _ _ _ (sourcepos_rawNodes src tr k pre R post)) w 0

/-- the rendering, given the block tree -/
theorem renderDoc_of_blocks_raw (x : Bool) :
    renderDoc x cfg src =
      .ok (Render.replaceNul (spanHtmlA (spAttrs cfg src) E
        (openTag tP (spAttrs cfg src (W, E)) ++
          inlHtml (spAttrs cfg src (spanRange tr k pre R)) pre (spanContent R) post ++ closeTag tP ++ ['\n'])
        (inlHtml (spAttrs cfg src (spanRange tr k pre R)) pre (spanContent R) post) w 0)) := by
  have hp := parseDoc_of_blocks_raw cfg src pre R post k hpre hpost hR htrim c1 c2 hic hq hmn w E W m tr hm hb
  have hev := render_wrapForestN cfg.entity cfg.langPrefix (spAttrs cfg src) E _ _
    (renderList_spanLeaf cfg.entity cfg.langPrefix (spAttrs cfg src) W E (tightOf w) _ _
      (renderList_rawNodes cfg.entity cfg.langPrefix (spAttrs cfg src) tr k pre R post)) w 0
  have hbl := blocky_spanForest x (spAttrs cfg src) E (spAttrs cfg src (W, E))
    (spAttrs cfg src (spanRange tr k pre R)) pre (spanContent R) post w 0
  unfold renderDoc
  rw [hp]
  simp only [renderEvents_rootL cfg _ _ _ _ hev, serialize_blocky hbl]

end core

/-! ## 3. ONE-line paragraphs with the general span -/

/-- the hypotheses on the one-line paragraph `pre ++ `ᵏ⁺¹ R `ᵏ⁺¹ ++ post` -/
structure RawLine (pre R post : List Char) (k : Nat) : Prop where
  /-- `pre` starts with a character no block rule but `paragraph` claims -/
  first : ∃ c r, pre = c :: r ∧ ParaFirst c
  /-- `pre`, `post`: no character of the text rule's stop set, no CR -/
  plainPre : PlainTxt pre
  plainPost : PlainTxt post
  preCR : '\r' ∉ pre
  postCR : '\r' ∉ post
  /-- the line does not end with a blank -/
  postEnd : ∀ c ∈ post.getLast?, Inline.isSpTab c = false
  /-- `R`: not empty, no backtick at either end, no run of `k + 1` backticks -/
  raw : CodePair.RawOk '`' k R
  /-- no line terminator in `R` -/
  line : NoTerm R

instance (m : Char) (k : Nat) (R : List Char) : Decidable (CodePair.RawOk m k R) :=
  if h : R ≠ [] ∧ R.head? ≠ some m ∧ R.getLast? ≠ some m ∧ ¬ List.replicate (k + 1) m <:+: R then
    isTrue ⟨h.1, h.2.1, h.2.2.1, h.2.2.2⟩
  else isFalse (fun r => h ⟨r.ne, r.head, r.last, r.runs⟩)

theorem noTerm_ticks (k : Nat) : NoTerm (ticks k) := by
  intro c hc
  rw [(List.mem_replicate.mp hc).2]
  decide

theorem noTerm_rawSpan (k : Nat) {R : List Char} (h : NoTerm R) : NoTerm (rawSpan k R) :=
  noTerm_append (noTerm_append (noTerm_ticks k) h) (noTerm_ticks k)

theorem getLast?_rawSpan (a : List Char) (k : Nat) (R : List Char) : (a ++ rawSpan k R).getLast? = some '`' := by
  simp only [rawSpan, ticks, List.replicate_succ', ← List.append_assoc]
  exact Block.getLast?_snoc _ _

/-- the facts about a line `pre ++ span ++ post` the inline parser needs -/
theorem trim_of_ends (pre S post : List Char) (c : Char) (r : List Char) (hpre : pre = c :: r) (hpf : ParaFirst c)
    (hS : ∀ a : List Char, (a ++ S).getLast? = some '`')
    (hend : ∀ d ∈ post.getLast?, Inline.isSpTab d = false) :
    Inline.trimSrc (pre ++ S ++ post) = (0, InlineOps.byteLen (pre ++ S ++ post)) := by
  have hlast : ∃ d, (pre ++ S ++ post).getLast? = some d ∧ Inline.isSpTab d = false := by
    rcases List.eq_nil_or_concat post with hp | ⟨i, d, hp⟩
    · subst hp
      exact ⟨'`', by rw [List.append_nil]; exact hS pre, by decide⟩
    · refine ⟨d, ?_, hend d (by rw [hp]; simp)⟩
      rw [hp]; simp
  obtain ⟨d, hd, hdb⟩ := hlast
  exact C11S.trimSrc_ends _ c d (r ++ S ++ post) (by simp [hpre]) hd (by simp [Inline.isSpTab, hpf.1, hpf.2.1]) hdb

section line
variable {pre R post : List Char} {k : Nat} (h : RawLine pre R post k)
include h

theorem RawLine.noTerm : NoTerm (pre ++ rawSpan k R ++ post) :=
  noTerm_append (noTerm_append (noTerm_plain h.plainPre h.preCR) (noTerm_rawSpan k h.line))
    (noTerm_plain h.plainPost h.postCR)

theorem RawLine.cons : ∃ c r, pre ++ rawSpan k R ++ post = c :: r ∧ ParaFirst c ∧ c ∈ pre ++ rawSpan k R ++ post := by
  obtain ⟨c, r, hp, hc⟩ := h.first
  exact ⟨c, r ++ rawSpan k R ++ post, by simp [hp], hc, by simp [hp]⟩

theorem RawLine.trim :
    Inline.trimSrc (pre ++ rawSpan k R ++ post) = (0, InlineOps.byteLen (pre ++ rawSpan k R ++ post)) := by
  obtain ⟨c, r, hp, hc⟩ := h.first
  exact trim_of_ends pre _ post c r hp hc (fun a => getLast?_rawSpan a k R) h.postEnd

end line

/-- the one-entry table moved by `W`: `a ↦ W + a` -/
theorem single_moved (W a : Nat) :
    InlineOps.getSourcePosFor (([(0, 0)] : List (Nat × Nat)).map fun kv => (kv.1, kv.2 + W)) a = .ok (W + a) := by
  simp only [List.map_cons, List.map_nil, Nat.zero_add]
  exact C05I.single_translate W a

/-- the block pass on a one-line top-level paragraph, in the form the core takes -/
theorem blocks_top_line (cfg : DocCfg) {c : Char} {r : List Char} (hnt : NoTerm (c :: r)) (hpf : ParaFirst c)
    (bpre bpost : List Block.RuleId) (hbc : cfg.blockChain = bpre ++ .paragraph :: bpost) (hbp : .paragraph ∉ bpre)
    (hmn : 0 < cfg.maxNesting) :
    parseBlocks cfg.blockCfg (c :: r) =
      .ok (⟨.root, some (0, Lines.byteLen (c :: r)),
        wrapForest (Lines.byteLen (c :: r)) [] 0
          (paraLeaf (c :: r) [(0, 0)] 0 0 (Lines.byteLen (c :: r)) (tightOf []))⟩, []) := by
  have := parseBlocks_line hnt hpf (cfg := cfg.blockCfg) hbc hbp hmn
  simpa [wrapForest, paraLeaf, tightOf, inlineRootAt] using this

/-- … and inside wrappers (`Props/C11Span.lean`, `blocks_nested`, for any tab-free line) -/
theorem blocks_nested_line (cfg : DocCfg) (l : List Char) {c : Char} {r : List Char} (hc : l = c :: r)
    (hpf : ParaFirst c) (hnt : NoTerm l) (htab : '\t' ∉ l)
    (bpre bpost : List Block.RuleId) (hbc : cfg.blockChain = bpre ++ .paragraph :: bpost) (hbp : .paragraph ∉ bpre)
    (w : List Wrapper) (hw : ∀ x ∈ w, x.Ok) (hch : ChainFor cfg.blockChain w)
    (hmn : depthCost w < cfg.maxNesting) (hsize : Lines.byteLen (wrapAll w l) + 20 < 2147483648) :
    parseBlocks cfg.blockCfg (wrapAll w l) =
      .ok (⟨.root, some (0, Lines.byteLen (wrapAll w l)),
        wrapForest (Lines.byteLen (wrapAll w l)) w 0
          (paraLeaf l [(0, 0)] 0 (widthAll w) (Lines.byteLen (wrapAll w l)) (tightOf w))⟩, []) := by
  have hmem : c ∈ l := by rw [hc]; simp
  have hld := lead_nonblank_cons r hpf.notBlank
  have g : Good [l] :=
    ⟨by simp, by intro x hx; rw [List.mem_singleton] at hx; subst hx; exact hnt, by rw [hc]; simp,
     by intro x hx; rw [List.mem_singleton] at hx; subst hx; exact htab⟩
  have hf : FirstLineOk l := by
    rw [hc]; exact ⟨by rw [hld.2]; simp, .inl (by rw [hld.1]; rfl)⟩
  have hmn' : 0 < ({ cfg.blockCfg with maxNesting := cfg.maxNesting - depthCost w } : Block.Cfg).maxNesting := by
    show 0 < cfg.maxNesting - depthCost w; omega
  have hbase := parseBlocks_line (c := c) (r := r) (by rw [← hc]; exact hnt) hpf
    (cfg := { cfg.blockCfg with maxNesting := cfg.maxNesting - depthCost w }) hbc hbp hmn'
  have htight := tokenize_line_tight (c := c) (r := r) (by rw [← hc]; exact hnt) hpf
    (cfg := { cfg.blockCfg with maxNesting := cfg.maxNesting - depthCost w }) hbc hbp hmn'
  rw [← hc] at hbase htight
  exact (doc_para_blocks_nested cfg _ [(0, 0)] 0 _ g hf (Nat.zero_le _) (by simp) w hw hch
    (fun _ => hrFree_of_mem hmem ⟨hpf.1, hpf.2.1, hpf.2.2.2.2.2.2.1, hpf.2.2.2.2.2.1, hpf.2.2.2.2.2.2.2.1⟩ w)
    hmn hsize hbase htight).2

/-- the plain HTML of the paragraph -/
theorem plain_html (cfg : DocCfg) (src : List Char) (hsp : cfg.sourcepos = false) (x : Bool) (E W : Nat)
    (rg : Nat × Nat) (pre C post : List Char) (w : List Wrapper) (res : Except Pipeline.Panic (List Char))
    (h : res = .ok (Render.replaceNul (spanHtmlA (spAttrs cfg src) E
        (openTag tP (spAttrs cfg src (W, E)) ++ inlHtml (spAttrs cfg src rg) pre C post ++ closeTag tP ++ ['\n'])
        (inlHtml (spAttrs cfg src rg) pre C post) w 0))) :
    res = .ok (spanHtml w (codeHtml (Render.nulStr pre) (Render.nulStr C) (Render.nulStr post))) := by
  rw [spAttrs_off hsp] at h
  simp only [inlHtml_nil, spanHtmlA_nil, Render.replaceNul_eq_nulStr, nulStr_spanHtml, nulStr_codeHtml] at h
  exact h

/-- the children of the paragraph when nothing is stripped: the text child holds `R` and ranges over all of `R` -/
theorem rawNodes_unpadded (att : Nat × Nat → List (List Char × List Char)) (tr : Nat → Nat) (k : Nat)
    (pre R post : List Char) (hl : NoTerm R) (hu : ¬ (R.head? = some ' ' ∧ R.getLast? = some ' ')) :
    rawNodes att tr k pre R post =
      txtR att (tr 0, tr (Lines.byteLen pre)) pre ++
        [codeR att k (spanRange tr k pre R)
          (tr (Lines.byteLen pre + (k + 1)), tr (Lines.byteLen pre + (k + 1) + Lines.byteLen R)) R] ++
        txtR att (tr (Lines.byteLen pre + (2 * (k + 1) + Lines.byteLen R)),
          tr (Lines.byteLen pre + (2 * (k + 1) + Lines.byteLen R) + Lines.byteLen post)) post := by
  obtain ⟨h1, h2⟩ := strip_unpadded R hl hu
  simp only [rawNodes, innerRange, h1, h2, Nat.add_zero, Nat.sub_zero]

section top
variable (cfg : DocCfg) (pre R post : List Char) (k : Nat) (h : RawLine pre R post k)
  (c1 c2 : List Inline.RuleId) (hic : cfg.inlineChain = .text :: (c1 ++ .backticks :: c2))
  (hq : ∀ r ∈ c1, QuietTick r)
  (bpre bpost : List Block.RuleId) (hbc : cfg.blockChain = bpre ++ .paragraph :: bpost) (hbp : .paragraph ∉ bpre)
  (hmn : 0 < cfg.maxNesting)
include h hic hq hbc hbp hmn

omit hic hq in
theorem blocks_top_raw :
    parseBlocks cfg.blockCfg (pre ++ rawSpan k R ++ post) =
      .ok (⟨.root, some (0, Lines.byteLen (pre ++ rawSpan k R ++ post)),
        wrapForest (Lines.byteLen (pre ++ rawSpan k R ++ post)) [] 0
          (paraLeaf (pre ++ rawSpan k R ++ post) [(0, 0)] 0 0 (Lines.byteLen (pre ++ rawSpan k R ++ post)) (tightOf []))⟩, []) := by
  obtain ⟨c, r, hc, hpf, _⟩ := h.cons
  have hnt := h.noTerm
  rw [hc] at hnt ⊢
  exact blocks_top_line cfg hnt hpf bpre bpost hbc hbp hmn

/-- **`doc_span_raw`, any `sourcepos`** (top level).  The one-line document `pre ++ `ᵏ⁺¹ R `ᵏ⁺¹ ++ post` (`RawLine`)
    parses to `Root[Paragraph[…]]`, root and paragraph over the whole source, the paragraph's children
    (`rawNodes`, ranges = byte ranges): the `Text` node of `pre`, ONE `CodeInline` node over the whole span (marker
    `` ` ``, length `k + 1`) whose single child is the `Text` node holding `spanContent R` (`strip_char`) over the
    bytes of `R` — without the first and the last one when the padding pair is stripped —, the `Text` node of
    `post`.  Attributes: those of `SyntaxPosRule` (`spAttrs`) on every node. -/
theorem doc_span_raw_sp :
    parseDoc cfg (pre ++ rawSpan k R ++ post) =
      .ok ⟨.blk .root, some (0, Lines.byteLen (pre ++ rawSpan k R ++ post)),
        spAttrs cfg (pre ++ rawSpan k R ++ post) (0, Lines.byteLen (pre ++ rawSpan k R ++ post)),
        [⟨.blk .paragraph, some (0, Lines.byteLen (pre ++ rawSpan k R ++ post)),
          spAttrs cfg (pre ++ rawSpan k R ++ post) (0, Lines.byteLen (pre ++ rawSpan k R ++ post)),
          rawNodes (spAttrs cfg (pre ++ rawSpan k R ++ post)) (fun a => a) k pre R post⟩]⟩ := by
  have := parseDoc_of_blocks_raw cfg _ pre R post k h.plainPre h.plainPost h.raw h.trim c1 c2 hic hq hmn [] _ 0
    [(0, 0)] (fun a => a) (fun a => by rw [single_moved, Nat.zero_add])
    (blocks_top_raw cfg pre R post k h bpre bpost hbc hbp hmn)
  simpa [wrapForestN, spanLeaf, tightOf] using this

/-- **`doc_span_raw`** (top level, no `sourcepos` plugin): the tree, exactly, no attributes anywhere -/
theorem doc_span_raw (hsp : cfg.sourcepos = false) :
    parseDoc cfg (pre ++ rawSpan k R ++ post) =
      .ok ⟨.blk .root, some (0, Lines.byteLen (pre ++ rawSpan k R ++ post)), [],
        [⟨.blk .paragraph, some (0, Lines.byteLen (pre ++ rawSpan k R ++ post)), [],
          rawNodes (fun _ => []) (fun a => a) k pre R post⟩]⟩ := by
  have := doc_span_raw_sp cfg pre R post k h c1 c2 hic hq bpre bpost hbc hbp hmn
  rw [spAttrs_off hsp] at this
  exact this

/-- **`doc_span_raw_render`, any `sourcepos`** (top level): `<p ATTRS>`, escaped `pre`, `<code ATTRS>`, escaped
    content, `</code>`, escaped `post`, `</p>`, LF; then the serializer's NUL replacement -/
theorem doc_span_raw_render_sp (x : Bool) :
    renderDoc x cfg (pre ++ rawSpan k R ++ post) =
      .ok (Render.replaceNul
        (openTag tP (spAttrs cfg (pre ++ rawSpan k R ++ post) (0, Lines.byteLen (pre ++ rawSpan k R ++ post))) ++
          inlHtml (spAttrs cfg (pre ++ rawSpan k R ++ post) (spanRange (fun a => a) k pre R)) pre (spanContent R) post ++
          closeTag tP ++ ['\n'])) := by
  have := renderDoc_of_blocks_raw cfg _ pre R post k h.plainPre h.plainPost h.raw h.trim c1 c2 hic hq hmn [] _ 0
    [(0, 0)] (fun a => a) (fun a => by rw [single_moved, Nat.zero_add])
    (blocks_top_raw cfg pre R post k h bpre bpost hbc hbp hmn) x
  simpa [spanHtmlA] using this

/-- **`doc_span_raw_render`** (top level, no `sourcepos` plugin), both serializers: the output is `<p>` `pre` `<code>`
    content `</code>` `post` `</p>` LF with exactly `& < > "` escaped and NUL replaced by U+FFFD; the content is
    `spanContent R` — `R` character for character but for the stripping rule of `strip_char` -/
theorem doc_span_raw_render (hsp : cfg.sourcepos = false) (x : Bool) :
    renderDoc x cfg (pre ++ rawSpan k R ++ post) =
      .ok ("<p>".toList ++ codeHtml (Render.nulStr pre) (Render.nulStr (spanContent R)) (Render.nulStr post) ++
        "</p>\n".toList) := by
  have := renderDoc_of_blocks_raw cfg _ pre R post k h.plainPre h.plainPost h.raw h.trim c1 c2 hic hq hmn [] _ 0
    [(0, 0)] (fun a => a) (fun a => by rw [single_moved, Nat.zero_add])
    (blocks_top_raw cfg pre R post k h bpre bpost hbc hbp hmn) x
  have := plain_html cfg _ hsp x _ 0 _ pre (spanContent R) post [] _ this
  simpa [spanHtml] using this

/-- **`doc_span_unpadded`** (top level, no `sourcepos` plugin): `R` does not both begin and end with a space — no
    stripping: the `CodeInline` node's text child is `R` itself, over exactly the bytes of `R` -/
theorem doc_span_unpadded (hsp : cfg.sourcepos = false) (hu : ¬ (R.head? = some ' ' ∧ R.getLast? = some ' ')) :
    parseDoc cfg (pre ++ rawSpan k R ++ post) =
      .ok ⟨.blk .root, some (0, Lines.byteLen (pre ++ rawSpan k R ++ post)), [],
        [⟨.blk .paragraph, some (0, Lines.byteLen (pre ++ rawSpan k R ++ post)), [],
          txtR (fun _ => []) (0, Lines.byteLen pre) pre ++
          [codeR (fun _ => []) k (Lines.byteLen pre, Lines.byteLen pre + (2 * (k + 1) + Lines.byteLen R))
            (Lines.byteLen pre + (k + 1), Lines.byteLen pre + (k + 1) + Lines.byteLen R) R] ++
          txtR (fun _ => []) (Lines.byteLen pre + (2 * (k + 1) + Lines.byteLen R),
            Lines.byteLen pre + (2 * (k + 1) + Lines.byteLen R) + Lines.byteLen post) post⟩]⟩ := by
  have := doc_span_raw cfg pre R post k h c1 c2 hic hq bpre bpost hbc hbp hmn hsp
  rw [rawNodes_unpadded _ _ k pre R post h.line hu] at this
  exact this

/-- **`doc_span_unpadded_render`**: `<p>pre<code>R</code>post</p>` LF — `R` character for character, escaped -/
theorem doc_span_unpadded_render (hsp : cfg.sourcepos = false) (hu : ¬ (R.head? = some ' ' ∧ R.getLast? = some ' '))
    (x : Bool) :
    renderDoc x cfg (pre ++ rawSpan k R ++ post) =
      .ok ("<p>".toList ++ codeHtml (Render.nulStr pre) (Render.nulStr R) (Render.nulStr post) ++ "</p>\n".toList) := by
  have := doc_span_raw_render cfg pre R post k h c1 c2 hic hq bpre bpost hbc hbp hmn hsp x
  rw [(strip_unpadded R h.line hu).1] at this
  exact this

end top

section nested
variable (cfg : DocCfg) (pre R post : List Char) (k : Nat) (h : RawLine pre R post k)
  (htab : '\t' ∉ pre ++ rawSpan k R ++ post)
  (c1 c2 : List Inline.RuleId) (hic : cfg.inlineChain = .text :: (c1 ++ .backticks :: c2))
  (hq : ∀ r ∈ c1, QuietTick r)
  (bpre bpost : List Block.RuleId) (hbc : cfg.blockChain = bpre ++ .paragraph :: bpost) (hbp : .paragraph ∉ bpre)
  (w : List Wrapper) (hw : ∀ x ∈ w, x.Ok) (hch : ChainFor cfg.blockChain w)
  (hmn : depthCost w < cfg.maxNesting)
  (hsize : Lines.byteLen (wrapAll w (pre ++ rawSpan k R ++ post)) + 20 < 2147483648)
include h htab hic hq hbc hbp hw hch hmn hsize

omit hic hq in
theorem blocks_nested_raw :
    parseBlocks cfg.blockCfg (wrapAll w (pre ++ rawSpan k R ++ post)) =
      .ok (⟨.root, some (0, Lines.byteLen (wrapAll w (pre ++ rawSpan k R ++ post))),
        wrapForest (Lines.byteLen (wrapAll w (pre ++ rawSpan k R ++ post))) w 0
          (paraLeaf (pre ++ rawSpan k R ++ post) [(0, 0)] 0 (widthAll w)
            (Lines.byteLen (wrapAll w (pre ++ rawSpan k R ++ post))) (tightOf w))⟩, []) := by
  obtain ⟨c, r, hc, hpf, _⟩ := h.cons
  exact blocks_nested_line cfg _ hc hpf h.noTerm htab bpre bpost hbc hbp w hw hch hmn hsize

/-- **`doc_span_raw_nested`, any `sourcepos`.**  The line of `doc_span_raw_sp`, TAB-FREE, inside any list `w` of
    wrappers (as in `C11N.doc_span_verbatim_nested_sp`): the wrapper nodes around the `Paragraph` — or, innermost
    wrapper a list item, around nothing — over the SAME three inline nodes, ranges moved by the width of the
    prefixes (`a ↦ widthAll w + a`). -/
theorem doc_span_raw_nested_sp :
    parseDoc cfg (wrapAll w (pre ++ rawSpan k R ++ post)) =
      .ok ⟨.blk .root, some (0, Lines.byteLen (wrapAll w (pre ++ rawSpan k R ++ post))),
        spAttrs cfg (wrapAll w (pre ++ rawSpan k R ++ post)) (0, Lines.byteLen (wrapAll w (pre ++ rawSpan k R ++ post))),
        wrapForestN (spAttrs cfg (wrapAll w (pre ++ rawSpan k R ++ post)))
          (Lines.byteLen (wrapAll w (pre ++ rawSpan k R ++ post))) w 0
          (spanLeaf (spAttrs cfg (wrapAll w (pre ++ rawSpan k R ++ post))) (widthAll w)
            (Lines.byteLen (wrapAll w (pre ++ rawSpan k R ++ post))) (tightOf w)
            (rawNodes (spAttrs cfg (wrapAll w (pre ++ rawSpan k R ++ post))) (fun a => widthAll w + a) k pre R post))⟩ :=
  parseDoc_of_blocks_raw cfg _ pre R post k h.plainPre h.plainPost h.raw h.trim c1 c2 hic hq (by omega) w _ _
    [(0, 0)] (fun a => widthAll w + a) (single_moved (widthAll w))
    (blocks_nested_raw cfg pre R post k h htab bpre bpost hbc hbp w hw hch hmn hsize)

/-- **`doc_span_raw_nested`** (no `sourcepos` plugin): the tree, exactly, no attributes anywhere -/
theorem doc_span_raw_nested (hsp : cfg.sourcepos = false) :
    parseDoc cfg (wrapAll w (pre ++ rawSpan k R ++ post)) =
      .ok ⟨.blk .root, some (0, Lines.byteLen (wrapAll w (pre ++ rawSpan k R ++ post))), [],
        wrapForestN (fun _ => []) (Lines.byteLen (wrapAll w (pre ++ rawSpan k R ++ post))) w 0
          (spanLeaf (fun _ => []) (widthAll w) (Lines.byteLen (wrapAll w (pre ++ rawSpan k R ++ post))) (tightOf w)
            (rawNodes (fun _ => []) (fun a => widthAll w + a) k pre R post))⟩ := by
  have := doc_span_raw_nested_sp cfg pre R post k h htab c1 c2 hic hq bpre bpost hbc hbp w hw hch hmn hsize
  rw [spAttrs_off hsp] at this
  exact this

/-- **`doc_span_raw_render_nested`, any `sourcepos`** -/
theorem doc_span_raw_render_nested_sp (x : Bool) :
    renderDoc x cfg (wrapAll w (pre ++ rawSpan k R ++ post)) =
      .ok (Render.replaceNul (spanHtmlA (spAttrs cfg (wrapAll w (pre ++ rawSpan k R ++ post)))
        (Lines.byteLen (wrapAll w (pre ++ rawSpan k R ++ post)))
        (openTag tP (spAttrs cfg (wrapAll w (pre ++ rawSpan k R ++ post))
            (widthAll w, Lines.byteLen (wrapAll w (pre ++ rawSpan k R ++ post)))) ++
          inlHtml (spAttrs cfg (wrapAll w (pre ++ rawSpan k R ++ post)) (spanRange (fun a => widthAll w + a) k pre R))
            pre (spanContent R) post ++ closeTag tP ++ ['\n'])
        (inlHtml (spAttrs cfg (wrapAll w (pre ++ rawSpan k R ++ post)) (spanRange (fun a => widthAll w + a) k pre R))
          pre (spanContent R) post) w 0)) :=
  renderDoc_of_blocks_raw cfg _ pre R post k h.plainPre h.plainPost h.raw h.trim c1 c2 hic hq (by omega) w _ _
    [(0, 0)] (fun a => widthAll w + a) (single_moved (widthAll w))
    (blocks_nested_raw cfg pre R post k h htab bpre bpost hbc hbp w hw hch hmn hsize) x

/-- **`doc_span_raw_render_nested`** (no `sourcepos` plugin), both serializers: the wrappers' HTML (`spanHtml`)
    around `pre` `<code>` content `</code>` `post` -/
theorem doc_span_raw_render_nested (hsp : cfg.sourcepos = false) (x : Bool) :
    renderDoc x cfg (wrapAll w (pre ++ rawSpan k R ++ post)) =
      .ok (spanHtml w (codeHtml (Render.nulStr pre) (Render.nulStr (spanContent R)) (Render.nulStr post))) :=
  plain_html cfg _ hsp x _ _ _ pre (spanContent R) post w _
    (doc_span_raw_render_nested_sp cfg pre R post k h htab c1 c2 hic hq bpre bpost hbc hbp w hw hch hmn hsize x)

end nested

/-! ## 4. MULTI-line paragraphs -/

/-- the lines `Ls` form ONE top-level paragraph, and that paragraph reads `pre ++ `ᵏ⁺¹ R `ᵏ⁺¹ ++ post`: `pre`, `post`
    plain text (so they hold no line feed: the span opens on the first line and closes on the last) -/
structure SpanLines (Ls : List (List Char)) (pre R post : List Char) (k : Nat) : Prop where
  /-- the first line starts with a character no block rule but `paragraph` claims -/
  first : ∃ c r rest, Ls = (c :: r) :: rest ∧ ParaFirst c
  /-- the lines are lines: no LF, no CR inside -/
  noTerm : ∀ l ∈ Ls, NoTerm l
  /-- every further line continues the paragraph (`ContLine`: not blank; indented by 4 or more columns, or starting
      — behind its indentation — with a `ParaFirst` character and not a setext underline) -/
  cont : ∀ l ∈ Ls.tail, ContLine l
  /-- the text of the paragraph -/
  doc : docOf Ls = pre ++ rawSpan k R ++ post
  plainPre : PlainTxt pre
  plainPost : PlainTxt post
  /-- the last line does not end with a blank -/
  postEnd : ∀ c ∈ post.getLast?, Inline.isSpTab c = false
  /-- `R` (line feeds allowed): not empty, no backtick at either end, no run of `k + 1` backticks -/
  raw : CodePair.RawOk '`' k R

theorem docOf_cons_cons (c : Char) (r : List Char) (rest : List (List Char)) :
    ∃ t, docOf ((c :: r) :: rest) = c :: t := by
  cases rest with
  | nil => exact ⟨r, by simp [docOf, Lines.joinLines]⟩
  | cons y ys => exact ⟨_, by simp only [docOf, Lines.joinLines, List.cons_append]; rfl⟩

section lines
variable {Ls : List (List Char)} {pre R post : List Char} {k : Nat} (h : SpanLines Ls pre R post k)
include h

/-- `pre` is not empty: it starts with the first line's first character -/
theorem SpanLines.pre_cons : ∃ c r, pre = c :: r ∧ ParaFirst c := by
  obtain ⟨c, r, rest, hL, hc⟩ := h.first
  obtain ⟨t, ht⟩ := docOf_cons_cons c r rest
  have hd := h.doc
  rw [hL, ht] at hd
  cases hp : pre with
  | nil =>
    obtain ⟨r0, hr0⟩ := rawSpan_head k R
    rw [hp, hr0] at hd
    simp only [List.nil_append, List.cons_append, List.cons.injEq] at hd
    exact absurd hd.1 hc.2.2.1
  | cons d t' =>
    rw [hp] at hd
    simp only [List.cons_append, List.cons.injEq] at hd
    exact ⟨d, t', rfl, hd.1 ▸ hc⟩

theorem SpanLines.trim :
    Inline.trimSrc (pre ++ rawSpan k R ++ post) = (0, InlineOps.byteLen (pre ++ rawSpan k R ++ post)) := by
  obtain ⟨c, r, hp, hc⟩ := h.pre_cons
  exact trim_of_ends pre _ post c r hp hc (fun a => getLast?_rawSpan a k R) h.postEnd

end lines

section multi
variable (cfg : DocCfg) (Ls : List (List Char)) (pre R post : List Char) (k : Nat) (h : SpanLines Ls pre R post k)
  (c1 c2 : List Inline.RuleId) (hic : cfg.inlineChain = .text :: (c1 ++ .backticks :: c2))
  (hq : ∀ r ∈ c1, QuietTick r)
  (bpre bpost : List Block.RuleId) (hbc : cfg.blockChain = bpre ++ .paragraph :: bpost) (hbp : .paragraph ∉ bpre)
  (hmn : 0 < cfg.maxNesting)
include h hic hq hbc hbp hmn

omit hic hq in
/-- the block pass: ONE paragraph over all the lines, inline text = the whole source, table `idTable 0 Ls` -/
theorem blocks_lines :
    parseBlocks cfg.blockCfg (docOf Ls) =
      .ok (⟨.root, some (0, Lines.byteLen (docOf Ls)),
        wrapForest (Lines.byteLen (docOf Ls)) [] 0
          (paraLeaf (pre ++ rawSpan k R ++ post) (idTable 0 Ls) 0 0 (Lines.byteLen (docOf Ls)) (tightOf []))⟩, []) := by
  obtain ⟨c, r, rest, hL, hc⟩ := h.first
  have hnt := h.noTerm
  have hcont := h.cont
  rw [← h.doc]
  subst hL
  have := parseBlocks_lines hnt hc hcont (cfg := cfg.blockCfg) hbc hbp hmn
  simpa [wrapForest, paraLeaf, tightOf, inlineRootAt, map_add_zero] using this

omit hbc hbp hmn hic hq in
theorem table_lines (a : Nat) :
    InlineOps.getSourcePosFor ((idTable 0 Ls).map fun kv => (kv.1, kv.2 + 0)) a = .ok a := by
  obtain ⟨c, r, rest, hL, hc⟩ := h.first
  rw [map_add_zero, hL]
  exact idTable_translate _ _ a

/-- **`doc_span_multiline`, any `sourcepos`.**  The document `docOf Ls` (`SpanLines`: `n ≥ 1` lines forming one
    top-level paragraph `pre ++ `ᵏ⁺¹ R `ᵏ⁺¹ ++ post`, the span opening on the first line and closing on the last) parses
    to `Root[Paragraph[…]]`, root and paragraph over the whole source; the paragraph's children (`rawNodes`, every
    range the byte range in the source): the `Text` node of `pre`, ONE `CodeInline` node over the whole span — all
    its lines — whose single child is the `Text` node holding `spanContent R`: `R` with every line feed turned
    into ONE space (nothing else: indentation of continuation lines and blanks in front of a line feed stay) and
    one pair of padding spaces removed (`strip_char`); the `Text` node of `post`. -/
theorem doc_span_multiline_sp :
    parseDoc cfg (docOf Ls) =
      .ok ⟨.blk .root, some (0, Lines.byteLen (docOf Ls)), spAttrs cfg (docOf Ls) (0, Lines.byteLen (docOf Ls)),
        [⟨.blk .paragraph, some (0, Lines.byteLen (docOf Ls)), spAttrs cfg (docOf Ls) (0, Lines.byteLen (docOf Ls)),
          rawNodes (spAttrs cfg (docOf Ls)) (fun a => a) k pre R post⟩]⟩ := by
  have := parseDoc_of_blocks_raw cfg _ pre R post k h.plainPre h.plainPost h.raw h.trim c1 c2 hic hq hmn [] _ 0
    (idTable 0 Ls) (fun a => a) (table_lines Ls pre R post k h)
    (blocks_lines cfg Ls pre R post k h bpre bpost hbc hbp hmn)
  simpa [wrapForestN, spanLeaf, tightOf] using this

/-- **`doc_span_multiline`** (no `sourcepos` plugin): the tree, exactly, no attributes anywhere -/
theorem doc_span_multiline (hsp : cfg.sourcepos = false) :
    parseDoc cfg (docOf Ls) =
      .ok ⟨.blk .root, some (0, Lines.byteLen (docOf Ls)), [],
        [⟨.blk .paragraph, some (0, Lines.byteLen (docOf Ls)), [],
          rawNodes (fun _ => []) (fun a => a) k pre R post⟩]⟩ := by
  have := doc_span_multiline_sp cfg Ls pre R post k h c1 c2 hic hq bpre bpost hbc hbp hmn
  rw [spAttrs_off hsp] at this
  exact this

/-- **`doc_span_multiline_render`, any `sourcepos`**: `<p ATTRS>`, escaped `pre`, `<code ATTRS>`, escaped content,
    `</code>`, escaped `post`, `</p>`, LF; then the serializer's NUL replacement -/
theorem doc_span_multiline_render_sp (x : Bool) :
    renderDoc x cfg (docOf Ls) =
      .ok (Render.replaceNul
        (openTag tP (spAttrs cfg (docOf Ls) (0, Lines.byteLen (docOf Ls))) ++
          inlHtml (spAttrs cfg (docOf Ls) (spanRange (fun a => a) k pre R)) pre (spanContent R) post ++
          closeTag tP ++ ['\n'])) := by
  have := renderDoc_of_blocks_raw cfg _ pre R post k h.plainPre h.plainPost h.raw h.trim c1 c2 hic hq hmn [] _ 0
    (idTable 0 Ls) (fun a => a) (table_lines Ls pre R post k h)
    (blocks_lines cfg Ls pre R post k h bpre bpost hbc hbp hmn) x
  simpa [spanHtmlA] using this

/-- **`doc_span_multiline_render`** (no `sourcepos` plugin), both serializers: the output is `<p>` `pre` `<code>`
    content `</code>` `post` `</p>` LF — ONE paragraph, ONE code element —, content = `spanContent R`: the characters
    of `R`, every line ending turned into one space, one pair of padding spaces removed; exactly `& < > "` escaped,
    NUL replaced by U+FFFD; nothing inside is interpreted -/
theorem doc_span_multiline_render (hsp : cfg.sourcepos = false) (x : Bool) :
    renderDoc x cfg (docOf Ls) =
      .ok ("<p>".toList ++ codeHtml (Render.nulStr pre) (Render.nulStr (spanContent R)) (Render.nulStr post) ++
        "</p>\n".toList) := by
  have := renderDoc_of_blocks_raw cfg _ pre R post k h.plainPre h.plainPost h.raw h.trim c1 c2 hic hq hmn [] _ 0
    (idTable 0 Ls) (fun a => a) (table_lines Ls pre R post k h)
    (blocks_lines cfg Ls pre R post k h bpre bpost hbc hbp hmn) x
  have := plain_html cfg _ hsp x _ 0 _ pre (spanContent R) post [] _ this
  simpa [spanHtml] using this

end multi

/-! ## 5. the padded multi-line payload, spelled out -/

/-- `a` in front of the first of the lines `ts`, `b` behind the last -/
def glue (a : List Char) : List (List Char) → List Char → List (List Char)
  | [], b => [a ++ b]
  | [t], b => [a ++ t ++ b]
  | t :: u :: r, b => (a ++ t) :: glue [] (u :: r) b

theorem glue_ne_nil (a : List Char) (ts : List (List Char)) (b : List Char) : glue a ts b ≠ [] := by
  match ts with
  | [] => simp [glue]
  | [t] => simp [glue]
  | t :: u :: r => simp [glue]

theorem docOf_cons_ne (x : List Char) {L : List (List Char)} (hL : L ≠ []) :
    docOf (x :: L) = x ++ '\n' :: docOf L := by
  cases L with
  | nil => exact absurd rfl hL
  | cons y ys => rfl

theorem docOf_glue : ∀ (ts : List (List Char)) (a b : List Char), docOf (glue a ts b) = a ++ docOf ts ++ b
  | [], a, b => by simp [glue, docOf, Lines.joinLines]
  | [t], a, b => by simp [glue, docOf, Lines.joinLines]
  | t :: u :: r, a, b => by
    have ih := docOf_glue (u :: r) [] b
    rw [glue, docOf_cons_ne _ (glue_ne_nil _ _ _), ih, docOf_cons_ne t (by simp)]
    simp

theorem noTerm_glue : ∀ (ts : List (List Char)) (a b : List Char), NoTerm a → NoTerm b → (∀ t ∈ ts, NoTerm t) →
    ∀ l ∈ glue a ts b, NoTerm l
  | [], a, b, ha, hb, _, l, hl => by
    simp only [glue, List.mem_singleton] at hl; subst hl; exact noTerm_append ha hb
  | [t], a, b, ha, hb, ht, l, hl => by
    simp only [glue, List.mem_singleton] at hl; subst hl
    exact noTerm_append (noTerm_append ha (ht t (by simp))) hb
  | t :: u :: r, a, b, ha, hb, ht, l, hl => by
    simp only [glue, List.mem_cons] at hl
    rcases hl with rfl | hl
    · exact noTerm_append ha (ht t (by simp))
    · exact noTerm_glue (u :: r) [] b (by intro c hc; simp at hc) hb
        (fun x hx => ht x (List.mem_cons_of_mem _ hx)) l (by simpa [glue] using hl)

/-- the lines of the document `pre `ᵏ⁺¹ ␠ t₁ ⏎ t₂ ⏎ … ⏎ t_m ␠ `ᵏ⁺¹ post`: the padded span over the payload lines `ts` -/
def paddedLines (pre : List Char) (k : Nat) (ts : List (List Char)) (post : List Char) : List (List Char) :=
  glue (pre ++ ticks k ++ [' ']) ts (' ' :: ticks k ++ post)

theorem docOf_paddedLines (pre : List Char) (k : Nat) (ts : List (List Char)) (post : List Char) :
    docOf (paddedLines pre k ts post) = pre ++ rawSpan k (' ' :: docOf ts ++ [' ']) ++ post := by
  rw [paddedLines, docOf_glue]
  simp [rawSpan]

/-- a run of `m` cannot cross a character `c ≠ m` -/
theorem infix_split {m c : Char} {n : Nat} (hn : 0 < n) (hc : c ≠ m) {a b : List Char}
    (h : List.replicate n m <:+: a ++ c :: b) : List.replicate n m <:+: a ∨ List.replicate n m <:+: b := by
  obtain ⟨p, q, hpq⟩ := h
  obtain ⟨j, rfl⟩ : ∃ j, n = j + 1 := ⟨n - 1, by omega⟩
  rw [List.append_assoc] at hpq
  rcases List.append_eq_append_iff.mp hpq with ⟨a', ha, hr⟩ | ⟨c', hp, hr⟩
  · rcases List.append_eq_append_iff.mp hr with ⟨a'', ha', _⟩ | ⟨c', hrep, hr'⟩
    · left; exact ⟨p, a'', by rw [ha, ha']; simp⟩
    · cases c' with
      | nil => left; exact ⟨p, [], by rw [ha, hrep]; simp⟩
      | cons d t =>
        simp only [List.cons_append, List.cons.injEq] at hr'
        have : c ∈ List.replicate (j + 1) m := by rw [hrep, hr'.1]; simp
        exact absurd (List.mem_replicate.mp this).2 hc
  · cases c' with
    | nil =>
      simp only [List.nil_append, List.replicate_succ, List.cons_append, List.cons.injEq] at hr
      exact absurd hr.1 hc
    | cons d t =>
      simp only [List.cons_append, List.cons.injEq] at hr
      right; exact ⟨t, q, by rw [hr.2]; simp⟩

/-- no line of `ts` holds a run of `n` markers: neither does the joined payload (a run cannot cross a line feed) -/
theorem runs_docOf {m : Char} {n : Nat} (hn : 0 < n) (hm : m ≠ '\n') :
    ∀ (ts : List (List Char)), (∀ t ∈ ts, ¬ List.replicate n m <:+: t) → ¬ List.replicate n m <:+: docOf ts
  | [], _ => by
    intro ⟨p, q, h⟩
    obtain ⟨k, rfl⟩ : ∃ k, n = k + 1 := ⟨n - 1, by omega⟩
    simp [docOf, Lines.joinLines, List.replicate_succ] at h
  | [t], h => by simpa [docOf, Lines.joinLines] using h t (by simp)
  | t :: u :: r, h => by
    intro hi
    simp only [docOf, Lines.joinLines] at hi
    rcases infix_split hn (Ne.symm hm) hi with h1 | h1
    · exact h t (by simp) h1
    · exact runs_docOf hn hm (u :: r) (fun x hx => h x (List.mem_cons_of_mem _ hx)) h1
/-- the hypotheses of `doc_span_multiline` for the padded payload `ts`, from hypotheses on the pieces -/
theorem spanLines_padded (pre post : List Char) (k : Nat) (ts : List (List Char))
    (hfirst : ∃ c r, pre = c :: r ∧ ParaFirst c) (hpre : PlainTxt pre) (hpost : PlainTxt post)
    (hpreCR : '\r' ∉ pre) (hpostCR : '\r' ∉ post) (hend : ∀ c ∈ post.getLast?, Inline.isSpTab c = false)
    (hts : ∀ t ∈ ts, NoTerm t) (hne : docOf ts ≠ []) (hruns : ∀ t ∈ ts, ¬ List.replicate (k + 1) '`' <:+: t)
    (hcont : ∀ l ∈ (paddedLines pre k ts post).tail, ContLine l) :
    SpanLines (paddedLines pre k ts post) pre (' ' :: docOf ts ++ [' ']) post k := by
  have hsp : NoTerm [' '] := by intro c hc; simp at hc; subst hc; decide
  refine ⟨?_, ?_, hcont, docOf_paddedLines pre k ts post, hpre, hpost, hend, ?_⟩
  · obtain ⟨c, r, hp, hc⟩ := hfirst
    subst hp
    match ts with
    | [] => exact ⟨c, _, [], by simp only [paddedLines, glue, List.cons_append]; rfl, hc⟩
    | [t] => exact ⟨c, _, [], by simp only [paddedLines, glue, List.cons_append]; rfl, hc⟩
    | t :: u :: r' => exact ⟨c, _, _, by simp only [paddedLines, glue, List.cons_append]; rfl, hc⟩
  · exact noTerm_glue ts _ _ (noTerm_append (noTerm_append (noTerm_plain hpre hpreCR) (noTerm_ticks k)) hsp)
      (noTerm_append (noTerm_append hsp (noTerm_ticks k)) (noTerm_plain hpost hpostCR)) hts
  · refine ⟨by simp, by simp, ?_, ?_⟩
    · rw [show ' ' :: docOf ts ++ [' '] = (' ' :: docOf ts) ++ [' '] by simp, List.getLast?_concat]; simp
    · exact CodePair.no_early_close (by omega) (by decide) (runs_docOf (by omega) (by decide) ts hruns)

section payload
variable (cfg : DocCfg) (pre post : List Char) (k : Nat) (ts : List (List Char))
  (h : SpanLines (paddedLines pre k ts post) pre (' ' :: docOf ts ++ [' ']) post k)
  (hts : ∀ t ∈ ts, NoTerm t) (hne : docOf ts ≠ [])
  (c1 c2 : List Inline.RuleId) (hic : cfg.inlineChain = .text :: (c1 ++ .backticks :: c2))
  (hq : ∀ r ∈ c1, QuietTick r)
  (bpre bpost : List Block.RuleId) (hbc : cfg.blockChain = bpre ++ .paragraph :: bpost) (hbp : .paragraph ∉ bpre)
  (hmn : 0 < cfg.maxNesting) (hsp : cfg.sourcepos = false)
include h hts hne hic hq hbc hbp hmn hsp

/-- **`doc_span_padded_lines`** (no `sourcepos` plugin).  The document
    `pre `ᵏ⁺¹ ␠ t₁ ⏎ t₂ ⏎ … ⏎ t_m ␠ `ᵏ⁺¹ post` (`paddedLines`, hypotheses `spanLines_padded`): ONE paragraph, ONE
    `CodeInline` node over the whole span whose text child is `t₁ ␠ t₂ ␠ … ␠ t_m` (`spaced ts`: each line ending
    turned into ONE space, every line whole — indentation and trailing blanks included) over exactly the bytes
    of the payload (between the padding spaces) -/
theorem doc_span_padded_lines :
    parseDoc cfg (docOf (paddedLines pre k ts post)) =
      .ok ⟨.blk .root, some (0, Lines.byteLen (docOf (paddedLines pre k ts post))), [],
        [⟨.blk .paragraph, some (0, Lines.byteLen (docOf (paddedLines pre k ts post))), [],
          txtR (fun _ => []) (0, Lines.byteLen pre) pre ++
          [codeR (fun _ => []) k
            (Lines.byteLen pre, Lines.byteLen pre + (2 * (k + 1) + (Lines.byteLen (docOf ts) + 2)))
            (Lines.byteLen pre + (k + 1) + 1, Lines.byteLen pre + (k + 1) + 1 + Lines.byteLen (docOf ts))
            (spaced ts)] ++
          txtR (fun _ => []) (Lines.byteLen pre + (2 * (k + 1) + (Lines.byteLen (docOf ts) + 2)),
            Lines.byteLen pre + (2 * (k + 1) + (Lines.byteLen (docOf ts) + 2)) + Lines.byteLen post) post⟩]⟩ := by
  have := doc_span_multiline cfg _ pre _ post k h c1 c2 hic hq bpre bpost hbc hbp hmn hsp
  obtain ⟨h1, h2⟩ := strip_lines ts hts hne
  have hb : Lines.byteLen (' ' :: docOf ts ++ [' ']) = Lines.byteLen (docOf ts) + 2 := by
    simp only [C05I.linesLen_eq, InlineOps.byteLen, C05.byteLen_append, show ' '.utf8Size = 1 by decide]
    omega
  have he : Lines.byteLen pre + (k + 1) + (Lines.byteLen (docOf ts) + 2) - 1 =
      Lines.byteLen pre + (k + 1) + 1 + Lines.byteLen (docOf ts) := by omega
  simp only [rawNodes, spanRange, innerRange, h1, h2, hb, he] at this
  exact this

/-- **`doc_span_padded_lines_render`**, both serializers: `<p>` `pre` `<code>` `t₁ ␠ t₂ ␠ … ␠ t_m` `</code>` `post` `</p>`
    LF, with exactly `& < > "` escaped and NUL replaced by U+FFFD -/
theorem doc_span_padded_lines_render (x : Bool) :
    renderDoc x cfg (docOf (paddedLines pre k ts post)) =
      .ok ("<p>".toList ++ codeHtml (Render.nulStr pre) (Render.nulStr (spaced ts)) (Render.nulStr post) ++
        "</p>\n".toList) := by
  have := doc_span_multiline_render cfg _ pre _ post k h c1 c2 hic hq bpre bpost hbc hbp hmn hsp x
  rw [(strip_lines ts hts hne).1] at this
  exact this

end payload

/-! ## 6. instances on the stock chains, and the necessity of the hypotheses -/

section examples

/-- the payloads of the examples -/
def exR : List Char := "x\ny <b>\nz".toList
def exR1 : List Char := "x ` <i>".toList

def stockPre : List Block.RuleId := [.code, .fence, .blockquote, .hr, .list, .reference, .heading, .lheading]

/-- the three-line document ``a ``x ⏎ y <b> ⏎ z`` w`` (unpadded): `pre = "a "`, `R = "x⏎y <b>⏎z"`, `post = " w"` -/
def exLs : List (List Char) := ["a ``x".toList, "y <b>".toList, "z`` w".toList]

theorem exLines : SpanLines exLs "a ".toList exR " w".toList 1 :=
  ⟨⟨'a', _, _, rfl, by decide⟩, by decide +kernel, by decide +kernel, by decide +kernel, by decide, by decide,
    by decide, by decide +kernel⟩

/-- `doc_span_multiline_render` applies on the stock configuration (both serializers) … -/
example (x : Bool) : renderDoc x (exCfg false 100) (docOf exLs) =
    .ok ("<p>".toList ++ codeHtml (Render.nulStr "a ".toList) (Render.nulStr (spanContent exR))
      (Render.nulStr " w".toList) ++ "</p>\n".toList) :=
  doc_span_multiline_render (exCfg false 100) _ _ _ _ 1 exLines [.newline, .escape] _ rfl quietTick_stock
    stockPre [] rfl (by decide) (by decide) rfl x

/-- … and that is: the document, and the output — each line ending one space, `<b>` escaped, nothing interpreted -/
example : docOf exLs = "a ``x\ny <b>\nz`` w".toList ∧
    "<p>".toList ++ codeHtml (Render.nulStr "a ".toList) (Render.nulStr (spanContent exR))
      (Render.nulStr " w".toList) ++ "</p>\n".toList = "<p>a <code>x y &lt;b&gt; z</code> w</p>\n".toList := by
  decide +kernel

/-- the tree of `doc_span_multiline`: `Root[Paragraph[Text "a ", CodeInline[Text "x y <b> z"], Text " w"]]` — the
    span over bytes 2 .. 15 (three lines), the content over bytes 4 .. 13 -/
example : parseDoc (exCfg false 100) (docOf exLs) =
    .ok ⟨.blk .root, some (0, 17), [],
      [⟨.blk .paragraph, some (0, 17), [],
        [⟨.inl (.text ['a', ' ']), some (0, 2), [], []⟩,
         ⟨.inl (.codeInline '`' 2), some (2, 15), [],
           [⟨.inl (.text ['x', ' ', 'y', ' ', '<', 'b', '>', ' ', 'z']), some (4, 13), [], []⟩]⟩,
         ⟨.inl (.text [' ', 'w']), some (15, 17), [], []⟩]⟩]⟩ := by
  have h := doc_span_multiline (exCfg false 100) _ _ _ _ 1 exLines [.newline, .escape] _ rfl quietTick_stock
    stockPre [] rfl (by decide) (by decide) rfl
  have hE : Lines.byteLen (docOf exLs) = 17 := by decide +kernel
  have e0 : "a ".toList = ['a', ' '] ∧ " w".toList = [' ', 'w'] := by decide
  have e1 : Lines.byteLen ['a', ' '] = 2 ∧ Lines.byteLen exR = 9 ∧ Lines.byteLen [' ', 'w'] = 2 := by
    decide +kernel
  have e2 : spanContent exR = ['x', ' ', 'y', ' ', '<', 'b', '>', ' ', 'z'] ∧
      padW exR = 0 := by decide +kernel
  rw [h, hE, e0.1, e0.2]
  simp [rawNodes, txtR, codeR, spanRange, innerRange, e1.1, e1.2.1, e1.2.2, e2.1, e2.2]

/-- the PADDED payload over three lines, the second one indented and with trailing blanks, the third one markup,
    an entity and emphasis: `doc_span_padded_lines_render` applies — the continuation line's indentation and the
    blanks in front of the line feed STAY in the content (CommonMark strips the indentation) -/
def exTs : List (List Char) := ["x".toList, "   y  ".toList, "<b>&amp;*z*".toList]

example (x : Bool) : renderDoc x (exCfg false 100) (docOf (paddedLines "a ".toList 1 exTs " w".toList)) =
    .ok ("<p>".toList ++ codeHtml (Render.nulStr "a ".toList) (Render.nulStr (spaced exTs)) (Render.nulStr " w".toList) ++
      "</p>\n".toList) :=
  doc_span_padded_lines_render (exCfg false 100) _ _ 1 exTs
    (spanLines_padded _ _ 1 exTs ⟨'a', _, rfl, by decide⟩ (by decide) (by decide) (by decide) (by decide) (by decide)
      (by decide +kernel) (by decide +kernel) (by decide +kernel) (by decide +kernel))
    (by decide +kernel) (by decide +kernel) [.newline, .escape] _ rfl quietTick_stock stockPre [] rfl (by decide) (by decide) rfl x

example : docOf (paddedLines "a ".toList 1 exTs " w".toList) = "a `` x\n   y  \n<b>&amp;*z* `` w".toList ∧
    "<p>".toList ++ codeHtml (Render.nulStr "a ".toList) (Render.nulStr (spaced exTs)) (Render.nulStr " w".toList) ++
      "</p>\n".toList = "<p>a <code>x    y   &lt;b&gt;&amp;amp;*z*</code> w</p>\n".toList := by
  decide +kernel

/-- a continuation line indented by 4 columns or more continues the paragraph whatever it starts with
    (`ContLine`, first alternative): `- y` behind five blanks is payload -/
example : ContLine "     - y``".toList ∧
    renderDoc false (exCfg false 100) "a ``x\n     - y``".toList = .ok "<p>a <code>x      - y</code></p>\n".toList := by
  decide +kernel

/-- `ContLine` is needed, per line: a continuation line that starts a list item (`- y`), is a setext underline
    (`===`), opens a fence, or is blank ENDS the paragraph — and with it the span: the backtick runs are literal
    text, the "payload" is interpreted (the model; the crate agrees) -/
example : ¬ ContLine "- y``".toList ∧ ¬ ContLine "===".toList ∧ ¬ ContLine "```".toList ∧ ¬ ContLine " ".toList ∧
    renderDoc false (exCfg false 100) "a ``x\n- y``".toList = .ok "<p>a ``x</p>\n<ul>\n<li>y``</li>\n</ul>\n".toList ∧
    renderDoc false (exCfg false 100) "a ``x\n===\ny``".toList = .ok "<h1>a ``x</h1>\n<p>y``</p>\n".toList ∧
    renderDoc false (exCfg false 100) "a ``x\n```\ny``".toList =
      .ok "<p>a ``x</p>\n<pre><code>y``\n</code></pre>\n".toList ∧
    renderDoc false (exCfg false 100) "a ``x\n \ny``".toList = .ok "<p>a ``x</p>\n<p>y``</p>\n".toList := by
  decide +kernel

/-- … while `=y` (not an underline) and a line indented by up to three columns continue it -/
example : ContLine "=y``".toList ∧ ContLine "   y``".toList ∧
    renderDoc false (exCfg false 100) "a ``x\n=y``".toList = .ok "<p>a <code>x =y</code></p>\n".toList := by
  decide +kernel

/-- ONE line, UNPADDED: `doc_span_unpadded_render` applies — `` a ``x ` <i>`` b `` -/
theorem exRaw : RawLine "a ".toList exR1 " b".toList 1 :=
  ⟨⟨'a', _, rfl, by decide⟩, by decide, by decide, by decide, by decide, by decide, by decide +kernel, by decide⟩

example (x : Bool) : renderDoc x (exCfg false 100) ("a ".toList ++ rawSpan 1 exR1 ++ " b".toList) =
    .ok ("<p>".toList ++ codeHtml (Render.nulStr "a ".toList) (Render.nulStr exR1) (Render.nulStr " b".toList) ++
      "</p>\n".toList) :=
  doc_span_unpadded_render (exCfg false 100) _ _ _ 1 exRaw [.newline, .escape] _ rfl quietTick_stock
    stockPre [] rfl (by decide) (by decide) rfl (by decide) x

example : "a ".toList ++ rawSpan 1 exR1 ++ " b".toList = "a ``x ` <i>`` b".toList ∧
    "<p>".toList ++ codeHtml (Render.nulStr "a ".toList) (Render.nulStr exR1) (Render.nulStr " b".toList) ++
      "</p>\n".toList = "<p>a <code>x ` &lt;i&gt;</code> b</p>\n".toList := by decide +kernel

/-- the tree of `doc_span_unpadded`: the text child ranges over all of `R` (bytes 4 .. 11) -/
example : parseDoc (exCfg false 100) ("a ".toList ++ rawSpan 1 exR1 ++ " b".toList) =
    .ok ⟨.blk .root, some (0, 15), [],
      [⟨.blk .paragraph, some (0, 15), [],
        [⟨.inl (.text ['a', ' ']), some (0, 2), [], []⟩,
         ⟨.inl (.codeInline '`' 2), some (2, 13), [], [⟨.inl (.text exR1), some (4, 11), [], []⟩]⟩,
         ⟨.inl (.text [' ', 'b']), some (13, 15), [], []⟩]⟩]⟩ := by
  have h := doc_span_unpadded (exCfg false 100) _ _ _ 1 exRaw [.newline, .escape] _ rfl quietTick_stock
    stockPre [] rfl (by decide) (by decide) rfl (by decide)
  have hE : Lines.byteLen ("a ".toList ++ rawSpan 1 exR1 ++ " b".toList) = 15 := by decide +kernel
  have e0 : "a ".toList = ['a', ' '] ∧ " b".toList = [' ', 'b'] := by decide
  have e1 : Lines.byteLen ['a', ' '] = 2 ∧ Lines.byteLen exR1 = 7 ∧ Lines.byteLen [' ', 'b'] = 2 := by
    decide +kernel
  rw [h, hE, e0.1, e0.2]
  simp [txtR, codeR, e1.1, e1.2.1, e1.2.2]

/-- the stripping rule on one line (`doc_span_raw_render`): a space at one end only stays (`` ` x` ``), a pair goes
    (`` ` x ` ``), only ONE pair goes (`` `  x  ` ``), two spaces stay, THREE spaces lose a pair (CommonMark: an
    all-space content is not stripped — `<code>   </code>`; the crate, checked: `<code> </code>`) -/
example : renderDoc false (exCfg false 100) "a ` x` b".toList = .ok "<p>a <code> x</code> b</p>\n".toList ∧
    renderDoc false (exCfg false 100) "a ` x ` b".toList = .ok "<p>a <code>x</code> b</p>\n".toList ∧
    renderDoc false (exCfg false 100) "a `  x  ` b".toList = .ok "<p>a <code> x </code> b</p>\n".toList ∧
    renderDoc false (exCfg false 100) "a `  ` b".toList = .ok "<p>a <code>  </code> b</p>\n".toList ∧
    renderDoc false (exCfg false 100) "a `   ` b".toList = .ok "<p>a <code> </code> b</p>\n".toList := by
  decide +kernel

/-- … and these are instances of the theorem: `R = "   "` is `RawOk`, its content is one space -/
example (x : Bool) : renderDoc x (exCfg false 100) ("a ".toList ++ rawSpan 0 "   ".toList ++ " b".toList) =
    .ok ("<p>".toList ++ codeHtml (Render.nulStr "a ".toList) (Render.nulStr (spanContent "   ".toList))
      (Render.nulStr " b".toList) ++ "</p>\n".toList) ∧ spanContent "   ".toList = [' '] :=
  ⟨doc_span_raw_render (exCfg false 100) _ _ _ 0
    ⟨⟨'a', _, rfl, by decide⟩, by decide, by decide, by decide, by decide, by decide, by decide +kernel, by decide⟩
    [.newline, .escape] _ rfl quietTick_stock stockPre [] rfl (by decide) (by decide) rfl x, by decide +kernel⟩

/-- a line feed at either end of the content counts as a space for the stripping test (LF → space comes first):
    `` `⏎x⏎` `` gives `x` -/
example : renderDoc false (exCfg false 100) "a `\nx\n` b".toList = .ok "<p>a <code>x</code> b</p>\n".toList ∧
    renderDoc false (exCfg false 100) "a `\nx` b".toList = .ok "<p>a <code> x</code> b</p>\n".toList := by
  decide +kernel

/-- `doc_span_raw_render_nested` applies: the unpadded span in a bullet item in a block quote -/
example (x : Bool) :
    renderDoc x (exCfg false 100) (wrapAll [.quote, .bullet '-'] ("a ".toList ++ rawSpan 1 exR1 ++ " b".toList)) =
      .ok (spanHtml [.quote, .bullet '-']
        (codeHtml (Render.nulStr "a ".toList) (Render.nulStr (spanContent exR1)) (Render.nulStr " b".toList))) :=
  doc_span_raw_render_nested (exCfg false 100) _ _ _ 1 exRaw (by decide +kernel) [.newline, .escape] _ rfl quietTick_stock
    stockPre [] rfl (by decide) [.quote, .bullet '-'] (by decide) (chainFor_stock _) (by decide) (by decide +kernel) rfl x

example : wrapAll [.quote, .bullet '-'] ("a ".toList ++ rawSpan 1 exR1 ++ " b".toList) =
      "> - a ``x ` <i>`` b".toList ∧
    spanHtml [.quote, .bullet '-']
      (codeHtml (Render.nulStr "a ".toList) (Render.nulStr (spanContent exR1)) (Render.nulStr " b".toList)) =
      "<blockquote>\n<ul>\n<li>a <code>x ` &lt;i&gt;</code> b</li>\n</ul>\n</blockquote>\n".toList := by
  decide +kernel

/-- `RawOk` is needed: a content that begins with a backtick makes the opening run longer (no closer of that
    length: no span), a run of `k + 1` backticks inside closes early -/
example : ¬ CodePair.RawOk '`' 1 "`x".toList ∧ ¬ CodePair.RawOk '`' 1 "x``y".toList ∧
    renderDoc false (exCfg false 100) ("a ".toList ++ rawSpan 1 "`x".toList ++ " b".toList) = .ok "<p>a ```x`` b</p>\n".toList ∧
    renderDoc false (exCfg false 100) ("a ".toList ++ rawSpan 1 "x``y".toList ++ " b".toList) =
      .ok "<p>a <code>x</code>y`` b</p>\n".toList := by
  decide +kernel

/-- with the `sourcepos` plugin (`doc_span_multiline_render_sp`): the `CodeInline` node carries the position of the
    whole three-line span, 1:3 – 3:3 -/
example : renderDoc false (exCfg true 100) (docOf exLs) =
    .ok ("<p data-sourcepos=\"1:1-3:5\">a <code data-sourcepos=\"1:3-3:3\">x y &lt;b&gt; z</code> w</p>\n").toList := by
  decide +kernel

/-- no blank at the end of the last line (`postEnd`) is a restriction of the statement, not of the behaviour: the
    inline parser's `trim_src` drops it -/
example : renderDoc false (exCfg false 100) "a ``x
y`` w ".toList = .ok "<p>a <code>x y</code> w</p>
".toList := by
  decide +kernel

/-- multi-line spans inside containers are NOT covered by the theorems (OPEN below); by evaluation: the prefixes
    are gone before the inline parser runs, a lazy continuation line works too -/
example : renderDoc false (exCfg false 100) "> a ``x\n> y``".toList =
      .ok "<blockquote>\n<p>a <code>x y</code></p>\n</blockquote>\n".toList ∧
    renderDoc false (exCfg false 100) "> a ``x\ny``".toList =
      .ok "<blockquote>\n<p>a <code>x y</code></p>\n</blockquote>\n".toList ∧
    renderDoc false (exCfg false 100) "- a ``x\n  y``".toList = .ok "<ul>\n<li>a <code>x y</code></li>\n</ul>\n".toList := by
  decide +kernel

end examples

/-
OPEN:
  1. `doc_span_multiline_nested`: the multi-line paragraph inside block quotes / list items (`wrapAll`-style
     prefixes on EVERY line).  Missing lemma: the container analogue of `Block.parseBlocks_lines`, i.e.
     `C11N.doc_para_blocks_nested` (Lemmas/C11Nested.lean; it takes the inner document's block result `hbase` and
     `htight` and is stated for `Good [l]`, ONE line) for `Good Ls` with `n` lines: C06's `'> '`-prefix simulation
     (`quote_commutes`) and the list-item simulation (`C06List`) are per line already; what is missing is the
     induction over the lines in `bqScan` / `listLoop` for paragraph CONTINUATION lines, with the table
     `[(p_j, p_j + widthAll w · (j + 1))]` (each line's prefix shifts the source offset once more).  The inline half
     is ready: `C11M.parseInline_raw` takes ANY table with a total translation `tr`; `tr` would be
     `a ↦ a + widthAll w · (line of a + 1)`, to be proved from `C05.translate_segment_free` as `idTable_translate`.
  2. paragraphs with further lines in front of the opening line or behind the closing line (`pre` / `post` with
     line feeds): `SpanLines` asks `PlainTxt pre`, `PlainTxt post`, which excludes LF.  Missing lemma: the
     `newline` rule on `text ⏎ text` inside `C11M.tokLoop_plain` (one more iteration kind producing a `Softbreak`
     node and skipping the next line's indentation); the block half (`parseBlocks_lines`) already covers it.
-/

end MdIt.C11M
