/-
  C01 for the WHOLE block pass of the model: `parseBlocks` never panics and never runs out of fuel.

      parseBlocks_total : ∀ cfg src, ∃ root refs, parseBlocks cfg src = .ok (root, refs)

  for EVERY configuration (any chain over the nine rule ids, in any order, with or without the
  paragraph rule; any `maxNesting`, including 0; any entity / case tables) and EVERY source.  No
  size bound is needed: the model computes with unbounded `Nat` / `Int`, and is exact for the Rust
  as long as offsets fit `i32`, i.e. for `byteLen src < 2^31` (`Model/Lines.lean`, header) — that
  bound is a hypothesis of the model-to-code correspondence, not of this theorem.

  Every Rust operation that can panic is a partial operation of the model (`Model/Block.lean`,
  `Panic`): `.index` (`line_offsets[i]`, `mapping[0]`), `.slice` (`&s[a..b]`), `.assert`
  (`debug_assert!` of `get_lines` / `get_map_from_offsets` / `mark_tight_paragraphs`), `.unwrap`
  (`parse::<u32>()`, `next_back()`, `list_indent`), `.sub` (unsigned subtraction), `.cast`
  (`indent_nonspace as usize` in `list.rs`), `.progress` (`assert!(state.line > prev_line)`), and
  `.fuel` (the model's own).  None fires.

  Route.
   * `MdIt/Lemmas/BlockTotalFuel.lean` — `.fuel`: `parseBlocks_fuel`, `tokenize_nf` (measure
     `need = (lineMax - line) + min (maxNesting - level) Φ + 2`, `Φ = Σ (line_end - first_nonspace)`).
   * `MdIt/Lemmas/BlockTotalCore.lean` — the state invariant `BInv` (`src`, `offs`, `lineMax` only:
     every entry cuts a line-feed-free line out of the source on char boundaries with
     `line_start ≤ first_nonspace ≤ line_end` (`TableOk`), `lineMax ≤ #offs`, line ends monotone,
     the bytes in front of `first_nonspace` one byte wide), `bInv_fresh`, preservation
     (`BInv.of_frame` — every rule and every nested tokenizer call hands the frame back — and
     `BInv.setOff` for the containers' rewriting), `NoPanic x := ∀ e, x = .error e → e = .fuel`.
   * per rule `<rule>_np : BInv s → s.line < s.lineMax → … → NoPanic (<rule> … s silent)`, both modes:
     `BlockTotalLeaf.lean` (hr, heading, code, fence, paragraph, lheading, `lazyScan`),
     `BlockTotalRef.lean` + `BlockTotalRefRule.lean` (reference), `BlockTotalQuote.lean`,
     `BlockTotalList.lean`.
   * `BlockTotalEngine.lean` — chain, `tokLoop` (the progress `assert!` by `Advanced.lt`, the
     no-paragraph fallback), induction on the fuel through nested tokenizer and look-ahead.
-/
import MdIt.Lemmas.BlockTotalEngine
import MdIt.Lemmas.BlockTotalRefRule
import MdIt.Lemmas.BlockTotalQuote
import MdIt.Lemmas.BlockTotalList

namespace MdIt.Block
open MdIt.Lines (LineOffset)

/-- the two container rules, as delivered by `BlockTotalQuote.lean` / `BlockTotalList.lean` -/
structure ContainersNP : Prop where
  quote : ∀ {tok : Tok} {test : Test}, TokSpec tok → TestPure test → TestOK test → TokOK tok →
    ∀ {fuel : Nat} {s : BState} {silent : Bool}, BInv s → s.line < s.lineMax →
      (silent = false → IndentOk s) → NoPanic (blockquoteRule tok test fuel s silent)
  list : ∀ {tok : Tok} {test : Test}, TokSpec tok → TokShape tok → TestPure test → TestOK test → TokOK tok →
    ∀ {fuel : Nat} {s : BState} {silent : Bool}, BInv s → s.line < s.lineMax →
      (silent = false → IndentOk s) → NoPanic (listRule tok test fuel s silent)

/-- the nine rules: none panics on a line that exists (real mode: at a non-negative indent) -/
theorem rulesNP_of (hC : ContainersNP) (cfg : Cfg) : RulesNP cfg := by
  intro tok test fuel hk hsh ht hto hko r s silent hI hl hi
  cases r <;> simp only [runRule]
  · exact code_np hI hl
  · exact fence_np hI hl
  · exact hC.quote hk ht hto hko hI hl hi
  · exact hr_np hI hl
  · exact hC.list hk hsh ht hto hko hI hl hi
  · exact reference_np ht hto hI hl
  · exact heading_np hI hl
  · exact lheading_np ht hto hI hl
  · exact paragraph_np ht hto hI hl

theorem parseBlocks_noPanic_of (hC : ContainersNP) (cfg : Cfg) (src : List Char) :
    NoPanic (parseBlocks cfg src) := by
  intro e h
  unfold parseBlocks at h
  split at h
  · rename_i e' he
    simp only [Except.error.injEq] at h
    subst h
    exact (engine_np (rulesNP_of hC cfg) _).1 _ (bInv_fresh src .root []) _ he
  · cases h

theorem parseBlocks_total_of (hC : ContainersNP) (cfg : Cfg) (src : List Char) :
    ∃ root refs, parseBlocks cfg src = .ok (root, refs) := by
  cases h : parseBlocks cfg src with
  | ok r => exact ⟨r.1, r.2, rfl⟩
  | error e =>
    have := parseBlocks_noPanic_of hC cfg src e h
    subst this
    exact absurd h (parseBlocks_fuel cfg src)

/-- the tokenizer on ANY state that satisfies the invariant, with enough fuel (`need`,
    `BlockTotalFuel.lean`): total, and it hands the invariant back -/
theorem tokenize_total_of (hC : ContainersNP) (cfg : Cfg) (f : Nat) (s : BState) (hI : BInv s)
    (hf : need cfg s ≤ f) : ∃ s', tokenize cfg f s = .ok s' ∧ BInv s' := by
  cases h : tokenize cfg f s with
  | ok s' => exact ⟨s', rfl, hI.of_frame (tokenize_spec cfg f s s' h).frame⟩
  | error e =>
    have := (engine_np (rulesNP_of hC cfg) f).1 s hI e h
    subst this
    exact absurd h (tokenize_nf cfg f s hf)

/-- the look-ahead `test_rules_at_line` on any existing line of a state that satisfies the invariant:
    total at every positive budget (it neither loops nor nests), and it returns the state it was given -/
theorem testRules_total_of (hC : ContainersNP) (cfg : Cfg) (f : Nat) (s : BState) (hI : BInv s)
    (hl : s.line < s.lineMax) : ∃ b, testRules cfg (f + 1) s = .ok (b, s) := by
  cases h : testRules cfg (f + 1) s with
  | ok r =>
    have := testRules_pure cfg (f + 1) s r h
    exact ⟨r.1, by rw [← this]⟩
  | error e =>
    have := (engine_np (rulesNP_of hC cfg) (f + 1)).2 s hI hl e h
    subst this
    exact absurd h (testRules_nf cfg f s)

/-- a single rule as the tokenizer at budget `fuel + 1` runs it (`ruleAt`), in either mode, on an
    existing line at a non-negative indent, below the nesting limit and within the fuel budget:
    total, and the invariant is preserved -/
theorem ruleAt_total_of (hC : ContainersNP) (cfg : Cfg) (fuel : Nat) (r : RuleId) (s : BState) (silent : Bool)
    (hI : BInv s) (hl : s.line < s.lineMax) (hi : IndentOk s) (hlv : s.level < cfg.maxNesting)
    (hf : need cfg s ≤ fuel + 1) (h1 : 1 ≤ fuel) :
    ∃ b s', ruleAt cfg fuel r s silent = .ok (b, s') ∧ BInv s' := by
  obtain ⟨g, rfl⟩ : ∃ g, fuel = g + 1 := ⟨fuel - 1, by omega⟩
  have hspec := runRule_spec (cfg := cfg) (tokenize_tokSpec cfg (g + 1)) (testRules_pure cfg (g + 1)) (g + 1 + 1)
  cases h : ruleAt cfg (g + 1) r s silent with
  | ok w =>
    obtain ⟨b, s'⟩ := w
    refine ⟨b, s', rfl, ?_⟩
    cases silent with
    | true => rw [silent_pure_rule h]; exact hI
    | false =>
      cases b with
      | false => rw [hspec.false_same r s s' h]; exact hI
      | true => exact hI.of_frame (hspec.advanced r s s' h hl hi).frame
  | error e =>
    have hnp := rulesNP_of hC cfg (tokenize cfg (g + 1)) (testRules cfg (g + 1)) (g + 1 + 1)
      (tokenize_tokSpec cfg _) (tokenize_shape cfg _) (testRules_pure cfg _)
      (engine_np (rulesNP_of hC cfg) _).2 (engine_np (rulesNP_of hC cfg) _).1 r s silent hI hl (fun _ => hi) e h
    subst hnp
    exfalso
    refine runRule_nf (tokenize_tokSpec cfg (g + 1)) (testRules_pure cfg (g + 1))
      (fun s => testRules_nf cfg g s) (tokenize_nf cfg (g + 1)) r hl ?_ hi hf hlv h
    unfold need at hf; omega

/-! ## the unconditional statements -/

theorem containersNP : ContainersNP :=
  ⟨fun hk ht hto hko _ _ _ hI hl hi => blockquote_np hk ht hto hko hI hl hi,
   fun hk hsh ht hto hko _ _ _ hI hl hi => list_np hk hsh ht hto hko hI hl hi⟩

/-- the nine rules, in both modes, with total call-backs: no panic on an existing line (real mode:
    at a non-negative indent) of a state that satisfies the invariant -/
theorem rulesNP (cfg : Cfg) : RulesNP cfg := rulesNP_of containersNP cfg

/-- `parseBlocks` fails at most with `.fuel` … -/
theorem parseBlocks_noPanic (cfg : Cfg) (src : List Char) : NoPanic (parseBlocks cfg src) :=
  parseBlocks_noPanic_of containersNP cfg src

/-- **C01, block pass**: for every configuration and every source the block pass of the model
    returns a tree and a reference map — no partial operation fires, the fuel is never exhausted. -/
theorem parseBlocks_total (cfg : Cfg) (src : List Char) :
    ∃ root refs, parseBlocks cfg src = .ok (root, refs) :=
  parseBlocks_total_of containersNP cfg src

/-- the same with the bound under which the model is exact for the Rust (`i32` offsets) spelled out;
    the model itself does not need it -/
theorem parseBlocks_total_i32 (cfg : Cfg) (src : List Char) (_h : Lines.byteLen src < 2 ^ 31) :
    ∃ root refs, parseBlocks cfg src = .ok (root, refs) := parseBlocks_total cfg src

theorem tokenize_total (cfg : Cfg) (f : Nat) (s : BState) (hI : BInv s) (hf : need cfg s ≤ f) :
    ∃ s', tokenize cfg f s = .ok s' ∧ BInv s' := tokenize_total_of containersNP cfg f s hI hf

theorem testRules_total (cfg : Cfg) (f : Nat) (s : BState) (hI : BInv s) (hl : s.line < s.lineMax) :
    ∃ b, testRules cfg (f + 1) s = .ok (b, s) := testRules_total_of containersNP cfg f s hI hl

theorem ruleAt_total (cfg : Cfg) (fuel : Nat) (r : RuleId) (s : BState) (silent : Bool)
    (hI : BInv s) (hl : s.line < s.lineMax) (hi : IndentOk s) (hlv : s.level < cfg.maxNesting)
    (hf : need cfg s ≤ fuel + 1) (h1 : 1 ≤ fuel) :
    ∃ b s', ruleAt cfg fuel r s silent = .ok (b, s') ∧ BInv s' :=
  ruleAt_total_of containersNP cfg fuel r s silent hI hl hi hlv hf h1

/-! ## instances (by evaluation) on the inputs where one would look for a panic first -/

section examples

def cfgOf (n : Nat) (chain : List RuleId) : Cfg :=
  { maxNesting := n, chain := chain, lookup := fun _ => none, L := fun c => [c], U := fun c => [c] }

def stock : List RuleId := [.code, .fence, .blockquote, .hr, .list, .reference, .heading, .lheading, .paragraph]

/-- number of children of the root, `none` on a panic -/
def rootLen : Except Panic (BNode × Refs.RefMap) → Option Nat
  | .ok (n, _) => some n.children.length
  | .error _ => none

-- a tab split by a quote marker
example : rootLen (parseBlocks (cfgOf 100 stock) ['>', ' ', 'a', '\n', '>', '\t', 'b']) = some 1 := by decide +kernel
-- a chain without the paragraph rule (the fallback of `tokenize` pushes the lines as they are)
example : rootLen (parseBlocks (cfgOf 100 [.code, .fence, .blockquote, .hr, .list, .reference, .heading, .lheading])
    ['a', '\n', 'b', '\n', '>', ' ', 'c', '\n', 'd']) = some 4 := by decide +kernel
-- the empty chain
example : rootLen (parseBlocks (cfgOf 100 []) ['a', '\n', '\n', 'b']) = some 2 := by decide +kernel
-- `max_nesting = 0`: no rule runs at all — and the whole document is dropped
example : rootLen (parseBlocks (cfgOf 0 stock) ['>', ' ', 'a', '\n', '-', ' ', 'b']) = some 0 := by decide +kernel
-- `max_nesting = 1`: the inner quote is cut
example : rootLen (parseBlocks (cfgOf 1 stock) ['>', ' ', '>', ' ', 'a']) = some 1 := by decide +kernel
-- only line endings
example : rootLen (parseBlocks (cfgOf 100 stock) ['\n', '\r', '\n', '\r', '\n']) = some 0 := by decide +kernel
-- a list marker at the very end of the source (after a paragraph: setext underline; after an item: empty item)
example : rootLen (parseBlocks (cfgOf 100 stock) ['a', '\n', '-']) = some 1 := by decide +kernel
example : rootLen (parseBlocks (cfgOf 100 stock) ['-', ' ', 'a', '\n', '-']) = some 1 := by decide +kernel
-- 9 digits: an ordered list starting at 123456789 (`parse::<u32>` succeeds); 10 digits: a paragraph
example : (parseBlocks (cfgOf 100 stock) ['1', '2', '3', '4', '5', '6', '7', '8', '9', '.', ' ', 'a']).toOption.map
    (fun r => r.1.children.map (·.kind)) = some [.orderedList 123456789 '.'] := by decide +kernel
example : (parseBlocks (cfgOf 100 stock) ['1', '2', '3', '4', '5', '6', '7', '8', '9', '0', '.', ' ', 'a']).toOption.map
    (fun r => r.1.children.map (·.kind)) = some [.paragraph] := by decide +kernel
-- a reference definition behind a quote marker and a tab, multi-byte text
example : rootLen (parseBlocks (cfgOf 100 stock) ['>', '\t', '[', 'é', ']', ':', ' ', 'x', '\n', '>', ' ', 'é', ']', ':', ' ', 'y'])
    = some 1 := by decide +kernel

end examples

/-
  FINDINGS (no reachable panic; three things worth knowing).

   1. `refParse` (reference.rs) skips the first character of the trimmed text blindly
      (`chars.next(); // skip '['`) and later slices `&str[1..label_end]`: on a text whose first
      character is multi-byte it panics (`refParse exCfg "é]: x" = .error .slice`, kept as an example
      in `Lemmas/BlockTotalRef.lean`; `refParse_error`: this is its ONLY panic).  Unreachable from the
      rule: it has checked that the line starts with `[`, and everything `get_lines` can put in front
      of it is one byte wide (`BInv.ascii` — blanks and container markers).  The invariant that makes
      this safe is not local to reference.rs.
   2. `max_nesting = 0` makes `tokenize` skip to `line_max` before any rule runs: EVERY document
      parses to an empty root (real crate: `md.max_nesting = 0; md.parse("plain").render() == ""`);
      with `max_nesting = 1`, `"> > a"` renders `<blockquote>\n</blockquote>\n` — content beyond the
      limit is dropped silently, not kept as text.  No panic, and `need` is smallest there.
   3. The rules are NOT individually panic-free on arbitrary states: the block-quote rule in real mode
      at a line with a negative `line_indent` underflows `state.line - 1` / trips
      `debug_assert!(start_line <= end_line)` (`Lemmas/BlockTotalQuote.lean`, two `decide +kernel`
      witnesses on artificial states), and the list rule would hit `indent_nonspace as usize` with a
      negative value.  `tokenize` checks `line_indent(line) < 0` before it runs the chain, and the list
      loop re-checks it before every further item — the hypothesis `IndentOk` of `RunNP` is exactly
      that check.  A custom caller that runs a container rule elsewhere has to repeat it.
-/

end MdIt.Block
