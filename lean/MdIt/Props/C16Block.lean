/-
  PROPERTY C16 OVER A WHOLE RUN OF THE BLOCK PARSER.

  "Look-ahead never contradicts, alters or replaces real parsing.  Whenever a rule reports in look-ahead
  mode that its construct starts at a position, parsing at that position produces that construct with the
  same extent, and the look-ahead itself leaves the tree untouched.  A custom block rule that follows the
  documented contract (in look-ahead mode it may advance the current line but creates nothing) is invoked
  for real at every line it claimed, whatever container precedes it, so no line of the source is silently
  skipped."

  `Props/Block.lean`, `Props/BlockH.lean` prove this RULE BY RULE, on ONE state ("silent true ⇒ real not
  false", `testRulesH_true_real`).  In a run that is not enough: `test_rules_at_line` is called by the
  paragraph / lheading / reference rule on the lines BEHIND the current one, by the list rule and the
  blockquote rule, after `state.line` was moved there; the real chain arrives at those lines LATER, in
  another state (a paragraph pushed, `tight` recomputed, a reference added, the budget one higher).  There
  is no memo on the block side.  This file states C16 for the run — for every engine `E : Eng ι` that
  meets `Eng.OK` (`Lemmas/C16BlockEng.lean`):
      `engH cfg chain`    — EVERY chain over the ten shipped rules (`engH_ok`, no hypothesis; the nine
                            html-free rules are the chains without `.html`: `parseBlocksH_conservative`);
      `engX X cfg chain`  — the ten rules and ONE ABSTRACT CUSTOM RULE `X` anywhere in the chain, under
                            `CustomOK X` (`engX_ok`).

  THE RUN (`Lemmas/C16BlockRun.lean`, `Lemmas/C16BlockReach.lean`).  `tokStepG` = one iteration of the loop
  of `BlockParser::tokenize` (`tokLoopG_succ`: faithful); `RunsChain mn s sE`: the iteration at `s` runs
  the chain, on `sE` (`tokStepG_runs`); `Declined run pre sE false` + `chain = pre ++ i :: post`: the chain
  arrives at member `i` (`runChainG_declined`); `lazyScan_stop` / `SweepStop test s l`: the scan of the
  paragraph-like rules stopped at `l` because the call `test_rules_at_line` on `{ s with line := l }`
  answered yes (the other two reasons: end / blank line, setext underline); `Reach E F s0 f k he s`: the
  loop of a frame (top frame, and every block quote frame: `BqEnter`, `reach_quote_called`) stands at `s`;
  `frameTrace`, `quoteEntry` list them (`frameTrace_reach`, `quoteEntry_sound`).

  THEOREMS.
    2. `block_lookahead_quiet_run` — every look-ahead call, from ANY state at any budget (in particular
       every call of the run): the sweep hands back the state with at most `line` changed; the scan of
       the paragraph-like rules and the list's termination test hand back the very state (they restore
       `line`: `lazyScan`'s `s2 := { s1 with line := oldLine }`, `listContinue`'s `{ s with line :=
       oldLine }` — the statement `list.rs` lacked before 07357ef).  `block_lookahead_quiet_run_shipped`:
       without a custom rule the sweep itself returns the very state.
    3. `paragraph_end_is_real_start` (+ `_run`: along `Reach`) — where the paragraph ends because the sweep
       said yes at `l`, the next iteration of the loop stands at `l`, at a state that is the sweep's state
       except for tree / `tight` / reference map (`Honoured.agrees`; what look-ahead reads:
       `runRuleH_silent_congr`, `runRuleH_silent_indep`), and the real chain there ACCEPTS, with the first
       member that said yes or with an earlier member that declines in look-ahead mode and accepts in real
       mode (`Honoured.first_yes`) — unless the line is outdented (inside a list item only), where the
       item's frame ends AT `l` (`Honoured.outdented`).  `preempting_rule`: the only shipped rules that
       can take the line in front of the claimant are list (empty item / ordered item not starting at 1
       do not interrupt a paragraph), reference, lheading, paragraph (never yes in look-ahead) and html
       (start condition 7) — not hr / heading / fence / blockquote (`real_implies_silent_*`), not code.
       `honoured_of_sweep` is the caller-independent core (any yes of the sweep, any later state that
       differs in tree / `tight` / references only).
    5. `custom_rule_invoked_at_claimed_line`, `custom_rule_invoked_first` — the custom-rule clause.
    non-vacuity: `decide +kernel` instances on "a\n# h\nb" (ALL hypotheses of 3 discharged),
       "a\n- x\n> y", "- a\nb\n***", and a concrete style-A rule (`bangRule`, `bangRule_ok`) behind a
       paragraph, a list and a block quote.

  OPEN (statements not proved here; the lemma that is missing):
    (a) list item termination: DONE in the appended part (second session) — `list_end_is_real_start`
        (generic), `list_end_is_real_start_shipped` (every chain over the ten rules, no side condition),
        `custom_rule_after_list` (the 07357ef scenario for `engX`), with `Lemmas/C16BlockList.lean`
        (`runRuleH_silent_congr2`: every rule but the list rule reads neither node kind nor level;
        `list_in_list`; `listLoop_exit`, `listRule_ok`).  Left: for `engX` the level condition
        `s1.level < max_nesting` is a hypothesis (needs `TokSpec` of the `engX` tokenizer, i.e. the frame
        lemmas of `Props/Block.lean` under `TestQuiet` instead of `TestPure`); the custom rule needs the
        extra hypothesis `hX2` (its look-ahead reads neither node kind nor level).
    (b) lazy continuation of a block quote: DONE in the appended part (third session) —
        `quote_end_is_real_start` (generic, frame condition as a hypothesis), `quote_end_is_real_start_shipped`
        (every ten-rule chain, every depth and `blk_indent`), `custom_rule_after_quote`, with
        `Lemmas/C16BlockQuote.lean` (`runRuleH_silent_congr3`: look-ahead reads only the row `line` of the
        table; `bqScan_exit`, `ScanInv`, `blockquote_scans`).  Left as hypotheses: the quote's tokenizer
        consumed all lines of the quote (`s1.line = nl`; it may stop earlier at a lazy line), the line is not
        blank and not outdented; for `engX` the frame condition `Frame sE s1` and `hX3`.
    (c) lheading / reference scans: DONE in the appended part — `lazyScan_false_of_true`,
        `lheading_declines_at_sweep_stop`, `lheading_end_is_real_start`, `reference_ok`,
        `reference_end_is_real_start`.
    (d) `Reach` does not descend into list items (the `listLoop` iteration relation); the theorems are
        stated for every state, so they hold in those frames — only the listing stops there.
-/
import MdIt.Lemmas.C16BlockReach
import MdIt.Lemmas.C16BlockList
import MdIt.Lemmas.C16BlockQuote

namespace MdIt.BlockH.C16
open MdIt.Block
open MdIt.Lines (LineOffset)

section generic
variable {ι : Type} {E : Eng ι}

/-! ## 2. look-ahead is quiet -/

/-- **C16, every look-ahead call of a run leaves the state untouched.**  For every engine whose members
    meet the contract (every chain over the ten shipped rules: `engH_ok`; with a custom rule:
    `engX_ok`), every budget `f` and EVERY state `s` — in particular every call the run makes —:
    `test_rules_at_line` hands back `s` with at most `line` changed (tree, reference map, line table,
    `blk_indent`, `line_max`, `level`, `tight`, `list_indent`, the node under construction: untouched), and
    the three kinds of callers of the model put `line` back:
      * `lazyScan` (paragraph / lheading / reference): `s2 := { s1 with line := oldLine }` — the scan
        returns the very state it was given (`lazyScan_stop`);
      * `listContinue` (list item termination): `{ s with line := oldLine }` — the statement that was
        missing in `list.rs` before 07357ef;
      * `bqScan` (lazy continuation): `line` is dead there — `blockquoteRule` sets `line := startLine`
        for the nested tokenizer. -/
theorem block_lookahead_quiet_run (hE : E.OK) (f : Nat) :
    (∀ s b s', E.test f s = .ok (b, s') → { s' with line := s.line } = s) ∧
    (∀ setext fuel s n l lvl s', lazyScan (E.test f) setext fuel s n = .ok (l, lvl, s') → s' = s) ∧
    (∀ ordered mc s n o s', listContinue (E.test f) ordered mc s n = .ok (o, s') → s' = s) := by
  refine ⟨hE.test_quiet f, fun setext fuel s n l lvl s' h => (lazyScan_stop (hE.test_quiet f) setext _ _ _ _ _ _ h).1, ?_⟩
  intro ordered mc s n o s' h
  unfold listContinue at h
  have key : ∀ (r : Bool × BState), E.test f s = .ok r → ({ r.2 with line := s.line } : BState) = s :=
    fun r hr => hE.test_quiet f _ _ _ hr
  crack h
  all_goals (try (have := key _ ‹E.test f s = _›))
  all_goals simp_all


/-- the same for the shipped rules, any chain: the sweep returns the very state (no custom rule moves
    `line`) -/
theorem block_lookahead_quiet_run_shipped (cfg : Cfg) (chain : List RuleIdH) (f : Nat) (s : BState)
    (b : Bool) (s' : BState) (h : testRulesH cfg chain f s = .ok (b, s')) : s' = s :=
  testRulesH_pure cfg chain f s (b, s') h

/-! ## 3. the look-ahead yes is honoured by the next iteration -/

/-- **what "honoured" means.**  `t` is the state on which `test_rules_at_line` answered yes (at line
    `t.line`), `u` the state at which the tokenizer loop of the same frame stands next:
    * `agrees` — `u` is `t` except for the tree under construction, `tight` and the reference map: the
      same line, line table, `blk_indent`, `line_max`, `level`, `list_indent`, node kind, source;
    * `ind`/`outdented`/`runs` — the line is less than 4 columns in; when it is outdented (`line_indent
      < 0`, only inside a list item) the frame ends AT that line (the enclosing list goes on there), when
      it is not, the loop runs the real chain at `u` itself (no blank line is skipped, the nesting limit
      does not cut in);
    * `first_yes` — the yes of the sweep came from a member `j`, the first one to say yes (`pre`
      declined); and whenever the real chain at `u` returns, it ACCEPTS — never the fallback, never a
      second paragraph for want of a taker —, with `j` itself or with a member of `pre` (one that
      declines in look-ahead mode and accepts in real mode). -/
structure Honoured (E : Eng ι) (f : Nat) (t u : BState) : Prop where
  agrees : ∃ c b m, u = upd t c b m
  ind : ∃ ind, u.lineIndent u.line = .ok ind ∧ ind < 4
  outdented : ∀ ind, u.lineIndent u.line = .ok ind → ind < 0 →
    ∀ he, tokStepG E.cfg.maxNesting E.chain (E.rule f) he u = .ok (.done u)
  runs : ∀ ind, u.lineIndent u.line = .ok ind → 0 ≤ ind → RunsChain E.cfg.maxNesting u u
  first_yes : ∃ pre j post t1, E.chain = pre ++ j :: post ∧ Declined (E.rule f) pre t true ∧
    E.rule f j t true = .ok (true, t1) ∧
    ∀ b' u', runChainG (E.rule f) E.chain u false = .ok (b', u') →
      b' = true ∧ ∃ pre' j' post', E.chain = pre' ++ j' :: post' ∧ Declined (E.rule f) pre' u false ∧
        E.rule f j' u false = .ok (true, u') ∧ pre'.length ≤ pre.length ∧
        ((pre' = pre ∧ j' = j) ∨ (j' ∈ pre ∧ E.rule f j' u true = .ok (false, u)))

/-- the engine of the agreement: a yes of the sweep the rules of loop level `f` call (`E.test f`), on an
    existing non-blank line less than 4 columns in and below the nesting limit, is honoured at every state
    that differs from the sweep's only in tree / `tight` / reference map -/
theorem honoured_of_sweep (hE : E.OK) {f : Nat} {t t1 : BState} (hyes : E.test f t = .ok (true, t1))
    (hl : t.line < t.lineMax) (hne : t.isEmpty t.line = false) (hlv : t.level < E.cfg.maxNesting)
    (hind : ∃ ind, t.lineIndent t.line = .ok ind ∧ ind < 4) (c : List BNode) (b : Bool) (m : Refs.RefMap) :
    Honoured E f t (upd t c b m) := by
  obtain ⟨ind, hi, hi4⟩ := hind
  have hnext := next_iteration (chain := E.chain) (run := E.rule f) (u := upd t c b m) (mn := E.cfg.maxNesting)
    hl hne hlv (ind := ind) hi
  refine ⟨⟨c, b, m, rfl⟩, ⟨ind, hi, hi4⟩, ?_, ?_, ?_⟩
  · intro ind' h' hneg he
    have : ind' = ind := by
      have h2 : (upd t c b m).lineIndent (upd t c b m).line = .ok ind := hi
      rw [h2] at h'; cases h'; rfl
    subst this
    exact hnext.2 hneg he
  · intro ind' h' h0
    have : ind' = ind := by
      have h2 : (upd t c b m).lineIndent (upd t c b m).line = .ok ind := hi
      rw [h2] at h'; cases h'; rfl
    subst this
    exact hnext.1 h0
  · -- the sweep, as a run of the rules of loop level `f`
    obtain ⟨g, rfl⟩ : ∃ g, f = g + 1 := by
      cases f with
      | zero => rw [E.test_zero] at hyes; cases hyes
      | succ g => exact ⟨g, rfl⟩
    rw [E.test_succ] at hyes
    have hyes' : runChainG (E.rule (g + 1)) E.chain t true = .ok (true, t1) := by
      rw [← runChainG_silent_ext (fun i s => hE.silent_indep g (g + 1) i s)]; exact hyes
    obtain ⟨pre, j, post, hch, hd, hj⟩ := chain_true_split (hE.silent_no (g + 1)) E.chain hyes'
    refine ⟨pre, j, post, t1, hch, hd, hj, ?_⟩
    intro b' u' hreal
    -- the members say at `u` what they say at `t`
    have hju : E.rule (g + 1) j (upd t c b m) true = .ok (true, upd t1 c b m) := by
      rw [hE.silent_congr, hj]; rfl
    rw [hch] at hreal
    obtain ⟨hb, pre', j', post', he, hd', hj', hlen, hor⟩ :=
      chain_agree (hE.false_same (g + 1)) (hE.silent_real (g + 1)) pre j post hju hreal
    refine ⟨hb, pre', j', post', by rw [hch, he], hd', hj', hlen, ?_⟩
    rcases hor with h | hm
    · exact .inl h
    · refine .inr ⟨hm, ?_⟩
      rw [hE.silent_congr, hd j' hm]; rfl


/-- the real chain, having gone through a declining prefix, returns what the member behind it returns
    when that member accepts -/
theorem chain_accepts_at {run : ι → BState → Bool → Res} {pre post : List ι} {i : ι} {s s1 : BState}
    (hd : Declined run pre s false) (hp : run i s false = .ok (true, s1)) :
    runChainG run (pre ++ i :: post) s false = .ok (true, s1) := by
  rw [runChainG_declined hd]
  simp only [runChainG, hp]

/-- **C16, the core agreement: where the paragraph ends because look-ahead said yes, real parsing starts
    a block.**  The tokenizer loop (any frame, any depth: `s` is arbitrary) runs the chain on `sE`, the
    members in front of the paragraph rule decline, the paragraph rule runs.  Then it accepts, its scan
    stops at some line `l` and pushes one `Paragraph`; and IF THE SCAN STOPPED BECAUSE THE SWEEP ANSWERED
    YES AT `l` (`SweepStop`: the call `test_rules_at_line` on `{ sE with line := l }`), then
    * this iteration of the loop ends with "go round again" at the state `u` = the sweep's state
      `{ sE with line := l }` with the paragraph pushed and `tight` recomputed — the NEXT ITERATION STANDS
      AT LINE `l`;
    * the yes is `Honoured` there (see the structure): same line table entries, `blk_indent`, `line_max`,
      `level` …, and the real chain at `l` accepts with the first member that said yes in the sweep, or
      with an earlier member that declines in look-ahead mode and accepts in real mode. -/
theorem paragraph_end_is_real_start (hE : E.OK) {f : Nat} (he : Bool) {s sE : BState} {pre post : List ι} {i : ι}
    {b : Bool} {s1 : BState}
    (hR : RunsChain E.cfg.maxNesting s sE) (hc : E.chain = pre ++ i :: post)
    (hd : Declined (E.rule f) pre sE false) (hi : E.base i = some .paragraph)
    (hp : E.rule f i sE false = .ok (b, s1)) :
    ∃ l lvl p, lazyScan (E.test f) false (f + 1) sE sE.line = .ok (l, lvl, sE) ∧ p.kind = .paragraph ∧
      b = true ∧ s1 = upd { sE with line := l } (sE.children ++ [p]) sE.tight sE.refs ∧
      (SweepStop (E.test f) sE l →
        tokStepG E.cfg.maxNesting E.chain (E.rule f) he s =
          .ok (.next (he || sE.isEmpty (l - 1)) (upd { sE with line := l } (sE.children ++ [p]) (!he) sE.refs)) ∧
        Honoured E f { sE with line := l } (upd { sE with line := l } (sE.children ++ [p]) (!he) sE.refs)) := by
  have hq := hE.test_quiet f
  rw [E.rule_base f i _ hi] at hp
  obtain ⟨rfl, l, lvl, r, content, mapping, hs, rfl⟩ := paragraph_ok hq hp
  refine ⟨l, lvl, _, hs, rfl, rfl, rfl, ?_⟩
  intro hstop
  have hlt := (lazyScan_stop hq false _ _ _ _ _ _ hs).2.1
  rw [← E.rule_base f i _ hi] at hp
  have hch := chain_accepts_at (post := post) hd hp
  rw [← hc] at hch
  refine ⟨step_after_accept hR hch hlt hstop.lt hstop.nonblank, ?_⟩
  obtain ⟨t1, hyes⟩ := hstop.yes
  exact honoured_of_sweep hE hyes hstop.lt hstop.nonblank hR.lvl hstop.ind _ _ _


/-- the first member that says yes is unique -/
theorem first_yes_unique {run : ι → BState → Bool → Res} {s : BState} :
    ∀ (pre pre2 : List ι) {j j2 : ι} {post post2 : List ι} {a a2 : BState},
      pre ++ j :: post = pre2 ++ j2 :: post2 → Declined run pre s true → Declined run pre2 s true →
      run j s true = .ok (true, a) → run j2 s true = .ok (true, a2) → pre = pre2 ∧ j = j2 := by
  intro pre
  induction pre with
  | nil =>
    intro pre2 j j2 post post2 a a2 he _ hd2 hj hj2
    cases pre2 with
    | nil => simp only [List.nil_append, List.cons.injEq] at he; exact ⟨rfl, he.1⟩
    | cons p pre2 =>
      simp only [List.nil_append, List.cons_append, List.cons.injEq] at he
      have := hd2 p (List.mem_cons_self ..)
      rw [← he.1, hj] at this
      cases this
  | cons q pre ih =>
    intro pre2 j j2 post post2 a a2 he hd hd2 hj hj2
    cases pre2 with
    | nil =>
      simp only [List.nil_append, List.cons_append, List.cons.injEq] at he
      have := hd q (List.mem_cons_self ..)
      rw [he.1, hj2] at this
      cases this
    | cons p pre2 =>
      simp only [List.cons_append, List.cons.injEq] at he
      obtain ⟨h1, h2⟩ := ih pre2 he.2 (fun k hk => hd k (List.mem_cons_of_mem _ hk))
        (fun k hk => hd2 k (List.mem_cons_of_mem _ hk)) hj hj2
      exact ⟨by rw [he.1, h1], h2⟩

/-- **which shipped rules can take a line in front of the member that claimed it**: a cmark rule that
    declines in look-ahead mode and accepts in real mode on a line less than 4 columns in is the list
    rule (it does not interrupt a paragraph with an empty item or an ordered item not starting at 1),
    or one of reference / lheading / paragraph (they never say yes in look-ahead mode).  Not hr, heading,
    fence, blockquote (their look-ahead is complete), not code (needs 4 columns). -/
theorem preempting_rule (E : Eng ι) {f : Nat} {j : ι} {r : RuleId} {u u' : BState}
    (hb : E.base j = some r) (hs : E.rule f j u true = .ok (false, u))
    (hr : E.rule f j u false = .ok (true, u')) (hi : ∃ ind, u.lineIndent u.line = .ok ind ∧ ind < 4) :
    r = .list ∨ r = .reference ∨ r = .lheading ∨ r = .paragraph := by
  rw [E.rule_base f j r hb] at hs hr
  cases r with
  | code =>
    exfalso
    obtain ⟨ind, hi, h4⟩ := hi
    simp only [runRule] at hr
    unfold codeRule at hr
    simp only [Bool.false_eq_true, if_false, hi, ok_bind] at hr
    rw [if_pos h4] at hr
    cases hr
  | fence => simp only [runRule] at hs hr; rw [real_implies_silent_fence hr] at hs; cases hs
  | blockquote => simp only [runRule] at hs hr; rw [real_implies_silent_blockquote hr] at hs; cases hs
  | hr => simp only [runRule] at hs hr; rw [real_implies_silent_hr hr] at hs; cases hs
  | heading => simp only [runRule] at hs hr; rw [real_implies_silent_heading hr] at hs; cases hs
  | list => exact .inl rfl
  | reference => exact .inr (.inl rfl)
  | lheading => exact .inr (.inr (.inl rfl))
  | paragraph => exact .inr (.inr (.inr rfl))

end generic

/-! ## 5. the custom-rule clause -/

/-- **C16, a custom block rule that follows the documented contract is invoked for real at every line it
    claimed.**  The chain: the ten shipped rules and ONE abstract custom rule `X`, anywhere, any order.
    `X` meets `CustomOK` (look-ahead: a verdict, may advance `line` — style A, `examples/ferris` —,
    creates nothing; the two modes agree; the verdict does not read the tree).  The loop runs the chain
    on `sE`, the paragraph rule's scan stops at `l` because the sweep said yes, AND THAT YES CAME FROM `X`
    (the members `pre0` in front of it declined in look-ahead mode).  Then the next iteration of the loop
    stands at `l` (the callers restored `line`, whatever `X` did to it), and when the line is not
    outdented and the real chain there returns, it accepted, and
      * `X` WAS RUN IN REAL MODE on that state and accepted — or
      * a shipped member IN FRONT of `X` took the line: one that declined in look-ahead mode at the very
        state and accepted in real mode — necessarily the html rule (start condition 7), the list rule
        (empty item / ordered item not starting at 1), or reference / lheading / paragraph placed in
        front of `X` (they never answer yes in look-ahead mode).
    In particular (`custom_rule_invoked_first`) with `X` in front of those five rules — e.g. first in
    the chain, `md.block.add_rule::<X>().before_all()` — `X` is always invoked for real. -/
theorem custom_rule_invoked_at_claimed_line {X : BState → Bool → Res} (hX : CustomOK X) (cfg : Cfg)
    (chain : List RuleIdX) {f : Nat} (he : Bool) {s sE : BState} {pre post : List RuleIdX} {i : RuleIdX}
    {b : Bool} {s1 : BState}
    (hR : RunsChain cfg.maxNesting s sE) (hc : chain = pre ++ i :: post)
    (hd : Declined ((engX X cfg chain).rule f) pre sE false) (hi : i = .std (.base .paragraph))
    (hp : (engX X cfg chain).rule f i sE false = .ok (b, s1)) :
    ∃ l p, p.kind = .paragraph ∧ s1 = upd { sE with line := l } (sE.children ++ [p]) sE.tight sE.refs ∧
      ∀ pre0 post0 t1, SweepStop ((engX X cfg chain).test f) sE l →
        chain = pre0 ++ .custom :: post0 →
        Declined ((engX X cfg chain).rule f) pre0 { sE with line := l } true →
        X { sE with line := l } true = .ok (true, t1) →
        let u := upd { sE with line := l } (sE.children ++ [p]) (!he) sE.refs
        tokStepG cfg.maxNesting chain ((engX X cfg chain).rule f) he s = .ok (.next (he || sE.isEmpty (l - 1)) u) ∧
        ∀ ind, u.lineIndent l = .ok ind → 0 ≤ ind →
          RunsChain cfg.maxNesting u u ∧
          ∀ b' u', runChainG ((engX X cfg chain).rule f) chain u false = .ok (b', u') →
            b' = true ∧
            (X u false = .ok (true, u') ∨
             ∃ j ∈ pre0, (engX X cfg chain).rule f j u true = .ok (false, u) ∧
               (engX X cfg chain).rule f j u false = .ok (true, u') ∧
               (j = .std .html ∨ j = .std (.base .list) ∨ j = .std (.base .reference) ∨
                j = .std (.base .lheading) ∨ j = .std (.base .paragraph))) := by
  subst hi
  have hE := engX_ok hX cfg chain
  obtain ⟨l, lvl, p, hs, hk, rfl, rfl, hmain⟩ :=
    paragraph_end_is_real_start (E := engX X cfg chain) hE he hR hc hd rfl hp
  refine ⟨l, p, hk, rfl, ?_⟩
  intro pre0 post0 t1 hstop hc0 hd0 hx
  obtain ⟨hstep, hH⟩ := hmain hstop
  refine ⟨hstep, ?_⟩
  intro ind hind h0
  refine ⟨hH.runs ind hind h0, ?_⟩
  intro b' u' hreal
  obtain ⟨pre1, j1, post1, t1', hc1, hd1, hj1, hall⟩ := hH.first_yes
  have hx' : (engX X cfg chain).rule f .custom { sE with line := l } true = .ok (true, t1) := hx
  obtain ⟨rfl, rfl⟩ := first_yes_unique pre0 pre1 (hc0.symm.trans hc1) hd0 hd1 hx' hj1
  obtain ⟨hb, pre', j', post', _, _, hj', _, hor⟩ := hall b' u' hreal
  refine ⟨hb, ?_⟩
  rcases hor with ⟨_, rfl⟩ | ⟨hm, hsil⟩
  · exact .inl hj'
  · refine .inr ⟨j', hm, hsil, hj', ?_⟩
    cases j' with
    | custom =>
      exfalso
      have h2 := hd0 .custom hm
      rw [hx'] at h2; cases h2
    | std j' =>
      cases j' with
      | html => exact .inl rfl
      | base r =>
        have := preempting_rule (engX X cfg chain) (j := .std (.base r)) (r := r) rfl hsil hj' hH.ind
        rcases this with rfl | rfl | rfl | rfl
        · exact .inr (.inl rfl)
        · exact .inr (.inr (.inl rfl))
        · exact .inr (.inr (.inr (.inl rfl)))
        · exact .inr (.inr (.inr (.inr rfl)))


/-- `X` in front of the five rules that can take a claimed line (e.g. first in the chain): it is ALWAYS
    run for real, and accepts, at the line it claimed -/
theorem custom_rule_invoked_first {X : BState → Bool → Res} (hX : CustomOK X) (cfg : Cfg)
    (chain : List RuleIdX) {f : Nat} (he : Bool) {s sE : BState} {pre post : List RuleIdX}
    {b : Bool} {s1 : BState}
    (hR : RunsChain cfg.maxNesting s sE) (hc : chain = pre ++ .std (.base .paragraph) :: post)
    (hd : Declined ((engX X cfg chain).rule f) pre sE false)
    (hp : (engX X cfg chain).rule f (.std (.base .paragraph)) sE false = .ok (b, s1))
    {pre0 post0 : List RuleIdX} (hc0 : chain = pre0 ++ .custom :: post0)
    (hfront : ∀ j ∈ pre0, j = .std (.base .code) ∨ j = .std (.base .fence) ∨ j = .std (.base .blockquote) ∨
      j = .std (.base .hr) ∨ j = .std (.base .heading)) :
    ∃ l p, s1 = upd { sE with line := l } (sE.children ++ [p]) sE.tight sE.refs ∧
      ∀ t1, SweepStop ((engX X cfg chain).test f) sE l →
        Declined ((engX X cfg chain).rule f) pre0 { sE with line := l } true →
        X { sE with line := l } true = .ok (true, t1) →
        ∀ ind, (upd { sE with line := l } (sE.children ++ [p]) (!he) sE.refs).lineIndent l = .ok ind → 0 ≤ ind →
          ∀ b' u', runChainG ((engX X cfg chain).rule f) chain
              (upd { sE with line := l } (sE.children ++ [p]) (!he) sE.refs) false = .ok (b', u') →
            X (upd { sE with line := l } (sE.children ++ [p]) (!he) sE.refs) false = .ok (true, u') := by
  obtain ⟨l, p, _, hs1, hall⟩ := custom_rule_invoked_at_claimed_line hX cfg chain he hR hc hd rfl hp
  refine ⟨l, p, hs1, ?_⟩
  intro t1 hstop hd0 hx ind hind h0 b' u' hreal
  obtain ⟨_, hrun⟩ := hall pre0 post0 t1 hstop hc0 hd0 hx
  obtain ⟨_, hor⟩ := (hrun ind hind h0).2 b' u' hreal
  rcases hor with h | ⟨j, hm, _, _, hj⟩
  · exact h
  · exfalso
    rcases hfront j hm with rfl | rfl | rfl | rfl | rfl <;> simp at hj

/-! ## 1. the run: the agreement along `Reach` -/

section run
variable {ι : Type} {E : Eng ι}

/-- **the agreement along the run**: `paragraph_end_is_real_start` at a state of the run — the state at
    which the next iteration stands is again a state of the run (`Reach`), in the same frame -/
theorem paragraph_end_is_real_start_run (hE : E.OK) {F : Nat} {s0 : BState} {f k : Nat} {he : Bool}
    {s sE : BState} {pre post : List ι} {i : ι} {b : Bool} {s1 : BState}
    (hreach : Reach E F s0 f (k + 1) he s)
    (hR : RunsChain E.cfg.maxNesting s sE) (hc : E.chain = pre ++ i :: post)
    (hd : Declined (E.rule f) pre sE false) (hi : E.base i = some .paragraph)
    (hp : E.rule f i sE false = .ok (b, s1)) :
    ∃ l lvl, ∃ p : BNode, lazyScan (E.test f) false (f + 1) sE sE.line = .ok (l, lvl, sE) ∧ p.kind = .paragraph ∧
      (SweepStop (E.test f) sE l →
        ∃ he' u, Reach E F s0 f k he' u ∧ u.line = l ∧ Honoured E f { sE with line := l } u) := by
  obtain ⟨l, lvl, p, hs, hk, _, _, hmain⟩ := paragraph_end_is_real_start hE he hR hc hd hi hp
  refine ⟨l, lvl, p, hs, hk, fun hstop => ?_⟩
  obtain ⟨hstep, hH⟩ := hmain hstop
  exact ⟨_, _, .step hreach hstep, rfl, hH⟩

end run

/-! ## non-vacuity -/

section examples

def verdict : Res → Option Bool
  | .ok (b, _) => some b
  | .error _ => none

def scanView : Except Panic (Nat × Nat × BState) → Option (Nat × Nat)
  | .ok (l, lvl, _) => some (l, lvl)
  | .error _ => none

theorem verdict_ok {r : Res} {b : Bool} (h : verdict r = some b) : ∃ s', r = .ok (b, s') := by
  unfold verdict at h
  split at h
  · simp only [Option.some.injEq] at h; subst h; exact ⟨_, rfl⟩
  · cases h

theorem declined_of_verdicts {ι : Type} {run : ι → BState → Bool → Res}
    (hfs : ∀ i s s', run i s false = .ok (false, s') → s' = s) {pre : List ι} {s : BState}
    (h : ∀ j ∈ pre, verdict (run j s false) = some false) : Declined run pre s false := by
  intro j hj
  obtain ⟨s', hs⟩ := verdict_ok (h j hj)
  rw [hs, hfs _ _ _ hs]

/-- a decidable form of `SweepStop` -/
def sweepStopB (test : Test) (s : BState) (l : Nat) : Bool :=
  decide (l < s.lineMax) && !s.isEmpty l &&
  (match s.lineIndent l with | .ok ind => decide (ind < 4) | .error _ => false) &&
  (match s.off l with | .ok o => decide (0 ≤ o.indentNonspace) | .error _ => false) &&
  (match test { s with line := l } with | .ok (true, _) => true | _ => false)

theorem sweepStop_of_B {test : Test} {s : BState} {l : Nat} (h : sweepStopB test s l = true) :
    SweepStop test s l := by
  unfold sweepStopB at h
  simp only [Bool.and_eq_true, decide_eq_true_eq, Bool.not_eq_true'] at h
  obtain ⟨⟨⟨⟨h1, h2⟩, h3⟩, h4⟩, h5⟩ := h
  refine ⟨h1, h2, ?_, ?_, ?_⟩
  · split at h3
    · exact ⟨_, ‹_›, by simpa using h3⟩
    · cases h3
  · split at h4
    · exact ⟨_, ‹_›, by simpa using h4⟩
    · cases h4
  · split at h5
    · exact ⟨_, ‹_›⟩
    · cases h5

/-- the stock configuration (ten rules), `max_nesting = 100` -/
abbrev exE : Eng RuleIdH := engH (cfgOfH 100 stockH).base stockH

abbrev exS (src : String) : BState := BState.fresh src.toList .root []

/-- the lines at which the loop of the top frame stands, and the verdicts -/
def topLines (src : String) (F : Nat) : List Nat :=
  (frameTrace exE F (F + 1) false (exS src)).map (fun x => x.2.2.line)

-- "a\n# h\nb": the top loop stands at lines 0, 1, 2 (and 3 = `line_max`, where it ends) — the paragraph ends at line 1 because the sweep
-- (the heading rule) said yes there; the next iteration stands at 1 and the heading rule accepts
example : topLines "a\n# h\nb" 6 = [0, 1, 2, 3] ∧
    scanView (lazyScan (exE.test 6) false 7 (exS "a\n# h\nb") 0) = some (1, 0) ∧
    sweepStopB (exE.test 6) (exS "a\n# h\nb") 1 = true ∧
    rootKinds (parseBlocksH (cfgOfH 100 stockH) "a\n# h\nb".toList) = some [.paragraph, .atx 1, .paragraph] := by
  decide +kernel

-- "a\n- x\n> y": the list interrupts the paragraph at line 1 (sweep: the list rule), the quote
-- terminates the list at line 2 (`listContinue`: the sweep says yes — the blockquote rule)
example : topLines "a\n- x\n> y" 6 = [0, 1, 2, 3] ∧
    sweepStopB (exE.test 6) (exS "a\n- x\n> y") 1 = true ∧
    verdict (exE.test 6 { exS "a\n- x\n> y" with line := 2 }) = some true ∧
    rootKinds (parseBlocksH (cfgOfH 100 stockH) "a\n- x\n> y".toList)
      = some [.paragraph, .bulletList '-', .blockquote] := by
  decide +kernel

-- "- a\nb\n***": inside the item the paragraph runs over the lazy line 1 and ends at line 2 by the
-- sweep (hr) — an OUTDENTED line: the item's frame ends there (`Honoured.outdented`), the list asks the
-- sweep again (`listContinue`), and the top loop stands at line 2, where the hr rule accepts
example : topLines "- a\nb\n***" 6 = [0, 2, 3] ∧
    rootKinds (parseBlocksH (cfgOfH 100 stockH) "- a\nb\n***".toList) = some [.bulletList '-', .hr '*' 3] := by
  decide +kernel


/-- a NON-stock order: lheading in front of heading -/
def chainP : List RuleIdH := [.base .lheading, .base .heading, .base .paragraph]
abbrev exP : Eng RuleIdH := engH (cfgOfH 100 chainP).base chainP

def kindsOf : Except Panic BState → Option (List Kind)
  | .ok s => some (s.children.map (·.kind))
  | .error _ => none

-- (NOT reachable through the shipped `add` functions: `lheading::add` registers `.after_all()`, so heading
-- always precedes lheading; this order needs raw `add_rule`.  On the real crate with lheading added first the
-- coordinator measured `<h1>h</h1><p>===</p>` — i.e. the crate's compiled order still had heading first.)
-- the "earlier member" alternative of `Honoured.first_yes` is REAL.  "a\n# h\n===" with lheading in front
-- of heading: the paragraph ends at line 1 because the HEADING rule said yes in the sweep (lheading
-- never says yes in look-ahead mode); at line 1 the real chain accepts with LHEADING ("# h" becomes the
-- text of a setext heading) — the heading rule that claimed the line is not run.  With the stock order
-- (heading in front of lheading) the claimant wins.
example : sweepStopB (exP.test 6) (exS "a\n# h\n===") 1 = true ∧
    verdict (exP.rule 6 (.base .lheading) { exS "a\n# h\n===" with line := 1 } true) = some false ∧
    verdict (exP.rule 6 (.base .lheading) { exS "a\n# h\n===" with line := 1 } false) = some true ∧
    kindsOf (exP.tok 7 (exS "a\n# h\n===")) = some [.paragraph, .setext 1 '='] ∧
    kindsOf (exE.tok 7 (exS "a\n# h\n===")) = some [.paragraph, .atx 1, .paragraph] := by
  decide +kernel

/-- a decidable form of `RunsChain mn u u` -/
def runsB (mn : Nat) (u : BState) : Bool :=
  decide (u.line < u.lineMax) && !u.isEmpty u.line && decide (u.level < mn) &&
  (match u.lineIndent u.line with | .ok ind => decide (0 ≤ ind) | .error _ => false)

theorem runsChain_of_B {mn : Nat} {u : BState} (h : runsB mn u = true) : RunsChain mn u u := by
  unfold runsB at h
  simp only [Bool.and_eq_true, decide_eq_true_eq, Bool.not_eq_true'] at h
  obtain ⟨⟨⟨h1, h2⟩, h3⟩, h4⟩ := h
  split at h4
  · rename_i ind hi
    exact (next_iteration (chain := ([] : List Unit)) (run := fun _ s _ => .ok (false, s)) h1 h2 h3 hi).1
      (by simpa using h4)
  · cases h4

/-- **the hypotheses of `paragraph_end_is_real_start_run` are satisfiable** — "a\n# h\nb", stock chain: the
    loop of the top frame stands at the start, the eight rules in front of the paragraph rule decline,
    the paragraph rule's scan stops at line 1 because the sweep said yes; hence the loop stands next at a
    state of the run at line 1 at which the yes is honoured -/
example : ∃ he' u, Reach exE 6 (exS "a\n# h\nb") 6 6 he' u ∧ u.line = 1 ∧
    Honoured exE 6 { exS "a\n# h\nb" with line := 1 } u := by
  have hE := engH_ok (cfgOfH 100 stockH).base stockH
  have hc : exE.chain = [.base .code, .base .fence, .base .blockquote, .base .hr, .base .list,
      .base .reference, .html, .base .heading, .base .lheading] ++ RuleIdH.base .paragraph :: [] := rfl
  have hR : RunsChain exE.cfg.maxNesting (exS "a\n# h\nb") (exS "a\n# h\nb") :=
    runsChain_of_B (by decide +kernel)
  have hd := declined_of_verdicts (run := exE.rule 6) (hE.false_same 6)
    (pre := [.base .code, .base .fence, .base .blockquote, .base .hr, .base .list,
      .base .reference, .html, .base .heading, .base .lheading]) (s := exS "a\n# h\nb") (by decide +kernel)
  obtain ⟨s1, hp⟩ := verdict_ok (r := exE.rule 6 (.base .paragraph) (exS "a\n# h\nb") false) (b := true)
    (by decide +kernel)
  obtain ⟨l, lvl, p, hs, _, hmain⟩ := paragraph_end_is_real_start_run hE (.init) hR hc hd rfl hp
  have hl : l = 1 := by
    have h1 : scanView (lazyScan (exE.test 6) false 7 (exS "a\n# h\nb") 0) = some (1, 0) := by decide +kernel
    have h2 : lazyScan (exE.test 6) false 7 (exS "a\n# h\nb") 0 = .ok (l, lvl, exS "a\n# h\nb") := hs
    rw [h2] at h1
    simp only [scanView, Option.some.injEq, Prod.mk.injEq] at h1
    exact h1.1
  subst hl
  exact hmain (sweepStop_of_B (by decide +kernel))

/-! ### a concrete custom rule of style A (advances `line` in look-ahead mode, like `examples/ferris`) -/

/-- a line starting with `!` is a block of its own; look-ahead: `state.line += 1; true`, nothing created -/
def bangRule (s : BState) (silent : Bool) : Res :=
  match s.getLine s.line with
  | .error e => .error e
  | .ok l =>
    if l.head? = some '!' then
      (if silent then .ok (true, { s with line := s.line + 1 })
       else .ok (true, { s.push ⟨.hr '!' 1, none, []⟩ with line := s.line + 1 }))
    else .ok (false, s)

theorem bangRule_ok : CustomOK bangRule where
  silent_no := by
    intro s s' h
    unfold bangRule at h
    repeat' split at h
    all_goals simp_all
  silent_yes := by
    intro s s' h
    unfold bangRule at h
    repeat' split at h
    all_goals (try simp_all)
    all_goals (cases h; cases s; rfl)
  real_no := by
    intro s s' h
    unfold bangRule at h
    repeat' split at h
    all_goals simp_all
  agree := by
    intro s s1 s2 b h1 h2
    unfold bangRule at h1 h2
    repeat' split at h1
    all_goals (repeat' split at h2)
    all_goals simp_all
  reads := by
    intro s c b m
    unfold bangRule
    simp only [upd_getLine, upd_line]
    repeat' (first | rfl | split)

/-- `!`-rule first, then the ten shipped rules -/
def chainX : List RuleIdX := .custom :: stockH.map .std

abbrev exX : Eng RuleIdX := engX bangRule (cfgOfH 100 stockH).base chainX

-- "a\n!x\nb": the paragraph ends at line 1 because the sweep's yes came from the custom rule — which
-- left `line` at 2 —; the scan restored `line`, the next iteration stands at 1 and the custom rule is
-- run for real there.  "- a\n!x": the same behind a list (the case `list.rs` got wrong before 07357ef:
-- the model's `listContinue` restores `line`)
example : sweepStopB (exX.test 6) (exS "a\n!x\nb") 1 = true ∧
    (match bangRule { exS "a\n!x\nb" with line := 1 } true with | .ok (b, s) => some (b, s.line) | _ => none)
      = some (true, 2) ∧
    kindsOf (exX.tok 7 (exS "a\n!x\nb")) = some [.paragraph, .hr '!' 1, .paragraph] ∧
    kindsOf (exX.tok 7 (exS "- a\n!x")) = some [.bulletList '-', .hr '!' 1] ∧
    kindsOf (exX.tok 7 (exS "> a\n!x\n")) = some [.blockquote, .hr '!' 1] := by
  decide +kernel

end examples

end MdIt.BlockH.C16

/-! ## APPENDED (second session): the lheading and reference callers, list item termination -/

namespace MdIt.BlockH.C16
open MdIt.Block
open MdIt.Lines (LineOffset)

theorem setextCheck_false (s : BState) (ind : Int) (n : Nat) : setextCheck false s ind n = .ok 0 := by
  simp [setextCheck, pure, Except.pure]

set_option maxHeartbeats 200000 in
/-- a scan WITH the underline test that found no underline is the scan WITHOUT it: where the lheading
    rule's scan stops by the sweep, the paragraph rule's scan stops too -/
theorem lazyScan_false_of_true {test : Test} :
    ∀ (fuel : Nat) (s : BState) (n l : Nat) (s' : BState),
      lazyScan test true fuel s n = .ok (l, 0, s') → lazyScan test false fuel s n = .ok (l, 0, s') := by
  intro fuel
  induction fuel with
  | zero => intro s n l s' h; simp [lazyScan] at h
  | succ f ih =>
    intro s n l s' h
    simp only [lazyScan] at h ⊢
    split at h
    · rename_i hc
      rw [if_pos hc]; exact h
    · rename_i hc
      rw [if_neg hc]
      obtain ⟨ind, hind, h⟩ := bind_ok.mp h
      simp only [hind, ok_bind]
      split at h
      · rename_i h4
        rw [if_pos h4]; exact ih _ _ _ _ h
      · rename_i h4
        rw [if_neg h4]
        obtain ⟨lv, hlv, h⟩ := bind_ok.mp h
        simp only [setextCheck_false, ok_bind]
        split at h
        · rename_i hne
          simp only [Except.ok.injEq, Prod.mk.injEq] at h
          exact absurd h.2.1 hne
        · rw [if_neg (by simp)]
          obtain ⟨o, ho, h⟩ := bind_ok.mp h
          simp only [ho, ok_bind]
          split at h
          · rename_i hneg
            rw [if_pos hneg]; exact ih _ _ _ _ h
          · rename_i hneg
            rw [if_neg hneg]
            obtain ⟨r, hr, h⟩ := bind_ok.mp h
            simp only [hr, ok_bind]
            split at h
            · rename_i hb; rw [if_pos hb]; exact h
            · rename_i hb; rw [if_neg hb]; exact ih _ _ _ _ h

set_option maxHeartbeats 200000 in
/-- where its scan stops by the sweep (no underline found), the lheading rule declines and leaves the
    state alone -/
theorem lheading_declines_at_sweep_stop {test : Test} {fuel : Nat} {s : BState} {l : Nat} {b : Bool} {s1 : BState}
    (hs : lazyScan test true fuel s s.line = .ok (l, 0, s))
    (h : lheadingRule test fuel s false = .ok (b, s1)) : b = false ∧ s1 = s := by
  unfold lheadingRule at h
  simp only [Bool.false_eq_true, if_false] at h
  obtain ⟨ind, hind, h⟩ := bind_ok.mp h
  split at h
  · simp only [pure_ok, Prod.mk.injEq] at h
    exact ⟨h.1.symm, h.2.symm⟩
  · simp only [hs, ok_bind, if_true, pure_ok, Prod.mk.injEq] at h
    exact ⟨h.1.symm, h.2.symm⟩

set_option maxHeartbeats 200000 in
/-- what the reference rule does when it accepts, under a quiet sweep: the state is the old one at
    `start_line + lines + 1`, with another reference map -/
theorem reference_ok {cfg : Cfg} {test : Test} (ht : TestQuiet test) {fuel : Nat} {s s' : BState}
    (h : referenceRule cfg test fuel s false = .ok (true, s')) :
    ∃ l lvl lines m, lazyScan test false fuel s s.line = .ok (l, lvl, s) ∧
      s' = upd { s with line := s.line + lines + 1 } s.children s.tight m := by
  unfold referenceRule at h
  simp only [Bool.false_eq_true, if_false] at h
  obtain ⟨ind, hind, h⟩ := bind_ok.mp h
  split at h
  · simp [pure_ok] at h
  obtain ⟨line, hline, h⟩ := bind_ok.mp h
  split at h
  · simp [pure_ok] at h
  split at h
  · simp [pure_ok] at h
  split at h
  · simp [pure_ok] at h
  obtain ⟨⟨l, lvl, s0⟩, hs, h⟩ := bind_ok.mp h
  obtain ⟨hs0, _, _⟩ := lazyScan_stop ht false _ _ _ _ _ _ hs
  dsimp only at h
  obtain ⟨⟨str, mp0⟩, hg, h⟩ := bind_ok.mp h
  dsimp only at h
  obtain ⟨parsed, hpz, h⟩ := bind_ok.mp h
  split at h
  · simp [pure_ok] at h
  split at h
  · simp [pure_ok] at h
  simp only [pure_ok, Prod.mk.injEq, true_and] at h
  subst hs0
  rw [← h]
  exact ⟨l, lvl, _, _, hs, rfl⟩

section callers
variable {ι : Type} {E : Eng ι}

set_option maxHeartbeats 200000 in
/-- **C16, the reference rule as a caller of the sweep.**  A reference definition that ends exactly where
    its scan stopped because the sweep said yes at `l`: this iteration ends with "go round again" at the
    sweep's state with the new reference map, and the yes is `Honoured` there.  (A definition that uses
    fewer lines than were scanned leaves the loop at an earlier line; the remaining lines are scanned
    again by the next paragraph-like rule.) -/
theorem reference_end_is_real_start (hE : E.OK) {f : Nat} (he : Bool) {s sE : BState} {pre post : List ι} {i : ι}
    {s1 : BState}
    (hR : RunsChain E.cfg.maxNesting s sE) (hc : E.chain = pre ++ i :: post)
    (hd : Declined (E.rule f) pre sE false) (hi : E.base i = some .reference)
    (hp : E.rule f i sE false = .ok (true, s1)) :
    ∃ l lvl lines m, lazyScan (E.test f) false (f + 1) sE sE.line = .ok (l, lvl, sE) ∧
      s1 = upd { sE with line := sE.line + lines + 1 } sE.children sE.tight m ∧
      (SweepStop (E.test f) sE l → sE.line + lines + 1 = l →
        tokStepG E.cfg.maxNesting E.chain (E.rule f) he s =
          .ok (.next (he || sE.isEmpty (l - 1)) (upd { sE with line := l } sE.children (!he) m)) ∧
        Honoured E f { sE with line := l } (upd { sE with line := l } sE.children (!he) m)) := by
  have hq := hE.test_quiet f
  have hp0 := hp
  rw [E.rule_base f i _ hi] at hp
  obtain ⟨l, lvl, lines, m, hs, hs1⟩ := reference_ok hq hp
  refine ⟨l, lvl, lines, m, hs, hs1, ?_⟩
  intro hstop hl
  rw [hs1, hl] at hp0
  have hch := chain_accepts_at (post := post) hd hp0
  rw [← hc] at hch
  refine ⟨step_after_accept hR hch (by omega) hstop.lt hstop.nonblank, ?_⟩
  obtain ⟨t1, hyes⟩ := hstop.yes
  exact honoured_of_sweep hE hyes hstop.lt hstop.nonblank hR.lvl hstop.ind _ _ _

set_option maxHeartbeats 200000 in
/-- **C16, the lheading rule as a caller of the sweep.**  The chain arrives at the lheading rule, its
    scan (with the underline test) stops at `l` because the sweep said yes (no underline: level 0).
    Then the lheading rule DECLINES and leaves the state alone; the scan of the paragraph rule (without
    the underline test) stops at the same `l` for the same reason; and when the members between the two
    decline, the paragraph rule takes the lines, the next iteration stands at `l` and the yes is
    `Honoured` there — `paragraph_end_is_real_start` for the chain prefix `pre ++ i :: mid`. -/
theorem lheading_end_is_real_start (hE : E.OK) {f : Nat} (he : Bool) {s sE : BState}
    {pre mid post : List ι} {i ip : ι} {l : Nat} {b0 : Bool} {s0 : BState}
    (hR : RunsChain E.cfg.maxNesting s sE) (hc : E.chain = pre ++ i :: (mid ++ ip :: post))
    (hd : Declined (E.rule f) pre sE false) (hi : E.base i = some .lheading)
    (hscan : lazyScan (E.test f) true (f + 1) sE sE.line = .ok (l, 0, sE))
    (hstop : SweepStop (E.test f) sE l)
    (hl : E.rule f i sE false = .ok (b0, s0)) :
    b0 = false ∧ s0 = sE ∧ lazyScan (E.test f) false (f + 1) sE sE.line = .ok (l, 0, sE) ∧
    (Declined (E.rule f) mid sE false → E.base ip = some .paragraph →
      ∀ b s1, E.rule f ip sE false = .ok (b, s1) →
        ∃ p : BNode, p.kind = .paragraph ∧
          tokStepG E.cfg.maxNesting E.chain (E.rule f) he s =
            .ok (.next (he || sE.isEmpty (l - 1)) (upd { sE with line := l } (sE.children ++ [p]) (!he) sE.refs)) ∧
          Honoured E f { sE with line := l } (upd { sE with line := l } (sE.children ++ [p]) (!he) sE.refs)) := by
  have hl0 := hl
  rw [E.rule_base f i _ hi] at hl
  obtain ⟨rfl, rfl⟩ := lheading_declines_at_sweep_stop hscan hl
  have hpar := lazyScan_false_of_true _ _ _ _ _ hscan
  refine ⟨rfl, rfl, hpar, ?_⟩
  intro hmid hip b s1 hp
  have hd' : Declined (E.rule f) (pre ++ i :: mid) s0 false := by
    intro j hj
    rcases List.mem_append.mp hj with h | h
    · exact hd j h
    · rcases List.mem_cons.mp h with rfl | h
      · exact hl0
      · exact hmid j h
  have hc' : E.chain = (pre ++ i :: mid) ++ ip :: post := by rw [hc]; simp
  obtain ⟨l', lvl, p, hs, hk, _, _, hmain⟩ := paragraph_end_is_real_start hE he hR hc' hd' hip hp
  rw [hpar] at hs
  simp only [Except.ok.injEq, Prod.mk.injEq] at hs
  obtain ⟨rfl, _, _⟩ := hs
  exact ⟨p, hk, hmain hstop⟩

end callers
end MdIt.BlockH.C16

namespace MdIt.BlockH.C16
open MdIt.Block
open MdIt.Lines (LineOffset)

/-! ## 4. list item termination -/

/-- the item loop stopped at `sL` BECAUSE THE SWEEP ANSWERED YES THERE: `listContinue` reached its call
    `test_rules_at_line` on `sL` itself (existing line, `0 ≤ line_indent < 4`) and the answer was `true` -/
structure ListStop (test : Test) (sL : BState) : Prop where
  lt : sL.line < sL.lineMax
  nonblank : sL.isEmpty sL.line = false
  ind : ∃ ind, sL.lineIndent sL.line = .ok ind ∧ 0 ≤ ind ∧ ind < 4
  yes : ∃ t1, test sL = .ok (true, t1)

/-- `s` with `tight` recomputed (what the loop does after every accepted block) -/
def retight (s : BState) (b : Bool) : BState := { s with tight := b }

section list
variable {ι : Type} {E : Eng ι}

set_option maxHeartbeats 400000 in
/-- **C16, the list rule as a caller of the sweep (item termination).**  The loop runs the chain on `sE`,
    the members in front of the list rule decline, the list rule accepts and returns `s1`.  Then `s1` is
    the state `sL` at which the item loop stopped (node kind: the list's; the loop stopped at the end of
    the frame or by `listContinue` ON `sL`) with level / node kind restored and the list pushed.  And IF
    THE LIST STOPPED BECAUSE THE SWEEP SAID YES AT `sL` (`ListStop`) and the level is below the nesting
    limit (always, for the shipped rules: `list_end_is_real_start_shipped`), the yes came from a first
    member `j` — NOT the list rule: inside a list it never says yes —, and whenever this iteration
    returns, the loop goes round again at `retight s1 (!he)`, AT THE LINE OF THE SWEEP, runs the real
    chain there, and whenever that returns it ACCEPTED, with `j` or with a member in front of `j`. -/
theorem list_end_is_real_start (hE : E.OK) (h2 : E.OK2) {f : Nat} (he : Bool) {s sE : BState}
    {pre post : List ι} {i : ι} {s1 : BState}
    (hR : RunsChain E.cfg.maxNesting s sE) (hc : E.chain = pre ++ i :: post)
    (hd : Declined (E.rule f) pre sE false) (hi : E.base i = some .list)
    (hp : E.rule f i sE false = .ok (true, s1)) :
    ∃ ordered mc sL, isListKind sL.nodeKind = true ∧
      ((¬ sL.line < sL.lineMax) ∨ listContinue (E.test f) ordered mc sL sL.line = .ok (none, sL)) ∧
      (∃ c k lv, s1 = upd2 sL c sL.tight sL.refs k lv) ∧
      (ListStop (E.test f) sL → s1.level < E.cfg.maxNesting →
        ∃ pre0 j post0 t1, E.chain = pre0 ++ j :: post0 ∧ Declined (E.rule f) pre0 sL true ∧
          E.rule f j sL true = .ok (true, t1) ∧ E.base j ≠ some .list ∧
          ∀ r, tokStepG E.cfg.maxNesting E.chain (E.rule f) he s = .ok r →
            r = .next (he || s1.isEmpty (s1.line - 1)) (retight s1 (!he)) ∧
            (retight s1 (!he)).line = sL.line ∧
            RunsChain E.cfg.maxNesting (retight s1 (!he)) (retight s1 (!he)) ∧
            ∀ b' u', runChainG (E.rule f) E.chain (retight s1 (!he)) false = .ok (b', u') →
              b' = true ∧ ∃ pre' j' post', E.chain = pre' ++ j' :: post' ∧
                Declined (E.rule f) pre' (retight s1 (!he)) false ∧
                E.rule f j' (retight s1 (!he)) false = .ok (true, u') ∧
                ((pre' = pre0 ∧ j' = j) ∨ j' ∈ pre0)) := by
  have hq := hE.test_quiet f
  have hp0 := hp
  rw [E.rule_base f i _ hi] at hp
  simp only [runRule] at hp
  obtain ⟨ordered, mc, sL, lvl, node, hk, hex, rfl⟩ := listRule_ok hq hp
  refine ⟨ordered, mc, sL, hk, hex, ⟨_, _, _, by cases sL; rfl⟩, ?_⟩
  intro hstop hlv
  obtain ⟨t1, hyes⟩ := hstop.yes
  obtain ⟨g, rfl⟩ : ∃ g, f = g + 1 := by
    cases f with
    | zero => rw [E.test_zero] at hyes; cases hyes
    | succ g => exact ⟨g, rfl⟩
  rw [E.test_succ] at hyes
  have hyes' : runChainG (E.rule (g + 1)) E.chain sL true = .ok (true, t1) := by
    rw [← runChainG_silent_ext (fun i s => hE.silent_indep g (g + 1) i s)]; exact hyes
  obtain ⟨pre0, j, post0, hch0, hd0, hj⟩ := chain_true_split (hE.silent_no (g + 1)) E.chain hyes'
  have hjl : E.base j ≠ some .list := by
    intro h
    have := list_in_list E (f := g + 1) h hk
    rw [hj] at this; cases this
  refine ⟨pre0, j, post0, t1, hch0, hd0, hj, hjl, ?_⟩
  intro r hr
  have hchain := chain_accepts_at (post := post) hd hp0
  rw [← hc] at hchain
  obtain ⟨_, hr'⟩ := step_after_accept' hR hchain hstop.nonblank hr
  obtain ⟨ind, hind, h0, _⟩ := hstop.ind
  have hnext := (next_iteration (chain := E.chain) (run := E.rule (g + 1))
    (u := retight { sL with level := lvl, nodeKind := sE.nodeKind, children := sE.children ++ [node] } (!he))
    (mn := E.cfg.maxNesting) hstop.lt hstop.nonblank hlv (ind := ind) hind).1 h0
  refine ⟨hr', rfl, hnext, ?_⟩
  intro b' u' hreal
  have hu : retight { sL with level := lvl, nodeKind := sE.nodeKind, children := sE.children ++ [node] } (!he)
      = upd2 sL (sE.children ++ [node]) (!he) sL.refs sE.nodeKind lvl := by cases sL; rfl
  have hju : E.rule (g + 1) j (upd2 sL (sE.children ++ [node]) (!he) sL.refs sE.nodeKind lvl) true
      = .ok (true, upd2 t1 (sE.children ++ [node]) (!he) sL.refs sE.nodeKind lvl) := by
    rw [h2 _ _ _ _ _ _ _ _ hjl, hj]; rfl
  rw [hch0, hu] at hreal
  obtain ⟨hb, pre', j', post', he', hd', hj', _, hor⟩ :=
    chain_agree (hE.false_same (g + 1)) (hE.silent_real (g + 1)) pre0 j post0 hju hreal
  rw [hu]
  exact ⟨hb, pre', j', post', by rw [hch0, he'], hd', hj', hor⟩

end list

/-- for the shipped rules (any chain over the ten) the level condition of `list_end_is_real_start` always
    holds: the list rule hands back the level it found (`ruleAtH_progress`) -/
theorem list_level_shipped {cfg : Cfg} {chain : List RuleIdH} {f : Nat} {i : RuleIdH} {s sE s1 : BState}
    (hR : RunsChain cfg.maxNesting s sE) (hp : (engH cfg chain).rule f i sE false = .ok (true, s1)) :
    s1.level < cfg.maxNesting := by
  have h := (ruleAtH_progress (cfg := cfg) (chain := chain) (fuel := f) (r := i) hp hR.ltE hR.ind).2.2
  rw [h.level]; exact hR.lvl

/-- **list item termination, shipped rules**: `list_end_is_real_start` for every chain over the ten shipped
    rules, with no side condition left but the stop reason -/
theorem list_end_is_real_start_shipped (cfg : Cfg) (chain : List RuleIdH) {f : Nat} (he : Bool) {s sE : BState}
    {pre post : List RuleIdH} {s1 : BState}
    (hR : RunsChain cfg.maxNesting s sE) (hc : chain = pre ++ .base .list :: post)
    (hd : Declined ((engH cfg chain).rule f) pre sE false)
    (hp : (engH cfg chain).rule f (.base .list) sE false = .ok (true, s1)) :
    ∃ ordered mc sL, isListKind sL.nodeKind = true ∧
      ((¬ sL.line < sL.lineMax) ∨ listContinue ((engH cfg chain).test f) ordered mc sL sL.line = .ok (none, sL)) ∧
      (ListStop ((engH cfg chain).test f) sL →
        ∀ r, tokStepG cfg.maxNesting chain ((engH cfg chain).rule f) he s = .ok r →
          r = .next (he || s1.isEmpty (s1.line - 1)) (retight s1 (!he)) ∧
          (retight s1 (!he)).line = sL.line ∧
          RunsChain cfg.maxNesting (retight s1 (!he)) (retight s1 (!he)) ∧
          ∀ b' u', runChainG ((engH cfg chain).rule f) chain (retight s1 (!he)) false = .ok (b', u') → b' = true) := by
  obtain ⟨ordered, mc, sL, hk, hex, _, hmain⟩ :=
    list_end_is_real_start (E := engH cfg chain) (engH_ok cfg chain) (engH_ok2 cfg chain) he hR hc hd rfl hp
  refine ⟨ordered, mc, sL, hk, hex, ?_⟩
  intro hstop r hr
  obtain ⟨_, _, _, _, _, _, _, _, hall⟩ := hmain hstop (list_level_shipped hR hp)
  obtain ⟨h1, h2, h3, h4⟩ := hall r hr
  exact ⟨h1, h2, h3, fun b' u' h => (h4 b' u' h).1⟩

set_option maxHeartbeats 400000 in
/-- **C16, a custom rule directly behind a list (the scenario of 07357ef) is invoked for real.**  The
    chain: the ten shipped rules and the custom rule `X` (`CustomOK X`, and its look-ahead reads neither
    node kind nor level: `hX2`).  The list rule accepted and its item loop stopped at `sL` because the
    sweep said yes, AND THAT YES CAME FROM `X` (`pre0` declined; `X` may have advanced `line` — style A:
    `listContinue` put it back).  Then, whenever this iteration returns, the loop stands next AT THE LINE
    `X` CLAIMED and runs the real chain there; and whenever that returns it accepted — `X` WAS RUN IN REAL
    MODE and accepted, or a member in front of `X` took the line. -/
theorem custom_rule_after_list {X : BState → Bool → Res} (hX : CustomOK X)
    (hX2 : ∀ s c b m k lv, X (upd2 s c b m k lv) true = Except.map (mp2 c b m k lv) (X s true))
    (cfg : Cfg) (chain : List RuleIdX) {f : Nat} (he : Bool) {s sE : BState} {pre post : List RuleIdX}
    {s1 : BState}
    (hR : RunsChain cfg.maxNesting s sE) (hc : chain = pre ++ .std (.base .list) :: post)
    (hd : Declined ((engX X cfg chain).rule f) pre sE false)
    (hp : (engX X cfg chain).rule f (.std (.base .list)) sE false = .ok (true, s1))
    (hlv : s1.level < cfg.maxNesting) :
    ∃ ordered mc sL,
      ((¬ sL.line < sL.lineMax) ∨ listContinue ((engX X cfg chain).test f) ordered mc sL sL.line = .ok (none, sL)) ∧
      ∀ pre0 post0 t1, ListStop ((engX X cfg chain).test f) sL → chain = pre0 ++ .custom :: post0 →
        Declined ((engX X cfg chain).rule f) pre0 sL true → X sL true = .ok (true, t1) →
        ∀ r, tokStepG cfg.maxNesting chain ((engX X cfg chain).rule f) he s = .ok r →
          r = .next (he || s1.isEmpty (s1.line - 1)) (retight s1 (!he)) ∧
          (retight s1 (!he)).line = sL.line ∧
          RunsChain cfg.maxNesting (retight s1 (!he)) (retight s1 (!he)) ∧
          ∀ b' u', runChainG ((engX X cfg chain).rule f) chain (retight s1 (!he)) false = .ok (b', u') →
            b' = true ∧
            (X (retight s1 (!he)) false = .ok (true, u') ∨
             ∃ j ∈ pre0, (engX X cfg chain).rule f j (retight s1 (!he)) false = .ok (true, u')) := by
  obtain ⟨ordered, mc, sL, _, hex, _, hmain⟩ :=
    list_end_is_real_start (E := engX X cfg chain) (engX_ok hX cfg chain) (engX_ok2 hX2 cfg chain) he hR hc hd rfl hp
  refine ⟨ordered, mc, sL, hex, ?_⟩
  intro pre0 post0 t1 hstop hc0 hd0 hx r hr
  obtain ⟨pre1, j1, post1, t1', hc1, hd1, hj1, _, hall⟩ := hmain hstop hlv
  have hx' : (engX X cfg chain).rule f .custom sL true = .ok (true, t1) := hx
  obtain ⟨rfl, rfl⟩ := first_yes_unique pre0 pre1 (hc0.symm.trans hc1) hd0 hd1 hx' hj1
  obtain ⟨h1, h2, h3, h4⟩ := hall r hr
  refine ⟨h1, h2, h3, ?_⟩
  intro b' u' hreal
  obtain ⟨hb, pre', j', post', _, _, hj', hor⟩ := h4 b' u' hreal
  refine ⟨hb, ?_⟩
  rcases hor with ⟨_, rfl⟩ | hm
  · exact .inl hj'
  · exact .inr ⟨j', hm, hj'⟩

/-- the concrete style-A rule `bangRule` meets the extra hypothesis of `custom_rule_after_list` -/
theorem bangRule_reads2 (s c b m k lv) :
    bangRule (upd2 s c b m k lv) true = Except.map (mp2 c b m k lv) (bangRule s true) := by
  unfold bangRule
  simp only [upd2_getLine, upd2_line]
  repeat' (first | rfl | split)

-- "- a\n!x" (`!`-rule first, then the ten shipped rules): inside the list the termination test asks the
-- sweep at line 1, the `!`-rule says yes (and moves `line` to 2), `listContinue` puts `line` back, the
-- list ends, the top loop stands at line 1 and the `!`-rule is run for real
example :
    (frameTrace exX 6 7 false (exS "- a\n!x")).map (fun x => x.2.2.line) = [0, 1, 2] ∧
    kindsOf (exX.tok 7 (exS "- a\n!x")) = some [.bulletList '-', .hr '!' 1] := by
  decide +kernel

end MdIt.BlockH.C16

/-! ## APPENDED (third session): the lazy-continuation test of the blockquote rule -/

namespace MdIt.BlockH.C16
open MdIt.Block
open MdIt.Lines (LineOffset)

/-! ## 4b. the lazy-continuation test of the blockquote rule -/

section quote
variable {ι : Type} {E : Eng ι}

set_option maxHeartbeats 400000 in
/-- **C16, the blockquote rule as a caller of the sweep (lazy continuation).**  The loop runs the chain on
    `sE`, the members in front of the blockquote rule decline, the blockquote rule accepts and returns
    `s1`, having handed the frame back as it found it (`Frame sE s1`: the rows it rewrote are restored —
    for the shipped rules always: `quote_end_is_real_start_shipped`).  Then it ran `bqScan` from `sE`, the
    scan ended by the sweep or without it (`bqScan_exit`), and IF THE SCAN STOPPED AT `nl` BECAUSE THE SWEEP
    SAID YES on `{ sB with line := nl }` (`sB`: the scan's state — `sE` except for the rows in front of
    `nl`) and the quote's tokenizer consumed all lines of the quote (`s1.line = nl`; it may stop earlier,
    at a lazy line not taken by a paragraph — then the loop stands there first), then the yes came from a
    first member `j`, and whenever this iteration returns, the loop goes round again at
    `retight s1 (!he)` — AT LINE `nl`, a state that agrees with the sweep's on everything look-ahead reads
    (row `nl` of the table: restored; `blk_indent`, `line_max`, level, node kind, `list_indent`, source) —,
    runs the real chain there, and whenever that returns it ACCEPTED, with `j` or a member in front of it. -/
theorem quote_end_is_real_start (hE : E.OK) (h3 : E.OK3) {f : Nat} (he : Bool) {s sE : BState}
    {pre post : List ι} {i : ι} {s1 : BState}
    (hR : RunsChain E.cfg.maxNesting s sE) (hc : E.chain = pre ++ i :: post)
    (hd : Declined (E.rule f) pre sE false) (hi : E.base i = some .blockquote)
    (hp : E.rule f i sE false = .ok (true, s1)) (hF : Frame sE s1) :
    ∃ nl old sB', bqScan (E.test f) (f + 1) sE sE.line [] false = .ok (nl, old, sB') ∧
      (BqSweepExit (E.test f) sE nl sB' ∨
        (¬ nl < sE.lineMax ∨ (∃ sB2, ScanInv sE nl sB2 ∧ sB' = sB2 ∧ (sB2.getLine nl = .ok [] ∨ True)))) ∧
      ∀ sB t1, ScanInv sE nl sB → E.test f { sB with line := nl } = .ok (true, t1) → nl < sE.lineMax →
        s1.line = nl → s1.isEmpty s1.line = false → (∃ ind, s1.lineIndent s1.line = .ok ind ∧ 0 ≤ ind) →
        ∃ pre0 j post0 t1', E.chain = pre0 ++ j :: post0 ∧
          Declined (E.rule f) pre0 { sB with line := nl } true ∧
          E.rule f j { sB with line := nl } true = .ok (true, t1') ∧
          ∀ r, tokStepG E.cfg.maxNesting E.chain (E.rule f) he s = .ok r →
            r = .next (he || s1.isEmpty (s1.line - 1)) (retight s1 (!he)) ∧
            RunsChain E.cfg.maxNesting (retight s1 (!he)) (retight s1 (!he)) ∧
            ∀ b' u', runChainG (E.rule f) E.chain (retight s1 (!he)) false = .ok (b', u') →
              b' = true ∧ ∃ pre' j' post', E.chain = pre' ++ j' :: post' ∧
                Declined (E.rule f) pre' (retight s1 (!he)) false ∧
                E.rule f j' (retight s1 (!he)) false = .ok (true, u') ∧
                ((pre' = pre0 ∧ j' = j) ∨ j' ∈ pre0) := by
  have hq := hE.test_quiet f
  have hp0 := hp
  rw [E.rule_base f i _ hi] at hp
  simp only [runRule] at hp
  obtain ⟨nl, old, sB', hscan⟩ := blockquote_scans hp
  refine ⟨nl, old, sB', hscan, bqScan_exit hq _ sE _ _ _ _ _ _ _ hscan (ScanInv.refl _ _), ?_⟩
  intro sB t1 hinv hyes hlt hline hne hind
  obtain ⟨g, rfl⟩ : ∃ g, f = g + 1 := by
    cases f with
    | zero => rw [E.test_zero] at hyes; cases hyes
    | succ g => exact ⟨g, rfl⟩
  rw [E.test_succ] at hyes
  have hyes' : runChainG (E.rule (g + 1)) E.chain { sB with line := nl } true = .ok (true, t1) := by
    rw [← runChainG_silent_ext (fun i s => hE.silent_indep g (g + 1) i s)]; exact hyes
  obtain ⟨pre0, j, post0, hch0, hd0, hj⟩ := chain_true_split (hE.silent_no (g + 1)) E.chain hyes'
  refine ⟨pre0, j, post0, t1, hch0, hd0, hj, ?_⟩
  intro r hr
  have hchain := chain_accepts_at (post := post) hd hp0
  rw [← hc] at hchain
  obtain ⟨_, hr'⟩ := step_after_accept' hR hchain hne hr
  obtain ⟨ind, hi1, h0⟩ := hind
  have hl1 : (retight s1 (!he)).line < (retight s1 (!he)).lineMax := by
    show s1.line < s1.lineMax
    rw [hline, hF.lineMax]; exact hlt
  have hlv : (retight s1 (!he)).level < E.cfg.maxNesting := by
    show s1.level < _
    rw [hF.level]; exact hR.lvl
  have hnext := (next_iteration (chain := E.chain) (run := E.rule (g + 1)) (u := retight s1 (!he))
    (mn := E.cfg.maxNesting) hl1 hne hlv (ind := ind) hi1).1 h0
  refine ⟨hr', hnext, ?_⟩
  intro b' u' hreal
  have hu : retight s1 (!he) = upd3 { sB with line := nl } sE.offs s1.children (!he) s1.refs := by
    obtain ⟨f1, f2, f3, f4, f5, f6, f7⟩ := hF
    obtain ⟨g1, g2, g3, g4, g5, g6, g7, g8, g9, g10⟩ := hinv.same
    cases s1; cases sB
    simp only [retight, upd3] at *
    subst_vars
    rfl
  have hrow : sE.offs[({ sB with line := nl } : BState).line]? = ({ sB with line := nl } : BState).offs[({ sB with line := nl } : BState).line]? :=
    (hinv.rows nl (Nat.le_refl _)).symm
  have hju : E.rule (g + 1) j (upd3 { sB with line := nl } sE.offs s1.children (!he) s1.refs) true
      = .ok (true, upd3 t1 sE.offs s1.children (!he) s1.refs) := by
    rw [h3 _ _ _ _ _ _ _ hrow, hj]; rfl
  rw [hch0, hu] at hreal
  obtain ⟨hb, pre', j', post', he', hd', hj', _, hor⟩ :=
    chain_agree (hE.false_same (g + 1)) (hE.silent_real (g + 1)) pre0 j post0 hju hreal
  rw [hu]
  exact ⟨hb, pre', j', post', by rw [hch0, he'], hd', hj', hor⟩

end quote

/-- **lazy-continuation test, shipped rules**: for every chain over the ten shipped rules the blockquote
    rule hands the frame back (`ruleAtH_progress`), so `quote_end_is_real_start` holds with no side condition
    but the stop reason, at every depth and every `blk_indent` -/
theorem quote_end_is_real_start_shipped (cfg : Cfg) (chain : List RuleIdH) {f : Nat} (he : Bool) {s sE : BState}
    {pre post : List RuleIdH} {s1 : BState}
    (hR : RunsChain cfg.maxNesting s sE) (hc : chain = pre ++ .base .blockquote :: post)
    (hd : Declined ((engH cfg chain).rule f) pre sE false)
    (hp : (engH cfg chain).rule f (.base .blockquote) sE false = .ok (true, s1)) :
    Frame sE s1 ∧
    ∃ nl old sB', bqScan ((engH cfg chain).test f) (f + 1) sE sE.line [] false = .ok (nl, old, sB') ∧
      ∀ sB t1, ScanInv sE nl sB → (engH cfg chain).test f { sB with line := nl } = .ok (true, t1) →
        nl < sE.lineMax → s1.line = nl → s1.isEmpty s1.line = false →
        (∃ ind, s1.lineIndent s1.line = .ok ind ∧ 0 ≤ ind) →
        ∀ r, tokStepG cfg.maxNesting chain ((engH cfg chain).rule f) he s = .ok r →
          r = .next (he || s1.isEmpty (s1.line - 1)) (retight s1 (!he)) ∧
          RunsChain cfg.maxNesting (retight s1 (!he)) (retight s1 (!he)) ∧
          ∀ b' u', runChainG ((engH cfg chain).rule f) chain (retight s1 (!he)) false = .ok (b', u') → b' = true := by
  have hF : Frame sE s1 :=
    (ruleAtH_progress (cfg := cfg) (chain := chain) (fuel := f) (r := .base .blockquote) hp hR.ltE hR.ind).2.2
  refine ⟨hF, ?_⟩
  obtain ⟨nl, old, sB', hscan, _, hmain⟩ :=
    quote_end_is_real_start (E := engH cfg chain) (engH_ok cfg chain) (engH_ok3 cfg chain) he hR hc hd rfl hp hF
  refine ⟨nl, old, sB', hscan, ?_⟩
  intro sB t1 hinv hyes hlt hline hne hind r hr
  obtain ⟨_, _, _, _, _, _, _, hall⟩ := hmain sB t1 hinv hyes hlt hline hne hind
  obtain ⟨h1, h2, h4⟩ := hall r hr
  exact ⟨h1, h2, fun b' u' h => (h4 b' u' h).1⟩

set_option maxHeartbeats 400000 in
/-- **a custom rule directly behind a block quote is invoked for real**: the quote's lazy-continuation
    test got its yes from `X` (style A allowed: `line` is dead in `bqScan`, the rule resets it); under
    `CustomOK X`, `hX3` (the look-ahead of `X` reads only the row `line` of the table) and the frame
    condition, the loop stands next at the claimed line, and whenever the real chain there returns it
    accepted, with `X` run for real or with a member in front of `X` -/
theorem custom_rule_after_quote {X : BState → Bool → Res} (hX : CustomOK X)
    (hX3 : ∀ s o c b m, o[s.line]? = s.offs[s.line]? → X (upd3 s o c b m) true = Except.map (mp3 o c b m) (X s true))
    (cfg : Cfg) (chain : List RuleIdX) {f : Nat} (he : Bool) {s sE : BState} {pre post : List RuleIdX}
    {s1 : BState}
    (hR : RunsChain cfg.maxNesting s sE) (hc : chain = pre ++ .std (.base .blockquote) :: post)
    (hd : Declined ((engX X cfg chain).rule f) pre sE false)
    (hp : (engX X cfg chain).rule f (.std (.base .blockquote)) sE false = .ok (true, s1)) (hF : Frame sE s1) :
    ∃ nl old sB', bqScan ((engX X cfg chain).test f) (f + 1) sE sE.line [] false = .ok (nl, old, sB') ∧
      ∀ sB t1 pre0 post0, ScanInv sE nl sB → nl < sE.lineMax → chain = pre0 ++ .custom :: post0 →
        Declined ((engX X cfg chain).rule f) pre0 { sB with line := nl } true →
        X { sB with line := nl } true = .ok (true, t1) →
        (engX X cfg chain).test f { sB with line := nl } = .ok (true, t1) →
        s1.line = nl → s1.isEmpty s1.line = false → (∃ ind, s1.lineIndent s1.line = .ok ind ∧ 0 ≤ ind) →
        ∀ r, tokStepG cfg.maxNesting chain ((engX X cfg chain).rule f) he s = .ok r →
          r = .next (he || s1.isEmpty (s1.line - 1)) (retight s1 (!he)) ∧
          RunsChain cfg.maxNesting (retight s1 (!he)) (retight s1 (!he)) ∧
          ∀ b' u', runChainG ((engX X cfg chain).rule f) chain (retight s1 (!he)) false = .ok (b', u') →
            b' = true ∧
            (X (retight s1 (!he)) false = .ok (true, u') ∨
             ∃ j ∈ pre0, (engX X cfg chain).rule f j (retight s1 (!he)) false = .ok (true, u')) := by
  have hE := engX_ok hX cfg chain
  obtain ⟨nl, old, sB', hscan, _, hmain⟩ :=
    quote_end_is_real_start (E := engX X cfg chain) hE (engX_ok3 hX3 cfg chain) he hR hc hd rfl hp hF
  refine ⟨nl, old, sB', hscan, ?_⟩
  intro sB t1 pre0 post0 hinv hlt hc0 hd0 hx hyes hline hne hind r hr
  have hx' : (engX X cfg chain).rule f .custom { sB with line := nl } true = .ok (true, t1) := hx
  obtain ⟨pre1, j1, post1, t1', hc1, hd1, hj1, hall⟩ := hmain sB t1 hinv hyes hlt hline hne hind
  obtain ⟨rfl, rfl⟩ := first_yes_unique pre0 pre1 (hc0.symm.trans hc1) hd0 hd1 hx' hj1
  obtain ⟨h1, h2, h4⟩ := hall r hr
  refine ⟨h1, h2, ?_⟩
  intro b' u' hreal
  obtain ⟨hb, pre', j', post', _, _, hj', hor⟩ := h4 b' u' hreal
  refine ⟨hb, ?_⟩
  rcases hor with ⟨_, rfl⟩ | hm
  · exact .inl hj'
  · exact .inr ⟨j', hm, hj'⟩

/-- the concrete style-A rule `bangRule` meets `hX3` -/
theorem bangRule_reads3 (s : BState) (o c b m) (h : o[s.line]? = s.offs[s.line]?) :
    bangRule (upd3 s o c b m) true = Except.map (mp3 o c b m) (bangRule s true) := by
  unfold bangRule
  simp only [upd3_line, upd3_getLine h]
  repeat' (first | rfl | split)

-- "> a\n# h": the lazy-continuation test at line 1 gets a yes (heading), the quote ends, the top loop
-- stands at line 1 and the heading rule accepts; "> a\n!x": the same with the style-A custom rule
example :
    (frameTrace exE 6 7 false (exS "> a\n# h")).map (fun x => x.2.2.line) = [0, 1, 2] ∧
    kindsOf (exE.tok 7 (exS "> a\n# h")) = some [.blockquote, .atx 1] ∧
    (frameTrace exX 6 7 false (exS "> a\n!x")).map (fun x => x.2.2.line) = [0, 1, 2] ∧
    kindsOf (exX.tok 7 (exS "> a\n!x")) = some [.blockquote, .hr '!' 1] := by
  decide +kernel

end MdIt.BlockH.C16
