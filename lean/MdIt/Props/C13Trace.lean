/-
  C13 tied to SOURCE LINES (closes OPEN item 1 of `Props/LinksDoc.lean`,
  `doc_definitions_are_the_documents`).

  `Lemmas/C13TraceDefs.lean`  the instrumented reading `Block.Tr.tokenizeT` of the block tokenizer: the
                              model's state plus the list of the successful rule calls of the run
                              (rule, state before, state after), `docTrace cfg src : List (RuleId × Nat × Nat)`
  `Lemmas/C13TraceInv.lean`   its invariant `tokenize_calls` (`Thread`, `Lam`, `Good`)

  Here (namespace `MdIt.Block.Tr`, then `MdIt.Pipeline`):
    `tokenize_trace`               (1) the trace specification of the block pass: same state as the
                                   model; every entry a successful `ruleAt` call on a view of the source's
                                   lines; entries laminar in their line ranges (later entry behind the
                                   earlier one, or inside it if that is a container), so the calls of
                                   `reference` are strictly increasing in line — execution order =
                                   document order; the reference map threaded through exactly these calls
    `docTrace_laminar`             the same on the projection `docTrace` (rule, start line, end line)
    `defs_in_line_order`           (2) the `defs` of `parseBlocks_refs`: one per `reference` entry of
                                   the trace, in that order = sorted by start line, disjoint line
                                   ranges; each is `refParse` of the text `get_lines` cuts out of the
                                   source's lines `start .. n` through the container's view
    `doc_first_definition_by_line` (3) a use — anywhere in the document — gets destination and title of
                                   the matching definition with the SMALLEST START LINE
    `doc_first_definition_by_line_idem`   … matching = equal non-empty normal forms (idempotent `N`)
    `doc_two_definitions`          the template: a document that begins  D₁ ⏎ D₂ ⏎ ⏎ … : every use
                                   whose label matches D₁'s resolves to D₁ (whatever D₂ and the rest
                                   are; `Lemmas/C13TraceTemplate.lean`: `leading_definition_stored`)
    `two_definitions_quoted`, `two_definitions_item`   the same document `"> "`-prefixed / as the content
                                   of a bullet list item: the block pass collects the same map
  OPEN block at the end (exact line extent of a definition; generic labels; `parseDoc` in containers).
-/
import MdIt.Lemmas.C13TraceInv
import MdIt.Lemmas.C13TraceTemplate
import MdIt.Props.C06List

namespace MdIt.Block.Tr
open MdIt.Lines (LineOffset)
open MdIt.Block

/-! ## (1) the trace specification -/

/-- the laminarity relation on trace entries -/
def FollowsE (e₁ e₂ : RuleId × Nat × Nat) : Prop :=
  e₁.2.2 ≤ e₂.2.1 ∨ (isContainer e₁.1 = true ∧ e₁.2.1 ≤ e₂.2.1 ∧ e₂.2.2 ≤ e₁.2.2)

/-- **`tokenize_trace`.**  The instrumented tokenizer returns the state the model returns, and — on
    a state whose table shows lines of the source (`SOk`; the fresh state of `parseBlocks` does) —
    a list of calls such that
    * every call is a successful real-mode call `ruleAt cfg f rule pre false = .ok (true, post)` on a
      state over the same source whose table entry `k` cuts a piece out of source line `k`, it starts
      below `line_max` and ends at most there (`Good`);
    * the calls lie within `[s.line, s'.line]`, each consumes at least one line, and of any two the
      later one lies BEHIND the earlier one (`stop ≤ start`) or INSIDE it, the earlier one being a
      container (`blockquote` / `list`) — increasing line order within one container, containers
      nested by their own line ranges (`Lam`);
    * hence the calls of `reference` (or of any other non-container rule) have pairwise disjoint,
      strictly increasing line ranges: execution order = document (line) order;
    * the reference map goes from `s.refs` to `s'.refs` through the `reference` calls only, each
      performing ONE `Refs.addDef` of the definition it read off its lines (`Thread`, `IsDefAt`). -/
theorem tokenize_trace (cfg : Cfg) (fuel : Nat) (s s' : BState) (cs : Calls)
    (h : tokenizeT cfg fuel s = .ok (s', cs)) (hS : SOk s) (hle : s.line ≤ s.lineMax) :
    tokenize cfg fuel s = .ok s' ∧
    (∀ c ∈ cs, Good cfg s.src c) ∧
    Lam s.line s'.line cs ∧
    (∀ r, isContainer r = false →
      (cs.filter (fun c => c.rule = r)).Pairwise (fun c₁ c₂ => c₁.stop ≤ c₂.start)) ∧
    Thread cfg s.refs s'.refs cs := by
  obtain ⟨ht, rfl⟩ := tokenizeT_ok h
  have P := tokenize_calls cfg fuel s s' ht hS hle
  exact ⟨ht, P.good, P.lam, fun r hr => P.lam.sorted r hr, P.thread⟩

/-- a successful model run has an instrumented run (the converse of `tokenizeT_ok`) -/
theorem tokenizeT_of_ok {cfg : Cfg} {fuel : Nat} {s s' : BState} (h : tokenize cfg fuel s = .ok s') :
    tokenizeT cfg fuel s = .ok (s', engineCalls cfg fuel s) := by
  unfold tokenizeT; rw [h]

theorem parseBlocks_tok {cfg : Cfg} {src : List Char} {root : BNode} {refs : Refs.RefMap}
    (h : parseBlocks cfg src = .ok (root, refs)) :
    ∃ s', tokenize cfg (fuelFor cfg src) (BState.fresh src .root []) = .ok s' ∧ s'.refs = refs := by
  unfold parseBlocks at h
  split at h
  · cases h
  · rename_i s hs
    simp only [Except.ok.injEq, Prod.mk.injEq] at h
    exact ⟨s, hs, h.2⟩

/-- the invariant for the block pass of a document -/
theorem parseBlocks_calls {cfg : Cfg} {src : List Char} {root : BNode} {refs : Refs.RefMap}
    (h : parseBlocks cfg src = .ok (root, refs)) :
    ∃ n, n ≤ (Lines.splitLines src).length ∧ Seg cfg src [] refs 0 n (docCalls cfg src) := by
  obtain ⟨s', hs, rfl⟩ := parseBlocks_tok h
  have P := tokenize_calls cfg _ _ _ hs (sOk_fresh src .root []) (Nat.zero_le _)
  have hup := (tokenize_spec cfg _ _ _ hs).upper (tableOk_fresh src .root []) (Nat.zero_le _)
  exact ⟨s'.line, hup, P⟩

/-- **the trace of a document is laminar**: of two entries (rule, start, end) the later one lies behind
    the earlier one or inside it (then the earlier one is a container); every entry has
    `start < end ≤ number of lines` -/
theorem docTrace_laminar {cfg : Cfg} {src : List Char} {root : BNode} {refs : Refs.RefMap}
    (h : parseBlocks cfg src = .ok (root, refs)) :
    (docTrace cfg src).Pairwise FollowsE ∧
    ∀ e ∈ docTrace cfg src, e.2.1 < e.2.2 ∧ e.2.2 ≤ (Lines.splitLines src).length := by
  obtain ⟨n, hn, P⟩ := parseBlocks_calls h
  refine ⟨?_, ?_⟩
  · unfold docTrace traceOf
    rw [List.pairwise_map]
    exact P.lam.pw
  · intro e he
    unfold docTrace traceOf at he
    obtain ⟨c, hc, rfl⟩ := List.mem_map.mp he
    have hb := P.lam.bounds c hc
    exact ⟨hb.2.1, by simp only; omega⟩

/-! ## (2) the definitions of the document, by line -/

/-- a table that shows the lines of `src`: entry `k` has the `line_start` / `line_end` of line `k` of
    the source's own table, and cuts a line-feed-free piece `a ++ b` of that line out of the source
    with `first_nonspace` between `a` and `b` (`LineOk`) -/
def View (src : List Char) (offs : List LineOffset) : Prop :=
  offs.map geo = (Lines.splitLines src).map geo ∧
    ∀ (k : Nat) (o : LineOffset), offs[k]? = some o → LineOk src o

/-- **the definition `d` stands on the lines `a .. b - 1` of the source**: through some view of the
    source's lines (the table of the container the definition sits in — the source's own table at top
    level — and that container's block indent) `get_lines` cuts the text of the lines `a .. n - 1`
    (`n ≥ b`: up to where the paragraph-continuation scan stopped), namely the views of these lines
    (`Lines.Shows`: blanks and text of line `a + j`) joined by line feeds, and `refParse` of the
    trimmed text is `d` — label, destination, title — ending `b - a - 1` line feeds into the text;
    the label is not blank -/
def DefOnLines (cfg : Cfg) (src : List Char) (a b : Nat) (d : Refs.Def) : Prop :=
  ∃ (offs : List LineOffset) (blk n : Nat) (txt : List Char) (mp : List (Nat × Nat))
    (vs : List (List Char × List Char × Int)),
    View src offs ∧ a < b ∧ b ≤ n ∧ n ≤ offs.length ∧
    Lines.getLines src offs a n blk false = .ok (txt, mp) ∧
    vs.length = n - a ∧ (∀ j (hj : j < vs.length), ∃ o, offs[a + j]? = some o ∧ Lines.Shows src o vs[j]) ∧
    txt = Lines.joinLines false (vs.map (Lines.viewPiece blk)) ∧
    refParse cfg (trimStr txt) = .ok (some (d.label, d.entry.dest, d.entry.title, b - a - 1)) ∧
    cfg.N d.label ≠ []

theorem DefOnLines.isDef {cfg : Cfg} {src : List Char} {a b : Nat} {d : Refs.Def}
    (h : DefOnLines cfg src a b d) : IsDef cfg d := by
  obtain ⟨_, _, _, txt, _, _, _, _, _, _, _, _, _, _, hp, _⟩ := h
  exact ⟨_, _, hp⟩

theorem getLines_of_state {s : BState} {b e indent : Nat} {c : List Char} {m : List (Nat × Nat)}
    (h : s.getLines b e indent false = .ok (c, m)) :
    Lines.getLines s.src s.offs b e indent false = .ok (c, m) := by
  unfold BState.getLines at h
  cases hx : Lines.getLines s.src s.offs b e indent false with
  | error er => rw [hx] at h; cases er <;> simp [liftL] at h
  | ok v => rw [hx] at h; simp [liftL] at h; rw [h]

/-- from the call to the source -/
theorem defOnLines_of_call {cfg : Cfg} {src : List Char} {c : Call} {d : Refs.Def}
    (hg : Good cfg src c) (hd : IsDefAt cfg c.pre c.post d) : DefOnLines cfg src c.start c.stop d := by
  obtain ⟨n, txt, mp, lines, hline, hn, hmax, hgl, hparse, hne⟩ := hd
  have hgl' := getLines_of_state hgl
  have hlt : c.pre.line < n := by omega
  have hlen : n ≤ c.pre.offs.length := by
    unfold Lines.getLines at hgl'
    rw [if_neg (by omega)] at hgl'
    exact Lines.getLinesGo_ok_len hgl' hlt
  obtain ⟨vs, hvl, hvs, _⟩ := views_of_tableOk hg.ok.table (n - c.pre.line) c.pre.line (by omega)
  obtain ⟨m', hm'⟩ := Lines.get_lines_lf c.pre.src c.pre.offs c.pre.line c.pre.blkIndent false vs hvs
  rw [hvl, show c.pre.line + (n - c.pre.line) = n by omega, hgl'] at hm'
  simp only [Except.ok.injEq, Prod.mk.injEq] at hm'
  have hsrc := hg.src
  subst hsrc
  have hview : View c.pre.src c.pre.offs := ⟨hg.ok.geo, hg.ok.table⟩
  have hlt' : c.start < c.stop := by show c.pre.line < c.post.line; omega
  have e : c.stop - c.start - 1 = lines := by
    show c.post.line - c.pre.line - 1 = lines; omega
  rw [← e] at hparse
  exact ⟨c.pre.offs, c.pre.blkIndent, n, txt, mp, vs, hview, hlt', hn, hlen, hgl', hvl, hvs, hm'.1,
    hparse, hne⟩

/-- the first hit of a search in a list sorted by `R` is `R`-below every other hit -/
theorem find?_first {α : Type} {R : α → α → Prop} {p : α → Bool} :
    ∀ {l : List α} {x : α}, l.Pairwise R → l.find? p = some x →
      x ∈ l ∧ p x = true ∧ ∀ y ∈ l, p y = true → y = x ∨ R x y
  | [], _, _, h => by simp at h
  | a :: r, x, hp, h => by
    rw [List.find?_cons] at h
    rw [List.pairwise_cons] at hp
    split at h
    · rename_i ha
      cases h
      refine ⟨by simp, ha, ?_⟩
      intro y hy _
      rcases List.mem_cons.mp hy with rfl | hy
      · exact .inl rfl
      · exact .inr (hp.1 y hy)
    · rename_i ha
      obtain ⟨h1, h2, h3⟩ := find?_first hp.2 h
      refine ⟨List.mem_cons_of_mem _ h1, h2, ?_⟩
      intro y hy hpy
      rcases List.mem_cons.mp hy with rfl | hy
      · rw [hpy] at ha; cases ha
      · exact h3 y hy hpy

/-- **`defs_in_line_order`.**  The `defs` of `parseBlocks_refs` by SOURCE LINE: there is a list `L`
    of (call, definition) with
    * its calls are exactly the `reference` entries of the document's trace, in trace order;
    * the final reference map is `Refs.buildMap` — insert under the normalised label if absent — over
      its definitions, in that order;
    * it is SORTED BY LINE with disjoint line ranges: of two members the earlier one ends
      (`stop`) at or before the line the later one starts on;
    * each definition stands on the lines `start .. stop - 1` of the source (`DefOnLines`: `refParse`
      of what `get_lines` reads of these lines through the view of its container), `stop` at most
      the number of lines. -/
theorem defs_in_line_order {cfg : Cfg} {src : List Char} {root : BNode} {refs : Refs.RefMap}
    (h : parseBlocks cfg src = .ok (root, refs)) :
    ∃ L : List (Call × Refs.Def),
      L.map Prod.fst = (docCalls cfg src).filter (fun c => c.rule = .reference) ∧
      refs = Refs.buildMap cfg.N (L.map Prod.snd) ∧
      L.Pairwise (fun x y => x.1.stop ≤ y.1.start) ∧
      ∀ x ∈ L, x.1.stop ≤ (Lines.splitLines src).length ∧ DefOnLines cfg src x.1.start x.1.stop x.2 := by
  obtain ⟨n, hn, P⟩ := parseBlocks_calls h
  obtain ⟨L, h1, h2, h3⟩ := P.thread.defs
  have hmem : ∀ x ∈ L, x.1 ∈ docCalls cfg src := by
    intro x hx
    have : x.1 ∈ L.map Prod.fst := List.mem_map_of_mem hx
    rw [h1] at this
    exact (List.mem_filter.mp this).1
  refine ⟨L, h1, h3, ?_, ?_⟩
  · have hs := P.lam.sorted .reference rfl
    rw [← h1, List.pairwise_map] at hs
    exact hs
  · intro x hx
    have hb := P.lam.bounds _ (hmem x hx)
    exact ⟨by omega, defOnLines_of_call (P.good _ (hmem x hx)) (h2 x hx).isDef⟩

/-- the trace entries of the definitions -/
theorem defs_trace_entries {cfg : Cfg} {src : List Char} (L : List (Call × Refs.Def))
    (h : L.map Prod.fst = (docCalls cfg src).filter (fun c => c.rule = .reference)) :
    L.map (fun x => (RuleId.reference, x.1.start, x.1.stop)) =
      (docTrace cfg src).filter (fun e => e.1 = .reference) := by
  unfold docTrace traceOf
  rw [List.filter_map]
  have : ((fun e : RuleId × Nat × Nat => decide (e.1 = RuleId.reference)) ∘
      fun c : Call => (c.rule, c.start, c.stop)) = fun c => decide (c.rule = .reference) := rfl
  rw [this, ← h, List.map_map]
  apply List.map_congr_left
  intro x hx
  have : x.1 ∈ L.map Prod.fst := List.mem_map_of_mem hx
  rw [h] at this
  have hr : x.1.rule = .reference := by simpa using (List.mem_filter.mp this).2
  simp [hr]

end MdIt.Block.Tr

/-! ## (3) the document: the matching definition with the smallest start line -/

namespace MdIt.Pipeline
open MdIt.Block.Tr (Call docCalls docTrace DefOnLines)

/-- what a reference use with label `label` finds in the document's reference map (the reference
    tail of `Inline.parseLinkRef` under `cfg.inlineCfg refs`: nothing if the map is absent) -/
def docLookup (cfg : DocCfg) (refs : Refs.RefMap) (label : List Nat) : Option Refs.Entry :=
  match (cfg.inlineCfg refs).refs with
  | none => none
  | some m => Refs.lookup (cfg.inlineCfg refs).normRef m label

theorem docLookup_eq (cfg : DocCfg) (defs : List Refs.Def) (label : List Nat) :
    docLookup cfg (Refs.buildMap cfg.blockCfg.N defs) label =
      (defs.find? (Refs.defHasKey cfg.blockCfg.N (cfg.blockCfg.N label))).map (·.entry) := by
  rw [← Refs.first_wins_raw]
  generalize Refs.buildMap cfg.blockCfg.N defs = refs
  show (match (if refs.isEmpty then none else some refs) with
        | none => none
        | some m => Refs.lookup (Refs.normalize cfg.L cfg.U) m label) = _
  split
  · rename_i hnone
    split at hnone
    · rename_i he
      have : refs = [] := by simpa using he
      rw [this]; rfl
    · cases hnone
  · rename_i m hsome
    split at hsome
    · cases hsome
    · cases hsome; rfl

/-- **`doc_first_definition_by_line` (C13 by source line).**  For every parsed document there is
    the list `L` of its link reference definitions, each with the `reference` call of the block pass
    that read it — exactly the `reference` entries of the document's trace, sorted by line, with
    disjoint line ranges, each definition standing on its lines of the source (`DefOnLines`) — such
    that a reference use with label `label`, ANYWHERE in the document (every `InlineRoot` is parsed
    under the one configuration `cfg.inlineCfg refs`: `doc_reference_position_irrelevant`), finds
    * nothing, if no definition of `L` has the key `N label` (stored key = label normalised twice,
      label not blank), and otherwise
    * destination and title of a definition `x ∈ L` with that key whose START LINE IS THE SMALLEST:
      every other definition with that key starts at or behind the line on which `x` ends. -/
theorem doc_first_definition_by_line (cfg : DocCfg) (src : List Char) (t : Node)
    (h : parseDoc cfg src = .ok t) :
    ∃ (root : Block.BNode) (refs : Refs.RefMap) (L : List (Call × Refs.Def)),
      Block.parseBlocks cfg.blockCfg src = .ok (root, refs) ∧
      L.map (fun x => (Block.RuleId.reference, x.1.start, x.1.stop)) =
        (docTrace cfg.blockCfg src).filter (fun e => e.1 = .reference) ∧
      L.Pairwise (fun x y => x.1.stop ≤ y.1.start) ∧
      (∀ x ∈ L, x.1.stop ≤ (Lines.splitLines src).length ∧
        DefOnLines cfg.blockCfg src x.1.start x.1.stop x.2) ∧
      ∀ label : List Nat,
        let hit := fun x : Call × Refs.Def => Refs.defHasKey cfg.blockCfg.N (cfg.blockCfg.N label) x.2
        match L.find? hit with
        | none => docLookup cfg refs label = none ∧ ∀ x ∈ L, hit x = false
        | some x => docLookup cfg refs label = some x.2.entry ∧ x ∈ L ∧ hit x = true ∧
            ∀ y ∈ L, hit y = true → y = x ∨ x.1.stop ≤ y.1.start := by
  unfold parseDoc at h
  split at h
  · cases h
  · rename_i root refs hb
    obtain ⟨L, h1, h2, h3, h4⟩ := Block.Tr.defs_in_line_order hb
    refine ⟨root, refs, L, hb, Block.Tr.defs_trace_entries L h1, h3, h4, ?_⟩
    intro label hit
    have hl := docLookup_eq cfg (L.map Prod.snd) label
    rw [← h2, List.find?_map] at hl
    have hcomp : (Refs.defHasKey cfg.blockCfg.N (cfg.blockCfg.N label) ∘ Prod.snd) = hit := rfl
    rw [hcomp] at hl
    split
    · rename_i hnone
      rw [hnone] at hl
      refine ⟨by simpa using hl, ?_⟩
      intro x hx
      have := List.find?_eq_none.mp hnone x hx
      simpa using this
    · rename_i x hsome
      rw [hsome] at hl
      obtain ⟨hx, hp, hmin⟩ := Block.Tr.find?_first h3 hsome
      exact ⟨by simpa using hl, hx, hp, hmin⟩

/-- … with an idempotent label normalisation (`Refs.normalize_idem`; the generated Unicode tables:
    `Refs.table_normalize_idem`) "has the key `N label`" is "has the same non-empty normal form":
    the use gets the entry of the definition with the SMALLEST START LINE among those whose
    normalised label equals the normalised label of the use -/
theorem doc_first_definition_by_line_idem (cfg : DocCfg)
    (hN : ∀ s, cfg.blockCfg.N (cfg.blockCfg.N s) = cfg.blockCfg.N s)
    (src : List Char) (t : Node) (h : parseDoc cfg src = .ok t) :
    ∃ (root : Block.BNode) (refs : Refs.RefMap) (L : List (Call × Refs.Def)),
      Block.parseBlocks cfg.blockCfg src = .ok (root, refs) ∧
      L.map (fun x => (Block.RuleId.reference, x.1.start, x.1.stop)) =
        (docTrace cfg.blockCfg src).filter (fun e => e.1 = .reference) ∧
      L.Pairwise (fun x y => x.1.stop ≤ y.1.start) ∧
      (∀ x ∈ L, x.1.stop ≤ (Lines.splitLines src).length ∧
        DefOnLines cfg.blockCfg src x.1.start x.1.stop x.2) ∧
      ∀ label : List Nat,
        let hit := fun x : Call × Refs.Def => Refs.labelMatches cfg.blockCfg.N label x.2
        match L.find? hit with
        | none => docLookup cfg refs label = none ∧ ∀ x ∈ L, hit x = false
        | some x => docLookup cfg refs label = some x.2.entry ∧ x ∈ L ∧ hit x = true ∧
            ∀ y ∈ L, hit y = true → y = x ∨ x.1.stop ≤ y.1.start := by
  obtain ⟨root, refs, L, hb, h1, h2, h3, h4⟩ := doc_first_definition_by_line cfg src t h
  refine ⟨root, refs, L, hb, h1, h2, h3, ?_⟩
  intro label
  have : Refs.defHasKey cfg.blockCfg.N (cfg.blockCfg.N label) = Refs.labelMatches cfg.blockCfg.N label := by
    funext d; simp [Refs.defHasKey, Refs.labelMatches, hN]
  have h5 := h4 label
  simp only [this] at h5
  exact h5

end MdIt.Pipeline

/-! ## examples: the hypotheses are satisfiable, what the trace looks like -/

namespace MdIt.Block.Tr

/-- the block view of `Pipeline.exCfg` (stock chain, ASCII case tables) -/
abbrev exB : Cfg := (Pipeline.exCfg false 100).blockCfg

theorem ok_of_isSome {ε α : Type} {x : Except ε α} (h : x.toOption.isSome = true) : ∃ a, x = .ok a := by
  cases x with
  | error e => simp [Except.toOption] at h
  | ok a => exact ⟨a, rfl⟩

/-- a definition at top level, one in a quote, one in a quote in that quote, one (two lines: title on
    the second) in a list item, a second item, a use: the trace.  Containers come with the calls of
    their contents behind them, nested by line range; the `reference` entries read 0‥1, 1‥2, 2‥3, 4‥6 —
    increasing -/
def exNested : List Char := "[a]: /x\n> [A]: /y\n> > [c]: /w\n\n- [b]: /z\n  't'\n- q\n\n[a]".toList

example : docTrace exB exNested =
    [(.reference, 0, 1), (.blockquote, 1, 3), (.reference, 1, 2), (.blockquote, 2, 3), (.reference, 2, 3),
     (.list, 4, 8), (.reference, 4, 6), (.paragraph, 6, 7), (.paragraph, 8, 9)] := by decide +kernel

/-- … and its map: `[A]` lost against `[a]` (line 1 against line 0) -/
example : (parseBlocks exB exNested).toOption.map (·.2) =
    some [([65], ⟨[47, 120], none⟩), ([67], ⟨[47, 119], none⟩), ([66], ⟨[47, 122], some [116]⟩)] := by
  decide +kernel

/-- `defs_in_line_order` on that document: four definitions, on the lines the trace says -/
example : ∃ L : List (Call × Refs.Def),
    L.map (fun x => (RuleId.reference, x.1.start, x.1.stop)) =
      [(.reference, 0, 1), (.reference, 1, 2), (.reference, 2, 3), (.reference, 4, 6)] ∧
    L.Pairwise (fun x y => x.1.stop ≤ y.1.start) ∧
    ∀ x ∈ L, DefOnLines exB exNested x.1.start x.1.stop x.2 := by
  obtain ⟨⟨root, refs⟩, h⟩ := ok_of_isSome (x := parseBlocks exB exNested) (by decide +kernel)
  obtain ⟨L, h1, _, h3, h4⟩ := defs_in_line_order h
  refine ⟨L, ?_, h3, fun x hx => (h4 x hx).2⟩
  rw [defs_trace_entries L h1]
  decide +kernel

/-- a definition can not interrupt a paragraph: `[b]: /y` on line 2 is paragraph text, the trace has
    one `reference` entry -/
example : docTrace exB "[a]: /x\nfoo\n[b]: /y".toList = [(.reference, 0, 1), (.paragraph, 1, 3)] := by
  decide +kernel

/-- a definition spread over five lines (label, destination and title each broken), then one more -/
example : docTrace exB "[a\nb]:\n/x\n'ti\ntle'\n[c]: /d".toList = [(.reference, 0, 5), (.reference, 5, 6)] := by
  decide +kernel

/-- the lines READ may exceed the lines CONSUMED (`n > stop` in `DefOnLines`): the title candidate on
    line 1 is followed by garbage, the rule rolls back to the end of the destination and consumes
    line 0 only; line 1 becomes a paragraph.  Inside a block quote with line 1 a lazy continuation
    line this ends the QUOTE at line 1 (entry `(blockquote, 0, 1)`): the lazy line is re-read by the
    enclosing tokenizer and becomes a paragraph OUTSIDE the quote (same in the Rust; see the report) -/
example : docTrace exB "[a]: /x\n't' x".toList = [(.reference, 0, 1), (.paragraph, 1, 2)] := by
  decide +kernel
example : docTrace exB "> [a]: /x\n't' x".toList =
    [(.blockquote, 0, 1), (.reference, 0, 1), (.paragraph, 1, 2)] := by decide +kernel
/-- … while a well-formed title on the lazy line belongs to the definition in the quote -/
example : docTrace exB "> [a]: /x\n't'".toList = [(.blockquote, 0, 2), (.reference, 0, 2)] := by
  decide +kernel

end MdIt.Block.Tr

namespace MdIt.Pipeline

/-- `doc_first_definition_by_line`: its hypothesis holds on a document with two matching definitions
    (different case) and a use; the use gets the one on line 0 -/
example : ∃ t, parseDoc (exCfg false 100) "[a]: /x\n[A]: /y\n\n[a]".toList = .ok t :=
  Block.Tr.ok_of_isSome (by decide +kernel)

example : (Block.parseBlocks (exCfg false 100).blockCfg "[a]: /x\n[A]: /y\n\n[a]".toList).toOption.map
    (fun r => docLookup (exCfg false 100) r.2 [97]) = some (some ⟨[47, 120], none⟩) := by decide +kernel

/-- the same with the definitions in a quote and in a list item, the use in front: line order decides -/
example : (Block.parseBlocks (exCfg false 100).blockCfg "[a]\n\n- [A]: /y\n\n> [a]: /x".toList).toOption.map
    (fun r => docLookup (exCfg false 100) r.2 [97]) = some (some ⟨[47, 121], none⟩) := by decide +kernel

end MdIt.Pipeline

/-! ## the template: two adjacent definitions in front -/

namespace MdIt.Pipeline
open MdIt.Block (docOf)
open MdIt.Lines (NoTerm)

/-- **`doc_two_definitions`.**  A document that begins with two adjacent definition lines and a
    blank line,

          `[`rest₁ ⏎ `[`rest₂ ⏎ ⏎ R…        (e.g.  `[l]: /a ⏎ [l']: /b ⏎ ⏎ [use]`),

    `R ≠ []` ANY further lines (the last one not empty), the reference rule in the block chain
    behind rules that look at the first line only, `refParse` of the text `D₁ ⏎ D₂` the reference
    rule reads at line 0 yielding label `raw` (not blank), destination `href` and `title` with the
    definition ending on line 0: EVERY reference use of the document whose label has the normal form
    of the stored key of `D₁` — `N use = N (N raw)`, in particular `N use = N raw` for an idempotent
    `N` — finds `href` / `title` of the FIRST line, whatever the second line (a definition with
    the same label and another destination, say) and the rest of the document define. -/
theorem doc_two_definitions (cfg : DocCfg) (pre post : List Block.RuleId)
    (hchain : cfg.blockChain = pre ++ Block.RuleId.reference :: post)
    (hpre : Block.RuleId.paragraph ∉ pre) (hpre' : Block.RuleId.reference ∉ pre)
    (hpre'' : Block.RuleId.lheading ∉ pre) (hmax : 0 < cfg.maxNesting)
    (rest₁ rest₂ : List Char) (R : List (List Char)) (hR : R ≠ [])
    (hnt : ∀ l ∈ ('[' :: rest₁) :: ('[' :: rest₂) :: [] :: R, NoTerm l)
    (hlast : (('[' :: rest₁) :: ('[' :: rest₂) :: [] :: R).getLast? ≠ some [])
    (hq : Block.refQuick false rest₁ = true) (raw href : List Nat) (title : Option (List Nat))
    (hparse : Block.refParse cfg.blockCfg (Block.trimStr ('[' :: (rest₁ ++ '\n' :: '[' :: rest₂))) =
      .ok (some (raw, href, title, 0)))
    (hlab : (Refs.normalize cfg.L cfg.U raw).isEmpty = false)
    (t : Node) (h : parseDoc cfg (docOf (('[' :: rest₁) :: ('[' :: rest₂) :: [] :: R)) = .ok t) :
    ∃ (root : Block.BNode) (refs : Refs.RefMap),
      Block.parseBlocks cfg.blockCfg (docOf (('[' :: rest₁) :: ('[' :: rest₂) :: [] :: R)) = .ok (root, refs) ∧
      ∀ use : List Nat, cfg.blockCfg.N use = cfg.blockCfg.N (cfg.blockCfg.N raw) →
        docLookup cfg refs use = some ⟨href, title⟩ := by
  unfold parseDoc at h
  split at h
  · cases h
  · rename_i root refs hb
    refine ⟨root, refs, hb, ?_⟩
    have hget := Block.Tr.leading_definition_stored cfg.blockCfg pre post hchain hpre hpre' hpre'' hmax
      rest₁ rest₂ R hR hnt hlast hq raw href title hparse hlab root refs hb
    intro use huse
    have hne : refs.isEmpty = false := by
      cases refs with
      | nil => simp [Refs.RefMap.get] at hget
      | cons a r => rfl
    show (match (if refs.isEmpty then none else some refs) with
          | none => none
          | some m => Refs.lookup (Refs.normalize cfg.L cfg.U) m use) = _
    rw [hne]
    show refs.get (cfg.blockCfg.N use) = _
    rw [huse]
    exact hget

/-- the instance  `[k]: /a ⏎ [K]: /b ⏎ ⏎ [k]`  (labels equal up to case, destinations `/a` ≠ `/b`):
    every hypothesis of `doc_two_definitions` holds, the use resolves to `/a` -/
example : ∃ (root : Block.BNode) (refs : Refs.RefMap),
    Block.parseBlocks (exCfg false 100).blockCfg (docOf ["[k]: /a".toList, "[K]: /b".toList, [], "[k]".toList]) =
      .ok (root, refs) ∧
    docLookup (exCfg false 100) refs [107] = some ⟨[47, 97], none⟩ := by
  obtain ⟨t, ht⟩ := Block.Tr.ok_of_isSome
    (x := parseDoc (exCfg false 100) (docOf ["[k]: /a".toList, "[K]: /b".toList, [], "[k]".toList]))
    (by decide +kernel)
  obtain ⟨root, refs, hb, hl⟩ := doc_two_definitions (exCfg false 100)
    [.code, .fence, .blockquote, .hr, .list] [.heading, .lheading, .paragraph] rfl (by decide) (by decide)
    (by decide) (by decide) "k]: /a".toList "K]: /b".toList ["[k]".toList] (by decide)
    (by unfold NoTerm; decide) (by decide) (by decide) [107] [47, 97] none
    (Block.C12D.ok_of_toOption (by decide +kernel)) (by decide +kernel) t ht
  exact ⟨root, refs, hb, hl [107] (by decide +kernel)⟩

/-- … the same two definitions inside a block quote / a list item (by evaluation; the symbolic run
    inside containers is in the OPEN block): the first LINE wins there too -/
example : (Block.parseBlocks (exCfg false 100).blockCfg "> [k]: /a\n> [K]: /b\n\n[k]".toList).toOption.map
    (fun r => docLookup (exCfg false 100) r.2 [107]) = some (some ⟨[47, 97], none⟩) := by decide +kernel
example : (Block.parseBlocks (exCfg false 100).blockCfg "- [k]: /a\n  [K]: /b\n\n[k]".toList).toOption.map
    (fun r => docLookup (exCfg false 100) r.2 [107]) = some (some ⟨[47, 97], none⟩) := by decide +kernel
example : Block.Tr.docTrace (exCfg false 100).blockCfg "- [k]: /a\n  [K]: /b\n\n[k]".toList =
    [(.list, 0, 3), (.reference, 0, 1), (.reference, 1, 2), (.paragraph, 3, 4)] := by decide +kernel

end MdIt.Pipeline

/-! ## … and inside a block quote / a list item -/

namespace MdIt.Block.Tr
open MdIt.Lines (NoTerm)

/-- the two-definition document `"> "`-prefixed line by line (`Block.prefixQuote`): by
    `Block.quote_commutes` the block pass collects the SAME map, so the definition of the first line
    wins inside the quote as well -/
theorem two_definitions_quoted (cfg : Cfg) (pre post : List RuleId)
    (hchain : cfg.chain = pre ++ RuleId.reference :: post)
    (hpre : RuleId.paragraph ∉ pre) (hpre' : RuleId.reference ∉ pre) (hpre'' : RuleId.lheading ∉ pre)
    (hmax : 0 < cfg.maxNesting)
    (rest₁ rest₂ : List Char) (R : List (List Char)) (hR : R ≠ [])
    (hnt : ∀ l ∈ ('[' :: rest₁) :: ('[' :: rest₂) :: [] :: R, NoTerm l)
    (hlast : (('[' :: rest₁) :: ('[' :: rest₂) :: [] :: R).getLast? ≠ some [])
    (hq : refQuick false rest₁ = true) (raw href : List Nat) (title : Option (List Nat))
    (hparse : refParse cfg (trimStr ('[' :: (rest₁ ++ '\n' :: '[' :: rest₂))) =
      .ok (some (raw, href, title, 0)))
    (hlab : (Refs.normalize cfg.L cfg.U raw).isEmpty = false)
    (htab : '\t' ∉ docOf (('[' :: rest₁) :: ('[' :: rest₂) :: [] :: R))
    (hsize : Lines.byteLen (docOf (('[' :: rest₁) :: ('[' :: rest₂) :: [] :: R)) + 8 < 2147483648)
    (preQ postQ : List RuleId) (hchainQ : cfg.chain = preQ ++ .blockquote :: postQ)
    (hpreQ : ∀ r ∈ preQ, frontOk r = true) (root : BNode) (refs : Refs.RefMap)
    (h : parseBlocks cfg (docOf (('[' :: rest₁) :: ('[' :: rest₂) :: [] :: R)) = .ok (root, refs)) :
    ∃ root', parseBlocks { cfg with maxNesting := cfg.maxNesting + 1 }
        (prefixQuote (docOf (('[' :: rest₁) :: ('[' :: rest₂) :: [] :: R))) = .ok (root', refs) ∧
      refs.get (cfg.N (cfg.N raw)) = some ⟨href, title⟩ := by
  obtain ⟨r, _, hq'⟩ := quote_commutes cfg _ htab hsize preQ postQ hchainQ hpreQ h
  exact ⟨_, hq', leading_definition_stored cfg pre post hchain hpre hpre' hpre'' hmax rest₁ rest₂ R hR hnt
    hlast hq raw href title hparse hlab root refs h⟩

/-- … and as the content of a bullet list item (`Li.itemDoc [c]`: first line behind `c␣`, the others
    indented by two columns; `Li.item_commutes_bullet`) -/
theorem two_definitions_item (cfg : Cfg) (pre post : List RuleId)
    (hchain : cfg.chain = pre ++ RuleId.reference :: post)
    (hpre : RuleId.paragraph ∉ pre) (hpre' : RuleId.reference ∉ pre) (hpre'' : RuleId.lheading ∉ pre)
    (hmax : 0 < cfg.maxNesting)
    (rest₁ rest₂ : List Char) (R : List (List Char)) (hR : R ≠ [])
    (hnt : ∀ l ∈ ('[' :: rest₁) :: ('[' :: rest₂) :: [] :: R, NoTerm l)
    (hlast : (('[' :: rest₁) :: ('[' :: rest₂) :: [] :: R).getLast? ≠ some [])
    (hq : refQuick false rest₁ = true) (raw href : List Nat) (title : Option (List Nat))
    (hparse : refParse cfg (trimStr ('[' :: (rest₁ ++ '\n' :: '[' :: rest₂))) =
      .ok (some (raw, href, title, 0)))
    (hlab : (Refs.normalize cfg.L cfg.U raw).isEmpty = false)
    {c : Char} (hc : c = '-' ∨ c = '*' ∨ c = '+')
    (htab : '\t' ∉ docOf (('[' :: rest₁) :: ('[' :: rest₂) :: [] :: R))
    (hsize : Lines.byteLen (docOf (('[' :: rest₁) :: ('[' :: rest₂) :: [] :: R)) + 10 < 2147483648)
    (hfirst : Li.FirstOk (Lines.linesT (docOf (('[' :: rest₁) :: ('[' :: rest₂) :: [] :: R))))
    (preL postL : List RuleId) (hchainL : cfg.chain = preL ++ .list :: postL)
    (hpreL : ∀ r ∈ preL, Li.frontOkL r = true)
    (hhr : .hr ∈ preL → ∀ l0 t0 rest,
      Lines.linesT (docOf (('[' :: rest₁) :: ('[' :: rest₂) :: [] :: R)) = (l0, t0) :: rest →
      hrLook 0 (c :: ' ' :: l0) = false)
    (root : BNode) (refs : Refs.RefMap)
    (h : parseBlocks cfg (docOf (('[' :: rest₁) :: ('[' :: rest₂) :: [] :: R)) = .ok (root, refs)) :
    ∃ root', parseBlocks { cfg with maxNesting := cfg.maxNesting + 2 }
        (Li.itemDoc [c] (docOf (('[' :: rest₁) :: ('[' :: rest₂) :: [] :: R))) = .ok (root', refs) ∧
      refs.get (cfg.N (cfg.N raw)) = some ⟨href, title⟩ := by
  obtain ⟨t, ht, rfl⟩ := parseBlocks_tok h
  obtain ⟨r, _, hq'⟩ := Li.item_commutes_bullet cfg hc _ htab hsize hfirst hmax preL postL hchainL hpreL hhr ht
  exact ⟨_, hq', leading_definition_stored cfg pre post hchain hpre hpre' hpre'' hmax rest₁ rest₂ R hR hnt
    hlast hq raw href title hparse hlab root t.refs h⟩

/-- `two_definitions_quoted` on  `[k]: /a ⏎ [K]: /b ⏎ ⏎ [k]`  under the stock chain: every hypothesis
    holds -/
example : ∃ root' refs,
    parseBlocks { exB with maxNesting := exB.maxNesting + 1 }
      (prefixQuote (docOf ["[k]: /a".toList, "[K]: /b".toList, [], "[k]".toList])) = .ok (root', refs) ∧
    refs.get (exB.N (exB.N [107])) = some ⟨[47, 97], none⟩ := by
  obtain ⟨⟨root, refs⟩, h⟩ := ok_of_isSome
    (x := parseBlocks exB (docOf ["[k]: /a".toList, "[K]: /b".toList, [], "[k]".toList])) (by decide +kernel)
  obtain ⟨root', h1, h2⟩ := two_definitions_quoted exB
    [.code, .fence, .blockquote, .hr, .list] [.heading, .lheading, .paragraph] rfl (by decide) (by decide)
    (by decide) (by decide) "k]: /a".toList "K]: /b".toList ["[k]".toList] (by decide)
    (by unfold NoTerm; decide) (by decide) (by decide) [107] [47, 97] none
    (C12D.ok_of_toOption (by decide +kernel)) (by decide +kernel) (by decide +kernel) (by decide +kernel)
    [.code, .fence] [.hr, .list, .reference, .heading, .lheading, .paragraph] rfl (by decide) root refs h
  exact ⟨root', refs, h1, h2⟩

end MdIt.Block.Tr

/-
OPEN: `defOnLines_exact` — `DefOnLines cfg src a b d` says `d = refParse (trim (text of the lines a ‥ n-1))`
with `b ≤ n`, `n` = the line where the paragraph-continuation scan of the reference rule stopped (the
text the rule really read; the example `[a]: /x ⏎ 't' x` shows `n = 2 > b = 1`).  The statement with
exactly the definition's own lines, `d = refParse (trim (text of the lines a ‥ b-1))`, needs
Missing lemma `refParse_local`:
  `refParse cfg (trimStr (t ++ '\n' :: u)) = .ok (some (l, dest, title, k)) → k = nl t →
   refParse cfg (trimStr t) = .ok (some (l, dest, title, k))`
i.e. locality of `labelScan`, `Link.parseLinkDestination`, `Link.parseLinkTitle`, `refTrail`: none of
them reads behind the line feed that ends the definition EXCEPT to decide the roll-back "title
candidate followed by garbage" — the lemma has to be stated per branch of `refTrail` (with a title on
the last line; without / rolled back), and needs prefix lemmas for the two `Link` scanners over
`Link.slice str pos len` that `Props/C04.lean` does not have.

OPEN: `doc_two_definitions_labels` — `doc_two_definitions` (and `two_definitions_quoted` / `_item`) take
what `refParse` makes of the text `D₁ ⏎ D₂` as a hypothesis (`hparse`; discharged by `decide +kernel` for
concrete labels, see the example).  For GENERIC labels `l`, `l'` (no `[`, `]`, `\`, line feed; not
blank) and `D₁ = [l]: /a`, `D₂ = [l']: /b` the hypothesis should be a theorem.
Missing lemma `refParse_simple`:
  `(∀ c ∈ l, c ∉ ['[', ']', '\\', '\n']) → refParse cfg ('[' :: l ++ "]: /a\n[".toList ++ u) =
     .ok (some (l.map Char.toNat, "/a", none, 0))`  for `u` without a quote / paren in front,
a symbolic evaluation of `Link.parseLinkDestination` / `Link.parseLinkTitle` at a position
`byteLen l + 4` of an unknown string (both are defined over byte positions of the whole string; the
available lemmas `Link.parseLinkDestination_…` in `Props/C04.lean` are about the result's alphabet,
not about its value).

OPEN: `two_definitions_in_containers_doc` — `two_definitions_quoted` / `_item` are at the level of
`parseBlocks` (same map under `Block.quote_commutes` / `Li.item_commutes_bullet`); the statement for
`parseDoc` of the prefixed document (`docLookup` of a use in the prefixed document) needs that
`parseDoc` succeeds on the prefixed document, i.e. the inline half of C06 (`Props/C06.lean` covers the
block pass only).
-/
